import CM.Proofs.InlineSerSource
import CM.Proofs.EscapedTextRender
/-
Inline serialisation — part 9: rendering.  What `AppendBlock` writes for the finished nodes of a line, piece by piece
(`htmlP`, `htmlE`), and `render_slines`: the children of the paragraph render as the concatenation of the pieces' HTML.
-/
namespace CM.Proofs.InlSer
open CM CM.Gen CM.Model CM.Model.Inl CM.Proofs.EscText CM.Spec

theorem slice_mkInline (src : Bytes) (k : Nat) (a b : Nat) (h : a ≤ b) :
    Node.slice src (mkInline k (a : Int) (b : Int)) = sl src (a, b) := by
  simp [Node.slice, Node.spanValid, mkInline, Tree.label, sl, h]

theorem nodeTree_leafN (k a b : Nat) : nodeTree (leafN k a b) = mkInline k (a : Int) (b : Int) := rfl

section
variable (cx : RCtx) (par : Option Tree) (blk : Option Tree) (i : Int)

theorem rn_text (a b : Nat) (h : a ≤ b) :
    renderNode cx (nodeTree (leafN IK.text a b)) par blk i = escapeHTML (sl cx.src (a, b)) := by
  rw [nodeTree_leafN, mkInline, renderNode]
  simp [openBytes, Tree.label, preInline, IK.text]
  exact congrArg escapeHTML (slice_mkInline cx.src IK.text a b h)

theorem rn_ref (a b : Nat) (h : a ≤ b) :
    renderNode cx (nodeTree (leafN IK.charRef a b)) par blk i = sl cx.src (a, b) := by
  rw [nodeTree_leafN, mkInline, renderNode]
  simp [openBytes, Tree.label, preInline, IK.text, IK.charRef, IK.unparsed]
  exact slice_mkInline cx.src IK.charRef a b h

/-- What the renderer writes for a soft break whose node is not empty. -/
def softHtml (cx : RCtx) (sliceB : Bytes) : Bytes :=
  if cx.soft == 2 then openTag cx (str "br") ++ [LF] else if cx.soft == 1 then [SP] else sliceB

theorem rn_soft (a b : Nat) (h : a < b) :
    renderNode cx (nodeTree (leafN IK.softBreak a b)) par blk i = softHtml cx (sl cx.src (a, b)) := by
  rw [nodeTree_leafN, mkInline, renderNode]
  have hl : 0 < Node.spanLen (mkInline IK.softBreak (a : Int) (b : Int)) := by
    have hv : Node.spanValid (mkInline IK.softBreak (a : Int) (b : Int)) = true := by
      simp [Node.spanValid, mkInline, Tree.label]; omega
    rw [Node.spanLen, if_pos hv]
    simp [mkInline, Tree.label]; omega
  have hs := slice_mkInline cx.src IK.softBreak a b (Nat.le_of_lt h)
  simp only [mkInline, IK.softBreak] at hl hs
  simp [openBytes, Tree.label, preInline, IK.text, IK.charRef, IK.unparsed, IK.rawHTML, IK.softBreak, softHtml, hl, hs]

theorem rn_hard (a b : Nat) :
    renderNode cx (nodeTree (leafN IK.hardBreak a b)) par blk i = openTag cx (str "br") ++ [LF] := by
  rw [nodeTree_leafN, mkInline, renderNode]
  simp [openBytes, Tree.label, preInline, IK.text, IK.charRef, IK.unparsed, IK.rawHTML, IK.softBreak, IK.hardBreak]

/-- What the renderer writes for an autolink with destination `u`. -/
def autoHtml (cx : RCtx) (u : Bytes) : Bytes :=
  openTagAttr cx (str "a") ++ str " href=\"" ++ (if Model.isEmailAddress u then str "mailto:" else [])
    ++ escapeString (normalizeURI u) ++ str "\">" ++ escapeString u ++ closeTag cx (str "a")

theorem rn_auto (e p : Nat) (h : 2 ≤ e) :
    renderNode cx (nodeTree (autoNode e p)) par blk i = autoHtml cx (sl cx.src (p + 1, p + e - 1)) := by
  unfold autoNode nodeTree
  rw [renderNode]
  have hs := slice_mkInline cx.src IK.text (p + 1) (p + e - 1) (by omega)
  simp only [mkInline, IK.text, Int.natCast_add, Int.cast_ofNat_Int] at hs
  simp [openBytes, Tree.label, Tree.children, preInline, IK.text, IK.charRef, IK.unparsed, IK.rawHTML, IK.softBreak, IK.hardBreak,
    IK.emphasis, IK.strong, IK.codeSpan, IK.link, IK.image, IK.autolink, autoHtml, Node.text, mkInline, hs]

theorem rn_code (src : Bytes) (p q a b : Nat) (hst : (stripped src a b).1 ≤ (stripped src a b).2) :
    renderNode cx (nodeTree (codeNode src p q a b)) par blk i =
      openTag cx (str "code") ++ escapeHTML (sl cx.src (stripped src a b)) ++ closeTag cx (str "code") := by
  unfold codeNode nodeTree
  rw [renderNode]
  have hs := slice_mkInline cx.src IK.text _ _ hst
  simp only [mkInline, IK.text] at hs
  simp [openBytes, closeBytes, Tree.label, preInline, postInline, IK.text, IK.charRef, IK.unparsed, IK.rawHTML, IK.softBreak,
    IK.hardBreak, IK.emphasis, IK.strong, IK.codeSpan, mkInline, renderForest, renderNode, hs]

end

/-! ### slices -/

theorem sl_split (src : Bytes) (a b c : Nat) (h1 : a ≤ b) (h2 : b ≤ c) : sl src (a, c) = sl src (a, b) ++ sl src (b, c) := by
  simp only [sl]
  have e1 : c - a = (b - a) + (c - b) := by omega
  rw [e1, List.take_add, List.drop_drop]
  congr 3
  omega

theorem sl_empty (src : Bytes) (a : Nat) : sl src (a, a) = [] := by simp [sl]

theorem sl_of_drop {src : Bytes} {p : Nat} {L rest : Bytes} (h : src.drop p = L ++ rest) : sl src (p, p + L.length) = L := by
  simp only [sl]
  rw [h, Nat.add_sub_cancel_left, List.take_left']
  rfl

theorem renderForest_append (cx : RCtx) (par : Tree) (blk : Option Tree) : ∀ (A B : List Tree) (i : Nat),
    renderForest cx par blk (A ++ B) i = renderForest cx par blk A i ++ renderForest cx par blk B (i + A.length) := by
  intro A
  induction A with
  | nil => intro B i; simp [renderForest]
  | cons t A ih =>
    intro B i
    simp only [List.cons_append, renderForest, ih, List.length_cons, List.append_assoc]
    congr 3
    omega

/-- The one-space strip rule on the content of a code span. -/
def stripMid (mid : Bytes) : Bytes :=
  if mid.head? = some SP ∧ mid.getLast? = some SP ∧ ¬ isOnlySpaces mid = true then (mid.drop 1).dropLast else mid

theorem stripped_slice {src : Bytes} {a : Nat} {mid rest : Bytes} (h : src.drop a = mid ++ rest) (hne : mid ≠ []) :
    sl src (stripped src a (a + mid.length)) = stripMid mid ∧ (stripped src a (a + mid.length)).1 ≤ (stripped src a (a + mid.length)).2 := by
  have hlen : 1 ≤ mid.length := by cases mid with | nil => exact absurd rfl hne | cons _ _ => simp
  have h0 : src[a]? = mid.head? := by
    have := drop_get h 0
    rw [Nat.add_zero] at this
    rw [this, List.getElem?_append_left (by omega), List.head?_eq_getElem?]
  have h1 : src[a + mid.length - 1]? = mid.getLast? := by
    have := drop_get h (mid.length - 1)
    rw [show a + (mid.length - 1) = a + mid.length - 1 by omega] at this
    rw [this, List.getElem?_append_left (by omega), List.getLast?_eq_getElem?]
  have h2 : (src.drop a).take (a + mid.length - a) = mid := by
    rw [h, Nat.add_sub_cancel_left, List.take_left']; rfl
  unfold stripped stripMid
  rw [h0, h1, h2]
  split
  · rename_i hc
    obtain ⟨hh, hl, hns⟩ := hc
    have hge : 2 ≤ mid.length := by
      rcases Nat.lt_or_ge mid.length 2 with hlt | hge
      · exfalso
        apply hns
        have : mid.length = 1 := by omega
        match mid, this with
        | [x], _ => simp only [List.head?_cons, Option.some.injEq] at hh; subst hh; rfl
      · exact hge
    refine ⟨?_, by simp; omega⟩
    simp only [sl]
    have : src.drop (a + 1) = mid.drop 1 ++ rest := by
      rw [← List.drop_drop, h, List.drop_append_of_le_length (by omega)]
    rw [this, show a + mid.length - 1 - (a + 1) = (mid.drop 1).length - 1 by simp; omega,
      List.take_append_of_le_length (by omega), List.dropLast_eq_take]
  · refine ⟨sl_of_drop h, by simp⟩

/-! ### the HTML of the pieces -/

def htmlP (cx : RCtx) : SPiece → Bytes
  | .byte b => escapeHTML [b]
  | .esc b => escapeHTML [b]
  | .sp => escapeHTML [SP]
  | .ref r => r
  | .auto u => autoHtml cx u
  | .code _ mid => openTag cx (str "code") ++ escapeHTML (stripMid mid) ++ closeTag cx (str "code")

def htmlE (cx : RCtx) : Ending → Bytes
  | .eof => []
  | .lastLF => []
  | .soft => softHtml cx [LF]
  | .hardSp => openTag cx (str "br") ++ [LF]
  | .hardBs => openTag cx (str "br") ++ [LF]

def htmlL (cx : RCtx) (l : SLine) : Bytes := l.P.flatMap (htmlP cx) ++ htmlE cx l.ending

theorem render_flush (cx : RCtx) (par : Tree) (blk : Option Tree) (i : Nat) (ps p : Nat) (h : ps ≤ p) :
    renderForest cx par blk ((flushN ps p).map nodeTree) i = escapeHTML (sl cx.src (ps, p)) := by
  unfold flushN
  split
  · simp only [List.map_cons, List.map_nil, renderForest, List.append_nil]
    exact rn_text cx _ _ _ ps p h
  · have : ps = p := by omega
    subst this
    simp [renderForest, sl_empty, escapeHTML]

/-- The shape conditions on the pieces that rendering needs (part of `POK`). -/
def PShape : List SPiece → Prop
  | [] => True
  | .code _ mid :: r => mid ≠ [] ∧ PShape r
  | _ :: r => PShape r

theorem PShape_of_POK (ext : Ext) : ∀ (P : List SPiece) (eb : Bytes), POK ext P eb → PShape P := by
  intro P
  induction P with
  | nil => intro _ _; trivial
  | cons x r ih =>
    intro eb h
    cases x with
    | byte b => exact ih eb h.2
    | esc b => exact ih eb h.2
    | sp => exact ih eb h.2
    | ref t => exact ih eb h.2.2.2
    | auto u => exact ih eb h.2
    | code n mid =>
      obtain ⟨_, _, _, ⟨y, r', hm, _⟩, _, _, _, hr⟩ := h
      exact ⟨by rw [hm]; simp, ih eb hr⟩

/-- **Rendering the nodes of the pieces.** -/
theorem render_pieces (cx : RCtx) (par : Tree) (blk : Option Tree) : ∀ (P : List SPiece) (p ps i : Nat) (tail : Bytes),
    ps ≤ p → cx.src.drop p = pbytes P ++ tail → PShape P →
    (outP ps p (P.map (SPiece.toPiece cx.src))).2 ≤ p + (pbytes P).length ∧
    renderForest cx par blk ((outP ps p (P.map (SPiece.toPiece cx.src))).1.map nodeTree) i ++
        escapeHTML (sl cx.src ((outP ps p (P.map (SPiece.toPiece cx.src))).2, p + (pbytes P).length)) =
      escapeHTML (sl cx.src (ps, p)) ++ P.flatMap (htmlP cx) := by
  intro P
  induction P with
  | nil =>
    intro p ps i tail h _ _
    simp [outP, pbytes, renderForest, h]
  | cons x r ih =>
    intro p ps i tail h hd hsh
    have hd' : cx.src.drop p = x.bytes ++ (pbytes r ++ tail) := by rw [hd]; simp [pbytes]
    have hnext := drop_shift hd'
    have hlen : (pbytes (x :: r)).length = x.bytes.length + (pbytes r).length := by simp [pbytes]
    have hsx := sl_of_drop hd'
    cases x with
    | byte b =>
      obtain ⟨h1, h2⟩ := ih (p + 1) ps i tail (by omega) hnext hsh
      simp only [SPiece.bytes, List.length_singleton] at hlen hsx
      simp only [List.map_cons, SPiece.toPiece, outP, hlen, List.flatMap_cons, htmlP]
      rw [show p + (1 + (pbytes r).length) = p + 1 + (pbytes r).length by omega]
      refine ⟨h1, ?_⟩
      rw [h2, sl_split cx.src ps p (p + 1) h (by omega), hsx, escapeHTML_append, List.append_assoc]
    | sp =>
      obtain ⟨h1, h2⟩ := ih (p + 1) ps i tail (by omega) hnext hsh
      simp only [SPiece.bytes, List.length_singleton] at hlen hsx
      simp only [List.map_cons, SPiece.toPiece, outP, hlen, List.flatMap_cons, htmlP]
      rw [show p + (1 + (pbytes r).length) = p + 1 + (pbytes r).length by omega]
      refine ⟨h1, ?_⟩
      rw [h2, sl_split cx.src ps p (p + 1) h (by omega), hsx, escapeHTML_append, List.append_assoc]
    | esc b =>
      obtain ⟨h1, h2⟩ := ih (p + 2) (p + 2) (i + (flushN ps p).length + 1) tail (Nat.le_refl _) hnext hsh
      have hb : sl cx.src (p + 1, p + 2) = [b] := by
        have hd1 : cx.src.drop p = [0x5C] ++ (b :: (pbytes r ++ tail)) := by rw [hd']; rfl
        have hd2 : cx.src.drop (p + 1) = [b] ++ (pbytes r ++ tail) := by
          have := drop_shift hd1; simpa using this
        exact sl_of_drop hd2
      simp only [SPiece.bytes, List.length_cons, List.length_nil] at hlen
      simp only [List.map_cons, SPiece.toPiece, outP, hlen, List.flatMap_cons, htmlP, List.map_append]
      rw [show p + (0 + 1 + 1 + (pbytes r).length) = p + 2 + (pbytes r).length by omega]
      refine ⟨h1, ?_⟩
      rw [renderForest_append, render_flush cx par blk i ps p h, renderForest, List.length_map,
        rn_text cx _ _ _ (p + 1) (p + 2) (by omega), hb, List.append_assoc, List.append_assoc, h2, sl_empty]
      simp [escapeHTML]
    | ref t =>
      obtain ⟨h1, h2⟩ := ih (p + t.length) (p + t.length) (i + (flushN ps p).length + 1) tail (Nat.le_refl _) hnext hsh
      simp only [SPiece.bytes] at hlen hsx
      simp only [List.map_cons, SPiece.toPiece, outP, hlen, List.flatMap_cons, htmlP, List.map_append]
      rw [← Nat.add_assoc]
      refine ⟨h1, ?_⟩
      rw [renderForest_append, render_flush cx par blk i ps p h, renderForest, List.length_map, refNode,
        rn_ref cx _ _ _ p (p + t.length) (by omega), hsx, List.append_assoc, List.append_assoc, h2, sl_empty]
      simp [escapeHTML]
    | auto u =>
      have hl : (SPiece.auto u).bytes.length = u.length + 2 := by simp [SPiece.bytes]
      rw [hl] at hnext hlen
      obtain ⟨h1, h2⟩ := ih (p + (u.length + 2)) (p + (u.length + 2)) (i + (flushN ps p).length + 1) tail (Nat.le_refl _) hnext hsh
      have hu : sl cx.src (p + 1, p + (u.length + 2) - 1) = u := by
        have hd1 : cx.src.drop p = [0x3C] ++ (u ++ (0x3E :: (pbytes r ++ tail))) := by rw [hd']; simp [SPiece.bytes]
        have hd2 : cx.src.drop (p + 1) = u ++ (0x3E :: (pbytes r ++ tail)) := by
          have := drop_shift hd1; simpa using this
        rw [show p + (u.length + 2) - 1 = p + 1 + u.length by omega]
        exact sl_of_drop hd2
      simp only [List.map_cons, SPiece.toPiece, outP, hlen, List.flatMap_cons, htmlP, List.map_append]
      rw [show p + (u.length + 2 + (pbytes r).length) = p + (u.length + 2) + (pbytes r).length by omega]
      refine ⟨h1, ?_⟩
      rw [renderForest_append, render_flush cx par blk i ps p h, renderForest, List.length_map,
        rn_auto cx _ _ _ (u.length + 2) p (by omega), hu, List.append_assoc, List.append_assoc]
      rw [h2, sl_empty]
      simp [escapeHTML]
    | code n mid =>
      obtain ⟨hmne, hsh'⟩ := hsh
      have hl : (SPiece.code n mid).bytes.length = n + mid.length + n := by simp [SPiece.bytes]; omega
      rw [hl] at hnext hlen
      obtain ⟨h1, h2⟩ := ih (p + (n + mid.length + n)) (p + (n + mid.length + n)) (i + (flushN ps p).length + 1) tail
        (Nat.le_refl _) hnext hsh'
      have hd1 : cx.src.drop p = List.replicate n 0x60 ++ (mid ++ (List.replicate n 0x60 ++ (pbytes r ++ tail))) := by
        rw [hd']; simp [SPiece.bytes]
      have hdm : cx.src.drop (p + n) = mid ++ (List.replicate n 0x60 ++ (pbytes r ++ tail)) := by
        have := drop_shift hd1
        rwa [List.length_replicate] at this
      obtain ⟨hs1, hs2⟩ := stripped_slice hdm hmne
      simp only [List.map_cons, SPiece.toPiece, outP, hlen, List.flatMap_cons, htmlP, List.map_append]
      rw [show p + (n + mid.length + n + (pbytes r).length) = p + (n + mid.length + n) + (pbytes r).length by omega]
      refine ⟨h1, ?_⟩
      rw [renderForest_append, render_flush cx par blk i ps p h, renderForest, List.length_map, codeNodeAt,
        rn_code cx _ _ _ cx.src _ _ _ _ hs2, hs1, List.append_assoc, List.append_assoc]
      rw [h2, sl_empty]
      simp [escapeHTML]

theorem render_line (cx : RCtx) (par : Tree) (blk : Option Tree) (l : SLine) (a i : Nat) (rest : Bytes)
    (hd : cx.src.drop a = l.bytes ++ rest) (hsh : PShape l.P) :
    renderForest cx par blk ((lineNodes ⟨a, l.P.map (SPiece.toPiece cx.src), l.ending⟩).map nodeTree) i = htmlL cx l := by
  have hd' : cx.src.drop a = pbytes l.P ++ (l.ending.bytes ++ rest) := by rw [hd]; simp [SLine.bytes]
  obtain ⟨h1, h2⟩ := render_pieces cx par blk l.P a a i _ (Nat.le_refl _) hd' hsh
  have he := drop_shift hd'
  unfold lineNodes htmlL
  simp only [Line.e0, plen_toPiece]
  rw [sl_empty] at h2
  simp only [escapeHTML, List.flatMap_nil, List.nil_append] at h2
  rw [← h2, List.map_append, renderForest_append]
  generalize (outP a a (l.P.map (SPiece.toPiece cx.src))).2 = ps' at h1 h2 ⊢
  generalize (i + ((outP a a (l.P.map (SPiece.toPiece cx.src))).1.map nodeTree).length) = j
  rw [List.append_assoc]
  congr 1
  cases hE : l.ending with
  | eof => simp only [endNodes, htmlE, List.append_nil]; exact render_flush cx par blk j ps' _ h1
  | lastLF => simp only [endNodes, htmlE, List.append_nil]; exact render_flush cx par blk j ps' _ h1
  | soft =>
    rw [hE] at he
    have hs : sl cx.src (a + (pbytes l.P).length, a + (pbytes l.P).length + 1) = [LF] := sl_of_drop (L := [LF]) he
    simp only [endNodes, htmlE, List.map_append, List.map_cons, List.map_nil]
    rw [renderForest_append, render_flush cx par blk j ps' _ h1, renderForest, renderForest, List.append_nil,
      rn_soft cx _ _ _ _ _ (by omega), hs]
    rfl
  | hardSp =>
    simp only [endNodes, htmlE, List.map_append, List.map_cons, List.map_nil]
    rw [renderForest_append, render_flush cx par blk j ps' _ h1, renderForest, renderForest, List.append_nil, rn_hard]
    rfl
  | hardBs =>
    simp only [endNodes, htmlE, List.map_append, List.map_cons, List.map_nil]
    rw [renderForest_append, render_flush cx par blk j ps' _ h1, renderForest, renderForest, List.append_nil, rn_hard]
    rfl

/-- **Rendering the nodes of the lines.** -/
theorem render_lines (cx : RCtx) (par : Tree) (blk : Option Tree) : ∀ (ls : List SLine) (a i : Nat) (rest : Bytes),
    cx.src.drop a = srcOf ls ++ rest → (∀ l ∈ ls, PShape l.P) →
    renderForest cx par blk (((toLines cx.src a ls).flatMap lineNodes).map nodeTree) i = ls.flatMap (htmlL cx) := by
  intro ls
  induction ls with
  | nil => intro a i rest _ _; simp [toLines, renderForest]
  | cons l ls ih =>
    intro a i rest hd hsh
    have hd' : cx.src.drop a = l.bytes ++ (srcOf ls ++ rest) := by rw [hd]; simp [srcOf]
    simp only [toLines, List.flatMap_cons, List.map_append]
    rw [renderForest_append, render_line cx par blk l a i _ hd' (hsh l (by simp)),
      ih (a + l.bytes.length) _ rest (drop_shift hd') (fun l' hl' => hsh l' (by simp [hl']))]

/-- **The paragraph of the lines renders as the HTML of the pieces**: `AppendBlock` on a top-level paragraph whose
    inline children are the nodes of the lines. -/
theorem render_paragraph_slines (cx : RCtx) (dst : Bytes) (N : Int) (ls : List SLine) (hsrc : cx.src = srcOf ls)
    (hsh : ∀ l ∈ ls, PShape l.P) :
    appendBlock cx dst (.node { isBlock := true, kind := BK.paragraph, start := 0, stop := N }
        (((toLines (srcOf ls) 0 ls).flatMap lineNodes).map nodeTree)) =
      dst ++ openTag cx (str "p") ++ ls.flatMap (htmlL cx) ++ closeTag cx (str "p") := by
  rw [CM.Props.C10.render_eq_spec, renderSpec, renderNode]
  have hf := render_lines cx
    (.node { isBlock := true, kind := BK.paragraph, start := 0, stop := N } (((toLines (srcOf ls) 0 ls).flatMap lineNodes).map nodeTree))
    (some (.node { isBlock := true, kind := BK.paragraph, start := 0, stop := N } (((toLines (srcOf ls) 0 ls).flatMap lineNodes).map nodeTree)))
    ls 0 0 [] (by rw [hsrc]; simp) hsh
  rw [hsrc] at hf
  simp [openBytes, closeBytes, Tree.label, preBlock, postBlock, BK.paragraph, parentTight, Node.isTightList, blockFor]
  exact hf

end CM.Proofs.InlSer
