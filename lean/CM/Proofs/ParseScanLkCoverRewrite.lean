import CM.Proofs.InlCoverRewrite
import CM.Proofs.ParseScanLkCoverMain

/-
C03, inline half, with `ContsOK2` — `rewriteE` covers the needed bytes.
(Generated from `InlCoverRewrite.lean`: the same proofs with `LinkScan2` in the place of `LinkScan`.)
-/

namespace CM.Proofs.InlH2
open CM CM.Model CM.Model.Inl CM.Gen CM.Spec CM.Proofs CM.Proofs.InlH
open Std.Do

set_option mvcgen.warning false

mutual
/-- **The inline phase on a block tree loses nothing** (C03, inline half). -/
theorem rewriteE_cover (x : IExt) (src : Bytes) (srcA : Array UInt8) (matchRef : Bytes → Bool) :
    (t : Tree) → WFT t → ContsOK2 x src srcA matchRef t → ContsCov x src srcA matchRef t →
      ∀ t', rewriteE x src srcA matchRef t = .ok t' →
      ∀ j : Int, 0 ≤ j → needsCover (srcA[j.toNat]!) = true → CovTs [t] j → CovTs [t'] j
  | .node l cs, hw, hc, hv, t', h, j, hj0, hn, hcov => by
    rw [rewriteE] at h
    split at h
    · cases h; exact hcov
    · rename_i hb
      have hb' : l.isBlock = true := by simpa using hb
      split at h
      · rename_i hu
        split at h
        · rename_i kids hk
          cases h
          have hmem : Tree.node l cs ∈ T.nodes (.node l cs) := by rw [T.nodes]; exact List.mem_cons_self ..
          obtain ⟨c0, cT, cS⟩ := hc (.node l cs) hmem hb' hu
          obtain ⟨vL, vT, vR⟩ := hv (.node l cs) hmem hb' hu
          rw [WFT_iff] at hw
          rcases covTs_node.1 hcov with ⟨hl, h1, h2⟩ | hcs
          · exact covTs_node.2 (Or.inl ⟨isLeaf_block hb' hl, h1, h2⟩)
          · obtain ⟨r, hr, r1, r2, r3, r4⟩ := vR j hj0 hn hcs
            exact covTs_node.2 (Or.inr (parseInlines_cover' x src srcA matchRef l.start l.stop cs c0 hw.2 cT cS vL vT
              kids hk r hr r1 r2 j r3 r4 hj0 hn))
        · cases h
      · split at h
        · rename_i kids hk
          cases h
          rw [WFT_iff] at hw
          rcases covTs_node.1 hcov with ⟨hl, h1, h2⟩ | hcs
          · exact covTs_node.2 (Or.inl ⟨isLeaf_block hb' hl, h1, h2⟩)
          · exact covTs_node.2 (Or.inr (rewriteForestE_cover x src srcA matchRef cs l.start l.stop hw.2
              (fun c hc' => hc.child hc') (fun c hc' => hv.child hc') kids hk j hj0 hn hcs))
        · cases h
theorem rewriteForestE_cover (x : IExt) (src : Bytes) (srcA : Array UInt8) (matchRef : Bytes → Bool) :
    (ts : List Tree) → ∀ lo hi, WFL lo hi ts → (∀ t ∈ ts, ContsOK2 x src srcA matchRef t) →
      (∀ t ∈ ts, ContsCov x src srcA matchRef t) →
      ∀ ts', rewriteForestE x src srcA matchRef ts = .ok ts' →
      ∀ j : Int, 0 ≤ j → needsCover (srcA[j.toNat]!) = true → CovTs ts j → CovTs ts' j
  | [], lo, hi, hw, _, _, ts', h, j, _, _, hcov => absurd hcov (CovTs_nil j)
  | t :: ts, lo, hi, hw, hc, hv, ts', h, j, hj0, hn, hcov => by
    rw [rewriteForestE] at h
    split at h
    · cases h
    · rename_i t' ht
      split at h
      · cases h
      · rename_i ts'' hts
        cases h
        rw [WFL_cons] at hw
        obtain ⟨h1, h2, h3⟩ := hw
        rcases covTs_consC.1 hcov with hc1 | hc2
        · exact covTs_consC.2 (Or.inl (rewriteE_cover x src srcA matchRef t h2 (hc t (List.mem_cons_self ..))
            (hv t (List.mem_cons_self ..)) t' ht j hj0 hn hc1))
        · exact covTs_consC.2 (Or.inr (rewriteForestE_cover x src srcA matchRef ts _ _ h3
            (fun c hc' => hc c (List.mem_cons_of_mem _ hc')) (fun c hc' => hv c (List.mem_cons_of_mem _ hc')) ts'' hts
            j hj0 hn hc2))
end

end CM.Proofs.InlH2
