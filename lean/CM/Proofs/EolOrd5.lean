import CM.Proofs.EolOrd4
/-
Discharging the `kidsOrd` hypothesis for inputs without `[` — part 5: along the in-memory run on an input without `[`, the
`kidsOrd` check of `blocksLPo` never fails, so the checked run IS the run of `blocksLP`; the main theorem for such inputs
then needs only that the plain run on the original input ends with an error value (end of input), not a panic.
-/
namespace CM.Proofs
open CM CM.Model CM.Gen CM.Proofs.BT CM.Proofs.BSp

section
variable {x : PExt}

theorem noBracket_take {X : Bytes} (h : NoBracket X) (n : Nat) : NoBracket (X.take n) :=
  fun c hc => h c (List.mem_of_mem_take hc)
theorem noBracket_drop {X : Bytes} (h : NoBracket X) (n : Nat) : NoBracket (X.drop n) :=
  fun c hc => h c (List.mem_of_mem_drop hc)

/-- One line of the two parsers when the check passes. -/
theorem lineo_eq (lp : LP) (src : Bytes) (ls : Nat)
    (hord : kidsOrd (processLine x (lp.reset src ls)).root.blocks = true) :
    (blocksLPo x).line (lp, true) src ls = (processLine x (lp.reset src ls), true) := by
  show (processLine x (lp.reset src ls), true && kidsOrd (processLine x (lp.reset src ls)).root.blocks) = _
  rw [hord]; rfl

/-- The state of the stream machine between calls, for this argument. -/
structure BPOrd (p : BP) : Prop where
  inv : BPInv p
  inl : pbsInl p.blocks = true
  nb : NoBracket p.buf

theorem afterRoot_ord {p : BP} {k : PB} {rest : List PB} (hinl : pbsInl rest = true) (hnb : NoBracket p.buf) :
    pbsInl (afterRoot p k rest).blocks = true ∧ NoBracket (afterRoot p k rest).buf :=
  ⟨pbsInl_offset _ (by omega) rest hinl, noBracket_drop hnb _⟩

theorem parseLines_ordOK : ∀ (fuel : Nat) (lp : LP) (ls : Nat) (p : BP), p.err.isSome = true →
    p.i ≤ p.buf.length → ls ≤ p.i → (ls = p.i → p.buf.drop p.i = []) → Sess ls p lp → pbInl lp.root = true →
    NoBracket p.buf →
    parseLines (blocksLPo x) fuel (lp, true) ls p = parseLines (blocksLP x) fuel lp ls p ∧
    ∀ r p', parseLines (blocksLP x) fuel lp ls p = (.block r, p') → BPOrd p' := by
  intro fuel
  induction fuel with
  | zero => intro lp ls p _ _ _ _ _ _ _; exact ⟨rfl, fun r p' h => by simp [parseLines] at h⟩
  | succ fuel ih =>
    intro lp ls p herr hi hls hrel hsess hinl hnb
    obtain ⟨hlp, hcase⟩ := hsess
    have hsl : (p.buf.take p.i).length = p.i := by simp [hi]
    have hsrcNB : NoBracket (p.buf.take p.i) := noBracket_take hnb _
    have hnp := processLine_no_panic x _ (reset_LPInv lp hlp (p.buf.take p.i) ls)
    obtain ⟨r1, r2, r3, r4⟩ := BSp.reset_fields lp (p.buf.take p.i) ls
    have hri : RI (p.buf.take p.i) (processLine x (lp.reset (p.buf.take p.i) ls)) :=
      processLine_ri (paraInl_of_noBracket x hsrcNB) ⟨r2, by rw [r1]; exact hinl⟩ (reset_LPInv lp hlp _ _).toInv
    have hrl : readline (p.rd.data.length + p.rd.sched.length + 2) p =
        (decide (0 < lineLen (p.buf.drop p.i)), { p with i := p.i + lineLen (p.buf.drop p.i) }) :=
      CM.Model.readline_mem (p.rd.data.length + p.rd.sched.length + 1) p herr hi
    have hi2 : p.i + lineLen (p.buf.drop p.i) ≤ p.buf.length := by
      have := lineLen_le (p.buf.drop p.i)
      simp only [List.length_drop] at this
      omega
    have hrel2 : p.i = p.i + lineLen (p.buf.drop p.i) → p.buf.drop (p.i + lineLen (p.buf.drop p.i)) = [] := by
      intro e
      have h0 : lineLen (p.buf.drop p.i) = 0 := by omega
      rw [h0, Nat.add_zero]
      exact lineLen_eq_zero h0
    -- the two parsers after this line, given the check passes
    have hstep : ∀ (hord : kidsOrd (processLine x (lp.reset (p.buf.take p.i) ls)).root.blocks = true),
        ((blocksLPo x).panicked ((blocksLPo x).line (lp, true) (p.buf.take p.i) ls) = none) ∧
        ((blocksLPo x).kids ((blocksLPo x).line (lp, true) (p.buf.take p.i) ls) =
          (processLine x (lp.reset (p.buf.take p.i) ls)).root.blocks) := by
      intro hord
      rw [lineo_eq lp _ ls hord]
      exact ⟨hnp.1, rfl⟩
    have hpan' : (blocksLP x).panicked ((blocksLP x).line lp (p.buf.take p.i) ls) = none := hnp.1
    have hkids' : (blocksLP x).kids ((blocksLP x).line lp (p.buf.take p.i) ls) =
        (processLine x (lp.reset (p.buf.take p.i) ls)).root.blocks := rfl
    rcases hcase with ⟨hopen, hsp⟩ | ⟨hclosed, hnob, hlsi, hdrop⟩
    · -- a live session
      have hchk := spans_upgrade x (p.buf.take p.i) hsrcNB (ls : Int) ((p.buf.take p.i).length : Int)
        (Int.natCast_nonneg _) (by rw [hsl]; omega) lp.root 0 ls hsp (fun _ => rfl)
      have key := processLine_spans x lp (p.buf.take p.i) ls hlp (by rw [hsl]; exact hls) hopen hchk
      rw [hsl] at key
      generalize hlp' : processLine x (lp.reset (p.buf.take p.i) ls) = lp' at hnp hri hstep hpan' hkids' key
      rcases hr : lp'.root with ⟨l, bs, is⟩
      have hkb : lp'.root.blocks = bs := by rw [hr]; rfl
      have hsp' := key.1
      rw [hr, PBSpans_mk] at hsp'
      obtain ⟨a1, a2, a3, a4, a5, a6⟩ := hsp'
      have hinl' : pbsInl bs = true := by
        have := hri.2
        rw [hr, pbInl_mk] at this
        exact (pbsInl_iff bs).2 this.2
      have hord : kidsOrd lp'.root.blocks = true := by rw [hkb]; exact kidsOrd_of_spansL bs _ _ _ a5 hinl'
      obtain ⟨hpan, hkids⟩ := hstep hord
      rw [hkb] at hkids hkids'
      cases hmk : makeRoot p bs with
      | some rp =>
        obtain ⟨r0, p0⟩ := rp
        rw [parseLines_root _ hpan (by rw [hkids]; exact hmk), parseLines_root _ hpan' (by rw [hkids']; exact hmk)]
        refine ⟨rfl, ?_⟩
        intro r p' h
        simp only [Prod.mk.injEq, NBOut.block.injEq] at h
        obtain ⟨rfl, rfl⟩ := h
        have hspans := makeRoot_spans p bs _ _ _ herr hi a1 a3 a5 _ _ hmk
        cases bs with
        | nil => simp [makeRoot] at hmk
        | cons k rest =>
          cases ho : k.isOpen with
          | true => rw [makeRoot_open _ _ _ ho] at hmk; cases hmk
          | false =>
            rw [makeRoot_closed _ _ _ ho] at hmk
            simp only [Option.some.injEq, Prod.mk.injEq] at hmk
            obtain ⟨_, rfl⟩ := hmk
            rw [pbsInl] at hinl'
            simp only [Bool.and_eq_true] at hinl'
            obtain ⟨b1, b2⟩ := afterRoot_ord (p := p) (k := k) hinl'.2 hnb
            exact ⟨hspans.2, b1, b2⟩
      | none =>
        rw [parseLines_next _ hpan (by rw [hkids]; exact hmk), parseLines_next _ hpan' (by rw [hkids']; exact hmk)]
        rw [lineo_eq lp _ ls (by rw [hlp']; exact hord), hlp', hrl,
          show (blocksLP x).line lp (p.buf.take p.i) ls = lp' from hlp']
        show parseLines (blocksLPo x) fuel (lp', true) p.i _ = parseLines (blocksLP x) fuel lp' p.i _ ∧ _
        apply ih lp' p.i ({ p with i := p.i + lineLen (p.buf.drop p.i) } : BP) herr hi2 (Nat.le_add_right _ _) hrel2 _ hri.2 hnb
        refine ⟨hnp.2, ?_⟩
        by_cases hro : lp'.root.label.stop < 0
        · exact Or.inl ⟨hro, key.1⟩
        · right
          have hrc : 0 ≤ l.stop := by rw [hr] at hro; simp only [PB.label] at hro; omega
          have hlt : ¬ ls < p.i := fun hlt => hro (key.2 hlt)
          have hlsi : ls = p.i := by omega
          have hd := hrel hlsi
          have h0 : lineLen (p.buf.drop p.i) = 0 := by rw [hd]; rfl
          refine ⟨by rw [hr]; exact hrc, ?_, ?_, ?_⟩
          · rw [hkb]
            cases bs with
            | nil => rfl
            | cons k rest =>
              exfalso
              have hd1 : decide (l.stop < 0) = false := by simp; omega
              rw [hd1] at a5
              have hkc := allClosed_of_false a5 k (by simp)
              have : k.isOpen = false := (isOpen_false_iff k).mpr hkc
              simp [makeRoot, this] at hmk
          · show p.i = p.i + lineLen (p.buf.drop p.i)
            omega
          · show p.buf.drop (p.i + lineLen (p.buf.drop p.i)) = []
            rw [h0, Nat.add_zero]; exact hd
    · -- a dead session
      have hdl : (p.buf.take p.i).drop ls = [] := by
        rw [hlsi]; simp
      have hroot := processLine_dead x lp (p.buf.take p.i) ls hdl hclosed hnob
      generalize hlp' : processLine x (lp.reset (p.buf.take p.i) ls) = lp' at hnp hri hstep hpan' hkids' hroot
      have hkb : lp'.root.blocks = [] := by rw [hroot]; exact hnob
      have hord : kidsOrd lp'.root.blocks = true := by rw [hkb]; rfl
      obtain ⟨hpan, hkids⟩ := hstep hord
      rw [hkb] at hkids hkids'
      have hmk : makeRoot p [] = none := rfl
      rw [parseLines_next _ hpan (by rw [hkids]; exact hmk), parseLines_next _ hpan' (by rw [hkids']; exact hmk)]
      rw [lineo_eq lp _ ls (by rw [hlp']; exact hord), hlp', hrl,
        show (blocksLP x).line lp (p.buf.take p.i) ls = lp' from hlp']
      show parseLines (blocksLPo x) fuel (lp', true) p.i _ = parseLines (blocksLP x) fuel lp' p.i _ ∧ _
      have h0 : lineLen (p.buf.drop p.i) = 0 := by rw [hdrop]; rfl
      apply ih lp' p.i ({ p with i := p.i + lineLen (p.buf.drop p.i) } : BP) herr hi2 (Nat.le_add_right _ _) hrel2 _ hri.2 hnb
      refine ⟨hnp.2, Or.inr ⟨by rw [hroot]; exact hclosed, hkb, ?_, ?_⟩⟩
      · show p.i = p.i + lineLen (p.buf.drop p.i)
        omega
      · show p.buf.drop (p.i + lineLen (p.buf.drop p.i)) = []
        rw [h0, Nat.add_zero]; exact hdrop

/-! ### NextBlock and drain -/

theorem skipBlank_nb : ∀ (f : Nat) (p q q2 : BP), p.err.isSome = true → p.i ≤ p.buf.length → NoBracket p.buf →
    skipBlank f p = (some q, q2) → NoBracket q.buf := by
  intro f
  induction f with
  | zero => intro p q q2 _ _ _ h; simp [skipBlank] at h
  | succ f ih =>
    intro p q q2 herr hi hnb h
    unfold skipBlank at h
    rw [CM.Model.readline_mem (p.rd.data.length + p.rd.sched.length + 1) p herr hi] at h
    simp only [] at h
    split at h
    · simp at h
    · split at h
      · simp only [Prod.mk.injEq, Option.some.injEq] at h
        rw [← h.1]; exact hnb
      · refine ih _ q q2 ?_ ?_ ?_ h
        · exact herr
        · exact Nat.zero_le _
        · exact noBracket_drop hnb _

theorem nextBlock_ordOK (p : BP) (h : BPOrd p) :
    nextBlock (blocksLPo x) p = nextBlock (blocksLP x) p ∧
    ∀ r p', nextBlock (blocksLP x) p = (.block r, p') → BPOrd p' := by
  have herr := h.inv.err
  have hi := h.inv.ile
  rw [nextBlock_eq_F, nextBlock_eq_F]
  cases hmk : makeRoot p p.blocks with
  | some rp =>
    obtain ⟨r0, p0⟩ := rp
    rw [nextBlockF_root _ hmk, nextBlockF_root _ hmk]
    refine ⟨rfl, ?_⟩
    intro r p' hh
    simp only [Prod.mk.injEq, NBOut.block.injEq] at hh
    obtain ⟨rfl, rfl⟩ := hh
    have hspans := makeRoot_spans p p.blocks true 0 p.i herr hi (Int.le_refl _) (Int.le_refl _) h.inv.blocks _ _ hmk
    cases hb : p.blocks with
    | nil => rw [hb] at hmk; simp [makeRoot] at hmk
    | cons k rest =>
      rw [hb] at hmk
      cases ho : k.isOpen with
      | true => rw [makeRoot_open _ _ _ ho] at hmk; cases hmk
      | false =>
        rw [makeRoot_closed _ _ _ ho] at hmk
        simp only [Option.some.injEq, Prod.mk.injEq] at hmk
        obtain ⟨_, rfl⟩ := hmk
        have hinl := h.inl
        rw [hb, pbsInl] at hinl
        simp only [Bool.and_eq_true] at hinl
        obtain ⟨b1, b2⟩ := afterRoot_ord (p := p) (k := k) hinl.2 h.nb
        exact ⟨hspans.2, b1, b2⟩
  | none =>
    have hrl : readline (p.rd.data.length + p.rd.sched.length + 2) p =
        (decide (0 < lineLen (p.buf.drop p.i)), { p with i := p.i + lineLen (p.buf.drop p.i) }) :=
      CM.Model.readline_mem (p.rd.data.length + p.rd.sched.length + 1) p herr hi
    have hi2 : p.i + lineLen (p.buf.drop p.i) ≤ p.buf.length := by
      have := lineLen_le (p.buf.drop p.i)
      simp only [List.length_drop] at this
      omega
    by_cases hlen : p.blocks.length > 0
    · rw [nextBlockF_pending _ hmk hlen, nextBlockF_pending _ hmk hlen, hrl]
      simp only []
      have hroot : pbInl ((blocksLP x).new p.blocks).root = true := by
        show pbInl (docRoot p.blocks) = true
        rw [docRoot, pbInl_mk]
        exact ⟨fun t ht => absurd ht List.not_mem_nil, (pbsInl_iff _).1 h.inl⟩
      refine parseLines_ordOK (bpFuel p) ((blocksLP x).new p.blocks) p.i ({ p with i := p.i + lineLen (p.buf.drop p.i) } : BP)
        herr hi2 (Nat.le_add_right _ _) ?_ (new_sess x p.blocks p.i _ h.inv.blocks) hroot h.nb
      intro e
      have h0 : lineLen (p.buf.drop p.i) = 0 := by
        have : p.i = p.i + lineLen (p.buf.drop p.i) := e
        omega
      show p.buf.drop (p.i + lineLen (p.buf.drop p.i)) = []
      rw [h0, Nat.add_zero]
      exact lineLen_eq_zero h0
    · rw [nextBlockF_fresh _ hmk hlen, nextBlockF_fresh _ hmk hlen]
      have hbl : p.blocks = [] := by
        cases hb : p.blocks with
        | nil => rfl
        | cons a t => rw [hb] at hlen; simp at hlen
      generalize hsk : skipBlank (bpFuel p) (freshLine p) = sk
      obtain ⟨o1, o2⟩ := sk
      cases o1 with
      | none =>
        refine ⟨rfl, fun r p' hh => ?_⟩
        simp only [afterSkip] at hh
        split at hh <;> cases hh
      | some q =>
        simp only [afterSkip]
        have hq := skipBlank_facts _ (freshLine p) q o2 (by exact herr) (by show 0 ≤ _; exact Nat.zero_le _) hsk
        obtain ⟨q1, q2', q3, q4⟩ := hq
        have hqb : q.blocks = [] := by rw [q3]; exact hbl
        have hqnb : NoBracket q.buf :=
          skipBlank_nb _ (freshLine p) q o2 (by exact herr) (by show 0 ≤ _; exact Nat.zero_le _) (noBracket_drop h.nb _) hsk
        rw [hqb]
        have hroot : pbInl ((blocksLP x).new []).root = true := by
          show pbInl (docRoot []) = true
          rw [docRoot, pbInl_mk]
          exact ⟨fun t ht => absurd ht List.not_mem_nil, fun b hb => absurd hb List.not_mem_nil⟩
        refine parseLines_ordOK (bpFuel p) ((blocksLP x).new []) 0 q q1 q2' (Nat.zero_le _) ?_
          (new_sess x [] 0 q (PBSpansL_nil _ _ _ _)) hroot hqnb
        intro e
        rw [← e] at q4
        simp [isBlankLine] at q4

theorem drain_ordOK : ∀ (n : Nat) (p : BP) (acc : List Root), BPOrd p →
    drain (blocksLPo x) n p acc = drain (blocksLP x) n p acc := by
  intro n
  induction n with
  | zero => intro p acc _; rfl
  | succ n ih =>
    intro p acc h
    obtain ⟨e1, e2⟩ := nextBlock_ordOK (x := x) p h
    unfold drain
    rw [e1]
    cases hnb : nextBlock (blocksLP x) p with
    | mk o p' =>
      cases o with
      | block r => exact ih p' (r :: acc) (e2 r p' hnb)
      | err er => rfl
      | panic m => rfl

/-- The state `Parse` starts from. -/
theorem memParser_ord (inp : Bytes) (hnul : NoNul inp) (hb : NoBracket inp) : BPOrd (memParser inp) :=
  ⟨memParser_inv inp, rfl, by show NoBracket (padNulls inp 0); rw [padNulls_noNul hnul]; exact hb⟩

/-- **C14 (a), block phase, inputs without `[`** — no hypothesis on the paragraph hook, on start condition 7 or on the
    order of the children left: for a CR-free, NUL-free input without `[` whose parse (the drain of the plain block parser
    with `n` calls) ends with an error value — end of input — rather than a panic, the drain on the input with every LF
    re-written to `e` delivers exactly the images of its roots, and ends the same way. -/
theorem blocks_eol_sim_plain (x : PExt) {e : Bytes} (he : StdEol e) (inp : Bytes) (hcr : NoCR inp) (hnul : NoNul inp)
    (hb : NoBracket inp) (n : Nat) (hend : ∃ er, (drain (blocksLP x) n (memParser inp) []).2.1 = .err er) :
    (drain (blocksLP x) n (memParser (toEol e inp)) []).1 =
      (drain (blocksLP x) n (memParser inp) []).1.map (mapRoot e inp) ∧
    (drain (blocksLP x) n (memParser (toEol e inp)) []).2.1 = (drain (blocksLP x) n (memParser inp) []).2.1 :=
  blocks_eol_sim_noBracket' x he inp hcr hnul hb n
    (by rw [drain_ordOK n _ [] (memParser_ord inp hnul hb)]; exact hend)

end

/-- The theorem applied to the demo input (`# a⏎> b⏎⏎    c⏎`), for CRLF and for CR; the hypothesis on the run is decided. -/
example : (drain (blocksLP eolDemoX) 23 (memParser (toCRLF eolDemo)) []).1 =
    (drain (blocksLP eolDemoX) 23 (memParser eolDemo) []).1.map (mapRoot [CR, LF] eolDemo) :=
  (blocks_eol_sim_plain eolDemoX (Or.inr (Or.inr rfl)) eolDemo (by decide) (by decide) (by decide) 23
    (exists_err_of_outIsErr (by decide +kernel))).1
example : (drain (blocksLP eolDemoX) 23 (memParser (toCR eolDemo)) []).1 =
    (drain (blocksLP eolDemoX) 23 (memParser eolDemo) []).1.map (mapRoot [CR] eolDemo) :=
  (blocks_eol_sim_plain eolDemoX (Or.inr (Or.inl rfl)) eolDemo (by decide) (by decide) (by decide) 23
    (exists_err_of_outIsErr (by decide +kernel))).1

end CM.Proofs
