import CM.Proofs.FilterSitesBase
import CM.Proofs.Filter
/-
`sitesOK` and: newline preprocessing, the stateless filter, and concatenation of output segments.
-/
namespace CM.Proofs
open CM CM.Model CM.Spec
open FilterSites

/-! ### Newline preprocessing does not change the sites -/

namespace FilterSites

theorem nn_cons_ne (c : UInt8) (rest : Bytes) (h : c ≠ 0x0D) :
    normalizeNewlines (c :: rest) = c :: normalizeNewlines rest := by
  cases rest with
  | nil => simp [normalizeNewlines, h]
  | cons d r => simp [normalizeNewlines, h]

theorem nn_cr (rest : Bytes) : ∃ Y, normalizeNewlines (0x0D :: rest) = 0x0A :: Y := by
  cases rest with
  | nil => exact ⟨[], by simp [normalizeNewlines]⟩
  | cons d r =>
    by_cases hd : d = 0x0A
    · exact ⟨normalizeNewlines r, by simp [normalizeNewlines, hd]⟩
    · exact ⟨normalizeNewlines (d :: r), by simp [normalizeNewlines, hd]⟩

theorem nn_takeWhile (X : Bytes) : (normalizeNewlines X).takeWhile nameChar = X.takeWhile nameChar := by
  cases X with
  | nil => rfl
  | cons c r =>
    by_cases hc : c = 0x0D
    · subst hc
      obtain ⟨Y, hY⟩ := nn_cr r
      rw [hY]; simp [nameChar_cr, nameChar_lf]
    · rw [nn_cons_ne c r hc, List.takeWhile_cons, List.takeWhile_cons, nn_takeWhile r]

theorem nn_startsLetter (X : Bytes) : startsLetter (normalizeNewlines X) = startsLetter X := by
  cases X with
  | nil => rfl
  | cons c r =>
    by_cases hc : c = 0x0D
    · subst hc
      obtain ⟨Y, hY⟩ := nn_cr r
      rw [hY]; simp [startsLetter, letter_cr, letter_lf]
    · rw [nn_cons_ne c r hc]; rfl

theorem nn_nameAt (X : Bytes) : nameAt (normalizeNewlines X) = nameAt X := by
  cases X with
  | nil => rfl
  | cons c r =>
    by_cases hc : c = 0x0D
    · subst hc
      obtain ⟨Y, hY⟩ := nn_cr r
      rw [hY, nameAt_cons, nameAt_cons]; simp [letter_cr, letter_lf]
    · rw [nn_cons_ne c r hc, nameAt_cons, nameAt_cons, nn_takeWhile]

theorem nn_siteOK (p : Bytes → Bool) (X : Bytes) : siteOK p (normalizeNewlines X) = siteOK p X := by
  simp only [siteOK, nn_startsLetter, nn_nameAt]

end FilterSites
open FilterSites

/-- Preprocessing never creates or removes a `<` and never changes the name characters after one. -/
theorem sitesOK_normalizeNewlines (p : Bytes → Bool) : ∀ X : Bytes,
    sitesOK p (normalizeNewlines X) = sitesOK p X
  | [] => rfl
  | [c] => by
    by_cases hc : c = 0x0D
    · subst hc; simp [normalizeNewlines, sitesOK_cons, sitesOK_nil]
    · simp [normalizeNewlines, hc]
  | c :: d :: rest => by
    by_cases hc : c = 0x0D
    · subst hc
      by_cases hd : d = 0x0A
      · subst hd
        simp only [normalizeNewlines, beq_self_eq_true, if_true]
        rw [sitesOK_cons_ne _ _ _ (by decide), sitesOK_cons_ne _ _ _ (by decide),
          sitesOK_cons_ne _ _ _ (by decide), sitesOK_normalizeNewlines p rest]
      · simp only [normalizeNewlines, beq_self_eq_true, if_true, beq_iff_eq, hd, if_false]
        rw [sitesOK_cons_ne _ _ _ (by decide), sitesOK_normalizeNewlines p (d :: rest),
          sitesOK_cons_ne p 0x0D _ (by decide)]
    · rw [nn_cons_ne c _ hc, sitesOK_cons, sitesOK_cons, nn_siteOK, sitesOK_normalizeNewlines p (d :: rest)]

/-! ### The filter establishes `sitesOK` -/

namespace FilterSites

theorem filterLoop_nil (p : Bytes → Bool) : filterLoop p [] = [] := rfl

theorem filterLoop_cons_ne (p : Bytes → Bool) (c : UInt8) (rest : Bytes) (h : c ≠ 0x3C) :
    filterLoop p (c :: rest) = c :: filterLoop p rest := by
  simp [filterLoop, h]

theorem filterLoop_cons_lt (p : Bytes → Bool) (rest : Bytes) :
    filterLoop p (0x3C :: rest) =
      (if p (nameAt rest) then [0x26, 0x6C, 0x74, 0x3B] else [0x3C]) ++ filterLoop p rest := by
  rw [filterLoop]; rfl

end FilterSites
open FilterSites

/-- Name characters are copied unchanged. -/
theorem filterLoop_takeWhile (p : Bytes → Bool) : ∀ X : Bytes,
    (filterLoop p X).takeWhile nameChar = X.takeWhile nameChar
  | [] => rfl
  | c :: r => by
    by_cases hc : c = 0x3C
    · subst hc
      rw [filterLoop_cons_lt]
      split <;> simp [nameChar_lt, nameChar_amp]
    · rw [filterLoop_cons_ne p c r hc, List.takeWhile_cons, List.takeWhile_cons, filterLoop_takeWhile p r]

theorem filterLoop_nameAt (p : Bytes → Bool) (X : Bytes) : nameAt (filterLoop p X) = nameAt X := by
  cases X with
  | nil => rfl
  | cons c r =>
    by_cases hc : c = 0x3C
    · subst hc
      rw [filterLoop_cons_lt]
      split <;> simp [nameAt_cons, letter_lt, letter_amp]
    · rw [filterLoop_cons_ne p c r hc, nameAt_cons, nameAt_cons, filterLoop_takeWhile]

theorem filterLoop_sitesOK (p : Bytes → Bool) : ∀ X : Bytes, sitesOK p (filterLoop p X) = true
  | [] => rfl
  | c :: r => by
    have ih := filterLoop_sitesOK p r
    by_cases hc : c = 0x3C
    · subst hc
      rw [filterLoop_cons_lt]
      cases hp : p (nameAt r) with
      | true =>
        simp only [if_true, List.cons_append, List.nil_append]
        rw [sitesOK_cons_ne _ _ _ (by decide), sitesOK_cons_ne _ _ _ (by decide),
          sitesOK_cons_ne _ _ _ (by decide), sitesOK_cons_ne _ _ _ (by decide)]
        exact ih
      | false =>
        simp only [Bool.false_eq_true, if_false, List.cons_append, List.nil_append]
        rw [sitesOK_cons_lt, ih]
        simp [siteOK, filterLoop_nameAt, hp]
    · rw [filterLoop_cons_ne p c r hc, sitesOK_cons_ne _ _ _ hc]; exact ih

/-! ### Concatenation of segments -/

/-- `a` ends in an unfinished name candidate: a `<` followed only by name characters up to the end. -/
def endsInCandidate : Bytes → Bool
  | [] => false
  | c :: rest => (c == 0x3C && rest.all nameChar) || endsInCandidate rest

/-- The seam between `a` and `b` cannot create or extend a name candidate: `b` is empty or does not start
    with a name character, or `a` does not end in `<` nameChar*. Decidable, sufficient. -/
def seamOK (a b : Bytes) : Bool := !(endsInCandidate a && startsNameChar b)

namespace FilterSites

theorem dropWhile_eq_nil_of_all (f : UInt8 → Bool) : ∀ l : Bytes, l.all f = true → l.dropWhile f = []
  | [], _ => rfl
  | c :: l, h => by
    simp only [List.all_cons, Bool.and_eq_true] at h
    rw [List.dropWhile_cons_of_pos h.1]; exact dropWhile_eq_nil_of_all f l h.2

theorem dropWhile_ne_nil_of_not_all (f : UInt8 → Bool) : ∀ l : Bytes, l.all f = false → l.dropWhile f ≠ []
  | [], h => by simp at h
  | c :: l, h => by
    by_cases hc : f c = true
    · rw [List.dropWhile_cons_of_pos hc]
      exact dropWhile_ne_nil_of_not_all f l (by simpa [hc] using h)
    · rw [List.dropWhile_cons_of_neg hc]; simp

end FilterSites
open FilterSites

/-- The same condition on `a`, stated on the reversed text: the last byte of `a` that is not a name
    character is not `<`. -/
theorem endsInCandidate_eq_reverse (a : Bytes) :
    endsInCandidate a = ((a.reverse.dropWhile nameChar).head? == some 0x3C) := by
  induction a with
  | nil => rfl
  | cons c rest ih =>
    rw [endsInCandidate, ih, List.reverse_cons, List.dropWhile_append]
    cases hall : rest.all nameChar with
    | true =>
      have : (rest.reverse.dropWhile nameChar) = [] :=
        dropWhile_eq_nil_of_all nameChar _ (by simpa using hall)
      rw [this]
      by_cases hc : c = 0x3C
      · subst hc; simp [nameChar_lt]
      · by_cases hn : nameChar c = true <;> simp [hc, hn]
    | false =>
      have hne : (rest.reverse.dropWhile nameChar) ≠ [] :=
        dropWhile_ne_nil_of_not_all nameChar _ (by simpa using hall)
      cases h : rest.reverse.dropWhile nameChar with
      | nil => exact absurd h hne
      | cons _ _ => simp

namespace FilterSites

theorem takeWhile_append_of_not_all (f : UInt8 → Bool) : ∀ (r b : Bytes), r.all f = false →
    (r ++ b).takeWhile f = r.takeWhile f
  | [], _, h => by simp at h
  | c :: r, b, h => by
    by_cases hc : f c = true
    · have : r.all f = false := by simpa [hc] using h
      simp [hc, takeWhile_append_of_not_all f r b this]
    · simp [hc]

theorem takeWhile_append_of_not_head (f : UInt8 → Bool) (b : Bytes) (hb : ∀ d ∈ b.head?, f d = false) :
    ∀ r : Bytes, (r ++ b).takeWhile f = r.takeWhile f
  | [] => by
    cases b with
    | nil => rfl
    | cons d b' => simp [hb d (by simp)]
  | c :: r => by
    by_cases hc : f c = true
    · simp [hc, takeWhile_append_of_not_head f b hb r]
    · simp [hc]

end FilterSites
open FilterSites

/-- Appending `b` to the text after a `<` does not change the site, when the text contains a non-name
    character or `b` does not start with a name character. -/
theorem siteOK_append (p : Bytes → Bool) (r b : Bytes) (h : r.all nameChar = false ∨ startsNameChar b = false) :
    siteOK p (r ++ b) = siteOK p r := by
  have htw : (r ++ b).takeWhile nameChar = r.takeWhile nameChar := by
    rcases h with h | h
    · exact takeWhile_append_of_not_all nameChar r b h
    · apply takeWhile_append_of_not_head
      intro d hd
      cases b with
      | nil => simp at hd
      | cons d' b' =>
        simp only [List.head?_cons, Option.mem_def, Option.some.injEq] at hd
        subst hd
        simpa [startsNameChar] using h
  cases r with
  | nil =>
    rcases h with h | h
    · simp at h
    · have : startsLetter b = false := by
        cases b with
        | nil => rfl
        | cons d b' =>
          simp only [startsNameChar] at h
          simpa [startsLetter] using not_nameChar_not_letter d h
      simp [siteOK, this, show startsLetter [] = false from rfl]
  | cons c r =>
    simp only [List.cons_append, List.takeWhile_cons] at htw
    simp only [siteOK, List.cons_append, startsLetter, nameAt_cons]
    by_cases hl : Gen.isASCIILetter c = true
    · have hn := letter_nameChar c hl
      simp only [hn, if_true, List.cons.injEq, true_and] at htw
      rw [htw]
    · simp only [Bool.not_eq_true] at hl
      simp [hl]

theorem endsInCandidate_of_all_nameChar (r : Bytes) (h : r.all nameChar = true) : endsInCandidate r = false := by
  induction r with
  | nil => rfl
  | cons c r ih =>
    simp only [List.all_cons, Bool.and_eq_true] at h
    have hc : c ≠ 0x3C := nameChar_ne_lt c h.1
    simp [endsInCandidate, hc, ih h.2]

theorem seamOK_tail {c : UInt8} {a b : Bytes} (h : seamOK (c :: a) b = true) : seamOK a b = true := by
  unfold seamOK at h ⊢
  cases hb : startsNameChar b with
  | false => simp
  | true =>
    rw [hb] at h
    simp only [Bool.and_true, Bool.not_eq_true', endsInCandidate, Bool.or_eq_false_iff] at h
    simp [h.2]

/-- Composition: two site-free segments with an innocuous seam. -/
theorem sitesOK_append_of_seam (p : Bytes → Bool) (a b : Bytes)
    (ha : sitesOK p a = true) (hb : sitesOK p b = true) (hseam : seamOK a b = true) :
    sitesOK p (a ++ b) = true := by
  induction a with
  | nil => simpa using hb
  | cons c r ih =>
    have ih' := ih (sitesOK_tail ha) (seamOK_tail hseam)
    rw [List.cons_append, sitesOK_cons, ih']
    by_cases hc : c = 0x3C
    · subst hc
      rw [sitesOK_cons_lt] at ha
      simp only [Bool.and_eq_true] at ha
      have hcond : r.all nameChar = false ∨ startsNameChar b = false := by
        cases hall : r.all nameChar with
        | false => exact Or.inl rfl
        | true =>
          right
          simp only [seamOK, endsInCandidate, hall, beq_self_eq_true, Bool.and_self, Bool.true_or, Bool.true_and,
            Bool.not_eq_true'] at hseam
          exact hseam
      rw [siteOK_append p r b hcond, ha.1]
      simp
    · simp [hc]

/-- A segment without any `<` is site-free. -/
theorem sitesOK_of_noLt (p : Bytes → Bool) (a : Bytes) (h : noLt a = true) : sitesOK p a = true := by
  induction a with
  | nil => rfl
  | cons c r ih =>
    simp only [noLt, List.all_cons, Bool.and_eq_true, bne_iff_ne, ne_eq] at h
    rw [sitesOK_cons_ne p c r h.1]
    exact ih (by simpa [noLt] using h.2)

theorem endsInCandidate_of_noLt (a : Bytes) (h : noLt a = true) : endsInCandidate a = false := by
  induction a with
  | nil => rfl
  | cons c r ih =>
    simp only [noLt, List.all_cons, Bool.and_eq_true, bne_iff_ne, ne_eq] at h
    simp [endsInCandidate, h.1, ih (by simpa [noLt] using h.2)]

/-- A segment without `<` can be appended to anything that does not end in a candidate, and anything can be
    appended to it. -/
theorem seamOK_of_noLt_left (a b : Bytes) (h : noLt a = true) : seamOK a b = true := by
  simp [seamOK, endsInCandidate_of_noLt a h]

theorem seamOK_of_not_startsNameChar (a b : Bytes) (h : startsNameChar b = false) : seamOK a b = true := by
  simp [seamOK, h]

theorem seamOK_of_not_endsInCandidate (a b : Bytes) (h : endsInCandidate a = false) : seamOK a b = true := by
  simp [seamOK, h]

/-- How "ends in a candidate" propagates through concatenation (to chain seams). -/
theorem endsInCandidate_append (a b : Bytes) :
    endsInCandidate (a ++ b) = (endsInCandidate b || (endsInCandidate a && b.all nameChar)) := by
  induction a with
  | nil => simp [endsInCandidate]
  | cons c r ih =>
    rw [List.cons_append, endsInCandidate, endsInCandidate, ih, List.all_append]
    cases (c == 0x3C) <;> cases endsInCandidate b <;> cases endsInCandidate r <;>
      cases List.all r nameChar <;> cases List.all b nameChar <;> rfl

/-- A text ending in a byte that is not a name character and not `<` (e.g. `>` or a newline) does not end
    in a candidate. -/
theorem endsInCandidate_append_singleton (a : Bytes) (c : UInt8) (hc : nameChar c = false) (hlt : c ≠ 0x3C) :
    endsInCandidate (a ++ [c]) = false := by
  rw [endsInCandidate_append]
  simp [endsInCandidate, hc, hlt]

/-- `noLt`: all bytes differ from `<` (escaped text: see `noLt_escapeHTML` in `FilterSitesRender.lean`). -/
theorem noLt_iff (a : Bytes) : noLt a = true ↔ ∀ c ∈ a, c ≠ 0x3C := by
  simp [noLt]

theorem noLt_append (a b : Bytes) : noLt (a ++ b) = (noLt a && noLt b) := by
  simp [noLt]

/-- Many segments, each site-free and none ending in a candidate. -/
theorem sitesOK_flatten_closed (p : Bytes → Bool) (segs : List Bytes)
    (h : ∀ s ∈ segs, sitesOK p s = true ∧ endsInCandidate s = false) :
    sitesOK p segs.flatten = true ∧ endsInCandidate segs.flatten = false := by
  induction segs with
  | nil => exact ⟨rfl, rfl⟩
  | cons s segs ih =>
    obtain ⟨h1, h2⟩ := h s (by simp)
    obtain ⟨i1, i2⟩ := ih (fun t ht => h t (by simp [ht]))
    rw [List.flatten_cons]
    refine ⟨sitesOK_append_of_seam p _ _ h1 i1 (seamOK_of_not_endsInCandidate _ _ h2), ?_⟩
    rw [endsInCandidate_append, i2, h2]; rfl

/-- Many segments, each site-free and none starting with a name character. -/
theorem sitesOK_flatten_open (p : Bytes → Bool) (segs : List Bytes)
    (h : ∀ s ∈ segs, sitesOK p s = true ∧ startsNameChar s = false) :
    sitesOK p segs.flatten = true ∧ startsNameChar segs.flatten = false := by
  induction segs with
  | nil => exact ⟨rfl, rfl⟩
  | cons s segs ih =>
    obtain ⟨h1, h2⟩ := h s (by simp)
    obtain ⟨i1, i2⟩ := ih (fun t ht => h t (by simp [ht]))
    rw [List.flatten_cons]
    refine ⟨sitesOK_append_of_seam p _ _ h1 i1 (seamOK_of_not_startsNameChar _ _ i2), ?_⟩
    cases s with
    | nil => simpa using i2
    | cons c s => simpa [startsNameChar] using h2

/-! ### The filter and seams -/

theorem filterLoop_all_nameChar (p : Bytes → Bool) : ∀ X : Bytes,
    (filterLoop p X).all nameChar = X.all nameChar
  | [] => rfl
  | c :: r => by
    by_cases hc : c = 0x3C
    · subst hc
      rw [filterLoop_cons_lt]
      split <;> simp [nameChar_lt, nameChar_amp]
    · rw [filterLoop_cons_ne p c r hc, List.all_cons, List.all_cons, filterLoop_all_nameChar p r]

theorem filterLoop_startsNameChar (p : Bytes → Bool) (X : Bytes) :
    startsNameChar (filterLoop p X) = startsNameChar X := by
  cases X with
  | nil => rfl
  | cons c r =>
    by_cases hc : c = 0x3C
    · subst hc
      rw [filterLoop_cons_lt]
      split <;> simp [startsNameChar, nameChar_lt, nameChar_amp]
    · rw [filterLoop_cons_ne p c r hc]; rfl

/-- Filtering never opens a candidate at the end: if the raw text does not end in `<` nameChar*, neither
    does the filtered text. -/
theorem endsInCandidate_filterLoop (p : Bytes → Bool) : ∀ X : Bytes,
    endsInCandidate X = false → endsInCandidate (filterLoop p X) = false
  | [], _ => rfl
  | c :: r, h => by
    simp only [endsInCandidate, Bool.or_eq_false_iff] at h
    have ih := endsInCandidate_filterLoop p r h.2
    by_cases hc : c = 0x3C
    · subst hc
      rw [filterLoop_cons_lt]
      split
      · simp [endsInCandidate, ih]
      · have : r.all nameChar = false := by simpa using h.1
        simp [endsInCandidate, ih, filterLoop_all_nameChar, this]
    · rw [filterLoop_cons_ne p c r hc]
      simp [endsInCandidate, hc, ih]

/-- The seam between two separately filtered raw texts is innocuous whenever the seam between the raw texts is. -/
theorem seamOK_filterLoop (p : Bytes → Bool) (a b : Bytes) (h : seamOK a b = true) :
    seamOK (filterLoop p a) (filterLoop p b) = true := by
  unfold seamOK at h ⊢
  rw [filterLoop_startsNameChar]
  cases hb : startsNameChar b with
  | false => simp
  | true =>
    rw [hb] at h
    have : endsInCandidate a = false := by simpa using h
    simp [endsInCandidate_filterLoop p a this]

/-! ### Renderer tags -/

/-- `<` followed by something that is not a letter (`</name>`, `<!-- … -->`, `<3`) and no further `<`. -/
theorem sitesOK_lt_nonLetter (p : Bytes → Bool) (rest : Bytes) (h1 : startsLetter rest = false)
    (h2 : noLt rest = true) : sitesOK p (0x3C :: rest) = true := by
  rw [sitesOK_cons_lt, sitesOK_of_noLt p rest h2]
  simp [siteOK, h1]

/-- A renderer end tag `</name>` (any `name`, `attrs` without `<`). -/
theorem sitesOK_endTag (p : Bytes → Bool) (rest : Bytes) (h : noLt rest = true) :
    sitesOK p (0x3C :: 0x2F :: rest) = true := by
  apply sitesOK_lt_nonLetter
  · simp [startsLetter]; decide +kernel
  · simpa [noLt] using h

theorem all_nameChar_noLt (name : Bytes) (h : name.all nameChar = true) : noLt name = true := by
  rw [noLt_iff]
  intro c hc
  exact nameChar_ne_lt c (List.all_eq_true.mp h c hc)

/-- A renderer start tag `<name rest` where `name` consists of name characters and is accepted by `p`
    (after lower-casing), and `rest` (attributes, `>`, …) does not start with a name character and
    contains no `<`. -/
theorem sitesOK_startTag (p : Bytes → Bool) (name rest : Bytes)
    (hname : name.all nameChar = true) (hp : p (lower name) = false)
    (hrest : startsNameChar rest = false) (hlt : noLt rest = true) :
    sitesOK p (0x3C :: (name ++ rest)) = true := by
  rw [sitesOK_cons_lt, sitesOK_of_noLt p (name ++ rest) (by rw [noLt_append, all_nameChar_noLt name hname, hlt]; rfl)]
  rw [siteOK_append p name rest (Or.inr hrest)]
  cases hs : startsLetter name with
  | false => simp [siteOK, hs]
  | true =>
    have : nameAt name = lower name := by
      rw [nameAt_eq_takeWhile name hs, takeWhile_eq_self_of_all nameChar name hname, lower_map]
    simp [siteOK, this, hp]

/-- The same for a name that is already lower case (the renderer's element names). -/
theorem sitesOK_startTag_lower (p : Bytes → Bool) (name rest : Bytes)
    (hname : name.all nameChar = true) (hlow : lower name = name) (hp : p name = false)
    (hrest : startsNameChar rest = false) (hlt : noLt rest = true) :
    sitesOK p (0x3C :: (name ++ rest)) = true :=
  sitesOK_startTag p name rest hname (by rw [hlow]; exact hp) hrest hlt

end CM.Proofs
