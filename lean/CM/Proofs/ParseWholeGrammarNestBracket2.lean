import CM.Proofs.ParseWholeGrammarNestBracket
/-
C05, clause (iii) — the fourth chain (`OmN`), part 3: `parseEndBracket`.
-/
namespace CM.Proofs.InlH
open CM CM.Model CM.Model.Inl
open Std.Do

set_option mvcgen.warning false

section
variable {c : ICtx}

theorem OmN.of_eq3 {s s' : IState} {b P0 b3 : Nat} (h : OmN s b P0 b3)
    (e : s'.nodes = s.nodes ∧ s'.parentMap = s.parentMap ∧ s'.stack = s.stack) : OmN s' b P0 b3 :=
  h.congr e.1 e.2.1 e.2.2

theorem OmN.pmsz' {s : IState} {b P0 b3 : Nat} (h : OmN s b P0 b3) : s.parentMap.size = s.nodes.size := h.1.2.pmsz

theorem found_act {s0 s : IState} {r : Int} {e : DelimE} (hF : Found s0 r s) (hr : ¬ r < 0)
    (hx : s.stack[r.toNat]? = some e) : (e.elem.typ = 3 ∨ e.elem.typ = 4) ∧ e.elem.flags &&& 1 ≠ 0 := by
  obtain ⟨rfl, e', he', h1, h2⟩ := hF (by omega)
  rw [he'] at hx
  cases hx
  exact ⟨h1, h2⟩

/-- `wrap` made the link: the state `MidN` (after the state equations were substituted) -/
macro "peb_midN" : tactic => `(tactic| (
  have hM := mid_wrapN ‹OmN _ 0 0 0› ‹WrapPost _ _ _ _ _ _› ‹_ = some _› ‹(_ ∨ _) ∧ _›
  subst_vars))

set_option maxHeartbeats 400000 in
@[spec high + 3]
theorem parseEndBracket_specN (start : Int) :
    ⦃fun s => ⌜OmN s 0 0 0⌝⦄ parseEndBracket c start ⦃⇓? _ s => ⌜OmN s 0 0 0⌝⦄ := by
  mvcgen [parseEndBracket, spanEnd, getNode, modifyNode, setUnparsedPos, -parseEndBracket_spec, -parseEndBracket_specS,
    -parseEndBracket_specO, -processEmphasis_specO, -processEmphasis_specE, -lookForLinkOrImage_specO,
    -finishLink_specO, -addLeaf_specO, -delStack_specS]
  all_goals inl_norm
  all_goals inl_subst
  all_goals try (
    obtain ⟨hN, hF⟩ := ‹OmN _ 0 0 0 ∧ Found _ _ _›)
  all_goals try (
    have hact := found_act ‹Found _ _ _› ‹¬(_ : Int) < 0› ‹_ = some _›)
  all_goals try (
    have hN' := OmN.of_eq3 ‹OmN _ 0 0 0› ‹IState.nodes _ = _ ∧ _›
    have hx' := stack_get_eq3 ‹_ = some _› ‹IState.nodes _ = _ ∧ _›)
  all_goals first
    | assumption
    | exact fun h => h.elim
    | rfl
    | (apply OmN.pmsz'; assumption)
    | (obtain ⟨h1, h2, h3, rfl⟩ := ‹_ ∧ _ ∧ _ ∧ _ = delState _ _ _›
       exact OmN.del ‹OmN _ 0 0 0› (Nat.zero_le _) (Nat.zero_le _) h3 h1)
    | exact OmN.congr ‹OmN _ 0 0 0› rfl rfl rfl
    | skip
  case vc5 =>
    peb_midN
    exact (MidN.append (MidN.append (MidN.span ‹MidN _ _ _ _ _› _ _
      (by intro _; rfl) (by intro _; rfl) (by intro _; rfl)) _ rfl rfl (by dsimp only; decide)) _ rfl rfl (by dsimp only; decide)).om
  case vc6 =>
    peb_midN
    exact (MidN.append (MidN.span ‹MidN _ _ _ _ _› _ _ (by intro _; rfl) (by intro _; rfl) (by intro _; rfl))
      _ rfl rfl (by dsimp only; decide)).om
  case vc7 =>
    peb_midN
    exact (MidN.append (MidN.span ‹MidN _ _ _ _ _› _ _ (by intro _; rfl) (by intro _; rfl) (by intro _; rfl))
      _ rfl rfl (by dsimp only; decide)).om
  case vc8 =>
    peb_midN
    exact (MidN.span ‹MidN _ _ _ _ _› _ _ (by intro _; rfl) (by intro _; rfl) (by intro _; rfl)).om
  case vc13 | vc53 | vc28 | vc48 | vc68 | vc88 =>
    peb_midN
    exact MidN.setRef ‹MidN _ _ _ _ _› _ (by intro _; rfl) (by intro _; rfl)
  case vc21 | vc41 | vc61 | vc81 =>
    peb_midN
    exact (MidN.span (MidN.append ‹MidN _ _ _ _ _› _ rfl rfl (by dsimp only; decide)) _ _
      (by intro _; rfl) (by intro _; rfl) (by intro _; rfl)).om

end
end CM.Proofs.InlH
