import CM.Proofs.QuoteCollect
/-
C09 (block-quote half): side facts about ONE parser that the simulation of the block starts needs at each step —
the state is an "opening" state, the container is below the document and of a known kind (`Good p K`).
They hold without any assumption on the cursor (no bounds on `Advance` / `ConsumeIndent` arguments are needed).
-/
namespace CM.Proofs.Quote
open CM CM.Model CM.Gen CM.Proofs.BT

structure Good (p : LP) (K : Nat) : Prop where
  st : p.state ≤ 2
  dep : 1 ≤ p.depth
  ck : p.containerKind = K
  ok : TreeOK p

theorem mm_le2 (s : Nat) (h : s ≤ 2) : mm s ≤ 2 := (mm_le s h).2.1

theorem consumeIndent_state_le : ∀ (fuel : Nat) (p : LP) (n : Nat), p.state ≤ 2 → (LP.consumeIndent fuel p n).state ≤ 2 := by
  intro fuel
  induction fuel with
  | zero => intro p n h; exact h
  | succ fuel ih =>
    intro p n h
    unfold LP.consumeIndent
    split
    · exact h
    · simp only []
      have hm : p.markMatched.state ≤ 2 := by rw [markMatched_state]; exact mm_le2 _ h
      split
      · apply ih; rw [updateTab_state]; exact hm
      · split
        · split
          · exact hm
          · apply ih; rw [updateTab_state]; exact hm
        · rw [setPanic_state]; exact hm

theorem advance_state_le (p : LP) (n : Nat) (h : p.state ≤ 2) : (p.advance n).state ≤ 2 := by
  rw [advance_state]; split
  · exact h
  · exact mm_le2 _ h

theorem consumeLine_state_le (p : LP) (h : p.state ≤ 2) : p.consumeLine.state ≤ 2 := by
  have ha := advance_state_le p (p.line.length - p.i) h
  unfold LP.consumeLine
  simp only []
  split
  · show stateLineConsumed ≤ 2; decide
  · split
    · rename_i h1 h2
      simp only [stateDescending, beq_iff_eq] at h2
      omega
    · exact ha

namespace Good
variable {p : LP} {K : Nat}

theorem of_tree {p' : LP} (h : Good p K) (ht : tree p' = tree p) (hs : p'.state ≤ 2) : Good p' K := by
  refine ⟨hs, ?_, ?_, TreeOK.of_tree ht h.ok⟩
  · simp only [tree, Prod.mk.injEq] at ht; rw [ht.2.2.1]; exact h.dep
  · rw [containerKind_of_tree ht]; exact h.ck

theorem advance (h : Good p K) (n : Nat) : Good (p.advance n) K :=
  h.of_tree (advance_tree p n) (advance_state_le p n h.st)

theorem consumeIndentN (h : Good p K) (n : Nat) : Good (p.consumeIndentN n) K :=
  h.of_tree (consumeIndentN_tree p n) (consumeIndent_state_le _ p n h.st)

theorem consumeLine (h : Good p K) : Good p.consumeLine K :=
  h.of_tree (consumeLine_tree p) (consumeLine_state_le p h.st)

theorem appendInline (h : Good p K) (t : Tree) : Good (p.appendInline t) K :=
  ⟨h.st, h.dep, by rw [appendInline_containerKind _ _ h.ok]; exact h.ck, appendInline_ok _ _ h.ok⟩

theorem setState (h : Good p K) (s : Nat) (hs : s ≤ 2) : Good { p with state := s } K :=
  ⟨hs, h.dep, h.ck, ⟨h.ok.root, h.ok.valid⟩⟩

theorem ciIndent (h : Good p K) : Good (BG.ciIndent p) K := by
  unfold BG.ciIndent
  split
  · exact (h.advance _).appendInline _
  · exact h

theorem collectInline (h : Good p K) (x : PExt) (kind n : Nat) : Good (p.collectInline x kind n) K := by
  rw [BG.collectInline_eq x p kind n (by have := h.st; omega)]
  simp only []
  have h1 := (h.setState (mm p.state) (mm_le2 _ h.st)).ciIndent
  split
  · exact (h1.advance n).appendInline _
  · exact (h1.advance n).appendInline _

theorem setContainerIndent (h : Good p K) (n : Int) : Good (p.setContainerIndent n) K := by
  unfold LP.setContainerIndent
  have key : ∀ m, Good (p.setPanic m) K := fun m => h.of_tree (setPanic_tree p m) (by rw [setPanic_state]; exact h.st)
  split
  · exact key _
  · split
    · exact key _
    · have hl : ∀ c : PB, (PB.setLabel (fun l => { l with indent := n }) c).kind = c.kind := by
        intro c; obtain ⟨l, bs, is⟩ := c; rfl
      have hv := h.ok.valid
      cases hsg : spineGet p.root p.depth with
      | none => rw [hsg] at hv; cases hv
      | some c =>
        refine ⟨h.st, h.dep, ?_, ⟨?_, ?_⟩⟩
        · show PB.kind ((spineGet (spineModify _ p.root p.depth) p.depth).getD _) = K
          rw [spineGet_modify_self, hsg]
          simp only [Option.map_some, Option.getD_some, hl]
          have := h.ck
          simp only [LP.containerKind, LP.container, hsg, Option.getD_some] at this
          exact this
        · show (spineModify _ p.root p.depth).kind = _
          simp only [PB.kind]; rw [spineModify_label_pos _ _ (by have := h.dep; omega)]; exact h.ok.root
        · show (spineGet (spineModify _ p.root p.depth) p.depth).isSome
          rw [spineGet_modify_self, hsg]; rfl

end Good

/-- After `openBlock` (from an opening state) the container is the new block. -/
theorem good_openBlock (x : PExt) (p : LP) (kind : Nat) (sa : PLabel → PLabel) (hsk : ∀ l, (sa l).kind = l.kind)
    (hT : TreeOK p) (hs : p.state ≤ 2) (hk : kind ≠ BK.listItem ∨ canContain p.containerKind kind = true) :
    Good (p.openBlock x kind sa) kind := by
  have ob := openBlock_post x p kind sa hsk hT hs hk
  exact ⟨by rw [ob.state]; exact mm_le2 _ hs, openBlock_depth_pos x p kind sa ⟨by omega, by omega⟩, ob.ckind, ob.ok⟩

theorem endBlock_state_le (x : PExt) (p : LP) (hT : TreeOK p) (hs : p.state ≤ 2) : (p.endBlock x).state ≤ 2 := by
  have := endBlock_post x p hT hs
  rw [this.state]
  exact mm_le2 _ hs

theorem endBlock_treeOK (x : PExt) (p : LP) (hT : TreeOK p) (hs : p.state ≤ 2) : TreeOK (p.endBlock x) :=
  (endBlock_post x p hT hs).ok

end CM.Proofs.Quote
