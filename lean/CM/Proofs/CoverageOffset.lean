import CM.Proofs.CoverageBlocks
/-
C03, part B, stream level — preparations:
  * `cov_in_span`: a leaf of a block lies inside the block's span (from `PBSpans` + `WF`), so the leaves of different root
    blocks never cover each other's positions;
  * re-basing (`offsetPB (-m)`, what `makeRoot` does to the left-over siblings) translates the coverage
    (`covPB_offset`) and keeps `WF` (`WF_offset`).
-/
namespace CM.Proofs.Cov
open CM CM.Model CM.Gen CM.Spec CM.Spec.T CM.Proofs.BT CM.Proofs.BSp CM.Proofs.BG

/-! ### leaves lie inside the span -/

/-- A position covered by an inline child with nested spans lies in the child's span. -/
theorem covT_in_span {t : Tree} (h : (nodes t).all childrenInside = true) (j : Nat) (hc : covT t j = true) :
    start t ≤ j ∧ (j : Int) < stop t := by
  unfold covT at hc
  rw [List.any_eq_true] at hc
  obtain ⟨u, hu, hcu⟩ := hc
  have hmem : u ∈ nodes t := (List.mem_filter.mp hu).1
  have := nodes_inside t h u hmem
  rw [covers_iff] at hcu
  omega

theorem PBSpansL_mem_ge {Q : ParaPred} {po : Bool} {hi : Int} : ∀ {bs : List PB} {lo : Int}, PBSpansL Q po lo hi bs →
    ∀ b ∈ bs, ∃ lo', lo ≤ lo' ∧ PBSpans Q lo' hi b := by
  intro bs
  induction bs with
  | nil => intro _ _ b hb; cases hb
  | cons c rest ih =>
    intro lo h b hb
    rw [PBSpansL_cons] at h
    rcases List.mem_cons.mp hb with rfl | hb
    · exact ⟨lo, Int.le_refl _, h.1⟩
    · by_cases hco : c.isOpen = true
      · have := (h.2.1 hco).1
        subst this; cases hb
      · have hcc : 0 ≤ c.label.stop := (isOpen_false_iff c).mp (by simpa using hco)
        have hbn := PBSpans_closed_bounds h.1 hcc
        obtain ⟨lo', h1, h2⟩ := ih h.2.2 b hb
        exact ⟨lo', by omega, h2⟩

/-- **A leaf of a block covers only positions inside the block's span.** -/
theorem cov_in_span : ∀ (b : PB) (hi lo : Int), PBSpans QT lo hi b → WF QT b → ∀ j : Nat, covPB b j = true →
    b.label.start ≤ j ∧ (j : Int) < endOf hi b.label := by
  apply BG.PB.ind
  intro l bs is ih hi lo hs hw j hc
  rw [PBSpans_mk] at hs
  obtain ⟨a1, a2, a3, a4, a5, _⟩ := hs
  have hwf := WF_mk.mp hw
  rw [covPB_mk, Bool.or_eq_true] at hc
  show l.start ≤ j ∧ (j : Int) < endOf hi l
  rcases hc with hc | hc
  · simp only [markerCov, Bool.and_eq_true, decide_eq_true_eq] at hc
    have hcl : 0 ≤ l.stop := by omega
    rw [endOf_closed hcl]
    omega
  · split at hc
    · rw [covTs_iff] at hc
      obtain ⟨t, ht, hct⟩ := hc
      have hio := (inlOK_iff t).mp (hwf.2.1.1 t ht)
      have hd := hio.2.2
      simp only [deepOK, Bool.and_eq_true, List.all_eq_true] at hd
      have hci : (nodes t).all childrenInside = true := by
        rw [List.all_eq_true]; intro u hu; exact (hd.2 u hu).1
      have := covT_in_span hci j hct
      have hb := (inlsOK_sibs a4).2 t ht
      omega
    · rw [covPBs_iff] at hc
      obtain ⟨b, hb, hcb⟩ := hc
      obtain ⟨lo', hlo', hsb⟩ := PBSpansL_mem_ge a5 b hb
      have r := ih b hb (endOf hi l) lo' hsb (hwf.2.2.2 b hb) j hcb
      have hst := PBSpans_start_ge hsb
      refine ⟨by omega, ?_⟩
      -- the end of the child is at most the end of the parent
      by_cases hbo : b.label.stop < 0
      · rw [endOf_open hbo] at r; exact r.2
      · have hbc : 0 ≤ b.label.stop := by omega
        rw [endOf_closed hbc] at r
        have := (PBSpans_closed_bounds hsb hbc).2.2
        omega

/-! ### re-basing: trees -/

theorem offsetTree_start (n : Int) (t : Tree) : start (offsetTree n t) = start t + n := by
  simp only [start]; rw [BSp.offsetTree_label]

theorem offsetTree_stop (n : Int) (t : Tree) : stop (offsetTree n t) = if stop t ≥ 0 then stop t + n else stop t := by
  simp only [stop]; rw [BSp.offsetTree_label]; exact rfl

mutual
theorem nodes_offset (n : Int) : ∀ t : Tree, nodes (offsetTree n t) = (nodes t).map (offsetTree n)
  | .node l cs => by
    rw [nodes_node]
    simp only [offsetTree]
    rw [nodes_node, nodesL_offset n cs, List.map_cons]
    simp only [offsetTree]
theorem nodesL_offset (n : Int) : ∀ ts : List Tree, nodesL (offsetTrees n ts) = (nodesL ts).map (offsetTree n)
  | [] => by simp only [offsetTrees, nodesL_nil, List.map_nil]
  | t :: rest => by
    simp only [offsetTrees]
    rw [nodesL_cons, nodesL_cons, nodes_offset n t, nodesL_offset n rest, List.map_append]
end

theorem isLeaf_offset (n : Int) (t : Tree) : isLeaf (offsetTree n t) = isLeaf t := by
  simp only [isLeaf, isBlock, isB]
  rw [BSp.offsetTree_label, BG.offsetTree_children]
  simp

theorem leaves_offset (n : Int) (t : Tree) : leaves (offsetTree n t) = (leaves t).map (offsetTree n) := by
  unfold leaves
  rw [nodes_offset, List.filter_map]
  congr 1
  apply List.filter_congr
  intro u _
  exact isLeaf_offset n u

theorem covers_offset (m j : Nat) (t : Tree) : covers j (offsetTree (-(m : Int)) t) = covers (j + m) t := by
  simp only [covers, offsetTree_start, offsetTree_stop]
  by_cases hs : stop t ≥ 0
  · rw [if_pos hs]
    have e1 : (start t + -(m : Int) ≤ (j : Int)) ↔ (start t ≤ ((j + m : Nat) : Int)) := by omega
    have e2 : ((j : Int) < stop t + -(m : Int)) ↔ (((j + m : Nat) : Int) < stop t) := by omega
    simp only [e1, e2]
  · rw [if_neg hs]
    have e1 : ((j : Int) < stop t) ↔ False := ⟨fun h => by omega, fun h => h.elim⟩
    have e2 : (((j + m : Nat) : Int) < stop t) ↔ False := ⟨fun h => by omega, fun h => h.elim⟩
    simp only [e1, e2, decide_false, Bool.and_false]

theorem covT_offset (m j : Nat) (t : Tree) : covT (offsetTree (-(m : Int)) t) j = covT t (j + m) := by
  unfold covT
  rw [leaves_offset, List.any_map]
  congr 1
  funext u
  exact covers_offset m j u

theorem covTs_offset (m j : Nat) (ts : List Tree) : covTs (offsetTrees (-(m : Int)) ts) j = covTs ts (j + m) := by
  rw [BG.offsetTrees_eq_map]
  unfold covTs
  rw [List.any_map]
  congr 1
  funext t
  exact covT_offset m j t

/-! ### re-basing: blocks -/

theorem markerCov_offset (m j : Nat) (l : PLabel) :
    markerCov { l with start := l.start + -(m : Int), stop := if l.stop ≥ 0 then l.stop + -(m : Int) else l.stop } j
      = markerCov l (j + m) := by
  simp only [markerCov]
  by_cases hs : l.stop ≥ 0
  · rw [if_pos hs]
    have e1 : (l.start + -(m : Int) ≤ (j : Int)) ↔ (l.start ≤ ((j + m : Nat) : Int)) := by omega
    have e2 : ((j : Int) < l.stop + -(m : Int)) ↔ (((j + m : Nat) : Int) < l.stop) := by omega
    simp only [e1, e2]
  · rw [if_neg hs]
    have e1 : ((j : Int) < l.stop) ↔ False := ⟨fun h => by omega, fun h => h.elim⟩
    have e2 : (((j + m : Nat) : Int) < l.stop) ↔ False := ⟨fun h => by omega, fun h => h.elim⟩
    simp only [e1, e2, decide_false, Bool.and_false]

theorem covPB_offset (m : Nat) : ∀ (b : PB) (j : Nat), covPB (offsetPB (-(m : Int)) b) j = covPB b (j + m) := by
  apply BG.PB.ind
  intro l bs is ih j
  simp only [offsetPB]
  rw [covPB_mk, covPB_mk, markerCov_offset, covTs_offset, BG.offsetPBs_eq_map]
  congr 1
  have he : (bs.map (offsetPB (-(m : Int)))).isEmpty = bs.isEmpty := by cases bs <;> rfl
  rw [he]
  split
  · rfl
  · apply Bool.eq_iff_iff.mpr
    simp only [covPBs_iff, List.mem_map]
    constructor
    · rintro ⟨b', ⟨b, hb, rfl⟩, h⟩
      exact ⟨b, hb, by rw [← ih b hb j]; exact h⟩
    · rintro ⟨b, hb, h⟩
      exact ⟨_, ⟨b, hb, rfl⟩, by rw [ih b hb j]; exact h⟩

theorem covPBs_offset (m : Nat) (bs : List PB) (j : Nat) : covPBs (offsetPBs (-(m : Int)) bs) j = covPBs bs (j + m) := by
  rw [BG.offsetPBs_eq_map]
  unfold covPBs
  rw [List.any_map]
  congr 1
  funext b
  exact covPB_offset m b j

/-! ### re-basing keeps `WF` -/

mutual
theorem mem_nodes_children : ∀ (t u c : Tree), u ∈ nodes t → c ∈ u.children → c ∈ nodes t
  | .node l cs, u, c, hu, hc => by
    rw [nodes_node, List.mem_cons] at hu ⊢
    right
    rcases hu with rfl | hu
    · exact mem_nodesL_self cs c hc
    · exact mem_nodesL_children cs u c hu hc
theorem mem_nodesL_children : ∀ (ts : List Tree) (u c : Tree), u ∈ nodesL ts → c ∈ u.children → c ∈ nodesL ts
  | [], u, c, hu, _ => by rw [nodesL_nil] at hu; cases hu
  | t :: rest, u, c, hu, hc => by
    rw [nodesL_cons, List.mem_append] at hu ⊢
    rcases hu with hu | hu
    · exact Or.inl (mem_nodes_children t u c hu hc)
    · exact Or.inr (mem_nodesL_children rest u c hu hc)
theorem mem_nodesL_self : ∀ (ts : List Tree) (c : Tree), c ∈ ts → c ∈ nodesL ts
  | [], c, hc => by cases hc
  | t :: rest, c, hc => by
    rw [nodesL_cons, List.mem_append]
    rcases List.mem_cons.mp hc with rfl | hc
    · left
      obtain ⟨l, cs⟩ := c
      rw [nodes_node]; exact List.mem_cons_self
    · exact Or.inr (mem_nodesL_self rest c hc)
end

theorem siblingsOrdered_offset (n : Int) : ∀ cs : List Tree, (∀ c ∈ cs, 0 ≤ stop c) → siblingsOrdered cs = true →
    siblingsOrdered (cs.map (offsetTree n)) = true := by
  intro cs
  induction cs with
  | nil => intro _ _; rfl
  | cons a rest ih =>
    intro hst h
    cases rest with
    | nil => rfl
    | cons b r =>
      simp only [siblingsOrdered, Bool.and_eq_true, decide_eq_true_eq] at h
      simp only [List.map_cons, siblingsOrdered, Bool.and_eq_true, decide_eq_true_eq]
      refine ⟨?_, by simpa using ih (fun c hc => hst c (List.mem_cons_of_mem _ hc)) h.2⟩
      rw [offsetTree_stop, offsetTree_start, if_pos (hst a List.mem_cons_self)]
      omega

/-- Re-basing an inline child (to the left, not beyond its start) keeps `inlOK`. -/
theorem inlOK_offset (m : Nat) (t : Tree) (h : inlOK t = true) (hm : (m : Int) ≤ start t) :
    inlOK (offsetTree (-(m : Int)) t) = true := by
  obtain ⟨h0, h1, hd⟩ := (inlOK_iff t).mp h
  simp only [deepOK, Bool.and_eq_true, List.all_eq_true] at hd
  obtain ⟨hv, hs⟩ := hd
  have hci : (nodes t).all childrenInside = true := by
    rw [List.all_eq_true]; intro u hu; exact (hs u hu).1
  -- every node below has a non-negative end
  have hval : ∀ u ∈ nodes t, start u ≤ stop u := by
    intro u hu
    obtain ⟨l, cs⟩ := t
    rw [nodes_node, List.mem_cons] at hu
    rcases hu with rfl | hu
    · exact h1
    · simpa using hv u hu
  have hstop : ∀ u ∈ nodes t, 0 ≤ stop u := by
    intro u hu
    have := nodes_inside t hci u hu
    have := hval u hu
    omega
  rw [inlOK_iff]
  refine ⟨by rw [offsetTree_start]; omega, ?_, ?_⟩
  · rw [offsetTree_start, offsetTree_stop, if_pos (hstop t (by obtain ⟨l, cs⟩ := t; rw [nodes_node]; exact List.mem_cons_self))]
    omega
  · simp only [deepOK, Bool.and_eq_true, List.all_eq_true]
    constructor
    · intro u' hu'
      rw [BG.offsetTree_children, ← BG.offsetTrees_eq_map, nodesL_offset, List.mem_map] at hu'
      obtain ⟨u, hu, rfl⟩ := hu'
      have hun : u ∈ nodes t := by
        obtain ⟨l, cs⟩ := t
        rw [nodes_node]; exact List.mem_cons_of_mem _ hu
      have := hval u hun
      rw [offsetTree_start, offsetTree_stop, if_pos (hstop u hun)]
      simp only [decide_eq_true_eq]
      omega
    · intro u' hu'
      rw [nodes_offset, List.mem_map] at hu'
      obtain ⟨u, hu, rfl⟩ := hu'
      have hsu := hs u hu
      constructor
      · simp only [childrenInside, List.all_eq_true, Bool.and_eq_true, decide_eq_true_eq] at hsu ⊢
        intro c' hc'
        rw [BG.offsetTree_children, List.mem_map] at hc'
        obtain ⟨c, hc, rfl⟩ := hc'
        have hcn := mem_nodes_children t u c hu hc
        have := hsu.1 c hc
        rw [offsetTree_start, offsetTree_start, offsetTree_stop, offsetTree_stop, if_pos (hstop u hu), if_pos (hstop c hcn)]
        omega
      · rw [BG.offsetTree_children]
        exact siblingsOrdered_offset _ _ (fun c hc => hstop c (mem_nodes_children t u c hu hc)) hsu.2

theorem offsetTree_children_nil (n : Int) (t : Tree) (h : t.children = []) : (offsetTree n t).children = [] := by
  rw [BG.offsetTree_children, h]; rfl

/-- **Re-basing keeps `WF`** for a block all of whose spans start at or after `m`. -/
theorem WF_offset (m : Nat) : ∀ (b : PB) (hi lo : Int), (m : Int) ≤ lo → PBSpans QT lo hi b → WF QT b →
    WF QT (offsetPB (-(m : Int)) b) := by
  apply BG.PB.ind
  intro l bs is ih hi lo hm hs hw
  rw [PBSpans_mk] at hs
  obtain ⟨a1, a2, a3, a4, a5, a6, a7⟩ := hs
  have hwf := WF_mk.mp hw
  simp only [offsetPB]
  rw [WF_mk, BG.offsetPBs_eq_map, BG.offsetTrees_eq_map]
  refine ⟨⟨?_, ?_⟩, ⟨?_, ?_⟩, ?_, ?_⟩
  · have := hwf.1.1
    show (if isContainerKind l.kind = true then is.map _ = [] else bs.map _ = [])
    split at this
    · rename_i hk; rw [if_pos hk, this]; rfl
    · rename_i hk; rw [if_neg hk, this]; rfl
  · intro hk c hc
    rw [List.mem_map] at hc
    obtain ⟨c0, hc0, rfl⟩ := hc
    have := hwf.1.2 hk c0 hc0
    rw [(BG.offsetPB_label _ c0).1]; exact this
  · intro t' ht'
    rw [List.mem_map] at ht'
    obtain ⟨t, ht, rfl⟩ := ht'
    have := (inlsOK_sibs a4).2 t ht
    exact inlOK_offset m t (hwf.2.1.1 t ht) (by omega)
  · intro hk t' ht'
    rw [List.mem_map] at ht'
    obtain ⟨t, ht, rfl⟩ := ht'
    exact offsetTree_children_nil _ t (hwf.2.1.2 hk t ht)
  · intro ho
    -- the block is open after re-basing only if it was open before
    have ho' : l.stop < 0 := by
      by_cases hc : l.stop ≥ 0
      · exfalso
        have : (if l.stop ≥ 0 then l.stop + -(m : Int) else l.stop) < 0 := ho
        rw [if_pos hc] at this
        rw [endOf_closed hc] at a2
        omega
      · omega
    exact ⟨(a7 ho').1, fun _ => rfl⟩
  · intro b' hb'
    rw [List.mem_map] at hb'
    obtain ⟨b, hb, rfl⟩ := hb'
    obtain ⟨lo', hlo', hsb⟩ := PBSpansL_mem_ge a5 b hb
    exact ih b hb (endOf hi l) lo' (by omega) hsb (hwf.2.2.2 b hb)

end CM.Proofs.Cov
