import CM.Proofs.ParseWholeInv
import CM.Proofs.BGStarts
import CM.Proofs.BlocksContractSource
/-
Whole-`Parse` theorems, part 3: the places where the block phase CREATES inline nodes (`Sites`), and the operations of
the line parser and the eight block starts under the invariant

    `J Q S p`  :=  `p.source = S`  ∧  `PBI (Q S) p.root`

for a predicate `Q : Bytes → Tree → Prop` on (source, inline child) that holds at every creation site.
The source only matters where nodes are created from it: `collectInline` (info strings: `infoStringLoop` over
`p.source`) and `closeBlock` (`onCloseParagraph` / `refDefLoop`: `collectTextNodes` over `p.source`).
-/
namespace CM.Proofs.PW
open CM CM.Model CM.Gen
open CM.Proofs.BT CM.Proofs.BG

/-- What a predicate on the inline children must satisfy: it holds wherever the block phase creates one. -/
structure Sites (x : PExt) (Q : Bytes → Tree → Prop) : Prop where
  /-- Text / RawHTML / Unparsed runs (`addLineText`, `collectInline`, the orphan paragraph of a setext heading) -/
  leaf : ∀ S k (a b : Int), k ≠ IK.softBreak → k ≠ IK.charRef → Q S (mkInline k a b)
  /-- Indent nodes (`addLineText`, `collectInline`) -/
  indent : ∀ S (a b n : Int), Q S (.node { isBlock := false, kind := IK.indent, start := a, stop := b, indent := n } [])
  /-- the synthetic soft break at the end of input inside a code block (`addLineText`): an empty span -/
  soft : ∀ S (a : Int), Q S (mkInline IK.softBreak a a)
  /-- info strings (`collectInline`) -/
  info : ∀ S (start stop : Nat),
    Q S (mkInline IK.infoString start stop (LP.infoStringLoop x.ext S stop (stop - start + 1) start start []))
  /-- the LinkLabel of a link reference definition (`refDefLoop`) -/
  label : ∀ S (is : List Tree) (a b : Int) (ref : Bytes) (stop fuel st ps : Nat), (∀ t ∈ is, Q S t) →
    Q S (mkInlineRef IK.linkLabel a b ref (collectTextNodes x.ext S stop IK.text false fuel (newReader is st) ps []))
  /-- its LinkDestination and LinkTitle -/
  dest : ∀ S (is : List Tree) (k : Nat) (a b : Int) (stop fuel st ps : Nat), k = IK.linkDest ∨ k = IK.linkTitle →
    (∀ t ∈ is, Q S t) →
    Q S (mkInline k a b (collectTextNodes x.ext S stop IK.text true fuel (newReader is st) ps []))

variable {x : PExt} {Q : Bytes → Tree → Prop} {S : Bytes}

/-! ### refDefLoop, onCloseParagraph -/

theorem I_refdef2 (hS : Sites x Q) (is : List Tree) (his : ∀ t ∈ is, Q S t) (s e a b : Int) (ref : Bytes)
    (stop fuel st ps : Nat) (a' b' : Int) (stop' fuel' st' ps' : Nat) :
    AllI (Q S) [mkPB BK.linkRefDef s e
      [mkInlineRef IK.linkLabel a b ref (collectTextNodes x.ext S stop IK.text false fuel (newReader is st) ps []),
       mkInline IK.linkDest a' b' (collectTextNodes x.ext S stop' IK.text true fuel' (newReader is st') ps' [])]] := by
  apply leaf_I
  intro t ht
  simp only [List.mem_cons, List.not_mem_nil, or_false] at ht
  rcases ht with rfl | rfl
  · exact hS.label S is _ _ _ _ _ _ _ his
  · exact hS.dest S is _ _ _ _ _ _ _ (Or.inl rfl) his

theorem I_refdef3 (hS : Sites x Q) (is : List Tree) (his : ∀ t ∈ is, Q S t) (s e a b : Int) (ref : Bytes)
    (stop fuel st ps : Nat) (a' b' : Int) (stop' fuel' st' ps' : Nat) (a'' b'' : Int) (stop'' fuel'' st'' ps'' : Nat) :
    AllI (Q S) [mkPB BK.linkRefDef s e
      [mkInlineRef IK.linkLabel a b ref (collectTextNodes x.ext S stop IK.text false fuel (newReader is st) ps []),
       mkInline IK.linkDest a' b' (collectTextNodes x.ext S stop' IK.text true fuel' (newReader is st') ps' []),
       mkInline IK.linkTitle a'' b'' (collectTextNodes x.ext S stop'' IK.text true fuel'' (newReader is st'') ps'' [])]] := by
  apply leaf_I
  intro t ht
  simp only [List.mem_cons, List.not_mem_nil, or_false] at ht
  rcases ht with rfl | rfl | rfl
  · exact hS.label S is _ _ _ _ _ _ _ his
  · exact hS.dest S is _ _ _ _ _ _ _ (Or.inl rfl) his
  · exact hS.dest S is _ _ _ _ _ _ _ (Or.inr rfl) his

theorem I_drop {is : List Tree} (h : ∀ t ∈ is, Q S t) (fc : Nat) : ∀ t ∈ is.drop fc, Q S t :=
  fun t ht => h t (List.mem_of_mem_drop ht)

/-- `refDefLoop`: the definitions it builds are made of the three sites; everything else is taken over from the
    paragraph. -/
theorem refDefLoop_I (hS : Sites x Q) (orphan : Option PB)
    (fuel : Nat) (r : Rd) (l : PLabel) (is : List Tree) (result : List PB) :
    (∀ o, orphan = some o → AllI (Q S) [o]) → (∀ t ∈ is, Q S t) → AllI (Q S) result →
    AllI (Q S) (refDefLoop x S orphan fuel r l is result) := by
  cases orphan <;> fun_induction refDefLoop x S _ fuel r l is result
  all_goals intro ho his hres
  all_goals first
    | exact hres.append (leaf_I his)
    | exact hres.append (I_refdef2 hS _ his _ _ _ _ _ _ _ _ _ _ _ _ _ _ _)
    | exact hres.append (I_refdef3 hS _ his _ _ _ _ _ _ _ _ _ _ _ _ _ _ _ _ _ _ _ _ _)
    | exact (hres.append (I_refdef2 hS _ his _ _ _ _ _ _ _ _ _ _ _ _ _ _ _)).append (ho _ rfl)
    | exact (hres.append (I_refdef3 hS _ his _ _ _ _ _ _ _ _ _ _ _ _ _ _ _ _ _ _ _ _ _)).append (ho _ rfl)
    | exact (hres.append (I_refdef2 hS _ his _ _ _ _ _ _ _ _ _ _ _ _ _ _ _)).append (leaf_I (I_drop his _))
    | (rename_i ih; exact ih ho (I_drop his _) (hres.append (I_refdef2 hS _ his _ _ _ _ _ _ _ _ _ _ _ _ _ _ _)))
    | (rename_i ih; exact ih ho (I_drop his _)
        (hres.append (I_refdef3 hS _ his _ _ _ _ _ _ _ _ _ _ _ _ _ _ _ _ _ _ _ _ _)))

theorem onCloseParagraph_I (hS : Sites x Q) (b : PB) (h : PBI (Q S) b) : AllI (Q S) (onCloseParagraph x S b) := by
  obtain ⟨l, bs, is⟩ := b
  cases is with
  | nil =>
    unfold onCloseParagraph
    exact AllI.single h
  | cons first rest =>
    unfold onCloseParagraph
    simp only []
    apply refDefLoop_I hS _ _ _ _ _ _ _ ((PBI_mk _ _ _).1 h).1 AllI.nil
    intro o ho
    split at ho
    · simp only [Option.some.injEq] at ho
      subst ho
      apply leaf_I
      intro t ht
      simp only [List.mem_singleton] at ht
      subst ht
      exact hS.leaf S _ _ _ (by decide) (by decide)
    · cases ho

/-! ### the invariant of the line parser -/

/-- The line parser's source is `S`, and every inline child in its tree satisfies `Q S`. -/
def J (Q : Bytes → Tree → Prop) (S : Bytes) (p : LP) : Prop := p.source = S ∧ PBI (Q S) p.root

theorem J.of_eq {p p' : LP} (h : J Q S p) (hs : p'.source = p.source) (hr : p'.root = p.root) : J Q S p' :=
  ⟨hs.trans h.1, hr ▸ h.2⟩

/-! ### cursor operations -/

theorem setPanic_J (p : LP) (m : String) (h : J Q S p) : J Q S (p.setPanic m) :=
  h.of_eq (setPanic_source p m) (setPanic_root p m).1

theorem markMatched_J (p : LP) (h : J Q S p) : J Q S p.markMatched :=
  h.of_eq (markMatched_source p) (by rw [markMatched_eq])

theorem advance_J (p : LP) (n : Nat) (h : J Q S p) : J Q S (p.advance n) :=
  h.of_eq (advance_source p n) (advance_root p n).1

theorem consumeIndentN_J (p : LP) (n : Nat) (h : J Q S p) : J Q S (p.consumeIndentN n) :=
  h.of_eq (consumeIndentN_source p n) (consumeIndentN_root p n)

theorem consumeLine_J (p : LP) (h : J Q S p) : J Q S p.consumeLine :=
  h.of_eq (consumeLine_source p) (consumeLine_root p)

theorem setState_J (p : LP) (s : Nat) (h : J Q S p) : J Q S ({ p with state := s } : LP) := h
theorem setDepth_J (p : LP) (d : Nat) (h : J Q S p) : J Q S ({ p with depth := d } : LP) := h

/-! ### tree operations -/

theorem closeContainer_J (hS : Sites x Q) (p : LP) (e : Int) (h : J Q S p) : J Q S (p.closeContainer x e) := by
  refine ⟨(closeContainer_source x p e).trans h.1, ?_⟩
  have hpara : ∀ b, PBI (Q S) b → AllI (Q S) (onCloseParagraph x p.source b) := by
    rw [h.1]; exact onCloseParagraph_I hS
  unfold LP.closeContainer
  split
  · show PBI (Q S) ((closeBlock x p.source e p.root).headD p.root)
    have r := closeBlock_I x p.source hpara e p.root h.2
    cases hc : closeBlock x p.source e p.root with
    | nil => exact h.2
    | cons a rest => exact r a (by rw [hc]; exact List.mem_cons_self ..)
  · exact spineReplaceLast_I x p.source hpara e p.root _ h.2

theorem closeLastChild_J (hS : Sites x Q) (p : LP) (e : Int) (h : J Q S p) : J Q S (p.closeLastChild x e) := by
  refine ⟨h.1, ?_⟩
  have hpara : ∀ b, PBI (Q S) b → AllI (Q S) (onCloseParagraph x p.source b) := by
    rw [h.1]; exact onCloseParagraph_I hS
  exact spineReplaceLast_I x p.source hpara e p.root _ h.2

theorem endBlock_J (hS : Sites x Q) (p : LP) (h : J Q S p) : J Q S (p.endBlock x) := by
  unfold LP.endBlock
  split
  · exact setPanic_J _ _ h
  · exact closeContainer_J hS _ _ (markMatched_J _ h)

theorem openBlockLoop_J (hS : Sites x Q) (kind : Nat) : ∀ (fuel : Nat) (p : LP), J Q S p →
    J Q S (LP.openBlockLoop x kind fuel p) := by
  intro fuel
  induction fuel with
  | zero => intro p h; exact h
  | succ fuel ih =>
    intro p h
    unfold LP.openBlockLoop
    split
    · exact h
    · split
      · exact setPanic_J _ _ h
      · exact ih _ (closeContainer_J hS p _ h)

theorem modifyContainer_J (p : LP) (f : PB → PB) (hf : ∀ c, PBI (Q S) c → PBI (Q S) (f c)) (h : J Q S p) :
    J Q S (p.modifyContainer f) :=
  ⟨h.1, PBI_spineModify f hf p.depth p.root h.2⟩

theorem appendInline_J (p : LP) (t : Tree) (ht : Q S t) (h : J Q S p) : J Q S (p.appendInline t) := by
  rw [BG.appendInline_eq]
  exact modifyContainer_J p _ (fun c hc => PBI_appendInl ht hc) h

theorem setContainerIndent_J (p : LP) (n : Int) (h : J Q S p) : J Q S (p.setContainerIndent n) := by
  unfold LP.setContainerIndent
  split
  · exact setPanic_J _ _ h
  · split
    · exact setPanic_J _ _ h
    · exact modifyContainer_J p _ (fun c hc => PBI_setLabel _ hc) h

theorem openBlock_J (hS : Sites x Q) (p : LP) (kind : Nat) (attrs : PLabel → PLabel) (h : J Q S p) :
    J Q S (p.openBlock x kind attrs) := by
  unfold LP.openBlock
  split
  · exact setPanic_J _ _ h
  · simp only []
    have h3 := closeLastChild_J hS _ (LP.openBlockLoop x kind (p.markMatched.depth + 1) p.markMatched).lineStart
      (openBlockLoop_J hS kind (p.markMatched.depth + 1) _ (markMatched_J p h))
    refine ⟨h3.1, PBI_spineModify _ ?_ _ _ h3.2⟩
    intro c hc
    obtain ⟨l, bs, is⟩ := c
    simp only []
    rw [PBI_mk] at hc ⊢
    refine ⟨hc.1, ?_⟩
    intro b hb
    rcases List.mem_append.1 hb with hb | hb
    · exact hc.2 b hb
    · simp only [List.mem_singleton] at hb
      subst hb
      rw [PBI_mk]
      exact ⟨fun _ ht => (by cases ht), fun _ hb => (by cases hb)⟩

theorem collectInline_J (hS : Sites x Q) (p : LP) (kind n : Nat) (hk : kind ≠ IK.softBreak ∧ kind ≠ IK.charRef)
    (h : J Q S p) : J Q S (p.collectInline x kind n) := by
  unfold LP.collectInline
  split
  · exact setPanic_J _ _ h
  · simp only []
    have h1 := markMatched_J p h
    generalize p.markMatched = p1 at h1
    generalize hp2 : (if p1.indent > 0 then _ else p1) = p2
    have h2 : J Q S p2 := by
      rw [← hp2]
      split
      · exact appendInline_J _ _ (hS.indent S _ _ _) (advance_J _ _ h1)
      · exact h1
    clear hp2
    have ha := advance_J p2 n h2
    generalize p2.advance n = p3 at ha ⊢
    split
    · refine appendInline_J _ _ ?_ ha
      rw [ha.1]
      have := hS.info S (p2.lineStart + p2.i) (p3.lineStart + p3.i)
      simp only [Int.natCast_add] at this ⊢
      exact this
    · refine appendInline_J _ _ ?_ ha
      have := hS.leaf S kind ((p2.lineStart + p2.i : Nat) : Int) ((p3.lineStart + p3.i : Nat) : Int) hk.1 hk.2
      simp only [Int.natCast_add] at this ⊢
      exact this

end CM.Proofs.PW
