import CM.Proofs.StreamErr
/-
The run-based form of the simulation, for EVERY line parser: if the in-memory run reaches no panic site of the
stream machine and neither run exhausts the (artificial) fuel of the per-line loop, the streaming run delivers
the same roots and the corresponding outcome.
-/
namespace CM.Proofs
open CM CM.Model CM.Gen

/-- The outcome is the fuel panic of the per-line loop. -/
def isFuelPanic : NBOut → Bool
  | .panic m => m == "parseLines: fuel"
  | _ => false

section
variable (L : LineParserI)

/-- Two fuels for the per-line loop on the in-memory parser: same result, or one of them is exhausted. -/
theorem parseLines_two_fuels : ∀ (f1 f2 : Nat) (lp : L.σ) (ls : Nat) (p : BP), p.err.isSome = true →
    parseLines L f1 lp ls p = parseLines L f2 lp ls p ∨
    (∃ q, parseLines L f1 lp ls p = (.panic "parseLines: fuel", q) ∧ q.panic = p.panic) ∨
    (∃ q, parseLines L f2 lp ls p = (.panic "parseLines: fuel", q) ∧ q.panic = p.panic) := by
  intro f1
  induction f1 with
  | zero => intro f2 lp ls p _; right; left; exact ⟨p, rfl, rfl⟩
  | succ f1 ih =>
    intro f2 lp ls p herr
    cases f2 with
    | zero => right; right; exact ⟨p, rfl, rfl⟩
    | succ f2 =>
      cases hpan : L.panicked (L.line lp (p.buf.take p.i) ls) with
      | some m => left; rw [parseLines_panicked L hpan, parseLines_panicked L hpan]
      | none =>
        cases hmr : makeRoot p (L.kids (L.line lp (p.buf.take p.i) ls)) with
        | some rp => left; rw [parseLines_root L hpan hmr, parseLines_root L hpan hmr]
        | none =>
          rw [parseLines_next L hpan hmr, parseLines_next L hpan hmr]
          obtain ⟨e, he, hr⟩ := readline_site_mem herr
          rw [hr]
          exact ih f2 _ _ { p with i := e } herr

/-- Two pairs of fuels for `NextBlock` on the in-memory parser. -/
theorem nextBlockF_two_fuels (p : BP) (herr : p.err.isSome = true) (fs1 fp1 fs2 fp2 : Nat)
    (hs1 : linesLeft p.buf p.i + 1 ≤ fs1) (hs2 : linesLeft p.buf p.i + 1 ≤ fs2) :
    nextBlockF L fs1 fp1 p = nextBlockF L fs2 fp2 p ∨
    (∃ q, nextBlockF L fs1 fp1 p = (.panic "parseLines: fuel", q) ∧ q.panic = p.panic) ∨
    (∃ q, nextBlockF L fs2 fp2 p = (.panic "parseLines: fuel", q) ∧ q.panic = p.panic) := by
  cases hmr : makeRoot p p.blocks with
  | some rp => left; rw [nextBlockF_root L hmr, nextBlockF_root L hmr]
  | none =>
    by_cases hb : p.blocks.length > 0
    · rw [nextBlockF_pending L hmr hb, nextBlockF_pending L hmr hb]
      obtain ⟨e, he, hr⟩ := readline_site_mem herr
      rw [hr]
      exact parseLines_two_fuels L fp1 fp2 _ _ { p with i := e } herr
    · rw [nextBlockF_fresh L hmr hb, nextBlockF_fresh L hmr hb]
      have hfl : linesLeft (freshLine p).buf (freshLine p).i = linesLeft p.buf p.i := linesLeft_drop p.buf p.i
      obtain ⟨a1, a2, a3⟩ := skipBlank_mem fs1 fs2 (freshLine p) herr (by omega) (by omega)
      rw [← a1]
      rcases hr : skipBlank fs1 (freshLine p) with ⟨_ | q, q2⟩
      · left; rfl
      · rw [hr] at a2 a3
        obtain ⟨b1, _, _, _⟩ := a3 q rfl
        simp only at b1
        subst b1
        simp only [afterSkip]
        have herr' : q.err.isSome = true := by rw [a2.err]; exact herr
        have hp : q.panic = p.panic := a2.panic
        rw [← hp]
        exact parseLines_two_fuels L fp1 fp2 _ _ q herr'
end

theorem makeRoot_sticky {p : BP} {kids : List PB} {r : Root} {p' : BP} (h : makeRoot p kids = some (r, p')) :
    p'.err = p.err ∧ (p.panic.isSome = true → p'.panic.isSome = true) := by
  cases kids with
  | nil => cases h
  | cons k rest =>
    cases ho : k.isOpen with
    | true => rw [makeRoot_open _ _ _ ho] at h; cases h
    | false =>
      rw [makeRoot_closed _ _ _ ho] at h
      simp only [Option.some.injEq, Prod.mk.injEq] at h
      obtain ⟨_, h2⟩ := h
      subst h2
      refine ⟨rfl, ?_⟩
      intro hp
      show (if _ then _ else _ : Option String).isSome = true
      split
      · cases hpp : p.panic <;> simp [hpp] at hp ⊢
      · exact hp

section
variable (L : LineParserI)

theorem parseLines_sticky : ∀ (f : Nat) (lp : L.σ) (ls : Nat) (p : BP), p.err.isSome = true →
    (parseLines L f lp ls p).2.err.isSome = true ∧
    (p.panic.isSome = true → (parseLines L f lp ls p).2.panic.isSome = true) := by
  intro f
  induction f with
  | zero => intro lp ls p h1; exact ⟨h1, fun h2 => h2⟩
  | succ f ih =>
    intro lp ls p h1
    cases hpan : L.panicked (L.line lp (p.buf.take p.i) ls) with
    | some m => rw [parseLines_panicked L hpan]; exact ⟨h1, fun h2 => h2⟩
    | none =>
      cases hmr : makeRoot p (L.kids (L.line lp (p.buf.take p.i) ls)) with
      | some rp =>
        rw [parseLines_root L hpan hmr]
        obtain ⟨a, b⟩ := makeRoot_sticky hmr
        exact ⟨by rw [a]; exact h1, b⟩
      | none =>
        rw [parseLines_next L hpan hmr]
        obtain ⟨e, he, hr⟩ := readline_site_mem h1
        rw [hr]
        exact ih _ _ { p with i := e } h1

theorem nextBlock_sticky (p : BP) (h1 : p.err.isSome = true) :
    (nextBlock L p).2.err.isSome = true ∧ (p.panic.isSome = true → (nextBlock L p).2.panic.isSome = true) := by
  rw [nextBlock_eq_F]
  cases hmr : makeRoot p p.blocks with
  | some rp =>
    rw [nextBlockF_root L hmr]
    obtain ⟨a, b⟩ := makeRoot_sticky hmr
    exact ⟨by rw [a]; exact h1, b⟩
  | none =>
    by_cases hb : p.blocks.length > 0
    · rw [nextBlockF_pending L hmr hb]
      obtain ⟨e, he, hr⟩ := readline_site_mem h1
      rw [hr]
      exact parseLines_sticky L _ _ _ { p with i := e } h1
    · rw [nextBlockF_fresh L hmr hb]
      have hfl : linesLeft (freshLine p).buf (freshLine p).i = linesLeft p.buf p.i := linesLeft_drop p.buf p.i
      have hg := bpFuel_mem_ge p
      obtain ⟨_, a2, a3⟩ := skipBlank_mem (bpFuel p) (bpFuel p) (freshLine p) h1 (by omega) (by omega)
      rcases hr : skipBlank (bpFuel p) (freshLine p) with ⟨_ | q, q2⟩
      · rw [hr] at a2
        have e1 : q2.panic = p.panic := a2.panic
        have e2 : q2.err = p.err := a2.err
        simp only [afterSkip]
        cases hq : q2.panic with
        | none => simp only; exact ⟨by rw [e2]; exact h1, fun h2 => by rw [hq] at e1; rw [← e1] at h2; cases h2⟩
        | some m => simp only; exact ⟨by rw [e2]; exact h1, fun _ => by rw [hq]; rfl⟩
      · rw [hr] at a2 a3
        obtain ⟨b1, _, _, _⟩ := a3 q rfl
        simp only at b1
        subst b1
        simp only [afterSkip]
        have e1 : q.panic = p.panic := a2.panic
        have e2 : q.err = p.err := a2.err
        obtain ⟨c1, c2⟩ := parseLines_sticky L (bpFuel p) (L.new q.blocks) 0 q (by rw [e2]; exact h1)
        exact ⟨c1, fun h2 => c2 (by rw [e1]; exact h2)⟩

theorem drain_sticky : ∀ (f : Nat) (p : BP) (acc : List Root), p.err.isSome = true → p.panic.isSome = true →
    (drain L f p acc).2.2.panic.isSome = true := by
  intro f
  induction f with
  | zero => intro p acc _ h; exact h
  | succ f ih =>
    intro p acc h1 h2
    obtain ⟨b, a⟩ := nextBlock_sticky L p h1
    rcases hn : nextBlock L p with ⟨o, p'⟩
    rw [hn] at a b
    cases o with
    | block r => simp only [drain, hn]; exact ih p' _ b (a h2)
    | err e => simp only [drain, hn]; exact a h2
    | panic m => simp only [drain, hn]; exact a h2
end

section
variable (L : LineParserI)

theorem drain_run (fin : RErr) : ∀ (f : Nat) (ps pm : BP) (acc : List Root), Sim fin ps pm → pm.panic = none →
    (drain L f pm acc).2.2.panic = none →
    isFuelPanic (drain L f ps acc).2.1 = false → isFuelPanic (drain L f pm acc).2.1 = false →
    (drain L f ps acc).1 = (drain L f pm acc).1 ∧ FRel fin (drain L f ps acc).2.1 (drain L f pm acc).2.1 := by
  intro f
  induction f with
  | zero => intro ps pm acc _ _ _ _ _; exact ⟨rfl, FRel.panic _⟩
  | succ f ih =>
    intro ps pm acc hs hp hM hfS hfM
    have herr : pm.err.isSome = true := by rw [hs.merr]; rfl
    have g1 := bpFuel_mem_ge pm
    have g2 := bpFuel_stream_ge hs
    obtain ⟨os, ps', om1, pm1, h1, h2, h3⟩ := nextBlockF_sim L fin (bpFuel ps) (bpFuel ps) ps pm hs hp
    have hnS : nextBlock L ps = (os, ps') := by rw [nextBlock_eq_F]; exact h1
    rcases nextBlockF_two_fuels L pm herr (bpFuel ps) (bpFuel ps) (bpFuel pm) (bpFuel pm) (by omega) (by omega) with
      heq | ⟨q, hq, hqp⟩ | ⟨q, hq, hqp⟩
    · have hnM : nextBlock L pm = (om1, pm1) := by rw [nextBlock_eq_F, ← heq]; exact h2
      have herr1 : pm1.err.isSome = true := by
        have := (nextBlock_sticky L pm herr).1
        rw [hnM] at this; exact this
      by_cases hp1 : pm1.panic = none
      · obtain ⟨hrel, hs1⟩ := h3 hp1
        cases hrel with
        | block r =>
          simp only [drain, hnS, hnM] at hM hfS hfM ⊢
          exact ih ps' pm1 (r :: acc) hs1 hp1 hM hfS hfM
        | err => simp only [drain, hnS, hnM]; exact ⟨by trivial, FRel.err⟩
        | panic m => simp only [drain, hnS, hnM]; exact ⟨by trivial, FRel.panic m⟩
      · exfalso
        have hp1' : pm1.panic.isSome = true := by
          cases h : pm1.panic with
          | none => exact absurd h hp1
          | some m => rfl
        cases om1 with
        | block r =>
          simp only [drain, hnM] at hM
          have := drain_sticky L f pm1 (r :: acc) herr1 hp1'
          rw [hM] at this; cases this
        | err e => simp only [drain, hnM] at hM; exact hp1 hM
        | panic m => simp only [drain, hnM] at hM; exact hp1 hM
    · exfalso
      rw [h2] at hq
      simp only [Prod.mk.injEq] at hq
      obtain ⟨hq1, hq2⟩ := hq
      subst hq2
      have hp1 : pm1.panic = none := by rw [hqp]; exact hp
      obtain ⟨hrel, _⟩ := h3 hp1
      rw [hq1] at hrel
      cases hrel
      simp [drain, hnS, isFuelPanic] at hfS
    · exfalso
      have hnM : nextBlock L pm = (.panic "parseLines: fuel", q) := by rw [nextBlock_eq_F]; exact hq
      simp [drain, hnM, isFuelPanic] at hfM
end

end CM.Proofs
