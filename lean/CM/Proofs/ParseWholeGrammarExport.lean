import CM.Proofs.ParseWholeGrammarSub2
/-
C05, inline half — from the arena to the exported trees: with the child rules `AOK`, the sub-tree rules `φS` and
acyclicity, every exported node satisfies the inline branch of `Spec.grammarAt`.
-/
namespace CM.Proofs.InlH
open CM CM.Model CM.Model.Inl CM.Spec

/-- a leaf of a leaf kind satisfies the grammar, and is its only node -/
theorem inl_leaf {ks : List Nat} {t : Tree} (h : BG.inl ks t = true) :
    t.label.isBlock = false ∧ ks.contains t.label.kind = true ∧ t.children = [] := by
  unfold BG.inl at h
  simp only [Bool.and_eq_true, Bool.not_eq_true', List.isEmpty_iff] at h
  exact ⟨h.1.1, h.1.2, h.2⟩

def leafKinds : List Nat := [IK.text, IK.softBreak, IK.hardBreak, IK.indent, IK.charRef, IK.rawHTML]

theorem leaf_grammarAt {t : Tree} (hb : t.label.isBlock = false) (hk : leafKinds.contains t.label.kind = true)
    (hc : t.children = []) : grammarAt t = true := by
  obtain ⟨l, cs⟩ := t
  change l.isBlock = false at hb
  change leafKinds.contains l.kind = true at hk
  change cs = [] at hc
  subst hc
  have hm : l.kind ∈ leafKinds := List.contains_iff_mem.1 hk
  simp only [leafKinds, List.mem_cons, List.mem_nil_iff, or_false] at hm
  unfold grammarAt
  rcases hm with h | h | h | h | h | h <;>
    (simp only [Tree.label, Tree.children, hb, h, Bool.false_eq_true, if_false]; rfl)

theorem inl_grammarAt {ks : List Nat} (hks : ∀ k ∈ ks, leafKinds.contains k = true) {t : Tree} (h : BG.inl ks t = true) :
    grammarAt t = true ∧ T.nodes t = [t] ∧ inlineOf ks t = true := by
  obtain ⟨hb, hk, hc⟩ := inl_leaf h
  refine ⟨leaf_grammarAt hb (hks _ (by simpa using hk)) hc, ?_, ?_⟩
  · rw [nodes_eq, hc]; rfl
  · unfold inlineOf T.isBlock T.kind
    rw [hb, hk]; rfl

theorem all_inl_nodes {ks : List Nat} (hks : ∀ k ∈ ks, leafKinds.contains k = true) {sub : List Tree}
    (h : sub.all (BG.inl ks) = true) :
    (∀ u ∈ T.nodesL sub, grammarAt u = true) ∧ sub.all (inlineOf ks) = true := by
  rw [List.all_eq_true] at h
  refine ⟨?_, ?_⟩
  · intro u hu
    obtain ⟨c, hc, huc⟩ := mem_nodesL hu
    obtain ⟨hg, hn, _⟩ := inl_grammarAt hks (h c hc)
    rw [hn, List.mem_singleton] at huc
    rw [huc]; exact hg
  · rw [List.all_eq_true]
    exact fun c hc => (inl_grammarAt hks (h c hc)).2.2

/-- the finished sub-trees satisfy the grammar at every node -/
theorem subOK_nodes {k : Nat} {sub : List Tree} (h : subOK k sub = true) : ∀ u ∈ T.nodesL sub, grammarAt u = true := by
  unfold subOK at h
  split at h
  · rw [List.isEmpty_iff] at h; subst h; intro u hu; simp [T.nodesL] at hu
  · split at h
    · exact (all_inl_nodes (by decide) h).1
    · split at h
      · exact (all_inl_nodes (by decide) h).1
      · split at h
        · split at h
          · rename_i t
            have : [t].all (BG.inl [IK.text]) = true := by simpa using h
            exact (all_inl_nodes (by decide) this).1
          · cases h
        · split at h
          · exact (all_inl_nodes (by decide) h).1
          · cases h

/-! ### the rule at an inline node, by kind -/

theorem grammarAt_emph {l : Label} {cs : List Tree} (hb : l.isBlock = false)
    (hk : l.kind = IK.emphasis ∨ l.kind = IK.strong) (h : cs.all isPhrasing = true) : grammarAt (.node l cs) = true := by
  unfold grammarAt
  rcases hk with hk | hk <;>
    (simp only [Tree.label, Tree.children, hb, hk, Bool.false_eq_true, if_false]; exact h)

theorem grammarAt_link {l : Label} {cs : List Tree} (hb : l.isBlock = false) (hk : isLinkKind l.kind)
    (h : (linkTail cs && ((l.ref.isEmpty && !hasKind IK.linkLabel cs)
      || (!hasKind IK.linkDest cs && !hasKind IK.linkTitle cs))) = true) : grammarAt (.node l cs) = true := by
  unfold grammarAt
  rcases hk with hk | hk <;>
    (simp only [Tree.label, Tree.children, hb, hk, Bool.false_eq_true, if_false]; exact h)

theorem subOK_grammarAt {l : Label} {sub : List Tree} (hb : l.isBlock = false) (hnw : ¬ isWrapKind l.kind)
    (hnl : ¬ isLinkKind l.kind) (h : subOK l.kind sub = true) : grammarAt (.node l sub) = true := by
  unfold subOK at h
  split at h
  · rename_i hc
    rw [List.isEmpty_iff] at h; subst h
    simp only [Bool.or_eq_true, beq_iff_eq] at hc
    apply leaf_grammarAt (t := .node l []) hb _ rfl
    show leafKinds.contains l.kind = true
    rcases hc with ((((((((h|h)|h)|h)|h)|h)|h)|h)|h)|h
    all_goals first
      | (rw [h]; rfl)
      | exact absurd (Or.inl h) hnw
      | exact absurd (Or.inr (Or.inl h)) hnw
      | exact absurd (Or.inr (Or.inr h)) hnw
      | exact absurd (Or.inl h) hnl
      | exact absurd (Or.inr h) hnl
  · split at h
    · rename_i hc; simp only [Bool.or_eq_true, beq_iff_eq] at hc
      have := (all_inl_nodes (by decide) h).2
      unfold grammarAt
      rcases hc with hk | hk <;>
        (simp only [Tree.label, Tree.children, hb, hk, Bool.false_eq_true, if_false]; exact this)
    · split at h
      · rename_i hc; simp only [Bool.or_eq_true, beq_iff_eq] at hc
        have := (all_inl_nodes (by decide) h).2
        unfold grammarAt
        rcases hc with hk | hk <;>
          (simp only [Tree.label, Tree.children, hb, hk, Bool.false_eq_true, if_false]; exact this)
      · split at h
        · rename_i hk; simp only [beq_iff_eq] at hk
          split at h
          · rename_i t
            obtain ⟨hb', hk', _⟩ := inl_leaf h
            have hi : T.isI t IK.text = true := by
              unfold T.isI
              have : t.label.kind = IK.text := by simpa using hk'
              rw [hb', this]; rfl
            unfold grammarAt
            simp only [Tree.label, Tree.children, hb, hk, Bool.false_eq_true, if_false]
            exact hi
          · cases h
        · split at h
          · rename_i hk; simp only [beq_iff_eq] at hk
            have := (all_inl_nodes (by decide) h).2
            unfold grammarAt
            simp only [Tree.label, Tree.children, hb, hk, Bool.false_eq_true, if_false]
            exact this
          · cases h

/-! ### the children of a link / image -/

theorem linkTail_cons {a : Tree} {rest : List Tree} (ha : isPhrasing a = true) (h : linkTail rest = true) :
    linkTail (a :: rest) = true := by
  match rest, h with
  | [], _ => simp [linkTail, ha]
  | [b], h =>
    simp only [linkTail, Bool.or_eq_true] at h
    simp only [linkTail, ha, Bool.true_and, Bool.or_eq_true]
    exact Or.inl h
  | b :: c :: r, h =>
    rw [linkTail]
    · rw [ha, h]; rfl
    all_goals (intros; simp_all)

theorem linkTail_append {ps ts : List Tree} (hp : ∀ t ∈ ps, isPhrasing t = true) (h : linkTail ts = true) :
    linkTail (ps ++ ts) = true := by
  induction ps with
  | nil => exact h
  | cons a rest ih =>
    exact linkTail_cons (hp a (List.mem_cons_self ..)) (ih (fun t ht => hp t (List.mem_cons_of_mem _ ht)))

theorem hasKind_phr {ps : List Tree} (hp : ∀ t ∈ ps, isPhrasing t = true) {k : Nat} (hk : phr k = false) :
    hasKind k ps = false := by
  unfold hasKind
  rw [List.any_eq_false]
  intro t ht hi
  have h1 := hp t ht
  unfold isPhrasing T.isBlock T.kind at h1
  unfold T.isI at hi
  simp only [Bool.and_eq_true, Bool.not_eq_true', beq_iff_eq] at h1 hi
  rw [hi.2] at h1
  unfold phr at hk
  rw [h1.2] at hk; cases hk

theorem hasKind_append (k : Nat) (xs ys : List Tree) : hasKind k (xs ++ ys) = (hasKind k xs || hasKind k ys) := by
  unfold hasKind; rw [List.any_append]

end CM.Proofs.InlH
