import CM.Proofs.EolRd2
/-
C14 (a), the paragraph hook under the position map — part 3: `next`.

`next_map`: `next` commutes with `mapRd`, unless the reader sits on a line feed of a text node and `e = CR LF`.
`next_stutter`: in that case the mapped reader steps from the CR to the LF (`mid`), sees `LF` there, and its next step
arrives at the image of the original reader's next state.
-/
namespace CM.Proofs.ERd
open CM CM.Model CM.Gen CM.Proofs CM.Proofs.RDS CM.Proofs.BSp

/-- The reader sits on a line feed of a text node. -/
def AtLF (src : Bytes) (r : Rd) : Prop :=
  ∃ t rest, r.spans = t :: rest ∧ isIndent t = false ∧ src.getD r.pos 0 = LF

/-- On a byte other than NUL (outside an Indent node) the virtual position is 0. -/
def VZ (src : Bytes) (r : Rd) : Prop :=
  ∀ t rest, r.spans = t :: rest → isIndent t = false → src.getD r.pos 0 ≠ 0 → r.vpos = 0

/-- The mapped reader between the CR and the LF. -/
def mid (e X : Bytes) (r : Rd) : Rd :=
  { spans := mapTrees (eolPosZ e X) r.spans, pos := eolPos e X r.pos + 1, vpos := 0, prev := (eolPos e X r.pos : Nat) }

theorem eolPosZ_toNat' (e X : Bytes) (z : Int) : (eolPosZ e X z).toNat = eolPos e X z.toNat := by
  by_cases h : 0 ≤ z
  · exact eolPosZ_toNat e X h
  · rw [eolPosZ_neg e X (by omega)]
    have : z.toNat = 0 := by omega
    rw [this, eolPos_zero]

theorem getD_default {l : Bytes} {j : Nat} (h : j < l.length) (d d' : UInt8) : l.getD j d = l.getD j d' := by
  simp [List.getD_eq_getElem?_getD, List.getElem?_eq_getElem h]

/-! ### NUL runs -/

theorem nullRun_snoc (y : Bytes) (c : UInt8) :
    nullRunBefore (y ++ [c]).reverse = if c == 0 then 1 + nullRunBefore y.reverse else 0 := by
  rw [List.reverse_append]; rfl

theorem snocInd {α : Type} {P : List α → Prop} (h0 : P []) (h1 : ∀ l a, P l → P (l ++ [a])) : ∀ l, P l := by
  intro l
  have : ∀ r : List α, P r.reverse := by
    intro r
    induction r with
    | nil => exact h0
    | cons a r ih => rw [List.reverse_cons]; exact h1 _ _ ih
  simpa using this l.reverse

theorem nullRun_toEol {e : Bytes} (he : StdEol e) : ∀ y : Bytes, nullRunBefore (toEol e y).reverse = nullRunBefore y.reverse := by
  apply snocInd
  · rfl
  · intro y c ih
    rw [toEol_append, nullRun_snoc]
    by_cases hc : c = LF
    · subst hc
      have h1 : toEol e [LF] = e := by rw [toEol_cons_LF]; simp [toEol]
      rw [h1]
      have h2 : (LF == (0 : UInt8)) = false := by decide
      rw [h2]
      rcases he with h | h | h <;> subst h <;> simp [List.reverse_append, nullRunBefore] <;> decide
    · have h1 : toEol e [c] = [c] := by rw [toEol_cons_ne e hc]; rfl
      rw [h1, nullRun_snoc, ih]

section
variable {e X : Bytes} {k : Nat} {is : List Tree} {r : Rd}

theorem isZ_map (he : StdEol e) {j : Nat} (hj : j < (X.take k).length) (d : UInt8) :
    ((toEol e (X.take k)).getD (eolPos e X j) d == 0) = ((X.take k).getD j d == 0) := by
  have hj' : eolPos e X j < (toEol e (X.take k)).length := (pos_lt_iff he j).2 hj
  rw [getD_default hj' d 0, getD_default hj d 0]
  by_cases hb : (X.take k).getD j 0 = LF
  · have := byte_lf (e := e) he hj hb (i := 0) (by rcases stdEol_len he with h | h <;> omega)
    rw [Nat.add_zero] at this
    rw [this, hb]
    have h2 : (e.getD 0 0 == 0) = false := by simpa using (e_head he).1
    rw [h2]; decide
  · rw [byte_ne he hj hb]

theorem cnvp_map (he : StdEol e) (p : Nat) :
    computeNullVirtualPosition (toEol e (X.take k)) (eolPos e X p) = computeNullVirtualPosition (X.take k) p := by
  unfold computeNullVirtualPosition
  by_cases hp : p < (X.take k).length
  · have hp' : eolPos e X p < (toEol e (X.take k)).length := (pos_lt_iff he p).2 hp
    have h1 : (decide (eolPos e X p ≥ (toEol e (X.take k)).length)) = false := by
      rw [decide_eq_false_iff_not]; omega
    have h2 : (decide (p ≥ (X.take k).length)) = false := by rw [decide_eq_false_iff_not]; omega
    rw [h1, h2, Bool.false_or, Bool.false_or]
    have hz := isZ_map (e := e) (X := X) (k := k) he hp 0
    have hne : ((toEol e (X.take k)).getD (eolPos e X p) 0 != 0) = ((X.take k).getD p 0 != 0) := by
      simp only [bne, hz]
    rw [hne]
    have hpk := (lt_of_lt_take hp).1
    have htk : (toEol e (X.take k)).take (eolPos e X p) = toEol e ((X.take k).take p) := by
      rw [← eolPos_take e X (Nat.le_of_lt hpk), take_toEol e (stdEol_ne_nil he)]
    rw [htk, nullRun_toEol he]
  · have hp' : ¬ eolPos e X p < (toEol e (X.take k)).length := fun hh => hp ((pos_lt_iff he p).1 hh)
    have h1 : (decide (eolPos e X p ≥ (toEol e (X.take k)).length)) = true := by
      rw [decide_eq_true_eq]; omega
    have h2 : (decide (p ≥ (X.take k).length)) = true := by rw [decide_eq_true_eq]; omega
    rw [h1, h2, Bool.true_or, Bool.true_or]
    rfl

/-- A live reader: its head, the facts about it. -/
theorem live_facts (hc : Ctx (X.take k) is) (h : RI (X.take k) is r) {t : Tree} {rest : List Tree} (hs : r.spans = t :: rest) :
    t ∈ is ∧ r.pos < (X.take k).length ∧ t.label.start ≤ (r.pos : Int) ∧ (r.pos : Int) < t.label.stop ∧
    t.label.stop ≤ ((X.take k).length : Int) :=
  ⟨h.head_mem hs, RI.pos_lt hc h hs, (h.norm t rest hs).1, (h.norm t rest hs).2, (hc.ok t (h.head_mem hs)).2.1⟩

/-- The position after the reader's, when no CR LF pair is crossed. -/
theorem step_one (he : StdEol e) (hc : Ctx (X.take k) is) (htab : TabsOK (X.take k) is) (h : RI (X.take k) is r)
    {t : Tree} {rest : List Tree} (hs : r.spans = t :: rest) (hn : ¬ (AtLF (X.take k) r ∧ e.length = 2)) :
    eolPos e X (r.pos + 1) = eolPos e X r.pos + 1 := by
  obtain ⟨hm, hp, h1, h2, h3⟩ := live_facts hc h hs
  by_cases hb : (X.take k).getD r.pos 0 = LF
  · rw [eolPos_succ_lf he hp hb]
    cases hi : isIndent t with
    | true =>
      exfalso
      have hstop := (hc.ok t hm).2.2.1 hi
      have : t.label.start.toNat = r.pos := by omega
      exact htab t hm hi (by rw [this]; exact hb)
    | false =>
      have : e.length ≠ 2 := fun h2' => hn ⟨⟨t, rest, hs, hi, hb⟩, h2'⟩
      rcases stdEol_len he with h | h <;> omega
  · exact eolPos_succ_ne he hp hb

theorem mapRd_spans (hs : r.spans = t :: rest) :
    (mapRd e X r).spans = mapTree (eolPosZ e X) t :: mapTrees (eolPosZ e X) rest := by
  show mapTrees _ r.spans = _; rw [hs]; rfl

theorem rd_ext {a b : Rd} (h1 : a.spans = b.spans) (h2 : a.pos = b.pos) (h3 : a.vpos = b.vpos) (h4 : a.prev = b.prev) :
    a = b := by
  cases a; cases b; simp only [Rd.mk.injEq]; exact ⟨h1, h2, h3, h4⟩

/-- **`next` commutes with the map** (no CR LF pair at the reader). -/
theorem next_map (he : StdEol e) (hcr : NoCR X) (hc : Ctx (X.take k) is) (htab : TabsOK (X.take k) is)
    (h : RI (X.take k) is r) (hn : ¬ (AtLF (X.take k) r ∧ e.length = 2)) :
    Rd.next (toEol e (X.take k)) (mapRd e X r) = ((r.next (X.take k)).1, mapRd e X (r.next (X.take k)).2) := by
  have hc' := ctx_map (e := e) he hcr hc htab
  have h' := ri_map (e := e) h
  cases hs : r.spans with
  | nil =>
    rw [next_dead hc h hs, next_dead hc' h' (by show mapTrees _ r.spans = []; rw [hs]; rfl)]
  | cons t rest =>
    obtain ⟨hm, hp, n1, n2, n3⟩ := live_facts hc h hs
    have K1 := step_one he hc htab h hs hn
    have hprev : mapPrev e X (r.pos : Int) = ((eolPos e X r.pos : Nat) : Int) := by
      rw [mapPrev_nat, K1]; omega
    rw [next_live hc h hs, next_live hc' h' (mapRd_spans hs)]
    by_cases c1 : (isIndent t && decide ((r.vpos : Int) < t.label.indent)) = true
    · have c1' : (isIndent (mapTree (eolPosZ e X) t) && decide (((mapRd e X r).vpos : Int) < (mapTree (eolPosZ e X) t).label.indent)) = true := by
        rw [isIndent_map, map_indent]; exact c1
      rw [if_pos c1, if_pos c1']
      refine Prod.ext rfl (rd_ext rfl rfl rfl ?_)
      exact hprev.symm
    · have c1' : ¬ (isIndent (mapTree (eolPosZ e X) t) && decide (((mapRd e X r).vpos : Int) < (mapTree (eolPosZ e X) t).label.indent)) = true := by
        rw [isIndent_map, map_indent]; exact c1
      rw [if_neg c1, if_neg c1']
      have hcond : (((mapRd e X r).pos + 1 : Nat) : Int) < (mapTree (eolPosZ e X) t).label.stop ↔
          ((r.pos + 1 : Nat) : Int) < t.label.stop := by
        rw [map_stop]
        show ((eolPos e X r.pos + 1 : Nat) : Int) < _ ↔ _
        rw [← K1, ← eolPosZ_ofNat, eolPosZ_lt_iff]
      by_cases c2 : (!isIndent t && decide (((r.pos + 1 : Nat) : Int) < t.label.stop)) = true
      · have c2' : (!isIndent (mapTree (eolPosZ e X) t) && decide ((((mapRd e X r).pos + 1 : Nat) : Int) < (mapTree (eolPosZ e X) t).label.stop)) = true := by
          rw [isIndent_map]
          simp only [Bool.and_eq_true, decide_eq_true_eq] at c2 ⊢
          exact ⟨c2.1, hcond.2 c2.2⟩
        rw [if_pos c2, if_pos c2']
        simp only [Bool.and_eq_true, decide_eq_true_eq] at c2
        have hp1 : r.pos + 1 < (X.take k).length := by omega
        refine Prod.ext rfl (rd_ext rfl ?_ ?_ ?_)
        · exact K1.symm
        · show (if (toEol e (X.take k)).getD (eolPos e X r.pos) 1 == 0 && (toEol e (X.take k)).getD (eolPos e X r.pos + 1) 1 == 0
            then (r.vpos + 1) % nullReplacementString.length else 0) = _
          rw [← K1, isZ_map he hp 1, isZ_map he hp1 1]
          rfl
        · exact hprev.symm
      · have c2' : ¬ (!isIndent (mapTree (eolPosZ e X) t) && decide ((((mapRd e X r).pos + 1 : Nat) : Int) < (mapTree (eolPosZ e X) t).label.stop)) = true := by
          rw [isIndent_map]
          simp only [Bool.and_eq_true, decide_eq_true_eq] at c2 ⊢
          exact fun hh => c2 ⟨hh.1, hcond.1 hh.2⟩
        rw [if_neg c2, if_neg c2', nextTextNode_map]
        cases nextTextNode rest with
        | none =>
          simp only [Option.map_none]
          refine Prod.ext rfl (rd_ext rfl ?_ rfl ?_)
          · exact K1.symm
          · exact hprev.symm
        | some pr =>
          obtain ⟨t2, sp⟩ := pr
          simp only [Option.map_some]
          refine Prod.ext rfl (rd_ext rfl ?_ ?_ ?_)
          · show (mapTree (eolPosZ e X) t2).label.start.toNat = eolPos e X t2.label.start.toNat
            rw [map_start, eolPosZ_toNat']
          · show computeNullVirtualPosition _ (mapTree (eolPosZ e X) t2).label.start.toNat = _
            rw [map_start, eolPosZ_toNat', cnvp_map he]
            rfl
          · exact hprev.symm

end

end CM.Proofs.ERd
