import CM.Proofs.ReparseLeafOpen
/-
C16, Layer B, part 6: `descendOpenBlocks` on a line whose only top-level block `k0` is an open leaf block.
-/
namespace CM.Proofs.Rp
open CM CM.Model CM.Gen CM.Proofs

theorem updateTab_i (p : LP) : p.updateTabRemaining.i = p.i ∧ p.updateTabRemaining.line = p.line := by
  unfold LP.updateTabRemaining; split <;> exact ⟨rfl, rfl⟩

theorem markMatched_i (p : LP) : p.markMatched.i = p.i ∧ p.markMatched.line = p.line := by
  unfold LP.markMatched; split <;> exact ⟨rfl, rfl⟩

theorem consumeLine_i (p : LP) (h : p.i ≤ p.line.length) : p.consumeLine.i = p.line.length := by
  have key : (p.advance (p.line.length - p.i)).i = p.line.length := by
    unfold LP.advance
    by_cases hn : p.line.length - p.i = 0
    · simp only [hn, beq_self_eq_true, if_true]; omega
    · have : (p.line.length - p.i == 0) = false := by simpa using hn
      simp only [this, Bool.false_eq_true, if_false]
      obtain ⟨m1, m2⟩ := markMatched_i p
      rw [m1, m2]
      have hle : ¬ (p.i + (p.line.length - p.i) > p.line.length) := by omega
      simp only [hle, if_false]
      rw [(updateTab_i _).1]
      show p.i + (p.line.length - p.i) = _
      omega
  unfold LP.consumeLine
  simp only []
  split
  · exact key
  · split
    · exact key
    · exact key

/-! ### The `match` functions of the leaf kinds -/

theorem ruleMatch_para (x : PExt) (q : LP) : ruleMatch x BK.paragraph q = some (!q.isRestBlank, q) := by
  unfold ruleMatch; rfl

theorem ruleMatch_fenced (x : PExt) (q : LP) :
    (∃ n, ruleMatch x BK.fencedCode q = some (true, q.consumeIndentN n)) ∨
    ruleMatch x BK.fencedCode q = some (false, q.consumeLine) := by
  unfold ruleMatch
  simp only [BK.fencedCode, BK.document, BK.list, BK.listItem, BK.blockQuote, Nat.reduceBEq, Bool.or_self,
    Bool.false_eq_true, if_false, if_true]
  split
  · right; rfl
  · left
    split
    · exact ⟨_, rfl⟩
    · exact ⟨_, rfl⟩

theorem ruleMatch_indented (x : PExt) (q : LP) :
    (∃ n, ruleMatch x BK.indentedCode q = some (true, q.consumeIndentN n)) ∨
    ruleMatch x BK.indentedCode q = some (false, q) := by
  unfold ruleMatch
  simp only [BK.indentedCode, BK.fencedCode, BK.document, BK.list, BK.listItem, BK.blockQuote, Nat.reduceBEq, Bool.or_self,
    Bool.false_eq_true, if_false, if_true]
  split
  · split
    · right; rfl
    · left; exact ⟨_, rfl⟩
  · left; exact ⟨_, rfl⟩

theorem ruleMatch_html (x : PExt) (q : LP) :
    ruleMatch x BK.htmlBlock q = some (true, q) ∨ ruleMatch x BK.htmlBlock q = some (false, q) ∨
    ruleMatch x BK.htmlBlock q = some (false, (q.collectInline x IK.rawHTML q.bytesAfterIndent.length).consumeLine) := by
  unfold ruleMatch
  simp only [BK.htmlBlock, BK.indentedCode, BK.fencedCode, BK.document, BK.list, BK.listItem, BK.blockQuote, Nat.reduceBEq,
    Bool.or_self, Bool.false_eq_true, if_false, if_true]
  split
  · split
    · right; left; rfl
    · right; right; rfl
  · left; rfl

/-! ### `descendOpenBlocks` -/

/-- The state in which the `match` function of the only top-level block is called. -/
def pd (p : LP) : LP := { p with depth := 1, state := stateDescending }

theorem pd_state (p : LP) : (pd p).state = stateDescending := rfl
theorem pd_state_ne (p : LP) : (pd p).state ≠ stateOpening := by rw [pd_state]; decide
theorem pd_not_term (p : LP) : ¬ ((pd p).state == stateDescendTerminated) = true := by rw [pd_state]; decide

/-- What `descendOpenBlocks` returns when the only top-level block `k0` is an open leaf block:
    * `cont`: the tree is untouched; the container is `k0` (`allMatched`) or the document;
    * `term`: `k0` (a fenced code block or an HTML block) has met its end condition and has been closed at the end of
      the line. -/
inductive DL (x : PExt) (p : LP) (k0 : PB) : Bool × LP → Prop
  | cont (am : Bool) (q : LP) : CurFrame (pd p) q → q.state = stateDescending →
      (k0.kind = BK.paragraph → q.i = p.i ∧ am = !p.isRestBlank) →
      DL x p k0 (am, { q with depth := if am then 1 else 0 })
  | term (q : LP) : (q = (pd p).consumeLine ∧ k0.kind = BK.fencedCode) ∨
      (q = ((pd p).collectInline x IK.rawHTML (pd p).bytesAfterIndent.length).consumeLine ∧ k0.kind = BK.htmlBlock) →
      q.state = stateDescendTerminated →
      DL x p k0 (true, { q.closeContainer x (q.lineStart + q.i) with depth := 0 })

theorem spineGet_two_none {root k0 : PB} (hb : root.blocks = [k0]) (hk : k0.blocks = []) : spineGet root 2 = none := by
  obtain ⟨l, is, rfl⟩ := root_single hb
  cases k0 with
  | mk l0 bs0 is0 =>
    simp only [PB.blocks] at hk
    subst hk
    simp [spineGet]

theorem descendLoop_at_one (x : PExt) (fuel : Nat) (q : LP) (k0 : PB) (hb : q.root.blocks = [k0]) (hk : k0.blocks = []) :
    descendLoop x fuel q 1 = (true, { q with depth := 1 }) := by
  cases fuel with
  | zero => rfl
  | succ fuel =>
    unfold descendLoop
    rw [show (1 + 1 : Nat) = 2 from rfl, spineGet_two_none hb hk]

theorem descend_leaf (x : PExt) (p : LP) (k0 : PB) (hb : p.root.blocks = [k0]) (ho : k0.label.stop < 0)
    (hk : k0.blocks = []) (hleaf : LeafK k0.kind) : DL x p k0 (descendOpenBlocks x p) := by
  unfold descendOpenBlocks
  generalize spineLength p.root = fuel
  have hsg : spineGet p.root (0 + 1) = some k0 := by rw [spineGet_one, hb]; rfl
  have hopen : k0.isOpen = true := by unfold PB.isOpen; simpa using ho
  unfold descendLoop
  simp only [hsg, hopen, Bool.not_true, Bool.false_eq_true, if_false]
  show DL x p k0 (match ruleMatch x k0.kind (pd p) with
    | none => (false, { ({ p with depth := 0 + 1 } : LP) with depth := 0 })
    | some (ok, q) =>
      if q.state == stateDescendTerminated then
        (true, { q.closeContainer x (q.lineStart + q.i) with depth := 0 })
      else if !ok then (false, { q with depth := 0 })
      else descendLoop x fuel q (0 + 1))
  -- the three shapes of the result of the `match` function
  have cursorOnly : ∀ (ok : Bool) (q : LP), ruleMatch x k0.kind (pd p) = some (ok, q) → CurFrame (pd p) q →
      q.state = stateDescending → (k0.kind = BK.paragraph → q.i = p.i ∧ ok = !p.isRestBlank) →
      DL x p k0 (match ruleMatch x k0.kind (pd p) with
        | none => (false, { ({ p with depth := 0 + 1 } : LP) with depth := 0 })
        | some (ok, q) =>
          if q.state == stateDescendTerminated then
            (true, { q.closeContainer x (q.lineStart + q.i) with depth := 0 })
          else if !ok then (false, { q with depth := 0 })
          else descendLoop x fuel q (0 + 1)) := by
    intro ok q e hc hs hp
    rw [e]
    have hnt : (q.state == stateDescendTerminated) = false := by rw [hs]; rfl
    simp only [hnt, Bool.false_eq_true, if_false]
    cases ok with
    | false =>
      simp only [Bool.not_false, if_true]
      exact DL.cont false q hc hs hp
    | true =>
      simp only [Bool.not_true, Bool.false_eq_true, if_false]
      rw [descendLoop_at_one x fuel q k0 (by rw [hc.root]; exact hb) hk]
      exact DL.cont true q hc hs hp
  have terminated : ∀ (q : LP), ruleMatch x k0.kind (pd p) = some (false, q) →
      ((q = (pd p).consumeLine ∧ k0.kind = BK.fencedCode) ∨
       (q = ((pd p).collectInline x IK.rawHTML (pd p).bytesAfterIndent.length).consumeLine ∧ k0.kind = BK.htmlBlock)) →
      q.state = stateDescendTerminated →
      DL x p k0 (match ruleMatch x k0.kind (pd p) with
        | none => (false, { ({ p with depth := 0 + 1 } : LP) with depth := 0 })
        | some (ok, q) =>
          if q.state == stateDescendTerminated then
            (true, { q.closeContainer x (q.lineStart + q.i) with depth := 0 })
          else if !ok then (false, { q with depth := 0 })
          else descendLoop x fuel q (0 + 1)) := by
    intro q e hq hs
    rw [e]
    have hnt : (q.state == stateDescendTerminated) = true := by rw [hs]; rfl
    simp only [hnt, if_true]
    exact DL.term q hq hs
  have hnotpara : ∀ {k : Nat}, k0.kind = k → k ≠ BK.paragraph → k0.kind = BK.paragraph → False :=
    fun e hne hp => hne (e ▸ hp)
  rcases hleaf with hk1 | hk1 | hk1 | hk1
  · -- paragraph
    have e := ruleMatch_para x (pd p)
    rw [← hk1] at e
    exact cursorOnly _ _ e (CurFrame.refl _) rfl (fun _ => ⟨rfl, rfl⟩)
  · -- fenced code
    rcases ruleMatch_fenced x (pd p) with ⟨n, e⟩ | e
    · rw [← hk1] at e
      obtain ⟨c1, c2⟩ := consumeIndentN_frame (pd p) n
      exact cursorOnly _ _ e c1 ((c2.eq_of_ne (pd_state_ne p)).trans (pd_state p)) (fun hp => (hnotpara hk1 (by decide) hp).elim)
    · rw [← hk1] at e
      obtain ⟨_, _, l3, _⟩ := consumeLine_frame (pd p)
      exact terminated _ e (Or.inl ⟨rfl, hk1⟩) (l3 rfl)
  · -- HTML block
    rcases ruleMatch_html x (pd p) with e | e | e
    · rw [← hk1] at e
      exact cursorOnly _ _ e (CurFrame.refl _) rfl (fun hp => (hnotpara hk1 (by decide) hp).elim)
    · rw [← hk1] at e
      exact cursorOnly _ _ e (CurFrame.refl _) rfl (fun hp => (hnotpara hk1 (by decide) hp).elim)
    · rw [← hk1] at e
      refine terminated _ e (Or.inr ⟨rfl, hk1⟩) ?_
      obtain ⟨_, _, l3, _⟩ := consumeLine_frame ((pd p).collectInline x IK.rawHTML (pd p).bytesAfterIndent.length)
      apply l3
      -- `collectInline` keeps the state "descending"
      have hs := pd_not_term p
      obtain ⟨q1, t, e1, hq1⟩ := collectInline_shape x (pd p) IK.rawHTML (pd p).bytesAfterIndent.length hs
      rw [e1]
      show (q1.advance _).state = stateDescending
      have hq1s : q1.state = stateDescending := by
        rcases hq1 with rfl | ⟨k, t0, rfl⟩
        · exact ((markMatched_frame (pd p)).2.1.eq_of_ne (pd_state_ne p)).trans (pd_state p)
        · show ((pd p).markMatched.advance k).state = stateDescending
          have h1 := ((markMatched_frame (pd p)).2.1.eq_of_ne (pd_state_ne p)).trans (pd_state p)
          have h2 := (advance_frame (pd p).markMatched k).2
          rw [h2.eq_of_ne (by rw [h1]; decide), h1]
      have h2 := (advance_frame q1 (pd p).bytesAfterIndent.length).2
      rw [h2.eq_of_ne (by rw [hq1s]; decide), hq1s]
  · -- indented code
    rcases ruleMatch_indented x (pd p) with ⟨n, e⟩ | e
    · rw [← hk1] at e
      obtain ⟨c1, c2⟩ := consumeIndentN_frame (pd p) n
      exact cursorOnly _ _ e c1 ((c2.eq_of_ne (pd_state_ne p)).trans (pd_state p)) (fun hp => (hnotpara hk1 (by decide) hp).elim)
    · rw [← hk1] at e
      exact cursorOnly _ _ e (CurFrame.refl _) rfl (fun hp => (hnotpara hk1 (by decide) hp).elim)

end CM.Proofs.Rp
