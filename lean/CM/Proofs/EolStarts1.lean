import CM.Proofs.EolCollect
import CM.Proofs.BlocksStarts
/-
C14 (a), block level — the block starts commute with `mapLP` (part 1: block quote, ATX heading, setext heading,
thematic break, indented code). Each theorem: on a state that satisfies the working invariant `Inv` of the block phase
(C08: no panic, cursor inside the line) and the line facts `LineOK`, the start applied to the re-written state is the
re-written result, and `LineOK` is kept.
-/
namespace CM.Proofs
open CM CM.Model CM.Gen CM.Proofs.BT

/-- The paragraph hook commutes with the position map on every prefix of the buffer. -/
def ParaSimAll (x : PExt) (e X : Bytes) : Prop := ∀ k, ParaCloseSim x e X (X.take k)

section
variable {x : PExt} {e X body nl : Bytes} {p : LP}

theorem ParaSimAll.at (hP : ParaSimAll x e X) (h : LineOK X body nl p) : ParaCloseSim x e X p.source := by
  rw [source_eq_take h]; exact hP _

/-! ### Helpers -/

theorem eolBytes_drop {n : Bytes} (h : EolBytes n) (k : Nat) : EolBytes (n.drop k) :=
  fun c hc => h c (List.mem_of_mem_drop hc)

/-- The rest of the line after the cursor: the rest of the body, then line-ending bytes. -/
theorem LineOK.drop_split (hl : LineOK X body nl p) :
    ∃ n', EolBytes n' ∧ p.line.drop p.i = body.drop p.i ++ n' := by
  refine ⟨nl.drop (p.i - body.length), eolBytes_drop (eolBytes_nl hl.nl) _, ?_⟩
  rw [hl.shape, List.drop_append]

/-- Advancing inside the body of the line. -/
theorem mapLP_advance_rec (hl : LineOK X body nl p) (he : StdEol e) (k : Nat) (hk : k ≤ (body.drop p.i).length) :
    (mapLP e X p).advance k = mapLP e X (p.advance k) := by
  apply mapLP_advance hl he k k
  simp only [List.length_drop] at hk
  by_cases h0 : k = 0
  · subst h0; rfl
  · rw [hl.pos_body (by omega), hl.pos_body (by omega)]

theorem posFree_id : PosFree (id : PLabel → PLabel) := fun _ _ _ => rfl

/-- A recognizer value on `BytesAfterIndent` is its value on the rest of the body at the cursor, once the indentation
    has been consumed. -/
theorem rec_body {α : Type} {f : Bytes → α} (hf : EolInvariant f) (hl : LineOK X body nl p) (b : Bytes)
    (hd : p.line.drop p.i = b) : f b = f (body.drop p.i) := by
  obtain ⟨n', hn', hsplit⟩ := hl.drop_split
  rw [← hd, hsplit, hf _ _ hn']

theorem eolInv_thematic : EolInvariant parseThematicBreak := fun l _ hn => parseThematicBreak_append_eol l hn
theorem eolInv_atx : EolInvariant parseATXHeading := fun l _ hn => parseATXHeading_append_eol l hn
theorem eolInv_setext : EolInvariant parseSetextHeadingUnderline := fun l _ hn => parseSetextHeadingUnderline_append_eol l hn
theorem eolInv_fence : EolInvariant parseCodeFence := fun l _ hn => parseCodeFence_append_eol l hn
theorem eolInv_listMarker : EolInvariant parseListMarker := fun l _ hn => parseListMarker_append_eol l hn
theorem eolInv_bqPrefix : EolInvariant (fun l => hasBytePrefix l blockQuotePrefix) :=
  fun l _ hn => hasBytePrefix_append_eol l hn _ (by intro c hc; simp [blockQuotePrefix] at hc; subst hc; decide)

/-! ### Thematic break -/

theorem startThematicBreak_sim (he : StdEol e) (hP : ParaSimAll x e X) (h : Inv p) (hs : p.state = 0)
    (hl : LineOK X body nl p) :
    startThematicBreak x (mapLP e X p) = mapLP e X (startThematicBreak x p) ∧ LineOK X body nl (startThematicBreak x p) := by
  unfold startThematicBreak
  simp only []
  rw [mapLP_indent hl he, mapLP_bai_inv eolInv_thematic hl he]
  by_cases c1 : p.indent ≥ codeBlockIndentLimit
  · rw [if_pos c1, if_pos c1]; exact ⟨rfl, hl⟩
  rw [if_neg c1, if_neg c1]
  by_cases c2 : parseThematicBreak p.bytesAfterIndent < 0
  · rw [if_pos c2, if_pos c2]; exact ⟨rfl, hl⟩
  rw [if_neg c2, if_neg c2]
  obtain ⟨ci, hdrop, hil⟩ := consumeAll p h
  rw [mapLP_consumeIndentN hl he]
  have hl1 := hl.consumeIndentN he p.indent
  have hrec := rec_body eolInv_thematic hl1 _ hdrop
  generalize p.consumeIndentN p.indent = p1 at ci hdrop hil hl1 hrec ⊢
  have hb := parseThematicBreak_le (body.drop p1.i) (by rw [← hrec]; omega)
  rw [← hrec] at hb
  generalize parseThematicBreak p.bytesAfterIndent = en at hb c2 ⊢
  have i1 := ci.inv h
  have s1 := ci.st (by omega)
  have ob := openBlock_inv x p1 BK.thematicBreak id id_kind i1 s1.2 (Or.inl (by decide))
  rw [mapLP_openBlock x hl1 he (hP.at hl1) BK.thematicBreak id posFree_id]
  have hl2 := (hl1.openBlock x BK.thematicBreak id).1
  generalize p1.openBlock x BK.thematicBreak id = p2 at ob hl2 ⊢
  have i2 := ob.inv i1
  have e2i : p2.i = p1.i := cur_i ob.cur
  rw [mapLP_advance_rec hl2 he en.toNat (by rw [e2i]; exact hb)]
  have hl3 := hl2.advance en.toNat
  generalize p2.advance en.toNat = p3 at hl3 ⊢
  rw [mapLP_consumeLine hl3 he]
  have hl5 := hl3.consumeLine
  generalize p3.consumeLine = p5 at hl5 ⊢
  exact ⟨mapLP_endBlock x hl5 he (hP.at hl5), hl5.endBlock x⟩

/-! ### Block quote -/

theorem startBlockQuote_sim (he : StdEol e) (hP : ParaSimAll x e X) (h : Inv p) (hs : p.state = 0)
    (hl : LineOK X body nl p) :
    startBlockQuote x (mapLP e X p) = mapLP e X (startBlockQuote x p) ∧ LineOK X body nl (startBlockQuote x p) := by
  unfold startBlockQuote
  simp only []
  rw [mapLP_indent hl he, mapLP_bai_inv eolInv_bqPrefix hl he]
  by_cases c1 : p.indent ≥ codeBlockIndentLimit
  · rw [if_pos c1, if_pos c1]; exact ⟨rfl, hl⟩
  rw [if_neg c1, if_neg c1]
  by_cases c2 : (!hasBytePrefix p.bytesAfterIndent blockQuotePrefix) = true
  · rw [if_pos c2, if_pos c2]; exact ⟨rfl, hl⟩
  rw [if_neg c2, if_neg c2]
  have hpre : hasBytePrefix p.bytesAfterIndent blockQuotePrefix = true := by
    cases hh : hasBytePrefix p.bytesAfterIndent blockQuotePrefix
    · rw [hh] at c2; exact absurd rfl c2
    · rfl
  obtain ⟨ci, hdrop, hil⟩ := consumeAll p h
  rw [mapLP_consumeIndentN hl he]
  have hl1 := hl.consumeIndentN he p.indent
  have hrec := rec_body eolInv_bqPrefix hl1 _ hdrop
  rw [hpre] at hrec
  generalize p.consumeIndentN p.indent = p1 at ci hdrop hil hl1 hrec ⊢
  have hlen : 1 ≤ (body.drop p1.i).length := hasBytePrefix_length _ _ hrec.symm
  have i1 := ci.inv h
  have s1 := ci.st (by omega)
  have ob := openBlock_inv x p1 BK.blockQuote id id_kind i1 s1.2 (Or.inl (by decide))
  rw [mapLP_openBlock x hl1 he (hP.at hl1) BK.blockQuote id posFree_id]
  have hl2 := (hl1.openBlock x BK.blockQuote id).1
  generalize p1.openBlock x BK.blockQuote id = p2 at ob hl2 ⊢
  have e2i : p2.i = p1.i := cur_i ob.cur
  rw [mapLP_advance_rec hl2 he blockQuotePrefix.length (by rw [e2i]; exact hlen)]
  have hl3 := hl2.advance blockQuotePrefix.length
  generalize p2.advance blockQuotePrefix.length = p3 at hl3 ⊢
  rw [mapLP_indent hl3 he]
  by_cases c3 : p3.indent > 0
  · rw [if_pos c3, if_pos c3]
    exact ⟨mapLP_consumeIndentN hl3 he 1, hl3.consumeIndentN he 1⟩
  · rw [if_neg c3, if_neg c3]; exact ⟨rfl, hl3⟩

/-! ### ATX heading -/

theorem startATX_sim (he : StdEol e) (hP : ParaSimAll x e X) (h : Inv p) (hs : p.state = 0)
    (hl : LineOK X body nl p) :
    startATX x (mapLP e X p) = mapLP e X (startATX x p) ∧ LineOK X body nl (startATX x p) := by
  unfold startATX
  simp only []
  rw [mapLP_indent hl he, mapLP_bai_inv eolInv_atx hl he]
  by_cases c1 : p.indent ≥ codeBlockIndentLimit
  · rw [if_pos c1, if_pos c1]; exact ⟨rfl, hl⟩
  rw [if_neg c1, if_neg c1]
  by_cases c2 : (parseATXHeading p.bytesAfterIndent).level < 1
  · rw [if_pos c2, if_pos c2]; exact ⟨rfl, hl⟩
  rw [if_neg c2, if_neg c2]
  obtain ⟨ci, hdrop, hil⟩ := consumeAll p h
  rw [mapLP_consumeIndentN hl he]
  have hl1 := hl.consumeIndentN he p.indent
  have hrec := rec_body eolInv_atx hl1 _ hdrop
  generalize p.consumeIndentN p.indent = p1 at ci hdrop hil hl1 hrec ⊢
  have hpos : p1.i ≤ body.length := by
    rcases hl1.cursor (e := e) with ⟨c, _⟩ | ⟨c, _⟩
    · exact c
    · exfalso
      have : p1.line.drop p1.i = [] := by rw [c]; simp
      rw [this] at hdrop
      rw [← hdrop] at c2
      exact c2 (by decide)
  have hb := parseATXHeading_bound (body.drop p1.i)
  rw [← hrec] at hb
  have hb0 := parseATXHeading_bound p.bytesAfterIndent
  generalize parseATXHeading p.bytesAfterIndent = hd at hb hb0 c2 ⊢
  obtain ⟨hb1, hb2, _⟩ := hb
  have hb3 := hb0.2.2 (by omega)
  have i1 := ci.inv h
  have s1 := ci.st (by omega)
  have ob := openBlock_inv x p1 BK.atxHeading (fun l => { l with n := hd.level }) (fun _ => rfl) i1 s1.2 (Or.inl (by decide))
  rw [mapLP_openBlock x hl1 he (hP.at hl1) BK.atxHeading _ (fun _ _ _ => rfl)]
  have hl2 := (hl1.openBlock x BK.atxHeading (fun l => { l with n := hd.level })).1
  generalize p1.openBlock x BK.atxHeading (fun l => { l with n := hd.level }) = p2 at ob hl2 ⊢
  have i2 := ob.inv i1
  have s2 := ob.st s1.2
  have e2i : p2.i = p1.i := cur_i ob.cur
  have e2l : p2.line = p1.line := cur_line ob.cur
  have ad := advance_post p2 hd.start i2.cur (by rw [e2i, e2l, ci.line]; have := hb0.1; have := hb0.2.1; omega)
  rw [mapLP_advance_rec hl2 he hd.start (by rw [e2i]; omega)]
  have hl3 := hl2.advance hd.start
  generalize p2.advance hd.start = p3 at ad hl3 ⊢
  have i3 := ad.inv i2
  have hdrop3 : p3.line.getD p3.i 0 = p.bytesAfterIndent.getD hd.start 0 := by
    rw [ad.i, ad.line, e2i, e2l]; exact getD_of_drop p1 _ _ hdrop
  have hind3 : p3.indent = 0 := indent_zero_of_getD p3 (by rw [hdrop3]; exact hb3.1) (by rw [hdrop3]; exact hb3.2)
  have e3i : p3.i = p1.i + hd.start := by rw [ad.i, e2i]
  have hbody3 : p3.i + (hd.stop - hd.start) ≤ body.length := by
    have : (body.drop p1.i).length = body.length - p1.i := List.length_drop
    rw [this] at hb2
    omega
  rw [mapLP_collectInline x hl3 he IK.unparsed (hd.stop - hd.start) (hd.stop - hd.start)
    (by rw [hind3]; simp only [Nat.lt_irrefl, if_false, Nat.add_zero]
        rw [hl3.pos_body hbody3, hl3.pos_body (by omega)])
    (by intro hk; cases hk)]
  have hl4 := hl3.collectInline x IK.unparsed (hd.stop - hd.start)
  generalize p3.collectInline x IK.unparsed (hd.stop - hd.start) = p4 at hl4 ⊢
  rw [mapLP_consumeLine hl4 he]
  have hl5 := hl4.consumeLine
  generalize p4.consumeLine = p5 at hl5 ⊢
  exact ⟨mapLP_endBlock x hl5 he (hP.at hl5), hl5.endBlock x⟩

/-! ### Setext heading underline -/

theorem startSetext_sim (he : StdEol e) (hP : ParaSimAll x e X) (hl : LineOK X body nl p) :
    startSetext x (mapLP e X p) = mapLP e X (startSetext x p) ∧ LineOK X body nl (startSetext x p) := by
  unfold startSetext
  simp only []
  rw [mapLP_containerKind, mapLP_indent hl he, mapLP_bai_inv eolInv_setext hl he]
  by_cases c0 : (p.containerKind != BK.paragraph) = true
  · rw [if_pos c0, if_pos c0]; exact ⟨rfl, hl⟩
  rw [if_neg c0, if_neg c0]
  by_cases c1 : p.indent ≥ codeBlockIndentLimit
  · rw [if_pos c1, if_pos c1]; exact ⟨rfl, hl⟩
  rw [if_neg c1, if_neg c1]
  by_cases c2 : (parseSetextHeadingUnderline p.bytesAfterIndent == 0) = true
  · rw [if_pos c2, if_pos c2]; exact ⟨rfl, hl⟩
  rw [if_neg c2, if_neg c2]
  rw [mapLP_modifyContainer_setLabel _ (fun _ _ _ => rfl)]
  have hl1 := hl.modifyContainer (PB.setLabel fun l =>
    { l with kind := BK.setextHeading, n := (parseSetextHeadingUnderline p.bytesAfterIndent : Int) })
  generalize p.modifyContainer _ = p1 at hl1 ⊢
  rw [mapLP_consumeLine hl1 he]
  have hl5 := hl1.consumeLine
  generalize p1.consumeLine = p5 at hl5 ⊢
  exact ⟨mapLP_endBlock x hl5 he (hP.at hl5), hl5.endBlock x⟩

/-! ### Indented code -/

theorem startIndentedCode_sim (he : StdEol e) (hP : ParaSimAll x e X) (hl : LineOK X body nl p) :
    startIndentedCode x (mapLP e X p) = mapLP e X (startIndentedCode x p) ∧ LineOK X body nl (startIndentedCode x p) := by
  unfold startIndentedCode
  rw [mapLP_indent hl he, mapLP_isRestBlank hl he, mapLP_tipKind]
  by_cases c1 : (decide (p.indent < codeBlockIndentLimit) || p.isRestBlank || p.tipKind == BK.paragraph) = true
  · rw [if_pos c1, if_pos c1]; exact ⟨rfl, hl⟩
  rw [if_neg c1, if_neg c1]
  simp only []
  rw [mapLP_consumeIndentN hl he]
  have hl1 := hl.consumeIndentN he codeBlockIndentLimit
  generalize p.consumeIndentN codeBlockIndentLimit = p1 at hl1 ⊢
  exact ⟨mapLP_openBlock x hl1 he (hP.at hl1) BK.indentedCode id posFree_id, (hl1.openBlock x BK.indentedCode id).1⟩

end

end CM.Proofs
