import CM.Proofs.ParseScanTok
import CM.Proofs.ParseScanCode5
import CM.Proofs.ParseScanConts
import CM.Proofs.ParseScanOf
import CM.Proofs.ParseScanLkWitness
/-
C02 / C04, inline halves, for the whole of `Parse` — **the scanner facts of the containers of block-phase trees.**

For every root delivered by the block phase and every container `p` (a block with Unparsed inline children) of its tree:
* `blockphase_linkScan2`: `LinkScan2` (both link scanners: `parseLinkLabel`, `parseInlineLink`) — given `TailNP`: the last
  inline child of the container is not followed by `)`;
* `blockphase_html`: the field `TokScan.html` — for paragraphs and setext headings with NO hypothesis, for an ATX heading
  given `TailSafe`: its content run is followed by white space, `#` or the end of the source.
The two hypotheses are decidable facts about the block-phase tree and its source that the block phase establishes but that are
not among its proved invariants (`TailSafe` for ATX headings: `parseATXHeading` cuts the content before white space / the
closing `#`s; `TailNP` for paragraphs: a line that starts with `)` continues the paragraph).
-/
namespace CM.Proofs.PSc
open CM CM.Model CM.Gen CM.Spec CM.Model.Inl
open CM.Proofs.PW CM.Proofs.RK CM.Proofs.InlH CM.Proofs.InlH2 CM.Proofs.PS CM.Proofs.PSh

theorem stop_cast {src : Bytes} {p : Label × List Tree} (h : ContF src p) : ((p.1.stop.toNat : Nat) : Int) = p.1.stop := by
  have := h.span; omega

/-- **Both link scanners stay inside every container of a block-phase tree** that is not followed by `)`. -/
theorem blockphase_linkScan2 (x : PExt) (fuel : Nat) (inp : Bytes) (ix : IExt) (m : Bytes → Bool) :
    ∀ r ∈ (drain (blocksLP x) fuel (memParser inp) []).1, ∀ p ∈ conts (pbToTree r.block), TailNP r.source p.2 →
      LinkScan2 (inlCtx ix r.source r.source.toArray m p.2) p.1.stop := by
  intro r hr p hp hT
  have hF := blockphase_contF x fuel inp r hr p hp
  have := linkScan2_of ix m hF.rc2 hT
  rwa [stop_cast hF] at this

/-- the last line of a paragraph or setext heading ends with a line ending or where the source ends -/
theorem ContF.tailSafe {src : Bytes} {p : Label × List Tree} (h : ContF src p)
    (hatx : p.1.kind = BK.atxHeading → TailSafe src p.2) : TailSafe src p.2 := by
  rcases h.shape with ⟨_, _, hpara⟩ | ⟨_, _, _, hk⟩
  · exact h.tailSafe_para hpara
  · exact hatx hk

/-- **`parseHTMLTag` stays inside every container of a block-phase tree** (an ATX heading: given `TailSafe`). -/
theorem blockphase_html (x : PExt) (fuel : Nat) (inp : Bytes) (ix : IExt) (m : Bytes → Bool) :
    ∀ r ∈ (drain (blocksLP x) fuel (memParser inp) []).1, ∀ p ∈ conts (pbToTree r.block),
      (p.1.kind = BK.atxHeading → TailSafe r.source p.2) →
      HtmlField (inlCtx ix r.source r.source.toArray m p.2) p.1.stop := by
  intro r hr p hp hT
  have hF := blockphase_contF x fuel inp r hr p hp
  have := tokScan_html ix m hF.rc2 (hF.tailSafe hT)
  rwa [stop_cast hF] at this

/-- **`TokScan2` (all four scanner fields of the tokenizer) for every container of a block-phase tree** whose inline children
    are not a single empty run (`# ` without content: `CSHyp` fails there, the inline phase returns no child:
    `PSh.parseInlines_empty`); an ATX heading: given `TailSafe`. -/
theorem blockphase_tokScan2 (x : PExt) (fuel : Nat) (inp : Bytes) (ix : IExt) (m : Bytes → Bool) :
    ∀ r ∈ (drain (blocksLP x) fuel (memParser inp) []).1, ∀ p ∈ conts (pbToTree r.block),
      (p.1.kind = BK.atxHeading → TailSafe r.source p.2) → ¬ EmptyRun p.2 →
      TokScan2 (inlCtx ix r.source r.source.toArray m p.2) p.1.stop := by
  intro r hr p hp hT hne
  have hF := blockphase_contF x fuel inp r hr p hp
  have hcs : CSHyp p.2 r.source r.source.length := by
    rcases blockphase_contReady_all x fuel inp r hr p hp with h | h
    · exact h.2
    · exact absurd h hne
  have hcode := tokScan_code ix m hF.rc2 hcs
  rw [stop_cast hF] at hcode
  exact tokScan_of (blockphase_html x fuel inp ix m r hr p hp hT) hcode

/-- **`TokNP` for every container of a block-phase tree** whose inline children are not a single empty run: after a
    successful `parseCodeSpan`, `collectCodeSpan` does not panic. -/
theorem blockphase_tokNP (x : PExt) (fuel : Nat) (inp : Bytes) (ix : IExt) (m : Bytes → Bool) :
    ∀ r ∈ (drain (blocksLP x) fuel (memParser inp) []).1, ∀ p ∈ conts (pbToTree r.block), ¬ EmptyRun p.2 →
      TokNP (inlCtx ix r.source r.source.toArray m p.2) := by
  intro r hr p hp hne
  have hF := blockphase_contF x fuel inp r hr p hp
  have hcs : CSHyp p.2 r.source r.source.length := by
    rcases blockphase_contReady_all x fuel inp r hr p hp with h | h
    · exact h.2
    · exact absurd h hne
  exact tokNP_of ix m hF.rc2 hcs

/-- **`ContOK2` for a container of a block-phase tree** (the hypothesis of `InlH2.rewriteE_spansOK_nodes` at that
    container), given the two tail facts. -/
theorem blockphase_contOK2 (x : PExt) (fuel : Nat) (inp : Bytes) (ix : IExt) (m : Bytes → Bool) :
    ∀ r ∈ (drain (blocksLP x) fuel (memParser inp) []).1, ∀ p ∈ conts (pbToTree r.block),
      TailNP r.source p.2 → (p.1.kind = BK.atxHeading → TailSafe r.source p.2) → ¬ EmptyRun p.2 →
      ContOK2 ix r.source r.source.toArray m (.node p.1 p.2) := by
  intro r hr p hp h1 h2 h3
  have hF := blockphase_contF x fuel inp r hr p hp
  exact ⟨hF.span.1, blockphase_tokScan2 x fuel inp ix m r hr p hp h2 h3, blockphase_linkScan2 x fuel inp ix m r hr p hp h1⟩

/-! ### the two tail hypotheses are satisfiable -/

/-- a paragraph `a⏎` at the end of its source is not followed by `)` -/
example : TailNP [0x61, 0x0A] [mkInline IK.unparsed 0 2] := by
  intro t ht
  simp only [List.getLast?_singleton, Option.some.injEq] at ht
  subst ht
  left; decide

/-- the ATX heading `# a⏎`: the content run `[2, 3)` is followed by LF -/
example : TailSafe [0x23, 0x20, 0x61, 0x0A] [mkInline IK.unparsed 2 3] := by
  intro t ht _
  simp only [List.getLast?_singleton, Option.some.injEq] at ht
  subst ht
  right; right; right; right; left; decide

end CM.Proofs.PSc

#print axioms CM.Proofs.PSc.blockphase_contOK2
#print axioms CM.Proofs.PSc.blockphase_tokNP
#print axioms CM.Proofs.PSc.blockphase_WFT
#print axioms CM.Proofs.PSc.parse_spansOK_nodes_of
#print axioms CM.Proofs.PSc.parse_rewrite_noPanic_of
#print axioms CM.Proofs.InlH2.Witness.linkScan_inline_false
#print axioms CM.Proofs.InlH2.Witness.contsOK_false
#print axioms CM.Proofs.InlH2.Witness.tokScan_code_false
