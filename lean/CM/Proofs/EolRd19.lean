import CM.Proofs.EolRd18
/-
C14 (a), the paragraph hook under the position map — part 19: `transformLinkReferenceSpan` gives the SAME bytes on both
sides.
-/
namespace CM.Proofs.ERd
open CM CM.Model CM.Gen CM.Proofs CM.Proofs.RDS CM.Proofs.BSp

section
variable {e X : Bytes} {k : Nat} {is : List Tree} {r : Rd}

theorem refText_sim (he : StdEol e) (hcr : NoCR X) (hc : Ctx (X.take k) is) (htab : TabsOK (X.take k) is) (stop : Nat) :
    ∀ (f f' : Nat) (r : Rd) (w : Bool) (acc : Bytes), RJ (X.take k) is r → mu (X.take k) r < f →
      mu (toEol e (X.take k)) (mapRd e X r) < f' →
      refTextLoop (toEol e (X.take k)) (eolPos e X stop) f' (mapRd e X r) w acc = refTextLoop (X.take k) stop f r w acc := by
  have hc' := ctx_map (e := e) he hcr hc htab
  intro f
  induction f with
  | zero => intro f' r _ _ _ hm; omega
  | succ f ih =>
    intro f' r w acc h hm hm'
    obtain ⟨g, rfl⟩ : ∃ g, f' = g + 1 := ⟨f' - 1, by omega⟩
    rw [refTextLoop, refTextLoop]
    have hcond : (decide ((mapRd e X r).pos < eolPos e X stop)) = decide (r.pos < stop) :=
      decide_eq_decide.2 (eolPos_lt_iff e X)
    rw [hcond]
    by_cases h0 : (!decide (r.pos < stop)) = true
    · rw [if_pos h0, if_pos h0]
    · rw [if_neg h0, if_neg h0]
      have hlt : r.pos < stop := by simpa using h0
      have hcur := h.cur hc
      have hcur' := current_map_eq (e := e) he hcr hc htab h.1
      rw [hcur, hcur']
      simp only []
      generalize hcv : (r.current (X.take k)).1 = c at hcur hcur'
      rw [trB_ws he]
      obtain ⟨j1, m1, st⟩ := step_full he hcr hc htab h
      rcases hn : r.next (X.take k) with ⟨ok, r1⟩
      rw [hn] at j1 m1 st
      simp only [] at j1 m1 st
      by_cases hws : isSpaceTabOrLineEnding c = true
      · rw [if_pos hws, if_pos hws]
        rcases st with ⟨s, ms⟩ | ⟨_, he2, s3, s4, s5, s6, ms1, ms2, hat⟩
        · rw [s]
          simp only []
          cases ok with
          | false => rfl
          | true =>
            simp only [Bool.not_true, Bool.false_eq_true, if_false]
            have := m1 rfl
            have := ms rfl
            exact ih g r1 true _ j1 (by omega) (by omega)
        · rw [s3]
          simp only [Bool.not_true, Bool.false_eq_true, if_false]
          obtain ⟨g2, rfl⟩ : ∃ g2, g = g2 + 1 := ⟨g - 1, by omega⟩
          obtain ⟨t, rest, hs, hi, hb⟩ := hat
          have hltm : (mid e X r).pos < eolPos e X stop := by
            show eolPos e X r.pos + 1 < _
            have hp := RI.pos_lt hc h.1 hs
            have h1 : eolPos e X (r.pos + 1) ≤ eolPos e X stop := eolPos_mono e X (by omega)
            have h2 := eolPos_succ_lf (e := e) he hp hb
            have h3 : e.length = 2 := by rw [he2]; rfl
            omega
          rw [refTextLoop]
          have hd : (!decide ((mid e X r).pos < eolPos e X stop)) = false := by simp [hltm]
          rw [hd]
          simp only [Bool.false_eq_true, if_false]
          rw [s5]
          simp only [show isSpaceTabOrLineEnding LF = true by decide, if_true]
          rw [s6]
          simp only []
          cases ok with
          | false => rfl
          | true =>
            simp only [Bool.not_true, Bool.false_eq_true, if_false]
            have := m1 rfl
            have := ms2 rfl
            exact ih g2 r1 true _ j1 (by omega) (by omega)
      · rw [if_neg hws, if_neg hws]
        have hws' : isSpaceTabOrLineEnding c = false := by simpa using hws
        have hclf : c ≠ LF := (ws_of_sp_lf hws').1
        have htr : trB e c = c := by unfold trB; rw [if_neg hclf]
        rw [htr]
        rcases st with ⟨s, ms⟩ | ⟨s1, _⟩
        · rw [s]
          simp only []
          cases ok with
          | false => rfl
          | true =>
            simp only [Bool.not_true, Bool.false_eq_true, if_false]
            have := m1 rfl
            have := ms rfl
            exact ih g r1 false _ j1 (by omega) (by omega)
        · rw [hcv] at s1; exact absurd s1 hclf

/-! ### readers that are not normalised yet -/

theorem next_norm (src : Bytes) (r : Rd) : r.next src = r.currentNode.2.next src := by
  unfold Rd.next
  rw [currentNode_idem]

theorem current_norm (src : Bytes) (r : Rd) :
    (r.current src).1 = (r.currentNode.2.current src).1 ∧ (r.current src).2.next src = r.currentNode.2.next src ∧
    ((r.currentNode.2.current src).2).next src = r.currentNode.2.next src := by
  have hp := (currentNode_pos r).1
  by_cases h : r.pos ≥ src.length
  · have e1 : r.current src = (0, r) := by unfold Rd.current; rw [if_pos h]
    have e2 : r.currentNode.2.current src = (0, r.currentNode.2) := by unfold Rd.current; rw [hp, if_pos h]
    rw [e1, e2]
    exact ⟨rfl, next_norm src r, rfl⟩
  · have e1 : (r.current src).2 = r.currentNode.2 := current_snd_of_lt src r h
    have e2 : (r.currentNode.2.current src).2 = r.currentNode.2.currentNode.2 :=
      current_snd_of_lt src r.currentNode.2 (by rw [hp]; exact h)
    refine ⟨?_, by rw [e1], by rw [e2, currentNode_idem]⟩
    unfold Rd.current
    rw [hp, if_neg h, if_neg h, currentNode_idem]

theorem refText_norm (src : Bytes) (stop f : Nat) (r : Rd) (w : Bool) (acc : Bytes) :
    refTextLoop src stop (f + 1) r w acc = refTextLoop src stop (f + 1) r.currentNode.2 w acc := by
  obtain ⟨c1, c2, c3⟩ := current_norm src r
  rw [refTextLoop, refTextLoop, (currentNode_pos r).1]
  rcases h1 : r.current src with ⟨c, ra⟩
  rcases h2 : r.currentNode.2.current src with ⟨c', rb⟩
  rw [h1, h2] at c1
  rw [h1] at c2
  rw [h2] at c3
  simp only [] at c1 c2 c3 ⊢
  rw [c1, c2, c3]

theorem refText_dead (src : Bytes) (stop f : Nat) (r : Rd) (hs : r.spans = []) (w : Bool) (acc : Bytes) :
    refTextLoop src stop (f + 1) r w acc =
      if (!decide (r.pos < stop)) = true then acc
      else if isSpaceTabOrLineEnding (r.current src).1 = true then (if w = true then acc else acc ++ [SP])
      else acc ++ [(r.current src).1] := by
  have hcn : r.currentNode = (none, r) := by
    unfold Rd.currentNode; rw [hs]; simp only [nodeIndexForPosition]; cases r; simp_all
  have hnx : ∀ q : Rd, q = (r.current src).2 → q.next src = (false, q) := by
    intro q hq
    have : q = r := by
      rcases current_cases src r with e1 | e1
      · rw [hq, e1]
      · rw [hq, e1, hcn]
    rw [this]; unfold Rd.next; rw [hcn]
  rw [refTextLoop]
  rcases hcur : r.current src with ⟨c, ra⟩
  have := hnx ra (by rw [hcur])
  simp only []
  rw [this]
  simp only [Bool.not_false, if_true]

theorem current_dead_map (he : StdEol e) (r : Rd) (hs : r.spans = []) :
    (Rd.current (toEol e (X.take k)) (mapRd e X r)).1 = trB e ((r.current (X.take k)).1) := by
  have hcn : r.currentNode = (none, r) := by
    unfold Rd.currentNode; rw [hs]; simp only [nodeIndexForPosition]; cases r; simp_all
  have hcn' : (mapRd e X r).currentNode = (none, mapRd e X r) := by
    rw [currentNode_map_any, hcn]; rfl
  unfold Rd.current
  have hlen : (mapRd e X r).pos ≥ (toEol e (X.take k)).length ↔ r.pos ≥ (X.take k).length := by
    have := pos_lt_iff (e := e) (X := X) (k := k) he r.pos
    show eolPos e X r.pos ≥ _ ↔ _
    omega
  by_cases hp : r.pos ≥ (X.take k).length
  · rw [if_pos hp, if_pos (hlen.2 hp)]; rfl
  · rw [if_neg hp, if_neg (fun hh => hp (hlen.1 hh)), hcn, hcn']
    simp only []
    have := raw_map (e := e) (X := X) (k := k) (r := r) he (by omega)
    unfold raw at this
    have fst_ite : ∀ {α β : Type} (c : Prop) [Decidable c] (a b : α) (x y : β),
        (if c then (a, x) else (b, y)).fst = if c then a else b := by
      intro α β c _ a b x y; split <;> rfl
    rw [fst_ite, fst_ite]
    exact this

/-- **The reference text is the same on both sides.** -/
theorem transform_eq (he : StdEol e) (hcr : NoCR X) (hc : Ctx (X.take k) is) (htab : TabsOK (X.take k) is)
    (fold : Bytes → Bytes) (start stop : Nat) :
    transformLinkReferenceSpan fold (toEol e (X.take k)) (mapTrees (eolPosZ e X) is) (eolPos e X start) (eolPos e X stop) =
      transformLinkReferenceSpan fold (X.take k) is start stop := by
  unfold transformLinkReferenceSpan
  congr 2
  obtain ⟨f, hf⟩ : ∃ f, rdFuel (X.take k) is = f + 1 := ⟨rdFuel (X.take k) is - 1, by unfold rdFuel; omega⟩
  obtain ⟨g, hg⟩ : ∃ g, rdFuel (toEol e (X.take k)) (mapTrees (eolPosZ e X) is) = g + 1 :=
    ⟨rdFuel (toEol e (X.take k)) (mapTrees (eolPosZ e X) is) - 1, by unfold rdFuel; omega⟩
  rw [← mapRd_new, hf, hg, refText_norm, refText_norm (X.take k), currentNode_map_any]
  simp only []
  rcases new_norm (X := X) (k := k) (is := is) start with hj | hd
  · rw [← hf, ← hg]
    exact refText_sim he hcr hc htab stop _ _ _ false [] hj (mu_lt_fuel hj.1) (mu_lt_fuel (ri_map hj.1))
  · rw [refText_dead _ _ g _ (by show mapTrees _ (newReader is start).currentNode.2.spans = []; rw [hd]; rfl),
      refText_dead _ _ f _ hd, current_dead_map he _ hd, trB_ws he]
    have hcond : (decide ((mapRd e X (newReader is start).currentNode.2).pos < eolPos e X stop)) =
        decide ((newReader is start).currentNode.2.pos < stop) := decide_eq_decide.2 (eolPos_lt_iff e X)
    rw [hcond]
    by_cases hws : isSpaceTabOrLineEnding ((newReader is start).currentNode.2.current (X.take k)).1 = true
    · rw [if_pos hws, if_pos hws]
    · rw [if_neg hws, if_neg hws]
      have hws' : isSpaceTabOrLineEnding ((newReader is start).currentNode.2.current (X.take k)).1 = false := by simpa using hws
      have : trB e ((newReader is start).currentNode.2.current (X.take k)).1 =
          ((newReader is start).currentNode.2.current (X.take k)).1 := by
        unfold trB; rw [if_neg (ws_of_sp_lf hws').1]
      rw [this]

end

end CM.Proofs.ERd
