import CM.Proofs.QuoteRdF
/-
C09, `onCloseParagraph` with `[` (7): `collectTextNodes` on both sides in lockstep — the invariant `CInv` (related
readers; on each side the emitted text followed by the pending text is the same byte string) and the inner function
`go`.
-/
namespace CM.Proofs.Quote
open CM CM.Model CM.Gen

variable {E : Env} {is is' : List Tree}

theorem getLast?_get {α : Type} {l : List α} {a : α} (h : l.getLast? = some a) : l[l.length - 1]? = some a := by
  rw [List.getLast?_eq_getElem?] at h; exact h

/-- Corresponding positions are at or before the ends of the last nodes. -/
theorem PosP.le_last (hc : PC E is is') {b b' : Int} (h : PosP is is' b b') {t t' : Tree} (g : is.getLast? = some t)
    (g' : is'.getLast? = some t') : b ≤ t.label.stop ∧ b' ≤ t'.label.stop := by
  obtain ⟨k, o, u, u', h1, h2, h3, rfl, rfl⟩ := h
  obtain ⟨u2, e, nr⟩ := hc.rel.getElem? h1
  rw [h2] at e; cases e
  have g1 := getLast?_get g
  have g2 := getLast?_get g'
  have hk : k < is.length := (List.getElem?_eq_some_iff.mp h1).1
  have hlen := nr.len
  have hl := hc.rel.length_eq
  by_cases hkl : k = is.length - 1
  · subst hkl
    rw [h1] at g1; cases g1
    rw [← hl, h2] at g2; cases g2
    constructor <;> omega
  · have s1 := sorted_idx hc.c.sorted h1 g1 (by omega)
    have s2 := sorted_idx hc.c'.sorted h2 g2 (by omega)
    have n1 := (hc.c.ok t (List.mem_of_getElem? g1)).1
    have n2 := (hc.c'.ok t' (List.mem_of_getElem? g2)).1
    constructor <;> omega

/-- The test `pos < stop` agrees on the two sides. -/
theorem lt_stop_sides (hc : PC E is is') {r r' : Rd} (hr : RR E is is' r r') {stop stop' : Nat}
    (hst : PosP is is' (stop : Int) (stop' : Int)) : (r.pos < stop ↔ r'.pos < stop') := by
  rcases hr.cases hc with ⟨d1, _⟩ | ⟨k, o, t, t', hl⟩
  · obtain ⟨t, t', g1, g2, p1, p2⟩ := hr.dead d1
    obtain ⟨l1, l2⟩ := hst.le_last hc g1 g2
    constructor <;> intro h <;> omega
  · have := cmp_sides hc hl.liveP hst
    constructor <;> intro h <;> omega

theorem LiveAt.facts (hc : PC E is is') {r r' : Rd} {k o : Nat} {t t' : Tree} (hl : LiveAt E is is' r r' k o t t') :
    r.pos < E.src.length ∧ r'.pos < E.src'.length ∧ E.src'.getD r'.pos 0 = E.src.getD r.pos 0 := by
  have n1 := (hc.c.ok t (List.mem_of_getElem? hl.g)).2.1
  have n2 := (hc.c'.ok t' (List.mem_of_getElem? hl.g')).2.1
  have hb := hl.nr.bytes o hl.lt
  have := hl.pos
  have := hl.pos'
  have := hl.nn
  have := hl.nn'
  have := hl.lt
  have := hl.nr.len
  rw [← hl.pos, ← hl.pos'] at hb
  exact ⟨by omega, by omega, hb⟩

/-- The invariant of `collectTextNodes` on both sides. -/
structure CInv (E : Env) (is is' : List Tree) (stop stop' : Nat) (r r' : Rd) (ps ps' : Nat) (acc acc' : List Tree) :
    Prop where
  rr : RR E is is' r r'
  u : U stop r ps
  u' : U stop' r' ps'
  z : flat E.src acc ++ seg E.src ps r.pos = flat E.src' acc' ++ seg E.src' ps' r'.pos

/-- One side of a successful `next` in `go`. -/
theorem step_side (ext : Ext) (src : Bytes) (stop kind : Nat) (esc : Bool) (f : Nat) {r2 : Rd} {ps pos : Nat}
    (acc : List Tree) (hps : ps ≤ pos) (hp : pos < src.length) (hlt : pos < stop) (hprev : r2.prev = (pos : Int))
    (hadv : pos + 1 ≤ r2.pos) :
    ∃ ps2 acc2,
      (if r2.jumped = true then
          collectTextNodes ext src stop kind esc f r2 r2.pos
            (if r2.prev ≥ (ps : Int) then acc ++ [mkInline kind ps (r2.prev + 1)] else acc)
        else collectTextNodes ext src stop kind esc f r2 ps acc) = collectTextNodes ext src stop kind esc f r2 ps2 acc2 ∧
      U stop r2 ps2 ∧ flat src acc2 ++ seg src ps2 r2.pos = flat src acc ++ seg src ps pos ++ [src.getD pos 0] := by
  cases hj : r2.jumped with
  | true =>
    obtain ⟨a1, a2⟩ := step_jump src stop kind (r2 := r2) acc hps hp hprev
    exact ⟨_, _, by simp only [if_true], a1, a2⟩
  | false =>
    obtain ⟨a1, a2⟩ := step_nojump src stop (r2 := r2) acc hps hp hlt hprev hadv hj
    exact ⟨_, _, by simp only [Bool.false_eq_true, if_false], a1, a2⟩

/-- The hypothesis on the recursive calls. -/
def CIH (E : Env) (is is' : List Tree) (ext : Ext) (kind : Nat) (esc : Bool) (stop stop' f f' : Nat) : Prop :=
  ∀ (r r' : Rd) (ps ps' : Nat) (acc acc' : List Tree), CInv E is is' stop stop' r r' ps ps' acc acc' →
    RDS.mu E.src r < f → RDS.mu E.src' r' < f' →
    flat E.src (collectTextNodes ext E.src stop kind esc f r ps acc) =
      flat E.src' (collectTextNodes ext E.src' stop' kind esc f' r' ps' acc')

/-- **`go`** on both sides. -/
theorem goF_sim (hc : PC E is is') (ext : Ext) (kind : Nat) (esc : Bool) {stop stop' : Nat}
    (hst : PosP is is' (stop : Int) (stop' : Int)) {f f' : Nat} (IH : CIH E is is' ext kind esc stop stop' f f')
    {r r' : Rd} {ps ps' : Nat} {acc acc' : List Tree} (h : CInv E is is' stop stop' r r' ps ps' acc acc')
    (hm : RDS.mu E.src r ≤ f) (hm' : RDS.mu E.src' r' ≤ f') :
    flat E.src (goF ext E.src stop kind esc f r ps acc) = flat E.src' (goF ext E.src' stop' kind esc f' r' ps' acc') := by
  have hlt := lt_stop_sides hc h.rr hst
  unfold goF
  by_cases hge : r.pos ≥ stop
  · have hge' : r'.pos ≥ stop' := by
      have : ¬ r'.pos < stop' := fun hh => by have := hlt.mpr hh; omega
      omega
    rw [if_pos hge, if_pos hge', finish_flat E.src stop kind acc h.u hge, finish_flat E.src' stop' kind acc' h.u' hge']
    exact h.z
  · have hge' : ¬ r'.pos ≥ stop' := by
      have := hlt.mp (by omega); omega
    rw [if_neg hge, if_neg hge']
    rcases h.rr.cases hc with ⟨d1, _⟩ | ⟨k, o, t, t', hl⟩
    · exfalso
      obtain ⟨t, t', g1, g2, p1, p2⟩ := h.rr.dead d1
      obtain ⟨l1, l2⟩ := hst.le_last hc g1 g2
      omega
    · obtain ⟨b, r2, r2', n1, n2, hr2, p1, p2, hcase⟩ := next_live_sim hc h.rr hl
      obtain ⟨f1, f2, f3⟩ := hl.facts hc
      have mu1 := fun hb : b = true => RDS.next_mu hc.c h.rr.ri (by rw [n1, hb])
      have mu2 := fun hb : b = true => RDS.next_mu hc.c' h.rr.ri' (by rw [n2, hb])
      simp only [n1, n2]
      have hsucc : b = true → r.pos + 1 ≤ r2.pos ∧ r'.pos + 1 ≤ r2'.pos →
          flat E.src (if (!b) = true then collectTextNodes.finish stop kind ps acc
            else if r2.jumped = true then
              collectTextNodes ext E.src stop kind esc f r2 r2.pos
                (if r2.prev ≥ (ps : Int) then acc ++ [mkInline kind ps (r2.prev + 1)] else acc)
            else collectTextNodes ext E.src stop kind esc f r2 ps acc) =
          flat E.src' (if (!b) = true then collectTextNodes.finish stop' kind ps' acc'
            else if r2'.jumped = true then
              collectTextNodes ext E.src' stop' kind esc f' r2' r2'.pos
                (if r2'.prev ≥ (ps' : Int) then acc' ++ [mkInline kind ps' (r2'.prev + 1)] else acc')
            else collectTextNodes ext E.src' stop' kind esc f' r2' ps' acc') := by
        intro hb hadv
        subst hb
        simp only [Bool.not_true, Bool.false_eq_true, if_false]
        obtain ⟨q1, a1, e1, u1, z1⟩ := step_side ext E.src stop kind esc f (r2 := r2) acc h.u.1 f1 (by omega) p1 hadv.1
        obtain ⟨q2, a2, e2, u2, z2⟩ := step_side ext E.src' stop' kind esc f' (r2 := r2') acc' h.u'.1 f2 (by omega) p2 hadv.2
        rw [e1, e2]
        apply IH r2 r2' q1 q2 a1 a2 ⟨hr2, u1, u2, ?_⟩
        · have := mu1 rfl; omega
        · have := mu2 rfl; omega
        · rw [z1, z2, h.z, f3]
      rcases hcase with ⟨hb, hin, l2⟩ | ⟨hb, hend, u, u', l2⟩ | ⟨hb, hend, hnone, _, _, q1, q2⟩
      · apply hsucc hb
        have := l2.pos; have := l2.pos'; have := hl.pos; have := hl.pos'
        constructor <;> omega
      · apply hsucc hb
        have s1 := sorted_idx hc.c.sorted hl.g l2.g (by omega)
        have s2 := sorted_idx hc.c'.sorted hl.g' l2.g' (by omega)
        have := l2.pos; have := l2.pos'; have := hl.pos; have := hl.pos'
        have := hl.nn; have := hl.nn'; have := l2.nn; have := l2.nn'
        have := hl.nr.len
        constructor <;> omega
      · subst hb
        simp only [Bool.not_false, if_true]
        have g1 := getLast?_of_get hl.g hnone
        have g2 := getLast?_of_get hl.g' (hc.rel.getElem?_none hnone)
        obtain ⟨l1, l2⟩ := hst.le_last hc g1 g2
        have := hl.pos; have := hl.pos'; have := hl.nn; have := hl.nn'; have := hl.nr.len
        rw [finish_fail E.src stop kind acc h.u.1 (by omega) (by omega) f1,
          finish_fail E.src' stop' kind acc' h.u'.1 (by omega) (by omega) f2, h.z, f3]

end CM.Proofs.Quote
