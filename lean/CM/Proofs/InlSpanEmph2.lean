import CM.Proofs.InlSpanEmph
/-
C02, inline half — one emphasis match keeps the invariant: `emph_core`.
`EmphArena a a' o c p w kind A M B`: the arena `a'` after the two delimiter nodes `o`, `c` (children of `p`, whose
children are `A ++ o :: (M ++ c :: B)`) were shortened by `w` and the nodes `M` between them were wrapped into a new
node (index `a.size`).
-/
namespace CM.Proofs.InlH
open CM CM.Model CM.Model.Inl

/-- Every listed node keeps its span or shrinks (staying valid). -/
theorem ChainA.shrinkOn {a a' : Array INode} : ∀ {ks : List Nat} {lo hi : Int},
    (∀ k ∈ ks, ((a'[k]!).start = (a[k]!).start ∧ (a'[k]!).stop = (a[k]!).stop) ∨
      ((a[k]!).start ≤ (a'[k]!).start ∧ (a'[k]!).start ≤ (a'[k]!).stop ∧ (a'[k]!).stop ≤ (a[k]!).stop)) →
    ChainA a lo hi ks → ChainA a' lo hi ks := by
  intro ks
  induction ks with
  | nil => intro lo hi _ h; rw [ChainA_nil] at h ⊢; exact h
  | cons k ks ih =>
    intro lo hi hk h
    rw [ChainA_cons] at h ⊢
    have ih' := ih (fun j hj => hk j (List.mem_cons_of_mem _ hj)) h.2.2
    rcases hk k (List.mem_cons_self ..) with ⟨e1, e2⟩ | ⟨e1, e2, e3⟩
    · rw [e1, e2]; exact ⟨h.1, h.2.1, ih'⟩
    · exact ⟨by omega, e2, ih'.mono e3 (Int.le_refl _)⟩

theorem nodup_insert {X Y : List Nat} {n : Nat} (h : (X ++ Y).Nodup) (hx : n ∉ X) (hy : n ∉ Y) :
    (X ++ n :: Y).Nodup := by
  rw [List.nodup_append] at h ⊢
  obtain ⟨h1, h2, h3⟩ := h
  refine ⟨h1, List.nodup_cons.2 ⟨hy, h2⟩, ?_⟩
  intro a ha b hb
  rcases List.mem_cons.1 hb with rfl | hb
  · intro e; subst e; exact hx ha
  · exact h3 a ha b hb

structure EmphArena (a a' : Array INode) (o c p : Nat) (w : Int) (kind : Nat) (A M B : List Nat) : Prop where
  size : a'.size = a.size + 1
  atN : a'[a.size]! = { kind := kind, start := (a[o]!).stop - w, stop := (a[c]!).start + w, kids := M.toArray }
  atP : a'[p]! = { a[p]! with kids := (A ++ [o, a.size] ++ c :: B).toArray }
  atO : a'[o]! = { a[o]! with stop := (a[o]!).stop - w }
  atC : a'[c]! = { a[c]! with start := (a[c]!).start + w }
  other : ∀ i, i < a.size → i ≠ p → i ≠ o → i ≠ c → a'[i]! = a[i]!

section
variable {lo hi : Int} {x : Option Nat} {b p : Nat} {F : Int} {a a' : Array INode} {sk : List Nat}
  {pm pm' : Nat → Option Nat} {o c : Nat} {w : Int} {kind : Nat} {A M B l1 l2 l3 : List Nat}

/-- The facts about the two delimiter nodes that `emph_core` needs, from the invariant. -/
structure EmphPre (lo hi : Int) (x : Option Nat) (b p : Nat) (F : Int) (a : Array INode) (sk : List Nat)
    (pm : Nat → Option Nat) (o c : Nat) (w : Int) (A M B l1 l2 l3 : List Nat) : Prop where
  inv : SPA lo hi x b p F [] a sk pm
  hsk : sk.drop b = l1 ++ o :: (l2 ++ c :: l3)
  hK : kidsLS a p = A ++ o :: (M ++ c :: B)
  s1 : l1.Sublist A
  s2 : l2.Sublist M
  s3 : l3.Sublist B
  w1 : 1 ≤ w
  wo : w ≤ (a[o]!).stop - (a[o]!).start
  wc : w ≤ (a[c]!).stop - (a[c]!).start

theorem EmphPre.facts (h : EmphPre lo hi x b p F a sk pm o c w A M B l1 l2 l3) :
    PlainLeaf a [] o ∧ PlainLeaf a [] c ∧ o ≠ c ∧ p ≠ o ∧ p ≠ c ∧ (a[o]!).stop ≤ (a[c]!).start ∧
    o ∉ A ∧ o ∉ M ∧ o ∉ B ∧ c ∉ A ∧ c ∉ M ∧ c ∉ B ∧ (∀ k ∈ A, k ∉ M) ∧ (∀ k ∈ B, k ∉ M) := by
  have hnd := h.inv.nodup p h.inv.plt
  rw [h.hK] at hnd
  have hosk : o ∈ sk := List.mem_of_mem_drop (by rw [h.hsk]; exact List.mem_append_right _ (List.mem_cons_self ..))
  have hcsk : c ∈ sk := List.mem_of_mem_drop (by
    rw [h.hsk]; exact List.mem_append_right _ (List.mem_cons_of_mem _ (List.mem_append_right _ (List.mem_cons_self ..))))
  have po := h.inv.plain o hosk
  have pc := h.inv.plain c hcsk
  -- `o` before `c` on the stack, hence by position
  have hpos : (a[o]!).stop ≤ (a[c]!).start := by
    have hs := h.inv.sorted
    rw [← List.take_append_drop b sk, h.hsk] at hs
    have := List.pairwise_append.1 hs
    have h2 := List.pairwise_append.1 this.2.1
    have h3 := List.pairwise_cons.1 h2.2.1
    exact h3.1 c (List.mem_append_right _ (List.mem_cons_self ..))
  rw [List.nodup_append] at hnd
  obtain ⟨_, hnd2, hdisj⟩ := hnd
  rw [List.nodup_cons] at hnd2
  obtain ⟨ho2, hnd3⟩ := hnd2
  rw [List.nodup_append] at hnd3
  obtain ⟨_, hnd4, hdisj2⟩ := hnd3
  rw [List.nodup_cons] at hnd4
  have hpk : kidsLS a p ≠ [] := by rw [h.hK]; simp
  have hok : kidsLS a o = [] := by unfold kidsLS; rw [po.kids]
  have hck : kidsLS a c = [] := by unfold kidsLS; rw [pc.kids]
  refine ⟨po, pc, ?_, ?_, ?_, hpos, ?_, ?_, ?_, ?_, ?_, ?_, ?_, ?_⟩
  · rintro rfl; exact ho2 (List.mem_append_right _ (List.mem_cons_self ..))
  · rintro rfl; exact hpk hok
  · rintro rfl; exact hpk hck
  · intro hm; exact hdisj o hm o (List.mem_cons_self ..) rfl
  · intro hm; exact ho2 (List.mem_append_left _ hm)
  · intro hm; exact ho2 (List.mem_append_right _ (List.mem_cons_of_mem _ hm))
  · intro hm
    exact hdisj c hm c (List.mem_cons_of_mem _ (List.mem_append_right _ (List.mem_cons_self ..))) rfl
  · intro hm; exact hdisj2 c hm c (List.mem_cons_self ..) rfl
  · exact hnd4.1
  · intro k hk hm
    exact hdisj k hk k (List.mem_cons_of_mem _ (List.mem_append_left _ hm)) rfl
  · intro k hk hm
    exact hdisj2 k hm k (List.mem_cons_of_mem _ hk) rfl

theorem sk_split {sk l1 l2 l3 : List Nat} {b o c : Nat} (hsk : sk.drop b = l1 ++ o :: (l2 ++ c :: l3)) :
    (sk.take b).length = b ∧
    sk.take (b + l1.length + 1) ++ sk.drop (b + l1.length + 1 + l2.length) = sk.take b ++ (l1 ++ o :: c :: l3) := by
  have hb : b < sk.length := by
    rcases Nat.lt_or_ge b sk.length with h | h
    · exact h
    · rw [List.drop_of_length_le h] at hsk; simp at hsk
  have hT : (sk.take b).length = b := by rw [List.length_take]; omega
  refine ⟨hT, ?_⟩
  have e : sk = (sk.take b ++ l1 ++ [o]) ++ (l2 ++ c :: l3) := by
    conv => lhs; rw [← List.take_append_drop b sk, hsk]
    simp
  have hlen : (sk.take b ++ l1 ++ [o]).length = b + l1.length + 1 := by simp [hT]; omega
  have t1S : sk.take (b + l1.length + 1) = sk.take b ++ l1 ++ [o] := by
    conv => lhs; rw [e]
    rw [← hlen]; exact List.take_left' rfl
  have t2 : sk.drop (b + l1.length + 1 + l2.length) = c :: l3 := by
    conv => lhs; rw [e]
    rw [← hlen, ← List.drop_drop, List.drop_left' rfl]
    exact List.drop_left' rfl
  rw [t1S, t2]; simp

theorem emph_core (h : EmphPre lo hi x b p F a sk pm o c w A M B l1 l2 l3) (ea : EmphArena a a' o c p w kind A M B)
    (hpm : ∀ i, pm' i = if i ∈ M then some a.size else if i = a.size then some p else pm i) :
    SPA lo hi x b p F [o, c] a' (sk.take (b + l1.length + 1) ++ sk.drop (b + l1.length + 1 + l2.length)) pm' := by
  obtain ⟨po, pc, hoc, hpo, hpc, hpos, hoA, hoM, hoB, hcA, hcM, hcB, hAM, hBM⟩ := h.facts
  have inv := h.inv
  have hK := h.hK
  have hKlt : ∀ k ∈ kidsLS a p, k < a.size := inv.klt p inv.plt
  obtain ⟨hTlen, hsk'⟩ := sk_split h.hsk
  rw [hsk']
  -- spans of the old nodes: unchanged, or shrunk
  have rel : ∀ k, k < a.size → ((a'[k]!).start = (a[k]!).start ∧ (a'[k]!).stop = (a[k]!).stop) ∨
      ((a[k]!).start ≤ (a'[k]!).start ∧ (a'[k]!).start ≤ (a'[k]!).stop ∧ (a'[k]!).stop ≤ (a[k]!).stop) := by
    intro k hk
    by_cases hko : k = o
    · subst hko; right; rw [ea.atO]; have := h.wo; have := h.w1; exact ⟨Int.le_refl _, by simp only []; omega, by simp only []; omega⟩
    · by_cases hkc : k = c
      · subst hkc; right; rw [ea.atC]; have := h.wc; have := h.w1; exact ⟨by simp only []; omega, by simp only []; omega, Int.le_refl _⟩
      · by_cases hkp : k = p
        · subst hkp; left; rw [ea.atP]; exact ⟨rfl, rfl⟩
        · left; rw [ea.other k hk hkp hko hkc]; exact ⟨rfl, rfl⟩
  have relc : ∀ {ks : List Nat} {L H : Int}, (∀ k ∈ ks, k < a.size) → ChainA a L H ks → ChainA a' L H ks :=
    fun hks hc => hc.shrinkOn (fun k hk => rel k (hks k hk))
  -- kids
  have kidsSame : ∀ i, i < a.size → i ≠ p → kidsLS a' i = kidsLS a i := by
    intro i hi hip
    unfold kidsLS
    by_cases hio : i = o
    · subst hio; rw [ea.atO]
    · by_cases hic : i = c
      · subst hic; rw [ea.atC]
      · rw [ea.other i hi hip hio hic]
  have kidsP : kidsLS a' p = A ++ [o, a.size] ++ c :: B := by unfold kidsLS; rw [ea.atP]
  have kidsN : kidsLS a' a.size = M := by unfold kidsLS; rw [ea.atN]
  have hAlt : ∀ k ∈ A, k < a.size := fun k hk => hKlt k (by rw [hK]; exact List.mem_append_left _ hk)
  have hMlt : ∀ k ∈ M, k < a.size := fun k hk => hKlt k (by
    rw [hK]; exact List.mem_append_right _ (List.mem_cons_of_mem _ (List.mem_append_left _ hk)))
  have hBlt : ∀ k ∈ B, k < a.size := fun k hk => hKlt k (by
    rw [hK]; exact List.mem_append_right _ (List.mem_cons_of_mem _ (List.mem_append_right _ (List.mem_cons_of_mem _ hk))))
  have w1 := h.w1
  have wo := h.wo
  have wc := h.wc
  -- the new chains
  have chainW : ∀ {L H : Int}, ChainA a L H (A ++ o :: (M ++ c :: B)) →
      ChainA a' L H (A ++ [o, a.size] ++ c :: B) ∧ ChainA a' ((a[o]!).stop - w) ((a[c]!).start + w) M := by
    intro L H hch
    obtain ⟨m1, hA, h1⟩ := ChainA_append.1 hch
    rw [ChainA_cons] at h1
    obtain ⟨m2, hM, h3⟩ := ChainA_append.1 h1.2.2
    rw [ChainA_cons] at h3
    constructor
    · rw [List.append_assoc]
      refine ChainA_append.2 ⟨m1, relc hAlt hA, ?_⟩
      simp only [List.cons_append, List.nil_append]
      rw [ChainA_cons, ChainA_cons, ChainA_cons, ea.atO, ea.atN, ea.atC]
      simp only []
      have hB' := relc hBlt h3.2.2
      have := hM.le
      exact ⟨h1.1, by omega, Int.le_refl _, by omega, Int.le_refl _, by omega, hB'⟩
    · have := h3.1
      exact (relc hMlt hM).mono (by omega) (by omega)
  refine { pos := by rw [ea.size]; omega, root := ?_, front := ?_, Fhi := inv.Fhi, nodes := ?_, klt := ?_, nodup := ?_,
           uniqp := ?_, plain := ?_, sorted := ?_, low := ?_, high := ?_, plt := by rw [ea.size]; have := inv.plt; omega,
           pb := inv.pb }
  · -- root
    have h0 := inv.root
    by_cases hp0 : p = 0
    · subst hp0; rw [ea.atP]; exact h0
    · rw [ea.other 0 inv.pos (fun h => hp0 h.symm) (fun h => po.ne0 h.symm) (fun h => pc.ne0 h.symm)]; exact h0
  · -- front
    by_cases hp0 : p = 0
    · subst hp0
      obtain ⟨_, rfl⟩ := inv.pb rfl
      rw [vis_none, kidsP]
      have hf := inv.front
      rw [vis_none, hK] at hf
      exact (chainW hf).1
    · rw [kidsSame 0 inv.pos (fun h => hp0 h.symm)]
      exact relc (fun k hk => inv.klt 0 inv.pos k (List.mem_filter.1 hk).1) inv.front
  · -- nodes
    intro i hi0 hi
    rw [ea.size] at hi
    have no := inv.nodes o (Nat.pos_of_ne_zero po.ne0) po.lt
    have nc := inv.nodes c (Nat.pos_of_ne_zero pc.ne0) pc.lt
    -- the chain of the children of `p`
    have hchP : ∃ L H, ChainA a L H (A ++ o :: (M ++ c :: B)) := by
      by_cases hp0 : p = 0
      · subst hp0
        obtain ⟨_, rfl⟩ := inv.pb rfl
        have hf := inv.front
        rw [vis_none, hK] at hf
        exact ⟨_, _, hf⟩
      · have := (inv.nodes p (Nat.pos_of_ne_zero hp0) inv.plt).chain
        rw [hK] at this
        exact ⟨_, _, this⟩
    obtain ⟨L, H, hch⟩ := hchP
    by_cases hiN : i = a.size
    · subst hiN
      refine ⟨?_, ?_, ?_, ?_, ?_, ?_⟩
      · rw [ea.atN]; simp only []; omega
      · rw [ea.atN]; simp only []; have := no.lo; omega
      · rw [ea.atN]; simp only []; have := nc.hi; omega
      · rw [kidsN, ea.atN]; exact (chainW hch).2
      · intro _; rw [ea.atN]; simp only []; rw [WFL_nil]; omega
      · intro _; rw [ea.atN]
    · have hi' : i < a.size := by omega
      by_cases hip : i = p
      · subst hip
        have np := inv.nodes i hi0 hi'
        have hkne : (a[i]!).kids ≠ #[] := by
          intro he
          have : kidsLS a i = [] := by unfold kidsLS; rw [he]
          rw [hK] at this; simp at this
        refine ⟨?_, ?_, ?_, ?_, ?_, ?_⟩
        · rw [ea.atP]; exact np.valid
        · rw [ea.atP]; exact np.lo
        · rw [ea.atP]; exact np.hi
        · rw [kidsP, ea.atP]
          have := np.chain
          rw [hK] at this
          exact (chainW this).1
        · intro hk; rw [ea.atP] at hk; simp at hk
        · intro _; rw [ea.atP]; exact np.nosub hkne
      · by_cases hio : i = o
        · subst hio
          refine ⟨?_, ?_, ?_, ?_, ?_, ?_⟩
          · rw [ea.atO]; simp only []; omega
          · rw [ea.atO]; exact no.lo
          · rw [ea.atO]; simp only []; have := no.hi; omega
          · rw [kidsSame i hi' hip]
            unfold kidsLS; rw [po.kids, ea.atO]; simp only []; rw [ChainA_nil]; omega
          · intro _; rw [ea.atO]; simp only []; rw [po.sub, WFL_nil]; omega
          · intro hk; rw [ea.atO] at hk; exact absurd po.kids hk
        · by_cases hic : i = c
          · subst hic
            refine ⟨?_, ?_, ?_, ?_, ?_, ?_⟩
            · rw [ea.atC]; simp only []; omega
            · rw [ea.atC]; simp only []; have := nc.lo; omega
            · rw [ea.atC]; exact nc.hi
            · rw [kidsSame i hi' hip]
              unfold kidsLS; rw [pc.kids, ea.atC]; simp only []; rw [ChainA_nil]; omega
            · intro _; rw [ea.atC]; simp only []; rw [pc.sub, WFL_nil]; omega
            · intro hk; rw [ea.atC] at hk; exact absurd pc.kids hk
          · have ni := inv.nodes i hi0 hi'
            have e := ea.other i hi' hip hio hic
            refine ⟨?_, ?_, ?_, ?_, ?_, ?_⟩
            · rw [e]; exact ni.valid
            · rw [e]; exact ni.lo
            · rw [e]; exact ni.hi
            · rw [kidsSame i hi' hip, e]; exact relc (inv.klt i hi') ni.chain
            · rw [e]; exact ni.sub
            · rw [e]; exact ni.nosub
  · -- klt
    intro i hi k hk
    rw [ea.size] at hi ⊢
    by_cases hiN : i = a.size
    · subst hiN; rw [kidsN] at hk; have := hMlt k hk; omega
    · by_cases hip : i = p
      · subst hip
        rw [kidsP] at hk
        simp only [List.mem_append, List.mem_cons, List.mem_nil_iff, or_false] at hk
        rcases hk with (hk | rfl | rfl) | rfl | hk
        · have := hAlt k hk; omega
        · have := po.lt; omega
        · omega
        · have := pc.lt; omega
        · have := hBlt k hk; omega
      · rw [kidsSame i (by omega) hip] at hk
        have := inv.klt i (by omega) k hk; omega
  · -- nodup
    intro i hi
    rw [ea.size] at hi
    have hnK := inv.nodup p inv.plt
    rw [hK] at hnK
    by_cases hiN : i = a.size
    · subst hiN; rw [kidsN]
      exact hnK.sublist ((List.sublist_append_right _ _).trans
        (List.Sublist.append_left ((List.sublist_append_left M (c :: B)).cons o) A))
    · by_cases hip : i = p
      · subst hip
        rw [kidsP]
        have e : A ++ [o, a.size] ++ c :: B = (A ++ [o]) ++ a.size :: (c :: B) := by simp
        rw [e]
        refine nodup_insert ?_ ?_ ?_
        · refine hnK.sublist ?_
          rw [List.append_assoc]
          exact List.Sublist.append_left (List.Sublist.cons_cons o (List.sublist_append_right M (c :: B))) A
        · intro hm
          simp only [List.mem_append, List.mem_cons, List.mem_nil_iff, or_false] at hm
          rcases hm with hm | hm
          · have := hAlt _ hm; omega
          · have := po.lt; omega
        · intro hm
          rcases List.mem_cons.1 hm with hm | hm
          · have := pc.lt; omega
          · have := hBlt _ hm; omega
      · rw [kidsSame i (by omega) hip]; exact inv.nodup i (by omega)
  · -- uniqp
    -- where a child of a new node was before
    have back : ∀ i k, i < a.size + 1 → k ∈ kidsLS a' i → k ≠ a.size →
        k ∈ kidsLS a (if i = a.size then p else i) := by
      intro i k hi hk hkN
      by_cases hiN : i = a.size
      · subst hiN; rw [if_pos rfl]; rw [kidsN] at hk; rw [hK]
        exact List.mem_append_right _ (List.mem_cons_of_mem _ (List.mem_append_left _ hk))
      · rw [if_neg hiN]
        by_cases hip : i = p
        · subst hip
          rw [kidsP] at hk; rw [hK]
          simp only [List.mem_append, List.mem_cons, List.mem_nil_iff, or_false] at hk ⊢
          rcases hk with (hk | rfl | rfl) | rfl | hk
          · exact Or.inl hk
          · exact Or.inr (Or.inl rfl)
          · exact absurd rfl hkN
          · exact Or.inr (Or.inr (Or.inr (Or.inl rfl)))
          · exact Or.inr (Or.inr (Or.inr (Or.inr hk)))
        · rw [kidsSame i (by omega) hip] at hk; exact hk
    have newOnly : ∀ i, i < a.size + 1 → a.size ∈ kidsLS a' i → i = p := by
      intro i hi hk
      by_cases hiN : i = a.size
      · subst hiN; rw [kidsN] at hk; have := hMlt _ hk; omega
      · by_cases hip : i = p
        · exact hip
        · rw [kidsSame i (by omega) hip] at hk
          have := inv.klt i (by omega) _ hk; omega
    have notBoth : ∀ k, k ∈ M → k ∈ kidsLS a' p → False := by
      intro k hkM hk
      rw [kidsP] at hk
      simp only [List.mem_append, List.mem_cons, List.mem_nil_iff, or_false] at hk
      rcases hk with (hk | rfl | rfl) | rfl | hk
      · exact hAM k hk hkM
      · exact hoM hkM
      · have := hMlt _ hkM; omega
      · exact hcM hkM
      · exact hBM k hk hkM
    intro i j k hi hj hki hkj
    rw [ea.size] at hi hj
    by_cases hkN : k = a.size
    · subst hkN; rw [newOnly i hi hki, newOnly j hj hkj]
    · have bi := back i k hi hki hkN
      have bj := back j k hj hkj hkN
      have hlt : ∀ t, t < a.size + 1 → (if t = a.size then p else t) < a.size := by
        intro t ht; split
        · exact inv.plt
        · omega
      have e := inv.uniqp _ _ k (hlt i hi) (hlt j hj) bi bj
      by_cases hiN : i = a.size
      · by_cases hjN : j = a.size
        · rw [hiN, hjN]
        · exfalso
          rw [if_pos hiN, if_neg hjN] at e
          subst hiN; subst e
          rw [kidsN] at hki
          exact notBoth k hki hkj
      · by_cases hjN : j = a.size
        · exfalso
          rw [if_neg hiN, if_pos hjN] at e
          subst hjN; subst e
          rw [kidsN] at hkj
          exact notBoth k hkj hki
        · rw [if_neg hiN, if_neg hjN] at e; exact e
  all_goals
    -- the new stack is a sub-list of the old one
    have hsubD : (l1 ++ o :: c :: l3).Sublist (sk.drop b) := by
      rw [h.hsk]
      exact List.Sublist.append_left (List.Sublist.cons_cons o (List.sublist_append_right l2 (c :: l3))) l1
    have hsub : (sk.take b ++ (l1 ++ o :: c :: l3)).Sublist sk := by
      have := List.Sublist.append_left hsubD (sk.take b)
      rw [List.take_append_drop] at this
      exact this
  · -- plain
    intro k hk
    have pk := inv.plain k (hsub.subset hk)
    have hkp : k ≠ p := by
      rintro rfl
      have : kidsLS a k = [] := by unfold kidsLS; rw [pk.kids]
      rw [hK] at this; simp at this
    refine ⟨by rw [ea.size]; have := pk.lt; omega, pk.ne0, ?_, ?_, ?_⟩
    · by_cases hko : k = o
      · subst hko; rw [ea.atO]; exact pk.kids
      · by_cases hkc : k = c
        · subst hkc; rw [ea.atC]; exact pk.kids
        · rw [ea.other k pk.lt hkp hko hkc]; exact pk.kids
    · by_cases hko : k = o
      · subst hko; rw [ea.atO]; exact pk.sub
      · by_cases hkc : k = c
        · subst hkc; rw [ea.atC]; exact pk.sub
        · rw [ea.other k pk.lt hkp hko hkc]; exact pk.sub
    · intro hkz
      simp only [List.mem_cons, List.mem_nil_iff, or_false, not_or] at hkz
      rw [ea.other k pk.lt hkp hkz.1 hkz.2]
      exact pk.len (by simp)
  · -- sorted
    refine pairwise_shrink (a := a) ?_ (inv.sorted.sublist hsub)
    intro k hk
    have pk := inv.plain k (hsub.subset hk)
    rcases rel k pk.lt with ⟨e1, e2⟩ | ⟨e1, _, e3⟩
    · omega
    · omega
  · -- low
    have ht : (sk.take b ++ (l1 ++ o :: c :: l3)).take b = sk.take b := List.take_left' hTlen
    rw [ht]
    by_cases hp0 : p = 0
    · obtain ⟨hb0, _⟩ := inv.pb hp0
      subst hb0
      exact ⟨by simp, fun k hk => by simp at hk⟩
    · refine ⟨by rw [kidsSame 0 inv.pos (fun h => hp0 h.symm)]; exact inv.low.1, fun k hk => ?_⟩
      have hk0 : k ∈ kidsLS a 0 := inv.low.1.subset hk
      have hklt := inv.klt 0 inv.pos k hk0
      rw [hpm k, if_neg, if_neg (by omega)]
      · exact inv.low.2 k hk
      · intro hkM
        have : k ∈ kidsLS a p := by
          rw [hK]; exact List.mem_append_right _ (List.mem_cons_of_mem _ (List.mem_append_left _ hkM))
        exact hp0 (inv.uniqp 0 p k inv.pos inv.plt hk0 this).symm
  · -- high
    have hd : (sk.take b ++ (l1 ++ o :: c :: l3)).drop b = l1 ++ o :: c :: l3 := List.drop_left' hTlen
    rw [hd, kidsP]
    constructor
    · rw [List.append_assoc]
      exact h.s1.append (List.Sublist.cons_cons o (List.Sublist.cons a.size (List.Sublist.cons_cons c h.s3)))
    · intro k hk
      have hkd : k ∈ sk.drop b := hsubD.subset hk
      have hklt := (inv.plain k (List.mem_of_mem_drop hkd)).lt
      rw [hpm k, if_neg, if_neg (by omega)]
      · exact inv.high.2 k hkd
      · intro hkM
        simp only [List.mem_append, List.mem_cons] at hk
        rcases hk with hk | rfl | rfl | hk
        · exact hAM k (h.s1.subset hk) hkM
        · exact hoM hkM
        · exact hcM hkM
        · exact hBM k (h.s3.subset hk) hkM

end

end CM.Proofs.InlH
