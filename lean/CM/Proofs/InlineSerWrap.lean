import CM.Proofs.InlineSerDelim
/-
Inline serialisation — emphasis, part 1: `wrap` as an equation.  The two search loops and the re-parenting loop of
`state.wrap(kind, startNode, endNode)` under the dummy root, for a root whose children are `pre ++ o :: mid ++ post`.
-/
namespace CM.Proofs.InlSer
open CM CM.Gen CM.Model CM.Model.Inl CM.Proofs.EscText

theorem toArray_get! (l : List Nat) (i : Nat) (h : i < l.length) : l.toArray[i]! = l[i] := by
  rw [getElem!_pos l.toArray i (by simpa using h)]; simp

/-- first search loop of `wrap`: the position after `o` -/
theorem wrapLoopA (kids : Array Nat) (o : Nat) (g : Nat → Nat → IM (ForInStep Nat))
    (hg : ∀ x si, g x si = (if (!decide (si < kids.size)) = true then pure (ForInStep.done si)
      else if (kids[si - 1]! == o) = true then pure (ForInStep.done si) else pure (ForInStep.yield (si + 1))))
    (pre : List Nat) (rest : List Nat) (hk : kids = (pre ++ o :: rest).toArray) (ho : o ∉ pre) (s : IState) :
    ∀ (k j i fuel : Nat), j + k = pre.length + 1 → 1 ≤ j → k + 1 ≤ fuel →
      (forIn (List.range' i fuel) j g).run s = pure (pre.length + 1, s) := by
  have hsz : kids.size = pre.length + 1 + rest.length := by rw [hk]; simp; omega
  intro k
  induction k with
  | zero =>
    intro j i fuel hj _ hf
    obtain ⟨fuel', rfl⟩ : ∃ f', fuel = f' + 1 := ⟨fuel - 1, by omega⟩
    have hjj : j = pre.length + 1 := by omega
    subst hjj
    rw [List.range'_succ, List.forIn_cons, StateT.run_bind, hg]
    have hget : kids[pre.length + 1 - 1]! = o := by
      rw [hk, Nat.add_sub_cancel, toArray_get! _ _ (by simp)]; simp
    by_cases hlt : pre.length + 1 < kids.size
    · simp only [hlt, decide_true, Bool.not_true, Bool.false_eq_true, if_false, hget, beq_self_eq_true, if_true, StateT.run_pure,
        pure_bind]
    · simp only [hlt, decide_false, Bool.not_false, if_true, StateT.run_pure, pure_bind]
  | succ k ih =>
    intro j i fuel hj hj1 hf
    obtain ⟨fuel', rfl⟩ : ∃ f', fuel = f' + 1 := ⟨fuel - 1, by omega⟩
    have hlt : j < kids.size := by omega
    have hget : kids[j - 1]! ≠ o := by
      have hjl : j - 1 < pre.length := by omega
      rw [hk, toArray_get! _ _ (by simp; omega), List.getElem_append_left hjl]
      intro h
      exact ho (h ▸ List.getElem_mem _)
    rw [List.range'_succ, List.forIn_cons, StateT.run_bind, hg]
    simp only [hlt, decide_true, Bool.not_true, Bool.false_eq_true, if_false, beq_iff_eq, hget, StateT.run_pure, pure_bind]
    exact ih (j + 1) (i + 1) fuel' (by omega) (by omega) (by omega)

/-- second search loop of `wrap`: the position of the end node (`none`: the end of the children) -/
theorem wrapLoopB (kids : Array Nat) (en : Option Nat) (g : Nat → Nat → IM (ForInStep Nat))
    (hg : ∀ x ei, g x ei = (if (!decide (ei < kids.size)) = true then pure (ForInStep.done ei)
      else if (some kids[ei]! == en) = true then pure (ForInStep.done ei) else pure (ForInStep.yield (ei + 1))))
    (front mid post : List Nat) (hk : kids = (front ++ (mid ++ post)).toArray) (hmid : ∀ x ∈ mid, some x ≠ en)
    (hpost : post = [] ∨ ∃ e tl, post = e :: tl ∧ some e = en) (s : IState) :
    ∀ (k j i fuel : Nat), j + k = front.length + mid.length → front.length ≤ j → k + 1 ≤ fuel →
      (forIn (List.range' i fuel) j g).run s = pure (front.length + mid.length, s) := by
  have hsz : kids.size = front.length + mid.length + post.length := by rw [hk]; simp; omega
  intro k
  induction k with
  | zero =>
    intro j i fuel hj _ hf
    obtain ⟨fuel', rfl⟩ : ∃ f', fuel = f' + 1 := ⟨fuel - 1, by omega⟩
    have hjj : j = front.length + mid.length := by omega
    subst hjj
    rw [List.range'_succ, List.forIn_cons, StateT.run_bind, hg]
    rcases hpost with rfl | ⟨e, tl, rfl, he⟩
    · have hlt : ¬ (front.length + mid.length < kids.size) := by simp at hsz; omega
      simp only [hlt, decide_false, Bool.not_false, if_true, StateT.run_pure, pure_bind]
    · have hlt : front.length + mid.length < kids.size := by simp at hsz; omega
      have hget : kids[front.length + mid.length]! = e := by
        rw [hk, toArray_get! _ _ (by simp), List.getElem_append_right (by omega),
          List.getElem_append_right (by omega)]
        simp
      simp only [hlt, decide_true, Bool.not_true, Bool.false_eq_true, if_false, hget, he, beq_self_eq_true, if_true, StateT.run_pure,
        pure_bind]
  | succ k ih =>
    intro j i fuel hj hj1 hf
    obtain ⟨fuel', rfl⟩ : ∃ f', fuel = f' + 1 := ⟨fuel - 1, by omega⟩
    have hlt : j < kids.size := by omega
    have hget : (some kids[j]! == en) = false := by
      have h1 : j - front.length < mid.length := by omega
      rw [hk, toArray_get! _ _ (by simp; omega), List.getElem_append_right hj1, List.getElem_append_left h1]
      have := hmid _ (List.getElem_mem h1)
      simpa using this
    rw [List.range'_succ, List.forIn_cons, StateT.run_bind, hg]
    simp only [hlt, decide_true, Bool.not_true, Bool.false_eq_true, if_false, hget, StateT.run_pure, pure_bind]
    exact ih (j + 1) (i + 1) fuel' (by omega) (by omega) (by omega)

def setParP (k : Nat) (p : Option Nat) (s : IState) : IState := { s with parentMap := s.parentMap.set! k p }

theorem wrapLoopC (p : Option Nat) (g : Nat → PUnit → IM (ForInStep PUnit))
    (hg : ∀ k r, g k r = (do setParent k p; pure (ForInStep.yield PUnit.unit))) :
    ∀ (l : List Nat) (s : IState), (forIn l PUnit.unit g).run s = pure (PUnit.unit, l.foldl (fun s k => setParP k p s) s) := by
  intro l
  induction l with
  | nil => intro s; rfl
  | cons k l ih =>
    intro s
    rw [List.forIn_cons, StateT.run_bind, hg]
    simp only [StateT.run_bind, setParent, StateT.run_modify, pure_bind, StateT.run_pure]
    exact ih _

/-- `endNode.Span().Start`, or the parent's end -/
def wrapStop (s : IState) : Option Nat → Int
  | some e => (s.nodes[e]!).start
  | none => (s.nodes[0]!).stop

/-- The state after `wrap kind o en` under the root: `pre ++ [o]` stay, `mid` moves under the new node, `post` stays. -/
def wrapP (kind : Nat) (o : Nat) (en : Option Nat) (pre mid post : List Nat) (s : IState) : IState :=
  mid.foldl (fun st k => setParP k (some s.nodes.size) st)
    { s with
      nodes := ((s.nodes.push { kind := kind, start := (s.nodes[o]!).stop, stop := wrapStop s en }).modify s.nodes.size
                  fun n => { n with kids := mid.toArray }).modify 0
                  fun n => { n with kids := (pre ++ [o]).toArray.push s.nodes.size ++ post.toArray },
      parentMap := (s.parentMap.push none).set! s.nodes.size (some 0) }

theorem extract_mid (pre mid post : List Nat) (o : Nat) :
    (pre ++ o :: (mid ++ post)).toArray.extract (pre.length + 1) (pre.length + 1 + mid.length) = mid.toArray := by
  apply Array.ext'
  simp only [List.extract_toArray, List.extract_eq_take_drop]
  rw [show pre ++ o :: (mid ++ post) = (pre ++ [o]) ++ (mid ++ post) by simp, List.drop_left' (by simp)]
  simp

theorem extract_pre (pre mid post : List Nat) (o : Nat) :
    (pre ++ o :: (mid ++ post)).toArray.extract 0 (pre.length + 1) = (pre ++ [o]).toArray := by
  apply Array.ext'
  simp only [List.extract_toArray, List.extract_eq_take_drop, List.drop_zero, Nat.sub_zero]
  rw [show pre ++ o :: (mid ++ post) = (pre ++ [o]) ++ (mid ++ post) by simp, List.take_left' (by simp)]

theorem extract_post (pre mid post : List Nat) (o : Nat) :
    (pre ++ o :: (mid ++ post)).toArray.extract (pre.length + 1 + mid.length) = post.toArray := by
  apply Array.ext'
  simp only [List.extract_toArray, List.extract_eq_take_drop, List.size_toArray]
  rw [show pre ++ o :: (mid ++ post) = (pre ++ [o] ++ mid) ++ post by simp, List.drop_left' (by simp; omega)]
  exact List.take_of_length_le (by simp; omega)

theorem wrap_run (kind : Nat) (s : IState) (o : Nat) (en : Option Nat) (pre mid post : List Nat)
    (hpm : (s.parentMap[o]?).join = some 0)
    (hkids : (s.nodes[0]!).kids = (pre ++ o :: (mid ++ post)).toArray) (ho : o ∉ pre)
    (hmid : ∀ x ∈ mid, some x ≠ en) (hpost : post = [] ∨ ∃ e tl, post = e :: tl ∧ some e = en) :
    (wrap kind o en).run s = pure (s.nodes.size, wrapP kind o en pre mid post s) := by
  unfold wrap
  simp only [StateT.run_bind, StateT.run_get, pure_bind, hpm]
  generalize hK : (s.nodes[0]!).kids = kids at *
  have hsz : kids.size = pre.length + 1 + (mid.length + post.length) := by rw [hkids]; simp; omega
  have hrange : Std.Legacy.Range.size [:kids.size] = kids.size := by simp [Std.Legacy.Range.size]
  simp only [alloc, StateT.run_bind, StateT.run_get, StateT.run_set, StateT.run_pure, pure_bind, setParent, StateT.run_modify,
    Std.Legacy.Range.forIn_eq_forIn_range', hrange]
  generalize hgA : (fun (x : Nat) (si : Nat) => (_ : IM (ForInStep Nat))) = gA
  have hA := wrapLoopA kids o gA (by intro x si; rw [← hgA]) pre (mid ++ post) hkids ho
  rw [hA _ pre.length 1 0 kids.size (by omega) (Nat.le_refl _) (by omega)]
  have hget : kids[pre.length + 1 - 1]! = o := by
    rw [hkids, Nat.add_sub_cancel, toArray_get! _ _ (by simp)]; simp
  have hne : (kids.size == 0) = false := by rw [beq_eq_false_iff_ne]; omega
  simp only [pure_bind, hne, hget, bne_self_eq_false, Bool.or_self, Bool.false_eq_true, if_false, StateT.run_bind]
  generalize hgB : (fun (x : Nat) (ei : Nat) => (_ : IM (ForInStep Nat))) = gB
  have hB := wrapLoopB kids en gB (by intro x ei; rw [← hgB]) (pre ++ [o]) mid post (by rw [hkids]; simp) hmid hpost
  have hfl : (pre ++ [o]).length = pre.length + 1 := by simp
  rw [hfl] at hB
  rw [hB _ mid.length (pre.length + 1) 0 kids.size (by omega) (Nat.le_refl _) (by omega)]
  simp only [pure_bind, modifyNode, StateT.run_modify, StateT.run_bind, StateT.run_pure]
  rw [hkids, extract_mid, extract_pre, extract_post]
  generalize hgC : (fun (k : Nat) (r : PUnit) => (_ : IM (ForInStep PUnit))) = gC
  have hC := wrapLoopC (some s.nodes.size) gC (by intro k r; rw [← hgC]; rfl)
  rw [List.forIn_toArray, hC]
  rfl

end CM.Proofs.InlSer
