import CM.Proofs.BlocksContractDefer
/-
C01 contract for the real block parser — `openNewBlocks` and `processLine` on a non-empty line.
-/
namespace CM.Proofs
open CM CM.Model CM.Gen CM.Props.C01

/-- The lazy continuation of a paragraph that is not a child of the document. -/
structure LazyDeep (N : Nat) (p : LP) : Prop where
  depth : 2 ≤ p.depth
  ck : p.containerKind = BK.paragraph
  dv : ∃ b, spineGet p.root p.depth = some b
  te : TopEnd N p

theorem al_accepts {k : Nat} (h : AL k = true) : acceptsLines k = true := by
  unfold AL at h
  simp only [Bool.and_eq_true] at h
  exact h.1

theorem same_fields {p p' : LP} (h : SameButState p p') :
    p'.root = p.root ∧ p'.depth = p.depth ∧ p'.i = p.i ∧ p'.tabPartial = p.tabPartial := by
  unfold SameButState at h
  rw [h]; exact ⟨rfl, rfl, rfl, rfl⟩

/-- What `openNewBlocks` returns: ready for `addLineText`, or (nothing more to do) the end-of-line summary. -/
theorem openNewBlocks_T (H : onCloseParagraph_cuts_target) (x : PExt) {N : Nat} {p1 : LP} (b : Bool) (h : LT QB b N p1)
    (u0 : p1.depth = 0 → p1.i = 0)
    (up : ∀ c, p1.root.blocks.getLast? = some c → c.label.stop < 0 → c.label.kind = BK.paragraph →
      p1.i = 0 ∧ p1.tabPartial = false ∧ (b = true → p1.depth = 1)) :
    ((openNewBlocks x p1 b).1 = true → PreText N (openNewBlocks x p1 b).2 ∨ LazyDeep N (openNewBlocks x p1 b).2) ∧
    ((openNewBlocks x p1 b).1 = false → TopEnd N (openNewBlocks x p1 b).2) := by
  have hl : p1.line ≠ [] := by
    intro he
    have := h.src.lineLen
    have := h.src.lt
    rw [he] at *; simp at *; omega
  rw [openNewBlocks_nonempty x p1 b hl]
  have ho := openingLoop_T H x (p1.line.length + 8) p1 h
  generalize openingLoop x (p1.line.length + 8) p1 = r at ho
  obtain ⟨ht, q⟩ := r
  simp only at ho
  -- facts shared by both values of `b`
  have hst : ∀ (hlt : LT QB b N q), acceptsLines q.containerKind = false →
      ¬ (q.state = stateDescending ∨ q.state = stateDescendTerminated) := by
    intro _ hacc
    rcases ho.st with ⟨h0, _⟩ | ⟨ha, he⟩ | h' | h'
    · omega
    · rw [he, al_accepts ha] at hacc; cases hacc
    · rcases h' with h' | h' <;> rw [h'] <;> decide
    · rw [h']; decide
  have hu0 : ∀ (hsm : (SameButState p1 q ∧ ht = true) ∨ Moved q), q.depth = 0 → q.i = 0 := by
    intro hsm hd
    rcases hsm with ⟨hs, _⟩ | hm
    · obtain ⟨_, s2, s3, _⟩ := same_fields hs
      rw [s3]; exact u0 (by rw [← s2]; exact hd)
    · have := hm.1; omega
  have hup : ∀ (hsm : (SameButState p1 q ∧ ht = true) ∨ Moved q), ∀ c, q.root.blocks.getLast? = some c →
      c.label.stop < 0 → c.label.kind = BK.paragraph → q.i = 0 ∧ q.tabPartial = false ∧ (b = true → q.depth = 1) := by
    intro hsm c hc hco hkp
    rcases hsm with ⟨hs, _⟩ | hm
    · obtain ⟨s1, s2, s3, s4⟩ := same_fields hs
      obtain ⟨u1, u2, u3⟩ := up c (by rw [← s1]; exact hc) hco hkp
      exact ⟨by rw [s3]; exact u1, by rw [s4]; exact u2, fun hb => by rw [s2]; exact u3 hb⟩
    · exact absurd hkp (hm.2 c hc hco)
  cases b with
  | true =>
    simp only [if_true]
    rcases ho.res with ⟨hlt, hsm⟩ | ⟨hlb, e⟩
    · refine ⟨fun _ => Or.inl ⟨hlt, hu0 hsm, fun c hc hco hkp => ?_, hst hlt⟩, fun hht => ?_⟩
      · obtain ⟨u1, u2, u3⟩ := hup hsm c hc hco hkp
        exact ⟨u3 rfl, u1, u2⟩
      · rcases hsm with ⟨_, e⟩ | hm
        · rw [e] at hht; cases hht
        · exact topEnd_of_A hlt.src hlt.top (paraT_of_np hm.2) (fun h0 => by have := hm.1; omega)
    · exact ⟨fun hht => (by rw [e] at hht; cases hht), fun _ => topEnd_of_B hlb.src hlb.top⟩
  | false =>
    simp only [Bool.false_eq_true, if_false]
    rcases ho.res with ⟨hlt, hsm⟩ | ⟨hlb, e⟩
    · split
      · -- the lazy continuation of a paragraph
        rename_i hcond
        simp only [Bool.and_eq_true, Bool.not_eq_true', beq_iff_eq] at hcond
        obtain ⟨_, htk⟩ := hcond
        obtain ⟨y, hy⟩ := tipDepth_dv q.root
        rw [hy] at htk
        simp only [Option.getD_some] at htk
        have htk' : y.label.kind = BK.paragraph := htk
        generalize htipdef : tipDepth q.root 0 = tip at hy
        -- the end-of-line summary of the tree as it is
        have hte : ∀ (c : PB), q.root.blocks.getLast? = some c → c.label.stop < 0 → c.label.kind ≠ BK.paragraph →
            TopEnd N q := by
          intro c hc hco hnp
          have hltN := hlt.src.lt
          refine ⟨fun _ => ?_, fun c' hc' _ hk' => ?_, fun _ _ _ a ha => ?_⟩
          rotate_left 2
          · cases hlt.top with
            | empty he => rw [he] at hc; cases hc
            | old k hb _ _ _ => rw [hb] at ha; simp at ha
            | closedAt _ hch _ _ =>
              have := hch.closed (Int.le_refl _) c (List.mem_of_getLast? hc)
              unfold PBClosed at this; omega
            | new pre c0 hb hch ho0 _ _ _ _ =>
              rw [hb, List.dropLast_concat] at ha
              have := hch.all_le a ha
              omega
          · cases hlt.top with
            | empty he => rw [he] at hc; cases hc
            | old k hb _ _ _ => rw [hb]; exact KidsOK.last_open (isOpen_eq_true_of_open (by
                have hb' : q.root.blocks = [] ++ [k] := hb
                rw [(last_of_append hb').1] at hc; cases hc; exact hco))
            | closedAt _ hch _ _ =>
              have := hch.closed (Int.le_refl _) c (List.mem_of_getLast? hc)
              unfold PBClosed at this; omega
            | new pre c0 hb hch ho0 _ _ _ _ =>
              rw [hb]
              have := kidsOK_of_chain_open (Int.le_refl 0) hch ho0
              simpa using this
          · rw [hc] at hc'; cases hc'
            exact absurd hk' hnp
        refine ⟨fun _ => ?_, fun hht => ?_⟩
        · -- the text goes to the paragraph
          have htip0 : tip ≠ 0 := by
            intro h0
            rw [h0, spineGet_zero] at hy
            cases hy
            rw [hlt.la.root.kind] at htk'
            revert htk'; decide
          obtain ⟨c, hc, hco⟩ := tipDepth_pos (root := q.root) (by rw [htipdef]; omega)
          by_cases htip1 : tip = 1
          · left
            subst htip1
            have hyc : y = c := by rw [spineGet_one, hc] at hy; exact (Option.some.inj hy).symm
            subst hyc
            -- the last child of the document is the open paragraph the line started with
            have hla1 : LA true N { q with depth := 1 } := la_setDepth hlt.la.weaken 1 ⟨y, by rw [spineGet_one]; exact hc⟩
            cases hlt.top with
            | empty he => rw [he] at hc; cases hc
            | old k hb ho hls hp =>
              have hb' : q.root.blocks = [] ++ [k] := hb
              have : y = k := by rw [(last_of_append hb').1] at hc; cases hc; rfl
              subst this
              obtain ⟨u1, u2, _⟩ := hup hsm y hc hco htk'
              refine ⟨⟨hla1, hlt.src.of_eq rfl rfl rfl, .old y hb ho hls hp⟩, fun h0 => (by cases h0),
                fun c' hc' _ _ => ?_, fun hacc => ?_⟩
              · exact ⟨rfl, u1, u2⟩
              · have hck : ({ q with depth := 1 } : LP).containerKind = BK.paragraph := by
                  rw [containerKind_of_last (p := { q with depth := 1 }) rfl hc]; exact htk'
                rw [hck, acceptsLines_paragraph] at hacc; cases hacc
            | closedAt _ hch _ _ =>
              have := hch.closed (Int.le_refl _) y (List.mem_of_getLast? hc)
              unfold PBClosed at this; omega
            | new pre c0 hb _ _ _ hd1 _ e1 =>
              have : y = c0 := by rw [(last_of_append hb).1] at hc; cases hc; rfl
              subst this
              exfalso
              by_cases hq1 : q.depth = 1
              · have hf1 : Univ BK.paragraph = false := by decide
                have hf2 : AL BK.paragraph = false := by decide
                rcases e1 hq1 with h' | h' <;> rw [htk'] at h'
                · rw [hf1] at h'; cases h'
                · rw [hf2] at h'; cases h'
              · exact noOpenPara_depth2 hlt.la (by omega) y hc hco htk'
          · right
            have htip2 : 2 ≤ tip := by omega
            obtain ⟨y2, hy2⟩ := spineGet_le hy htip2
            -- the last child of the document has children: it is not a paragraph
            have hnp : c.label.kind ≠ BK.paragraph := fun hk =>
              not_para_of_kids hlt.la.root hc (kids_of_depth2 hc hy2) ⟨hco, hk⟩
            exact ⟨htip2, by rw [containerKind_eq (p := { q with depth := tip }) hy]; exact htk', ⟨y, hy⟩,
              (hte c hc hco hnp).of_eq rfl rfl⟩
        · rcases hsm with ⟨_, e⟩ | hm
          · rw [e] at hht; cases hht
          · exact (topEnd_of_A hlt.src hlt.top (paraT_of_np hm.2) (fun h0 => by have := hm.1; omega)).of_eq rfl rfl
      · -- the unmatched blocks are closed
        have c1 := closeLastChild_T H x hlt
        have hck : (q.closeLastChild x q.lineStart).containerKind = q.containerKind := by
          unfold LP.closeLastChild
          rw [spineReplaceLast_eq]
          exact (modify_contFrame q _ (fun b => by rw [(replLast_same _ b).1])).kind
        have hnp2 : NoOpenPara (q.closeLastChild x q.lineStart) := by
          unfold LP.closeLastChild
          rw [spineReplaceLast_eq]
          by_cases hd0 : q.depth = 0
          · intro c hc hco _
            simp only [hd0, spineModify_zero] at hc
            have := close0_closed H x hlt.la hlt.src hlt.top hd0 c (List.mem_of_getLast? hc)
            unfold PBClosed at this; omega
          · have hnq : NoOpenPara q := by
              intro c hc hco hkp
              by_cases hd2 : 2 ≤ q.depth
              · exact noOpenPara_depth2 hlt.la hd2 c hc hco hkp
              · exact hlt.la.rp rfl (by omega) c hc hco hkp
            exact noOpenPara_repl _ q.depth (by omega) hnq q.depth
        refine ⟨fun _ => Or.inl ⟨⟨c1.la.weaken, c1.src, c1.top⟩, fun h0 => hu0 hsm h0, fun c hc hco hkp => ?_, fun hacc => ?_⟩,
          fun hht => ?_⟩
        · exact absurd hkp (hnp2 c hc hco)
        · rw [hck] at hacc
          exact hst hlt hacc
        · rcases hsm with ⟨_, e⟩ | hm
          · rw [e] at hht; cases hht
          · exact topEnd_of_A c1.src c1.top (paraT_of_np hnp2) (fun h0 => by
              have h0' : q.depth = 0 := h0
              have := hm.1; omega)
    · -- a child of the document has been closed at the end of the line
      have hlc : LastClosed q.root := by
        rcases hlb.lb.last with h' | h'
        · exact h'
        · cases h'
      have hte := topEnd_of_B hlb.src hlb.top
      subst e
      split
      · exact ⟨fun hht => (by cases hht), fun _ => hte.of_eq rfl rfl⟩
      · refine ⟨fun hht => (by cases hht), fun _ => hte.of_eq ?_ rfl⟩
        simp only [LP.closeLastChild, spineReplaceLast_eq, hlb.lb.depth, spineModify_zero, replLast_closed_id x _ _ q.root hlc]

end CM.Proofs

namespace CM.Proofs
open CM CM.Model CM.Gen CM.Props.C01

theorem hasMatch_paragraph : hasMatch BK.paragraph := by
  unfold hasMatch; simp

/-- **One non-empty line.** -/
theorem processLine_T (H : onCloseParagraph_cuts_target) (x : PExt) {N : Nat} (p : LP) (h : LA true N p) (hs : SrcOK N p)
    (hto : TopO p) (hT : p.state = stateDescendTerminated → TermOK p.root)
    (hE : p.root.blocks = [] → p.state ≠ stateDescendTerminated) (hi : p.i = 0)
    (htp : p.tabPartial = false) : TopEnd N (processLine x p) := by
  have hT' : p.state = stateDescendTerminated → ∃ c, spineGet p.root 1 = some c ∧ c.isOpen = true ∧ hasMatch c.kind := by
    intro hst
    rcases hto with he | ⟨k, hb, ho, _, _⟩
    · exact absurd hst (hE he)
    · have hl : p.root.blocks.getLast? = some k := by rw [hb]; rfl
      rcases hT hst with hlc | ⟨c, hc, hm⟩
      · have := hlc k hl
        unfold PBClosed at this; omega
      · rw [hl] at hc; cases hc
        exact ⟨k, by rw [spineGet_one]; exact hl, isOpen_eq_true_of_open ho, hm⟩
  unfold processLine
  have hd := descendOpenBlocks_ok x p h hT
  have hdt := descendOpenBlocks_T x p h hs hto hT'
  generalize descendOpenBlocks x p = r at hd hdt
  obtain ⟨b, p1⟩ := r
  simp only at hd hdt ⊢
  split
  · rename_i hterm
    have hterm' : p1.state = stateDescendTerminated := by simpa using hterm
    rcases hdt.res with ⟨_, s1, ht | ⟨ht, hn, hdp⟩⟩ | ⟨h', _⟩
    · exact topEnd_of_B s1 ht
    · exact topEnd_of_A s1 ht (paraT_of_np hn) (fun h0 => by omega)
    · exact absurd hterm' h'
  · rename_i hterm
    have hterm' : p1.state ≠ stateDescendTerminated := by simpa using hterm
    rcases hd.res with ⟨h', _⟩ | ⟨_, hla, hu, _⟩
    · exact absurd h' hterm'
    rcases hdt.res with ⟨h', _⟩ | ⟨_, s1, r3, _, r5, r6, r7⟩
    · exact absurd h' hterm'
    have hlab : LA b N p1 := by
      refine ⟨hla.cur, hla.ile, hla.dv, hla.root, ?_⟩
      intro hb hd1 c hc hneg hkp
      obtain ⟨c2, hc2⟩ := hu hb
      rw [hd1] at hc2
      exact not_para_of_kids hla.root hc (kids_of_depth2 hc hc2) ⟨hneg, hkp⟩
    have hlt : LT QB b N p1 := ⟨hlab, s1, (hto.of_eq r3 hd.lineStart).toA⟩
    have u0 : p1.depth = 0 → p1.i = 0 := fun h0 => by rw [(r5 h0).1]; exact hi
    have up : ∀ c, p1.root.blocks.getLast? = some c → c.label.stop < 0 → c.label.kind = BK.paragraph →
        p1.i = 0 ∧ p1.tabPartial = false ∧ (b = true → p1.depth = 1) := by
      intro c hc hco hkp
      have hc1 : spineGet p.root 1 = some c := by rw [spineGet_one, ← r3]; exact hc
      have hle : p1.depth ≤ 1 := by
        rcases Nat.lt_or_ge 1 p1.depth with h2 | h2
        · exact absurd hkp (noOpenPara_depth2 hla h2 c hc hco)
        · exact h2
      have hcur : p1.i = p.i ∧ p1.tabPartial = p.tabPartial := by
        by_cases h0 : p1.depth = 0
        · exact r5 h0
        · exact r6 (by omega) (fun c' hc' => by rw [hc1] at hc'; cases hc'; exact hkp)
      refine ⟨by rw [hcur.1]; exact hi, by rw [hcur.2]; exact htp, fun hb => ?_⟩
      rcases r7 hb with h' | h' | h'
      · omega
      · omega
      · exact absurd ⟨c, hc1, isOpen_eq_true_of_open hco, by unfold PB.kind; rw [hkp]; exact hasMatch_paragraph⟩ h'
    have ho := openNewBlocks_T H x b hlt u0 up
    generalize openNewBlocks x p1 b = r2 at ho
    obtain ⟨ht, p2⟩ := r2
    simp only at ho ⊢
    split
    · rename_i hht
      rcases ho.1 hht with hp | hz
      · exact addLineText_T H x hp
      · obtain ⟨a1, a2⟩ := addLineText_deep x p2 hz.depth hz.ck hz.dv
        exact hz.te.sameTop a1 a2
    · rename_i hht
      exact ho.2 (by simpa using hht)

end CM.Proofs
