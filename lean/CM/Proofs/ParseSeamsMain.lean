import CM.Proofs.ParseSeamsTree
/-
C17 (b) for parser output, part 7: through the inline phase, and the theorems about `Model.parseDoc`.

`Rewrite` keeps the block skeleton: an inline node of the block-phase tree that is not below a parsed container (a block
with an Unparsed child) is still there, in the same place; the children of a parsed container are what `parseInlines`
returns.  Hence (`rewriteE_butLast`): if every RawHTML node of the block-phase tree other than its last node is closed
(fact (1)) and every RawHTML node `parseInlines` returns for a container is closed (fact (2), `InlineTagsClosed`), then
every RawHTML node of the final tree other than its last node is closed: `rawClosedButLast`, the hypothesis of
`rawSeamsOK_of_butLast` (fact (3)).
-/
namespace CM.Proofs.PS
open CM CM.Model CM.Gen CM.Spec
open CM.Proofs.BT CM.Proofs.BG CM.Proofs.PW CM.Proofs.InlH

/-- The slice of a RawHTML node does not end in an unfinished name candidate. -/
def OKr (src : Bytes) (n : Tree) : Prop := T.isI n IK.rawHTML = true → endsInCandidate (Node.slice src n) = false

/-- **Fact (2) as a statement about the inline phase**: every RawHTML node among the new children of every container
    `Rewrite` parses is closed. -/
def InlineTagsClosed (ix : IExt) (src : Bytes) (matchRef : Bytes → Bool) (t : Tree) : Prop :=
  ∀ p ∈ conts t, ∀ kids, Inl.parseInlines ix src src.toArray matchRef p.1.start p.1.stop p.2 = .ok kids →
    ∀ n ∈ T.nodesL kids, OKr src n

theorem OKr_block {src : Bytes} {n : Tree} (hb : n.label.isBlock = true) : OKr src n := by
  intro hr
  simp [T.isI, hb] at hr

section Rewrite
variable (ix : IExt) (src : Bytes) (srcA : Array UInt8) (matchRef : Bytes → Bool)

/-- all nodes / all nodes but the last -/
def PAll (src : Bytes) (L : List Tree) : Prop := ∀ n ∈ L, OKr src n
def PBut (src : Bytes) (L : List Tree) : Prop := ∀ n ∈ L.dropLast, OKr src n

theorem PBut_of_PAll {L : List Tree} (h : PAll src L) : PBut src L := fun n hn => h n (List.dropLast_subset _ hn)

theorem PAll_append {A B : List Tree} (ha : PAll src A) (hb : PAll src B) : PAll src (A ++ B) := by
  intro n hn
  rcases List.mem_append.1 hn with h | h
  · exact ha n h
  · exact hb n h

theorem PBut_append {A B : List Tree} (ha : PAll src A) (hb : PBut src B) (hne : B ≠ []) : PBut src (A ++ B) := by
  intro n hn
  rw [dropLast_append_ne A B hne] at hn
  rcases List.mem_append.1 hn with h | h
  · exact ha n h
  · exact hb n h

theorem PAll_left {A B : List Tree} (h : PAll src (A ++ B)) : PAll src A := fun n hn => h n (List.mem_append_left _ hn)
theorem PAll_right {A B : List Tree} (h : PAll src (A ++ B)) : PAll src B := fun n hn => h n (List.mem_append_right _ hn)

theorem PBut_split {A B : List Tree} (h : PBut src (A ++ B)) (hne : B ≠ []) : PAll src A ∧ PBut src B := by
  unfold PBut at h
  rw [dropLast_append_ne A B hne] at h
  exact ⟨fun n hn => h n (List.mem_append_left _ hn), fun n hn => h n (List.mem_append_right _ hn)⟩

theorem PBut_cons_block {t : Tree} {L : List Tree} (hb : t.label.isBlock = true) (h : PBut src L) : PBut src (t :: L) := by
  intro n hn
  cases L with
  | nil => simp at hn
  | cons a L =>
    rw [List.dropLast_cons_cons, List.mem_cons] at hn
    rcases hn with rfl | hn
    · exact OKr_block hb
    · exact h n hn

theorem PBut_tail {t : Tree} {L : List Tree} (h : PBut src (t :: L)) : PBut src L := by
  intro n hn
  cases L with
  | nil => simp at hn
  | cons a L =>
    refine h n ?_
    rw [List.dropLast_cons_cons]
    exact List.mem_cons_of_mem _ hn

mutual
/-- `Rewrite` keeps "closed" and "closed but for the last node", given that the inline phase returns closed nodes. -/
theorem rewriteE_butLast (t t' : Tree) (h : Inl.rewriteE ix src srcA matchRef t = .ok t')
    (hc : ∀ p ∈ conts t, ∀ kids, Inl.parseInlines ix src srcA matchRef p.1.start p.1.stop p.2 = .ok kids →
      ∀ n ∈ T.nodesL kids, OKr src n) :
    (PAll src (T.nodes t) → PAll src (T.nodes t')) ∧ (PBut src (T.nodes t) → PBut src (T.nodes t')) := by
  match t with
  | .node l cs =>
    rw [Inl.rewriteE] at h
    split at h
    · cases h; exact ⟨id, id⟩
    · rename_i hb
      have hb' : l.isBlock = true := by simpa using hb
      split at h
      · rename_i hu
        split at h
        · rename_i kids hp
          cases h
          have hk : PAll src (T.nodesL kids) := by
            refine hc (l, cs) ?_ kids hp
            rw [conts, if_neg hb, if_pos hu]; exact List.mem_singleton.2 rfl
          have hall : PAll src (T.nodes (.node l kids)) := by
            intro n hn
            rw [T.nodes, List.mem_cons] at hn
            rcases hn with rfl | hn
            · exact OKr_block hb'
            · exact hk n hn
          exact ⟨fun _ => hall, fun _ => PBut_of_PAll src hall⟩
        · cases h
      · rename_i hu
        split at h
        · rename_i kids hf
          cases h
          have hc' : ∀ p ∈ contsL cs, ∀ kids, Inl.parseInlines ix src srcA matchRef p.1.start p.1.stop p.2 = .ok kids →
              ∀ n ∈ T.nodesL kids, OKr src n := by
            intro p hp
            refine hc p ?_
            rw [conts, if_neg hb, if_neg hu]; exact hp
          obtain ⟨f1, f2, _⟩ := rewriteForestE_butLast cs kids hf hc'
          constructor
          · intro ha n hn
            rw [T.nodes, List.mem_cons] at hn
            rcases hn with rfl | hn
            · exact OKr_block hb'
            · refine f1 (fun m hm => ha m ?_) n hn
              rw [T.nodes]; exact List.mem_cons_of_mem _ hm
          · intro ha
            rw [T.nodes] at ha ⊢
            exact PBut_cons_block src hb' (f2 (PBut_tail src ha))
        · cases h
theorem rewriteForestE_butLast (cs cs' : List Tree) (h : Inl.rewriteForestE ix src srcA matchRef cs = .ok cs')
    (hc : ∀ p ∈ contsL cs, ∀ kids, Inl.parseInlines ix src srcA matchRef p.1.start p.1.stop p.2 = .ok kids →
      ∀ n ∈ T.nodesL kids, OKr src n) :
    (PAll src (T.nodesL cs) → PAll src (T.nodesL cs')) ∧ (PBut src (T.nodesL cs) → PBut src (T.nodesL cs')) ∧
      (cs = [] ↔ cs' = []) := by
  match cs with
  | [] =>
    rw [Inl.rewriteForestE] at h
    cases h
    exact ⟨id, id, Iff.rfl⟩
  | c :: rest =>
    rw [Inl.rewriteForestE] at h
    split at h
    · cases h
    · rename_i c' hcr
      split at h
      · cases h
      · rename_i rest' hrr
        cases h
        have hc1 : ∀ p ∈ conts c, ∀ kids, Inl.parseInlines ix src srcA matchRef p.1.start p.1.stop p.2 = .ok kids →
            ∀ n ∈ T.nodesL kids, OKr src n := fun p hp => hc p (by rw [contsL]; exact List.mem_append_left _ hp)
        have hc2 : ∀ p ∈ contsL rest, ∀ kids, Inl.parseInlines ix src srcA matchRef p.1.start p.1.stop p.2 = .ok kids →
            ∀ n ∈ T.nodesL kids, OKr src n := fun p hp => hc p (by rw [contsL]; exact List.mem_append_right _ hp)
        obtain ⟨n1, n2⟩ := rewriteE_butLast c c' hcr hc1
        obtain ⟨f1, f2, f3⟩ := rewriteForestE_butLast rest rest' hrr hc2
        refine ⟨?_, ?_, Iff.intro (fun h => by cases h) (fun h => by cases h)⟩
        · intro ha
          rw [T.nodesL] at ha ⊢
          exact PAll_append src (n1 (PAll_left src ha)) (f1 (PAll_right src ha))
        · intro ha
          rw [T.nodesL] at ha ⊢
          by_cases hr : rest = []
          · subst hr
            have hr' : rest' = [] := f3.1 rfl
            subst hr'
            rw [T.nodesL, List.append_nil] at ha ⊢
            exact n2 ha
          · have hr' : rest' ≠ [] := fun e => hr (f3.2 e)
            obtain ⟨a1, a2⟩ := PBut_split src ha (nodesL_ne_nil hr)
            exact PBut_append src (n1 a1) (f2 a2) (nodesL_ne_nil hr')
end

end Rewrite

/-! ### `Parse` -/

/-- Facts (1) and (3) for parser output, fact (2) as a hypothesis: the final tree satisfies `rawClosedButLast`. -/
theorem parse_rawClosedButLast_of_inline (x : PExt) (ix : IExt) (inp : Bytes) :
    ∀ pr ∈ (parseDoc x ix inp).roots, ∀ t', pr.tree = .ok t' →
      InlineTagsClosed ix pr.root.source (matchRefOf x ix inp) (pbToTree pr.root.block) →
      rawClosedButLast pr.root.source t' = true := by
  intro pr hpr t' ht hinl
  rw [parseDoc_tree x ix inp pr hpr] at ht
  have h1 : PBut pr.root.source (T.nodes (pbToTree pr.root.block)) := by
    intro n hn hr
    exact not_candidate_of_eolEnd _ n (blockphase_rawEol x _ inp pr.root (root_mem_drain x ix inp pr hpr) n hn hr)
  have h2 := (rewriteE_butLast ix pr.root.source pr.root.source.toArray (matchRefOf x ix inp) _ t' ht hinl).2 h1
  unfold rawClosedButLast
  rw [List.all_eq_true]
  intro n hn
  cases hr : T.isI n IK.rawHTML with
  | false => rfl
  | true =>
    have := h2 n hn hr
    simp [this]

/-- The seam condition of C17 for parser output, for every renderer configuration (fact (2) as a hypothesis). -/
theorem parse_rawSeamsOK_of_inline (x : PExt) (ix : IExt) (inp : Bytes) :
    ∀ pr ∈ (parseDoc x ix inp).roots, ∀ t', pr.tree = .ok t' →
      InlineTagsClosed ix pr.root.source (matchRefOf x ix inp) (pbToTree pr.root.block) →
      ∀ cx : RCtx, cx.src = pr.root.source → rawSeamsOK cx t' = true := by
  intro pr hpr t' ht hinl cx hsrc
  exact rawSeamsOK_of_butLast cx t' (by rw [hsrc]; exact parse_safePre x ix inp pr hpr t' ht)
    (by rw [hsrc]; exact parse_rawClosedButLast_of_inline x ix inp pr hpr t' ht hinl)

/-- The decidable form: the contract of C17 (b) for parser output is `rawClosedButLast` of the final tree. -/
theorem parse_rawSeamsOK_of_butLast (x : PExt) (ix : IExt) (inp : Bytes) :
    ∀ pr ∈ (parseDoc x ix inp).roots, ∀ t', pr.tree = .ok t' → rawClosedButLast pr.root.source t' = true →
      ∀ cx : RCtx, cx.src = pr.root.source → rawSeamsOK cx t' = true := by
  intro pr hpr t' ht hb cx hsrc
  exact rawSeamsOK_of_butLast cx t' (by rw [hsrc]; exact parse_safePre x ix inp pr hpr t' ht) (by rw [hsrc]; exact hb)

/-- **C17 (b) for parser output, every configuration** (fact (2) as a hypothesis): no start tag with a rejected name can be
    read off the rendering of a parsed root, whatever the name-closed tag filter, `SoftBreakBehavior`, `IgnoreRaw`. -/
theorem parse_render_no_rejected_start_tag_of_inline (x : PExt) (ix : IExt) (inp : Bytes) :
    ∀ pr ∈ (parseDoc x ix inp).roots, ∀ t', pr.tree = .ok t' →
      InlineTagsClosed ix pr.root.source (matchRefOf x ix inp) (pbToTree pr.root.block) →
      ∀ (cx : RCtx) (p : Bytes → Bool), cx.src = pr.root.source → cx.filter = some p → NameClosed p →
        ∀ name ∈ Spec.startTags (appendBlock cx [] t'), p name = false := by
  intro pr hpr t' ht hinl cx p hsrc hf hp
  exact CM.Props.C17.render_no_rejected_start_tag cx p hf hp t'
    (parse_rawSeamsOK_of_inline x ix inp pr hpr t' ht hinl cx hsrc)

/-- … and with the decidable contract `rawClosedButLast` on the final tree (weaker than `rawClosed`, true of `<div`). -/
theorem parse_render_no_rejected_start_tag_of_butLast (x : PExt) (ix : IExt) (inp : Bytes) :
    ∀ pr ∈ (parseDoc x ix inp).roots, ∀ t', pr.tree = .ok t' → rawClosedButLast pr.root.source t' = true →
      ∀ (cx : RCtx) (p : Bytes → Bool), cx.src = pr.root.source → cx.filter = some p → NameClosed p →
        ∀ name ∈ Spec.startTags (appendBlock cx [] t'), p name = false := by
  intro pr hpr t' ht hb cx p hsrc hf hp
  exact CM.Props.C17.render_no_rejected_start_tag cx p hf hp t'
    (parse_rawSeamsOK_of_butLast x ix inp pr hpr t' ht hb cx hsrc)

/-- A root without a parsed container that could hold an inline tag — in particular a root without paragraph or heading —
    needs no hypothesis. -/
theorem inlineTagsClosed_of_noConts (ix : IExt) (src : Bytes) (m : Bytes → Bool) (t : Tree) (h : conts t = []) :
    InlineTagsClosed ix src m t := by
  intro p hp
  rw [h] at hp; cases hp

/-! ### Non-vacuity -/

section Examples
open CM.Proofs.RK

/-- `PW.rawWitness` = `<div` (no line ending): `rawClosed` fails, `rawClosedButLast` holds. -/
example : ∀ pr ∈ (parseDoc exX exIX rawWitness).roots,
    rawClosed pr.root.source (finalTree pr) = false ∧ rawClosedButLast pr.root.source (finalTree pr) = true := by
  decide +kernel

/-- An HTML block inside a block quote inside a list item, ending the input without a line ending. -/
def psDoc : Bytes := Bytes.ofString "- > <div>\n  > <scr"

example : ∀ pr ∈ (parseDoc exX exIX psDoc).roots, treeOk pr = true ∧
    rawClosed pr.root.source (finalTree pr) = false ∧ conts (pbToTree pr.root.block) = [] := by decide +kernel

example : ∀ pr ∈ (parseDoc exX exIX psDoc).roots,
    ∀ name ∈ Spec.startTags (appendBlock (cxGFM pr.root.source false) [] (finalTree pr)), filterTagGFM name = false :=
  fun pr hpr => parse_render_no_rejected_start_tag_of_inline exX exIX psDoc pr hpr _
    (tree_of_treeOk ((by revert pr; decide +kernel : ∀ pr ∈ (parseDoc exX exIX psDoc).roots, treeOk pr = true) pr hpr))
    (inlineTagsClosed_of_noConts _ _ _ _
      ((by revert pr; decide +kernel : ∀ pr ∈ (parseDoc exX exIX psDoc).roots, conts (pbToTree pr.root.block) = []) pr hpr))
    _ filterTagGFM rfl rfl filterTagGFM_nameClosed

end Examples

end CM.Proofs.PS
