import CM.Proofs.ParseScanInline2
/-
C02 / C04, inline halves, for the whole of `Parse` — `parseInlineLink`, part 3: from a fresh reader (`inline_scan`).
The reader starts live (then `pipe_scan` applies), or dead: then a valid link is exactly `()`; it ends inside the container
because `(` lies before the end of the first child, the children after the first are not empty, and the last child is not
followed by `)`.
-/
namespace CM.Proofs.PSc
open CM CM.Model CM.Model.Inl CM.Gen CM.Proofs CM.Proofs.PS CM.Proofs.InlH

variable {src : Bytes} {L : List Tree} {N m : Nat}

theorem skipLinkSpace_congr (src : Bytes) (f : Nat) (r : Rd) :
    skipLinkSpace src (f + 1) r = skipLinkSpace src (f + 1) (r.current src).2 := by
  rw [skipLinkSpace, skipLinkSpace, current_idem]

theorem pipe_congr (src : Bytes) (f : Nat) (r : Rd) (start : Int) :
    pipe src (f + 1) r start = pipe src (f + 1) (r.current src).2 start := by
  unfold pipe
  rw [← skipLinkSpace_congr]

/-- a fresh reader that is live satisfies the invariant -/
theorem SN_of_live (hc : RC src L N) {r : Rd} (hl : Live L r) (hprev : r.prev = -1) : SN src L r.pos N r := by
  obtain ⟨t, rest, hs, htm, h1, h2, _⟩ := hl.currentNode hc
  obtain ⟨k, hk⟩ := hl.1
  have hb := hc.bound t htm
  refine ⟨⟨false, ?_, ?_, by omega, Nat.le_refl _, by omega, by omega, (fun hh => by cases hh), Or.inl (by omega)⟩,
    Or.inl hl, fun e => by rw [hs] at e; cases e⟩
  · intro v hv'
    rw [hk] at hv'
    have hvm := List.mem_of_mem_drop hv'
    have := hc.bound v hvm; have := hc.le v hvm
    unfold TB; omega
  · rw [hk]; exact hc.sorted.drop k

/-- … and so does a dead one at a byte other than `)` -/
theorem SN_of_dead (_hc : RC src L N) {r : Rd} (hd : r.spans = []) (hprev : r.prev = -1) (hpos : r.pos ≤ N)
    (hout : Outside L r.pos) (hb : src.length ≤ r.pos ∨ src.getD r.pos 0 ≠ 0x29) : SN src L r.pos N r := by
  refine ⟨⟨false, ?_, ?_, hpos, Nat.le_refl _, by omega, by omega, (fun hh => by cases hh), Or.inl (by omega)⟩,
    Or.inr ⟨hd, hb⟩, fun _ => hout⟩
  · rw [hd]; exact SpansOK.nil N
  · rw [hd]; exact List.Pairwise.nil

/-- a dead reader at `)`: the link `()` -/
theorem pipe_dead_paren {r : Rd} (hd : r.spans = []) (hp : r.pos < src.length) (hb : src.getD r.pos 0 = 0x29) (f : Nat)
    (start : Int) : pipe src (f + 1) r start = { span := ⟨start, r.pos + 1⟩, destination := noDest, title := noTitle } := by
  have hcur : r.current src = (0x29, r) := by
    refine Prod.ext ?_ (dead_current_snd hd)
    rw [dead_current_fst hd, if_neg (by omega), hb]
    rfl
  unfold pipe
  have e1 : skipLinkSpace src (f + 1) r = (true, r) := by
    rw [skipLinkSpace, hcur]; rfl
  have e2 : parseLinkDestination src (f + 1) r = (noDest, r) := by
    rw [parseLinkDestination, hcur]; rfl
  have e4 : parseLinkTitle src (f + 1) r = (noTitle, r) := by
    rw [parseLinkTitle, hcur]; rfl
  have hnd : noDest.span.isValid = false := by decide
  have hnt : noTitle.span.isValid = false := by decide
  simp [e1, e2, e4, hcur, hnd, hnt]

/-- **`parseInlineLink` from a fresh reader over the children**, at a `(` before the end of the first child. -/
theorem inline_scan (hc : RC2 src L N) (hT : TailNP src L) (ext : Ext) (f : Nat) (hfl : rdFuel src L ≤ f + 1)
    (start : Int) (h0 : 0 ≤ start) (hfirst : ∃ t0 rest, L = t0 :: rest ∧ start < t0.label.stop)
    (hv : (inlLinkPure src (f + 1) L start).span.isValid = true) :
    LinkOK ext src (f + 1) L N start (inlLinkPure src (f + 1) L start) := by
  have hrc := hc.toRC
  rw [inlLinkPure_eq] at hv ⊢
  have hp0 : (start + 1).toNat = start.toNat + 1 := by omega
  by_cases hlen : (start + 1).toNat < src.length
  · -- the first `current` normalises the reader
    have hnr : newReader L (start + 1).toNat = newReader (L.drop 0) (start + 1).toNat := by simp
    obtain ⟨q1, q2, q3, hst⟩ := newReader_cn (L := L) 0 (start + 1).toNat
    have hcg := pipe_congr src f (newReader L (start + 1).toNat) start
    rw [hnr, newReader_current (L := L) 0 _ hlen] at hcg
    simp only [] at hcg
    rw [← hnr] at hcg hst q1 q2 q3
    rw [hcg] at hv ⊢
    generalize (newReader L (start + 1).toNat).currentNode.2 = r1 at hv hst q1 q2 q3 ⊢
    rcases hst with hl | ⟨hd, hnone⟩
    · have hs := SN_of_live (src := src) hrc hl q2
      exact pipe_scan hc hT ext f hfl r1 hs start h0 (by rw [q1]; omega) hv
    · have hout' := outside_of_none (L.drop 0) (start + 1).toNat 0 (by simpa using hrc.sorted)
        (by simpa using hrc.nn) (by simpa using hrc.le) hnone
      have hout : Outside L r1.pos := by
        intro t ht ⟨a1, a2⟩
        rw [q1] at a1 a2
        exact hout' t (by simpa using ht) ⟨by omega, a2⟩
      by_cases hb : src.getD r1.pos 0 = 0x29
      · -- `()`
        rw [pipe_dead_paren hd (by rw [q1]; exact hlen) hb] at hv ⊢
        obtain ⟨t0, rest, hL, hlt⟩ := hfirst
        have ht0 : t0 ∈ L := by rw [hL]; exact List.mem_cons_self
        have hN : (start : Int) + 2 ≤ N := by
          have hb0 := hrc.bound t0 ht0
          by_cases hin : start + 1 < t0.label.stop
          · omega
          · have hst : t0.label.stop = start + 1 := by omega
            cases rest with
            | nil =>
              exfalso
              have hl : L.getLast? = some t0 := by rw [hL]; rfl
              have e : t0.label.stop.toNat = r1.pos := by rw [q1]; omega
              rcases hT t0 hl with h | h
              · rw [e, q1] at h; omega
              · rw [e] at h; exact h hb
            | cons t1 rest' =>
              have ht1 : t1 ∈ L := by rw [hL]; simp
              have hne := hrc.tailNE t1 (by rw [hL]; simp)
              have hb1 := hrc.bound t1 ht1
              have hso : t0.label.stop ≤ t1.label.start := by
                have := hrc.sorted
                rw [hL] at this
                exact List.rel_of_pairwise_cons this List.mem_cons_self
              omega
        refine ⟨by simp only []; omega, by simp only []; rw [q1]; omega, fun h => ?_, fun h => ?_⟩
        · exact absurd h (show ¬ noDest.span.isValid = true by decide)
        · exact absurd h (show ¬ noTitle.span.isValid = true by decide)
      · obtain ⟨t0, rest, hL, hlt⟩ := hfirst
        have hb0 := hrc.bound t0 (by rw [hL]; exact List.mem_cons_self)
        have hs := SN_of_dead (src := src) hrc hd q2 (by rw [q1]; omega) hout (Or.inr hb)
        exact pipe_scan hc hT ext f hfl r1 hs start h0 (by rw [q1]; omega) hv
  · -- beyond the source: the reader sees the end marker
    exfalso
    have hcur : (newReader L (start + 1).toNat).current src = (0, newReader L (start + 1).toNat) := by
      unfold Rd.current
      rw [if_pos (by simp only [newReader]; omega)]
    unfold pipe at hv
    have e1 : skipLinkSpace src (f + 1) (newReader L (start + 1).toNat) = (false, newReader L (start + 1).toNat) := by
      rw [skipLinkSpace, hcur]; rfl
    rw [e1] at hv
    simp only [Bool.not_false, if_true] at hv
    exact absurd hv (show ¬ noInlineLink.span.isValid = true by decide)

end CM.Proofs.PSc
