import CM.Proofs.BGOps
/-
C05, block half — ranges of the recognizer results the block starts store in the block attributes:
ATX level ≤ 6, setext level ≤ 2, fence length ≥ 3 and fence character `` ` `` / `~`, list delimiter one of
`- + * . )`, ordered list numbers ≤ 999999999 (`maxDigits` = 9 digits).
-/
namespace CM.Proofs.BG
open CM CM.Model CM.Gen

theorem parseATXHeading_level_le (l : Bytes) : (parseATXHeading l).level ≤ 6 := by
  unfold parseATXHeading
  simp only []
  split
  · simp
  · rename_i h
    have h6 : countPrefix 0x23 l ≤ 6 := by
      simp only [Bool.or_eq_true, beq_iff_eq, decide_eq_true_eq, not_or, Nat.not_lt] at h
      exact h.2
    repeat' split
    all_goals first | exact h6 | simp

theorem parseSetext_le (l : Bytes) : parseSetextHeadingUnderline l ≤ 2 := by
  unfold parseSetextHeadingUnderline
  split
  · simp
  · split
    · split <;> simp
    · split
      · split <;> simp
      · simp

theorem parseCodeFence_range (l : Bytes) (h : (parseCodeFence l).n ≠ 0) :
    3 ≤ (parseCodeFence l).n ∧ ((parseCodeFence l).char = 0x60 ∨ (parseCodeFence l).char = 0x7E) := by
  unfold parseCodeFence at h ⊢
  split at h
  · exact absurd rfl h
  · rename_i c rest
    simp only [] at h ⊢
    split at h
    · exact absurd rfl h
    · rename_i hc
      rw [if_neg hc]
      simp only [Bool.or_eq_true, decide_eq_true_eq, Bool.and_eq_true, bne_iff_ne, ne_eq, not_or, not_and, Nat.not_lt,
        Decidable.not_not] at hc
      have hchar : c = 0x60 ∨ c = 0x7E := by
        by_cases h1 : c = 0x60
        · exact Or.inl h1
        · exact Or.inr (hc.2 h1)
      split at h
      · exact absurd rfl h
      · rename_i hn
        rw [if_neg hn]
        have hn3 : 3 ≤ countPrefix c (c :: rest) := by simp only [minConsecutive] at hn; omega
        split at h
        · exact ⟨hn3, hchar⟩
        · split at h
          · exact absurd rfl h
          · rename_i hb
            rw [if_neg hb]
            exact ⟨hn3, hchar⟩

theorem listMarkerLoop_delim : ∀ (l : Bytes) (i n : Nat), 0 ≤ (listMarkerLoop l i n).stop →
    isDelimChar (listMarkerLoop l i n).delim = true := by
  intro l
  induction l with
  | nil => intro i n h; simp [listMarkerLoop, noMarker] at h
  | cons c rest ih =>
    intro i n h
    unfold listMarkerLoop at h ⊢
    split
    · rename_i hc; rw [if_pos hc] at h; simp [noMarker] at h
    · rename_i hc; rw [if_neg hc] at h
      split
      · rename_i hd; rw [if_pos hd] at h; exact ih _ _ h
      · rename_i hd; rw [if_neg hd] at h
        split
        · rename_i he; rw [if_pos he] at h
          split
          · rename_i hf; rw [if_pos hf] at h; simp [noMarker] at h
          · simp only [Bool.or_eq_true, beq_iff_eq] at he
            rcases he with he | he <;> subst he <;> rfl
        · rename_i he; rw [if_neg he] at h; simp [noMarker] at h

/-- The delimiter of a recognized list marker is one of `- + * . )`. -/
theorem parseListMarker_delim (l : Bytes) (h : 0 ≤ (parseListMarker l).stop) : isDelimChar (parseListMarker l).delim = true := by
  cases l with
  | nil => simp [parseListMarker, noMarker] at h
  | cons c rest =>
    simp only [parseListMarker] at h ⊢
    split
    · rename_i hc
      rw [if_pos hc] at h
      split
      · rename_i hf; rw [if_pos hf] at h; simp [noMarker] at h
      · simp only [Bool.or_eq_true, beq_iff_eq] at hc
        rcases hc with (hc | hc) | hc <;> subst hc <;> rfl
    · rename_i hc
      rw [if_neg hc] at h
      split
      · rename_i hd; rw [if_pos hd] at h; exact listMarkerLoop_delim _ _ _ h
      · rename_i hd; rw [if_neg hd] at h; simp [noMarker] at h

theorem digit_le_nine : ∀ c : UInt8, isASCIIDigit c = true → (c - 0x30).toNat ≤ 9 := by
  apply forall_uint8; decide +kernel

theorem listMarkerLoop_n : ∀ (l : Bytes) (i n : Nat), n < 10 ^ i → (listMarkerLoop l i n).n < 10 ^ 9 := by
  intro l
  induction l with
  | nil => intro i n _; simp [listMarkerLoop, noMarker]
  | cons c rest ih =>
    intro i n h
    unfold listMarkerLoop
    split
    · simp [noMarker]
    · rename_i hc
      split
      · rename_i hd
        apply ih
        have := digit_le_nine c hd
        rw [Nat.pow_succ]
        omega
      · split
        · split
          · simp [noMarker]
          · simp only [maxDigits] at hc
            show n < 10 ^ 9
            have : 10 ^ i ≤ 10 ^ 9 := Nat.pow_le_pow_right (by decide) (by omega)
            omega
        · simp [noMarker]

/-- **List item numbers are at most 999999999** (`maxDigits` = 9 digits). -/
theorem parseListMarker_n_le (l : Bytes) : (parseListMarker l).n ≤ 999999999 := by
  have key : (parseListMarker l).n < 10 ^ 9 := by
    unfold parseListMarker
    split
    · simp [noMarker]
    · rename_i c rest
      split
      · split <;> simp [noMarker]
      · split
        · rename_i hd
          apply listMarkerLoop_n
          have := digit_le_nine c hd
          omega
        · simp [noMarker]
  have : (10 : Nat) ^ 9 = 1000000000 := by decide
  omega

example : (parseListMarker (Bytes.ofString "999999999. x")).n = 999999999 := by decide +kernel
example : (parseListMarker (Bytes.ofString "1234567890. x")).stop = -1 := by decide +kernel

end CM.Proofs.BG
