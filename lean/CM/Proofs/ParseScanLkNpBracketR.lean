import CM.Proofs.InlNpBracketR
import CM.Proofs.ParseScanLkRewrite

/-
C04, inline half, with `LinkScan2` / `TokScan2` — the reference-link part of `parseEndBracket` does not panic.
(Generated from `InlNpBracketR.lean`: the same proofs with `LinkScan2` in the place of `LinkScan`.)
-/

namespace CM.Proofs.InlH2
open CM CM.Model CM.Model.Inl CM.Gen CM.Spec CM.Proofs CM.Proofs.InlH
open Std.Do

set_option mvcgen.warning false

theorem refPart_np0 (L : Lims) (c : ICtx) (hc : c.unparsed = c.unparsedL.toArray) (hS : LinkScan2 c L.hi)
    (start : Int) (odi : Nat) (opener : DelimE) (kind : Nat) (s0 : IState) :
    ⦃fun s => ⌜s = s0 ∧ SPT L.lo L.hi start s ∧ odi < s0.stack.size ∧ s0.stack[odi]? = some opener ∧
        s0.unparsedPos < c.unparsed.size ∧ start < spanEndOf c s0 ∧ spanEndOf c s0 ≤ L.hi ∧ L.hi ≤ c.srcA.size⌝⦄
    refPart c start odi opener kind
    ⦃⇓! _ _ => ⌜True⌝⦄ := by
  mvcgen [refPart, spanEnd, getNode, modifyNode, appendFinished, alloc, delStack, setUnparsedPos, 
    -appendFinished_spec, -appendFinished_specS, -delStack_spec, -delStack_specS, -finishLink_spec, 
    -finishLink_specS, -finishLink_specP, -wrap_exact', -addLeaf_np, -addLeaf_specP, -lookForLinkOrImage_specP, 
    -CM.Proofs.InlH2.refPart_specP, -CM.Proofs.InlH.refPart_specP, -CM.Proofs.InlH.parseEndBracket_specP, 
    -CM.Proofs.InlH.tokC_specP, -CM.Proofs.InlH.tokA_specP, -CM.Proofs.InlH.tokCode_specP, 
    -CM.Proofs.InlH.tokLt_specP, -CM.Proofs.InlH.runBody_specP, -CM.Proofs.InlH.refPart_np]
  all_goals (try trivial)
  all_goals (try (exact fun h => h))
  all_goals (try (exact ExceptConds.entails.refl _))
  all_goals rp_setup'
  -- bounds of the byte reads, `unparsedFrom` before anything happened, the preconditions of `wrap`
  all_goals (try (first
    | exact ⟨trivial, fun _ => ⟨by omega, by omega⟩⟩
    | exact ⟨trivial, by omega, by omega⟩
    | exact ⟨trivial, by omega⟩
    | exact (link_wrap_pre' hsp (Same.rfl' _) hodi hx).1
    | exact (link_wrap_pre' hsp (Same.rfl' _) hodi hx).2.1
    | exact (link_wrap_pre' hsp (Same.rfl' _) hodi hx).2.2.1
    | exact (link_wrap_pre' hsp (Same.rfl' _) hodi hx).2.2.2))
  -- the bounds of `delStack` on a failure path
  all_goals (try (
    have hbs := ‹(_ || _ || _) = true›
    obtain ⟨hst, -⟩ := ‹IState.stack _ = IState.stack _ ∧ _›
    have hsz := congrArg Array.size hst
    simp only [Bool.or_eq_true, decide_eq_true_eq] at hbs
    omega))
  -- collapsed and shortcut references: the precondition of `finishLink`
  all_goals (try (
    obtain ⟨hL0, hu1⟩ := LinkInv.wrap' hsp (Same.rfl' _) hodi hx ‹_ = _ ∧ _ = wrapNodes _ _ _ _ _ _ _ _ ∧ _›
    refine ⟨trivial, _, _, _, _, _, _, hL0.respan _ ?_ ?_ (fun _ => _)⟩
    all_goals omega))
  -- full references
  all_goals (
    simp -failIfUnchanged +zetaDelta only [] at *
    obtain ⟨hL0, hu1⟩ := LinkInv.wrap' hsp (Same.rfl' _) hodi hx ‹_ = _ ∧ _ = wrapNodes _ _ _ _ _ _ _ _ ∧ _›
    have hvalid := ‹(!SpanI.isValid _) = false›
    simp only [Bool.not_eq_false'] at hvalid
    obtain ⟨-, g0, g1, g2⟩ := ‹_ < spanEndOf c _ ∧ (0 : Int) ≤ _ ∧ _ < (c.srcA.size : Int) ∧ _ = (91 : UInt8)›
    obtain ⟨l1, l2, l3, l4, l5⟩ := hS.label _ (start + 1) _ _ g0 g1 g2 (Prod.eta _).symm hvalid
    first
    | (refine ⟨trivial, _, _, _, _, _, _, (hL0.appendKid _ rfl ?_ ?_ ?_ ?_).respan _ ?_ ?_ (fun r => r)⟩
       all_goals first
         | omega
         | (dsimp only; omega)
         | exact l4
         | exact Int.le_refl _)
    | (have hfin := ‹∀ (lo hi : Int) (o N : Nat) (K E : Int), LinkInv lo hi o N _ K E true _ → _›
       have hq := (hfin _ _ _ _ _ _ ((hL0.appendKid _ rfl (by dsimp only; omega) (by dsimp only; omega)
         (by dsimp only; omega) l4).respan _ (Int.le_refl _) (by omega) (fun r => r))).2.1
       refine ⟨trivial, ?_⟩
       rw [hq]
       have hu1' : IState.unparsedPos _ = IState.unparsedPos _ := hu1
       omega))

@[spec 31000]
theorem refPart_np (L : Lims) (c : ICtx) (hc : c.unparsed = c.unparsedL.toArray) (hS : LinkScan2 c L.hi)
    (hA : L.hi ≤ c.srcA.size) (start : Int) (odi : Nat) (opener : DelimE) (kind : Nat) (s0 : IState) :
    ⦃fun s => ⌜s = s0 ∧ SPT L.lo L.hi start s ∧ odi < s0.stack.size ∧ s0.stack[odi]? = some opener ∧
        s0.unparsedPos < c.unparsed.size ∧ start < spanEndOf c s0 ∧ spanEndOf c s0 ≤ L.hi⌝⦄
    refPart c start odi opener kind
    ⦃⇓! r s => ⌜SPT L.lo L.hi r s ∧ start < r ∧ PosOK c s r⌝⦄ :=
  np_of_post (np_pre (refPart_np0 L c hc hS start odi opener kind s0)
      (fun s ⟨h1, h2, h3, h4, h5, h6, h7⟩ => ⟨h1, h2, h3, h4, h5, h6, h7, hA⟩))
    (refPart_specP L c hc hS start odi opener kind s0)

end CM.Proofs.InlH2
