import CM.Proofs.ShapesRem
/-
C13, block half — closing a paragraph that has just been turned into a setext heading: `onCloseParagraph` returns the
link reference definitions split off its first lines, and then the heading (what is left of the paragraph: it starts
inside one of the paragraph's lines, hence before the underline), or nothing, or the orphan paragraph (the underline).
-/
namespace CM.Proofs.Shp
open CM CM.Model CM.Gen CM.Proofs.BG

/-- The rule at a closed setext heading that ends at `e'`, where the text before `e'` ends (white space dropped) in the
    underline character, after `lo` and after the start of the heading. -/
theorem nodeOK_heading {setx : Bool} {src : Bytes} {lo e' : Int} {lb : PLabel} {leaf : Bool} {is : List Tree}
    (hk : lb.kind = BK.setextHeading) (hst : lb.stop = e') (h0 : 0 ≤ e') (he' : e' ≤ src.length)
    (hul : (Spec.dropRight Spec.isWs (src.take e'.toNat)).getLast? = some (ulChar lb.n))
    (hlo : lo < bodyLen src e') (hs : lb.start < bodyLen src e') :
    nodeOK setx src lo e' lb leaf is = true := by
  have hb := bodyLen_le he' h0
  rw [nodeOK_iff, kindOK_iff, textOK_iff, openOK_iff]
  refine ⟨by omega, fun _ => by omega, fun hsk => ?_, ?_, fun _ ho => by omega, fun ho => by omega⟩
  · cases setx
    · rw [hk] at hsk; exact absurd hsk (by decide)
    · rw [anchor_setext hk, hst]; omega
  · cases setx
    · exact shapeOK_free (by rw [hk]; decide) (by rw [hk]; decide) (by rw [hk]; decide) (by rw [hk]; decide) (fun _ => rfl)
    · apply shapeOK_of_setext hk
      rw [setextOK_iff, hst]
      exact ⟨h0, he', hul, hs⟩

/-- `onCloseParagraph` as a call of `refDefLoop`; the orphan starts where the last inline child ends and is open. -/
theorem onCloseParagraph_loop (x : PExt) (src : Bytes) (l : PLabel) (first : Tree) (rest : List Tree) :
    ∃ orph : Option PB, onCloseParagraph x src (.mk l [] (first :: rest)) =
        refDefLoop x src orph ((first :: rest).length + 2) (newReader (first :: rest) first.label.start.toNat) l (first :: rest) [] ∧
      ∀ o, orph = some o → o.label.start = ((first :: rest).getLast?.map (·.label.stop)).getD 0 ∧ o.label.stop = -1 := by
  unfold onCloseParagraph
  simp only []
  refine ⟨_, rfl, ?_⟩
  intro o ho
  split at ho
  · simp only [Option.some.injEq] at ho
    subst ho
    exact ⟨rfl, rfl⟩
  · cases ho

/-- **Closing a setext heading.** The paragraph `l` (good up to `e`) has been relabelled and is closed at `e'`, the end of
    the underline line: the text before `e'` ends, white space dropped, in the underline character, which is at or after
    `e`. -/
theorem onCloseParagraph_setext_Sh {setx : Bool} (x : PExt) (src : Bytes) (l : PLabel) (is : List Tree) (lo e e' : Int)
    (h0 : 0 ≤ lo) (hlo : lo ≤ e) (he' : e' ≤ src.length) (hk : l.kind = BK.setextHeading) (hs : l.start ≤ e)
    (hloc : localOK l [] is = true) (hi : BSp.InlsOK lo e is)
    (hul : (Spec.dropRight Spec.isWs (src.take e'.toNat)).getLast? = some (ulChar l.n)) (hU : e < bodyLen src e') :
    ShL setx src true lo e' (onCloseParagraph x src (.mk { l with stop := e' } [] is)) := by
  have h0' : 0 ≤ e' := by
    rcases Int.lt_or_le e' 0 with h | h
    · exfalso
      have : bodyLen src e' = 0 := by
        unfold bodyLen
        have : e'.toNat = 0 := by omega
        rw [this]; rfl
      omega
    · exact h
  have hbl := bodyLen_le he' h0'
  have he : e ≤ e' := by omega
  have hp : Para l.kind := Or.inr hk
  have hg := onCloseParagraph_good x src { l with stop := e' } is hp (by
    rw [localOK_congr (l := l) (l' := { l with stop := e' }) rfl rfl rfl]; exact hloc)
  -- the rule at what is left of the heading
  have hhead : ∀ (c : PB) (lo' : Int), lo' ≤ e → Rem e { l with stop := e' } c → Sh setx src lo' e' c := by
    intro c lo' hlo' hr
    obtain ⟨lb, bsb, isb⟩ := c
    obtain ⟨r1, r2, r3, r4, r5⟩ := hr
    have hb : bsb = [] := r5
    subst hb
    rw [Sh_mk]
    have r1' : lb.kind = BK.setextHeading := by rw [← hk]; exact r1
    have r2' : lb.stop = e' := r2
    have r3' : lb.n = l.n := r3
    have r4' : lb.start ≤ e := r4
    exact ⟨nodeOK_heading r1' r2' h0' he' (by rw [r3']; exact hul) (by omega) (by omega), ShL_nil _ _ _ _ _⟩
  cases is with
  | nil =>
    have : onCloseParagraph x src (.mk { l with stop := e' } [] []) = [.mk { l with stop := e' } [] []] := by
      unfold onCloseParagraph; rfl
    rw [this, ShL_single]
    exact ⟨hhead _ lo hlo ⟨rfl, rfl, rfl, hs, rfl⟩, fun _ => rfl⟩
  | cons first rest =>
    have hpok : ParaOK e.toNat (.mk { l with stop := e' } [] (first :: rest)) := paraOK_of_inls (by omega) hi
    have hsh := onCloseParagraph_shape x src { l with stop := e' } [] first rest hpok
      (by show ((e.toNat : Nat) : Int) ≤ e'; have : ((e.toNat : Nat) : Int) = e := Int.toNat_of_nonneg (by omega); omega)
    obtain ⟨hfacts, _⟩ := inls_facts hi
    obtain ⟨orph, hloop, horph⟩ := onCloseParagraph_loop x src { l with stop := e' } first rest
    have hrem := refDefLoop_rem x src orph e { l with stop := e' } ((first :: rest).length + 2)
      (newReader (first :: rest) first.label.start.toNat) (first :: rest) hs (fun t ht => (hfacts t ht).2.2)
    rw [← hloop] at hrem
    -- the orphan starts at or before `e`
    have horphs : ∀ o, orph = some o → o.label.start ≤ e ∧ o.label.stop = -1 := by
      intro o ho
      obtain ⟨a, b⟩ := horph o ho
      refine ⟨?_, b⟩
      rw [a]
      cases hgl : (first :: rest).getLast? with
      | none => simp only [Option.map_none, Option.getD_none]; omega
      | some t =>
        simp only [Option.map_some, Option.getD_some]
        exact (hfacts t (List.mem_of_getLast? hgl)).2.2
    generalize onCloseParagraph x src (.mk { l with stop := e' } [] (first :: rest)) = out at hg hsh hrem
    obtain ⟨Pb, pre, hPb, hpre, hcases⟩ := hsh
    have hfirst : lo ≤ first.label.start := by
      rw [BSp.InlsOK_cons] at hi; exact hi.1
    have hetn : ((e.toNat : Nat) : Int) = e := Int.toNat_of_nonneg (by omega)
    have hfn : ((first.label.start.toNat : Nat) : Int) = first.label.start := Int.toNat_of_nonneg (by omega)
    have hPbe : (Pb : Int) ≤ e' := by omega
    have hpreb : ∀ c ∈ pre, lo ≤ c.label.stop ∧ c.label.stop ≤ (Pb : Int) := by
      intro c hc
      have := hpre.1 c hc
      omega
    have hstop : ({ l with stop := e' } : PLabel).stop = e' := rfl
    rw [hstop] at hcases
    -- a link reference definition among the results
    have hdefleaf : ∀ c ∈ out, c.kind = BK.linkRefDef → LeafRes setx c := by
      intro c hc hkc
      exact mem_of_para3 (k0 := BK.linkRefDef) (hg c hc).1 (hg c hc).2 (Or.inl hkc) (fun h => absurd h (by decide))
    -- the blocks before the last one are definitions
    have hpreleaf : ∀ c ∈ pre, c ∈ out → LeafRes setx c := by
      intro c hc hco
      have hb := hpreb c hc
      rcases hrem c hco with hkc | ho | hr
      · exact hdefleaf c hco hkc
      · have := (horphs c ho).2
        omega
      · have : c.label.stop = e' := hr.2.1
        omega
    rcases hcases with ⟨rfl, _⟩ | ⟨last, rfl, hlast⟩ | ⟨o, rfl, hne, _, hor⟩
    · exact ShL_po (pre_ShL h0 (fun c hc => hpreleaf c hc hc) hpreb hpre.2 hPbe).1
    · have hl1 : ∀ c ∈ pre, LeafRes setx c := fun c hc => hpreleaf c hc (by simp [hc])
      have r := pre_ShL (setx := setx) (src := src) (e := e') h0 hl1 hpreb hpre.2 hPbe
      rw [ShL_snoc]
      have hthr : thr lo pre ≤ e := by have := r.2; omega
      refine ⟨r.1, ?_, fun _ => rfl⟩
      rcases hrem last (by simp) with hkc | ho | hr
      · exact leafRes_closed (hdefleaf last (by simp) hkc) (by omega) (by omega) (by omega)
      · have := (horphs last ho).2
        omega
      · exact hhead last _ hthr hr
    · have hl1 : ∀ c ∈ pre, LeafRes setx c := fun c hc => hpreleaf c hc (by simp [hc])
      have r := pre_ShL (setx := setx) (src := src) (e := e') h0 hl1 hpreb hpre.2 hPbe
      rw [ShL_snoc]
      refine ⟨r.1, ?_, fun _ => rfl⟩
      -- the orphan: an open paragraph with one inline child that starts after the definitions
      have hostart : o.label.start ≤ e' := by
        rcases hrem o (by simp) with hkc | ho | hr
        · have : o.label.kind = BK.linkRefDef := hkc
          rw [hor.kind] at this
          exact absurd this (by decide)
        · have := (horphs o ho).1
          omega
        · have : o.label.kind = BK.setextHeading := by rw [← hk]; exact hr.1
          rw [hor.kind] at this
          exact absurd this (by decide)
      obtain ⟨lb, bsb, isb⟩ := o
      obtain ⟨t, hti, ht1, ht2, ht3⟩ := hor.inl
      have hbsb : bsb = [] := hor.nokids
      have hisb : isb = [t] := hti
      have hkb : lb.kind = BK.paragraph := hor.kind
      have hsb : lb.stop < 0 := hor.stop
      subst hbsb hisb
      have hloPb : lo ≤ (Pb : Int) := by
        cases pre with
        | nil => exact absurd rfl hne
        | cons c0 _ => have := hpreb c0 (by simp); omega
      have hthr : thr lo pre ≤ t.label.start := by have := r.2; omega
      rw [Sh_mk]
      refine ⟨?_, ShL_nil _ _ _ _ _⟩
      obtain ⟨s1, s2⟩ := leafRes_shape (setx := setx) (src := src) (e := e') (l := lb) (Or.inr (Or.inl hkb))
      rw [nodeOK_iff, kindOK_iff, textOK_iff, openOK_iff]
      refine ⟨by omega, fun hc => (by omega), fun hs => (by rw [s1] at hs; cases hs), s2, fun _ _ => ⟨rfl, ?_⟩,
        fun _ => ⟨by rw [hkb]; decide, hostart, Or.inl ⟨by rw [hkb]; rfl, by simp⟩⟩⟩
      rw [BSp.InlsOK_cons]
      exact ⟨hthr, ht2, by omega, BSp.InlsOK_nil _ _⟩

end CM.Proofs.Shp
