import CM.Proofs.EolRd4
/-
C14 (a), the paragraph hook under the position map — part 5: the translated byte, one step with its fuel measure, and the
simple scanners `skipLinkSpace`, `skipSpacesAndTabs`, `readEOL`.

Every simulation lemma has the same shape: for a normalised reader `r` (`RJ`) and enough fuel on both sides (`mu … < f`), the
scanner on the re-written source from `mapRd r` returns the image of what the scanner returns from `r`.
-/
namespace CM.Proofs.ERd
open CM CM.Model CM.Gen CM.Proofs CM.Proofs.RDS CM.Proofs.BSp

/-! ### The translated byte -/

theorem trB_cases {e : Bytes} (he : StdEol e) (c : UInt8) :
    (c = LF ∧ (trB e c = LF ∨ trB e c = CR)) ∨ (c ≠ LF ∧ trB e c = c) := by
  unfold trB
  by_cases h : c = LF
  · left; rw [if_pos h]; exact ⟨h, (e_head he).2⟩
  · right; rw [if_neg h]; exact ⟨h, rfl⟩

theorem trB_zero {e : Bytes} (he : StdEol e) (c : UInt8) : (trB e c == 0) = (c == 0) := by
  rcases trB_cases he c with ⟨h1, h2 | h2⟩ | ⟨_, h2⟩
  · rw [h2, h1]
  · rw [h2, h1]; decide
  · rw [h2]

theorem trB_ws {e : Bytes} (he : StdEol e) (c : UInt8) : isSpaceTabOrLineEnding (trB e c) = isSpaceTabOrLineEnding c := by
  rcases trB_cases he c with ⟨h1, h2 | h2⟩ | ⟨_, h2⟩
  · rw [h2, h1]
  · rw [h2, h1]; decide
  · rw [h2]

theorem trB_ctl {e : Bytes} (he : StdEol e) (c : UInt8) : isASCIIControl (trB e c) = isASCIIControl c := by
  rcases trB_cases he c with ⟨h1, h2 | h2⟩ | ⟨_, h2⟩
  · rw [h2, h1]
  · rw [h2, h1]; decide
  · rw [h2]

theorem trB_punct {e : Bytes} (he : StdEol e) (c : UInt8) : isASCIIPunctuation (trB e c) = isASCIIPunctuation c := by
  rcases trB_cases he c with ⟨h1, h2 | h2⟩ | ⟨_, h2⟩
  · rw [h2, h1]
  · rw [h2, h1]; decide
  · rw [h2]

/-- Comparison with a byte that is not a line ending. -/
theorem trB_beq {e : Bytes} (he : StdEol e) (c b : UInt8) (h1 : b ≠ LF) (h2 : b ≠ CR) : (trB e c == b) = (c == b) := by
  rcases trB_cases he c with ⟨a1, a2 | a2⟩ | ⟨_, a2⟩
  · rw [a2, a1]
  · rw [a2, a1]
    have : (CR == b) = false := by simpa using Ne.symm h2
    have : (LF == b) = false := by simpa using Ne.symm h1
    simp [*]
  · rw [a2]

theorem trB_bne {e : Bytes} (he : StdEol e) (c b : UInt8) (h1 : b ≠ LF) (h2 : b ≠ CR) : (trB e c != b) = (c != b) := by
  simp only [bne, trB_beq he c b h1 h2]

section
variable {e X : Bytes} {k : Nat} {is : List Tree} {r : Rd}

/-- The reader never sees a carriage return in a CR-free source. -/
theorem cur_ne_CR (hcr : NoCR X) (hc : Ctx (X.take k) is) (h : RI (X.take k) is r) : (r.current (X.take k)).1 ≠ CR := by
  rw [current_val hc h]
  have hraw : raw (X.take k) r ≠ CR := by
    unfold raw
    split
    · rcases Nat.lt_or_ge r.vpos 3 with hv | hv
      · exact (nullRepl_ne_zero hv).2.2.1
      · rw [nullRepl_ge hv]; decide
    · rename_i hz
      intro hcr'
      by_cases hp : r.pos < (X.take k).length
      · have hm : (X.take k).getD r.pos 0 ∈ X.take k := by
          rw [List.getD_eq_getElem?_getD, List.getElem?_eq_getElem hp]; exact List.getElem_mem hp
        exact noCR_take hcr k _ hm hcr'
      · have : (X.take k).getD r.pos 0 = 0 := by
          rw [List.getD_eq_getElem?_getD, List.getElem?_eq_none (by omega)]; rfl
        rw [this] at hcr'; exact absurd hcr' (by decide)
  split
  · decide
  · split
    · split
      · decide
      · exact hraw
    · exact hraw

/-- `c` is CR or LF exactly when the translated byte is. -/
theorem trB_eol (he : StdEol e) (c : UInt8) : (trB e c == CR || trB e c == LF) = (c == CR || c == LF) := by
  rcases trB_cases he c with ⟨a1, a2 | a2⟩ | ⟨a1, a2⟩
  · rw [a2, a1]
  · rw [a2, a1]; decide
  · rw [a2]

/-- **One `next` on both sides, with the measures.** -/
theorem step_full (he : StdEol e) (hcr : NoCR X) (hc : Ctx (X.take k) is) (htab : TabsOK (X.take k) is)
    (h : RJ (X.take k) is r) :
    RJ (X.take k) is (r.next (X.take k)).2 ∧
    ((r.next (X.take k)).1 = true → mu (X.take k) (r.next (X.take k)).2 < mu (X.take k) r) ∧
    ((Rd.next (toEol e (X.take k)) (mapRd e X r) = ((r.next (X.take k)).1, mapRd e X (r.next (X.take k)).2) ∧
      ((r.next (X.take k)).1 = true →
        mu (toEol e (X.take k)) (mapRd e X (r.next (X.take k)).2) < mu (toEol e (X.take k)) (mapRd e X r))) ∨
     ((r.current (X.take k)).1 = LF ∧ e = [CR, LF] ∧
      Rd.next (toEol e (X.take k)) (mapRd e X r) = (true, mid e X r) ∧
      RI (toEol e (X.take k)) (mapTrees (eolPosZ e X) is) (mid e X r) ∧
      Rd.current (toEol e (X.take k)) (mid e X r) = (LF, mid e X r) ∧
      Rd.next (toEol e (X.take k)) (mid e X r) = ((r.next (X.take k)).1, mapRd e X (r.next (X.take k)).2) ∧
      mu (toEol e (X.take k)) (mid e X r) < mu (toEol e (X.take k)) (mapRd e X r) ∧
      ((r.next (X.take k)).1 = true →
        mu (toEol e (X.take k)) (mapRd e X (r.next (X.take k)).2) < mu (toEol e (X.take k)) (mid e X r)) ∧
      AtLF (X.take k) r)) := by
  have hc' := ctx_map (e := e) he hcr hc htab
  have h' := ri_map (e := e) h.1
  refine ⟨h.next hc, (next_spec hc h.1).2.2.2.2.2.1, ?_⟩
  rcases step_cases he hcr hc htab h with s | ⟨s1, s2, s3, s4, s5, s6, s7⟩
  · left
    refine ⟨s, fun hok => ?_⟩
    have := (next_spec hc' h').2.2.2.2.2.1
    rw [s] at this
    exact this hok
  · right
    refine ⟨s1, s2, s3, s4, s5, s6, ?_, fun hok => ?_, s7⟩
    · have := (next_spec hc' h').2.2.2.2.2.1
      rw [s3] at this
      exact this rfl
    · have := (next_spec hc' s4).2.2.2.2.2.1
      rw [s6] at this
      exact this hok

/-! ### `skipLinkSpace` -/

theorem skipLinkSpace_sim (he : StdEol e) (hcr : NoCR X) (hc : Ctx (X.take k) is) (htab : TabsOK (X.take k) is) :
    ∀ (f f' : Nat) (r : Rd), RJ (X.take k) is r → mu (X.take k) r < f → mu (toEol e (X.take k)) (mapRd e X r) < f' →
      skipLinkSpace (toEol e (X.take k)) f' (mapRd e X r) =
        ((skipLinkSpace (X.take k) f r).1, mapRd e X (skipLinkSpace (X.take k) f r).2) ∧
      RJ (X.take k) is (skipLinkSpace (X.take k) f r).2 := by
  intro f
  induction f with
  | zero => intro f' r _ hm; omega
  | succ f ih =>
    intro f' r h hm hm'
    obtain ⟨g, rfl⟩ : ∃ g, f' = g + 1 := ⟨f' - 1, by omega⟩
    have hcur := h.cur hc
    have hcur' := current_map_eq (e := e) he hcr hc htab h.1
    obtain ⟨j1, m1, st⟩ := step_full he hcr hc htab h
    rw [skipLinkSpace, skipLinkSpace, hcur, hcur']
    simp only []
    rw [trB_zero he, trB_ws he]
    split
    · exact ⟨rfl, h⟩
    · split
      · rename_i hws
        rcases hn : r.next (X.take k) with ⟨ok, r1⟩
        rw [hn] at j1 m1 st
        simp only [] at j1 m1 st
        rcases st with ⟨s, ms⟩ | ⟨_, _, s3, s4, s5, s6, ms1, ms2, _hat⟩
        · rw [s]
          simp only []
          cases ok with
          | false => exact ⟨rfl, j1⟩
          | true =>
            simp only [Bool.not_true, Bool.false_eq_true, if_false]
            have := m1 rfl
            have := ms rfl
            exact ih g r1 j1 (by omega) (by omega)
        · rw [s3]
          simp only [Bool.not_true, Bool.false_eq_true, if_false]
          obtain ⟨g2, rfl⟩ : ∃ g2, g = g2 + 1 := ⟨g - 1, by omega⟩
          rw [skipLinkSpace, s5]
          simp only []
          rw [if_neg (by decide), if_pos (by decide), s6]
          simp only []
          cases ok with
          | false => exact ⟨rfl, j1⟩
          | true =>
            simp only [Bool.not_true, Bool.false_eq_true, if_false]
            have := m1 rfl
            have := ms2 rfl
            exact ih g2 r1 j1 (by omega) (by omega)
      · exact ⟨rfl, h⟩

/-! ### `skipSpacesAndTabs` -/

theorem skipSpacesAndTabs_sim (he : StdEol e) (hcr : NoCR X) (hc : Ctx (X.take k) is) (htab : TabsOK (X.take k) is) :
    ∀ (f f' : Nat) (r : Rd), RJ (X.take k) is r → mu (X.take k) r < f → mu (toEol e (X.take k)) (mapRd e X r) < f' →
      skipSpacesAndTabs (toEol e (X.take k)) f' (mapRd e X r) =
        ((skipSpacesAndTabs (X.take k) f r).1, mapRd e X (skipSpacesAndTabs (X.take k) f r).2) ∧
      RJ (X.take k) is (skipSpacesAndTabs (X.take k) f r).2 := by
  intro f
  induction f with
  | zero => intro f' r _ hm; omega
  | succ f ih =>
    intro f' r h hm hm'
    obtain ⟨g, rfl⟩ : ∃ g, f' = g + 1 := ⟨f' - 1, by omega⟩
    have hcur := h.cur hc
    have hcur' := current_map_eq (e := e) he hcr hc htab h.1
    obtain ⟨j1, m1, st⟩ := step_full he hcr hc htab h
    rw [skipSpacesAndTabs, skipSpacesAndTabs, hcur, hcur']
    simp only []
    rw [trB_beq he _ SP (by decide) (by decide), trB_beq he _ TAB (by decide) (by decide)]
    split
    · rename_i hst
      have hne : (r.current (X.take k)).1 ≠ LF := by
        intro hh; rw [hh] at hst; exact absurd hst (by decide)
      rcases hn : r.next (X.take k) with ⟨ok, r1⟩
      rw [hn] at j1 m1 st
      simp only [] at j1 m1 st
      rcases st with ⟨s, ms⟩ | ⟨s1, _⟩
      · rw [s]
        simp only []
        cases ok with
        | false => exact ⟨rfl, j1⟩
        | true =>
          simp only [Bool.not_true, Bool.false_eq_true, if_false]
          have := m1 rfl
          have := ms rfl
          exact ih g r1 j1 (by omega) (by omega)
      · exact absurd s1 hne
    · refine ⟨?_, h⟩
      simp only [bne, trB_zero he]

end

end CM.Proofs.ERd
