import CM.Proofs.InlShapeSiteBracket
/-
The `SiteInv` chain, part 4: the tokenizer `parseRun`, the outer loop `parseBody`, and the export to trees.
-/
namespace CM.Proofs.InlH
open CM CM.Model CM.Model.Inl
open Std.Do

set_option mvcgen.warning false

section
variable {c : ICtx} {φ : INode → Prop}

/-- `spanEnd` only depends on `unparsedPos`. -/
theorem spanEndOf_congr (c : ICtx) {s s' : IState} (h : s.unparsedPos = s'.unparsedPos) :
    spanEndOf c s = spanEndOf c s' := by
  unfold spanEndOf; rw [h]

set_option maxHeartbeats 800000 in
@[spec 20000]
theorem parseRun_specT (hN : SiteInv c φ) :
    ⦃fun s => ⌜G φ s⌝⦄ parseRun c ⦃⇓? _ s => ⌜G φ s⌝⦄ := by
  mvcgen [parseRun, spanEnd, isLastSpan, addText, alloc, pushStack, setIgnoreNextIndent, setUnparsedPos, -parseRun_spec, -parseRun_specS]
  inl_inv (G φ)
  inl_norm
  inl_triv
  all_goals first
    | (intro _
       first
        | exact hN.text _ _
        | (have hb := ‹(_ : IState) = _ ∧ (0 : Int) ≤ _ ∧ _ < _ ∧ (_ : UInt8) = _›
           obtain ⟨-, h0, h1, hr⟩ := hb
           first
            | (have hg := ‹_ ∧ (_ = true → _)›
               have hg2 := hg.2 ‹_ = true›
               exact hN.softBreak2 _ h0 hg2.2.2.1 (by rw [← hr]; simpa using ‹(_ == CR) = true›) hg2.2.2.2)
            | exact hN.softBreak1 _ h0 h1 (Or.inl (by rw [← hr]; simpa using ‹(_ == LF) = true›))
            | exact hN.softBreak1 _ h0 h1 (Or.inr (by rw [← hr]; simpa using ‹(_ == CR) = true›))
            | fail "softBreak")
        | (have hsl := ‹_ ∧ _ ∧ _ ∧ _ ∧ _ = Array.toList _›
           obtain ⟨-, h0, h1, h2, rfl⟩ := hsl
           exact hN.charRef _ _ _ h0 h1 h2 (by omega) rfl)
        | (have hsl := ‹_ ∧ _ ∧ _ ∧ _ ∧ _ = Array.toList _›
           obtain ⟨hs1, h0, h1, h2, rfl⟩ := hsl
           have hc := ‹(_ && !decide (_ ≥ _)) = true›
           simp only [Bool.and_eq_true, Bool.not_eq_true', decide_eq_false_iff_not, Nat.not_le] at hc
           have hs2 := ‹(_ : IState) = _ ∧ (0 : Int) ≤ _ ∧ _ < _ ∧ (_ : UInt8) = _›
           rw [hs1, hs2.1] at hc
           exact hN.hardBreakSP _ _ hc.2 h0 h1 h2 hc.1)
        | fail "leaf")
    | (refine ⟨trivial, ?_⟩
       inl_subst; subst_vars; inl_state
       refine GA.push (by first | exact ‹G φ _› | exact (‹G φ _ ∧ _›).1) ?_
       first
        | exact hN.text _ _
        | (have hsl := ‹_ ∧ _ ∧ _ ∧ _ = Array.toList _›
           obtain ⟨h0, h1, h2, rfl⟩ := hsl
           simp -failIfUnchanged +zetaDelta only []
           exact hN.autolink _ _ _ h0 h1 h2 ‹_ ≥ _› rfl)
        | (have hb := ‹(0 : Int) ≤ _ ∧ _ < _ ∧ (_ : UInt8) = _›
           obtain ⟨h0, h1, hr⟩ := hb
           have hv := ‹¬(!SpanI.isValid _) = true›
           simp only [Bool.not_eq_true', Bool.not_eq_false, Bool.not_eq_true] at hv
           simp -failIfUnchanged +zetaDelta only []
           exact hN.htmlTag _ _ h0 h1 (by rw [← hr]; simpa using ‹(_ == (60 : UInt8)) = true›) hv)
        | fail "alloc")
    | (have hx := ‹G φ _ ∧ KExt _ _›
       obtain ⟨h, he⟩ := hx
       inl_state
       exact GA.pushStack h ((KindP.push_new (P := (· = IK.text)) rfl).ext he))
    | (inl_subst; subst_vars; first | assumption | (inl_state; assumption) | fail "G")
    | (have hb := ‹(_ : IState) = _ ∧ (0 : Int) ≤ _ ∧ _ < _ ∧ (_ : UInt8) = _›
       obtain ⟨-, h0, h1, hr⟩ := hb
       first
        | exact h0
        | exact h1
        | (rw [← hr]; simpa using ‹(_ == (92 : UInt8)) = true›)
        | (have hG := ‹G φ _ ∧ _ = _›
           refine ⟨hG.1, ?_⟩
           rw [spanEndOf_congr c hG.2, spanEndOf_congr c (congrArg IState.unparsedPos ‹(_ : IState) = _ ∧ (0 : Int) ≤ _ ∧ _›.1)]
           have hl := ‹¬(!(decide (_ < _) && decide (_ < _))) = true›
           simp only [Bool.not_eq_true', Bool.not_eq_false, Bool.and_eq_true, decide_eq_true_eq] at hl
           exact hl.2)
        | (refine ⟨?_, ?_⟩
           · first
              | exact ⟨_, (‹_ ∧ CodeSpanOf _ _ _›).2, h0, h1, by rw [← hr]; simpa using ‹(_ == (96 : UInt8)) = true›⟩
              | fail "hcs"
           · assumption)
        | fail "args")
    | skip

theorem imported_okT (hN : SiteInv c φ) (i : Nat) (hi : ¬(!decide (i < c.unparsed.size)) = true)
    (h2 : ¬((c.unparsed[i]!).label.isBlock || (c.unparsed[i]!).label.kind == 0) = true)
    (h3 : (c.unparsed[i]!).label.kind ≠ IK.unparsed) : φ (ofTree (c.unparsed[i]!)) := by
  have hi' : i < c.unparsed.size := by simpa using hi
  simp only [Bool.or_eq_true, beq_iff_eq, not_or] at h2
  refine hN.imported _ ?_ (by simpa using h2.1) h2.2 h3
  rw [getElem!_pos c.unparsed i hi']
  exact Array.getElem_mem hi'

@[spec 20000]
theorem parseBody_specT (hN : SiteInv c φ) :
    ⦃fun s => ⌜G φ s⌝⦄ parseBody c ⦃⇓? _ s => ⌜G φ s⌝⦄ := by
  mvcgen [parseBody, setIgnoreNextIndent, setUnparsedPos, -parseBody_spec, -parseBody_specS]
  inl_inv (G φ)
  inl_norm
  inl_triv
  · refine imported_okT hN _ ‹_› ‹_› ?_
    have hk := ‹(_ == IK.indent) = true›
    simp only [beq_iff_eq] at hk
    rw [hk]; decide
  · refine imported_okT hN _ ‹_› ‹_› ?_
    have hk := ‹¬(_ == IK.unparsed) = true›
    simpa using hk

end

open CM.Spec in
/-- THE GENERIC THEOREM for `SiteInv` (strong form: no export markers): every node (at any depth) of every tree
    `parseInlines` returns comes from an arena node satisfying `φ`. -/
theorem parseInlines_nodes_site (x : IExt) (src : Bytes) (srcA : Array UInt8) (matchRef : Bytes → Bool)
    (cstart cstop : Int) (unparsed : List Tree) (φ : INode → Prop)
    (hN : SiteInv (inlCtx x src srcA matchRef unparsed) φ)
    (hroot : φ { kind := 0, start := cstart, stop := cstop })
    (kids : List Tree) (h : parseInlines x src srcA matchRef cstart cstop unparsed = .ok kids) :
    ∀ t ∈ T.nodesL kids, FromNode φ t := by
  unfold parseInlines at h
  simp only [] at h
  split at h
  · cases h
  · rename_i u s hrun
    have hk : kids = (exportNode s.nodes (s.nodes.size + 1) 0).children := by
      cases h; rfl
    have hG0 : G φ { nodes := #[{ kind := 0, start := cstart, stop := cstop }], parentMap := #[none] } :=
      ⟨ANodes.singleton hroot, StackOK.empty, ⟨by simp, rfl⟩⟩
    have hS0 : S { nodes := #[{ kind := 0, start := cstart, stop := cstop }], parentMap := #[none] } :=
      ⟨Acyc.singleton _ rfl, by simp, PMOK.empty _⟩
    have hG : G φ s := triple_run (parseBody_specT (c := inlCtx x src srcA matchRef unparsed) hN) hG0 hrun
    have hS : S s := triple_run (parseBody_specS (c := inlCtx x src srcA matchRef unparsed)) hS0 hrun
    obtain ⟨f, hd, hb⟩ := hS.acyc
    intro t ht
    rw [hk] at ht
    have := hb 0 hS.pos
    exact exportNode_noMarker hG.nodes hd _ 0 hS.pos (by omega) t (nodesL_children_sub ht)

end CM.Proofs.InlH
