import CM.Proofs.InlCoverOps
import CM.Proofs.InlSpanRewrite
/-
C03, inline half — the coverage invariants of the state: the nodes on the delimiter stack contain no needed byte
(`StkNN`), the needed bytes of the runs below a position are covered (`CovBelow`), and the elementary steps of the
tokenizer on them.
-/
namespace CM.Proofs.InlH
open CM CM.Model CM.Model.Inl CM.Gen CM.Spec
open Std.Do

/-- position `j` lies in one of the Unparsed runs handed to the inline phase -/
def InRun (c : ICtx) (j : Int) : Prop :=
  ∃ i, i < c.unparsed.size ∧ (c.unparsed[i]!).label.isBlock = false ∧ (c.unparsed[i]!).label.kind = IK.unparsed ∧
    (c.unparsed[i]!).label.start ≤ j ∧ j < (c.unparsed[i]!).label.stop

/-- the delimiter nodes contain no needed byte -/
def StkNN (c : ICtx) (s : IState) : Prop := ∀ k ∈ stkOf s, NoNeed c (s.nodes[k]!).start (s.nodes[k]!).stop

/-- the needed bytes of the runs in `[lo, hi)` are covered -/
def CovSeg (c : ICtx) (a : Array INode) (lo hi : Int) : Prop :=
  ∀ j, lo ≤ j → j < hi → InRun c j → NeedAt c j → CovA a j

/-- the needed bytes of the runs below `G` are covered -/
def CovBelow (c : ICtx) (a : Array INode) (G : Int) : Prop := ∀ j, j < G → InRun c j → NeedAt c j → CovA a j

theorem CovBelow.step {c : ICtx} {a a' : Array INode} {G G' : Int} (h : CovBelow c a G) (hk : Keep c a a')
    (hs : CovSeg c a' G G') : CovBelow c a' G' := by
  intro j hj hr hn
  rcases Int.lt_or_le j G with hlt | hge
  · exact hk j hn (h j hlt hr hn)
  · exact hs j hge hj hr hn

theorem CovBelow.keep {c : ICtx} {a a' : Array INode} {G : Int} (h : CovBelow c a G) (hk : Keep c a a') :
    CovBelow c a' G := fun j hj hr hn => hk j hn (h j hj hr hn)

theorem CovBelow.mono {c : ICtx} {a : Array INode} {G G' : Int} (h : CovBelow c a G) (hg : G' ≤ G) :
    CovBelow c a G' := fun j hj hr hn => h j (by omega) hr hn

theorem CovSeg.of_noNeed {c : ICtx} {a : Array INode} {lo hi : Int} (h : NoNeed c lo hi) : CovSeg c a lo hi :=
  fun j h1 h2 _ hn => absurd hn (h j h1 h2)

theorem CovSeg.empty {c : ICtx} {a : Array INode} {lo hi : Int} (h : hi ≤ lo) : CovSeg c a lo hi :=
  fun j h1 h2 _ _ => by omega

theorem CovSeg.append {c : ICtx} {a : Array INode} {lo m hi : Int} (h1 : CovSeg c a lo m) (h2 : CovSeg c a m hi) :
    CovSeg c a lo hi := by
  intro j hl hh hr hn
  rcases Int.lt_or_le j m with hlt | hge
  · exact h1 j hl hlt hr hn
  · exact h2 j hge hh hr hn

theorem CovSeg.keep {c : ICtx} {a a' : Array INode} {lo hi : Int} (h : CovSeg c a lo hi) (hk : Keep c a a') :
    CovSeg c a' lo hi := fun j h1 h2 hr hn => hk j hn (h j h1 h2 hr hn)

theorem CovSeg.sub {c : ICtx} {a : Array INode} {lo hi lo' hi' : Int} (h : CovSeg c a lo hi) (h1 : lo ≤ lo')
    (h2 : hi' ≤ hi) : CovSeg c a lo' hi' := fun j a1 a2 hr hn => h j (by omega) (by omega) hr hn

/-- a byte that is not a letter, a digit or ≥ 0x80 -/
theorem noNeed_byte {c : ICtx} {p : Int} (h : needsCover (c.srcA[p.toNat]!) = false) : NoNeed c p (p + 1) := by
  intro j h1 h2 hn
  have : j = p := by omega
  subst this
  rw [hn.2] at h; cases h

/-! ### the stack nodes when the arena grows -/

theorem StkNN.of_same {c : ICtx} {s s' : IState} (h : StkNN c s) (hst : ∀ k ∈ stkOf s', k ∈ stkOf s)
    (hsp : ∀ k ∈ stkOf s', (s.nodes[k]!).start ≤ (s'.nodes[k]!).start ∧ (s'.nodes[k]!).stop ≤ (s.nodes[k]!).stop) :
    StkNN c s' := fun k hk => (h k (hst k hk)).sub (hsp k hk).1 (hsp k hk).2

/-- `alloc n; modifyNode 0 (kids.push id)` -/
theorem cov_addRoot {c : ICtx} {lo hi F : Int} {s s' : IState} (hsp : SPT lo hi F s) (hnn : StkNN c s) (n : INode)
    (hn : s'.nodes = addRootA s.nodes n) (hst : s'.stack = s.stack) :
    StkNN c s' ∧ Keep c s.nodes s'.nodes ∧ ∀ j, CovN n j → CovA s'.nodes j := by
  have h0 := hsp.1.pos
  have hstk : stkOf s' = stkOf s := by unfold stkOf; rw [hst]
  refine ⟨?_, ?_, ?_⟩
  · refine hnn.of_same (fun k hk => by rw [← hstk]; exact hk) fun k hk => ?_
    rw [hstk] at hk
    have hp := hsp.1.plain k hk
    rw [hn, addRootA_lt n (Nat.pos_of_ne_zero hp.ne0) hp.lt]
    exact ⟨Int.le_refl _, Int.le_refl _⟩
  · rw [hn, addRootA_eq]
    exact (KeepX.addKid c 0 n h0 (Or.inl rfl)).keep
  · intro j hc
    rw [hn, addRootA_eq]
    exact (CovAx.addKid_new 0 n h0 (Path.refl 0) (by omega) hc).covA

/-- …with a push on the delimiter stack of a node without needed bytes -/
theorem cov_addRootPush {c : ICtx} {lo hi F : Int} {s s' : IState} (hsp : SPT lo hi F s) (hnn : StkNN c s) (n : INode)
    (e : DelimElem) (hn : s'.nodes = addRootA s.nodes n) (hst : s'.stack = s.stack.push ⟨e, s.nodes.size⟩)
    (hno : NoNeed c n.start n.stop) :
    StkNN c s' ∧ Keep c s.nodes s'.nodes ∧ ∀ j, CovN n j → CovA s'.nodes j := by
  have h0 := hsp.1.pos
  have hstk : stkOf s' = stkOf s ++ [s.nodes.size] := by unfold stkOf; rw [hst]; simp
  refine ⟨?_, ?_, ?_⟩
  · intro k hk
    rw [hstk] at hk
    rcases List.mem_append.1 hk with hk | hk
    · have hp := hsp.1.plain k hk
      rw [hn, addRootA_lt n (Nat.pos_of_ne_zero hp.ne0) hp.lt]
      exact hnn k hk
    · simp at hk; subst hk
      rw [hn, addRootA_new n h0]; exact hno
  · rw [hn, addRootA_eq]
    exact (KeepX.addKid c 0 n h0 (Or.inl rfl)).keep
  · intro j hc
    rw [hn, addRootA_eq]
    exact (CovAx.addKid_new 0 n h0 (Path.refl 0) (by omega) hc).covA

/-- a childless node without finished sub-trees covers its span -/
theorem CovN.leaf {n : INode} (hk : n.kids = #[]) (hs : n.sub = []) {j : Int} (h1 : n.start ≤ j) (h2 : j < n.stop) :
    CovN n j := Or.inl ⟨hk, hs, h1, h2⟩

/-- `cov_addRoot` for a leaf -/
theorem cov_addLeaf {c : ICtx} {lo hi F : Int} {s s' : IState} (hsp : SPT lo hi F s) (hnn : StkNN c s) (n : INode)
    (hk : n.kids = #[]) (hs : n.sub = []) (hn : s'.nodes = addRootA s.nodes n) (hst : s'.stack = s.stack)
    {a e : Int} (ha : n.start = a) (he : n.stop = e) :
    StkNN c s' ∧ Keep c s.nodes s'.nodes ∧ ∀ j, a ≤ j → j < e → CovA s'.nodes j := by
  obtain ⟨g1, g2, g3⟩ := cov_addRoot hsp hnn n hn hst
  subst ha he
  exact ⟨g1, g2, fun j h1 h2 => g3 j (CovN.leaf hk hs h1 h2)⟩

/-- `cov_addRootPush` for a leaf -/
theorem cov_addLeafPush {c : ICtx} {lo hi F : Int} {s s' : IState} (hsp : SPT lo hi F s) (hnn : StkNN c s) (n : INode)
    (e : DelimElem) (hk : n.kids = #[]) (hs : n.sub = []) (hn : s'.nodes = addRootA s.nodes n)
    (hst : s'.stack = s.stack.push ⟨e, s.nodes.size⟩) {a b : Int} (ha : n.start = a) (hb : n.stop = b)
    (hno : NoNeed c a b) :
    StkNN c s' ∧ Keep c s.nodes s'.nodes ∧ ∀ j, a ≤ j → j < b → CovA s'.nodes j := by
  subst ha hb
  obtain ⟨g1, g2, g3⟩ := cov_addRootPush hsp hnn n e hn hst hno
  exact ⟨g1, g2, fun j h1 h2 => g3 j (CovN.leaf hk hs h1 h2)⟩

/-- conjunction of two specifications -/
theorem triple_and {α} {P P1 P2 : IState → Prop} {m : IM α} {Q1 Q2 : α → IState → Prop}
    (h1 : ⦃fun s => ⌜P1 s⌝⦄ m ⦃⇓? r s => ⌜Q1 r s⌝⦄) (h2 : ⦃fun s => ⌜P2 s⌝⦄ m ⦃⇓? r s => ⌜Q2 r s⌝⦄)
    (hp : ∀ s, P s → P1 s ∧ P2 s) : ⦃fun s => ⌜P s⌝⦄ m ⦃⇓? r s => ⌜Q1 r s ∧ Q2 r s⌝⦄ :=
  Post.triple fun s hs => Post.and (Post.of_triple h1) (Post.of_triple h2) s (hp s hs)

end CM.Proofs.InlH
