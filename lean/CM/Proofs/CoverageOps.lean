import CM.Proofs.CoverageRecog
import CM.Proofs.BGOps
import CM.Proofs.BlocksSpansFrame
/-
C03, part B — the invariant `CI Q S L Z p` of the line parser inside a line, and how the cursor operations, `appendInline` and
`collectInline` transport it.

`CI Q S L Z p`: the working invariant `Inv` of `BlocksOps` (no panic, cursor, tree position); `line = source[lineStart:]`;
the tree is `WF Q`; and **every needed byte of the source before the cursor is covered by a leaf of the tree**.
A cursor move must skip only bytes that are not needed, unless the same step adds a leaf that covers them (`CI.step`).
-/
namespace CM.Proofs.Cov
open CM CM.Model CM.Gen CM.Spec CM.Spec.T CM.Proofs.BT
open CM.Proofs.BSp (ParaPred QT isContainerKind)

structure CI (Q : ParaPred) (S : Bytes) (L : Nat) (Z : Prop) (p : LP) : Prop where
  inv : Inv p
  src : p.line = p.source.drop p.lineStart
  ls : p.lineStart ≤ p.source.length
  eol : EolOK p.line
  wf : WF Q p.root
  cov : ∀ j, j < p.lineStart + p.i → need (p.source.getD j 0) = true → covPB p.root j = true
  seq : p.source = S
  leq : p.lineStart = L
  cons : p.state = 2 → p.i = p.line.length ∨ Z

theorem CI.line_length {Q : ParaPred} {p : LP} (h : CI Q S L Z p) : p.lineStart + p.line.length = p.source.length := by
  rw [h.src, List.length_drop]; have := h.ls; omega

theorem CI.line_getD {Q : ParaPred} {p : LP} (h : CI Q S L Z p) (m : Nat) : p.line.getD m 0 = p.source.getD (p.lineStart + m) 0 := by
  rw [h.src, getD_drop_add]

/-- **The general step.** The new state has the same source, line start and line, a well-formed tree that covers every
    needed position the old tree covered, the cursor has not moved backwards, and every needed byte the cursor has
    passed is covered. -/
theorem CI.step {Q Q' : ParaPred} {p p' : LP} (h : CI Q S L Z p) (hi : Inv p') (hsrc : p'.source = p.source)
    (hls : p'.lineStart = p.lineStart) (hline : p'.line = p.line) (hwf : WF Q' p'.root)
    (hle : Le (NP p.source) p.root p'.root)
    (hnew : ∀ m, p.i ≤ m → m < p'.i → need (p.line.getD m 0) = true → covPB p'.root (p.lineStart + m) = true)
    (hcons : p'.state = 2 → p'.i = p'.line.length ∨ Z) : CI Q' S L Z p' := by
  refine ⟨hi, by rw [hline, hsrc, hls]; exact h.src, by rw [hls, hsrc]; exact h.ls, by rw [hline]; exact h.eol, hwf, ?_,
    by rw [hsrc]; exact h.seq, by rw [hls]; exact h.leq, hcons⟩
  intro j hj hn
  rw [hsrc] at hn
  rw [hls] at hj
  have hlen := h.line_length
  have hi' := hi.cur.hi
  rw [hline] at hi'
  by_cases hlt : j < p.lineStart + p.i
  · exact hle j ⟨by have := h.inv.cur.hi; omega, hn⟩ (h.cov j hlt hn)
  · have e : j = p.lineStart + (j - p.lineStart) := by omega
    rw [e]
    apply hnew (j - p.lineStart) (by omega) (by omega)
    rw [h.line_getD, ← e]; exact hn

/-- A step that does not touch the tree: the bytes skipped are not needed. -/
theorem CI.cursor {Q : ParaPred} {p p' : LP} (h : CI Q S L Z p) (hi : Inv p') (ht : BT.tree p' = BT.tree p) (hline : p'.line = p.line)
    (hskip : ∀ m, p.i ≤ m → m < p'.i → need (p.line.getD m 0) = false)
    (hcons : p'.state = 2 → p'.i = p'.line.length ∨ Z) : CI Q S L Z p' := by
  simp only [BT.tree, Prod.mk.injEq] at ht
  obtain ⟨hs, hr, hd, hl⟩ := ht
  apply h.step hi hs hl hline (by rw [hr]; exact h.wf) (by rw [hr]; exact Le.refl _ _) _ hcons
  intro m h1 h2 hn
  rw [hskip m h1 h2] at hn; cases hn

/-- A step that only edits the tree. -/
theorem CI.edit {Q Q' : ParaPred} {p p' : LP} (h : CI Q S L Z p) (hi : Inv p') (hsrc : p'.source = p.source)
    (hls : p'.lineStart = p.lineStart) (hcur : BT.cur p' = BT.cur p) (hwf : WF Q' p'.root)
    (hle : Le (NP p.source) p.root p'.root) (hst : p'.state = 2 → p.state = 2) : CI Q' S L Z p' := by
  apply h.step hi hsrc hls (cur_line hcur) hwf hle
  · intro m h1 h2
    rw [cur_i hcur] at h2
    omega
  · intro h2
    rw [cur_i hcur, cur_line hcur]
    exact h.cons (hst h2)

theorem CI.mono {Q Q' : ParaPred} {p : LP} (h : CI Q S L Z p) (hq : ∀ l is, Q l is = true → Q' l is = true) : CI Q' S L Z p :=
  ⟨h.inv, h.src, h.ls, h.eol, WF.mono hq _ h.wf, h.cov, h.seq, h.leq, h.cons⟩

theorem CI.toQT {Q : ParaPred} {p : LP} (h : CI Q S L Z p) : CI QT S L Z p := h.mono (fun _ _ _ => rfl)

theorem CI.setState {Q : ParaPred} {p : LP} (h : CI Q S L Z p) (s : Nat) (hs : s = 2 → p.state = 2) : CI Q S L Z { p with state := s } :=
  ⟨h.inv.setState s, h.src, h.ls, h.eol, h.wf, h.cov, h.seq, h.leq, fun h2 => h.cons (hs h2)⟩

theorem mm_eq_two {s : Nat} (h : mm s = 2) : s = 2 := by
  unfold mm at h
  simp only [stateOpening, stateOpenMatched] at h
  by_cases h0 : s = 0
  · subst h0; simp at h
  · have : (s == 0) = false := by simp [h0]
    simpa [this] using h

theorem CI.setMM {Q : ParaPred} {p : LP} (h : CI Q S L Z p) : CI Q S L Z { p with state := mm p.state } :=
  h.setState _ mm_eq_two

/-- Setting a state other than "line consumed" makes the cursor clause hold outright. -/
theorem CI.fresh {Q : ParaPred} {p : LP} (h : CI Q S L Z p) (s : Nat) (hs : s ≠ 2) : CI Q S L False { p with state := s } :=
  ⟨h.inv.setState s, h.src, h.ls, h.eol, h.wf, h.cov, h.seq, h.leq, fun h2 => absurd h2 hs⟩

theorem CI.weaken {Q : ParaPred} {p : LP} (h : CI Q S L False p) : CI Q S L Z p :=
  ⟨h.inv, h.src, h.ls, h.eol, h.wf, h.cov, h.seq, h.leq, fun h2 => (h.cons h2).elim Or.inl False.elim⟩

theorem CI.toTrue {Q : ParaPred} {p : LP} (h : CI Q S L Z p) : CI Q S L True p :=
  ⟨h.inv, h.src, h.ls, h.eol, h.wf, h.cov, h.seq, h.leq, fun _ => Or.inr trivial⟩

theorem CI.setDepth {Q : ParaPred} {p : LP} (h : CI Q S L Z p) (d : Nat) (hd : d ≤ p.depth) : CI Q S L Z { p with depth := d } :=
  ⟨h.inv.setDepth d hd, h.src, h.ls, h.eol, h.wf, h.cov, h.seq, h.leq, h.cons⟩

/-! ### cursor operations -/

theorem sp_tab_not_need {c : UInt8} (h : c = SP ∨ c = TAB) : need c = false := by
  rcases h with h | h <;> subst h <;> decide +kernel

theorem CI.ofAdv {Q : ParaPred} {p p' : LP} {n : Nat} (h : CI Q S L Z p) (a : AdvPost p p' n)
    (hskip : ∀ m, p.i ≤ m → m < p.i + n → need (p.line.getD m 0) = false) : CI Q S L Z p' :=
  h.cursor (a.inv h.inv) a.tree a.line (fun m h1 h2 => hskip m h1 (by rw [a.i] at h2; exact h2)) (by
    intro h2
    have hp : p.state = 2 := by
      rw [a.state] at h2
      split at h2
      · exact h2
      · exact mm_eq_two h2
    rcases h.cons hp with h3 | h3
    · left
      have h4 := a.cur.hi
      rw [a.line] at h4 ⊢
      rw [a.i] at h4 ⊢
      omega
    · exact Or.inr h3)

/-- If dropping `k` bytes does not change what is left after the leading white space, the `k` bytes are white space. -/
theorem dropWhile_drop_ws (f : UInt8 → Bool) : ∀ (l : Bytes) (k : Nat), k ≤ l.length →
    l.dropWhile f = (l.drop k).dropWhile f → ∀ m, m < k → f (l.getD m 0) = true := by
  intro l
  induction l with
  | nil => intro k hk _ m hm; simp at hk; omega
  | cons c r ih =>
    intro k hk h m hm
    cases k with
    | zero => omega
    | succ k =>
      simp only [List.drop_succ_cons] at h
      by_cases hc : f c = true
      · rw [List.dropWhile_cons_of_pos hc] at h
        cases m with
        | zero => simpa using hc
        | succ m =>
          have := ih k (by simp at hk; omega) h m (by omega)
          simpa using this
      · exfalso
        rw [List.dropWhile_cons_of_neg hc] at h
        have h1 : ((r.drop k).dropWhile f).length ≤ (r.drop k).length := by
          have := (List.dropWhile_sublist f (l := r.drop k)).length_le
          exact this
        rw [← h] at h1
        simp only [List.length_cons, List.length_drop] at h1
        omega

/-- `consumeIndent` only skips spaces and tabs. -/
theorem ciPost_skip_ws {p p' : LP} {n : Nat} (c : CIPost p p' n) (m : Nat) (h1 : p.i ≤ m) (h2 : m < p'.i) :
    p.line.getD m 0 = SP ∨ p.line.getD m 0 = TAB := by
  have hb := c.bai
  unfold LP.bytesAfterIndent at hb
  rw [c.line] at hb
  have hi' := c.cur.hi
  rw [c.line] at hi'
  have e : p.line.drop p'.i = (p.line.drop p.i).drop (p'.i - p.i) := by
    rw [List.drop_drop]; congr 1; have := c.ige; omega
  rw [e] at hb
  have := dropWhile_drop_ws _ (p.line.drop p.i) (p'.i - p.i) (by simp only [List.length_drop]; omega) hb.symm (m - p.i) (by omega)
  rw [getD_drop_add] at this
  have e2 : p.i + (m - p.i) = m := by omega
  rw [e2] at this
  simpa using this

theorem CI.ofCI {Q : ParaPred} {p p' : LP} {n : Nat} (h : CI Q S L Z p) (c : CIPost p p' n) : CI Q S L Z p' :=
  h.cursor (c.inv h.inv) c.tree c.line (fun m h1 h2 => sp_tab_not_need (ciPost_skip_ws c m h1 h2)) (by
    intro h2
    have hp : p.state = 2 := by
      rw [c.state] at h2
      split at h2
      · exact h2
      · exact mm_eq_two h2
    rcases h.cons hp with h3 | h3
    · left
      have h4 := c.cur.hi
      have h5 := c.ige
      rw [c.line] at h4 ⊢
      omega
    · exact Or.inr h3)

theorem CI.ofCL {Q : ParaPred} {p p' : LP} (h : CI Q S L Z p) (c : CLPost p p')
    (hskip : ∀ m, p.i ≤ m → m < p.line.length → need (p.line.getD m 0) = false) : CI Q S L Z p' :=
  h.cursor (c.inv h.inv) c.tree c.line (fun m h1 h2 => hskip m h1 (by rw [c.i] at h2; exact h2))
    (fun _ => Or.inl (by rw [c.i, c.line]))

/-! ### appendInline -/

theorem appendInl_eq : (appendInl : Tree → PB → PB) = BG.appendInl := rfl

theorem appendInline_root' (p : LP) (t : Tree) : (p.appendInline t).root = spineModify (appendInl t) p.root p.depth := rfl

theorem container_get (p : LP) (h : TreeOK p) : spineGet p.root p.depth = some p.container := BG.container_eq p h.valid

/-- Appending an inline child to a block of a non-container kind that is not an open paragraph. -/
theorem appendInl_wf {Q Q' : ParaPred} (hq : ∀ l is, Q l is = true → Q' l is = true) (t : Tree) (c : PB) (h : WF Q c)
    (hnc : isContainerKind c.kind = false) (ht : inlOK t = true) (hch : t.children = [] ∨ c.kind ≠ BK.indentedCode)
    (hnp : c.kind ≠ BK.paragraph ∨ ∀ l is, Q' l is = true) : WF Q' (appendInl t c) := by
  obtain ⟨l, bs, is⟩ := c
  show WF Q' (.mk l bs (is ++ [t]))
  have hnc' : isContainerKind l.kind = false := hnc
  rw [WF_mk] at h ⊢
  obtain ⟨h1, h2, h3, h4⟩ := h
  refine ⟨⟨?_, h1.2⟩, ⟨?_, ?_⟩, ?_, fun b hb => WF.mono hq b (h4 b hb)⟩
  · have := h1.1
    rw [hnc'] at this ⊢
    simpa using this
  · intro u hu
    rw [List.mem_append] at hu
    rcases hu with hu | hu
    · exact h2.1 u hu
    · simp only [List.mem_singleton] at hu; subst hu; exact ht
  · intro hk u hu
    rw [List.mem_append] at hu
    rcases hu with hu | hu
    · exact h2.2 hk u hu
    · simp only [List.mem_singleton] at hu; subst hu
      rcases hch with hch | hch
      · exact hch
      · exact absurd hk hch
  · intro ho
    refine ⟨(h3 ho).1, fun hk => ?_⟩
    rcases hnp with hnp | hnp
    · exact absurd hk hnp
    · exact hnp _ _

/-- What `appendInline` does to the tree (the container is of a non-container kind). -/
theorem appendInline_tree {Q Q' : ParaPred} (hq : ∀ l is, Q l is = true → Q' l is = true) (N : Nat → Prop) (p : LP) (t : Tree)
    (hT : TreeOK p) (h : WF Q p.root) (hnc : isContainerKind p.containerKind = false) (ht : inlOK t = true)
    (hch : t.children = [] ∨ p.containerKind ≠ BK.indentedCode)
    (hnp : p.containerKind ≠ BK.paragraph ∨ ∀ l is, Q' l is = true) :
    WF Q' (p.appendInline t).root ∧ Le N p.root (p.appendInline t).root ∧
    (∀ j, covT t j = true → covPB (p.appendInline t).root j = true) := by
  rw [appendInline_root']
  have hg := container_get p hT
  have key := spineModify_ok (N := N) hq (appendInl t) p.depth p.root h (by
    intro c hc hcw
    rw [hg] at hc; cases hc
    refine ⟨appendInl_wf hq t _ hcw hnc ht hch hnp, appendInl_le N t _, ?_⟩
    generalize p.container = c
    obtain ⟨l, bs, is⟩ := c; rfl)
  refine ⟨key.1, key.2.1, ?_⟩
  intro j hj
  -- the new leaf shows through the spine
  have hcw := WF_spineGet p.depth p.root _ h hg
  have hbs : p.container.blocks = [] := by
    generalize hc : p.container = c at hcw hnc
    obtain ⟨l, bs, is⟩ := c
    have := (WF_mk.mp hcw).1.1
    have hnc' : isContainerKind l.kind = false := by
      have : p.containerKind = l.kind := by unfold LP.containerKind; rw [hc]; rfl
      rw [← this]; exact hnc
    rw [hnc'] at this
    show bs = []
    simpa using this
  have aux : ∀ (d : Nat) (b c : PB), spineGet b d = some c → c.blocks = [] →
      covPB (spineModify (appendInl t) b d) j = true := by
    intro d
    induction d with
    | zero =>
      intro b c hc hb
      rw [spineGet_zero] at hc; cases hc
      rw [spineModify_zero]
      obtain ⟨l, bs, is⟩ := b
      have : bs = [] := hb
      subst this
      exact appendInl_cov t l is j hj
    | succ d ih =>
      intro b c hc hb
      obtain ⟨l, bs, is⟩ := b
      rw [spineGet_succ] at hc
      rw [spineModify_succ]
      cases hgl : bs.getLast? with
      | none => rw [hgl] at hc; cases hc
      | some c0 =>
        rw [hgl] at hc
        simp only []
        have := ih c0 c hc hb
        rw [covPB_mk_blocks _ _ _ _ (by simp), covPBs_append, covPBs_cons, this]
        simp
  exact aux p.depth p.root _ hg hbs

/-- **Advance over `k` bytes and append an inline node that spans them.** -/
theorem advance_append_C {Q Q' : ParaPred} (hq : ∀ l is, Q l is = true → Q' l is = true) (p : LP) (k : Nat) (t : Tree)
    (h : CI Q S L Z p) (hk : p.i + k ≤ p.line.length) (hnc : isContainerKind p.containerKind = false)
    (hnp : p.containerKind ≠ BK.paragraph ∨ ∀ l is, Q' l is = true)
    (hch : t.children = [] ∨ p.containerKind ≠ BK.indentedCode) (ht : inlOK t = true)
    (hcov : ∀ m, p.i ≤ m → m < p.i + k → need (p.line.getD m 0) = true → covT t (p.lineStart + m) = true) :
    CI Q' S L Z ((p.advance k).appendInline t) ∧ ((p.advance k).appendInline t).i = p.i + k ∧
    ((p.advance k).appendInline t).line = p.line ∧
    ((p.advance k).appendInline t).containerKind = p.containerKind ∧
    ((p.advance k).appendInline t).depth = p.depth := by
  have a := advance_post p k h.inv.cur hk
  have ia := a.inv h.inv
  have hat := a.tree
  simp only [BT.tree, Prod.mk.injEq] at hat
  obtain ⟨hs, hr, hd, hl⟩ := hat
  have hck : (p.advance k).containerKind = p.containerKind := a.ckind
  have tr := appendInline_tree hq (NP p.source) (p.advance k) t ia.tree (by rw [hr]; exact h.wf) (by rw [hck]; exact hnc) ht
    (by rw [hck]; exact hch) (by rw [hck]; exact hnp)
  refine ⟨?_, a.i, a.line, by rw [appendInline_containerKind _ _ ia.tree, hck], hd⟩
  apply h.step (appendInline_inv _ t ia) hs hl a.line tr.1 (by have := tr.2.1; rw [hr] at this; exact this)
  · intro m h1 h2 hn
    have h2' : m < p.i + k := by
      have : ((p.advance k).appendInline t).i = p.i + k := a.i
      omega
    exact tr.2.2 _ (hcov m h1 h2' hn)
  · intro h2
    have h2' : (p.advance k).state = 2 := h2
    have hp : p.state = 2 := by
      rw [a.state] at h2'
      split at h2'
      · exact h2'
      · exact mm_eq_two h2'
    rcases h.cons hp with h3 | h3
    · left
      show (p.advance k).i = (p.advance k).line.length
      rw [a.i, a.line]
      omega
    · exact Or.inr h3

theorem covT_leaf_range (l : Label) (hb : l.isBlock = false) (a b : Nat) (hs : l.start = a) (he : l.stop = b) (j : Nat)
    (h1 : a ≤ j) (h2 : j < b) : covT (.node l []) j = true := by
  rw [covT_leaf l j hb, hs, he]
  simp only [Bool.and_eq_true, decide_eq_true_eq]
  omega

/-! ### collectInline (kinds other than the info string) -/

theorem ciIndent_C {Q : ParaPred} (p : LP) (h : CI Q S L Z p) (hnc : isContainerKind p.containerKind = false)
    (hnp : p.containerKind ≠ BK.paragraph) :
    CI Q S L Z (BG.ciIndent p) ∧ (BG.ciIndent p).i = p.i + ciSkip p ∧ (BG.ciIndent p).line = p.line ∧
    (BG.ciIndent p).containerKind = p.containerKind ∧ (BG.ciIndent p).depth = p.depth ∧
    (BG.ciIndent p).i ≤ p.line.length := by
  unfold BG.ciIndent
  split
  · rename_i hpos
    simp only []
    have hsk : ciSkip p = indentLength (p.line.drop p.i) := by unfold ciSkip; rw [if_pos hpos]
    have hk : p.i + indentLength (p.line.drop p.i) ≤ p.line.length := by
      have := indentLength_le (p.line.drop p.i)
      simp only [List.length_drop] at this
      have := h.inv.cur.hi
      omega
    have a := advance_post p (indentLength (p.line.drop p.i)) h.inv.cur hk
    have hls : (p.advance (indentLength (p.line.drop p.i))).lineStart = p.lineStart := by
      have := a.tree; simp only [BT.tree, Prod.mk.injEq] at this; exact this.2.2.2
    have r := advance_append_C (Q' := Q) (fun _ _ h => h) p (indentLength (p.line.drop p.i))
      (.node { isBlock := false, kind := IK.indent, start := ((p.lineStart + p.i : Nat) : Int),
               stop := (p.advance (indentLength (p.line.drop p.i))).lineStart + (p.advance (indentLength (p.line.drop p.i))).i,
               indent := p.indent } []) h hk hnc (Or.inl hnp) (Or.inl rfl)
      (by
        rw [inlOK_iff]
        refine ⟨?_, ?_, deepOK_leaf _⟩
        · show (0 : Int) ≤ ((p.lineStart + p.i : Nat) : Int); omega
        · show ((p.lineStart + p.i : Nat) : Int) ≤ ((p.advance _).lineStart : Int) + ((p.advance _).i : Int)
          rw [hls, a.i]; omega)
      (by
        intro m h1 h2 _
        apply covT_leaf_range _ rfl (p.lineStart + p.i) (p.lineStart + (p.i + indentLength (p.line.drop p.i)))
        · rfl
        · show ((p.advance _).lineStart : Int) + ((p.advance _).i : Int) = _
          rw [hls, a.i]; omega
        · omega
        · omega)
    refine ⟨r.1, by rw [r.2.1, hsk], r.2.2.1, r.2.2.2.1, r.2.2.2.2, by rw [r.2.1]; exact hk⟩
  · rename_i hpos
    have hsk : ciSkip p = 0 := by unfold ciSkip; rw [if_neg hpos]
    exact ⟨h, by rw [hsk]; rfl, rfl, rfl, rfl, h.inv.cur.hi⟩

/-- `collectInline` keeps the labels along the spine. -/
theorem collectInline_label (x : PExt) (p : LP) (kind n : Nat) (hst : p.state ≠ 4) (j : Nat) (hj : j ≤ p.depth) :
    labelAt (p.collectInline x kind n).root j = labelAt p.root j := by
  rw [BG.collectInline_eq x p kind n hst]
  simp only []
  have hci : labelAt (BG.ciIndent ({ p with state := mm p.state } : LP)).root j = labelAt p.root j ∧
      (BG.ciIndent ({ p with state := mm p.state } : LP)).depth = p.depth := by
    unfold BG.ciIndent
    split
    · simp only []
      constructor
      · rw [appendInline_label _ _ j (by rw [(BG.advance_root _ _).2]; exact hj), (BG.advance_root _ _).1]
      · show (LP.advance _ _).depth = _
        rw [(BG.advance_root _ _).2]
    · exact ⟨rfl, rfl⟩
  generalize BG.ciIndent ({ p with state := mm p.state } : LP) = p2 at hci
  have hj3 : j ≤ (p2.advance n).depth := by rw [(BG.advance_root _ _).2, hci.2]; exact hj
  split
  · rw [appendInline_label _ _ j hj3, (BG.advance_root _ _).1, hci.1]
  · rw [appendInline_label _ _ j hj3, (BG.advance_root _ _).1, hci.1]

/-- **`collectInline`** of a leaf kind: everything it skips is covered by the leaves it appends. -/
theorem collectInline_C {Q : ParaPred} (x : PExt) (p : LP) (kind n : Nat) (h : CI Q S L Z p) (hst : p.state ≠ 4)
    (hb : p.i + ciSkip p + n ≤ p.line.length) (hnc : isContainerKind p.containerKind = false)
    (hnp : p.containerKind ≠ BK.paragraph) (hne : kind ≠ IK.infoString) :
    CI Q S L Z (p.collectInline x kind n) := by
  rw [BG.collectInline_eq x p kind n hst]
  simp only []
  have hne' : (kind == IK.infoString) = false := by simpa using hne
  rw [if_neg (by simp [hne'])]
  have h1 : CI Q S L Z ({ p with state := mm p.state } : LP) := h.setMM
  have hsk1 : ciSkip ({ p with state := mm p.state } : LP) = ciSkip p := by
    unfold ciSkip
    have : ({ p with state := mm p.state } : LP).indent = p.indent := indent_of_cur rfl
    rw [this]
  obtain ⟨c2, i2, l2, k2, d2, _⟩ := ciIndent_C _ h1 hnc hnp
  rw [hsk1] at i2
  generalize BG.ciIndent ({ p with state := mm p.state } : LP) = p2 at c2 i2 l2 k2 d2
  have l2' : p2.line = p.line := l2
  have i2' : p2.i = p.i + ciSkip p := i2
  have k2' : p2.containerKind = p.containerKind := k2
  have hk : p2.i + n ≤ p2.line.length := by rw [i2', l2']; exact hb
  have a := advance_post p2 n c2.inv.cur hk
  have hls : (p2.advance n).lineStart = p2.lineStart := by
    have := a.tree; simp only [BT.tree, Prod.mk.injEq] at this; exact this.2.2.2
  have r := advance_append_C (Q' := Q) (fun _ _ h => h) p2 n
    (mkInline kind (p2.lineStart + p2.i) ((p2.advance n).lineStart + (p2.advance n).i)) c2 hk (by rw [k2']; exact hnc)
    (Or.inl (by rw [k2']; exact hnp)) (Or.inl rfl)
    (inlOK_mkInline _ _ _ (by omega) (by rw [hls, a.i]; omega))
    (by
      intro m h1 h2 _
      apply covT_leaf_range _ rfl (p2.lineStart + p2.i) (p2.lineStart + (p2.i + n))
      · show ((p2.lineStart : Int) + (p2.i : Int)) = ((p2.lineStart + p2.i : Nat) : Int); omega
      · show ((p2.advance n).lineStart : Int) + ((p2.advance n).i : Int) = _
        rw [hls, a.i]; omega
      · omega
      · omega)
  exact r.1

end CM.Proofs.Cov
