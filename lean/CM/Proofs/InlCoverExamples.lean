import CM.Proofs.InlCoverScan
import CM.Proofs.InlSpanExamples
/-
C03, inline half — non-vacuity of the coverage theorems (the paragraph of `InlSpanExamples` meets all hypotheses and
contains letters), the open targets, and the axioms of the main theorems.
-/
namespace CM.Proofs.InlH.Examples
open CM CM.Model CM.Model.Inl CM.Proofs.InlH CM.Spec

theorem linkCover1 : LinkCover (inlCtx x0 src1S src1S.toArray m1 in1S) :=
  ⟨fun s s' start info h0 h1 hb => absurd hb (src1_no start h0 h1).2.2.1,
   fun u start label r' h0 h1 hb => absurd hb (src1_no start h0 h1).2.2.2⟩

theorem tokCover1 : TokCover (inlCtx x0 src1S src1S.toArray m1 in1S) :=
  TokCover.mk' _
    (fun u pos span r' h0 h1 hb => absurd hb (src1_no pos h0 h1).1)
    (fun s s' pos cs h0 h1 hb => absurd hb (src1_no pos h0 h1).2.1)

/-- `parseInlines_cover'` applies to the paragraph `*a* _b_ ]`: the letters `a` (position 1) and `b` (position 5) lie in
    leaves of the result (the Text nodes below the two Emphasis nodes `processEmphasis` builds). -/
example (kids : List Tree) (h : parseInlines x0 src1S src1S.toArray m1 0 9 in1S = .ok kids) :
    CovTs kids 1 ∧ CovTs kids 5 :=
  ⟨parseInlines_cover' x0 src1S src1S.toArray m1 0 9 in1S (by decide) in1_WFL tokScan1 linkScan1 linkCover1 tokCover1
      kids h (run 0 9) (by simp [in1S]) rfl rfl 1 (by decide) (by decide) (by decide) (by decide +kernel),
   parseInlines_cover' x0 src1S src1S.toArray m1 0 9 in1S (by decide) in1_WFL tokScan1 linkScan1 linkCover1 tokCover1
      kids h (run 0 9) (by simp [in1S]) rfl rfl 5 (by decide) (by decide) (by decide) (by decide +kernel)⟩

theorem t1_contsCov : ContsCov x0 src1S src1S.toArray m1 t1S := by
  intro u hu hb _
  have : T.nodes t1S = [t1S, run 0 9] := rfl
  rw [this] at hu
  simp only [List.mem_cons, List.mem_nil_iff, or_false] at hu
  rcases hu with rfl | rfl
  · refine ⟨linkCover1, tokCover1, fun j _ _ hc => ?_⟩
    obtain ⟨l, hl, -, h1, h2⟩ := hc
    have hl' : l = run 0 9 := by
      have : T.nodesL t1S.children = [run 0 9] := rfl
      rw [this] at hl
      simpa using hl
    subst hl'
    exact ⟨run 0 9, List.mem_cons_self .., rfl, rfl, h1, h2⟩
  · exact absurd hb (by decide)

/-- `rewriteE_cover` applies to the paragraph. -/
example (t' : Tree) (h : rewriteE x0 src1S src1S.toArray m1 t1S = .ok t') (j : Int) (h0 : 0 ≤ j)
    (hn : needsCover (src1S.toArray[j.toNat]!) = true) (hc : CovTs [t1S] j) : CovTs [t'] j :=
  rewriteE_cover x0 src1S src1S.toArray m1 t1S t1_WFT t1_conts t1_contsCov t' h j h0 hn hc

/-! ### open

The hypotheses `TokCover.html`, `TokCover.code`, `LinkCover.inline`, `LinkCover.label` are facts about the byte reader
(`parseHTMLTag`, `parseCodeSpan` / `collectCodeSpan`, `parseInlineLink`, `parseLinkLabel`, `collectTextNodes`); the
block-phase analogues are `Coverage*` / `RefDefCover*`. -/

/-- **open target**: the statement of `parseInlines_cover` without the coverage hypotheses about the scanners. -/
def parseInlines_cover_target : Prop :=
  ∀ (x : IExt) (src : Bytes) (srcA : Array UInt8) (matchRef : Bytes → Bool) (cstart cstop : Int)
    (unparsed kids : List Tree), 0 ≤ cstart → WFL cstart cstop unparsed →
    TokScan (inlCtx x src srcA matchRef unparsed) cstop → LinkScan (inlCtx x src srcA matchRef unparsed) cstop →
    parseInlines x src srcA matchRef cstart cstop unparsed = .ok kids →
    ∀ j, InRun (inlCtx x src srcA matchRef unparsed) j → NeedAt (inlCtx x src srcA matchRef unparsed) j → CovTs kids j

end CM.Proofs.InlH.Examples

#print axioms CM.Proofs.InlH.parseInlines_cover
#print axioms CM.Proofs.InlH.parseInlines_cover'
#print axioms CM.Proofs.InlH.rewriteE_cover
#print axioms CM.Proofs.InlH.parseBody_cov
#print axioms CM.Proofs.InlH.parseRun_specC
#print axioms CM.Proofs.InlH.parseRun_uge
#print axioms CM.Proofs.InlH.parseEndBracket_specC
#print axioms CM.Proofs.InlH.finishLink_specC
#print axioms CM.Proofs.InlH.processEmphasis_specC
#print axioms CM.Proofs.InlH.TokCover.mk'
#print axioms CM.Proofs.InlH.export_root_cov
