import CM.Proofs.EolLines
import CM.Model.Stream
/-
C14 (a), block level — the correspondence. Every position of the tree under construction (block `start` / `stop`,
inline `start` / `stop`) is mapped through `eolPosZ e X` (`eolPos` extended to `Int`; the `-1` of an open block and
every other negative number stays). `mapPB e X` maps a block under construction, `mapTree` an inline tree.
This file: the maps and their commutation with the structural operations on the last-child spine
(`spineGet`, `spineModify`, `spineReplaceLast`, `tipDepth`, `spineLength`, `setBlankFlags`, `endsWithBlankLine`,
`listIsLoose`).
-/
namespace CM.Proofs
open CM CM.Model CM.Gen

/-! ### The position map on `Int` -/

/-- `eolPos` on `Int`: negative numbers (the `-1` of an open block) are fixed. -/
def eolPosZ (e X : Bytes) (j : Int) : Int := if j < 0 then j else (eolPos e X j.toNat : Nat)

theorem eolPosZ_ofNat (e X : Bytes) (j : Nat) : eolPosZ e X (j : Int) = (eolPos e X j : Nat) := by
  have : ¬ ((j : Int) < 0) := by omega
  simp [eolPosZ, this]

theorem eolPosZ_neg (e X : Bytes) {j : Int} (h : j < 0) : eolPosZ e X j = j := by simp [eolPosZ, h]

@[simp] theorem eolPosZ_neg_one (e X : Bytes) : eolPosZ e X (-1) = -1 := rfl

theorem eolPosZ_nonneg (e X : Bytes) {j : Int} (h : 0 ≤ j) : eolPosZ e X j = (eolPos e X j.toNat : Nat) := by
  have : ¬ j < 0 := by omega
  simp [eolPosZ, this]

theorem eolPosZ_nonneg_iff (e X : Bytes) (j : Int) : 0 ≤ eolPosZ e X j ↔ 0 ≤ j := by
  unfold eolPosZ; split <;> omega

theorem eolPosZ_neg_iff (e X : Bytes) (j : Int) : eolPosZ e X j < 0 ↔ j < 0 := by
  unfold eolPosZ; split <;> omega

theorem eolPosZ_lt_iff (e X : Bytes) (a b : Int) : eolPosZ e X a < eolPosZ e X b ↔ a < b := by
  unfold eolPosZ
  by_cases ha : a < 0 <;> by_cases hb : b < 0 <;> simp only [ha, hb, if_true, if_false]
  · have := eolPos_ge e X b.toNat; omega
  · have := eolPos_ge e X a.toNat; omega
  · have := eolPos_lt_iff e X (j := a.toNat) (k := b.toNat); omega

theorem eolPosZ_le_iff (e X : Bytes) (a b : Int) : eolPosZ e X a ≤ eolPosZ e X b ↔ a ≤ b := by
  have := eolPosZ_lt_iff e X b a
  omega

theorem eolPosZ_inj (e X : Bytes) {a b : Int} (h : eolPosZ e X a = eolPosZ e X b) : a = b := by
  have h1 := (eolPosZ_le_iff e X a b).1 (by omega)
  have h2 := (eolPosZ_le_iff e X b a).1 (by omega)
  omega

theorem eolPosZ_eq_iff (e X : Bytes) (a b : Int) : eolPosZ e X a = eolPosZ e X b ↔ a = b :=
  ⟨eolPosZ_inj e X, fun h => by rw [h]⟩

theorem eolPosZ_toNat (e X : Bytes) {j : Int} (h : 0 ≤ j) : (eolPosZ e X j).toNat = eolPos e X j.toNat := by
  rw [eolPosZ_nonneg e X h]; simp

/-! ### Mapping trees -/

mutual
/-- Map the span of every node of an inline tree. -/
def mapTree (g : Int → Int) : Tree → Tree
  | .node l cs => .node { l with start := g l.start, stop := g l.stop } (mapTrees g cs)
def mapTrees (g : Int → Int) : List Tree → List Tree
  | [] => []
  | t :: ts => mapTree g t :: mapTrees g ts
end

mutual
/-- Map every position of a block under construction. -/
def mapPB (g : Int → Int) : PB → PB
  | .mk l bs is => .mk { l with start := g l.start, stop := g l.stop } (mapPBs g bs) (mapTrees g is)
def mapPBs (g : Int → Int) : List PB → List PB
  | [] => []
  | b :: bs => mapPB g b :: mapPBs g bs
end

theorem mapTrees_eq_map (g : Int → Int) (ts : List Tree) : mapTrees g ts = ts.map (mapTree g) := by
  induction ts with
  | nil => rfl
  | cons t ts ih => rw [mapTrees, ih]; rfl

theorem mapPBs_eq_map (g : Int → Int) (bs : List PB) : mapPBs g bs = bs.map (mapPB g) := by
  induction bs with
  | nil => rfl
  | cons b bs ih => rw [mapPBs, ih]; rfl

@[simp] theorem mapTrees_nil (g : Int → Int) : mapTrees g [] = [] := rfl
@[simp] theorem mapPBs_nil (g : Int → Int) : mapPBs g [] = [] := rfl

theorem mapTrees_append (g : Int → Int) (a b : List Tree) : mapTrees g (a ++ b) = mapTrees g a ++ mapTrees g b := by
  simp [mapTrees_eq_map]

theorem mapPBs_append (g : Int → Int) (a b : List PB) : mapPBs g (a ++ b) = mapPBs g a ++ mapPBs g b := by
  simp [mapPBs_eq_map]

theorem mapTrees_singleton (g : Int → Int) (t : Tree) : mapTrees g [t] = [mapTree g t] := rfl
theorem mapPBs_singleton (g : Int → Int) (b : PB) : mapPBs g [b] = [mapPB g b] := rfl

@[simp] theorem mapTrees_length (g : Int → Int) (ts : List Tree) : (mapTrees g ts).length = ts.length := by
  simp [mapTrees_eq_map]

@[simp] theorem mapPBs_length (g : Int → Int) (bs : List PB) : (mapPBs g bs).length = bs.length := by
  simp [mapPBs_eq_map]

theorem mapPBs_getLast? (g : Int → Int) (bs : List PB) : (mapPBs g bs).getLast? = bs.getLast?.map (mapPB g) := by
  simp [mapPBs_eq_map, List.getLast?_map]

theorem mapPBs_dropLast (g : Int → Int) (bs : List PB) : (mapPBs g bs).dropLast = mapPBs g bs.dropLast := by
  simp [mapPBs_eq_map, List.map_dropLast]

theorem mapTrees_getLast? (g : Int → Int) (ts : List Tree) : (mapTrees g ts).getLast? = ts.getLast?.map (mapTree g) := by
  simp [mapTrees_eq_map, List.getLast?_map]

theorem mapTrees_drop (g : Int → Int) (ts : List Tree) (n : Nat) : mapTrees g (ts.drop n) = (mapTrees g ts).drop n := by
  simp [mapTrees_eq_map, List.map_drop]

theorem mapTrees_reverse (g : Int → Int) (ts : List Tree) : mapTrees g ts.reverse = (mapTrees g ts).reverse := by
  simp [mapTrees_eq_map, List.map_reverse]

theorem mapTree_label (g : Int → Int) (t : Tree) :
    (mapTree g t).label = { t.label with start := g t.label.start, stop := g t.label.stop } := by
  cases t; rfl

theorem mapTree_children (g : Int → Int) (t : Tree) : (mapTree g t).children = mapTrees g t.children := by
  cases t; rfl

/-! ### Projections of a mapped block -/

theorem mapPB_label (g : Int → Int) (b : PB) :
    (mapPB g b).label = { b.label with start := g b.label.start, stop := g b.label.stop } := by
  cases b; rfl

theorem mapPB_blocks (g : Int → Int) (b : PB) : (mapPB g b).blocks = mapPBs g b.blocks := by cases b; rfl
theorem mapPB_inlines (g : Int → Int) (b : PB) : (mapPB g b).inlines = mapTrees g b.inlines := by cases b; rfl
@[simp] theorem mapPB_kind (g : Int → Int) (b : PB) : (mapPB g b).kind = b.kind := by cases b; rfl

theorem mapPB_childCount (g : Int → Int) (b : PB) : (mapPB g b).childCount = b.childCount := by
  cases b; simp [mapPB, PB.childCount]

theorem mapPB_lastBlock (g : Int → Int) (b : PB) : (mapPB g b).lastBlock = b.lastBlock.map (mapPB g) := by
  cases b; simp [mapPB, PB.lastBlock, mapPBs_getLast?]

/-- `g` keeps the sign of every position (true of `eolPosZ`). -/
def SignOK (g : Int → Int) : Prop := ∀ j, g j < 0 ↔ j < 0

theorem signOK_eolPosZ (e X : Bytes) : SignOK (eolPosZ e X) := eolPosZ_neg_iff e X

theorem mapPB_isOpen {g : Int → Int} (hg : SignOK g) (b : PB) : (mapPB g b).isOpen = b.isOpen := by
  cases b
  simp only [mapPB, PB.isOpen, PB.label]
  exact decide_eq_decide.2 (hg _)

/-- A label transformer that does not look at, or change, the two positions. -/
def PosFree (f : PLabel → PLabel) : Prop :=
  ∀ (l : PLabel) (a b : Int), f { l with start := a, stop := b } = { f l with start := a, stop := b }

theorem mapPB_setLabel (g : Int → Int) {f : PLabel → PLabel} (hf : PosFree f) (b : PB) :
    mapPB g (b.setLabel f) = (mapPB g b).setLabel f := by
  cases b with
  | mk l bs is =>
    simp only [PB.setLabel, mapPB]
    congr 1
    have h1 := hf l (g l.start) (g l.stop)
    have h2 := hf l l.start l.stop
    have h3 : ({ l with start := l.start, stop := l.stop } : PLabel) = l := rfl
    rw [h3] at h2
    rw [h1]
    have h4 : (f l).start = l.start := by rw [h2]
    have h5 : (f l).stop = l.stop := by rw [h2]
    rw [h4, h5]

/-! ### The last-child spine -/

theorem spineGet_map (g : Int → Int) : ∀ (d : Nat) (b : PB), spineGet (mapPB g b) d = (spineGet b d).map (mapPB g) := by
  intro d
  induction d with
  | zero => intro b; cases b; rfl
  | succ d ih =>
    intro b
    obtain ⟨l, bs, is⟩ := b
    simp only [mapPB, spineGet, mapPBs_getLast?]
    cases bs.getLast? with
    | none => rfl
    | some c => exact ih c

theorem spineModify_map (g : Int → Int) (f f' : PB → PB) (hf : ∀ b, f' (mapPB g b) = mapPB g (f b)) :
    ∀ (d : Nat) (b : PB), spineModify f' (mapPB g b) d = mapPB g (spineModify f b d) := by
  intro d
  induction d with
  | zero => intro b; cases b; exact hf _
  | succ d ih =>
    intro b
    obtain ⟨l, bs, is⟩ := b
    simp only [mapPB, spineModify, mapPBs_getLast?]
    cases bs.getLast? with
    | none => rfl
    | some c =>
      simp only [Option.map_some, mapPB, mapPBs_append, mapPBs_dropLast, mapPBs_singleton, ih c]

theorem spineReplaceLast_map (g : Int → Int) (f f' : PB → List PB) (hf : ∀ b, f' (mapPB g b) = mapPBs g (f b))
    (root : PB) (d : Nat) : spineReplaceLast f' (mapPB g root) d = mapPB g (spineReplaceLast f root d) := by
  unfold spineReplaceLast
  apply spineModify_map
  intro b
  obtain ⟨l, bs, is⟩ := b
  simp only [mapPB, mapPBs_getLast?]
  cases bs.getLast? with
  | none => rfl
  | some c => simp only [Option.map_some, mapPB, mapPBs_append, mapPBs_dropLast, hf c]

theorem sizeOf_lt_of_getLast? {bs : List PB} {c : PB} (h : bs.getLast? = some c) : sizeOf c < sizeOf bs :=
  List.sizeOf_lt_of_mem (List.mem_of_getLast? h)

theorem tipDepth_some {l : PLabel} {bs : List PB} {is : List Tree} {c : PB} (d : Nat) (h : bs.getLast? = some c) :
    tipDepth (.mk l bs is) d = if c.isOpen then tipDepth c (d + 1) else d := by
  rw [tipDepth]
  split
  · rename_i c' hc'; rw [h] at hc'; cases hc'; rfl
  · rename_i hn; rw [h] at hn; cases hn

theorem tipDepth_none {l : PLabel} {bs : List PB} {is : List Tree} (d : Nat) (h : bs.getLast? = none) :
    tipDepth (.mk l bs is) d = d := by
  rw [tipDepth]
  split
  · rename_i c' hc'; rw [h] at hc'; cases hc'
  · rfl

theorem spineLength_some {l : PLabel} {bs : List PB} {is : List Tree} {c : PB} (h : bs.getLast? = some c) :
    spineLength (.mk l bs is) = 1 + spineLength c := by
  rw [spineLength]
  split
  · rename_i c' hc'; rw [h] at hc'; cases hc'; rfl
  · rename_i hn; rw [h] at hn; cases hn

theorem spineLength_none {l : PLabel} {bs : List PB} {is : List Tree} (h : bs.getLast? = none) :
    spineLength (.mk l bs is) = 0 := by
  rw [spineLength]
  split
  · rename_i c' hc'; rw [h] at hc'; cases hc'
  · rfl

theorem endsWithBlankLine_some {l : PLabel} {bs : List PB} {is : List Tree} {c : PB} (h : bs.getLast? = some c) :
    endsWithBlankLine (.mk l bs is) =
      (if l.lastLineBlank then true else if l.kind != BK.list && l.kind != BK.listItem then false
       else endsWithBlankLine c) := by
  rw [endsWithBlankLine]
  split
  · rfl
  · split
    · rfl
    · split
      · rename_i c' hc'; rw [h] at hc'; cases hc'; rfl
      · rename_i hn; rw [h] at hn; cases hn

theorem endsWithBlankLine_none {l : PLabel} {bs : List PB} {is : List Tree} (h : bs.getLast? = none) :
    endsWithBlankLine (.mk l bs is) =
      (if l.lastLineBlank then true else if l.kind != BK.list && l.kind != BK.listItem then false else false) := by
  rw [endsWithBlankLine]
  split
  · rfl
  · split
    · rfl
    · split
      · rename_i c' hc'; rw [h] at hc'; cases hc'
      · rfl

theorem tipDepth_map {g : Int → Int} (hg : SignOK g) (b : PB) (d : Nat) : tipDepth (mapPB g b) d = tipDepth b d := by
  induction hn : sizeOf b using Nat.strongRecOn generalizing b d with
  | ind n ih =>
    obtain ⟨l, bs, is⟩ := b
    rw [mapPB]
    cases hc : bs.getLast? with
    | none =>
      rw [tipDepth_none d hc, tipDepth_none d (by rw [mapPBs_getLast?, hc]; rfl)]
    | some c =>
      rw [tipDepth_some d hc, tipDepth_some d (by rw [mapPBs_getLast?, hc]; rfl), mapPB_isOpen hg]
      have hlt : sizeOf c < n := by
        subst hn
        have := sizeOf_lt_of_getLast? hc
        simp; omega
      rw [ih (sizeOf c) hlt c (d + 1) rfl]

theorem spineLength_map (g : Int → Int) (b : PB) : spineLength (mapPB g b) = spineLength b := by
  induction hn : sizeOf b using Nat.strongRecOn generalizing b with
  | ind n ih =>
    obtain ⟨l, bs, is⟩ := b
    rw [mapPB]
    cases hc : bs.getLast? with
    | none =>
      rw [spineLength_none hc, spineLength_none (by rw [mapPBs_getLast?, hc]; rfl)]
    | some c =>
      rw [spineLength_some hc, spineLength_some (by rw [mapPBs_getLast?, hc]; rfl)]
      have hlt : sizeOf c < n := by
        subst hn
        have := sizeOf_lt_of_getLast? hc
        simp; omega
      rw [ih (sizeOf c) hlt c rfl]

theorem endsWithBlankLine_map (g : Int → Int) (b : PB) : endsWithBlankLine (mapPB g b) = endsWithBlankLine b := by
  induction hn : sizeOf b using Nat.strongRecOn generalizing b with
  | ind n ih =>
    obtain ⟨l, bs, is⟩ := b
    rw [mapPB]
    cases hc : bs.getLast? with
    | none =>
      rw [endsWithBlankLine_none hc, endsWithBlankLine_none (by rw [mapPBs_getLast?, hc]; rfl)]
    | some c =>
      rw [endsWithBlankLine_some hc, endsWithBlankLine_some (by rw [mapPBs_getLast?, hc]; rfl)]
      have hlt : sizeOf c < n := by
        subst hn
        have := sizeOf_lt_of_getLast? hc
        simp; omega
      rw [ih (sizeOf c) hlt c rfl]

theorem setBlankFlags_map (g : Int → Int) (v : Bool) : ∀ (d : Nat) (b : PB),
    setBlankFlags v (mapPB g b) d = mapPB g (setBlankFlags v b d) := by
  intro d
  induction d with
  | zero => intro b; cases b; rfl
  | succ d ih =>
    intro b
    obtain ⟨l, bs, is⟩ := b
    simp only [mapPB, setBlankFlags, mapPBs_getLast?]
    cases bs.getLast? with
    | none => rfl
    | some c =>
      simp only [Option.map_some, mapPB, mapPBs_append, mapPBs_dropLast, mapPBs_singleton, ih c]

end CM.Proofs
