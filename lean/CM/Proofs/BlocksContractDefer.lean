import CM.Proofs.BlocksContractLine
/-
C01 contract for the real block parser — helper facts for `openNewBlocks` (the deferred close / lazy continuation).
-/
namespace CM.Proofs
open CM CM.Model CM.Gen CM.Props.C01

/-! ### The check of the contract only looks at the ends of the children -/

theorem kidsOK_congr (src : Bytes) : ∀ (lo : Nat) (bs bs' : List PB),
    bs'.map (fun b => b.label.stop) = bs.map (fun b => b.label.stop) → kidsOK src lo bs' = kidsOK src lo bs := by
  intro lo bs
  induction bs generalizing lo with
  | nil =>
    intro bs' h
    cases bs' with
    | nil => rfl
    | cons a t => simp at h
  | cons x t ih =>
    intro bs' h
    cases bs' with
    | nil => simp at h
    | cons a t' =>
      simp only [List.map_cons, List.cons.injEq] at h
      obtain ⟨h1, h2⟩ := h
      have ho : a.isOpen = x.isOpen := by unfold PB.isOpen; rw [h1]
      have hs : stopOf a = stopOf x := by unfold stopOf; rw [h1]
      have he : t'.isEmpty = t.isEmpty := by
        have := congrArg List.length h2
        simp only [List.length_map] at this
        cases t' <;> cases t <;> simp_all
      simp only [kidsOK, ho, hs, he, ih _ t' h2]

theorem TopEnd.sameTop {N : Nat} {p p' : LP} (h : TopEnd N p) (hst : SameTop p.root.blocks p'.root.blocks)
    (hsrc : p'.source = p.source) : TopEnd N p' := by
  refine ⟨fun hne => ?_, fun c' hc' ho' => ?_, fun c' hc' ho' a' ha' => ?_⟩
  rotate_left 2
  · obtain ⟨c, hc, _, k2, _⟩ := hst.rev c' hc'
    have hd : p'.root.blocks.dropLast.map (fun b => b.label.stop) = p.root.blocks.dropLast.map (fun b => b.label.stop) := by
      rw [List.map_dropLast, List.map_dropLast, hst.stops]
    have hm : a'.label.stop ∈ p'.root.blocks.dropLast.map (fun b => b.label.stop) := List.mem_map_of_mem ha'
    rw [hd] at hm
    obtain ⟨a, ha, he⟩ := List.mem_map.mp hm
    rw [← he]
    exact h.room c hc (by rw [← k2]; exact ho') a ha
  · rw [hsrc, ← kidsOK_iff, kidsOK_congr _ _ _ _ hst.stops, kidsOK_iff]
    apply h.ok
    intro he
    apply hne
    have := hst.stops
    rw [he] at this
    simpa using this
  · obtain ⟨c, hc, k1, k2, k3⟩ := hst.rev c' hc'
    intro hk hne
    rw [k3] at hne ⊢
    exact h.para c hc (by rw [← k2]; exact ho') (by rw [← k1]; exact hk) hne

theorem sameTop_deep (f : PB → PB) (root : PB) (m : Nat) (hm : 2 ≤ m) : SameTop root.blocks (spineModify f root m).blocks := by
  obtain ⟨d, rfl⟩ : ∃ d, m = d + 2 := ⟨m - 2, by omega⟩
  rw [blocks_deep]
  cases hl : root.blocks.getLast? with
  | none => exact SameTop.refl _
  | some c0 =>
    simp only
    obtain ⟨s1, s2, _⟩ := spineModify_succ_same f c0 d
    refine ⟨?_, fun c hc => ?_⟩
    · conv => rhs; rw [getLast?_split hl]
      simp only [List.map_append, List.map_cons, List.map_nil, s1]
    · rw [hl] at hc; cases hc
      exact ⟨_, by simp, by rw [s1], s2⟩

/-! ### NoOpenPara under a replacement of the last child of a block below the document -/

theorem noOpenPara_repl {p : LP} (g : PB → List PB) (m : Nat) (hm : 1 ≤ m) (h : NoOpenPara p) (d' : Nat) :
    NoOpenPara { p with root := spineModify (replLast g) p.root m, depth := d' } := by
  obtain ⟨d, rfl⟩ : ∃ d, m = d + 1 := ⟨m - 1, by omega⟩
  intro c hc
  simp only [lastKid_deep] at hc
  cases hc0 : p.root.blocks.getLast? with
  | none => rw [hc0] at hc; cases hc
  | some c0 =>
    rw [hc0] at hc
    simp only [Option.map_some, Option.some.injEq] at hc
    subst hc
    have hl : (spineModify (replLast g) c0 d).label = c0.label := by
      cases d with
      | zero => rw [spineModify_zero]; exact (replLast_same _ c0).1
      | succ d' => exact (spineModify_succ_same _ c0 d').1
    rw [hl]
    exact h c0 hc0

/-- Closing the last child of the document at the start of the line leaves no child open. -/
theorem close0_closed {Q : Nat → Prop} (H : onCloseParagraph_cuts_target) (x : PExt) {am : Bool} {N : Nat} {p : LP}
    (hla : LA am N p) (hs : SrcOK N p) (h : TopA Q p) (hd : p.depth = 0) :
    ∀ b ∈ (replLast (closeBlock x p.source p.lineStart) p.root).blocks, PBClosed b := by
  cases h with
  | empty he =>
    rw [replLast_blocks, he]
    intro b hb; cases hb
  | old k hb ho hls hp =>
    obtain ⟨_, k2, _⟩ := close_old_ls H x hs hla hb ho hls hp
    have hb' : p.root.blocks = [] ++ [k] := hb
    rw [replLast_blocks_append _ _ hb']
    exact k2.closed (Int.le_refl _)
  | closedAt hne hc hg hd0 =>
    rw [replLast_closed_blocks x p.source p.lineStart p.root (hc.closed (Int.le_refl _))]
    exact hc.closed (Int.le_refl _)
  | new _ _ _ _ _ _ hd1 _ _ => omega

/-! ### The tip -/

theorem tipDepth_pos {root : PB} (h : 1 ≤ tipDepth root 0) : ∃ c, root.blocks.getLast? = some c ∧ c.label.stop < 0 := by
  cases root with
  | mk l bs is =>
    rw [tipDepth] at h
    simp only [PB.blocks]
    split at h
    · rename_i c hc
      split at h
      · rename_i ho
        exact ⟨c, hc, (isOpen_true_iff' c).mp ho⟩
      · omega
    · omega

/-- `addLineText` on a paragraph that is not a child of the document leaves the children of the document as they are. -/
theorem addLineText_deep (x : PExt) (p : LP) (hd : 2 ≤ p.depth) (hck : p.containerKind = BK.paragraph)
    (hdv : ∃ b, spineGet p.root p.depth = some b) :
    SameTop p.root.blocks (addLineText x p).root.blocks ∧ (addLineText x p).source = p.source := by
  rw [addLineText_eq]
  obtain ⟨f1, f2, f3, f4, f5, f6, f7⟩ := altPrep_fields p
  obtain ⟨r1, r2⟩ := altPrep_root p
  have hck' : (altPrep p).containerKind = BK.paragraph := by
    obtain ⟨b, hb⟩ := hdv
    obtain ⟨b', hb', hk'⟩ := r2 p.depth b (Nat.le_refl _) hb
    rw [containerKind_eq (p := altPrep p) (by rw [f3]; exact hb'), hk', ← containerKind_eq hb]; exact hck
  generalize altPrep p = q at f3 f6 r1 hck'
  have happ : ∀ (r : LP) (t : Tree), 2 ≤ r.depth → SameTop r.root.blocks (r.appendInline t).root.blocks ∧
      (r.appendInline t).source = r.source ∧ (r.appendInline t).depth = r.depth ∧
      (r.appendInline t).containerKind = r.containerKind := by
    intro r t hr
    rw [appendInline_eq]
    refine ⟨sameTop_deep _ _ _ hr, rfl, rfl, ?_⟩
    exact (modify_contFrame r (appendInl t) (fun b => by cases b; rfl)).kind
  have hfin : ∀ (r : LP), 2 ≤ r.depth → r.containerKind = BK.paragraph →
      SameTop r.root.blocks (altFinish r).root.blocks ∧ (altFinish r).source = r.source := by
    intro r hr hk
    have hf : altFinish r = r.appendInline (mkInline IK.unparsed ((r.lineStart : Int) + r.i) ((r.lineStart : Int) + r.line.length)) := by
      unfold altFinish
      simp only [hk]
      rfl
    rw [hf]
    exact ⟨(happ r _ hr).1, (happ r _ hr).2.1⟩
  unfold altCont
  simp only [hck', acceptsLines_paragraph, if_true]
  split
  · rename_i heq
    split at heq <;> cases heq
  · rename_i r heq
    split at heq
    · simp only [Option.some.injEq] at heq
      subst heq
      obtain ⟨a1, a2, a3, a4⟩ := happ q (Tree.node { isBlock := false, kind := IK.indent, start := (q.lineStart : Int) + q.i, stop := (q.lineStart : Int) + q.i + 1, indent := q.tabRem } []) (by rw [f3]; exact hd)
      generalize q.appendInline (Tree.node { isBlock := false, kind := IK.indent, start := (q.lineStart : Int) + q.i, stop := (q.lineStart : Int) + q.i + 1, indent := q.tabRem } []) = q1 at a1 a2 a3 a4
      obtain ⟨c1, _⟩ := consumeIndentN_frame q1 q1.tabRem
      obtain ⟨e1, e2⟩ := hfin (q1.consumeIndentN q1.tabRem) (by rw [c1.depth, a3, f3]; exact hd)
        (by rw [(ContFrame.of_cur c1).kind, a4]; exact hck')
      refine ⟨(r1.trans a1).trans ?_, by rw [e2, c1.source, a2, f6]⟩
      rw [← c1.root]; exact e1
    · simp only [Option.some.injEq] at heq
      subst heq
      obtain ⟨e1, e2⟩ := hfin q (by rw [f3]; exact hd) hck'
      exact ⟨r1.trans e1, by rw [e2, f6]⟩

end CM.Proofs
