import CM.Proofs.EolG13
/-
C14 (a) — what the block-level theorem implies for `Parse` (`parseDoc`).

`parseDoc` = the block phase, then `extractAll` (the reference map), then `Inl.rewriteE` on every root with the matcher
"this normalised label is defined".  `rewriteE` is a function of (the root's source, the root's tree, the matcher).  This
file shows that, under the hypotheses of the block-level theorem,

* the KEYS of the reference map are the same for the input and the re-written input (`extractAll_keys`: the normalised label
  is stored in the `ref` field of the label node, which the position map does not touch) — so the matcher is the SAME
  function (`matchRef_eol`); the values differ in general: a title that spans lines contains the line endings as they are;
* therefore `Parse` of the re-written input is, root by root, `rewriteE` with the same matcher applied to the re-written
  source of the root and the image of its tree (`parseDoc_eol_reduction`; NUL bytes allowed, the image is `mapRootN`).

What remains for the full clause (a) is a statement about `rewriteE` on ONE root: `rewriteE ix (toEol e s) _ m (mapTree g t)`
against `rewriteE ix s _ m t` (the inline phase; not treated here).
-/
namespace CM.Proofs.EolG
open CM CM.Model CM.Gen CM.Proofs CM.Proofs.BT CM.Proofs.EolN

/-! ### `pbToTree` and the position map -/

mutual
theorem pbToTree_map (g : Int → Int) : ∀ b : PB, pbToTree (mapPB g b) = mapTree g (pbToTree b)
  | .mk l bs is => by
    rw [mapPB, pbToTree, pbToTree, mapTree]
    have hemp : (mapPBs g bs).isEmpty = bs.isEmpty := by cases bs <;> rfl
    rw [hemp]
    cases hb : bs.isEmpty with
    | true => simp only [if_true]
    | false =>
      simp only [Bool.false_eq_true, if_false]
      rw [pbsToTrees_map g bs]
theorem pbsToTrees_map (g : Int → Int) : ∀ bs : List PB,
    pbToTree.pbsToTrees (mapPBs g bs) = mapTrees g (pbToTree.pbsToTrees bs)
  | [] => rfl
  | b :: bs => by
    rw [mapPBs, pbToTree.pbsToTrees, pbToTree.pbsToTrees, mapTrees, pbToTree_map g b, pbsToTrees_map g bs]
end

/-! ### The keys of the reference map -/

def keys (m : RefMap) : List Bytes := m.map (·.1)

theorem lookup_isSome_keys (k : Bytes) : ∀ m : RefMap, (m.lookup k).isSome = (keys m).elem k := by
  intro m
  induction m with
  | nil => rfl
  | cons a t ih =>
    obtain ⟨a1, a2⟩ := a
    simp only [List.lookup, keys, List.map_cons, List.elem_cons]
    cases hk : k == a1 with
    | true => simp
    | false => simp only []; exact ih

theorem refInsert_keys {m m' : RefMap} (h : keys m' = keys m) (k : Bytes) (d d' : LinkDef) :
    keys (refInsert m' k d') = keys (refInsert m k d) := by
  unfold refInsert
  rw [lookup_isSome_keys, lookup_isSome_keys, h]
  split
  · exact h
  · simp only [keys, List.map_append, List.map_cons, List.map_nil] at h ⊢
    rw [h]

theorem mapTree_label_ref (g : Int → Int) (t : Tree) : (mapTree g t).label.ref = t.label.ref := by
  cases t; rfl

theorem mapTree_isI (g : Int → Int) (t : Tree) (k : Nat) : Node.isI (mapTree g t) k = Node.isI t k := by
  cases t; rfl

theorem mapTree_children (g : Int → Int) (t : Tree) : (mapTree g t).children = mapTrees g t.children := by
  cases t; rfl

theorem mapTrees_getLast? (g : Int → Int) (ts : List Tree) : (mapTrees g ts).getLast? = ts.getLast?.map (mapTree g) := by
  rw [mapTrees_eq_map, List.getLast?_map]

theorem linkReference_map (g : Int → Int) (t : Tree) : Node.linkReference (mapTree g t) = Node.linkReference t := by
  unfold Node.linkReference Node.isLinkOrImage
  rw [mapTree_isI, mapTree_isI, mapTree_children, mapTrees_getLast?, mapTree_label_ref]
  cases t.children.getLast? with
  | none => rfl
  | some last =>
    simp only [Option.map_some, mapTree_isI, mapTree_label_ref]

mutual
theorem extractNode_keys (ext : Ext) (src src' : Bytes) (g : Int → Int) : ∀ (t : Tree) (m m' : RefMap), keys m' = keys m →
    keys (extractNode ext src' (mapTree g t) m') = keys (extractNode ext src t m)
  | .node l cs, m, m', h => by
    rw [mapTree]
    cases hb : l.isBlock with
    | false =>
      cases cs with
      | nil => simpa [extractNode, hb, mapTrees] using h
      | cons a t =>
        cases t with
        | nil => simpa [extractNode, hb, mapTrees] using h
        | cons b r => simpa [extractNode, hb, mapTrees] using h
    | true =>
      cases hk : l.kind == BK.linkRefDef with
      | true =>
        cases cs with
        | nil => simpa [extractNode, hb, hk, mapTrees] using h
        | cons lab t =>
          cases t with
          | nil => simpa [extractNode, hb, hk, mapTrees] using h
          | cons dest rest =>
            simp only [extractNode, hb, hk, mapTrees, Bool.not_true, Bool.false_eq_true, if_false, if_true]
            rw [linkReference_map]
            exact refInsert_keys h _ _ _
      | false =>
        have key := extractForest_keys ext src src' g cs m m' h
        cases cs with
        | nil => simpa [extractNode, hb, hk, mapTrees] using key
        | cons a t =>
          cases t with
          | nil => simpa [extractNode, hb, hk, mapTrees] using key
          | cons b r => simpa [extractNode, hb, hk, mapTrees] using key
theorem extractForest_keys (ext : Ext) (src src' : Bytes) (g : Int → Int) : ∀ (cs : List Tree) (m m' : RefMap),
    keys m' = keys m → keys (extractForest ext src' (mapTrees g cs) m') = keys (extractForest ext src cs m)
  | [], m, m', h => by rw [mapTrees, extractForest, extractForest]; exact h
  | c :: cs, m, m', h => by
    rw [mapTrees, extractForest, extractForest]
    exact extractForest_keys ext src src' g cs _ _ (extractNode_keys ext src src' g c m m' h)
end

/-- The pairs (source, tree) that `Parse` hands to `Extract`, for the images of the roots. -/
theorem extractAll_keys (ext : Ext) (e inp : Bytes) : ∀ (rs : List Root) (m m' : RefMap), keys m' = keys m →
    keys (extractAll ext ((rs.map (mapRootN e inp)).map fun r => (r.source, pbToTree r.block)) m') =
      keys (extractAll ext (rs.map fun r => (r.source, pbToTree r.block)) m) := by
  intro rs
  induction rs with
  | nil => intro m m' h; exact h
  | cons r rest ih =>
    intro m m' h
    simp only [List.map_cons, extractAll]
    apply ih
    show keys (extractNode ext (toEol e r.source) (pbToTree (mapPB _ r.block)) m') = _
    rw [pbToTree_map]
    exact extractNode_keys ext _ _ _ _ m m' h

/-! ### `parseDoc` -/

/-- `Parse` after the block phase. -/
def finishDoc (x : PExt) (ix : IExt) (roots : List Root) (out : NBOut) : ParseResult :=
  let refs := extractAll x.ext (roots.map fun r => (r.source, pbToTree r.block)) []
  { roots := roots.map fun r =>
      { root := r, tree := Inl.rewriteE ix r.source r.source.toArray (fun k => (refs.lookup k).isSome) (pbToTree r.block) }
    refs := refs, ending := out }

theorem parseDoc_eq (x : PExt) (ix : IExt) (s : Bytes) :
    parseDoc x ix s = finishDoc x ix (drain (blocksLP x) (s.length + 8) (memParser s) []).1
      (drain (blocksLP x) (s.length + 8) (memParser s) []).2.1 := by
  unfold parseDoc finishDoc
  generalize drain (blocksLP x) (s.length + 8) (memParser s) [] = d
  obtain ⟨roots, out, q⟩ := d
  rfl

/-- The matcher `Parse` gives to the inline phase. -/
def matchRefOf (res : ParseResult) : Bytes → Bool := fun k => (res.refs.lookup k).isSome

theorem parseDoc_roots_full (x : PExt) (ix : IExt) (s : Bytes) :
    (parseDoc x ix s).roots = (drain (blocksLP x) (s.length + 8) (memParser s) []).1.map (fun r =>
      { root := r, tree := Inl.rewriteE ix r.source r.source.toArray (matchRefOf (parseDoc x ix s)) (pbToTree r.block) }) := by
  unfold matchRefOf
  rw [parseDoc_eq]
  rfl

/-- **The matcher is the same function** for the input and the re-written input. -/
theorem matchRef_eol (x : PExt) (ix : IExt) {e : Bytes} (he : StdEol e) (inp : Bytes) (hcr : NoCR inp)
    (hchk : ∃ er, (drain (blocksLPq x (e.length - 1)) (inp.length + 8) (memParser inp) []).2.1 = .err er) :
    keys (parseDoc x ix (toEol e inp)).refs = keys (parseDoc x ix inp).refs ∧
    matchRefOf (parseDoc x ix (toEol e inp)) = matchRefOf (parseDoc x ix inp) := by
  have hk : keys (parseDoc x ix (toEol e inp)).refs = keys (parseDoc x ix inp).refs := by
    rw [parseDoc_eq, parseDoc_eq, (drain_eol_parse x he inp hcr hchk).1]
    exact extractAll_keys x.ext e inp _ [] [] rfl
  refine ⟨hk, ?_⟩
  funext k
  unfold matchRefOf
  rw [lookup_isSome_keys, lookup_isSome_keys, hk]

/-- **What the block-level theorem implies for `Parse`.**  Under the hypotheses of `blocks_eol_sim_chk`, `Parse` of the
    re-written input consists, root by root, of the image of the root (`mapRoot`) and of `rewriteE` — with the matcher of
    the ORIGINAL input — applied to the re-written source of the root and the image of its tree; and it ends the same
    way. -/
theorem parseDoc_eol_reduction (x : PExt) (ix : IExt) {e : Bytes} (he : StdEol e) (inp : Bytes) (hcr : NoCR inp)
    (hchk : ∃ er, (drain (blocksLPq x (e.length - 1)) (inp.length + 8) (memParser inp) []).2.1 = .err er) :
    (parseDoc x ix (toEol e inp)).roots = (parseDoc x ix inp).roots.map (fun pr =>
      { root := mapRootN e inp pr.root
        tree := Inl.rewriteE ix (toEol e pr.root.source) (toEol e pr.root.source).toArray (matchRefOf (parseDoc x ix inp))
          (mapTree (eolPosZ e (padNulls (inp.drop pr.root.startOffset) 0)) (pbToTree pr.root.block)) }) ∧
    (parseDoc x ix (toEol e inp)).ending = (parseDoc x ix inp).ending := by
  have hm := (matchRef_eol x ix he inp hcr hchk).2
  obtain ⟨h1, h2⟩ := drain_eol_parse x he inp hcr hchk
  constructor
  · rw [parseDoc_roots_full x ix (toEol e inp), parseDoc_roots_full x ix inp, h1, hm, List.map_map, List.map_map]
    apply List.map_congr_left
    intro r _
    simp only [Function.comp]
    show ParsedRoot.mk (mapRootN e inp r) (Inl.rewriteE ix (toEol e r.source) (toEol e r.source).toArray _
      (pbToTree (mapPB (eolPosZ e (padNulls (inp.drop r.startOffset) 0)) r.block))) = _
    rw [pbToTree_map]
  · rw [parseDoc_ending, parseDoc_ending]; exact h2

/-- The instance of `EolG13`. -/
example (ix : IExt) : matchRefOf (parseDoc eolDemoX ix (toCRLF refDemo)) = matchRefOf (parseDoc eolDemoX ix refDemo) :=
  (matchRef_eol eolDemoX ix (Or.inr (Or.inr rfl)) refDemo (by decide +kernel) (exists_err_of_outIsErr (by decide +kernel))).2

/-- Its reference map has the three keys `foo`, `bar` and `z`. -/
example (ix : IExt) : keys (parseDoc eolDemoX ix refDemo).refs = [Bytes.ofString "foo", Bytes.ofString "bar", Bytes.ofString "z"] := by
  rw [parseDoc_eq]
  show keys (extractAll eolDemoX.ext
    ((drain (blocksLP eolDemoX) (refDemo.length + 8) (memParser refDemo) []).1.map fun r => (r.source, pbToTree r.block)) []) = _
  decide +kernel

end CM.Proofs.EolG
