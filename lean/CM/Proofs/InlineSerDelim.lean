import CM.Proofs.InlineSerPieces
/-
Inline serialisation — part 15 (towards emphasis): the tokenizer side of a delimiter run.  `parseDelimiterRun` as an
equation: a run of `n` equal delimiter bytes (`*` or `_`) becomes one Text node on the root and one entry on the
delimiter stack whose flags are `emphasisFlags` of the run; `delim_seg`: it is a segment of the loop.
-/
namespace CM.Proofs.InlSer
open CM CM.Gen CM.Model CM.Model.Inl CM.Proofs.EscText

/-- The stack entry of a delimiter run `[p, p + n)` of the byte `ch`, whose Text node is `id`. -/
def delimEntry (c : ICtx) (ch : UInt8) (p n id : Nat) : DelimE :=
  { elem := { typ := if ch == 0x2A then 1 else 2,
              flags := 1 ||| (if (emphasisFlags c.x.u c.src p (p + n)).1 then 2 else 0) |||
                       (if (emphasisFlags c.x.u c.src p (p + n)).2 then 4 else 0),
              n := n },
    node := id }

theorem parseDelimiterRun_run {c : ICtx} {src : Bytes} (hA : c.srcA = src.toArray) {a E : Nat} {last : Bool} (s : IState)
    (hs : At c a E last s) (hE : E ≤ src.length) (ch : UInt8) (p n : Nat) (hn : 1 ≤ n) (hpn : p + n ≤ E)
    (hrun : ∀ j, j < n → src[p + j]? = some ch) (hstop : p + n = E ∨ ∃ x, src[p + n]? = some x ∧ x ≠ ch) :
    (parseDelimiterRun c (p : Int)).run s =
      pure (((p + n : Nat) : Int),
        pushStkP (delimEntry c ch p n s.nodes.size) (pushP (leafN IK.text p (p + n)) s)) := by
  have h0 := hrun 0 (by omega)
  rw [Nat.add_zero] at h0
  obtain ⟨h1, h2⟩ := getA hA h0
  have hsz : c.srcA.size = src.length := by rw [hA]; simp
  unfold parseDelimiterRun
  simp only [StateT.run_bind, srcAt_run c p s h1, h2, pure_bind, spanEnd, StateT.run_get, StateT.run_pure, hs.se]
  rw [Std.Legacy.Range.forIn_eq_forIn_range']
  have hrange : Std.Legacy.Range.size [:c.srcA.size + 1] = c.srcA.size + 1 := by simp [Std.Legacy.Range.size]
  simp only [hrange]
  generalize hg : (fun (x : Nat) (r : Int) => (_ : IM (ForInStep Int))) = g
  have hstep : ∀ x r, g x r =
      (if (!decide (r < (E : Int))) = true then pure (ForInStep.done r)
       else do
        let b ← srcAt c r
        if (b != ch) = true then pure (ForInStep.done r) else pure (ForInStep.yield (r + 1))) := by
    intro x r; rw [← hg]
  have key : ∀ (k j i fuel : Nat), j + k = n → 1 ≤ j → k + 1 ≤ fuel →
      (forIn (List.range' i fuel) (((p + j : Nat) : Int)) g).run s = pure (((p + n : Nat) : Int), s) := by
    intro k
    induction k with
    | zero =>
      intro j i fuel hj _ hf
      obtain ⟨fuel', rfl⟩ : ∃ f', fuel = f' + 1 := ⟨fuel - 1, by omega⟩
      have hjn : j = n := by omega
      subst hjn
      rw [List.range'_succ, List.forIn_cons, StateT.run_bind, hstep]
      rcases Nat.lt_or_ge (p + j) E with hltE | hgeE
      · rcases hstop with he | ⟨x, hx, hxne⟩
        · omega
        · obtain ⟨g1, g2⟩ := getA hA hx
          have hlt : (((p + j : Nat) : Int) < (E : Int)) := by omega
          have hne : (x != ch) = true := by simpa using hxne
          simp only [hlt, decide_true, Bool.not_true, Bool.false_eq_true, if_false, StateT.run_bind, srcAt_run c (p + j) s g1, g2,
            pure_bind, hne, if_true, StateT.run_pure]
      · have hnlt : ¬ (((p + j : Nat) : Int) < (E : Int)) := by omega
        simp only [hnlt, decide_false, Bool.not_false, if_true, StateT.run_pure, pure_bind]
    | succ k ih =>
      intro j i fuel hj hj1 hf
      obtain ⟨fuel', rfl⟩ : ∃ f', fuel = f' + 1 := ⟨fuel - 1, by omega⟩
      have hb := hrun j (by omega)
      obtain ⟨g1, g2⟩ := getA hA hb
      have hlt : (((p + j : Nat) : Int) < (E : Int)) := by omega
      rw [List.range'_succ, List.forIn_cons, StateT.run_bind, hstep]
      simp only [hlt, decide_true, Bool.not_true, Bool.false_eq_true, if_false, StateT.run_bind, srcAt_run c (p + j) s g1, g2,
        pure_bind, bne_self_eq_false, StateT.run_pure]
      have := ih (j + 1) (i + 1) fuel' (by omega) (by omega) (by omega)
      rw [show ((p + j : Nat) : Int) + 1 = ((p + (j + 1) : Nat) : Int) by simp [Int.add_assoc], this]
  have e1 : ((p : Nat) : Int) + 1 = ((p + 1 : Nat) : Int) := by simp
  rw [e1, key (n - 1) 1 0 (c.srcA.size + 1) (by omega) (Nat.le_refl _) (by omega)]
  have e2 : ((p : Nat) : Int) + ((n : Nat) : Int) = ((p + n : Nat) : Int) := by simp
  have hlen : spanLenI ((p : Nat) : Int) (((p : Nat) : Int) + ((n : Nat) : Int)) = n := by rw [e2, spanLenI_cast]; omega
  have hn0 : n ≠ 0 := by omega
  have htn : (((p : Nat) : Int) + ((n : Nat) : Int)).toNat = p + n := by omega
  simp [StateT.run_bind, alloc, addToRoot, nodeLen, getNode, setParent, modifyNode, pushStack, hlen, hn0, htn, pushP, pushStkP,
    delimEntry, leafN]

/-- What a delimiter run does to the state: flush, one Text node, one stack entry. -/
def delimT (c : ICtx) (ch : UInt8) (ps p n : Nat) (s : IState) : IState :=
  pushStkP (delimEntry c ch p n (pushAll (flushN ps p) s).nodes.size) (pushP (leafN IK.text p (p + n)) (pushAll (flushN ps p) s))

/-- **A delimiter run is a segment** (`*` … or `_` …, `n` equal bytes followed by another byte or the end of the run). -/
theorem delim_seg {c : ICtx} {src : Bytes} (hA : c.srcA = src.toArray) {f : Nat → LS → IM (ForInStep LS)} (hf : Steps c src f)
    {a E : Nat} {last : Bool} (hE : E ≤ src.length) (ch : UInt8) (hch : ch = 0x2A ∨ ch = 0x5F) (p n : Nat) (hn : 1 ≤ n)
    (hpn : p + n ≤ E) (hrun : ∀ j, j < n → src[p + j]? = some ch)
    (hstop : p + n = E ∨ ∃ x, src[p + n]? = some x ∧ x ≠ ch) (ps : Nat) :
    Seg c f a E last p ps (p + n) (p + n) (delimT c ch ps p n) :=
  Seg.ofStep (by omega) (fun s => by simp [delimT, pushAll_up]) (fun s hs i => by
    have hs' : At c a E last (addLeafP IK.text (ps : Int) (p : Int) s) := hs.congr (by simp)
    have hd := parseDelimiterRun_run hA _ hs' hE ch p n hn hpn hrun hstop
    have h0 := hrun 0 (by omega)
    rw [Nat.add_zero] at h0
    have := hf.delim i p a E last (ps : Int) s ch _
      (fun s' => pushStkP (delimEntry c ch p n s'.nodes.size) (pushP (leafN IK.text p (p + n)) s')) hs (by omega) h0 hch hd
    rw [this, addText_flush]
    rfl)

end CM.Proofs.InlSer
