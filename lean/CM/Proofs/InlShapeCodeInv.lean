import CM.Proofs.InlShapeCodeRd
import CM.Model.Inlines
/-
C13, inline half — code spans: the loop invariants of `parseCodeSpan` and their transitions (pure).
-/
namespace CM.Proofs.InlH
open CM CM.Model CM.Model.Inl CM.Gen CM.Proofs CM.Proofs.BG

/-- What the code-span clause needs to know about a container's block-phase inline children `U`. -/
structure CSHyp (U : List Tree) (src : Bytes) (N : Nat) : Prop where
  ind : IndentWS src U
  edges : TickEdges src U
  ne : NodesNE U
  sorted : SortedSpans U
  bound : SpansOK N U

/-- `n` backticks from position `a` -/
def TickRun (src : Bytes) (a n : Nat) : Prop := ∀ i, i < n → src[a + i]? = some 0x60

theorem TickRun.snoc {src : Bytes} {a n : Nat} (h : TickRun src a n) (hn : src[a + n]? = some 0x60) :
    TickRun src a (n + 1) := by
  intro i hi
  by_cases h' : i < n
  · exact h i h'
  · have : i = n := by omega
    rw [this]; exact hn

def RdOK' (m N : Nat) (r : Rd) : Prop := ∃ pv, RdOK m N pv r

theorem RdOK'.current {m N : Nat} {r : Rd} (src : Bytes) (h : RdOK' m N r) : RdOK' m N (r.current src).2 :=
  h.imp fun _ h' => h'.current src

theorem RdOK'.next {m N : Nat} {r : Rd} (src : Bytes) (h : RdOK' m N r) : RdOK' m N (r.next src).2 :=
  h.imp fun _ h' => h'.next src

theorem RdOK'.rebase {m N : Nat} {r : Rd} (h : RdOK' m N r) : RdOK' r.pos N r := by
  obtain ⟨pv, h⟩ := h
  exact ⟨false, h.spans, h.sorted, h.pos, Nat.le_refl _, h.prev, h.prevlb, fun h' => (by cases h'), h.iv⟩

section
variable {U : List Tree} {src : Bytes} {N : Nat}

/-- a byte that is neither white space nor zero is what `current` returns (Indent nodes cover white space) -/
theorem current_of_byte (hind : IndentWS src U) {r : Rd} (hs : Suf U r) {b : UInt8} (hb : src[r.pos]? = some b)
    (h0 : b ≠ 0) (hsp : b ≠ SP ∧ b ≠ TAB) : (r.current src).1 = b := by
  obtain ⟨hlt, hget⟩ := List.getElem?_eq_some_iff.1 hb
  have hgd : src.getD r.pos 0 = b := by rw [List.getD_eq_getElem?_getD, hb]; rfl
  have hgd1 : src.getD r.currentNode.2.pos 0 = b := by rw [(currentNode_pos r).1]; exact hgd
  have hne : ¬ (b == 0) = true := by simpa using h0
  unfold Rd.current
  rw [if_neg (by omega)]
  simp only []
  cases hn : r.currentNode.1 with
  | none => simp only [hgd1, if_neg hne]
  | some t =>
    simp only []
    obtain ⟨hmem, hcont, _⟩ := currentNode_some hn
    cases hi : isIndent t with
    | false => simp only [Bool.false_eq_true, if_false, hgd1, if_neg hne]
    | true =>
      exfalso
      obtain ⟨k, hk⟩ := hs
      have hmemU : t ∈ U := by rw [hk] at hmem; exact List.mem_of_mem_drop hmem
      have hst : t.label.start ≤ (r.pos : Int) := by
        unfold spanContains at hcont
        simp only [Bool.and_eq_true, decide_eq_true_eq] at hcont
        omega
      rcases hind t hmemU hi r.pos hst (spanContains_lt hcont) with h' | h'
      · rw [hb] at h'; exact hsp.1 (Option.some.inj h')
      · rw [hb] at h'; exact hsp.2 (Option.some.inj h')

/-- `current` did not return a backtick: there is none at the reader's position -/
theorem no_tick_of_current (hind : IndentWS src U) {r : Rd} (hs : Suf U r) (hch : (r.current src).1 ≠ 0x60) :
    src[r.pos]? ≠ some 0x60 := fun hb => hch (current_of_byte hind hs hb (by decide) (by decide))

theorem onTick_of_current' {r : Rd} (hc : (r.current src).1 = 0x60) (hs : Suf U r) :
    OnTick U src (r.current src).2 r.pos ∧ (r.current src).2.prev = r.prev :=
  onTick_of_current (Prod.ext hc rfl) hs

/-! ### the opening run -/

/-- Invariant of the loop over the opening run. -/
def I1 (U : List Tree) (src : Bytes) (a N : Nat) (ret : Option CodeSpan) (r : Rd) (n : Nat) (opened : Bool) : Prop :=
  (∀ cs, ret = some cs → cs.span.isValid = false) ∧
  (ret = none → Suf U r ∧ RdOK' a N r ∧ r.pos = a + n ∧ TickRun src a n ∧ (1 ≤ n → InNode r) ∧
    (opened = true → (r.current src).1 ≠ 0x60 ∧ 1 ≤ n))

theorem invalid_span (a b : Int) : (SpanI.mk a (-1)).isValid = false := by
  unfold SpanI.isValid
  simp

/-- the start -/
theorem I1.init (H : CSHyp U src N) (a k : Nat) (ha : a ≤ N) : I1 U src a N none (newReader (U.drop k) a) 0 false := by
  refine ⟨fun cs hcs => (by cases hcs), fun _ => ⟨⟨k, rfl⟩, ⟨false, ?_⟩, rfl, fun i hi => (by omega), fun h => (by omega),
    fun h => (by cases h)⟩⟩
  exact ⟨H.bound.drop k, H.sorted.drop k, ha, Nat.le_refl _, by show (-1 : Int) + 1 ≤ _; omega, by show (-1 : Int) ≤ -1; omega,
    fun h => (by cases h), Or.inl (by show (-1 : Int) + 1 ≤ _; omega)⟩

theorem I1.ret_invalid {a : Nat} {r : Rd} {n : Nat} {o : Bool} (x y z : Int) :
    I1 U src a N (some { span := ⟨x, -1⟩, content := ⟨y, z⟩ }) r n o :=
  ⟨fun cs hcs => by cases hcs; exact invalid_span x 0, fun h => by cases h⟩

/-- one more backtick of the opening run -/
theorem I1.tick (H : CSHyp U src N) {a : Nat} {r : Rd} {n : Nat} (h : I1 U src a N none r n false)
    (hc : (r.current src).1 = 0x60) (hok : ((r.current src).2.next src).1 = true) :
    I1 U src a N none ((r.current src).2.next src).2 (n + 1) false := by
  obtain ⟨hs, hrd, hpos, hrun, hin, _⟩ := h.2 rfl
  obtain ⟨hot, _⟩ := onTick_of_current' hc hs
  -- the reader stands in a node (else `next` fails)
  have hnode : ∃ t, AtHead (r.current src).2 t ∧ isIndent t = false := by
    rcases hot.node with h' | h'
    · exact h'
    · have := (next_nil src _ h').1
      rw [this] at hok; cases hok
  obtain ⟨h1, h2, h3, _⟩ := (next_onTick H.edges H.ne hot hnode).1 hok
  refine ⟨fun cs hcs => (by cases hcs), fun _ => ⟨h1, (hrd.current src).next src, by rw [h3, hpos]; omega, ?_,
    fun _ => h2, fun ho => (by cases ho)⟩⟩
  exact hrun.snoc (by rw [← hpos]; exact hot.tick)

/-- the opening run ends -/
theorem I1.opened (H : CSHyp U src N) {a : Nat} (hstart : src[a]? = some 0x60) {r : Rd} {n : Nat}
    (h : I1 U src a N none r n false) (hc : (r.current src).1 ≠ 0x60) : I1 U src a N none (r.current src).2 n true := by
  obtain ⟨hs, hrd, hpos, hrun, hin, _⟩ := h.2 rfl
  have hn : 1 ≤ n := by
    by_cases hn : 1 ≤ n
    · exact hn
    · exfalso
      have : n = 0 := by omega
      subst this
      exact no_tick_of_current H.ind hs hc (by rw [hpos]; exact hstart)
  obtain ⟨t, hat⟩ := hin hn
  have e : (r.current src).2 = r := current_snd_atHead hat
  refine ⟨fun cs hcs => (by cases hcs), fun _ => ?_⟩
  rw [e]
  exact ⟨hs, hrd, hpos, hrun, hin, fun _ => ⟨hc, hn⟩⟩

/-! ### the body and the closing run -/

/-- What a (valid) result says: it starts at `start`, and ends with `n` backticks from `pE` that come after the
    opening run and are not preceded by a backtick. -/
def Good (src : Bytes) (a n : Nat) (start : Int) (cs : CodeSpan) : Prop :=
  cs.span.isValid = true → cs.span.start = start ∧
    ∃ pE : Nat, cs.span.stop = ((pE + n : Nat) : Int) ∧ a + n < pE ∧ TickRun src pE n ∧ NoTickBefore src pE

/-- `Pre`: if the reader stands on a backtick, the byte before is not one -/
def TickPre (src : Bytes) (r : Rd) : Prop := (r.current src).1 = 0x60 → NoTickBefore src r.pos

/-- Invariant of the body loop. -/
def I2 (U : List Tree) (src : Bytes) (a N n : Nat) (start : Int) (ret : Option CodeSpan) (r : Rd) : Prop :=
  (∀ cs, ret = some cs → Good src a n start cs) ∧
  (ret = none → Suf U r ∧ InNode r ∧ RdOK' (a + n) N r ∧ TickPre src r)

/-- after the next successful `next`, the body loop's invariant holds again -/
def NextPre (U : List Tree) (src : Bytes) (m N : Nat) (r : Rd) : Prop :=
  (r.next src).1 = true → Suf U (r.next src).2 ∧ InNode (r.next src).2 ∧ RdOK' m N (r.next src).2 ∧
    TickPre src (r.next src).2

/-- Invariant of the loop over a closing run that starts at `pE`. -/
def I3 (U : List Tree) (src : Bytes) (m N pE : Nat) (r : Rd) (run : Nat) (runDone : Bool) : Prop :=
  TickRun src pE run ∧ 1 ≤ run ∧
  (runDone = false → OnTick U src r (pE + run - 1) ∧ (∃ t, AtHead r t ∧ isIndent t = false) ∧ RdOK' m N r) ∧
  (runDone = true → r.prev + 1 = ((pE + run : Nat) : Int) ∧ NextPre U src m N r)

theorem Good.invalid {a n : Nat} {start : Int} (x y z : Int) :
    Good src a n start { span := ⟨x, -1⟩, content := ⟨y, z⟩ } := by
  intro h
  rw [invalid_span x 0] at h
  cases h

theorem I2.ret {a n : Nat} {start : Int} {cs : CodeSpan} {r : Rd} (h : Good src a n start cs) :
    I2 U src a N n start (some cs) r :=
  ⟨fun cs' h' => by cases h'; exact h, fun h' => by cases h'⟩

/-- the body loop starts where the opening run ended; the byte after the run is not a backtick -/
theorem I2.init (H : CSHyp U src N) {a : Nat} {start : Int} {r : Rd} {n : Nat} (h : I1 U src a N none r n true) :
    I2 U src a N n start none r ∧ src[a + n]? ≠ some 0x60 ∧ 1 ≤ n ∧ TickRun src a n := by
  obtain ⟨hs, hrd, hpos, hrun, hin, ho⟩ := h.2 rfl
  obtain ⟨hc, hn⟩ := ho rfl
  refine ⟨⟨fun cs hcs => (by cases hcs), fun _ => ⟨hs, hin hn, ?_, fun hc' => absurd hc' hc⟩⟩, ?_, hn, hrun⟩
  · have := hrd.rebase; rw [hpos] at this; exact this
  · rw [← hpos]; exact no_tick_of_current H.ind hs hc

/-- a byte that is not a backtick: on to the next -/
theorem I2.step (H : CSHyp U src N) {a n : Nat} {start : Int} {r : Rd} (h : I2 U src a N n start none r)
    (hc : (r.current src).1 ≠ 0x60) (hok : ((r.current src).2.next src).1 = true) :
    I2 U src a N n start none ((r.current src).2.next src).2 := by
  obtain ⟨hs, ⟨t, hat⟩, hrd, _⟩ := h.2 rfl
  have e : (r.current src).2 = r := current_snd_atHead hat
  rw [e] at hok ⊢
  obtain ⟨h1, h2, h3⟩ := next_pre H.edges H.ne hs hat hc hok
  exact ⟨fun cs hcs => (by cases hcs), fun _ => ⟨h1, h2, hrd.next src, h3⟩⟩

/-- a backtick: a closing run starts here, after the opening run and not preceded by a backtick -/
theorem I2.found (H : CSHyp U src N) {a n : Nat} {start : Int} {r : Rd} (h : I2 U src a N n start none r)
    (hnt : src[a + n]? ≠ some 0x60) (hc : (r.current src).1 = 0x60) :
    I3 U src (a + n) N (r.current src).2.pos (r.current src).2 1 false ∧ NoTickBefore src (r.current src).2.pos ∧
      a + n < (r.current src).2.pos := by
  obtain ⟨hs, ⟨t, hat⟩, hrd, hpre⟩ := h.2 rfl
  obtain ⟨hot, _⟩ := onTick_of_current' hc hs
  have e : (r.current src).2 = r := current_snd_atHead hat
  have hnode : ∃ t, AtHead (r.current src).2 t ∧ isIndent t = false := by
    rcases hot.node with h' | h'
    · exact h'
    · rw [e] at h'
      obtain ⟨rest, hsp, _⟩ := hat
      rw [hsp] at h'; cases h'
  rw [e] at hot hnode ⊢
  obtain ⟨pv, hrd'⟩ := hrd
  have hlo := hrd'.lo
  refine ⟨⟨fun i hi => ?_, Nat.le_refl _, fun _ => ⟨by simpa using hot, hnode, ⟨pv, hrd'⟩⟩, fun h' => (by cases h')⟩,
    hpre hc, ?_⟩
  · have : i = 0 := by omega
    rw [this]; exact hot.tick
  · have hne : a + n ≠ r.pos := by
      intro h'
      rw [h'] at hnt
      exact hnt hot.tick
    omega

/-- the closing run ends because the reader does -/
theorem I3.stop_fail (H : CSHyp U src N) {m pE : Nat} {r : Rd} {run : Nat} (h : I3 U src m N pE r run false)
    (hf : (r.next src).1 = false) : I3 U src m N pE (r.next src).2 run true := by
  obtain ⟨hrun, h1, hf', _⟩ := h
  obtain ⟨hot, hnode, hrd⟩ := hf' rfl
  obtain ⟨hp, hsp⟩ := (next_onTick H.edges H.ne hot hnode).2 hf
  refine ⟨hrun, h1, fun h' => (by cases h'), fun _ => ⟨by rw [hp]; omega, fun hok => ?_⟩⟩
  have := (next_nil src _ hsp).1
  rw [this] at hok; cases hok

/-- the closing run ends at a byte that is not a backtick -/
theorem I3.stop_byte (H : CSHyp U src N) {m pE : Nat} {r : Rd} {run : Nat} (h : I3 U src m N pE r run false)
    (hok : (r.next src).1 = true) (hc : ((r.next src).2.current src).1 ≠ 0x60) :
    I3 U src m N pE ((r.next src).2.current src).2 run true := by
  obtain ⟨hrun, h1, hf', _⟩ := h
  obtain ⟨hot, hnode, hrd⟩ := hf' rfl
  obtain ⟨hs2, ⟨t2, hat2⟩, hp2, hprev2⟩ := (next_onTick H.edges H.ne hot hnode).1 hok
  have e : ((r.next src).2.current src).2 = (r.next src).2 := current_snd_atHead hat2
  rw [e]
  refine ⟨hrun, h1, fun h' => (by cases h'), fun _ => ⟨by rw [hprev2]; omega, fun hok2 => ?_⟩⟩
  obtain ⟨k1, k2, k3⟩ := next_pre H.edges H.ne hs2 hat2 hc hok2
  exact ⟨k1, k2, (hrd.next src).next src, k3⟩

/-- one more backtick of the closing run -/
theorem I3.tick (H : CSHyp U src N) {m pE : Nat} {r : Rd} {run : Nat} (h : I3 U src m N pE r run false)
    (hok : (r.next src).1 = true) (hc : ((r.next src).2.current src).1 = 0x60) :
    I3 U src m N pE ((r.next src).2.current src).2 (run + 1) false := by
  obtain ⟨hrun, h1, hf', _⟩ := h
  obtain ⟨hot, hnode, hrd⟩ := hf' rfl
  obtain ⟨hs2, ⟨t2, hat2⟩, hp2, hprev2⟩ := (next_onTick H.edges H.ne hot hnode).1 hok
  obtain ⟨hot2, _⟩ := onTick_of_current' hc hs2
  have e : ((r.next src).2.current src).2 = (r.next src).2 := current_snd_atHead hat2
  have hnode2 : ∃ t, AtHead ((r.next src).2.current src).2 t ∧ isIndent t = false := by
    rcases hot2.node with h' | h'
    · exact h'
    · rw [e] at h'
      obtain ⟨rest, hsp, _⟩ := hat2
      rw [hsp] at h'; cases h'
  have hpe : pE + (run + 1) - 1 = (r.next src).2.pos := by rw [hp2]; omega
  refine ⟨?_, by omega, fun _ => ⟨by rw [hpe]; exact hot2, hnode2, ((hrd.next src).current src)⟩, fun h' => (by cases h')⟩
  refine hrun.snoc ?_
  have := hot2.tick
  rw [hp2] at this
  have e2 : pE + run - 1 + 1 = pE + run := by omega
  rw [e2] at this
  exact this

/-- the closing run has the length of the opening run: the result -/
theorem I3.result {m pE : Nat} {r : Rd} {run : Nat} (h : I3 U src m N pE r run true) {a n : Nat} {start : Int}
    (h0 : 0 ≤ start) (hrun : run = n) (hpre : NoTickBefore src pE) (hlt : a + n < pE) (x y : Int) :
    Good src a n start { span := ⟨start, r.prev + 1⟩, content := ⟨x, y⟩ } := by
  obtain ⟨hr, _, _, hd⟩ := h
  obtain ⟨hp, _⟩ := hd rfl
  subst hrun
  intro _
  exact ⟨rfl, pE, hp, hlt, hr, hpre⟩

/-- the closing run has another length: on with the body -/
theorem I3.continue {pE : Nat} {r : Rd} {run : Nat} {a n : Nat} (h : I3 U src (a + n) N pE r run true) {start : Int}
    (hok : (r.next src).1 = true) : I2 U src a N n start none (r.next src).2 := by
  obtain ⟨_, _, _, hd⟩ := h
  obtain ⟨_, hnp⟩ := hd rfl
  obtain ⟨k1, k2, k3, k4⟩ := hnp hok
  exact ⟨fun cs hcs => (by cases hcs), fun _ => ⟨k1, k2, k3, k4⟩⟩

end

end CM.Proofs.InlH
