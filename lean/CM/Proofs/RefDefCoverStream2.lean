import CM.Proofs.RefDefCoverStream1
/-
C03, block half — discharging `RefDefCoverOK` along a run, part 2: the per-line loop `parseLines` of the checked block
parser `blocksLPk`. The joint invariant: spans (C02), paragraphs made of lines in the strong sense (`GoodT2`), the node
grammar (C05), well-formedness and coverage (C03) — together they make both checks pass before every line.
-/
namespace CM.Proofs.RDC
open CM CM.Model CM.Gen CM.Proofs CM.Proofs.BSp CM.Proofs.RDS CM.Proofs.Cov CM.Proofs.BT CM.Proofs.BG

/-- A session before its next line (which starts at `ls`). -/
structure SessJ (ls : Nat) (p : BP) (lp : LP) : Prop where
  inv : LPInv' lp
  spans : PBSpans QT 0 ls lp.root
  live : lp.root.label.stop < 0 ∨ (lp.root.blocks = [] ∧ ls = p.i ∧ p.buf.drop p.i = [])
  good : GoodT2 (p.buf.take ls) (ls : Int) lp.root
  g : PBGrammar lp.root
  wf : WF QT lp.root
  cov : ∀ j, j < ls → need (p.buf.getD j 0) = true → covPB lp.root j = true
  fr : lp.root.label.stop < 0 → lp.state = 4 → TopOK lp.root
  fo : ∀ k rest, lp.root.blocks = k :: rest → k.isOpen = true
  eol : EolAt p.buf ls

/-- The stream state between `NextBlock` calls. -/
structure BPJ (buf0 : Bytes) (p : BP) : Prop where
  k : BPK buf0 p
  good : ∀ b ∈ p.blocks, GoodT2 (p.buf.take p.i) (p.i : Int) b
  kids : KidsOK p.blocks
  np : p.panic ≠ some coverFail
  eol : EolAt p.buf p.i

theorem parseLines_J (x : PExt) (buf0 : Bytes) : ∀ (fuel : Nat) (lp : LP) (ls : Nat) (p : BP), p.err.isSome = true →
    p.i ≤ p.buf.length → p.i = ls + lineLen (p.buf.drop ls) → (∀ c ∈ p.buf, c ∈ buf0) → p.panic ≠ some coverFail →
    SessJ ls p lp →
    isCoverFail (parseLines (blocksLPk x) fuel (lp, true) ls p).1 = false ∧
    ∀ r p', parseLines (blocksLPk x) fuel (lp, true) ls p = (.block r, p') → BPJ buf0 p' := by
  intro fuel
  induction fuel with
  | zero =>
    intro lp ls p _ _ _ _ _ _
    refine ⟨coverFail_ne_fuel, fun r p' h => ?_⟩
    simp [parseLines] at h
  | succ fuel ih =>
    intro lp ls p herr hi hrel hsub hnp hs
    have hlp := hs.inv
    have hls : ls ≤ p.i := by omega
    have hsl : (p.buf.take p.i).length = p.i := by simp [hi]
    have hnpl := processLine_no_panic x _ (reset_LPInv lp hlp (p.buf.take p.i) ls)
    have hrl : readline (p.rd.data.length + p.rd.sched.length + 2) p =
        (decide (0 < lineLen (p.buf.drop p.i)), { p with i := p.i + lineLen (p.buf.drop p.i) }) :=
      CM.Model.readline_mem (p.rd.data.length + p.rd.sched.length + 1) p herr hi
    have hi2 : p.i + lineLen (p.buf.drop p.i) ≤ p.buf.length := by
      have := lineLen_le (p.buf.drop p.i)
      simp only [List.length_drop] at this
      omega
    -- the tree is good for the source of this line, so both checks pass
    have hE := eolAt_mono p.buf ls p.i hls hi hs.eol (fun hd => by rw [hd] at hrel; simpa [lineLen] using hrel)
    have hgsrc : GoodT2 (p.buf.take p.i) (ls : Int) lp.root :=
      GoodT2_mono_spans (take_prefix_take p.buf hls) (Int.le_refl _) hE lp.root 0 ls (Int.le_refl 0) hs.spans hs.good
    have hcheck1 : pbSpans (RefDefSpansOK x (p.buf.take p.i) ↑ls ↑(p.buf.take p.i).length) 0 ↑ls lp.root = true :=
      pbSpans_upgrade x (p.buf.take p.i) ls ls (by rw [hsl]; omega) lp.root 0 (Int.le_refl _) hs.spans hgsrc.toGood
    have hcheck2 : opB (RefDefCoverOK x (p.buf.take p.i) ↑ls ↑(p.buf.take p.i).length) lp.root = true :=
      opB_upgrade x (p.buf.take p.i) ls ls (by rw [hsl]; omega) lp.root 0 (Int.le_refl _) hs.spans hgsrc hs.g hs.wf
    simp only [parseLines, blocksLPk]
    rw [hcheck1, hcheck2]
    simp only [Bool.and_self, if_true, hnpl.1]
    -- the tree after the line
    have hLO : LineOK ((p.buf.take p.i).drop ls) := by rw [hrel]; exact lineOK_source p.buf ls
    obtain ⟨r1, r2, r3, r4⟩ := BSp.reset_fields lp (p.buf.take p.i) ls
    have hgi : GI2 (p.buf.take p.i) (ls : Int) ls (lp.reset (p.buf.take p.i) ls) :=
      ⟨r2, r3, r4, by rw [r1]; exact hgsrc⟩
    have hgood' : GoodT2 (p.buf.take p.i) (p.i : Int) (processLine x (lp.reset (p.buf.take p.i) ls)).root := by
      have := processLine_st2 x _ (reset_LPInv lp hlp (p.buf.take p.i) ls).toInv hLO (by rw [hsl]; exact hls) (Int.le_refl _) hgi
      rw [hsl] at this
      exact this
    have hlpg' : LPG (processLine x (lp.reset (p.buf.take p.i) ls)) :=
      blocksLP_line_LPG x lp ⟨hlp.panic, hlp.root, hs.g⟩ (p.buf.take p.i) ls
    have heolP : EolAt p.buf p.i := by rw [hrel]; exact eolAt_next p.buf ls (by omega) hs.eol
    by_cases hopen : lp.root.label.stop < 0
    · -- a live session
      have key := BSp.processLine_spans x lp (p.buf.take p.i) ls hlp (by rw [hsl]; exact hls) hopen hcheck1
      have heol : EolOK ((p.buf.take p.i).drop ls) := by
        have e : (p.buf.take p.i).drop ls = (p.buf.drop ls).take (lineLen (p.buf.drop ls)) := by
          rw [List.drop_take]; congr 1; omega
        rw [e]; exact eolOK_line _
      have hfresh : Fresh x (lp.reset (p.buf.take p.i) ls) := by
        by_cases h4 : lp.state = 4
        · right
          obtain ⟨c, hc, hcm⟩ := hs.fr hopen h4
          have hmk := hs.fo
          have hsp2 := hs.spans
          rcases hlr : lp.root with ⟨l, bs, is⟩
          rw [hlr] at hc hsp2 hmk
          rw [spineGet_succ] at hc
          cases hgl : bs.getLast? with
          | none => rw [hgl] at hc; cases hc
          | some c0 =>
            rw [hgl] at hc
            have hc' : spineGet c0 0 = some c := hc
            rw [spineGet_zero] at hc'
            have hcc : c0 = c := Option.some.inj hc'
            subst hcc
            cases bs with
            | nil => cases hgl
            | cons k rest =>
              have hko := hmk k rest rfl
              rw [PBSpans_mk] at hsp2
              obtain ⟨_, _, _, _, a5, _⟩ := hsp2
              rw [PBSpansL_cons] at a5
              have hrest := (a5.2.1 hko).1
              subst hrest
              simp only [List.getLast?_singleton, Option.some.injEq] at hgl
              subst hgl
              refine ⟨k, ?_, hko, ?_⟩
              · rw [(BSp.reset_fields lp (p.buf.take p.i) ls).1, hlr, spineGet_succ]
                simp [spineGet_zero]
              · rw [ruleMatch_isSome]; exact hcm hko
        · left; rw [reset_state]; exact h4
      have d := processLine_cover x lp (p.buf.take p.i) ls hlp (by rw [hsl]; exact hls) heol hs.wf
        (fun j hj hn => hs.cov j hj (by rw [← getD_take (show j < p.i by omega)]; exact hn)) hcheck2 hfresh
      rw [hsl] at key
      generalize processLine x (lp.reset (p.buf.take p.i) ls) = lp' at hnpl key d hgood' hlpg' ⊢
      rcases hr : lp'.root with ⟨l, bs, is⟩
      have hkids : lp'.root.blocks = bs := by rw [hr]; rfl
      have hkd : l.kind = BK.document := by
        have := hnpl.2.root
        rw [hr] at this; exact this
      simp only [PB.blocks]
      have hsp' := key.1
      rw [hr, PBSpans_mk] at hsp'
      obtain ⟨a1, a2, a3, a4, a5, a6⟩ := hsp'
      have hwr := d.ci.wf
      rw [hr] at hwr
      have hwk := (WF_mk.mp hwr).2.2.2
      have hall : ∀ j, j < p.i → need (p.buf.getD j 0) = true → covPB lp'.root j = true := by
        intro j hj hn
        exact d.all j (by rw [hsl]; exact hj) (by rw [getD_take hj]; exact hn)
      have hgk : ∀ b ∈ bs, GoodT2 (p.buf.take p.i) (p.i : Int) b := by
        have := hgood'
        rw [hr, GoodT2_mk] at this
        exact this.2
      have hkok : KidsOK bs := by
        have := kids_of_doc lp'.root hlpg'.root hlpg'.g
        rw [hkids] at this; exact this
      cases hmk : makeRoot p bs with
      | some rp =>
        obtain ⟨r0, p0⟩ := rp
        refine ⟨rfl, fun r p' h => ?_⟩
        simp only [Prod.mk.injEq, NBOut.block.injEq] at h
        obtain ⟨rfl, rfl⟩ := h
        have hne : bs ≠ [] := by
          intro e; rw [e] at hmk; simp [makeRoot] at hmk
        have hK := makeRoot_K buf0 p bs _ _ _ herr hi a1 a3 a5 hwk (by
          intro j hj hn
          have := hall j hj hn
          rw [hr, covPB_doc hkd hne] at this
          exact this) hsub _ _ hmk
        have a5' : PBSpansL QT (decide (l.stop < 0)) l.start p.i bs := PBSpansL_mono' (Int.le_refl _) a3 a5
        obtain ⟨m1, m2, m3⟩ := makeRoot_good2 p bs _ l.start hi a5' hgk hnp heolP _ _ hmk
        exact ⟨hK.2, m1, (makeRoot_G hmk hkok).2, m2, m3⟩
      | none =>
        simp only [hrl]
        have hrel' : (p.i + lineLen (p.buf.drop p.i)) = p.i + lineLen (p.buf.drop p.i) := rfl
        apply ih lp' p.i ({ p with i := p.i + lineLen (p.buf.drop p.i) } : BP) herr hi2 hrel' hsub hnp
        refine ⟨hnpl.2, key.1, ?_, hgood', hlpg'.g, d.ci.wf, hall, fun _ h4 => d.top h4, fun k rest e => by
          rw [hkids] at e; rw [e] at hmk; exact makeRoot_none_open hmk, heolP⟩
        by_cases hro : lp'.root.label.stop < 0
        · exact Or.inl hro
        · right
          have hrc : 0 ≤ l.stop := by rw [hr] at hro; simp only [PB.label] at hro; omega
          have hlt : ¬ ls < p.i := fun hlt => hro (key.2 hlt)
          have hlsi : ls = p.i := by omega
          have h0 : lineLen (p.buf.drop p.i) = 0 := by
            have : lineLen (p.buf.drop ls) = 0 := by omega
            rw [← hlsi]; exact this
          have hd := lineLen_eq_zero h0
          refine ⟨?_, ?_, ?_⟩
          · rw [hkids]
            cases bs with
            | nil => rfl
            | cons k rest =>
              exfalso
              have hd1 : decide (l.stop < 0) = false := by simp; omega
              rw [hd1] at a5
              have hkc := allClosed_of_false a5 k (by simp)
              have : k.isOpen = false := (isOpen_false_iff k).mpr hkc
              simp [makeRoot, this] at hmk
          · show p.i = p.i + lineLen (p.buf.drop p.i)
            omega
          · show p.buf.drop (p.i + lineLen (p.buf.drop p.i)) = []
            rw [h0, Nat.add_zero]; exact hd
    · -- a dead session
      rcases hs.live with hl | ⟨hnob, hlsi, hdrop⟩
      · exact absurd hl hopen
      have hclosed : 0 ≤ lp.root.label.stop := by omega
      have hdl : (p.buf.take p.i).drop ls = [] := by
        rw [hlsi]; simp
      have hroot := processLine_dead x lp (p.buf.take p.i) ls hdl hclosed hnob
      generalize processLine x (lp.reset (p.buf.take p.i) ls) = lp' at hnpl hroot hgood' hlpg' ⊢
      rw [hroot, hnob]
      simp only [makeRoot, hrl]
      have h0 : lineLen (p.buf.drop p.i) = 0 := by rw [hdrop]; rfl
      have hrel' : (p.i + lineLen (p.buf.drop p.i)) = p.i + lineLen (p.buf.drop p.i) := rfl
      apply ih lp' p.i ({ p with i := p.i + lineLen (p.buf.drop p.i) } : BP) herr hi2 hrel' hsub hnp
      refine ⟨hnpl.2, (by rw [hroot, ← hlsi]; exact hs.spans), Or.inr ⟨(by rw [hroot]; exact hnob), ?_, ?_⟩, hgood', hlpg'.g,
        (by rw [hroot]; exact hs.wf), (fun j hj hn => by rw [hroot]; exact hs.cov j (by omega) hn),
        (fun ho => by rw [hroot] at ho; omega), (fun k rest e => by rw [hroot, hnob] at e; cases e), heolP⟩
      · show p.i = p.i + lineLen (p.buf.drop p.i)
        omega
      · show p.buf.drop (p.i + lineLen (p.buf.drop p.i)) = []
        rw [h0, Nat.add_zero]; exact hdrop

end CM.Proofs.RDC
