import CM.Proofs.BlankSuffixRun
/-
Prefix stability, for EVERY line parser and ANY trailing bytes: as long as the parse position of the run on `x` is
strictly inside its buffer after a `NextBlock` call, that call and all the earlier ones returned exactly what they
return on `x ++ t`. (Once the parse position has reached the end of the buffer it stays there: `AtEnd` is absorbing.)
-/
namespace CM.Proofs
open CM CM.Model CM.Gen

/-- The parse position is at the end of the buffer of an in-memory parser. -/
structure AtEnd (q : BP) : Prop where
  i : q.i = q.buf.length
  err : q.err.isSome = true

theorem rl_atEnd {q : BP} (h : AtEnd q) : readline (q.rd.data.length + q.rd.sched.length + 2) q = (false, q) := by
  have h1 := Model.readline_mem (q.rd.data.length + q.rd.sched.length + 1) q h.err (by rw [h.i]; exact Nat.le_refl _)
  have hdB : q.buf.drop q.i = [] := by rw [h.i]; simp
  rw [hdB] at h1
  rw [h1]; simp

theorem AtEnd.afterRoot {q : BP} (h : AtEnd q) (k : PB) (rest : List PB) : AtEnd (afterRoot q k rest) := by
  refine ⟨?_, h.err⟩
  show q.i - _ = (q.buf.drop _).length
  rw [h.i, List.length_drop]

theorem parseLines_atEnd (L : LineParserI) : ∀ (f : Nat) (lp : L.σ) (ls : Nat) (q : BP), AtEnd q →
    AtEnd (parseLines L f lp ls q).2 := by
  intro f
  induction f with
  | zero => intro lp ls q h; exact h
  | succ f ih =>
    intro lp ls q h
    cases hpan : L.panicked (L.line lp (q.buf.take q.i) ls) with
    | some m => rw [parseLines_panicked L hpan]; exact h
    | none =>
      cases hkids : L.kids (L.line lp (q.buf.take q.i) ls) with
      | nil =>
        have mB : makeRoot q (L.kids (L.line lp (q.buf.take q.i) ls)) = none := by rw [hkids]; rfl
        rw [parseLines_next L hpan mB, rl_atEnd h]
        exact ih _ _ _ h
      | cons k rest =>
        cases ho : k.isOpen with
        | true =>
          have mB : makeRoot q (L.kids (L.line lp (q.buf.take q.i) ls)) = none := by
            rw [hkids]; exact makeRoot_open _ _ _ ho
          rw [parseLines_next L hpan mB, rl_atEnd h]
          exact ih _ _ _ h
        | false =>
          have mB : makeRoot q (L.kids (L.line lp (q.buf.take q.i) ls)) = some (rootOf q k, afterRoot q k rest) := by
            rw [hkids]; exact makeRoot_closed _ _ _ ho
          rw [parseLines_root L hpan mB]
          exact h.afterRoot k rest

theorem afterSkip_none_snd (L : LineParserI) (f : Nat) (q : BP) : (afterSkip L f (none, q)).2 = q := by
  simp only [afterSkip]
  cases q.panic <;> rfl

theorem nextBlock_atEnd (L : LineParserI) {q : BP} (h : AtEnd q) : AtEnd (nextBlock L q).2 := by
  rw [nextBlock_eq_F]
  cases hbl : q.blocks with
  | nil =>
    have mB : makeRoot q q.blocks = none := by rw [hbl]; rfl
    have lB : ¬ q.blocks.length > 0 := by rw [hbl]; simp
    rw [nextBlockF_fresh L mB lB]
    have hb : (freshLine q).buf = [] := by
      show q.buf.drop q.i = []
      rw [h.i]; simp
    have hf : bpFuel q = (bpFuel q - 1) + 1 := by simp only [bpFuel]; omega
    rw [hf, skipBlank_nil _ (freshLine q) hb rfl h.err, afterSkip_none_snd]
    exact ⟨by show 0 = (freshLine q).buf.length; rw [hb]; rfl, h.err⟩
  | cons k rest =>
    cases ho : k.isOpen with
    | true =>
      have mB : makeRoot q q.blocks = none := by rw [hbl]; exact makeRoot_open _ _ _ ho
      have lB : q.blocks.length > 0 := by rw [hbl]; simp
      rw [nextBlockF_pending L mB lB, rl_atEnd h]
      exact parseLines_atEnd L _ _ _ _ h
    | false =>
      have mB : makeRoot q q.blocks = some (rootOf q k, afterRoot q k rest) := by
        rw [hbl]; exact makeRoot_closed _ _ _ ho
      rw [nextBlockF_root L mB]
      exact h.afterRoot k rest

theorem callN_atEnd (L : LineParserI) : ∀ (n : Nat) {q : BP}, AtEnd q → AtEnd (callN L n q).2 := by
  intro n
  induction n with
  | zero => intro q h; exact nextBlock_atEnd L h
  | succ n ih => intro q h; exact ih (nextBlock_atEnd L h)

theorem callN_sticky (L : LineParserI) : ∀ (n : Nat) (q : BP), q.err.isSome = true →
    (callN L n q).2.err.isSome = true ∧ (q.panic.isSome = true → (callN L n q).2.panic.isSome = true) := by
  intro n
  induction n with
  | zero => intro q h; exact nextBlock_sticky L q h
  | succ n ih =>
    intro q h
    obtain ⟨a, b⟩ := nextBlock_sticky L q h
    obtain ⟨c, d⟩ := ih (nextBlock L q).2 a
    exact ⟨c, fun hp => d (b hp)⟩

/-- What is shown about one call: the run on `q` has reached the end of its buffer, or the two calls returned the
    same and the runs are still in lockstep. -/
def StepP (t : Bytes) (rA rB : NBOut × BP) : Prop :=
  AtEnd rB.2 ∨ (rA.1 = rB.1 ∧ rA.2 = extBP t rB.2 ∧ LockInv t rB.2)

theorem lockSpec_prefix (L : LineParserI) (t : Bytes) : LockSpec L t (StepP t) where
  lock := fun o qB hinv => Or.inr ⟨rfl, rfl, hinv⟩
  div := by
    intro q hinv heq fB k lp _ _
    exact Or.inl (parseLines_atEnd L fB lp q.i q ⟨heq, hinv.err⟩)
  eof := by
    intro q' hinv' hb' hi' fsA fpA fpB _
    left
    show AtEnd (afterSkip L fpB (none, q')).2
    rw [afterSkip_none_snd]
    exact ⟨by rw [hb', hi']; rfl, hinv'.err⟩

/-- The first `n + 1` calls on `extBP t q` and on `q` return the same, if after them the run on `q` is strictly
    inside its buffer, has recorded no panic, and none of these calls exhausted the fuel of the per-line loop. -/
theorem callN_lock (L : LineParserI) (t : Bytes) : ∀ (n : Nat) (q : BP), LockInv t q →
    (callN L n q).2.i < (callN L n q).2.buf.length → (callN L n q).2.panic = none →
    (∀ m, m ≤ n → isFuelPanic (callN L m q).1 = false) →
    ∀ m, m ≤ n → (callN L m (extBP t q)).1 = (callN L m q).1 ∧ (callN L m (extBP t q)).2 = extBP t (callN L m q).2 ∧
      LockInv t (callN L m q).2 := by
  intro n
  induction n with
  | zero =>
    intro q hinv hin hpn hfp m hm
    have : m = 0 := by omega
    subst this
    rcases nextBlock_lockG (lockSpec_prefix L t) hinv (hfp 0 (Nat.le_refl _)) hpn with hat | h
    · have := hat.i
      simp only [callN] at hin
      omega
    · exact h
  | succ n ih =>
    intro q hinv hin hpn hfp
    have herr1 := (nextBlock_sticky L q hinv.err).1
    have hpn1 : (nextBlock L q).2.panic = none := by
      cases hp : (nextBlock L q).2.panic with
      | none => rfl
      | some msg =>
        have := (callN_sticky L n (nextBlock L q).2 herr1).2 (by rw [hp]; rfl)
        simp only [callN] at hpn
        rw [hpn] at this; cases this
    rcases nextBlock_lockG (lockSpec_prefix L t) hinv (hfp 0 (Nat.zero_le _)) hpn1 with hat | ⟨e1, e2, hinv1⟩
    · exfalso
      have := (callN_atEnd L n hat).i
      simp only [callN] at hin
      omega
    · intro m hm
      cases m with
      | zero => exact ⟨e1, e2, hinv1⟩
      | succ m =>
        simp only [callN]
        rw [e2]
        exact ih (nextBlock L q).2 hinv1 hin hpn (fun m' hm' => hfp (m' + 1) (by omega)) m (by omega)

end CM.Proofs
