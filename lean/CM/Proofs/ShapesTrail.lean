import CM.Proofs.ShapesBasic
/-
C13, block half — the rule for setext headings (`setextOK`): dropping trailing white space, and how the rule moves when
the source grows, is cut at the front (re-basing) or at the back.
-/
namespace CM.Proofs.Shp
open CM CM.Model CM.Gen

/-! ### `dropRight` -/

theorem dropWhile_append_all {α : Type} (p : α → Bool) : ∀ (u v : List α), (∀ x ∈ u, p x = true) →
    (u ++ v).dropWhile p = v.dropWhile p := by
  intro u
  induction u with
  | nil => intro v _; rfl
  | cons a u ih =>
    intro v h
    rw [List.cons_append, List.dropWhile_cons, h a (by simp)]
    exact ih v (fun x hx => h x (by simp [hx]))

theorem takeWhile_all {α : Type} (p : α → Bool) : ∀ (l : List α), ∀ x ∈ l.takeWhile p, p x = true := by
  intro l
  induction l with
  | nil => intro x hx; cases hx
  | cons a l ih =>
    intro x hx
    rw [List.takeWhile_cons] at hx
    split at hx
    · rename_i ha
      rcases List.mem_cons.mp hx with rfl | hx
      · exact ha
      · exact ih x hx
    · cases hx

theorem dropWhile_head {α : Type} (p : α → Bool) : ∀ (l : List α) (c : α), (l.dropWhile p).head? = some c → p c = false := by
  intro l
  induction l with
  | nil => intro c h; cases h
  | cons a l ih =>
    intro c h
    rw [List.dropWhile_cons] at h
    split at h
    · exact ih c h
    · rename_i ha
      simp only [List.head?_cons, Option.some.injEq] at h
      subst h
      simpa using ha

theorem dropWhile_id {α : Type} (p : α → Bool) (l : List α) (h : ∀ c, l.head? = some c → p c = false) : l.dropWhile p = l := by
  cases l with
  | nil => rfl
  | cons a l => rw [List.dropWhile_cons, h a rfl]; simp

/-- A list is its `dropRight` followed by bytes that satisfy `p`. -/
theorem dropRight_split (p : UInt8 → Bool) (l : Bytes) : ∃ w, l = Spec.dropRight p l ++ w ∧ ∀ x ∈ w, p x = true := by
  refine ⟨(l.reverse.takeWhile p).reverse, ?_, ?_⟩
  · unfold Spec.dropRight
    rw [← List.reverse_append, List.takeWhile_append_dropWhile, List.reverse_reverse]
  · intro x hx
    rw [List.mem_reverse] at hx
    exact takeWhile_all p _ x hx

theorem dropRight_last (p : UInt8 → Bool) (l : Bytes) (c : UInt8) (h : (Spec.dropRight p l).getLast? = some c) : p c = false := by
  unfold Spec.dropRight at h
  rw [List.getLast?_reverse] at h
  exact dropWhile_head p _ c h

theorem dropRight_eq (p : UInt8 → Bool) (a w : Bytes) (hw : ∀ x ∈ w, p x = true) (ha : ∀ c, a.getLast? = some c → p c = false) :
    Spec.dropRight p (a ++ w) = a := by
  unfold Spec.dropRight
  rw [List.reverse_append, dropWhile_append_all p _ _ (fun x hx => hw x (List.mem_reverse.mp hx)),
    dropWhile_id p _ (fun c hc => ha c (by rw [List.head?_reverse] at hc; exact hc)), List.reverse_reverse]

theorem getLast?_drop_of_lt {α : Type} (l : List α) (k : Nat) (h : k < l.length) : (l.drop k).getLast? = l.getLast? := by
  have hne : l.drop k ≠ [] := by
    intro he
    have := congrArg List.length he
    simp at this; omega
  conv => rhs; rw [← List.take_append_drop k l]
  rw [List.getLast?_append]
  cases hg : (l.drop k).getLast? with
  | none => exact absurd (List.getLast?_eq_none_iff.mp hg) hne
  | some c => simp

/-- Dropping a prefix that ends inside the part `dropRight` keeps. -/
theorem dropRight_drop (p : UInt8 → Bool) (l : Bytes) (k : Nat) (h : k ≤ (Spec.dropRight p l).length) :
    Spec.dropRight p (l.drop k) = (Spec.dropRight p l).drop k := by
  obtain ⟨w, hl, hw⟩ := dropRight_split p l
  have hlast := dropRight_last p l
  generalize Spec.dropRight p l = body at hl hlast h ⊢
  rw [hl, List.drop_append_of_le_length h]
  apply dropRight_eq p _ w hw
  intro c hc
  rcases Nat.lt_or_ge k body.length with hk | hk
  · rw [getLast?_drop_of_lt body k hk] at hc
    exact hlast c hc
  · rw [List.drop_of_length_le hk] at hc
    cases hc

/-! ### `bodyLen`, `setextOK` -/

theorem setextOK_iff {src : Bytes} {l : PLabel} :
    setextOK src l = true ↔ 0 ≤ l.stop ∧ l.stop ≤ src.length ∧
      (Spec.dropRight Spec.isWs (src.take l.stop.toNat)).getLast? = some (ulChar l.n) ∧ l.start < bodyLen src l.stop := by
  unfold setextOK
  simp only [Bool.and_eq_true, decide_eq_true_eq, beq_iff_eq, and_assoc]

theorem bodyLen_le {src : Bytes} {stop : Int} (h : stop ≤ src.length) (h0 : 0 ≤ stop) : (bodyLen src stop : Int) ≤ stop := by
  unfold bodyLen
  obtain ⟨w, hw, _⟩ := dropRight_split Spec.isWs (src.take stop.toNat)
  have := congrArg List.length hw
  simp only [List.length_take, List.length_append] at this
  omega

theorem bodyLen_append {src more : Bytes} {stop : Int} (h : stop ≤ src.length) : bodyLen (src ++ more) stop = bodyLen src stop := by
  unfold bodyLen
  rw [List.take_append_of_le_length (by omega)]

theorem bodyLen_take {src : Bytes} {stop : Int} {n : Nat} (h : stop ≤ n) : bodyLen (src.take n) stop = bodyLen src stop := by
  unfold bodyLen
  rw [List.take_take, Nat.min_eq_left (by omega)]

theorem take_drop_shift {src : Bytes} {k : Nat} {stop : Int} (hk : (k : Int) ≤ stop) :
    (src.drop k).take (stop - k).toNat = (src.take stop.toNat).drop k := by
  rw [List.drop_take]
  congr 1
  omega

theorem bodyLen_drop {src : Bytes} {k : Nat} {stop : Int} (hk : k ≤ bodyLen src stop) (hks : (k : Int) ≤ stop) :
    bodyLen (src.drop k) (stop - k) = bodyLen src stop - k := by
  unfold bodyLen at hk ⊢
  rw [take_drop_shift hks, dropRight_drop _ _ _ hk, List.length_drop]

theorem setextOK_append {src more : Bytes} {l : PLabel} (h : setextOK src l = true) : setextOK (src ++ more) l = true := by
  rw [setextOK_iff] at h ⊢
  obtain ⟨h0, h1, h2, h3⟩ := h
  refine ⟨h0, by simp; omega, ?_, by rw [bodyLen_append h1]; exact h3⟩
  rw [List.take_append_of_le_length (by omega)]
  exact h2

theorem setextOK_take {src : Bytes} {l : PLabel} {n : Nat} (hn : l.stop ≤ n) (hl : n ≤ src.length) (h : setextOK src l = true) :
    setextOK (src.take n) l = true := by
  rw [setextOK_iff] at h ⊢
  obtain ⟨h0, h1, h2, h3⟩ := h
  refine ⟨h0, by rw [List.length_take]; omega, ?_, by rw [bodyLen_take hn]; exact h3⟩
  rw [List.take_take, Nat.min_eq_left (by omega)]
  exact h2

/-- Re-basing a setext heading whose underline ends at or after the cut. -/
theorem setextOK_drop {src : Bytes} {k : Nat} {l l' : PLabel} (hk : (k : Int) ≤ (bodyLen src l.stop : Int) - 1)
    (hs : l'.start = l.start - k) (hst : l'.stop = l.stop - k) (hn : l'.n = l.n) (h : setextOK src l = true) :
    setextOK (src.drop k) l' = true := by
  rw [setextOK_iff] at h ⊢
  obtain ⟨h0, h1, h2, h3⟩ := h
  have hb := bodyLen_le h1 h0
  have hks : (k : Int) ≤ l.stop := by omega
  have hkb : k ≤ bodyLen src l.stop := by omega
  rw [hs, hst, hn, bodyLen_drop hkb hks]
  refine ⟨by omega, by rw [List.length_drop]; omega, ?_, by omega⟩
  rw [take_drop_shift hks, dropRight_drop _ _ _ hkb, getLast?_drop_of_lt _ _ (by unfold bodyLen at hk; omega)]
  exact h2

/-- The rule of a setext heading, from the shape rule. -/
theorem shapeOK_setext {src : Bytes} {e : Int} {l : PLabel} (hk : l.kind = BK.setextHeading)
    (h : shapeOK true src e l = true) : setextOK src l = true := by
  unfold shapeOK at h
  rw [hk] at h
  simpa [BK.setextHeading, BK.blockQuote, BK.atxHeading, BK.fencedCode, BK.listMarker] using h

theorem shapeOK_of_setext {src : Bytes} {e : Int} {l : PLabel} (hk : l.kind = BK.setextHeading)
    (h : setextOK src l = true) : shapeOK true src e l = true := by
  unfold shapeOK
  rw [hk]
  simpa [BK.setextHeading, BK.blockQuote, BK.atxHeading, BK.fencedCode, BK.listMarker] using h

end CM.Proofs.Shp
