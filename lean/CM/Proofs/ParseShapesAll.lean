import CM.Proofs.ParseShapesFinal
import CM.Proofs.ShapesFinal
import CM.Proofs.InlNoMarker
/-
C13 for the whole of `Parse`, part 14: **both halves** — `parse_shapes_partial_all`: every node of every tree `Parse`
returns satisfies `Spec.shapeAt` if it is a block (ATX / setext heading, fenced code block, block quote, list marker: the
block half, `Shp.drain_block_shapes`), and `InlH.InlineShapesPartial` if it is an inline node.

Rewrite leaves the blocks alone: a block node of the final tree is a block node of the block-phase tree with the same
label (`shapeAt` does not look at the children), and the inline phase makes inline nodes only, at every depth
(`parseInlines_deep_nonblock`: `NodeInv` with "every node of a finished sub-tree is an inline node").
-/
namespace CM.Proofs.PSh
open CM CM.Model CM.Gen CM.Spec CM.Model.Inl
open CM.Proofs.BT CM.Proofs.BG CM.Proofs.PW CM.Proofs.InlH CM.Proofs.PS CM.Proofs.RK

/-! ### the inline phase makes inline nodes only -/

def φB (m : INode) : Prop := ∀ t ∈ T.nodesL m.sub, t.label.isBlock = false

/-- The block-phase inline children that are taken over hold inline nodes only. -/
def InNB (unparsed : List Tree) : Prop :=
  ∀ u ∈ unparsed, u.label.isBlock = false → isUnparsed u = false → ∀ t ∈ T.nodes u, t.label.isBlock = false

theorem φB.leaf (k : Nat) (a b : Int) : φB { kind := k, start := a, stop := b } :=
  fun t ht => by simp [T.nodesL] at ht

theorem nb_mkInline (k : Nat) (a b : Int) : ∀ u ∈ T.nodes (Model.mkInline k a b), u.label.isBlock = false := by
  intro u hu
  rw [Model.mkInline, T.nodes, T.nodesL, List.mem_singleton] at hu
  subst hu
  rfl

theorem nb_all {ts : List Tree} (h : ∀ c ∈ ts, ∀ u ∈ T.nodes c, u.label.isBlock = false) :
    ∀ t ∈ T.nodesL ts, t.label.isBlock = false := by
  intro t ht
  obtain ⟨c, hc, htc⟩ := mem_nodesL ht
  exact h c hc t htc

theorem collect_nb (ext : Ext) (src : Bytes) (stop textKind : Nat) (escapes : Bool)
    (spans : List Tree) (hin : InNB spans) (fuel k p ps : Nat) :
    ∀ t ∈ T.nodesL (collectTextNodes ext src stop textKind escapes fuel (newReader (spans.drop k) p) ps []),
      t.label.isBlock = false := by
  apply nb_all
  exact collect_all ext src stop textKind escapes (fun c => ∀ u ∈ T.nodes c, u.label.isBlock = false)
    (fun a b => nb_mkInline _ a b) (fun p _ e _ => nb_mkInline _ _ _) spans
    (fun t ht hi => hin t ht (isIndent_inline' hi).1 (isIndent_inline' hi).2) fuel k p ps

theorem nodeInv_B (x : IExt) (src : Bytes) (srcA : Array UInt8) (matchRef : Bytes → Bool) (unparsed : List Tree)
    (hin : InNB unparsed) : NodeInv (inlCtx x src srcA matchRef unparsed) φB where
  text a b := φB.leaf _ a b
  hardBreak a b := φB.leaf _ a b
  charRef pos _ e _ _ _ _ _ := φB.leaf _ _ _
  softBreak1 pos _ _ _ := φB.leaf _ _ _
  softBreak2 pos _ _ _ _ := φB.leaf _ _ _
  wrapped k a b _ := φB.leaf _ a b
  imported t ht hb _ hk := by
    have hu : isUnparsed t = false := by
      unfold isUnparsed Node.isI
      simp [hk]
    have hall := hin t (by simpa [inlCtx] using ht) hb hu
    exact fun u hu' => hall u (nodesL_children_sub hu')
  codeSpan a b ks _ := by
    refine nb_all fun c hc u hu => ?_
    obtain ⟨k, _, rfl⟩ := List.mem_map.1 hc
    rw [CSN.toTree, T.nodes, T.nodesL, List.mem_singleton] at hu
    subst hu
    rfl
  autolink a b a' b' := by
    refine nb_all fun c hc u hu => ?_
    rw [List.mem_singleton] at hc
    subst hc
    exact nb_mkInline _ _ _ u hu
  htmlTag a b stop fuel k p ps := collect_nb _ _ _ _ _ unparsed hin fuel k p ps
  linkDest a b stop fuel k p ps := collect_nb _ _ _ _ _ unparsed hin fuel k p ps
  linkDestEmpty a b := φB.leaf _ a b
  linkTitle a b stop fuel k p ps := collect_nb _ _ _ _ _ unparsed hin fuel k p ps
  linkTitleEmpty a b := φB.leaf _ a b
  linkLabel a b stop fuel k p ps ref _ := collect_nb _ _ _ _ _ unparsed hin fuel k p ps
  modKids n ks h := h
  modSpan n a b h _ := h
  modLink n a b r h _ _ := h

/-- Every node (any depth) of the new inline children of a container is an inline node. -/
theorem parseInlines_deep_nonblock (x : IExt) (src : Bytes) (srcA : Array UInt8) (matchRef : Bytes → Bool)
    (cstart cstop : Int) (unparsed kids : List Tree) (hin : InNB unparsed)
    (h : parseInlines x src srcA matchRef cstart cstop unparsed = .ok kids) :
    ∀ t ∈ T.nodesL kids, t.label.isBlock = false := by
  intro t ht
  obtain ⟨m, hm, hl | hs⟩ := parseInlines_nodes_strong x src srcA matchRef cstart cstop unparsed φB
    (nodeInv_B x src srcA matchRef unparsed hin) (φB.leaf _ _ _) kids h t ht
  · rw [hl]; rfl
  · exact hm t hs

/-! ### blocks through `Rewrite` -/

theorem shapeAt_label (src : Bytes) (l : Label) (cs cs' : List Tree) :
    shapeAt src (.node l cs) = shapeAt src (.node l cs') := rfl

/-- **A block node of the rewritten tree has the shape it had in the block-phase tree.** -/
theorem rewriteE_block_shapes (x : IExt) (src : Bytes) (matchRef : Bytes → Bool) (t t' : Tree)
    (hpre : ∀ u ∈ T.nodes t, u.label.isBlock = true → shapeAt src u = true)
    (hin : ∀ p ∈ conts t, InNB p.2)
    (h : rewriteE x src src.toArray matchRef t = .ok t') :
    ∀ u ∈ T.nodes t', u.label.isBlock = true → shapeAt src u = true := by
  refine rewriteE_nodes x src src.toArray matchRef (fun u => u.label.isBlock = true → shapeAt src u = true)
    (fun _ cs => InNB cs)
    (fun l cs kids hR hp u hu hb => ?_)
    (fun l cs cs' hq hb _ => by rw [shapeAt_label src l cs' cs]; exact hq hb)
    t.size t t' (Nat.le_refl _) (fun u hu => hpre u (surv_sub t.size t (Nat.le_refl _) u hu)) hin h
  have := parseInlines_deep_nonblock x src src.toArray matchRef l.start l.stop cs kids hR hp u hu
  rw [this] at hb; cases hb

/-- The inline children of a container of a block-phase tree are leaves. -/
theorem conts_leaves : ∀ b : PB, PBGrammar b → ∀ p ∈ conts (pbToTree b), ∀ u ∈ p.2, u.children = [] := by
  apply BG.PB.ind
  intro l bs is ih hg p hmem
  rw [PBGrammar_mk] at hg
  have hi := ((CM.Proofs.BG.localOK_iff l bs is).1 hg.1).2
  have hfacts := inlines_facts hi
  rw [pbToTree, CM.Proofs.pbsToTrees_eq_map, conts] at hmem
  simp only [Bool.not_true, Bool.false_eq_true, if_false] at hmem
  by_cases hbs : bs = []
  · subst hbs
    simp only [List.isEmpty_nil, if_true] at hmem
    split at hmem
    · rename_i hu
      rw [List.mem_singleton] at hmem
      subst hmem
      obtain ⟨_, hall⟩ := hfacts.2 hu
      exact fun u hu' => (all_inl_facts hall u hu').2.2
    · rw [contsL_nonblock is hfacts.1] at hmem
      cases hmem
  · have he : bs.isEmpty = false := by
      cases bs with
      | nil => exact absurd rfl hbs
      | cons _ _ => rfl
    simp only [he, Bool.false_eq_true, if_false] at hmem
    have hnu : hasUnparsed (bs.map pbToTree) = false := by
      unfold hasUnparsed
      rw [List.any_eq_false]
      intro t ht
      rw [List.mem_map] at ht
      obtain ⟨c, _, rfl⟩ := ht
      rw [isUnparsed_block (CM.Proofs.pbToTree_label c).1]
      simp
    rw [hnu] at hmem
    simp only [Bool.false_eq_true, if_false] at hmem
    obtain ⟨c', hc', hpc⟩ := mem_contsL.1 hmem
    rw [List.mem_map] at hc'
    obtain ⟨c, hc, rfl⟩ := hc'
    exact ih c hc (hg.2 c hc) p hpc

theorem blockphase_inNB (x : PExt) (fuel : Nat) (inp : Bytes) :
    ∀ r ∈ (drain (blocksLP x) fuel (memParser inp) []).1, ∀ p ∈ conts (pbToTree r.block), InNB p.2 := by
  intro r hr p hp u hu hb _ t ht
  have hg := (drain_grammar_mem x fuel inp r hr).1
  rw [nodes_leaf (conts_leaves r.block hg p hp u hu), List.mem_singleton] at ht
  rw [ht]; exact hb

/-! ### `Parse`: both halves -/

/-- **C13 for the whole of `Parse`.** For every input, every parsed root on which the inline phase completed, and every
    node `u` (any depth) of its final tree:
    * if `u` is a block, `Spec.shapeAt` holds of `u` (an ATX heading starts with exactly as many `#` as its level, a
      setext heading ends in `=` / `-`, a fenced code block starts with exactly its fence, a block quote with `>`, a list
      marker is a bullet or 1-9 digits and `.` / `)`);
    * if `u` is an inline node, `InlH.InlineShapesPartial` holds of `u`: `Spec.shapeAt` for hard line breaks, autolinks,
      character references and code spans, for HTML tags with a non-empty span, and for emphasis / strong emphasis /
      links / images whose span is long enough for their delimiters. -/
theorem parse_shapes_partial_all (x : PExt) (ix : IExt) (inp : Bytes) :
    ∀ pr ∈ (parseDoc x ix inp).roots, ∀ t', pr.tree = .ok t' → ∀ u ∈ T.nodes t',
      (u.label.isBlock = true → shapeAt pr.root.source u = true) ∧
      (u.label.isBlock = false → InlineShapesPartial pr.root.source u) := by
  intro pr hpr t' ht u hu
  refine ⟨?_, parse_shapes_partial x ix inp pr hpr t' ht u hu⟩
  rw [parseDoc_tree x ix inp pr hpr] at ht
  have hr := root_mem_drain x ix inp pr hpr
  exact rewriteE_block_shapes ix _ _ _ t' (Shp.drain_block_shapes x inp _ pr.root hr)
    (blockphase_inNB x _ inp pr.root hr) ht u hu

theorem parse_shapes_partial_all_final (x : PExt) (ix : IExt) (inp : Bytes) :
    ∀ pr ∈ (parseDoc x ix inp).roots, treeOk pr = true → ∀ u ∈ T.nodes (finalTree pr),
      (u.label.isBlock = true → shapeAt pr.root.source u = true) ∧
      (u.label.isBlock = false → InlineShapesPartial pr.root.source u) :=
  fun pr hpr hok => parse_shapes_partial_all x ix inp pr hpr _ (tree_of_treeOk hok)

/-- In terms of the kinds: the clause of `Spec.shapeAt` holds, unconditionally, of every block and of every hard line
    break, autolink, character reference and code span of every tree `Parse` returns. -/
theorem parse_shapes_unconditional (x : PExt) (ix : IExt) (inp : Bytes) :
    ∀ pr ∈ (parseDoc x ix inp).roots, ∀ t', pr.tree = .ok t' → ∀ u ∈ T.nodes t',
      (u.label.isBlock = true ∨ u.label.kind = IK.hardBreak ∨ u.label.kind = IK.autolink ∨ u.label.kind = IK.charRef ∨
        u.label.kind = IK.codeSpan) → shapeAt pr.root.source u = true := by
  intro pr hpr t' ht u hu hk
  obtain ⟨hB, hI⟩ := parse_shapes_partial_all x ix inp pr hpr t' ht u hu
  cases hb : u.label.isBlock with
  | true => exact hB hb
  | false =>
    obtain ⟨hL, hC, _, _⟩ := hI hb
    rcases hk with hk | hk | hk | hk | hk
    · rw [hb] at hk; cases hk
    · exact hL (by unfold LeafKind; rw [hk]; decide)
    · exact hL (by unfold LeafKind; rw [hk]; decide)
    · exact hL (by unfold LeafKind; rw [hk]; decide)
    · exact hC hk

end CM.Proofs.PSh

section
open CM.Proofs.PSh
#print axioms blockphase_inline_shapes
#print axioms runsOK_hbreak
#print axioms runsOK_cshyp
#print axioms parseInlines_empty
#print axioms rewriteE_shapes_ready
#print axioms processLine_q
#print axioms drain_PQ
#print axioms blockphaseQ
#print axioms blockphase_contReady_all
#print axioms parse_shapes_partial
#print axioms parse_shapes_partial_all
#print axioms parse_shapes_unconditional
#print axioms atx_empty_not_cshyp
end
