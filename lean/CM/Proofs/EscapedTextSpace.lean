import CM.Proofs.EscapedTextStep
/-
C06, escaped text — part 4: what `parseHardLineBreakSpace` returns at a space of an escaped text (the length of the run
of spaces, unless the run is two or more spaces directly before the final line ending), and the generic unrolling
lemmas for the tokenizer loop.
-/
namespace CM.Proofs.EscText
open CM CM.Gen CM.Model CM.Model.Inl

/-- The bytes the second scan of `parseHardLineBreakSpace` skips. -/
def hlbSkip (c : UInt8) : Bool := c == SP || c == LF || c == CR

theorem hlbs_run (j : Nat) (y : Bytes) (hy1 : ∀ x ∈ y.head?, x ≠ SP) (hy2 : 1 ≤ j → ∀ x ∈ y.head?, hlbSkip x = false) :
    (parseHardLineBreakSpace (SP :: (List.replicate j SP ++ y))).1 = 1 + j := by
  cases j with
  | zero =>
    cases y with
    | nil => decide
    | cons x ys =>
      have hx : (x == SP) = false := by simpa using hy1 x (by simp)
      simp [parseHardLineBreakSpace, numSpaces, List.takeWhile, hx]
  | succ j =>
    have htw : List.takeWhile (fun c => c == SP || c == LF || c == CR) (List.replicate j SP ++ y) = List.replicate j SP := by
      rw [List.takeWhile_append_of_pos (by intro a ha; rw [List.eq_of_mem_replicate ha]; decide)]
      cases y with
      | nil => simp
      | cons x ys =>
        have hx : hlbSkip x = false := hy2 (by omega) x (by simp)
        simp only [hlbSkip] at hx
        simp [List.takeWhile, hx]
    simp [parseHardLineBreakSpace, numSpaces, List.replicate_succ, List.takeWhile, htw]
    omega

/-- The number of leading spaces. -/
def spLen (r : Bytes) : Nat := (r.takeWhile (· == SP)).length

theorem takeWhile_SP (r : Bytes) : r.takeWhile (· == SP) = List.replicate (spLen r) SP := by
  unfold spLen
  induction r with
  | nil => rfl
  | cons b r ih =>
    rw [List.takeWhile_cons]
    split
    · rename_i hb
      rw [List.length_cons, List.replicate_succ, ← ih]
      simp only [beq_iff_eq] at hb
      rw [hb]
    · rfl

theorem split_SP (r : Bytes) : r = List.replicate (spLen r) SP ++ r.dropWhile (· == SP) := by
  rw [← takeWhile_SP, List.takeWhile_append_dropWhile]

theorem dropWhile_SP_head (r : Bytes) : ∀ x ∈ (r.dropWhile (· == SP)).head?, x ≠ SP := by
  intro x hx
  have := List.head?_dropWhile_not (· == SP) r
  rw [Option.mem_def.1 hx] at this
  simpa using this

/-- The first byte of an escaped text (followed by the end, or by the final LF) is not a space unless the text begins
    with one; it is skipped by `parseHardLineBreakSpace` only if it is a space or the final LF. -/
theorem esc_head (r3 tail : Bytes) (hr : ∀ b ∈ r3, b ≠ LF ∧ b ≠ CR) (h3 : ∀ x ∈ r3.head?, x ≠ SP)
    (ht : tail = [] ∨ tail = [LF]) :
    (∀ x ∈ (esc r3 ++ tail).head?, x ≠ SP) ∧ ((r3 = [] → tail = []) → ∀ x ∈ (esc r3 ++ tail).head?, hlbSkip x = false) := by
  cases r3 with
  | nil =>
    refine ⟨?_, ?_⟩
    · rcases ht with rfl | rfl <;> simp [esc, SP, LF]
    · intro h; rw [h rfl]; simp [esc]
  | cons b r =>
    have hb : b ≠ SP := h3 b (by simp)
    obtain ⟨hb1, hb2⟩ := hr b (by simp)
    rw [esc]
    split
    · simp [hlbSkip, SP, LF, CR]
    · simp [hlbSkip, hb, hb1, hb2]

theorem replicate_suffix (j : Nat) (hj : 1 ≤ j) : [SP, SP] <:+ SP :: List.replicate j SP := by
  obtain ⟨k, rfl⟩ : ∃ k, j = k + 1 := ⟨j - 1, by omega⟩
  refine ⟨List.replicate k SP, ?_⟩
  rw [show [SP, SP] = List.replicate 2 SP from rfl, List.replicate_append_replicate, ← List.replicate_succ]

/-- **The space step**: at a space of an escaped text the scanner returns the length of the run of spaces. -/
theorem hlbs_esc (r tail : Bytes) (hr : ∀ b ∈ r, b ≠ LF ∧ b ≠ CR) (ht : tail = [] ∨ tail = [LF])
    (hend : tail = [] ∨ ¬ [SP, SP] <:+ SP :: r) :
    (parseHardLineBreakSpace (esc (SP :: r) ++ tail)).1 = 1 + spLen r := by
  have hsplit := split_SP r
  have hr3 : ∀ b ∈ r.dropWhile (· == SP), b ≠ LF ∧ b ≠ CR := fun b hb => hr b ((List.dropWhile_sublist _).subset hb)
  obtain ⟨e1, e2⟩ := esc_head (r.dropWhile (· == SP)) tail hr3 (dropWhile_SP_head r) ht
  have hesc : esc (SP :: r) ++ tail = SP :: (List.replicate (spLen r) SP ++ (esc (r.dropWhile (· == SP)) ++ tail)) := by
    rw [esc, if_neg (by decide)]
    conv => lhs; rw [hsplit, esc_append, esc_replicate_SP]
    simp
  rw [hesc]
  apply hlbs_run _ _ e1
  intro hj
  apply e2
  intro h3
  rcases hend with h | h
  · exact h
  · exfalso
    apply h
    rw [hsplit, h3, List.append_nil]
    exact replicate_suffix _ hj

/-! ### unrolling the loop -/

theorem forIn_step_yield {f : Nat → LS → IM (ForInStep LS)} {i fuel : Nat} {v v' : LS} {s s' : IState}
    (h : (f i v).run s = pure (.yield v', s')) :
    (forIn (List.range' i (fuel + 1)) v f).run s = (forIn (List.range' (i + 1) fuel) v' f).run s' := by
  rw [List.range'_succ, List.forIn_cons, StateT.run_bind, h, pure_bind]

theorem forIn_step_done {f : Nat → LS → IM (ForInStep LS)} {i fuel : Nat} {v v' : LS} {s s' : IState}
    (h : (f i v).run s = pure (.done v', s')) :
    (forIn (List.range' i (fuel + 1)) v f).run s = pure (v', s') := by
  rw [List.range'_succ, List.forIn_cons, StateT.run_bind, h, pure_bind]
  rfl

end CM.Proofs.EscText
