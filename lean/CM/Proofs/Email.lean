import CM.Basic.Forall
import CM.Model.URI
import CM.Spec.Regular
/-
E-mail recogniser (`parseEmail`, `parseDomainLabel`) = the spec's regular expression.
-/
namespace CM.Proofs
open CM CM.Gen CM.Model

/-! ### Single-byte facts -/

theorem isEmailLocal_eq_spec : ∀ c : UInt8, isEmailLocal c = Spec.isLocalChar c := by
  apply forall_uint8; decide +kernel

theorem isEmailLocal_at : isEmailLocal 0x40 = false := by decide +kernel

theorem alnum_eq_spec : ∀ c : UInt8, (isASCIILetter c || isASCIIDigit c) = Spec.isAlnum c := by
  apply forall_uint8; decide +kernel

theorem isLabelChar_eq_spec : ∀ c : UInt8, (Spec.isAlnum c || c == 0x2D) = isLabelChar c := by
  apply forall_uint8; decide +kernel

theorem isLabelChar_not_dot : ∀ c : UInt8, (!isLabelChar c || c != 0x2E) = true := by
  apply forall_uint8; decide +kernel

theorem isLabelChar_alnum : ∀ c : UInt8, (!(isLabelChar c && c != 0x2D) || Spec.isAlnum c) = true := by
  apply forall_uint8; decide +kernel

theorem isAlnum_hyphen : Spec.isAlnum 0x2D = false := by decide +kernel

theorem isLabelChar_ne_dot {c : UInt8} (h : isLabelChar c = true) : (c == 0x2E) = false := by
  have := isLabelChar_not_dot c; simp [h] at this; simpa using this

theorem isAlnum_of_label {c : UInt8} (h : isLabelChar c = true) (h2 : (c == 0x2D) = false) :
    Spec.isAlnum c = true := by
  have := isLabelChar_alnum c; simp [h] at this
  rcases this with h' | h'
  · simp [h'] at h2
  · exact h'

/-! ### `Spec.isDomainLabel` -/

theorem domainLabel_eq (l : Bytes) : Spec.isDomainLabel l =
    (decide (1 ≤ l.length) && decide (l.length ≤ 63) && l.all isLabelChar
      && Spec.isAlnum (l.headD 0) && Spec.isAlnum (l.getLast?.getD 0)) := by
  simp only [Spec.isDomainLabel, isLabelChar_eq_spec]

theorem domainLabel_false_of_len {l : Bytes} (h : 64 ≤ l.length) : Spec.isDomainLabel l = false := by
  rw [domainLabel_eq]
  have : ¬ l.length ≤ 63 := by omega
  simp [this]

theorem domainLabel_false_of_mem {l : Bytes} {d : UInt8} (hd : d ∈ l) (h : isLabelChar d = false) :
    Spec.isDomainLabel l = false := by
  rw [domainLabel_eq]
  have : l.all isLabelChar = false := by
    rw [List.all_eq_false]; exact ⟨d, hd, by simp [h]⟩
  simp [this]

theorem domainLabel_false_of_last {l : Bytes} (h : l.getLast?.getD 0 = 0x2D) :
    Spec.isDomainLabel l = false := by
  rw [domainLabel_eq, h, isAlnum_hyphen]; simp

theorem domainLabel_false_of_head {l : Bytes} (h : Spec.isAlnum (l.headD 0) = false) :
    Spec.isDomainLabel l = false := by
  rw [domainLabel_eq, h]; simp

/-! ### `labelLoop` -/

theorem getLastD_all {p : UInt8 → Bool} (pre : Bytes) (c : UInt8) (hp : pre.all p = true) (hc : p c = true) :
    p (pre.getLast?.getD c) = true := by
  induction pre generalizing c with
  | nil => simpa using hc
  | cons a pre ih =>
    simp only [List.all_cons, Bool.and_eq_true] at hp
    rw [List.getLast?_cons]; simpa using ih a hp.2 hp.1

/-- What `labelLoop` computes: it consumes a prefix `pre` of label characters, stopping at the length cap
    63 or at the first non-label byte. -/
theorem labelLoop_spec (rest : Bytes) (e : Nat) (last : UInt8) (he : e ≤ 63) :
    ∃ pre rem, rest = pre ++ rem ∧ labelLoop rest e last = (e + pre.length, pre.getLast?.getD last, rem) ∧
      pre.all isLabelChar = true ∧ e + pre.length ≤ 63 ∧
      (e + pre.length = 63 ∨ ∀ d r, rem = d :: r → isLabelChar d = false) := by
  induction rest generalizing e last with
  | nil => exact ⟨[], [], rfl, by simp [labelLoop], by simp, by simpa using he, Or.inr (by simp)⟩
  | cons c rest ih =>
    by_cases hc : (decide (e < 63) && isLabelChar c) = true
    · simp only [Bool.and_eq_true, decide_eq_true_eq] at hc
      obtain ⟨pre, rem, h1, h2, h3, h4, h5⟩ := ih (e + 1) c (by omega)
      refine ⟨c :: pre, rem, by simp [h1], ?_, by simp [hc.2, h3], by simp; omega, ?_⟩
      · rw [labelLoop]; simp only [hc.1, hc.2, decide_true, Bool.and_self, if_true]
        rw [h2, List.getLast?_cons]; simp; omega
      · rcases h5 with h5 | h5
        · left; simp; omega
        · right; exact h5
    · refine ⟨[], c :: rest, rfl, by rw [labelLoop]; simp [hc], by simp, by simpa using he, ?_⟩
      simp only [Bool.and_eq_true, decide_eq_true_eq, not_and] at hc
      by_cases h63 : e < 63
      · right; intro d r hdr; simp at hdr; rw [← hdr.1]; simpa using hc h63
      · left; simp; omega

/-! ### `Spec.splitOn` -/

theorem splitOn_nil : Spec.splitOn 0x2E [] = [[]] := rfl

theorem splitOn_dot (r : Bytes) : Spec.splitOn 0x2E (0x2E :: r) = [] :: Spec.splitOn 0x2E r := by
  rw [Spec.splitOn]; simp

theorem splitOn_ne_nil (r : Bytes) : ∃ hd tl, Spec.splitOn 0x2E r = hd :: tl := by
  induction r with
  | nil => exact ⟨[], [], rfl⟩
  | cons c r ih =>
    obtain ⟨hd, tl, h⟩ := ih
    rw [Spec.splitOn]
    by_cases hc : (c == 0x2E) = true
    · simp [hc]
    · simp [hc, h]

theorem splitOn_other {d : UInt8} (r : Bytes) (hd : (d == 0x2E) = false) :
    ∃ hd' tl, Spec.splitOn 0x2E r = hd' :: tl ∧ Spec.splitOn 0x2E (d :: r) = (d :: hd') :: tl := by
  obtain ⟨hd', tl, h⟩ := splitOn_ne_nil r
  refine ⟨hd', tl, h, ?_⟩
  rw [Spec.splitOn]; simp [hd, h]

/-- The first piece of `splitOn '.'` on `lbl ++ rem` when `lbl` has no dot. -/
theorem splitOn_first (lbl rem : Bytes) (hl : lbl.all isLabelChar = true) :
    ∃ hd tl, Spec.splitOn 0x2E (lbl ++ rem) = (lbl ++ hd) :: tl ∧
      ((hd = [] ∧ ((rem = [] ∧ tl = []) ∨ ∃ r, rem = 0x2E :: r ∧ tl = Spec.splitOn 0x2E r)) ∨
       (∃ d r hd', rem = d :: r ∧ (d == 0x2E) = false ∧ hd = d :: hd')) := by
  induction lbl with
  | nil =>
    cases rem with
    | nil => exact ⟨[], [], rfl, Or.inl ⟨rfl, Or.inl ⟨rfl, rfl⟩⟩⟩
    | cons d r =>
      by_cases hd : (d == 0x2E) = true
      · have : d = 0x2E := by simpa using hd
        subst this
        exact ⟨[], Spec.splitOn 0x2E r, by simp [splitOn_dot], Or.inl ⟨rfl, Or.inr ⟨r, rfl, rfl⟩⟩⟩
      · have hd : (d == 0x2E) = false := by simpa using hd
        obtain ⟨hd', tl, _, h2⟩ := splitOn_other r hd
        exact ⟨d :: hd', tl, by simpa using h2, Or.inr ⟨d, r, hd', rfl, hd, rfl⟩⟩
  | cons c lbl ih =>
    simp only [List.all_cons, Bool.and_eq_true] at hl
    obtain ⟨hd, tl, h1, h2⟩ := ih hl.2
    obtain ⟨hd', tl', h3, h4⟩ := splitOn_other (lbl ++ rem) (isLabelChar_ne_dot hl.1)
    rw [h1] at h3
    simp only [List.cons.injEq] at h3
    refine ⟨hd, tl, ?_, h2⟩
    rw [List.cons_append, h4, ← h3.1, ← h3.2]; simp

theorem all_false_of_first {l : List Bytes} {seg : Bytes} {tl : List Bytes} (h : l = seg :: tl)
    (hs : Spec.isDomainLabel seg = false) : l.all Spec.isDomainLabel = false := by
  subst h; simp [hs]

/-- The spec rejects `lbl ++ rem` when the label-character run `lbl` ends with `-` or is cut by the
    63-byte cap. -/
theorem spec_false_of_bad (lbl rem : Bytes) (hl : lbl.all isLabelChar = true)
    (h5 : lbl.length = 63 ∨ ∀ d r, rem = d :: r → isLabelChar d = false)
    (hbad : lbl.getLast?.getD 0 = 0x2D ∨ ∃ d r, rem = d :: r ∧ isLabelChar d = true) :
    (Spec.splitOn 0x2E (lbl ++ rem)).all Spec.isDomainLabel = false := by
  obtain ⟨hd, tl, h1, h2⟩ := splitOn_first lbl rem hl
  apply all_false_of_first h1
  rcases h2 with ⟨hhd, h2⟩ | ⟨d, r, hd', hrem, hdd, hhd⟩
  · subst hhd
    rw [List.append_nil]
    rcases hbad with hb | ⟨d, r, hrem, hd⟩
    · exact domainLabel_false_of_last hb
    · rcases h2 with ⟨h2, _⟩ | ⟨r', h2, _⟩
      · simp [h2] at hrem
      · rw [h2] at hrem; simp only [List.cons.injEq] at hrem
        have := isLabelChar_ne_dot hd; rw [← hrem.1] at this; simp at this
  · subst hhd
    by_cases hd : isLabelChar d = true
    · rcases h5 with h5 | h5
      · apply domainLabel_false_of_len; simp; omega
      · have := h5 d r hrem; simp [hd] at this
    · exact domainLabel_false_of_mem (d := d) (by simp) (by simpa using hd)

theorem spec_false_of_other (lbl : Bytes) (d : UInt8) (r : Bytes) (hl : lbl.all isLabelChar = true)
    (hd : isLabelChar d = false) (hdot : (d == 0x2E) = false) :
    (Spec.splitOn 0x2E (lbl ++ d :: r)).all Spec.isDomainLabel = false := by
  obtain ⟨hd', tl, h1, h2⟩ := splitOn_first lbl (d :: r) hl
  apply all_false_of_first h1
  rcases h2 with ⟨_, h2⟩ | ⟨d', r', hd'', hrem, hdd, hhd⟩
  · rcases h2 with ⟨h2, _⟩ | ⟨r', h2, _⟩
    · simp at h2
    · simp only [List.cons.injEq] at h2; rw [h2.1] at hdot; simp at hdot
  · simp only [List.cons.injEq] at hrem
    subst hhd
    exact domainLabel_false_of_mem (d := d) (by simp [hrem.1]) hd

end CM.Proofs
