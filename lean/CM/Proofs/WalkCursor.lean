import CM.Proofs.Walk
/-
Cursor invariant and visit-order lemmas for the Walk specification.
-/
namespace CM.Proofs
open CM CM.Model CM.Spec

variable {σ : Type}

/-- The cursors that exist for `root`: the root cursor, and for every reachable cursor and child index
    the cursor with `Parent = node`, `Index = i`, `Node = Parent.Child(i)` and `ParentBlock` = the nearest
    enclosing block. -/
inductive Reach (root : Tree) : Cursor → Prop
  | root : Reach root { node := root }
  | child (cur : Cursor) (i : Nat) (c : Tree) :
      Reach root cur → cur.node.children[i]? = some c →
      Reach root { node := c, parent := some cur.node, block := blockFor cur, index := i }

/-- Two callback sets that agree on every cursor satisfying `P`. -/
def AgreeOn (P : Cursor → Prop) (o o' : WalkOpts σ) : Prop :=
  ∀ cur, P cur → ∀ s, callPre o cur s = callPre o' cur s ∧ callPost o cur s = callPost o' cur s

mutual
theorem walkNode_congr (root : Tree) (o o' : WalkOpts σ) (h : AgreeOn (Reach root) o o')
    (t : Tree) (parent block : Option Tree) (index : Int) (s : σ)
    (hr : Reach root { node := t, parent := parent, block := block, index := index }) :
    walkNode o t parent block index s = walkNode o' t parent block index s := by
  match t with
  | .node l cs =>
    simp only [walkNode]
    rw [(h _ hr s).1]
    rcases callPre o' { node := .node l cs, parent := parent, block := block, index := index } s with ⟨ok, s1⟩
    cases ok with
    | false => rfl
    | true =>
      simp only
      have hf := walkForest_congr root o o' h { node := .node l cs, parent := parent, block := block, index := index } hr cs 0 s1
            (by intro j c hc; simpa [Tree.children] using hc)
      rw [hf]
      rcases walkForest o' (.node l cs) (blockFor { node := .node l cs, parent := parent, block := block, index := index }) cs 0 s1 with ⟨ok2, s2⟩
      cases ok2 with
      | false => rfl
      | true => simp only; exact (h _ hr s2).2
theorem walkForest_congr (root : Tree) (o o' : WalkOpts σ) (h : AgreeOn (Reach root) o o')
    (cur : Cursor) (hr : Reach root cur) (cs : List Tree) (i : Nat) (s : σ)
    (hcs : ∀ j c, cs[j]? = some c → cur.node.children[i + j]? = some c) :
    walkForest o cur.node (blockFor cur) cs i s = walkForest o' cur.node (blockFor cur) cs i s := by
  match cs with
  | [] => simp [walkForest]
  | c :: cs =>
    simp only [walkForest]
    have hc : Reach root { node := c, parent := some cur.node, block := blockFor cur, index := i } :=
      Reach.child cur i c hr (by simpa using hcs 0 c (by simp))
    rw [walkNode_congr root o o' h c (some cur.node) (blockFor cur) i s hc]
    rcases walkNode o' c (some cur.node) (blockFor cur) (↑i) s with ⟨ok, s1⟩
    cases ok with
    | false => rfl
    | true =>
      simp only
      exact walkForest_congr root o o' h cur hr cs (i + 1) s1
        (by intro j c' hc'; have := hcs (j + 1) c' (by simpa using hc'); simpa [Nat.add_assoc, Nat.add_comm 1 j] using this)
end

/-! ### Visit order without pruning -/

mutual
/-- All cursors below (and including) a node, in document order. -/
def cursorsNode : Tree → Option Tree → Option Tree → Int → List Cursor
  | .node l cs, parent, block, index =>
    { node := .node l cs, parent := parent, block := block, index := index }
      :: cursorsForest (.node l cs) (blockFor { node := .node l cs, parent := parent, block := block, index := index }) cs 0
def cursorsForest (parent : Tree) (block : Option Tree) : List Tree → Nat → List Cursor
  | [], _ => []
  | c :: cs, i => cursorsNode c (some parent) block i ++ cursorsForest parent block cs (i + 1)
end

mutual
/-- The same cursors in post-order. -/
def cursorsNodePost : Tree → Option Tree → Option Tree → Int → List Cursor
  | .node l cs, parent, block, index =>
    cursorsForestPost (.node l cs) (blockFor { node := .node l cs, parent := parent, block := block, index := index }) cs 0
      ++ [{ node := .node l cs, parent := parent, block := block, index := index }]
def cursorsForestPost (parent : Tree) (block : Option Tree) : List Tree → Nat → List Cursor
  | [], _ => []
  | c :: cs, i => cursorsNodePost c (some parent) block i ++ cursorsForestPost parent block cs (i + 1)
end

/-- Callbacks that never prune or abort and log the cursors they are given. -/
def preLogger : WalkOpts (List Cursor) := { pre := some fun c l => (true, l ++ [c]), post := none }
def postLogger : WalkOpts (List Cursor) := { pre := none, post := some fun c l => (true, l ++ [c]) }

mutual
theorem preLogger_node (t : Tree) (p b : Option Tree) (i : Int) (l : List Cursor) :
    walkNode preLogger t p b i l = (true, l ++ cursorsNode t p b i) := by
  match t with
  | .node lab cs =>
    simp only [walkNode, callPre, callPost, preLogger, cursorsNode]
    rw [show (some fun (c : Cursor) (l : List Cursor) => (true, l ++ [c])) = preLogger.pre from rfl,
        show (none : Option (Cursor → List Cursor → Bool × List Cursor)) = preLogger.post from rfl]
    rw [show ({ pre := preLogger.pre, post := preLogger.post } : WalkOpts (List Cursor)) = preLogger from rfl]
    rw [preLogger_forest]
    simp
theorem preLogger_forest (parent : Tree) (b : Option Tree) (cs : List Tree) (i : Nat) (l : List Cursor) :
    walkForest preLogger parent b cs i l = (true, l ++ cursorsForest parent b cs i) := by
  match cs with
  | [] => simp [walkForest, cursorsForest]
  | c :: cs =>
    simp only [walkForest, cursorsForest]
    rw [preLogger_node]
    simp only
    rw [preLogger_forest]
    simp
end

mutual
theorem postLogger_node (t : Tree) (p b : Option Tree) (i : Int) (l : List Cursor) :
    walkNode postLogger t p b i l = (true, l ++ cursorsNodePost t p b i) := by
  match t with
  | .node lab cs =>
    simp only [walkNode, callPre, callPost, postLogger, cursorsNodePost]
    rw [show (some fun (c : Cursor) (l : List Cursor) => (true, l ++ [c])) = postLogger.post from rfl,
        show (none : Option (Cursor → List Cursor → Bool × List Cursor)) = postLogger.pre from rfl]
    rw [show ({ pre := postLogger.pre, post := postLogger.post } : WalkOpts (List Cursor)) = postLogger from rfl]
    rw [postLogger_forest]
    simp [postLogger]
theorem postLogger_forest (parent : Tree) (b : Option Tree) (cs : List Tree) (i : Nat) (l : List Cursor) :
    walkForest postLogger parent b cs i l = (true, l ++ cursorsForestPost parent b cs i) := by
  match cs with
  | [] => simp [walkForest, cursorsForestPost]
  | c :: cs =>
    simp only [walkForest, cursorsForestPost]
    rw [postLogger_node]
    simp only
    rw [postLogger_forest]
    simp
end

mutual
theorem cursorsNode_length (t : Tree) (p b : Option Tree) (i : Int) : (cursorsNode t p b i).length = t.size := by
  match t with
  | .node l cs => simp [cursorsNode, Tree.size, cursorsForest_length]; omega
theorem cursorsForest_length (parent : Tree) (b : Option Tree) (cs : List Tree) (i : Nat) :
    (cursorsForest parent b cs i).length = Tree.sizeL cs := by
  match cs with
  | [] => simp [cursorsForest, Tree.sizeL]
  | c :: cs => simp [cursorsForest, Tree.sizeL, cursorsNode_length, cursorsForest_length]
end

end CM.Proofs
