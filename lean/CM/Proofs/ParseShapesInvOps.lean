import CM.Proofs.ParseShapesInvDef
/-
C13 for the whole of `Parse`, part 6 (block phase): **closing blocks and the operations of the line parser under**

    `GQ S bd ls p`  :=  `RDS.GI S bd ls p` (the source is `S`, the line is `S.drop ls`, every paragraph is good in the sense
                        of C02's `GoodT` - in particular no open block is a setext heading) and `PQ S bd p.root`.

The proofs follow `RefDefSpansClose.lean` / `RefDefSpansOps.lean`; `GoodT` supplies "an open block is not a setext
heading", so that closing a block never makes the orphan paragraph of `onCloseParagraph` (that case is `startSetext`,
`ParseShapesInvSetext.lean`).
-/
namespace CM.Proofs.PSh
open CM CM.Model CM.Gen CM.Spec
open CM.Proofs.BSp CM.Proofs.BT CM.Proofs.BG CM.Proofs.RDS

variable {S : Bytes} {bd : Int}

/-! ### closing -/

/-- `onCloseParagraph` on a paragraph / setext heading with good children (and a good orphan). -/
theorem onCloseParagraph_PQ (x : PExt) (src : Bytes) (l : PLabel) (bs : List PB) (is : List Tree)
    (hk : l.kind = BK.paragraph ∨ l.kind = BK.setextHeading) (hP : ParaQ S bd is) (hbs : ∀ c ∈ bs, PQ S bd c)
    (ho : l.kind = BK.setextHeading → AllQ S bd [orphanOf src l is]) :
    AllQ S bd (onCloseParagraph x src (.mk l bs is)) := by
  cases is with
  | nil =>
    unfold onCloseParagraph
    apply AllQ.single
    rw [PQ_mk]
    refine ⟨⟨fun _ => hP, fun ha => ?_⟩, hbs⟩
    have ha' : l.kind = BK.atxHeading := ha
    rcases hk with hk | hk <;> (rw [hk] at ha'; exact absurd ha' (by decide))
  | cons first rest =>
    rw [onCloseParagraph_cons]
    apply refDefLoop_PQ x src _ _ _ l _ [] hk ?_ hP AllQ.nil
    intro o ho'
    split at ho'
    · rename_i hks
      simp only [Option.some.injEq] at ho'
      subst ho'
      exact ho (by simpa using hks)
    · cases ho'

/-- **`closeBlock` keeps `PQ`** (on a tree that is good in the sense of C02: no open setext heading). -/
theorem closeBlock_PQ (x : PExt) (S : Bytes) (bd bd' : Int) (e : Int) : ∀ b : PB, GoodT S bd' b → PQ S bd b →
    AllQ S bd (closeBlock x S e b) := by
  apply PB.ind
  intro l bs is ih hg h
  rw [closeBlock]
  split
  · exact AllQ.single h
  rename_i hopen
  have hop : l.stop < 0 := by omega
  simp only []
  rw [GoodT_mk] at hg
  rw [PQ_mk] at h
  have hns : l.kind ≠ BK.setextHeading := hg.1.2 hop
  have hcl : ∀ c ∈ closeLast x S e bs, PQ S bd c := by
    cases hgl : bs.getLast? with
    | none => rw [closeLast_none x S e bs hgl]; exact h.2
    | some c =>
      rw [closeLast_some x S e bs c hgl]
      have hcm : c ∈ bs := List.mem_of_getLast? hgl
      intro c' hc'
      rcases List.mem_append.mp hc' with h' | h'
      · exact h.2 c' ((List.dropLast_sublist bs).subset h')
      · exact ih c hcm (hg.2 c hcm) (h.2 c hcm) c' h'
  split
  · rename_i hk
    have hkl : l.kind = BK.list := by simpa using hk
    have hb : ∀ (l' : PLabel) (bs' : List PB), l'.kind = BK.list → BlockQ S bd (.mk l' bs' is) := by
      intro l' bs' hk'
      apply BlockQ_of_kind <;> (simp only [PB.kind, PB.label]; rw [hk']; decide)
    split
    · apply AllQ.single
      rw [PQ_mk]
      refine ⟨hb _ _ hkl, ?_⟩
      intro b hb'
      rw [List.mem_map] at hb'
      obtain ⟨c, hc, rfl⟩ := hb'
      exact PQ_setLabel (f := fun il => { il with loose := true }) (fun _ => rfl) (hcl c hc)
    · apply AllQ.single
      rw [PQ_mk]
      exact ⟨hb _ _ hkl, hcl⟩
  split
  · rename_i hk
    have hkp : l.kind = BK.paragraph := by
      simp only [Bool.or_eq_true, beq_iff_eq] at hk
      rcases hk with hk | hk
      · exact hk
      · exact absurd hk hns
    apply onCloseParagraph_PQ x S { l with stop := e } bs is (Or.inl hkp) (h.1.1 (Or.inl hkp)) h.2
    intro hs
    exact absurd (show l.kind = BK.setextHeading from hs) hns
  split
  · rename_i hk
    have hki : l.kind = BK.indentedCode := by simpa using hk
    obtain ⟨is', heq, _⟩ := indentedOnClose_eq S { l with stop := e } bs is
    rw [heq]
    apply AllQ.single
    rw [PQ_mk]
    refine ⟨BlockQ_of_kind ?_ ?_ ?_, h.2⟩ <;> (simp only [PB.kind, PB.label]; rw [hki]; decide)
  · apply AllQ.single
    rw [PQ_mk]
    exact ⟨BlockQ_congr (b := .mk l bs is) rfl rfl h.1, hcl⟩

/-! ### the invariant of the line parser -/

/-- The invariant of the line parser while it processes the line `S[ls:]`. -/
structure GQ (S : Bytes) (bd : Int) (ls : Nat) (p : LP) : Prop where
  gi : GI S bd ls p
  good : PQ S bd p.root

variable {ls : Nat}

theorem GQ.of_fr {p q : LP} (h : GQ S bd ls p) (e : fr q = fr p) : GQ S bd ls q :=
  ⟨h.gi.of_fr e, by rw [fr_root e]; exact h.good⟩

theorem GQ.setState {p : LP} (h : GQ S bd ls p) (s : Nat) : GQ S bd ls { p with state := s } :=
  ⟨⟨h.gi.source, h.gi.lineStart, h.gi.line, h.gi.good⟩, h.good⟩

theorem GQ.setDepth {p : LP} (h : GQ S bd ls p) (d : Nat) : GQ S bd ls { p with depth := d } :=
  ⟨⟨h.gi.source, h.gi.lineStart, h.gi.line, h.gi.good⟩, h.good⟩

theorem GQ.mono {p : LP} {bd' : Int} (h : GQ S bd ls p) (hb : bd ≤ bd') : GQ S bd' ls p :=
  ⟨⟨h.gi.source, h.gi.lineStart, h.gi.line, GoodT_mono (List.prefix_refl _) hb _ h.gi.good⟩,
    PQ_mono (List.prefix_refl _) hb _ h.good⟩

theorem closeContainer_GQ (x : PExt) (p : LP) (e : Int) (h : GQ S bd ls p) : GQ S bd ls (p.closeContainer x e) := by
  refine ⟨closeContainer_GI x p e h.gi, ?_⟩
  unfold LP.closeContainer
  split
  · show PQ S bd ((closeBlock x p.source e p.root).headD p.root)
    have := closeBlock_PQ x S bd bd e p.root h.gi.good h.good
    rw [h.gi.source]
    cases hc : closeBlock x S e p.root with
    | nil => exact h.good
    | cons a t => rw [hc] at this; exact this a (by simp)
  · show PQ S bd (spineReplaceLast (closeBlock x p.source e) p.root (p.depth - 1))
    rw [h.gi.source]
    exact PQ_spineReplaceLast _ _ _ h.good
      (fun c hc hq => closeBlock_PQ x S bd bd e c (GoodT_spineGet _ _ _ h.gi.good hc) hq)

theorem closeLastChild_GQ (x : PExt) (p : LP) (e : Int) (h : GQ S bd ls p) : GQ S bd ls (p.closeLastChild x e) := by
  refine ⟨closeLastChild_GI x p e h.gi, ?_⟩
  show PQ S bd (spineReplaceLast (closeBlock x p.source e) p.root p.depth)
  rw [h.gi.source]
  exact PQ_spineReplaceLast _ _ _ h.good
    (fun c hc hq => closeBlock_PQ x S bd bd e c (GoodT_spineGet _ _ _ h.gi.good hc) hq)

theorem endBlock_GQ (x : PExt) (p : LP) (h : GQ S bd ls p) : GQ S bd ls (p.endBlock x) := by
  unfold LP.endBlock
  split
  · exact h.of_fr (fr_setPanic p _)
  · exact closeContainer_GQ x _ _ (h.of_fr (fr_markMatched p))

theorem openBlockLoop_GQ (x : PExt) (kind : Nat) : ∀ (fuel : Nat) (p : LP), GQ S bd ls p →
    GQ S bd ls (LP.openBlockLoop x kind fuel p) := by
  intro fuel
  induction fuel with
  | zero => intro p h; exact h
  | succ fuel ih =>
    intro p h
    unfold LP.openBlockLoop
    split
    · exact h
    · split
      · exact h.of_fr (fr_setPanic p _)
      · exact ih _ (closeContainer_GQ x p _ h)

theorem PQ_appendChild {child b : PB} (hc : PQ S bd child) (hb : PQ S bd b) :
    PQ S bd ((fun b => match b with | PB.mk l bs is => PB.mk l (bs ++ [child]) is) b) := by
  obtain ⟨l, bs, is⟩ := b
  simp only []
  rw [PQ_mk] at hb ⊢
  refine ⟨BlockQ_congr (b := .mk l bs is) rfl rfl hb.1, ?_⟩
  intro c hcm
  rcases List.mem_append.mp hcm with h' | h'
  · exact hb.2 c h'
  · simp only [List.mem_singleton] at h'; subst h'; exact hc

/-- A block with no children. -/
theorem PQ_fresh (l : PLabel) : PQ S bd (.mk l [] []) := by
  rw [PQ_mk]
  exact ⟨⟨fun _ => ParaQ_nil S bd, fun _ => Nat.zero_le _⟩, fun _ hm => by cases hm⟩

/-- `openBlock` of a kind other than a setext heading (the new block has no children). -/
theorem openBlock_GQ (x : PExt) (p : LP) (kind : Nat) (attrs : PLabel → PLabel)
    (hattr : ∀ l, (attrs l).kind = l.kind) (hk : kind ≠ BK.setextHeading) (h : GQ S bd ls p) :
    GQ S bd ls (p.openBlock x kind attrs) := by
  refine ⟨openBlock_GI x p kind attrs hattr hk h.gi, ?_⟩
  unfold LP.openBlock
  split
  · exact (h.of_fr (fr_setPanic p _)).good
  · simp only []
    have h1 := h.of_fr (fr_markMatched p)
    have h2 := openBlockLoop_GQ x kind (p.markMatched.depth + 1) _ h1
    have h3 := closeLastChild_GQ x _ (LP.openBlockLoop x kind (p.markMatched.depth + 1) p.markMatched).lineStart h2
    show PQ S bd (spineModify _ _ _)
    apply PQ_spineModify _ _ _ h3.good
    intro c _ hc
    exact PQ_appendChild (PQ_fresh _) hc

/-! ### modifying the container -/

theorem modifyContainer_GQ (p : LP) (f : PB → PB)
    (hf : ∀ c, spineGet p.root p.depth = some c → GoodT S bd c → GoodT S bd (f c))
    (hq : ∀ c, spineGet p.root p.depth = some c → PQ S bd c → PQ S bd (f c)) (h : GQ S bd ls p) :
    GQ S bd ls (p.modifyContainer f) :=
  ⟨modifyContainer_GI p f hf h.gi, PQ_spineModify f _ _ h.good hq⟩

theorem setContainerIndent_GQ (p : LP) (n : Int) (h : GQ S bd ls p) : GQ S bd ls (p.setContainerIndent n) := by
  refine ⟨setContainerIndent_GI p n h.gi, ?_⟩
  unfold LP.setContainerIndent
  split
  · exact (h.of_fr (fr_setPanic p _)).good
  · split
    · exact (h.of_fr (fr_setPanic p _)).good
    · exact PQ_spineModify _ _ _ h.good
        (fun c _ hc => PQ_setLabel (f := fun l => { l with indent := n }) (fun _ => rfl) hc)

/-- The container is none of the three kinds with a rule. -/
def Free (p : LP) : Prop := ∀ c, spineGet p.root p.depth = some c →
  c.kind ≠ BK.paragraph ∧ c.kind ≠ BK.setextHeading ∧ c.kind ≠ BK.atxHeading

theorem Free.of_kind {p : LP} (h1 : p.containerKind ≠ BK.paragraph) (h2 : p.containerKind ≠ BK.setextHeading)
    (h3 : p.containerKind ≠ BK.atxHeading) : Free p := by
  intro c hc
  unfold LP.containerKind LP.container at h1 h2 h3
  rw [hc] at h1 h2 h3
  exact ⟨h1, h2, h3⟩

theorem Free.of_fr {p q : LP} (h : Free p) (e : fr q = fr p) : Free q := by
  unfold Free; rw [fr_root e, fr_depth e]; exact h

theorem Free.notPara {p : LP} (h : Free p) : NotPara p := fun c hc => (h c hc).1

theorem PQ_appendInl_free {t : Tree} {b : PB} (hk : b.kind ≠ BK.paragraph ∧ b.kind ≠ BK.setextHeading ∧ b.kind ≠ BK.atxHeading)
    (hb : PQ S bd b) : PQ S bd ((fun b => match b with | PB.mk l bs is => PB.mk l bs (is ++ [t])) b) := by
  obtain ⟨l, bs, is⟩ := b
  simp only []
  rw [PQ_mk] at hb ⊢
  exact ⟨BlockQ_of_kind hk.1 hk.2.1 hk.2.2, hb.2⟩

/-- Appending any node to a container that is neither a paragraph nor a heading. -/
theorem appendInline_GQ_free (p : LP) (t : Tree) (hn : Free p) (h : GQ S bd ls p) :
    GQ S bd ls (p.appendInline t) ∧ Free (p.appendInline t) := by
  refine ⟨⟨(appendInline_GI_np p t hn.notPara h.gi).1, PQ_spineModify _ _ _ h.good (fun c hc hq => PQ_appendInl_free (hn c hc) hq)⟩, ?_⟩
  intro c hc
  have : spineGet (spineModify (fun b => match b with | PB.mk l bs is => PB.mk l bs (is ++ [t])) p.root p.depth) p.depth = some c := hc
  rw [spineGet_modify_self] at this
  cases hs : spineGet p.root p.depth with
  | none => rw [hs] at this; cases this
  | some c0 =>
    obtain ⟨l, bs, is⟩ := c0
    rw [hs] at this
    simp only [Option.map_some, Option.some.injEq] at this
    subst this
    exact hn (PB.mk l bs is) hs

theorem ciIndent_GQ (p : LP) (hn : Free p) (h : GQ S bd ls p) : GQ S bd ls (BSp.ciIndent p) ∧ Free (BSp.ciIndent p) := by
  unfold BSp.ciIndent
  split
  · exact appendInline_GQ_free _ _ (hn.of_fr (fr_advance p _)) (h.of_fr (fr_advance p _))
  · exact ⟨h, hn⟩

/-- `collectInline` into a container that is neither a paragraph nor a heading. -/
theorem collectInline_GQ (x : PExt) (p : LP) (kind n : Nat) (hn : Free p) (h : GQ S bd ls p) :
    GQ S bd ls (p.collectInline x kind n) := by
  by_cases hst : p.state = 4
  · unfold LP.collectInline
    rw [if_pos (by simp [hst, stateDescendTerminated])]
    exact h.of_fr (fr_setPanic p _)
  · rw [BSp.collectInline_eq x p kind n hst]
    have h1 : GQ S bd ls ({ p with state := mm p.state } : LP) := h.setState _
    have n1 : Free ({ p with state := mm p.state } : LP) := hn
    obtain ⟨h2, n2⟩ := ciIndent_GQ _ n1 h1
    generalize BSp.ciIndent { p with state := mm p.state } = p2 at h2 n2 ⊢
    have h3 := h2.of_fr (fr_advance p2 n)
    have n3 := n2.of_fr (fr_advance p2 n)
    exact (appendInline_GQ_free _ _ n3 h3).1

/-- Appending a good node to a container that is a paragraph. -/
theorem PQ_appendInl_para {t : Tree} (ht : NodeR S bd t) (hpre : NoTickBeforeI S t.label.start) {b : PB}
    (hk : b.kind = BK.paragraph) (hb : PQ S bd b) :
    PQ S bd ((fun b => match b with | PB.mk l bs is => PB.mk l bs (is ++ [t])) b) := by
  obtain ⟨l, bs, is⟩ := b
  simp only []
  rw [PQ_mk] at hb ⊢
  have hk' : l.kind = BK.paragraph := hk
  refine ⟨⟨fun _ => ParaQ_snoc (hb.1.1 (Or.inl hk)) ht (fun _ => hpre), fun ha => ?_⟩, hb.2⟩
  have ha' : l.kind = BK.atxHeading := ha
  rw [hk'] at ha'; exact absurd ha' (by decide)

theorem appendInline_GQ_para (p : LP) (t : Tree) (hk : p.containerKind = BK.paragraph)
    (hok : NodeOK S t ∧ t.label.stop ≤ bd) (ht : NodeR S bd t) (hpre : NoTickBeforeI S t.label.start)
    (h : GQ S bd ls p) : GQ S bd ls (p.appendInline t) := by
  refine ⟨appendInline_GI_node p t hok h.gi, PQ_spineModify _ _ _ h.good (fun c hc hq => PQ_appendInl_para ht hpre ?_ hq)⟩
  unfold LP.containerKind LP.container at hk
  rw [hc] at hk
  exact hk

end CM.Proofs.PSh
