import CM.Spec.HtmlLang
import CM.Proofs.Escape
/-
The byte-level recogniser of Spec/HtmlLang, generalised in the class of text runs it accepts.

`htmlLangG T` is `Spec.htmlLang` with the test `dataOK` on text runs replaced by `T` (attribute values are
still tested with `dataOK`); `htmlLang = htmlLangG dataOK` (`htmlLang_eq`). The weakened language of C07
under a tag filter is `htmlLangG dataW`: a text run may contain `>` and `"`, still no `<`, no `'`, and every
`&` starts `&[#A-Za-z0-9]+;`.
This file: the definitions and the byte-string lemmas (takeWhile/drop, `ampRefOK`).
-/
namespace CM.Proofs.RenderWF
open CM CM.Model CM.Spec CM.Gen

def htmlLangG (T : Bytes → Bool) : Nat → Bytes → List Bytes → Bool
  | 0, _, _ => false
  | fuel + 1, b, st =>
    match b with
    | [] => st.isEmpty
    | 0x3C :: 0x2F :: rest =>
      let name := rest.takeWhile isNameChar
      match rest.drop name.length, st with
      | 0x3E :: rest2, m :: st' => m == name && htmlLangG T fuel rest2 st'
      | _, _ => false
    | 0x3C :: rest =>
      let name := rest.takeWhile isNameChar
      if !(rendererElements.contains name || name == str "br") then false else
      match parseAttrs (rest.length + 1) (rest.drop name.length) with
      | some rest2 => htmlLangG T fuel rest2 (if isVoidOut name then st else name :: st)
      | none => false
    | _ =>
      let text := b.takeWhile (· != 0x3C)
      T text && htmlLangG T fuel (b.drop text.length) st

/-- The recogniser of Spec/HtmlLang is the instance `T = dataOK`. -/
theorem htmlLang_eq (fuel : Nat) (b : Bytes) (st : List Bytes) : htmlLang fuel b st = htmlLangG dataOK fuel b st := by
  induction fuel generalizing b st with
  | zero => rfl
  | succ f ih =>
    unfold htmlLang htmlLangG
    simp only [ih]
    rfl

/-- Weakened text runs: no `<`, no `'`, every `&` starts `&[#A-Za-z0-9]+;` (`>` and `"` allowed). -/
def dataW (b : Bytes) : Bool := b.all (fun c => c != 0x3C && c != 0x27) && ampRefOK b

/-- The weakened output language. -/
def htmlWellFormedW (b : Bytes) : Bool := htmlLangG dataW (b.length + 1) b []

theorem htmlWellFormed_eq (b : Bytes) : htmlWellFormed b = htmlLangG dataOK (b.length + 1) b [] := htmlLang_eq _ _ _

/-! ### takeWhile / drop -/

theorem takeWhile_append_stop (p : UInt8 → Bool) (a : Bytes) (c : UInt8) (rest : Bytes)
    (ha : a.all p = true) (hc : p c = false) : (a ++ c :: rest).takeWhile p = a := by
  induction a with
  | nil => simp [hc]
  | cons x xs ih =>
    simp only [List.all_cons, Bool.and_eq_true] at ha
    simp [ha.1, ih ha.2]

theorem takeWhile_all (p : UInt8 → Bool) (a : Bytes) (ha : a.all p = true) : a.takeWhile p = a := by
  induction a with
  | nil => rfl
  | cons x xs ih =>
    simp only [List.all_cons, Bool.and_eq_true] at ha
    simp [List.takeWhile, ha.1, ih ha.2]

/-- If the first byte after the `p`-run of `rest` is `x` (not a `p` byte), appending changes neither. -/
theorem takeWhile_append_of_head (p : UInt8 → Bool) (x : UInt8) (hx : p x = false) (rest b : Bytes)
    (h : (rest.drop (rest.takeWhile p).length).head? = some x) :
    (rest ++ b).takeWhile p = rest.takeWhile p ∧
    ((rest ++ b).drop (rest.takeWhile p).length).head? = some x := by
  induction rest with
  | nil => simp at h
  | cons r rs ih =>
    by_cases hr : p r = true
    · simp only [List.takeWhile, hr, List.length_cons, List.drop_succ_cons] at h
      have := ih h
      simp only [List.cons_append, List.takeWhile, hr, List.length_cons, List.drop_succ_cons]
      exact ⟨by rw [this.1], this.2⟩
    · have hr' : p r = false := by simpa using hr
      simp only [List.takeWhile, hr', List.length_nil, List.drop_zero, List.head?_cons, Option.some.injEq] at h
      subst h
      simp [List.takeWhile, hr']

/-! ### `ampRefOK` -/

theorem refChar_semicolon : isRefChar 0x3B = false := by decide +kernel

theorem ampRefOK_append (a b : Bytes) (ha : ampRefOK a = true) (hb : ampRefOK b = true) : ampRefOK (a ++ b) = true := by
  induction a with
  | nil => simpa using hb
  | cons c rest ih =>
    simp only [ampRefOK, Bool.and_eq_true, Bool.or_eq_true] at ha
    simp only [List.cons_append, ampRefOK, Bool.and_eq_true, Bool.or_eq_true]
    refine ⟨?_, ih ha.2⟩
    rcases ha.1 with h | h
    · exact Or.inl h
    · right
      simp only [beq_iff_eq] at h
      obtain ⟨hne, hhead⟩ := h
      have := takeWhile_append_of_head isRefChar 0x3B refChar_semicolon rest b hhead
      simp only [this.1, this.2, beq_iff_eq, and_true]
      exact hne

theorem ampRefOK_of_noAmp (b : Bytes) (h : b.all (· != 0x26) = true) : ampRefOK b = true := by
  induction b with
  | nil => rfl
  | cons c cs ih =>
    simp only [List.all_cons, Bool.and_eq_true] at h
    simp only [ampRefOK, h.1, Bool.true_or, Bool.true_and]
    exact ih h.2

theorem hasBytePrefix_split (a e : Bytes) (h : hasBytePrefix a e = true) : ∃ tail, a = e ++ tail := by
  induction e generalizing a with
  | nil => exact ⟨a, rfl⟩
  | cons p ps ih =>
    cases a with
    | nil => simp [hasBytePrefix] at h
    | cons c cs =>
      simp only [hasBytePrefix, Bool.and_eq_true, beq_iff_eq] at h
      obtain ⟨tail, ht⟩ := ih cs h.2
      exact ⟨tail, by rw [h.1, ht]; rfl⟩

theorem dropLast_append_last (l : Bytes) (x : UInt8) (h : l.getLast? = some x) : l = l.dropLast ++ [x] := by
  have hne : l ≠ [] := by intro e; simp [e] at h
  have := List.dropLast_concat_getLast hne
  rw [List.getLast?_eq_some_getLast hne] at h
  simp only [Option.some.injEq] at h
  rw [h] at this; exact this.symm

/-- Each of the renderer's escapes is a run of reference characters followed by `;`. -/
theorem escapeNames_shape : ∀ e ∈ escapeNames,
    e.dropLast.all isRefChar = true ∧ e.getLast? = some 0x3B ∧ e.dropLast.isEmpty = false := by
  decide +kernel

/-- After `&`, a string starting with one of the renderer's escapes is a well-formed reference. -/
theorem refOK_of_escape (rest : Bytes) (h : escapeNames.any (hasBytePrefix rest) = true) :
    (!(rest.takeWhile isRefChar).isEmpty && (rest.drop (rest.takeWhile isRefChar).length).head? == some 0x3B) = true := by
  simp only [List.any_eq_true] at h
  obtain ⟨e, he, hp⟩ := h
  obtain ⟨tail, ht⟩ := hasBytePrefix_split rest e hp
  obtain ⟨h1, h2, h3⟩ := escapeNames_shape e he
  have hsplit := dropLast_append_last e 0x3B h2
  have hrest : rest = e.dropLast ++ 0x3B :: tail := by
    rw [ht]; conv => lhs; rw [hsplit]
    simp
  have htw : rest.takeWhile isRefChar = e.dropLast := by
    rw [hrest]; exact takeWhile_append_stop isRefChar _ _ _ h1 refChar_semicolon
  rw [htw]
  simp only [h3, Bool.not_false, Bool.true_and, beq_iff_eq]
  rw [hrest, List.drop_left]
  rfl

theorem ampRefOK_of_ampOK (b : Bytes) (h : ampOK b = true) : ampRefOK b = true := by
  induction b with
  | nil => rfl
  | cons c rest ih =>
    simp only [ampOK, Bool.and_eq_true, Bool.or_eq_true] at h
    simp only [ampRefOK, Bool.and_eq_true, Bool.or_eq_true]
    refine ⟨?_, ih h.2⟩
    rcases h.1 with h1 | h1
    · exact Or.inl h1
    · right
      have := refOK_of_escape rest h1
      simpa only [Bool.and_eq_true] using this

theorem dataOK_of_safeData (b : Bytes) (h : safeData b = true) : dataOK b = true := by
  simp only [safeData, Bool.and_eq_true] at h
  simp only [dataOK, Bool.and_eq_true]
  exact ⟨h.1, ampRefOK_of_ampOK b h.2⟩

theorem dataOK_append (a b : Bytes) (ha : dataOK a = true) (hb : dataOK b = true) : dataOK (a ++ b) = true := by
  simp only [dataOK, Bool.and_eq_true, markupFree_append] at *
  exact ⟨⟨ha.1, hb.1⟩, ampRefOK_append a b ha.2 hb.2⟩

theorem dataW_append (a b : Bytes) (ha : dataW a = true) (hb : dataW b = true) : dataW (a ++ b) = true := by
  simp only [dataW, Bool.and_eq_true, List.all_append] at *
  exact ⟨⟨ha.1, hb.1⟩, ampRefOK_append a b ha.2 hb.2⟩

theorem dataW_of_dataOK (b : Bytes) (h : dataOK b = true) : dataW b = true := by
  simp only [dataOK, markupFree, Bool.and_eq_true, List.all_eq_true] at h
  simp only [dataW, Bool.and_eq_true, List.all_eq_true]
  refine ⟨fun c hc => ?_, h.2⟩
  have := h.1 c hc
  simp only [isMarkupByte, Bool.not_eq_true', Bool.or_eq_false_iff] at this
  simp only [bne_iff_ne, ne_eq]
  exact ⟨by simpa using this.1.1.1, by simpa using this.2⟩

/-! ### copied character references -/

theorem refChar_eq : ∀ c : UInt8, (Spec.isASCIILetter c || Spec.isASCIIDigit c || c == 0x23) = isRefChar c := by
  apply forall_uint8; decide +kernel

theorem refChar_plain : ∀ c : UInt8, isRefChar c = true → (c != 0x26 && !isMarkupByte c) = true := by
  apply forall_uint8; decide +kernel

theorem dataOK_ref (mid : Bytes) (hmid : mid.all isRefChar = true) (hne : mid.isEmpty = false) :
    dataOK (0x26 :: (mid ++ [0x3B])) = true := by
  have hplain : (mid ++ [0x3B]).all (fun c => c != 0x26 && !isMarkupByte c) = true := by
    simp only [List.all_append, Bool.and_eq_true, List.all_eq_true]
    refine ⟨fun c hc => ?_, by decide⟩
    have := refChar_plain c ((List.all_eq_true.mp hmid) c hc)
    simpa only [Bool.and_eq_true] using this
  have htw : (mid ++ [0x3B]).takeWhile isRefChar = mid :=
    takeWhile_append_stop isRefChar _ _ _ hmid refChar_semicolon
  have hno : ampRefOK (mid ++ [0x3B]) = true := by
    apply ampRefOK_of_noAmp
    simp only [List.all_eq_true, Bool.and_eq_true] at hplain ⊢
    exact fun c hc => (hplain c hc).1
  simp only [dataOK, Bool.and_eq_true]
  constructor
  · simp only [markupFree, List.all_cons, Bool.and_eq_true]
    refine ⟨by decide, ?_⟩
    simp only [List.all_eq_true, Bool.and_eq_true] at hplain ⊢
    exact fun c hc => (hplain c hc).2
  · simp only [ampRefOK, bne_self_eq_false, Bool.false_or, htw, hne, Bool.not_false,
      List.drop_left, List.head?_cons, beq_self_eq_true, hno, Bool.and_self]

/-- A copied reference `&[#A-Za-z0-9]+;` is acceptable text. -/
theorem dataOK_of_charRef (b : Bytes) (h : charRefShape b = true) : dataOK b = true := by
  cases b with
  | nil => simp [charRefShape] at h
  | cons a rest =>
    simp only [charRefShape, Bool.and_eq_true, beq_iff_eq, List.all_eq_true, decide_eq_true_eq] at h
    obtain ⟨⟨⟨ha, hlen⟩, hlast⟩, hmid⟩ := h
    subst ha
    have hsplit := dropLast_append_last rest 0x3B hlast
    have hmid' : rest.dropLast.all isRefChar = true := by
      simp only [List.all_eq_true]
      intro c hc
      rw [← refChar_eq]; exact hmid c hc
    have hne : rest.dropLast.isEmpty = false := by
      cases hd : rest.dropLast with
      | nil =>
        rw [hd] at hsplit
        rw [hsplit] at hlen
        simp at hlen
      | cons x xs => rfl
    rw [hsplit]
    exact dataOK_ref _ hmid' hne

end CM.Proofs.RenderWF
