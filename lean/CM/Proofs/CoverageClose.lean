import CM.Proofs.CoverageWF
import CM.Proofs.BGClose
/-
C03, part B — `closeBlock`: the blocks it returns are `WF` again and cover every needed position the closed block
covered (`closeBlock_ok`), given the contract `ParaClose` for `onCloseParagraph` (the link-reference-definition step).
The hook of indented code blocks drops only blank text (`indentedOnClose_le`); closing a list marker adds its span.
-/
namespace CM.Proofs.Cov
open CM CM.Model CM.Gen CM.Spec CM.Spec.T CM.Proofs.BT
open CM.Proofs.BSp (ParaPred QT isContainerKind)

/-- The positions that must be covered: inside the source, at a needed byte. -/
def NP (src : Bytes) (j : Nat) : Prop := j < src.length ∧ need (src.getD j 0) = true

/-- The contract for closing an open paragraph at `e`: the blocks `onCloseParagraph` returns are well formed (`Q'`) and
    cover what the paragraph's inline children covered. -/
def ParaClose (Q Q' : ParaPred) (x : PExt) (src : Bytes) (e : Int) : Prop :=
  ∀ l is, l.stop < 0 → l.kind = BK.paragraph → Q l is = true →
    (∀ c ∈ onCloseParagraph x src (.mk { l with stop := e } [] is), WF Q' c) ∧
    LeL (NP src) [.mk l [] is] (onCloseParagraph x src (.mk { l with stop := e } [] is))

/-! ### white space is never needed -/

theorem ws_not_need : ∀ c : UInt8, Gen.isSpaceTabOrLineEnding c = true → need c = false := by
  intro c h
  simp only [Gen.isSpaceTabOrLineEnding, Bool.or_eq_true, beq_iff_eq] at h
  rcases h with ((h | h) | h) | h <;> subst h <;> decide +kernel

theorem getD_slice (src : Bytes) (s n j : Nat) (h1 : s ≤ j) (h2 : j < s + n) (h3 : j < src.length) :
    src.getD j 0 ∈ (src.drop s).take n := by
  have e : src.getD j 0 = ((src.drop s).take n).getD (j - s) 0 := by
    simp only [List.getD_eq_getElem?_getD, List.getElem?_take, List.getElem?_drop]
    rw [if_pos (by omega)]
    congr 2
    omega
  rw [e]
  have hl : j - s < ((src.drop s).take n).length := by
    simp only [List.length_take, List.length_drop]; omega
  rw [List.getD_eq_getElem?_getD, List.getElem?_eq_getElem hl]
  exact List.getElem_mem hl

/-- A node with a valid span whose text is blank covers no needed position. -/
theorem blank_no_cover (src : Bytes) (t : Tree) (h0 : 0 ≤ start t) (h1 : start t ≤ stop t)
    (hb : isBlankLine (Node.slice src t) = true) (j : Nat) (hn : NP src j) : covers j t = false := by
  cases hc : covers j t with
  | false => rfl
  | true =>
    exfalso
    rw [covers_iff] at hc
    have hv : Node.spanValid t = true := by
      simp only [Node.spanValid, Bool.and_eq_true, decide_eq_true_eq]
      simp only [start, stop] at h0 h1
      omega
    simp only [Node.slice, hv, if_true, isBlankLine, List.all_eq_true] at hb
    simp only [start, stop] at h0 h1 hc
    have hm := getD_slice src t.label.start.toNat (t.label.stop - t.label.start).toNat j (by omega) (by omega) hn.1
    have := ws_not_need _ (hb _ hm)
    rw [hn.2] at this
    cases this

/-- A childless node covers at most its own span. -/
theorem covT_childless {t : Tree} (h : t.children = []) (j : Nat) (hc : covT t j = true) : covers j t = true := by
  obtain ⟨l, cs⟩ := t
  have : cs = [] := h
  subst this
  rw [covT_node, covTs_nil, Bool.or_false, Bool.and_eq_true] at hc
  exact hc.2

/-! ### indented code blocks -/

theorem trim_keep (src : Bytes) : ∀ (L : List Tree), ∀ t ∈ L,
    t ∈ indentedOnClose.trim src L ∨ (Node.isI t IK.text = true ∧ isBlankLine (Node.slice src t) = true) := by
  intro L
  induction L with
  | nil => intro t h; cases h
  | cons c rest ih =>
    intro t ht
    rw [indentedOnClose.trim]
    split
    · rename_i hc
      rcases List.mem_cons.mp ht with rfl | ht
      · right; simpa using hc
      · exact ih t ht
    · left; exact ht

/-- What `indentedOnClose` drops: blank text, and a zero-length soft break. -/
theorem indentedOnClose_keep (src : Bytes) (l : PLabel) (bs : List PB) (is : List Tree) :
    ∃ is', indentedOnClose src (.mk l bs is) = .mk l bs is' ∧ (∀ t ∈ is', t ∈ is) ∧
      ∀ t ∈ is, t ∈ is' ∨ (isBlankLine (Node.slice src t) = true) ∨ Node.spanLen t = 0 := by
  obtain ⟨is', he, hsub⟩ := BG.indentedOnClose_eq src l bs is
  refine ⟨is', he, hsub, ?_⟩
  -- recompute `is'`
  unfold indentedOnClose at he
  simp only [PB.mk.injEq, true_and] at he
  subst he
  intro t ht
  simp only [List.mem_reverse]
  split
  · rename_i sb prev rest hrev
    have hmem : t ∈ sb :: prev :: rest := by rw [← hrev]; exact List.mem_reverse.mpr ht
    split
    · rename_i hc
      simp only [Bool.and_eq_true, beq_iff_eq] at hc
      rcases List.mem_cons.mp hmem with rfl | hmem'
      · right; right; exact hc.1.1.2
      · rcases trim_keep src ((prev :: rest).reverse.reverse) t (by rw [List.reverse_reverse]; exact hmem') with h | h
        · left; exact h
        · right; left; exact h.2
    · rcases trim_keep src _ t (List.mem_reverse.mpr ht) with h | h
      · left; exact h
      · right; left; exact h.2
  · rcases trim_keep src _ t (List.mem_reverse.mpr ht) with h | h
    · left; exact h
    · right; left; exact h.2

theorem indentedOnClose_ok {Q : ParaPred} (src : Bytes) (l : PLabel) (bs : List PB) (is : List Tree)
    (hk : l.kind = BK.indentedCode) (h : WF Q (.mk l bs is)) :
    WF Q (indentedOnClose src (.mk l bs is)) ∧ Le (NP src) (.mk l bs is) (indentedOnClose src (.mk l bs is)) ∧
    (indentedOnClose src (.mk l bs is)).kind = l.kind := by
  obtain ⟨is', he, hsub, hkeep⟩ := indentedOnClose_keep src l bs is
  rw [he]
  rw [WF_mk] at h
  obtain ⟨h1, h2, h3, h4⟩ := h
  refine ⟨?_, ?_, rfl⟩
  · rw [WF_mk]
    refine ⟨⟨?_, h1.2⟩, ⟨fun t ht => h2.1 t (hsub t ht), fun hk' t ht => h2.2 hk' t (hsub t ht)⟩, fun ho => ?_, h4⟩
    · have h1' := h1.1
      split at h1'
      · rename_i hck
        rw [if_pos hck]
        cases his : is' with
        | nil => rfl
        | cons a r =>
          have := hsub a (by rw [his]; exact List.mem_cons_self)
          rw [h1'] at this; cases this
      · rename_i hck
        rw [if_neg hck]; exact h1'
    · refine ⟨(h3 ho).1, fun hp => ?_⟩
      rw [hk] at hp; cases hp
  · intro j hn hc
    rw [covPB_mk] at hc ⊢
    rw [Bool.or_eq_true] at hc ⊢
    rcases hc with hc | hc
    · exact Or.inl hc
    · right
      split at hc
      · rename_i hbe
        rw [if_pos hbe]
        rw [covTs_iff] at hc ⊢
        obtain ⟨t, ht, hct⟩ := hc
        have hio := (inlOK_iff t).mp (h2.1 t ht)
        have hcl := h2.2 hk t ht
        have hcov := covT_childless hcl j hct
        rcases hkeep t ht with h' | h' | h'
        · exact ⟨t, h', hct⟩
        · have := blank_no_cover src t hio.1 hio.2.1 h' j hn
          rw [hcov] at this; cases this
        · exfalso
          rw [covers_iff] at hcov
          have hv : Node.spanValid t = true := by
            simp only [Node.spanValid, Bool.and_eq_true, decide_eq_true_eq]
            have := hio.1; have := hio.2.1
            simp only [start, stop] at *
            omega
          simp only [Node.spanLen, hv, if_true] at h'
          simp only [start, stop] at hcov
          omega
      · rename_i hbe
        rw [if_neg hbe]; exact hc

/-! ### closeBlock -/

/-- Closing the label of an open block that is well formed. -/
theorem WF_closed_label {Q Q' : ParaPred} {l l' : PLabel} {bs bs' : List PB} {is : List Tree}
    (h : WF Q (.mk l bs is)) (hk : l'.kind = l.kind) (he : 0 ≤ l'.stop)
    (hbs : ∀ c ∈ bs', WF Q' c) (hne : bs = [] → bs' = [])
    (hlist : l.kind = BK.list → ∀ c ∈ bs', c.kind = BK.listItem) : WF Q' (.mk l' bs' is) := by
  rw [WF_mk] at h ⊢
  obtain ⟨h1, h2, _, _⟩ := h
  refine ⟨⟨?_, fun hl => hlist (by rw [← hk]; exact hl)⟩, ⟨h2.1, fun hk' => h2.2 (by rw [← hk]; exact hk')⟩,
    fun ho => by omega, hbs⟩
  have h1' := h1.1
  rw [hk]
  split at h1'
  · rename_i hck; rw [if_pos hck]; exact h1'
  · rename_i hck; rw [if_neg hck]; exact hne h1'

/-- A list item is closed into one list item. -/
theorem closeBlock_item_kind (x : PExt) (src : Bytes) (e : Int) (c : PB) (hk : c.kind = BK.listItem) :
    ∀ c' ∈ closeBlock x src e c, c'.kind = BK.listItem := by
  obtain ⟨l, bs, is⟩ := c
  have hk' : l.kind = 10 := hk
  intro c' hc'
  rw [closeBlock] at hc'
  split at hc'
  · simp only [List.mem_singleton] at hc'; subst hc'; exact hk
  · simp only [hk', BK.list, BK.paragraph, BK.setextHeading, BK.indentedCode] at hc'
    simp at hc'
    subst hc'
    rfl

theorem WF_setLabel_np {Q : ParaPred} (f : PLabel → PLabel) (hk : ∀ l, (f l).kind = l.kind) (he : ∀ l, (f l).stop = l.stop)
    (c : PB) (hnp : c.kind ≠ BK.paragraph) (h : WF Q c) : WF Q (c.setLabel f) := by
  obtain ⟨l, bs, is⟩ := c
  show WF Q (.mk (f l) bs is)
  rw [WF_mk] at h ⊢
  obtain ⟨h1, h2, h3, h4⟩ := h
  refine ⟨⟨?_, fun hl => h1.2 (by rw [← hk]; exact hl)⟩, ⟨h2.1, fun hk' => h2.2 (by rw [← hk]; exact hk')⟩, fun ho => ?_, h4⟩
  · rw [hk]; exact h1.1
  · rw [he] at ho
    rw [hk]
    exact ⟨(h3 ho).1, fun hp => absurd hp hnp⟩

theorem covPBs_map_setLabel (f : PLabel → PLabel) (hk : ∀ l, (f l).kind = l.kind) (hs : ∀ l, (f l).start = l.start)
    (he : ∀ l, (f l).stop = l.stop) (bs : List PB) (j : Nat) : covPBs (bs.map (PB.setLabel f)) j = covPBs bs j := by
  induction bs with
  | nil => rfl
  | cons b rest ih => rw [List.map_cons, covPBs_cons, covPBs_cons, ih, covPB_setLabel f hk hs he]

/-- **`closeBlock`** returns well-formed blocks that cover every needed position the block covered. -/
theorem closeBlock_ok {Q Q' : ParaPred} (x : PExt) (src : Bytes) (e : Int) (he : 0 ≤ e)
    (hq : ∀ l is, Q l is = true → Q' l is = true) (hP : ParaClose Q Q' x src e) : ∀ b : PB, WF Q b →
    (∀ c ∈ closeBlock x src e b, WF Q' c) ∧ LeL (NP src) [b] (closeBlock x src e b) := by
  apply PB.ind
  intro l bs is ih h
  rw [closeBlock]
  split
  · refine ⟨?_, LeL.refl _ _⟩
    intro c hc
    simp only [List.mem_singleton] at hc
    subst hc
    exact WF.mono hq _ h
  rename_i hop
  have hopen : l.stop < 0 := by omega
  simp only []
  have hw := WF_mk.mp h
  obtain ⟨h1, h2, h3, h4⟩ := hw
  -- the children after `closeLast`
  have hcl : (∀ c ∈ closeLast x src e bs, WF Q' c) ∧ LeL (NP src) bs (closeLast x src e bs) ∧
      (bs = [] → closeLast x src e bs = []) ∧ (l.kind = BK.list → ∀ c ∈ closeLast x src e bs, c.kind = BK.listItem) := by
    cases hgl : bs.getLast? with
    | none =>
      rw [BG.closeLast_none x src e bs hgl]
      exact ⟨fun c hc => WF.mono hq c (h4 c hc), LeL.refl _ _, fun h' => h', h1.2⟩
    | some c =>
      rw [BG.closeLast_some x src e bs c hgl]
      have hcm : c ∈ bs := List.mem_of_getLast? hgl
      have r := ih c hcm (h4 c hcm)
      refine ⟨?_, ?_, ?_, ?_⟩
      · intro c' hc'
        rw [List.mem_append] at hc'
        rcases hc' with hc' | hc'
        · exact WF.mono hq c' (h4 c' (List.dropLast_subset bs hc'))
        · exact r.1 c' hc'
      · have := LeL.append (LeL.refl (NP src) bs.dropLast) r.2
        rw [← eq_dropLast_append hgl] at this
        exact this
      · intro hb; rw [hb] at hgl; cases hgl
      · intro hl c' hc'
        rw [List.mem_append] at hc'
        rcases hc' with hc' | hc'
        · exact h1.2 hl c' (List.dropLast_subset bs hc')
        · exact closeBlock_item_kind x src e c (h1.2 hl c hcm) c' hc'
  obtain ⟨hc1, hc2, hc3, hc4⟩ := hcl
  -- the result in the cases where one block is returned, with children `bs'`
  have single : ∀ (l' : PLabel) (bs' : List PB), l'.kind = l.kind → l'.start = l.start → l'.stop = e →
      (∀ c ∈ bs', WF Q' c) → LeL (NP src) bs bs' → (bs = [] → bs' = []) → (l.kind = BK.list → ∀ c ∈ bs', c.kind = BK.listItem) →
      (∀ c ∈ [PB.mk l' bs' is], WF Q' c) ∧ LeL (NP src) [.mk l bs is] [.mk l' bs' is] := by
    intro l' bs' hk hs hst hw' hle hne hli
    refine ⟨?_, LeL.single ?_⟩
    · intro c hc
      simp only [List.mem_singleton] at hc
      subst hc
      exact WF_closed_label h hk (by rw [hst]; exact he) hw' hne hli
    · apply Le.trans (b := .mk l' bs is)
      · apply Le.label
        intro j hc
        simp only [markerCov, Bool.and_eq_true, decide_eq_true_eq, hk, hs] at hc ⊢
        omega
      · exact Le.kids hle hne
  split
  · -- a list
    split
    · apply single ({ l with stop := e, loose := true } : PLabel)
        ((closeLast x src e bs).map (PB.setLabel fun il => { il with loose := true })) rfl rfl rfl
      · intro c hc
        rw [List.mem_map] at hc
        obtain ⟨c0, hc0, rfl⟩ := hc
        rename_i hlk _
        have hlk' : l.kind = BK.list := by simpa using hlk
        have : c0.kind ≠ BK.paragraph := by rw [hc4 hlk' c0 hc0]; decide
        exact WF_setLabel_np (fun il => { il with loose := true }) (fun _ => rfl) (fun _ => rfl) c0 this (hc1 c0 hc0)
      · intro j hn hc
        rw [covPBs_map_setLabel (fun il => { il with loose := true }) (fun _ => rfl) (fun _ => rfl) (fun _ => rfl)]
        exact hc2 j hn hc
      · intro hb; rw [hc3 hb]; rfl
      · intro hl c hc
        rw [List.mem_map] at hc
        obtain ⟨c0, hc0, rfl⟩ := hc
        have := hc4 hl c0 hc0
        obtain ⟨l0, b0, i0⟩ := c0
        exact this
    · exact single { l with stop := e } (closeLast x src e bs) rfl rfl rfl hc1 hc2 hc3 hc4
  split
  · -- a paragraph (an open setext heading does not exist)
    rename_i _ hpk
    have hpk' : l.kind = BK.paragraph := by
      simp only [Bool.or_eq_true, beq_iff_eq] at hpk
      rcases hpk with hpk | hpk
      · exact hpk
      · exact absurd hpk (h3 hopen).1
    have hbs : bs = [] := by
      have h1' := h1.1
      split at h1'
      · rename_i hck
        exact absurd hpk' (isContainerKind_not_para hck).1
      · exact h1'
    subst hbs
    have r := hP l is hopen hpk' ((h3 hopen).2 hpk')
    exact r
  split
  · -- indented code
    rename_i _ _ hik
    have hik' : l.kind = BK.indentedCode := by simpa using hik
    have hw1 : WF Q' (.mk { l with stop := e } bs is) :=
      WF_closed_label h rfl he (fun c hc => WF.mono hq c (h4 c hc)) (fun h' => h') h1.2
    have r := indentedOnClose_ok src { l with stop := e } bs is hik' hw1
    refine ⟨?_, LeL.single ?_⟩
    · intro c hc
      simp only [List.mem_singleton] at hc
      subst hc
      exact r.1
    · apply Le.trans (b := .mk { l with stop := e } bs is)
      · apply Le.label
        intro j hc
        exact markerCov_close hopen e j hc
      · exact r.2.1
  · exact single { l with stop := e } (closeLast x src e bs) rfl rfl rfl hc1 hc2 hc3 hc4

/-- Closing a childless block that is not a paragraph: one block, the same but for `stop`. -/
theorem closeBlock_leaf (x : PExt) (src : Bytes) (e : Int) (l : PLabel) (is : List Tree) (ho : l.stop < 0)
    (hk : l.kind ≠ BK.paragraph ∧ l.kind ≠ BK.setextHeading ∧ l.kind ≠ BK.indentedCode ∧ l.kind ≠ BK.list) :
    closeBlock x src e (.mk l [] is) = [.mk { l with stop := e } [] is] := by
  rw [closeBlock]
  have h1 : ¬ l.stop ≥ 0 := by omega
  simp only [h1, if_false]
  have a1 : (l.kind == BK.paragraph) = false := by simpa using hk.1
  have a2 : (l.kind == BK.setextHeading) = false := by simpa using hk.2.1
  have a3 : (l.kind == BK.indentedCode) = false := by simpa using hk.2.2.1
  have a4 : (l.kind == BK.list) = false := by simpa using hk.2.2.2
  simp only [a1, a2, a3, a4, Bool.or_self, Bool.false_eq_true, if_false]
  rw [closeLast]

end CM.Proofs.Cov
