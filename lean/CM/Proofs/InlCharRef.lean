import CM.Model.LinkParse
import CM.Spec.TreeWF
import CM.Basic.Forall
/-
The language accepted by the model's `parseCharacterEscape` (inlines.go `parseCharacterEscape`): when it returns
`e ≥ 0`, the first `e` bytes of the text are `&`, a non-empty run of letters / digits / `#`, and `;` —
`Spec.charRefShape` — for every table `html.UnescapeString` (`ext`).
-/
namespace CM.Proofs.InlH
open CM CM.Model CM.Gen

/-- the bytes `charRefShape` allows between `&` and `;` -/
def okc (c : UInt8) : Bool := Spec.isASCIILetter c || Spec.isASCIIDigit c || c == 0x23

theorem okc_letter : ∀ c : UInt8, Gen.isASCIILetter c = true → okc c = true := by
  apply forall_uint8; decide +kernel
theorem okc_digit : ∀ c : UInt8, Gen.isASCIIDigit c = true → okc c = true := by
  apply forall_uint8; decide +kernel
theorem okc_hex : ∀ c : UInt8, Gen.isHex c = true → okc c = true := by
  apply forall_uint8; decide +kernel
theorem okc_alnum : ∀ c : UInt8, ¬(!Gen.isASCIILetter c && !Gen.isASCIIDigit c) = true → okc c = true := by
  apply forall_uint8; decide +kernel

/-- `&`, a non-empty run of allowed bytes, `;` has the shape. -/
theorem charRefShape_mk (nm : Bytes) (hne : nm ≠ []) (hall : nm.all okc = true) :
    Spec.charRefShape (0x26 :: (nm ++ [0x3B])) = true := by
  unfold Spec.charRefShape
  have hlen : 2 ≤ (nm ++ [0x3B]).length := by
    cases nm with
    | nil => exact absurd rfl hne
    | cons a t => simp
  have hd : (nm ++ [0x3B]).dropLast = nm := by simp
  simp only [beq_self_eq_true, Bool.true_and, List.getLast?_append, List.getLast?_singleton, Option.some_or,
    Bool.and_eq_true, decide_eq_true_eq, hd]
  refine ⟨⟨by omega, trivial⟩, ?_⟩
  simpa [okc] using hall

/-- The digit loops: a run of accepted digits, then `;`. -/
theorem numericRefLoop_ok (isD : UInt8 → Bool) : ∀ (l : Bytes) (i n : Nat),
    numericRefLoop isD l i = Int.ofNat n →
    ∃ ds tail, l = ds ++ 0x3B :: tail ∧ ds.all isD = true ∧ n = i + ds.length + 1 ∧ i + ds.length ≠ 0 := by
  intro l
  induction l with
  | nil => intro i n h; simp [numericRefLoop] at h
  | cons c rest ih =>
    intro i n h
    rw [numericRefLoop] at h
    split at h
    · rename_i hc
      split at h
      · cases h
      · rename_i hi
        refine ⟨[], rest, by simp at hc; simp [hc], rfl, ?_, by simpa using hi⟩
        have : (Int.ofNat n) = ((i + 1 : Nat) : Int) := by rw [← h]; simp
        simp only [List.length_nil, Nat.add_zero]
        exact Int.ofNat.inj this
    · split at h
      · cases h
      · rename_i hd
        obtain ⟨ds, tail, hl, hall, hn, hne⟩ := ih (i + 1) n h
        refine ⟨c :: ds, tail, by rw [hl]; rfl, ?_, by simp only [List.length_cons]; omega, by simp⟩
        simp only [List.all_cons, hall, Bool.and_true]
        simpa using hd

/-- The entity-name loop: a run of letters / digits, then `;`. -/
theorem entityLoop_ok (ext : Ext) (text : Bytes) : ∀ (l : Bytes) (i n : Nat),
    entityLoop ext text l i = Int.ofNat n →
    ∃ ds tail, l = ds ++ 0x3B :: tail ∧ ds.all okc = true ∧ n = i + ds.length + 2 ∧ i + ds.length ≠ 0 := by
  intro l
  induction l with
  | nil => intro i n h; simp [entityLoop] at h
  | cons c rest ih =>
    intro i n h
    rw [entityLoop] at h
    split at h
    · rename_i hc
      split at h
      · cases h
      · rename_i hi
        refine ⟨[], rest, by simp at hc; simp [hc], rfl, ?_, ?_⟩
        · have : (Int.ofNat n) = ((i + 2 : Nat) : Int) := by rw [← h]; simp
          simp only [List.length_nil, Nat.add_zero]
          exact Int.ofNat.inj this
        · simp only [Bool.or_eq_true, beq_iff_eq, not_or] at hi
          simpa using hi.1
    · split at h
      · cases h
      · rename_i hd
        obtain ⟨ds, tail, hl, hall, hn, hne⟩ := ih (i + 1) n h
        refine ⟨c :: ds, tail, by rw [hl]; rfl, ?_, by simp only [List.length_cons]; omega, by simp⟩
        simp only [List.all_cons, hall, Bool.and_true]
        exact okc_alnum c hd

theorem take_of_take_eq {l ds tail : Bytes} {m : Nat} (h : l.take m = ds ++ 0x3B :: tail) :
    l.take (ds.length + 1) = ds ++ [0x3B] := by
  have hl : l = (ds ++ 0x3B :: tail) ++ l.drop m := by rw [← h, List.take_append_drop]
  rw [hl]
  simp [List.take_append, List.take_of_length_le]

theorem all_cons_okc {a : UInt8} {l : Bytes} (ha : okc a = true) (hl : l.all okc = true) : (a :: l).all okc = true := by
  simp [ha, hl]

theorem all_okc_of {isD : UInt8 → Bool} (h : ∀ c, isD c = true → okc c = true) {l : Bytes} (hl : l.all isD = true) :
    l.all okc = true := by
  rw [List.all_eq_true] at hl ⊢
  exact fun y hy => h y (hl y hy)

/-- THE LANGUAGE OF `parseCharacterEscape`. -/
theorem parseCharacterEscape_shape (ext : Ext) (text : Bytes) (e : Nat)
    (h : parseCharacterEscape ext text = Int.ofNat e) :
    e ≤ text.length ∧ Spec.charRefShape (text.take e) = true := by
  unfold parseCharacterEscape at h
  split at h
  · cases h
  · rename_i h0
    simp only [Bool.or_eq_true, decide_eq_true_eq, bne_iff_ne, ne_eq, not_or, Nat.not_lt, Decidable.not_not] at h0
    obtain ⟨hlen, hhead⟩ := h0
    obtain ⟨a, body, rfl⟩ : ∃ a body, text = a :: body := by
      cases text with
      | nil => simp at hlen
      | cons a body => exact ⟨a, body, rfl⟩
    have ha : a = 0x26 := by simpa using hhead
    subst ha
    -- the common conclusion from `text.take e = & :: nm ++ [;]`
    have fin : ∀ nm : Bytes, nm ≠ [] → nm.all okc = true → e = nm.length + 2 →
        (0x26 :: body).take e = 0x26 :: (nm ++ [0x3B]) →
        e ≤ (0x26 :: body).length ∧ Spec.charRefShape ((0x26 :: body).take e) = true := by
      intro nm hne hall he ht
      refine ⟨?_, by rw [ht]; exact charRefShape_mk nm hne hall⟩
      have h1 := congrArg List.length ht
      simp only [List.length_take, List.length_cons, List.length_append, List.length_nil] at h1 ⊢
      omega
    split at h
    · -- named entity
      simp only [List.drop_succ_cons, List.drop_zero] at h
      obtain ⟨ds, tail, hl, hall, hn, hne⟩ := entityLoop_ok ext _ body 0 e h
      refine fin ds (by intro hd; rw [hd] at hne; simp at hne) hall (by omega) ?_
      rw [hn, hl]
      simp [List.take_append, List.take_of_length_le]
    · rename_i hsharp
      simp only [bne_iff_ne, ne_eq, Decidable.not_not] at hsharp
      obtain ⟨b, body2, rfl⟩ : ∃ b body2, body = b :: body2 := by
        cases body with
        | nil => simp at hlen
        | cons b body2 => exact ⟨b, body2, rfl⟩
      have hb : b = 0x23 := by simpa using hsharp
      subst hb
      split at h
      · -- hexadecimal
        rename_i hx
        obtain ⟨c, body3, rfl⟩ : ∃ c body3, body2 = c :: body3 := by
          cases body2 with
          | nil => simp at hlen
          | cons c body3 => exact ⟨c, body3, rfl⟩
        have hc : okc c = true := by
          have : c = 0x78 ∨ c = 0x58 := by simpa using hx
          rcases this with rfl | rfl <;> decide +kernel
        split at h
        · rename_i n hnum
          have he : e = hexDigitStart + n := by
            have : (Int.ofNat e) = ((hexDigitStart + n : Nat) : Int) := by rw [← h]; simp
            exact Int.ofNat.inj this
          simp only [hexDigitStart, List.drop_succ_cons, List.drop_zero] at hnum
          obtain ⟨ds, tail, hl, hall, hn, _⟩ := numericRefLoop_ok isHex _ 0 n hnum
          have htk := take_of_take_eq hl
          refine fin (0x23 :: c :: ds) (by simp) ?_ (by simp only [List.length_cons]; rw [he, hn, hexDigitStart]; omega) ?_
          · exact all_cons_okc (by decide +kernel) (all_cons_okc hc (all_okc_of okc_hex hall))
          · rw [he, hn]
            simp only [hexDigitStart, Nat.zero_add]
            rw [show 3 + (ds.length + 1) = (ds.length + 1) + 1 + 1 + 1 by omega]
            simp only [List.take_succ_cons, htk, List.cons_append]
        · cases h
      · -- decimal
        split at h
        · rename_i n hnum
          have he : e = decDigitStart + n := by
            have : (Int.ofNat e) = ((decDigitStart + n : Nat) : Int) := by rw [← h]; simp
            exact Int.ofNat.inj this
          simp only [decDigitStart, List.drop_succ_cons, List.drop_zero] at hnum
          obtain ⟨ds, tail, hl, hall, hn, _⟩ := numericRefLoop_ok isASCIIDigit _ 0 n hnum
          have htk := take_of_take_eq hl
          refine fin (0x23 :: ds) (by simp) ?_ (by simp only [List.length_cons]; rw [he, hn, decDigitStart]; omega) ?_
          · exact all_cons_okc (by decide +kernel) (all_okc_of okc_digit hall)
          · rw [he, hn]
            simp only [decDigitStart, Nat.zero_add]
            rw [show 2 + (ds.length + 1) = (ds.length + 1) + 1 + 1 by omega]
            simp only [List.take_succ_cons, htk, List.cons_append]
        · cases h

-- non-vacuity: a named, a decimal and a hexadecimal reference are accepted (with the identity table every name is)
example : parseCharacterEscape { unescape := fun _ => [] } "&amp; x".toUTF8.toList = 5 := by decide +kernel
example : parseCharacterEscape { unescape := fun b => b } "&#35;".toUTF8.toList = 5 := by decide +kernel
example : parseCharacterEscape { unescape := fun b => b } "&#x1F600;!".toUTF8.toList = 9 := by decide +kernel

end CM.Proofs.InlH
