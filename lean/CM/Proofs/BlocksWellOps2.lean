import CM.Proofs.BlocksWellOps
/-
`appendInline`, `setContainerIndent`, `collectInline`, `endBlock` under the invariant `LA`.
-/
namespace CM.Proofs
open CM CM.Model CM.Gen

/-- The container (depth and kind) is unchanged. -/
structure ContFrame (p p' : LP) : Prop where
  depth : p'.depth = p.depth
  kind : p'.containerKind = p.containerKind

theorem ContFrame.refl (p : LP) : ContFrame p p := ⟨rfl, rfl⟩
theorem ContFrame.trans {p q r : LP} (h1 : ContFrame p q) (h2 : ContFrame q r) : ContFrame p r :=
  ⟨h2.depth.trans h1.depth, h2.kind.trans h1.kind⟩

theorem ContFrame.of_cur {p p' : LP} (h : CurFrame p p') : ContFrame p p' :=
  ⟨h.depth, by unfold LP.containerKind LP.container; rw [h.root, h.depth]⟩

theorem containerKind_of_last {p : LP} {c : PB} (hd : p.depth = 1) (hc : p.root.blocks.getLast? = some c) :
    p.containerKind = c.label.kind := by
  unfold LP.containerKind
  rw [container_eq (b := c) (by rw [hd, spineGet_one]; exact hc)]
  rfl

/-- A modification of the container that keeps its label kind. -/
theorem modify_contFrame (p : LP) (f : PB → PB) (hf : ∀ b, (f b).label.kind = b.label.kind) :
    ContFrame p { p with root := spineModify f p.root p.depth } := by
  refine ⟨rfl, ?_⟩
  unfold LP.containerKind LP.container
  simp only
  rw [spineGet_modify_same]
  cases h : spineGet p.root p.depth with
  | none =>
    simp only [Option.map_none, Option.getD_none]
    -- nothing at that depth: the tree is unchanged above it, the root keeps its kind
    have : ∀ (d : Nat) (b : PB), spineGet b d = none → (spineModify f b d).kind = b.kind := by
      intro d
      induction d with
      | zero => intro b hb; rw [spineGet_zero] at hb; cases hb
      | succ d _ => intro b _; unfold PB.kind; rw [(spineModify_succ_same f b d).1]
    exact this _ _ h
  | some b => simp only [Option.map_some, Option.getD_some]; unfold PB.kind; exact hf b

/-- The last child of the document keeps its kind. -/
def LastKind (p p' : LP) : Prop :=
  ∀ c, p.root.blocks.getLast? = some c → ∃ c', p'.root.blocks.getLast? = some c' ∧ c'.label.kind = c.label.kind

theorem LastKind.of_root {p p' : LP} (h : p'.root = p.root) : LastKind p p' :=
  fun c hc => ⟨c, by rw [h]; exact hc, rfl⟩

theorem LastKind.trans {p q r : LP} (h1 : LastKind p q) (h2 : LastKind q r) : LastKind p r := by
  intro c hc
  obtain ⟨c', hc', e1⟩ := h1 c hc
  obtain ⟨c'', hc'', e2⟩ := h2 c' hc'
  exact ⟨c'', hc'', e2.trans e1⟩

/-- A modification along the spine by a function that keeps the label kind keeps the kind of the last child. -/
theorem lastKind_modify (p : LP) (f : PB → PB) (hf : ∀ b, (f b).label.kind = b.label.kind ∧ (f b).blocks = b.blocks) :
    LastKind p { p with root := spineModify f p.root p.depth } := by
  intro c hc
  simp only
  cases hd : p.depth with
  | zero =>
    rw [spineModify_zero, (hf p.root).2]
    exact ⟨c, hc, rfl⟩
  | succ d =>
    rw [lastKid_deep, hc]
    refine ⟨_, rfl, ?_⟩
    cases d with
    | zero => simp only [spineModify_zero]; exact (hf c).1
    | succ d' => simp only [(spineModify_succ_same f c d').1]

/-! ### appendInline -/

theorem appendInline_eq (p : LP) (t : Tree) :
    p.appendInline t = { p with root := spineModify (appendInl t) p.root p.depth } := by
  unfold LP.appendInline LP.modifyContainer
  congr 1

theorem appendInline_LA {am : Bool} {N : Nat} {p : LP} (t : Tree) (h : LA am N p)
    (hk : p.depth = 1 → p.containerKind ≠ BK.paragraph) :
    LA am N (p.appendInline t) ∧ (NE p.root → NE (p.appendInline t).root) ∧ TreeFrame p (p.appendInline t) ∧
    ContFrame p (p.appendInline t) ∧ (p.appendInline t).state = p.state ∧ LastKind p (p.appendInline t) := by
  rw [appendInline_eq]
  obtain ⟨b, hb⟩ := h.dv
  have key := h.root.appendInline t p.depth (Nat.le_refl _) (by
    intro hd c hc _ hkp
    exact absurd (by rw [containerKind_of_last hd hc]; exact hkp) (hk hd))
  refine ⟨⟨h.cur, h.ile, ⟨_, by simp only; rw [spineGet_modify_same, hb]; rfl⟩, key.1, ?_⟩, key.2, ⟨rfl, rfl, rfl, rfl⟩, ?_, rfl, ?_⟩
  · intro ham hd1 c hc hneg
    simp only at hd1 hc
    rw [hd1, lastKid_deep] at hc
    cases hc0 : p.root.blocks.getLast? with
    | none => rw [hc0] at hc; cases hc
    | some c0 =>
      rw [hc0] at hc
      simp only [Option.map_some, Option.some.injEq, spineModify_zero] at hc
      subst hc
      cases c0 with
      | mk cl cbs cis => exact h.rp ham hd1 (PB.mk cl cbs cis) hc0 hneg
  · apply modify_contFrame
    intro b; cases b; rfl
  · apply lastKind_modify
    intro b; cases b; exact ⟨rfl, rfl⟩

/-! ### setContainerIndent (and other label updates that keep `stop` and `kind`) -/

theorem setLabel_LA {am : Bool} {N : Nat} {p : LP} (g : PLabel → PLabel) (hs : ∀ l, (g l).stop = l.stop)
    (hk : ∀ l, (g l).kind = l.kind) (h : LA am N p) :
    LA am N (p.modifyContainer (PB.setLabel g)) ∧ (NE p.root → NE (p.modifyContainer (PB.setLabel g)).root) ∧
    TreeFrame p (p.modifyContainer (PB.setLabel g)) ∧ ContFrame p (p.modifyContainer (PB.setLabel g)) ∧
    (p.modifyContainer (PB.setLabel g)).state = p.state := by
  unfold LP.modifyContainer
  obtain ⟨b, hb⟩ := h.dv
  have key := h.root.setLabel g hs hk p.depth
  refine ⟨⟨h.cur, h.ile, ⟨_, by simp only; rw [spineGet_modify_same, hb]; rfl⟩, key.1, ?_⟩, key.2, ⟨rfl, rfl, rfl, rfl⟩, ?_, rfl⟩
  · intro ham hd1 c hc hneg
    simp only at hd1 hc
    rw [hd1, lastKid_deep] at hc
    cases hc0 : p.root.blocks.getLast? with
    | none => rw [hc0] at hc; cases hc
    | some c0 =>
      rw [hc0] at hc
      simp only [Option.map_some, Option.some.injEq, spineModify_zero] at hc
      subst hc
      cases c0 with
      | mk cl cbs cis =>
        simp only [PB.setLabel, PB.label, hs, hk] at hneg ⊢
        exact h.rp ham hd1 _ hc0 hneg
  · apply modify_contFrame
    intro b; cases b; exact hk _

theorem setContainerIndent_LA {am : Bool} {N : Nat} {p : LP} (n : Int) (h : LA am N p) :
    LA am N (p.setContainerIndent n) ∧ (NE p.root → NE (p.setContainerIndent n).root) ∧
    TreeFrame p (p.setContainerIndent n) ∧ ContFrame p (p.setContainerIndent n) ∧
    (p.setContainerIndent n).state = p.state := by
  unfold LP.setContainerIndent
  split
  · obtain ⟨s1, s2, s3⟩ := setPanic_frame p "SetContainerIndent cannot be called in this context"
    exact ⟨h.of_frame s1, by rw [s1.root]; exact fun h => h, TreeFrame.of_cur s1 s3, ContFrame.of_cur s1, s2⟩
  · split
    · obtain ⟨s1, s2, s3⟩ := setPanic_frame p "can't set indent for this block type"
      exact ⟨h.of_frame s1, by rw [s1.root]; exact fun h => h, TreeFrame.of_cur s1 s3, ContFrame.of_cur s1, s2⟩
    · exact setLabel_LA (fun l => { l with indent := n }) (fun _ => rfl) (fun _ => rfl) h

/-! ### collectInline -/

/-- Cursor, source and container as after a sequence of cursor moves and inline appends. -/
structure MoveFrame (p p' : LP) : Prop where
  source : p'.source = p.source
  lineStart : p'.lineStart = p.lineStart
  line : p'.line = p.line
  imono : p.i ≤ p'.i
  cont : ContFrame p p'
  lastKind : LastKind p p'

theorem MoveFrame.refl (p : LP) : MoveFrame p p := ⟨rfl, rfl, rfl, Nat.le_refl _, ContFrame.refl p, LastKind.of_root rfl⟩
theorem MoveFrame.trans {p q r : LP} (h1 : MoveFrame p q) (h2 : MoveFrame q r) : MoveFrame p r :=
  ⟨h2.source.trans h1.source, h2.lineStart.trans h1.lineStart, h2.line.trans h1.line, Nat.le_trans h1.imono h2.imono,
   h1.cont.trans h2.cont, h1.lastKind.trans h2.lastKind⟩
theorem MoveFrame.of_cur {p p' : LP} (h : CurFrame p p') : MoveFrame p p' :=
  ⟨h.source, h.lineStart, h.line, h.imono, ContFrame.of_cur h, LastKind.of_root h.root⟩
theorem MoveFrame.of_tree {p p' : LP} (h : TreeFrame p p') (hc : ContFrame p p') (hl : LastKind p p') : MoveFrame p p' :=
  ⟨h.source, h.lineStart, h.line, by rw [h.i]; exact Nat.le_refl _, hc, hl⟩

/-- The shape of `collectInline`: optionally consume the indentation and append an Indent node, then advance and
    append the node. -/
theorem collectInline_shape (x : PExt) (p : LP) (kind n : Nat) (hs : ¬ (p.state == stateDescendTerminated) = true) :
    ∃ q t, p.collectInline x kind n = (q.advance n).appendInline t ∧
      (q = p.markMatched ∨ ∃ k t0, q = (p.markMatched.advance k).appendInline t0) := by
  unfold LP.collectInline
  rw [if_neg hs]
  simp only
  split
  · split
    · exact ⟨_, _, rfl, Or.inr ⟨_, _, rfl⟩⟩
    · exact ⟨_, _, rfl, Or.inl rfl⟩
  · split
    · exact ⟨_, _, rfl, Or.inr ⟨_, _, rfl⟩⟩
    · exact ⟨_, _, rfl, Or.inl rfl⟩

theorem collectInline_LA {am : Bool} {N : Nat} {p : LP} (x : PExt) (kind n : Nat) (h : LA am N p)
    (hk : p.depth = 1 → p.containerKind ≠ BK.paragraph) :
    LA am N (p.collectInline x kind n) ∧ (NE p.root → NE (p.collectInline x kind n).root) ∧
    MoveFrame p (p.collectInline x kind n) ∧ StateStep p.state (p.collectInline x kind n).state := by
  by_cases hs : (p.state == stateDescendTerminated) = true
  · unfold LP.collectInline
    rw [if_pos hs]
    obtain ⟨s1, s2, _⟩ := setPanic_frame p "CollectInline cannot be called in this context"
    exact ⟨h.of_frame s1, by rw [s1.root]; exact fun h => h, MoveFrame.of_cur s1, by rw [s2]; exact StateStep.refl _⟩
  · obtain ⟨q, t, heq, hq⟩ := collectInline_shape x p kind n hs
    rw [heq]
    obtain ⟨m1, m2, m3, _⟩ := markMatched_frame p
    have hm := h.of_frame m1
    -- one "advance, then append" step
    have step : ∀ (r : LP) (k : Nat) (t : Tree), LA am N r → (NE p.root → NE r.root) → MoveFrame p r → StateStep p.state r.state →
        LA am N ((r.advance k).appendInline t) ∧ (NE p.root → NE ((r.advance k).appendInline t).root) ∧
        MoveFrame p ((r.advance k).appendInline t) ∧ StateStep p.state ((r.advance k).appendInline t).state := by
      intro r k t r1 r2 r3 r4
      obtain ⟨a1, a2⟩ := advance_frame r k
      have ha := r1.of_frame a1
      have hka : (r.advance k).depth = 1 → (r.advance k).containerKind ≠ BK.paragraph := by
        rw [(ContFrame.of_cur a1).depth, (ContFrame.of_cur a1).kind, r3.cont.depth, r3.cont.kind]; exact hk
      obtain ⟨b1, b2, b3, b4, b5, b6⟩ := appendInline_LA t ha hka
      refine ⟨b1, ?_, ?_, ?_⟩
      · intro hn; apply b2; rw [a1.root]; exact r2 hn
      · exact (r3.trans (MoveFrame.of_cur a1)).trans (MoveFrame.of_tree b3 b4 b6)
      · rw [b5]; exact r4.trans a2
    have hbase := (⟨hm, by rw [m1.root]; exact fun h => h, MoveFrame.of_cur m1, m2⟩ :
      LA am N p.markMatched ∧ (NE p.root → NE p.markMatched.root) ∧ MoveFrame p p.markMatched ∧ StateStep p.state p.markMatched.state)
    rcases hq with rfl | ⟨k, t0, rfl⟩
    · exact step _ n t hbase.1 hbase.2.1 hbase.2.2.1 hbase.2.2.2
    · obtain ⟨q1, q2, q3, q4⟩ := step _ k t0 hbase.1 hbase.2.1 hbase.2.2.1 hbase.2.2.2
      exact step _ n t q1 q2 q3 q4

/-! ### endBlock -/

theorem endBlock_eq (x : PExt) (p : LP) (hs : ¬ (p.state = stateDescending ∨ p.state = stateDescendTerminated)) :
    p.endBlock x = p.markMatched.closeContainer x (p.markMatched.lineStart + p.markMatched.i) := by
  unfold LP.endBlock
  have : (p.state == stateDescending || p.state == stateDescendTerminated) = false := by
    simp only [Bool.or_eq_false_iff, beq_eq_false_iff_ne, ne_eq]
    exact ⟨fun h => hs (Or.inl h), fun h => hs (Or.inr h)⟩
  rw [this]
  simp only [Bool.false_eq_true, if_false]

/-- Ending a block that is not a child of the document. -/
theorem endBlock_deep {am : Bool} {N : Nat} {p : LP} (x : PExt) (h : LA am N p)
    (hs : ¬ (p.state = stateDescending ∨ p.state = stateDescendTerminated)) (hd : 2 ≤ p.depth) :
    LA am N (p.endBlock x) ∧ (NE p.root → NE (p.endBlock x).root) ∧ (p.endBlock x).depth = p.depth - 1 ∧
    TreeFrame p (p.endBlock x) ∧ (p.endBlock x).state = p.markMatched.state := by
  rw [endBlock_eq x p hs]
  obtain ⟨m1, m2, m3, _⟩ := markMatched_frame p
  have hm := h.of_frame m1
  obtain ⟨c1, c2, c3, c4⟩ := closeContainer_deep x (p.markMatched.lineStart + p.markMatched.i) hm (by rw [m1.depth]; exact hd)
  refine ⟨c1, by rw [m1.root] at c2; exact c2, by rw [c3, m1.depth], ?_, c4⟩
  exact (TreeFrame.of_cur m1 m3).trans (closeContainer_tframe x _ _ (by rw [m1.depth]; omega))

/-- Ending a block that is a child of the document, once the line is consumed. -/
theorem endBlock_top {am : Bool} {N : Nat} {p : LP} (x : PExt) (h : LA am N p) (hs : p.state = stateLineConsumed)
    (hd : p.depth = 1) : LB am N (p.endBlock x) ∧ (NE p.root → NE (p.endBlock x).root) := by
  rw [endBlock_eq x p (by rw [hs]; decide)]
  obtain ⟨m1, m2, m3, _⟩ := markMatched_frame p
  have hm := h.of_frame m1
  have hst : p.markMatched.state = stateLineConsumed := by
    rw [m2.eq_of_ne (by rw [hs]; decide)]; exact hs
  have hile := hm.ile
  have hcur := hm.cur
  obtain ⟨c1, c2, c3, c4, c5⟩ := closeContainer_top x (p.markMatched.lineStart + p.markMatched.i) hm
    (by rw [m1.depth]; exact hd) (by omega) (by omega)
  exact ⟨⟨by rw [c5]; exact hst, c4, c1, Or.inl c2⟩, by rw [m1.root] at c3; exact c3⟩

end CM.Proofs
