import CM.Proofs.ParseAsmScanCov
/-
C03, inline half, the field `TokCover.code` — part 1: the coverage of the pieces `csAddSpan` appends.
-/
namespace CM.Proofs.PSc
open CM CM.Model CM.Model.Inl CM.Gen CM.Spec CM.Proofs CM.Proofs.InlH
open Std.Do

set_option mvcgen.warning false

/-- every needed byte of the runs in `[lo, hi)` lies in a piece that is not an Indent piece -/
def CsCovA (c : ICtx) (lo hi : Int) (acc : Array CSN) : Prop :=
  ∀ j, lo ≤ j → j < hi → InRun c j → NeedAt c j → ∃ n ∈ acc.toList, n.kind ≠ IK.indent ∧ 0 ≤ n.start ∧ n.start ≤ j ∧ j < n.stop

theorem CsCovA.empty (c : ICtx) {lo hi : Int} (h : hi ≤ lo) : CsCovA c lo hi #[] := fun j a b _ _ => by omega

theorem CsCovA.push {c : ICtx} {lo hi : Int} {acc : Array CSN} (h : CsCovA c lo hi acc) (n : CSN) :
    CsCovA c lo hi (acc.push n) := by
  intro j a b hr hn
  obtain ⟨m, hm, h1⟩ := h j a b hr hn
  exact ⟨m, by rw [Array.toList_push]; exact List.mem_append_left _ hm, h1⟩

/-- extend the covered range by a piece -/
theorem CsCovA.snoc {c : ICtx} {lo m : Int} {acc : Array CSN} (h : CsCovA c lo m acc) (n : CSN) (hn : n.start ≤ m)
    (hk : n.kind ≠ IK.indent) (h0 : 0 ≤ n.start) : CsCovA c lo n.stop (acc.push n) := by
  intro j a b hr hnd
  rcases Int.lt_or_le j m with hlt | hge
  · exact (h.push n) j a hlt hr hnd
  · exact ⟨n, by rw [Array.toList_push]; simp, hk, h0, by omega, b⟩

/-- extend the covered range over bytes that are in no run or need not be covered -/
theorem CsCovA.skip {c : ICtx} {lo m hi : Int} {acc : Array CSN} (h : CsCovA c lo m acc)
    (hg : ∀ j, m ≤ j → j < hi → InRun c j → ¬ NeedAt c j) : CsCovA c lo hi acc := by
  intro j a b hr hn
  rcases Int.lt_or_le j m with hlt | hge
  · exact h j a hlt hr hn
  · exact absurd hn (hg j hge b hr)

theorem needsCover_eol : needsCover LF = false ∧ needsCover CR = false := by decide +kernel

/-- **`csAddSpan`**: the Text piece of `[a, b)` contains every byte of `[a, b)` but the line ending. -/
theorem csAddSpan_C (c : ICtx) (acc : Array CSN) (a b lo : Int) (s0 : IState) :
    ⦃fun s => ⌜s = s0 ∧ CsCovA c lo a acc⌝⦄ csAddSpan c acc a b ⦃⇓? r s => ⌜s = s0 ∧ CsCovA c lo b r⌝⦄ := by
  apply Post.triple
  intro s hs
  obtain ⟨rfl, hch⟩ := hs
  unfold csAddSpan
  by_cases hnp : (decide (a < 0) || decide (b < a) || decide (b > (c.srcA.size : Int))) = true
  · rw [if_pos hnp]
    trivial
  rw [if_neg hnp]
  simp only []
  refine ⟨rfl, ?_⟩
  simp only [Bool.or_eq_true, decide_eq_true_eq, not_or, Int.not_lt] at hnp
  generalize htr : (if (decide (b - a ≥ 2) && (if b - a ≥ 2 then c.srcA[(b - 2).toNat]! else 0) == CR &&
      (if b - a ≥ 1 then c.srcA[(b - 1).toNat]! else 0) == LF) = true then (2 : Int)
    else if (decide (b - a ≥ 1) && ((if b - a ≥ 1 then c.srcA[(b - 1).toNat]! else 0) == LF ||
      (if b - a ≥ 1 then c.srcA[(b - 1).toNat]! else 0) == CR)) = true then 1 else 0) = trim
  have htrim : 0 ≤ trim ∧ trim ≤ b - a := by
    rw [← htr]
    by_cases h2' : b - a ≥ 2
    · split
      · omega
      · split <;> omega
    · rw [if_neg (by simp [h2'])]
      by_cases h1'' : b - a ≥ 1
      · split <;> omega
      · rw [if_neg (by simp [h1''])]
        omega
  have hE : ∀ j, b - trim ≤ j → j < b → ¬ NeedAt c j := by
    intro j h1 h2 hnd
    have hnd' := hnd.2
    by_cases hc2 : (decide (b - a ≥ 2) && (if b - a ≥ 2 then c.srcA[(b - 2).toNat]! else 0) == CR &&
        (if b - a ≥ 1 then c.srcA[(b - 1).toNat]! else 0) == LF) = true
    · rw [if_pos hc2] at htr
      simp only [Bool.and_eq_true, decide_eq_true_eq, beq_iff_eq] at hc2
      obtain ⟨⟨hn2, hl2⟩, hl1⟩ := hc2
      rw [if_pos hn2] at hl2
      rw [if_pos (by omega)] at hl1
      have : j = b - 2 ∨ j = b - 1 := by omega
      rcases this with rfl | rfl
      · rw [hl2, needsCover_eol.2] at hnd'; cases hnd'
      · rw [hl1, needsCover_eol.1] at hnd'; cases hnd'
    · rw [if_neg hc2] at htr
      by_cases hc1 : (decide (b - a ≥ 1) && ((if b - a ≥ 1 then c.srcA[(b - 1).toNat]! else 0) == LF ||
          (if b - a ≥ 1 then c.srcA[(b - 1).toNat]! else 0) == CR)) = true
      · rw [if_pos hc1] at htr
        simp only [Bool.and_eq_true, decide_eq_true_eq, Bool.or_eq_true, beq_iff_eq] at hc1
        obtain ⟨hn1, hl⟩ := hc1
        rw [if_pos hn1] at hl
        have : j = b - 1 := by omega
        subst this
        rcases hl with hl | hl
        · rw [hl, needsCover_eol.1] at hnd'; cases hnd'
        · rw [hl, needsCover_eol.2] at hnd'; cases hnd'
      · rw [if_neg hc1] at htr
        omega
  have h1' : CsCovA c lo (b - trim) (if spanLenI a (b - trim) > 0 then
      acc.push { kind := IK.text, start := a, stop := b - trim } else acc) := by
    split
    · exact hch.snoc { kind := IK.text, start := a, stop := b - trim } (Int.le_refl _) (by show IK.text ≠ IK.indent; decide) hnp.1.1
    · rename_i hl
      have : ¬ a < b - trim := fun hlt => hl (spanLenI_of_lt (by omega) hlt)
      exact hch.skip (fun j h1 h2 _ => by omega)
  split
  · exact (h1'.push _).skip (fun j h1 h2 _ => hE j h1 h2)
  · rename_i ht
    have : trim = 0 := by omega
    subst this
    simpa using h1'

end CM.Proofs.PSc
