import CM.Proofs.ParseSeamsParaLine
/-
C17 (b) for parser output, part 12b (block phase, second invariant): the setext and list-item starts, `tryStarts`, `openingLoop`, `openNewBlocks`,
`ruleMatch`, `descendLoop`, `addLineText` and `processLine` keep `GP S` (`processLine_GP`).
-/
namespace CM.Proofs.PS
open CM CM.Model CM.Gen CM.Spec
open CM.Proofs.BT CM.Proofs.BG CM.Proofs.PW CM.Proofs.BSp

variable {x : PExt} {S : Bytes}

/-! ### the block starts, continued -/

theorem startSetext_GP (q : LP) (h : BT.Inv q) (hs : q.state = 0) (hg : GP S q) : GP S (startSetext x q) := by
  unfold startSetext
  simp only []
  split
  · exact hg
  rename_i hck
  split
  · exact hg
  split
  · exact hg
  have hck' : q.containerKind = BK.paragraph := by simpa using hck
  have hd : 0 < q.depth := by
    rcases Nat.eq_zero_or_pos q.depth with h0 | h0
    · rw [containerKind_zero q h0, h.tree.root] at hck'; cases hck'
    · exact h0
  generalize hn : ((parseSetextHeadingUnderline q.bytesAfterIndent : Nat) : Int) = n
  have i1 : BT.Inv (q.modifyContainer (PB.setLabel fun l => { l with kind := BK.setextHeading, n := n })) :=
    h.of_treeOp rfl rfl (modifyContainer_ok_pos q _ h.tree hd)
  have g1 : GP S (q.modifyContainer (PB.setLabel fun l => { l with kind := BK.setextHeading, n := n })) := by
    obtain ⟨c, hc⟩ : ∃ c, spineGet q.root q.depth = some c := by
      cases hsg : spineGet q.root q.depth with
      | none => have := h.tree.valid; rw [hsg] at this; cases this
      | some c => exact ⟨c, rfl⟩
    have hkc : q.containerKind = c.kind := BSp.kind_of_container hc
    refine ⟨modifyContainer_GP0 q _ ?_ hg.toGP0, ?_⟩
    · intro c' hc' hp
      rw [hc] at hc'; cases hc'
      obtain ⟨l, bs, is⟩ := c
      simp only [PB.setLabel]
      rw [PP_mk] at hp ⊢
      have hl : l.kind = BK.paragraph := by rw [← hck', hkc]; rfl
      refine ⟨⟨fun ha => absurd (show BK.setextHeading = BK.atxHeading from ha) (by decide), fun _ => hp.1.2.1 (Or.inl hl),
        fun ha => absurd (show BK.setextHeading = BK.atxHeading from ha) (by decide)⟩, hp.2⟩
    · show PB.kind ((spineGet (spineModify _ q.root q.depth) q.depth).getD _) ≠ _
      rw [spineGet_modify_self, hc]
      obtain ⟨l, bs, is⟩ := c
      show BK.setextHeading ≠ BK.atxHeading
      decide
  have e1s : (q.modifyContainer (PB.setLabel fun l => { l with kind := BK.setextHeading, n := n })).state = q.state := rfl
  generalize q.modifyContainer (PB.setLabel fun l => { l with kind := BK.setextHeading, n := n }) = p1 at i1 g1 e1s
  have cl := consumeLine_post p1 i1.cur
  have g5 := g1.of_fr (RDS.fr_consumeLine p1)
  generalize p1.consumeLine = p5 at cl g5
  have i5 := cl.inv i1
  have s5 := cl.st (by omega)
  exact endBlock_GP p5 i5 (by omega) (by rw [cl.i, cl.line]) g5

theorem listItemTail_GP (p : LP) (delim : UInt8) (stop ind : Nat)
    (h : BT.Inv p) (hk : p.containerKind = BK.list) (hs : p.state ≤ 2) (hb : p.i + stop ≤ p.line.length)
    (hg : GP S p) : GP S (listItemTail x delim stop ind p) := by
  unfold listItemTail
  simp only []
  have cc1 : canContain p.containerKind BK.listItem = true := by rw [hk]; decide
  have ob1 := openBlock_inv x p BK.listItem (fun l => { l with char := delim }) (fun _ => rfl) h hs (Or.inr cc1)
  have g1 := openBlock_GP (x := x) p BK.listItem (fun l => { l with char := delim }) (fun _ => rfl) (by decide) h hs
    (Or.inr cc1) hg
  generalize p.openBlock x BK.listItem (fun l => { l with char := delim }) = q1 at ob1 g1
  have i1 := ob1.inv h
  have s1 := ob1.st hs
  have k1 := ob1.ckind
  have cc2 : canContain q1.containerKind BK.listMarker = true := by rw [k1]; decide
  have ob2 := openBlock_inv x q1 BK.listMarker id id_kind i1 s1.2.1 (Or.inl (by decide))
  have g2 := openBlock_GP0 (x := x) q1 BK.listMarker id i1.tree g1
  have f2 := openBlock_fresh (x := x) (S := S) q1 BK.listMarker id id_kind i1 s1.2.1
  generalize q1.openBlock x BK.listMarker = q2 at ob2 g2 f2
  have i2 := ob2.inv i1
  have s2 := ob2.st s1.2.1
  have d2 := ob2.depth cc2
  have lab2 := ob2.label cc2
  have e2i : q2.i = p.i := by rw [cur_i ob2.cur, cur_i ob1.cur]
  have e2l : q2.line = p.line := by rw [cur_line ob2.cur, cur_line ob1.cur]
  have ad := advance_post q2 stop i2.cur (by rw [e2i, e2l]; exact hb)
  have g3 := g2.of_fr (RDS.fr_advance q2 stop)
  have f3 := f2.of_fr (RDS.fr_advance q2 stop)
  generalize q2.advance stop = q3 at ad g3 f3
  have i3 := ad.inv i2
  have s3 := ad.st s2.2.1
  have eb := endBlock_inv x q3 i3 s3.2
  have g4 : GP S (q3.endBlock x) := by
    rw [BSp.endBlock_eq x q3 s3.2]
    have hT : TreeOK ({ q3 with state := mm q3.state } : LP) := ⟨i3.tree.root, i3.tree.valid⟩
    exact closeContainer_leaf _ _ BK.listMarker (by decide) (by decide) (by decide) hT f3 (g3.setState _)
  generalize q3.endBlock x = q4 at eb g4
  have i4 := eb.inv i3
  have s4 := eb.st s3.2
  have d3 : q3.depth = q1.depth + 1 := by rw [tree_depth ad.tree, d2]
  have k4 : q4.containerKind = BK.listItem := by
    have l4 := eb.label (by omega)
    rw [d3, tree_root ad.tree, Nat.add_sub_cancel, lab2, labelAt_container q1 i1.tree.valid] at l4
    rw [containerKind_of_labelAt q4 _ l4]
    exact k1
  split
  · have sc := setContainerIndent_post q4 (↑ind + ↑stop + 1) i4.tree s4.2.2 s4.2.1 (Or.inl k4)
    have g5 := setContainerIndent_GP q4 (↑ind + ↑stop + 1) i4.tree g4
    exact g5.of_fr (RDS.fr_consumeLine _)
  · split
    · exact setContainerIndent_GP q4 _ i4.tree g4
    · split
      · have c5 := consumeIndentN_post q4 1 i4.cur (by omega)
        exact setContainerIndent_GP _ _ (c5.inv i4).tree (g4.of_fr (RDS.fr_consumeIndentN q4 1))
      · have c5 := consumeIndentN_post q4 q4.indent i4.cur (Nat.le_refl _)
        exact setContainerIndent_GP _ _ (c5.inv i4).tree (g4.of_fr (RDS.fr_consumeIndentN q4 q4.indent))

theorem startListItem_GP (q : LP) (h : BT.Inv q) (hs : q.state = 0) (hg : GP S q) : GP S (startListItem x q) := by
  unfold startListItem
  simp only []
  split
  · exact hg
  split
  · exact hg
  rename_i _ hc1
  split
  · exact hg
  have hb := parseListMarker_toNat_le q.bytesAfterIndent
  have hpos := parseListMarker_pos q.bytesAfterIndent
  generalize parseListMarker q.bytesAfterIndent = m at hb hpos hc1 ⊢
  have hm : 1 ≤ m.stop := by
    rcases hpos with h' | h'
    · rw [h'] at hc1; simp at hc1
    · exact h'
  obtain ⟨ci, hdrop, hil⟩ := consumeAll q h
  have g1 := hg.of_fr (RDS.fr_consumeIndentN q q.indent)
  generalize q.consumeIndentN q.indent = p1 at ci hdrop hil g1 ⊢
  have i1 := ci.inv h
  have s1 := ci.st (by omega)
  generalize hcond : (p1.containerKind != BK.list || (if (p1.containerKind != BK.list && p1.containerKind != BK.listItem) = true
      then (0 : UInt8) else p1.container.label.char) != m.delim) = c
  have hcf : c = false → p1.containerKind = BK.list := by
    intro hc; rw [hc] at hcond
    simp only [Bool.or_eq_false_iff] at hcond
    simpa using hcond.1
  have key : ∀ p2 : LP, BT.Inv p2 → p2.containerKind = BK.list → p2.state ≤ 2 → cur p2 = cur p1 → GP S p2 →
      GP S (listItemTail x m.delim m.stop.toNat q.indent p2) := by
    intro p2 i2 k2 s2 c2 g2
    apply listItemTail_GP p2 _ _ _ i2 k2 s2
    · rw [cur_i c2, cur_line c2, ci.line]; omega
    · exact g2
  cases c with
  | true =>
    have ob := openBlock_inv x p1 BK.list (fun l => { l with char := m.delim }) (fun _ => rfl) i1 s1.2 (Or.inl (by decide))
    have g2 := openBlock_GP (x := x) p1 BK.list (fun l => { l with char := m.delim }) (fun _ => rfl) (by decide) i1 s1.2
      (Or.inl (by decide)) g1
    exact key _ (ob.inv i1) ob.ckind (ob.st s1.2).2.1 ob.cur g2
  | false => exact key p1 i1 (hcf rfl) s1.2 rfl g1

theorem blockStartFns_GP : ∀ f ∈ blockStartFns x, ∀ q : LP, BT.Inv q → q.state = 0 → GP S q → GP S (f q) := by
  intro f hf q h hs hg
  simp only [blockStartFns, List.mem_cons, List.not_mem_nil, or_false] at hf
  rcases hf with rfl | rfl | rfl | rfl | rfl | rfl | rfl | rfl
  · exact startBlockQuote_GP q h hs hg
  · exact startATX_GP q h hs hg
  · exact startFenced_GP q h hs hg
  · exact startHTML_GP q h hs hg
  · exact startSetext_GP q h hs hg
  · exact startThematicBreak_GP q h hs hg
  · exact startListItem_GP q h hs hg
  · exact startIndentedCode_GP q h hs hg

/-! ### tryStarts, openingLoop, openNewBlocks -/

theorem tryStarts_GP : ∀ (fs : List (LP → LP)),
    (∀ f ∈ fs, ∀ q, BT.Inv q → q.state = 0 → GP S q → GP S (f q)) →
    (∀ f ∈ fs, ∀ q, BT.Inv q → q.state = 0 → SPost q (f q)) →
    ∀ p, BT.Inv p → GP S p → GP S (tryStarts fs p) := by
  intro fs
  induction fs with
  | nil => intro _ _ p _ hg; exact hg
  | cons f rest ih =>
    intro hf hf' p h hg
    unfold tryStarts
    simp only []
    have sp := hf f (List.mem_cons_self ..) { p with state := stateOpening } (h.setState _) rfl (hg.setState _)
    have spo := hf' f (List.mem_cons_self ..) { p with state := stateOpening } (h.setState _) rfl
    generalize f { p with state := stateOpening } = p' at sp spo
    split
    · exact sp
    · exact ih (fun g hg' => hf g (List.mem_cons_of_mem _ hg')) (fun g hg' => hf' g (List.mem_cons_of_mem _ hg')) p' spo.inv sp

theorem openingLoop_GP : ∀ (fuel : Nat) (p : LP), BT.Inv p → GP S p → GP S (openingLoop x fuel p).2 := by
  intro fuel
  induction fuel with
  | zero => intro p _ hg; exact hg
  | succ fuel ih =>
    intro p h hg
    unfold openingLoop
    split
    · exact hg
    · have ts := tryStarts_blockStarts x p h
      have st := tryStarts_GP (S := S) (blockStartFns x) blockStartFns_GP (blockStartFns_post x) p h hg
      simp only []
      generalize tryStarts (blockStartFns x) p = p' at ts st
      split
      · exact ih p' ts.inv st
      · split
        · exact st
        · exact st

theorem openNewBlocks_GP (p : LP) (allMatched : Bool) (h : BT.Inv p) (hg : GP S p) :
    GP S (openNewBlocks x p allMatched).2 := by
  unfold openNewBlocks
  split
  · have h0 := h.setDepth 0 (Nat.zero_le _)
    refine closeContainer_GP _ _ h0.tree hg.lsOK ⟨hg.toGP0.setDepth 0, ?_⟩
    rw [containerKind_zero _ rfl]
    show p.root.kind ≠ _
    rw [h.tree.root]; decide
  · have ol := openingLoop_post x (p.line.length + 8) p h (fun h' => by omega)
    have os := openingLoop_GP (x := x) (p.line.length + 8) p h hg
    generalize openingLoop x (p.line.length + 8) p = r at ol os
    obtain ⟨hasText, q⟩ := r
    simp only [] at ol os ⊢
    split
    · exact os
    · split
      · rename_i hc
        simp only [Bool.and_eq_true, beq_iff_eq, Bool.not_eq_true'] at hc
        refine ⟨os.toGP0.setDepth _, ?_⟩
        show PB.kind ((spineGet q.root (tipDepth q.root 0)).getD q.root) ≠ _
        have : PB.kind ((spineGet q.root (tipDepth q.root 0)).getD q.root) = BK.paragraph := hc.2
        rw [this]; decide
      · exact closeLastChild_GP q _ ol.inv.tree os.lsOK os

/-! ### ruleMatch, descendLoop -/

theorem updateTab_state (p : LP) : p.updateTabRemaining.state = p.state := by
  unfold LP.updateTabRemaining; split <;> rfl

theorem setPanic_state (p : LP) (m : String) : (p.setPanic m).state = p.state := by
  unfold LP.setPanic; split <;> rfl

theorem advance_state3 (p : LP) (n : Nat) (hs : p.state = 3) : (p.advance n).state = 3 := by
  unfold LP.advance
  split
  · exact hs
  · simp only []
    have hm : p.markMatched.state = 3 := by rw [markMatched_eq]; show mm p.state = 3; rw [hs]; rfl
    split
    · rw [setPanic_state]; exact hm
    · rw [updateTab_state]; exact hm

theorem consumeIndent_state3 : ∀ (fuel : Nat) (p : LP) (n : Nat), p.state = 3 → (LP.consumeIndent fuel p n).state = 3 := by
  intro fuel
  induction fuel with
  | zero => intro p n hs; exact hs
  | succ fuel ih =>
    intro p n hs
    unfold LP.consumeIndent
    split
    · exact hs
    · simp only []
      have hm : p.markMatched.state = 3 := by rw [markMatched_eq]; show mm p.state = 3; rw [hs]; rfl
      split
      · exact ih _ _ (by rw [updateTab_state]; exact hm)
      · split
        · split
          · exact hm
          · exact ih _ _ (by rw [updateTab_state]; exact hm)
        · rw [setPanic_state]; exact hm

theorem consumeIndentN_state3 (p : LP) (n : Nat) (hs : p.state = 3) : (p.consumeIndentN n).state = 3 :=
  consumeIndent_state3 _ p n hs

theorem ruleMatch_atx (p : LP) : ruleMatch x BK.atxHeading p = none := by
  unfold ruleMatch
  simp [BK.atxHeading, BK.document, BK.list, BK.listItem, BK.blockQuote, BK.fencedCode, BK.indentedCode, BK.htmlBlock,
    BK.paragraph]

theorem ruleMatch_GP (kind : Nat) (p : LP) (h : BT.Inv p) (hs : p.state = 3) (hg : GP S p) (hck : p.containerKind = kind)
    (ok : Bool) (p' : LP) (hrm : ruleMatch x kind p = some (ok, p')) :
    GP S p' ∧ (p'.state = 4 → p'.i = p'.line.length) := by
  have e3 : ∀ q : LP, GP S q → q.state = 3 → GP S q ∧ (q.state = 4 → q.i = q.line.length) :=
    fun q hq h3 => ⟨hq, fun h4 => by omega⟩
  unfold ruleMatch at hrm
  simp only [] at hrm
  split at hrm
  · cases hrm; exact e3 _ hg hs
  split at hrm
  · split at hrm
    · split at hrm
      · cases hrm; exact e3 _ hg hs
      · cases hrm
        exact e3 _ (hg.of_fr (RDS.fr_consumeIndentN _ _)) (consumeIndentN_state3 _ _ hs)
    · split at hrm
      · split at hrm
        · cases hrm
          exact e3 _ (hg.of_fr (RDS.fr_consumeIndentN _ _)) (consumeIndentN_state3 _ _ hs)
        · cases hrm; exact e3 _ hg hs
      · cases hrm; exact e3 _ hg hs
  split at hrm
  · split at hrm
    · cases hrm; exact e3 _ hg hs
    · split at hrm
      · cases hrm; exact e3 _ hg hs
      · cases hrm
        have g2 : GP S ((p.consumeIndentN p.indent).advance blockQuotePrefix.length) :=
          (hg.of_fr (RDS.fr_consumeIndentN _ _)).of_fr (RDS.fr_advance _ _)
        have s2 : ((p.consumeIndentN p.indent).advance blockQuotePrefix.length).state = 3 :=
          advance_state3 _ _ (consumeIndentN_state3 _ _ hs)
        split
        · exact e3 _ (g2.of_fr (RDS.fr_consumeIndentN _ _)) (consumeIndentN_state3 _ _ s2)
        · exact e3 _ g2 s2
  split at hrm
  · split at hrm
    · cases hrm
      have cl := consumeLine_post p h.cur
      exact ⟨hg.of_fr (RDS.fr_consumeLine p), fun _ => by rw [cl.i, cl.line]⟩
    · cases hrm
      split
      · exact e3 _ (hg.of_fr (RDS.fr_consumeIndentN _ _)) (consumeIndentN_state3 _ _ hs)
      · exact e3 _ (hg.of_fr (RDS.fr_consumeIndentN _ _)) (consumeIndentN_state3 _ _ hs)
  split at hrm
  · split at hrm
    · split at hrm
      · cases hrm; exact e3 _ hg hs
      · cases hrm
        exact e3 _ (hg.of_fr (RDS.fr_consumeIndentN _ _)) (consumeIndentN_state3 _ _ hs)
    · cases hrm
      exact e3 _ (hg.of_fr (RDS.fr_consumeIndentN _ _)) (consumeIndentN_state3 _ _ hs)
  split at hrm
  · rename_i hk
    have hk' : p.containerKind = BK.htmlBlock := by rw [hck]; simpa using hk
    split at hrm
    · split at hrm
      · cases hrm; exact e3 _ hg hs
      · cases hrm
        have co := collectInline_post x p IK.rawHTML p.bytesAfterIndent.length h (by omega) (by
          rw [ciSkip_bai p h.cur]; exact Nat.le_refl _)
        have g4 := collectInline_free (x := x) p IK.rawHTML p.bytesAfterIndent.length h (by omega)
          (by rw [hk']; decide) (by rw [hk']; decide) hg
        generalize p.collectInline x IK.rawHTML p.bytesAfterIndent.length = p4 at co g4
        have cl := consumeLine_post p4 co.inv.cur
        exact ⟨g4.of_fr (RDS.fr_consumeLine p4), fun _ => by rw [cl.i, cl.line]⟩
    · cases hrm; exact e3 _ hg hs
  split at hrm
  · cases hrm; exact e3 _ hg hs
  · cases hrm

theorem descendLoop_GP : ∀ (fuel : Nat) (p : LP) (parent : Nat), BT.Inv { p with depth := parent } →
    GP S ({ p with depth := parent } : LP) → GP S (descendLoop x fuel p parent).2 := by
  intro fuel
  induction fuel with
  | zero => intro p parent _ hg; exact hg
  | succ fuel ih =>
    intro p parent h hg
    unfold descendLoop
    split
    · exact hg
    rename_i c hc
    split
    · exact hg
    simp only []
    have h1 : BT.Inv { p with depth := parent + 1 } :=
      ⟨h.panic, ⟨h.cur.hi, h.cur.htab⟩, ⟨h.tree.root, by show (spineGet p.root (parent + 1)).isSome; rw [hc]; rfl⟩⟩
    split
    · exact hg
    · rename_i ok p2 hrm
      have hck : ({ p with depth := parent + 1, state := stateDescending } : LP).containerKind = c.kind := by
        show PB.kind ((spineGet p.root (parent + 1)).getD p.root) = c.kind
        rw [hc]; rfl
      have hcn : c.kind ≠ BK.atxHeading := by
        intro e0
        rw [e0, ruleMatch_atx] at hrm
        cases hrm
      have g1 : GP S ({ p with depth := parent + 1, state := stateDescending } : LP) :=
        ⟨⟨hg.source, hg.line, hg.lsle, hg.lsOK, hg.good⟩, by rw [hck]; exact hcn⟩
      have rm := ruleMatch_post x c.kind _ (h1.setState stateDescending) rfl ok p2 hrm
      have rs := ruleMatch_GP (x := x) c.kind _ (h1.setState stateDescending) rfl g1 hck ok p2 hrm
      have d2 : p2.depth = parent + 1 := rm.depth
      split
      · rename_i hs4
        have hs4' : p2.state = 4 := by simpa [stateDescendTerminated] using hs4
        have hi := rs.2 hs4'
        have cg := closeContainer_GP (x := x) p2 (↑p2.lineStart + ↑p2.i) rm.inv.tree (Or.inr (by
          have := rs.1.toGP0.atEnd_line
          rw [hi]; exact this)) rs.1
        have cc := closeContainer_post x p2 (↑p2.lineStart + ↑p2.i) rm.inv.tree
        have hd : (p2.closeContainer x (↑p2.lineStart + ↑p2.i)).depth = parent := by rw [cc.depth, d2]; rfl
        refine ⟨cg.toGP0.setDepth _, ?_⟩
        have : ({ p2.closeContainer x (↑p2.lineStart + ↑p2.i) with depth := parent } : LP).containerKind =
            (p2.closeContainer x (↑p2.lineStart + ↑p2.i)).containerKind := by
          show PB.kind ((spineGet _ parent).getD _) = PB.kind ((spineGet _ (p2.closeContainer x _).depth).getD _)
          rw [hd]
        rw [this]; exact cg.nk
      · rename_i hs4
        have hs4' : p2.state ≠ 4 := by simpa [stateDescendTerminated] using hs4
        have hs3 : p2.state = 3 := by rcases rm.st with h' | h'; exact h'; exact absurd h' hs4'
        have hroot := rm.root hs3
        split
        · refine ⟨rs.1.toGP0.setDepth _, ?_⟩
          have : ({ p2 with depth := parent } : LP).containerKind = ({ p with depth := parent } : LP).containerKind := by
            show PB.kind ((spineGet p2.root parent).getD p2.root) = PB.kind ((spineGet p.root parent).getD p.root)
            rw [hroot]
          rw [this]; exact hg.nk
        · have hinv2 : BT.Inv { p2 with depth := parent + 1 } := rm.inv.setDepth (parent + 1) (by rw [d2]; exact Nat.le_refl _)
          refine ih p2 (parent + 1) hinv2 ⟨rs.1.toGP0.setDepth _, ?_⟩
          have : ({ p2 with depth := parent + 1 } : LP).containerKind = p2.containerKind := by
            show PB.kind ((spineGet p2.root (parent + 1)).getD p2.root) = PB.kind ((spineGet p2.root p2.depth).getD p2.root)
            rw [d2]
          rw [this]; exact rs.1.nk

/-! ### addLineText -/

theorem altBlank_GP (p : LP) (hI : BT.Inv p) (h : GP S p) : GP S (altBlank p) := by
  refine ⟨?_, by rw [(altBlank_step p hI).ckind]; exact h.nk⟩
  unfold altBlank
  split
  · refine ⟨h.source, h.line, h.lsle, h.lsOK, PP_spineModify _ _ _ h.good ?_⟩
    intro c _ hc
    obtain ⟨l, bs, is⟩ := c
    simp only []
    cases hgl : bs.getLast? with
    | none => exact hc
    | some c0 =>
      simp only []
      exact PP_replaceLast (ne_nil_of_getLast? hgl) hc
        (AllP.single (PP_setLabel (fun cl => { cl with lastLineBlank := true }) (fun _ => rfl)
          (((PP_mk l bs is).1 hc).2 c0 (List.mem_of_getLast? hgl))))
  · exact h.toGP0

theorem altFlags_GP (b : Bool) (p : LP) (hI : BT.Inv p) (h : GP S p) : GP S (altFlags b p) :=
  ⟨⟨h.source, h.line, h.lsle, h.lsOK, PP_setBlankFlags _ _ _ h.good⟩, by rw [(altFlags_step b p hI).ckind]; exact h.nk⟩

theorem altCont_GP (b : Bool) (p : LP) (hI : BT.Inv p) (hs : acceptsLines p.containerKind = false → p.state ≤ 2)
    (h : GP S p) : ∀ q, altCont x b p = some q → GP S q := by
  intro q hq
  unfold altCont at hq
  simp only [] at hq
  split at hq
  · split at hq
    · rename_i hc
      simp only [Option.some.injEq] at hq
      subst hq
      simp only [Bool.and_eq_true, decide_eq_true_eq, beq_iff_eq] at hc
      obtain ⟨⟨⟨hlt, htab⟩, _⟩, _⟩ := hc
      refine GP.of_fr ?_ (RDS.fr_consumeIndentN _ _)
      exact appendInline_GP p _ (tabNode_P h.toGP0 hlt htab _) hI.tree h
    · simp only [Option.some.injEq] at hq
      subst hq
      exact h
  · split at hq
    · simp only [Option.some.injEq] at hq
      subst hq
      rename_i hna _
      have hna' : acceptsLines p.containerKind = false := by simpa using hna
      exact (openBlock_GP (x := x) p BK.paragraph id id_kind (by decide) hI (hs hna') (Or.inl (by decide)) h).of_fr
        (RDS.fr_consumeIndentN _ _)
    · cases hq

theorem altTail_GP (q : LP) (hI : BT.Inv q) (h : GP S q) : GP S (altTail q) := by
  unfold altTail
  simp only []
  have hkind : ∀ k, k = IK.text ∨ k = IK.rawHTML ∨ k = IK.unparsed → k ≠ IK.indent := by
    intro k hk; rcases hk with rfl | rfl | rfl <;> decide
  have key : ∀ k, k ≠ IK.indent → GP S (q.appendInline (mkInline k (q.lineStart + q.i) (q.lineStart + q.line.length))) :=
    fun k hk => appendInline_GP q _ (textNode_P h.toGP0 k hk _) hI.tree h
  have key2 : ∀ k, k ≠ IK.indent →
      GP S ((q.appendInline (mkInline k (q.lineStart + q.i) (q.lineStart + q.line.length))).appendInline
        (mkInline IK.softBreak (q.lineStart + q.line.length) (q.lineStart + q.line.length))) := by
    intro k hk
    have g1 := key k hk
    have i1 := appendInline_inv q (mkInline k (q.lineStart + q.i) (q.lineStart + q.line.length)) hI
    exact appendInline_GP _ _ (textNode_P h.toGP0 IK.softBreak (by decide) _) i1.tree g1
  repeat' split
  all_goals first
    | exact key2 _ (by decide)
    | exact key _ (by decide)

theorem addLineText_GP (p : LP) (hI : BT.Inv p) (hs : acceptsLines p.containerKind = false → p.state ≤ 2)
    (h : GP S p) : GP S (addLineText x p) := by
  rw [BT.addLineText_eq]
  have a := altBlank_step p hI
  have ga := altBlank_GP p hI h
  have b := altFlags_step p.isRestBlank (altBlank p) a.inv
  have gb := altFlags_GP p.isRestBlank (altBlank p) a.inv ga
  generalize altFlags p.isRestBlank (altBlank p) = pB at b gb
  have kB : pB.containerKind = p.containerKind := by rw [b.ckind, a.ckind]
  have sB : pB.state = p.state := by rw [b.state, a.state]
  split
  · exact gb
  · rename_i q hq
    have iq := altCont_inv x _ pB b.inv (by rw [kB, sB]; exact hs) q hq
    exact altTail_GP q iq (altCont_GP _ pB b.inv (by rw [kB, sB]; exact hs) gb q hq)

/-! ### one line -/

/-- **One line (or the empty end-of-input line) through the line parser keeps `GP`.** -/
theorem processLine_GP (p : LP) (h : BT.Inv p) (hg : GP S p) : GP S (processLine x p) := by
  unfold processLine
  have h0 := h.setDepth 0 (Nat.zero_le _)
  have g0 : GP S ({ p with depth := 0 } : LP) := by
    refine ⟨hg.toGP0.setDepth 0, ?_⟩
    rw [containerKind_zero _ rfl]
    show p.root.kind ≠ _
    rw [h.tree.root]; decide
  have d := descendLoop_GP (x := x) (spineLength p.root + 1) p 0 h0 g0
  have di := descendOpenBlocks_inv x p h
  unfold descendOpenBlocks at di ⊢
  generalize descendLoop x (spineLength p.root + 1) p 0 = r at d di
  obtain ⟨allMatched, p1⟩ := r
  simp only [] at d di ⊢
  split
  · exact d
  · have o := openNewBlocks_post x p1 allMatched di
    have oG := openNewBlocks_GP (x := x) p1 allMatched di d
    generalize openNewBlocks x p1 allMatched = r2 at o oG
    obtain ⟨hasText, p2⟩ := r2
    simp only [] at o oG ⊢
    split
    · rename_i ht
      exact addLineText_GP p2 o.inv (o.st ht) oG
    · exact oG

end CM.Proofs.PS
