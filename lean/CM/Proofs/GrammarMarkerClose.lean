import CM.Proofs.GrammarMarkerDefs
import CM.Proofs.GrammarLooseClose
/-
C05, block half — the list marker of an item: `closeBlock` keeps `PBMark` (a closed marker is never touched again);
`offsetPB` keeps it when the source is cut at or before the start of every marker.
-/
namespace CM.Proofs.GM
open CM CM.Model CM.Gen
open CM.Proofs.BT CM.Proofs.BG CM.Proofs.GL

theorem closeLast_M {src0 : Bytes} (x : PExt) (src : Bytes) (e : Int) {l : PLabel} {bs : List PB} {is : List Tree}
    (hG : PBGrammar (.mk l bs is)) (h : PBMark src0 (.mk l bs is))
    (ih : ∀ c ∈ bs, PBGrammar c → PBMark src0 c → (∀ c' ∈ closeBlock x src e c, PBMark src0 c') ∧ MRes c (closeBlock x src e c)) :
    PBMark src0 (.mk l (closeLast x src e bs) is) := by
  cases hgl : bs.getLast? with
  | none => rw [closeLast_none x src e bs hgl]; exact h
  | some c =>
    rw [closeLast_some x src e bs c hgl]
    have hcm : c ∈ bs := List.mem_of_getLast? hgl
    have r := ih c hcm (((PBGrammar_mk l bs is).1 hG).2 c hcm) (((PBMark_mk src0 l bs is).1 h).2 c hcm)
    exact PBM_replaceLast hG h hgl r.2 r.1

theorem headKey_map_setLabel (f : PLabel → PLabel) (hk : ∀ l, (f l).kind = l.kind) (h1 : ∀ l, (f l).start = l.start)
    (h2 : ∀ l, (f l).stop = l.stop) (bs : List PB) : headKey (bs.map (PB.setLabel f)) = headKey bs := by
  cases bs with
  | nil => rfl
  | cons m r =>
    obtain ⟨ml, mb, mi⟩ := m
    simp [headKey, PB.setLabel, PB.kind, PB.label, hk, h1, h2]

/-- **`closeBlock` keeps the marker invariant** (`src0`: the source the invariant speaks about). -/
theorem closeBlock_M {src0 : Bytes} (x : PExt) (src : Bytes) (e : Int) : ∀ b : PB, PBGrammar b → PBMark src0 b →
    (∀ c' ∈ closeBlock x src e b, PBMark src0 c') ∧ MRes b (closeBlock x src e b) := by
  apply PB.ind
  intro l bs is ih hG h
  have good := closeBlock_good x src e (.mk l bs is) hG
  by_cases hopen : l.stop ≥ 0
  · rw [closeBlock_closed x src e l bs is hopen]
    refine ⟨?_, MRes.refl _⟩
    intro c' hc'
    simp only [List.mem_singleton] at hc'
    subst hc'
    exact h
  -- an open block: nothing to show about the interface (only closed markers matter)
  have vac : ∀ new, MRes (.mk l bs is) new := fun new _ h0 => absurd h0 hopen
  refine ⟨?_, vac _⟩
  have single : ∀ b' : PB, PBMark src0 b' → ∀ c' ∈ [b'], PBMark src0 c' := by
    intro b' hb' c' hc'
    simp only [List.mem_singleton] at hc'
    subst hc'
    exact hb'
  have hcl : PBMark src0 (.mk l (closeLast x src e bs) is) := closeLast_M x src e hG h ih
  by_cases hk : l.kind = BK.list
  · cases hloose : listLooseAtClose { l with stop := e } bs with
    | true =>
      rw [closeBlock_list_loose x src e l bs is hopen hk hloose]
      apply single
      rw [PBMark_mk] at hcl ⊢
      refine ⟨markLocal_of_ne _ (by show l.kind ≠ BK.listItem; rw [hk]; decide), ?_⟩
      intro b hb
      rw [List.mem_map] at hb
      obtain ⟨c0, hc0, rfl⟩ := hb
      exact PBM_setLabel (f := fun il => { il with loose := true }) (fun _ => rfl) (fun _ => rfl) (hcl.2 c0 hc0)
    | false =>
      rw [closeBlock_list_tight x src e l bs is hopen hk hloose]
      apply single
      exact PBM_relabel (l := l) rfl rfl hcl
  by_cases hp : Para l.kind
  · rw [closeBlock_para x src e l bs is hopen hp] at good ⊢
    intro c' hc'
    apply PBM_of_para3 (good.1 c' hc')
    rcases good.2 with ⟨c'', heq, hk'', _⟩ | ⟨_, hall⟩
    · rw [heq] at hc'
      simp only [List.mem_singleton] at hc'
      subst hc'
      rw [hk'']
      rcases hp with hp | hp
      · exact Or.inl hp
      · exact Or.inr (Or.inl hp)
    · exact hall c' hc'
  by_cases hic : l.kind = BK.indentedCode
  · rw [closeBlock_indented x src e l bs is hopen hic]
    obtain ⟨is', heq, _⟩ := indentedOnClose_eq src { l with stop := e } bs is
    rw [heq]
    apply single
    exact PBM_relabel (l := l) rfl rfl h
  · rw [closeBlock_other x src e l bs is hopen hk hp hic]
    apply single
    exact PBM_relabel (l := l) rfl rfl hcl

/-! ### offsetPB -/

/-- Every block of the tree starts at or after `m`. -/
def StartsAfter (m : Int) (b : PB) : Prop := ∀ c ∈ pbNodes b, m ≤ c.label.start

theorem StartsAfter.child {m : Int} {l : PLabel} {bs : List PB} {is : List Tree} (h : StartsAfter m (.mk l bs is)) {b : PB}
    (hb : b ∈ bs) : StartsAfter m b :=
  fun c hc => h c (mem_pbNodes_child hb hc)

theorem sliceI_drop {src : Bytes} {n : Nat} {s e : Int} (hs : (n : Int) ≤ s) :
    sliceI (src.drop n) (s - n) (e - n) = sliceI src s e := by
  unfold sliceI
  rw [List.drop_drop]
  have e1 : n + (s - (n : Int)).toNat = s.toNat := by omega
  have e2 : (e - (n : Int) - (s - (n : Int))).toNat = (e - s).toNat := by congr 1; omega
  rw [e1, e2]

theorem markOK_offset {src : Bytes} {n : Nat} {m : PLabel} {c : UInt8} (hs : (n : Int) ≤ m.start) (h : markOK src m c = true) :
    markOK (src.drop n) { m with start := m.start + (-(n : Int)), stop := if m.stop ≥ 0 then m.stop + (-(n : Int)) else m.stop } c = true := by
  unfold markOK at h ⊢
  simp only [Bool.and_eq_true, decide_eq_true_eq] at h ⊢
  obtain ⟨⟨⟨h0, h1⟩, h2⟩, h3⟩ := h
  have hst : (0 : Int) ≤ m.stop := by omega
  simp only [ge_iff_le, hst, if_true]
  refine ⟨⟨⟨by omega, by omega⟩, ?_⟩, ?_⟩
  · rw [List.length_drop]; omega
  · have e1 : m.start + (-(n : Int)) = m.start - n := by omega
    have e2 : m.stop + (-(n : Int)) = m.stop - n := by omega
    rw [e1, e2, sliceI_drop hs]
    exact h3

theorem offsetPB_fields' (n : Int) (b : PB) :
    (offsetPB n b).kind = b.kind ∧ (offsetPB n b).label.char = b.label.char ∧
    (offsetPB n b).label = { b.label with start := b.label.start + n, stop := if b.label.stop ≥ 0 then b.label.stop + n else b.label.stop } := by
  obtain ⟨l, bs, is⟩ := b
  rw [offsetPB]
  exact ⟨rfl, rfl, rfl⟩

/-- Cutting `n` bytes off the source and re-basing the tree keeps the marker invariant, if every block starts at or
    after the cut. -/
theorem PBM_offsetPB (src : Bytes) (n : Nat) : ∀ b : PB, StartsAfter (n : Int) b → PBMark src b →
    PBMark (src.drop n) (offsetPB (-(n : Int)) b) := by
  apply PB.ind
  intro l bs is ih hsa h
  rw [offsetPB, offsetPBs_eq_map]
  rw [PBMark_mk] at h ⊢
  refine ⟨?_, ?_⟩
  · have h1 := h.1
    unfold markLocal at h1 ⊢
    simp only [Bool.or_eq_true] at h1 ⊢
    rcases h1 with h1 | h1
    · exact Or.inl h1
    · right
      cases bs with
      | nil => rfl
      | cons m r =>
        simp only [List.map_cons, Bool.or_eq_true] at h1 ⊢
        rw [(offsetPB_fields' _ m).1, (offsetPB_fields' _ m).2.2]
        rcases h1 with h1 | h1
        · exact Or.inl h1
        · right
          have hms : (n : Int) ≤ m.label.start := hsa m (mem_pbNodes_child (List.mem_cons_self ..) (mem_pbNodes_self m))
          exact markOK_offset hms h1
  · intro b hb
    rw [List.mem_map] at hb
    obtain ⟨c, hc, rfl⟩ := hb
    exact ih c hc (hsa.child hc) (h.2 c hc)

end CM.Proofs.GM
