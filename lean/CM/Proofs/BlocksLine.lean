import CM.Proofs.BlocksStarts
/-
`ruleMatch`, `descendLoop`, `tryStarts`, `openingLoop`, `openNewBlocks`, `addLineText`, `processLine` preserve the
working invariant `Inv` (hence never panic).
-/
namespace CM.Proofs.BT
open CM CM.Model CM.Gen

theorem Inv.setDepth {p : LP} (h : Inv p) (d : Nat) (hd : d ≤ p.depth) : Inv { p with depth := d } :=
  ⟨h.panic, ⟨h.cur.hi, h.cur.htab⟩, ⟨h.tree.root, spineGet_isSome_of_le p.depth p.root d hd h.tree.valid⟩⟩

theorem Inv.setState {p : LP} (h : Inv p) (s : Nat) : Inv { p with state := s } :=
  ⟨h.panic, ⟨h.cur.hi, h.cur.htab⟩, ⟨h.tree.root, h.tree.valid⟩⟩

/-! ### ruleMatch -/

structure RMPost (p p' : LP) : Prop where
  inv : Inv p'
  depth : p'.depth = p.depth
  st : p'.state = 3 ∨ p'.state = 4
  root : p'.state = 3 → p'.root = p.root

theorem RMPost.refl {p : LP} (h : Inv p) (hs : p.state = 3) : RMPost p p := ⟨h, rfl, Or.inl hs, fun _ => rfl⟩

theorem RMPost.ofCI {p p' : LP} {n : Nat} (h : Inv p) (hs : p.state = 3) (c : CIPost p p' n) : RMPost p p' :=
  ⟨c.inv h, tree_depth c.tree, Or.inl (c.st3 hs), fun _ => tree_root c.tree⟩

theorem ruleMatch_post (x : PExt) (kind : Nat) (p : LP) (h : Inv p) (hs : p.state = 3) (ok : Bool) (p' : LP)
    (hrm : ruleMatch x kind p = some (ok, p')) : RMPost p p' := by
  unfold ruleMatch at hrm
  split at hrm
  · -- document, list
    simp only [Option.some.injEq, Prod.mk.injEq] at hrm; obtain ⟨_, rfl⟩ := hrm
    exact RMPost.refl h hs
  split at hrm
  · -- list item
    split at hrm
    · split at hrm
      · simp only [Option.some.injEq, Prod.mk.injEq] at hrm; obtain ⟨_, rfl⟩ := hrm
        exact RMPost.refl h hs
      · simp only [Option.some.injEq, Prod.mk.injEq] at hrm; obtain ⟨_, rfl⟩ := hrm
        exact RMPost.ofCI h hs (consumeIndentN_post p p.indent h.cur (Nat.le_refl _))
    · split at hrm
      · rename_i ci hci
        split at hrm
        · rename_i hge
          simp only [Option.some.injEq, Prod.mk.injEq] at hrm; obtain ⟨_, rfl⟩ := hrm
          exact RMPost.ofCI h hs (consumeIndentN_post p ci.toNat h.cur (by omega))
        · simp only [Option.some.injEq, Prod.mk.injEq] at hrm; obtain ⟨_, rfl⟩ := hrm
          exact RMPost.refl h hs
      · simp only [Option.some.injEq, Prod.mk.injEq] at hrm; obtain ⟨_, rfl⟩ := hrm
        exact RMPost.refl h hs
  split at hrm
  · -- block quote
    simp only [] at hrm
    split at hrm
    · simp only [Option.some.injEq, Prod.mk.injEq] at hrm; obtain ⟨_, rfl⟩ := hrm
      exact RMPost.refl h hs
    split at hrm
    · simp only [Option.some.injEq, Prod.mk.injEq] at hrm; obtain ⟨_, rfl⟩ := hrm
      exact RMPost.refl h hs
    rename_i _ hpre
    have hpre' : hasBytePrefix p.bytesAfterIndent blockQuotePrefix = true := by
      cases hh : hasBytePrefix p.bytesAfterIndent blockQuotePrefix
      · rw [hh] at hpre; exact absurd rfl hpre
      · rfl
    have hlen := hasBytePrefix_length _ _ hpre'
    have hbq : blockQuotePrefix.length = 1 := rfl
    simp only [Option.some.injEq, Prod.mk.injEq] at hrm; obtain ⟨_, rfl⟩ := hrm
    obtain ⟨ci, hdrop, hil⟩ := consumeAll p h
    generalize p.consumeIndentN p.indent = p1 at ci hdrop hil ⊢
    have i1 := ci.inv h
    have ad := advance_post p1 blockQuotePrefix.length i1.cur (by rw [ci.line]; omega)
    generalize p1.advance blockQuotePrefix.length = p3 at ad
    have i3 := ad.inv i1
    have s3 := ad.st3 (ci.st3 hs)
    split
    · have c4 := consumeIndentN_post p3 1 i3.cur (by omega)
      exact ⟨c4.inv i3, by rw [tree_depth c4.tree, tree_depth ad.tree, tree_depth ci.tree], Or.inl (c4.st3 s3),
        fun _ => by rw [tree_root c4.tree, tree_root ad.tree, tree_root ci.tree]⟩
    · exact ⟨i3, by rw [tree_depth ad.tree, tree_depth ci.tree], Or.inl s3,
        fun _ => by rw [tree_root ad.tree, tree_root ci.tree]⟩
  split at hrm
  · -- fenced code
    simp only [] at hrm
    split at hrm
    · simp only [Option.some.injEq, Prod.mk.injEq] at hrm; obtain ⟨_, rfl⟩ := hrm
      have cl := consumeLine_post p h.cur
      have s := cl.st3 hs
      exact ⟨cl.inv h, tree_depth cl.tree, Or.inr s, fun h3 => by omega⟩
    · simp only [Option.some.injEq, Prod.mk.injEq] at hrm; obtain ⟨_, rfl⟩ := hrm
      split
      · exact RMPost.ofCI h hs (consumeIndentN_post p p.indent h.cur (Nat.le_refl _))
      · exact RMPost.ofCI h hs (consumeIndentN_post p _ h.cur (by omega))
  split at hrm
  · -- indented code
    simp only [] at hrm
    split at hrm
    · split at hrm
      · simp only [Option.some.injEq, Prod.mk.injEq] at hrm; obtain ⟨_, rfl⟩ := hrm
        exact RMPost.refl h hs
      · simp only [Option.some.injEq, Prod.mk.injEq] at hrm; obtain ⟨_, rfl⟩ := hrm
        exact RMPost.ofCI h hs (consumeIndentN_post p p.indent h.cur (Nat.le_refl _))
    · simp only [Option.some.injEq, Prod.mk.injEq] at hrm; obtain ⟨_, rfl⟩ := hrm
      exact RMPost.ofCI h hs (consumeIndentN_post p _ h.cur (by omega))
  split at hrm
  · -- HTML block
    split at hrm
    · split at hrm
      · simp only [Option.some.injEq, Prod.mk.injEq] at hrm; obtain ⟨_, rfl⟩ := hrm
        exact RMPost.refl h hs
      · simp only [Option.some.injEq, Prod.mk.injEq] at hrm; obtain ⟨_, rfl⟩ := hrm
        have co := collectInline_post x p IK.rawHTML p.bytesAfterIndent.length h (by omega) (by
          rw [ciSkip_bai p h.cur]; exact Nat.le_refl _)
        generalize p.collectInline x IK.rawHTML p.bytesAfterIndent.length = p4 at co
        have cl := consumeLine_post p4 co.inv.cur
        have s := cl.st3 (co.st3 hs)
        exact ⟨cl.inv co.inv, by rw [tree_depth cl.tree, co.depth], Or.inr s, fun h3 => by omega⟩
    · simp only [Option.some.injEq, Prod.mk.injEq] at hrm; obtain ⟨_, rfl⟩ := hrm
      exact RMPost.refl h hs
  split at hrm
  · simp only [Option.some.injEq, Prod.mk.injEq] at hrm; obtain ⟨_, rfl⟩ := hrm
    exact RMPost.refl h hs
  · cases hrm

/-! ### descendLoop -/

theorem descendLoop_inv (x : PExt) : ∀ (fuel : Nat) (p : LP) (parent : Nat), Inv { p with depth := parent } →
    Inv (descendLoop x fuel p parent).2 := by
  intro fuel
  induction fuel with
  | zero => intro p parent h; exact h
  | succ fuel ih =>
    intro p parent h
    unfold descendLoop
    split
    · exact h
    rename_i c hc
    split
    · exact h
    simp only []
    have h1 : Inv { p with depth := parent + 1 } :=
      ⟨h.panic, ⟨h.cur.hi, h.cur.htab⟩, ⟨h.tree.root, by show (spineGet p.root (parent + 1)).isSome; rw [hc]; rfl⟩⟩
    split
    · exact h
    · rename_i ok p2 hrm
      have rm := ruleMatch_post x c.kind _ (h1.setState stateDescending) rfl ok p2 hrm
      have d2 : p2.depth = parent + 1 := rm.depth
      split
      · have cc := closeContainer_post x p2 (↑p2.lineStart + ↑p2.i) rm.inv.tree
        have := (cc.inv rm.inv).setDepth parent (by rw [cc.depth, d2]; omega)
        exact this
      · split
        · exact rm.inv.setDepth parent (by omega)
        · apply ih
          have := rm.inv.setDepth (parent + 1) (by omega)
          exact this

/-! ### tryStarts -/

structure TSPost (p r : LP) : Prop where
  inv : Inv r
  st : r.state ≤ 2
  line : r.line = p.line
  ile : p.i ≤ r.i
  prog : r.state = 1 → (acceptsLines r.containerKind = true ∧ r.containerKind ≠ BK.paragraph) ∨ p.i < r.i

theorem tryStarts_post : ∀ (fs : List (LP → LP)), (∀ f ∈ fs, ∀ q, Inv q → q.state = 0 → SPost q (f q)) →
    ∀ p, Inv p → (fs = [] → p.state = 0) → TSPost p (tryStarts fs p) := by
  intro fs
  induction fs with
  | nil =>
    intro _ p h hs; have := hs rfl
    show TSPost p p
    exact ⟨h, by omega, rfl, Nat.le_refl _, fun h' => by omega⟩
  | cons f rest ih =>
    intro hf p h _
    unfold tryStarts
    simp only []
    have sp := hf f (List.mem_cons_self ..) { p with state := stateOpening } (h.setState _) rfl
    generalize f { p with state := stateOpening } = p' at sp
    split
    · refine ⟨sp.inv, sp.st, sp.line, sp.ile, sp.prog⟩
    · rename_i hne
      have s0 : p'.state = 0 := by
        have := sp.st
        simp only [stateOpenMatched, stateLineConsumed, Bool.or_eq_true, beq_iff_eq, not_or] at hne
        omega
      have r := ih (fun g hg => hf g (List.mem_cons_of_mem _ hg)) p' sp.inv (fun _ => s0)
      refine ⟨r.inv, r.st, by rw [r.line, sp.line], by have := r.ile; have := sp.ile; exact Nat.le_trans sp.ile r.ile, ?_⟩
      intro h1
      rcases r.prog h1 with h' | h'
      · exact Or.inl h'
      · exact Or.inr (Nat.lt_of_le_of_lt sp.ile h')

theorem blockStartFns_post (x : PExt) : ∀ f ∈ blockStartFns x, ∀ q, Inv q → q.state = 0 → SPost q (f q) := by
  intro f hf q h hs
  simp only [blockStartFns, List.mem_cons, List.mem_nil_iff, or_false] at hf
  rcases hf with rfl | rfl | rfl | rfl | rfl | rfl | rfl | rfl
  · exact startBlockQuote_post x q h hs
  · exact startATX_post x q h hs
  · exact startFenced_post x q h hs
  · exact startHTML_post x q h hs
  · exact startSetext_post x q h hs
  · exact startThematicBreak_post x q h hs
  · exact startListItem_post x q h hs
  · exact startIndentedCode_post x q h hs

theorem tryStarts_blockStarts (x : PExt) (p : LP) (h : Inv p) : TSPost p (tryStarts (blockStartFns x) p) :=
  tryStarts_post _ (blockStartFns_post x) p h (fun h' => by simp [blockStartFns] at h')

/-! ### openingLoop -/

structure OLoopPost (p r : LP) : Prop where
  inv : Inv r
  st : acceptsLines r.containerKind = false → r.state ≤ 2
  line : r.line = p.line

theorem openingLoop_post (x : PExt) : ∀ (fuel : Nat) (p : LP), Inv p → (fuel = 0 → p.state ≤ 2) →
    OLoopPost p (openingLoop x fuel p).2 := by
  intro fuel
  induction fuel with
  | zero => intro p h hs; exact ⟨h, fun _ => hs rfl, rfl⟩
  | succ fuel ih =>
    intro p h _
    unfold openingLoop
    split
    · rename_i hc
      refine ⟨h, fun ha => ?_, rfl⟩
      rw [ha] at hc; simp at hc
    · have ts := tryStarts_blockStarts x p h
      simp only []
      generalize tryStarts (blockStartFns x) p = p' at ts
      split
      · rename_i h1
        have r := ih p' ts.inv (fun _ => ts.st)
        exact ⟨r.inv, r.st, by rw [r.line, ts.line]⟩
      · split
        · exact ⟨ts.inv, fun _ => ts.st, ts.line⟩
        · exact ⟨ts.inv, fun _ => ts.st, ts.line⟩

/-! ### openNewBlocks -/

structure ONPost (r : Bool × LP) : Prop where
  inv : Inv r.2
  st : r.1 = true → acceptsLines r.2.containerKind = false → r.2.state ≤ 2

theorem closeLastChild_containerKind (x : PExt) (p : LP) (e : Int) (h : TreeOK p) :
    (p.closeLastChild x e).containerKind = p.containerKind := by
  have h1 := closeLastChild_label x p e p.depth (Nat.le_refl _)
  rw [labelAt_container p h.valid] at h1
  have : (p.closeLastChild x e).depth = p.depth := rfl
  rw [← this] at h1
  rw [containerKind_of_labelAt _ _ h1]
  rfl

theorem openNewBlocks_post (x : PExt) (p : LP) (allMatched : Bool) (h : Inv p) : ONPost (openNewBlocks x p allMatched) := by
  unfold openNewBlocks
  split
  · have h0 := h.setDepth 0 (Nat.zero_le _)
    have cc := closeContainer_post x _ (↑p.lineStart) h0.tree
    exact ⟨cc.inv h0, fun hh => by cases hh⟩
  · have ol := openingLoop_post x (p.line.length + 8) p h (fun h' => by omega)
    generalize openingLoop x (p.line.length + 8) p = r at ol
    obtain ⟨hasText, q⟩ := r
    simp only [] at ol ⊢
    split
    · exact ⟨ol.inv, fun _ => ol.st⟩
    · split
      · rename_i hc
        simp only [Bool.and_eq_true, beq_iff_eq] at hc
        have hk := hc.2
        have hv : (spineGet q.root (tipDepth q.root 0)).isSome := by
          cases hsg : spineGet q.root (tipDepth q.root 0) with
          | none =>
            rw [hsg] at hk
            have := ol.inv.tree.root
            simp only [Option.getD_none] at hk
            rw [hk] at this; cases this
          | some c => rfl
        refine ⟨⟨ol.inv.panic, ⟨ol.inv.cur.hi, ol.inv.cur.htab⟩, ⟨ol.inv.tree.root, hv⟩⟩, fun _ ha => ?_⟩
        have : ({ q with depth := tipDepth q.root 0 } : LP).containerKind = BK.paragraph := hk
        rw [this] at ha
        have : acceptsLines BK.paragraph = true := by decide
        rw [this] at ha; cases ha
      · have ok := closeLastChild_ok x q (↑q.lineStart) ol.inv.tree
        refine ⟨ol.inv.of_treeOp rfl rfl ok, fun _ ha => ?_⟩
        rw [closeLastChild_containerKind x q _ ol.inv.tree] at ha
        exact ol.st ha

/-! ### addLineText -/

theorem blankFn_label (c : PB) :
    ((fun b => match b with
      | PB.mk l bs is => match bs.getLast? with
        | some c => PB.mk l (bs.dropLast ++ [c.setLabel fun cl => { cl with lastLineBlank := true }]) is
        | none => PB.mk l bs is) c).label = c.label := by
  obtain ⟨l, bs, is⟩ := c
  simp only []
  split <;> rfl

theorem setBlankFlags_ok (p : LP) (v : Bool) (h : TreeOK p) :
    TreeOK { p with root := setBlankFlags v p.root p.depth } ∧
    ({ p with root := setBlankFlags v p.root p.depth } : LP).containerKind = p.containerKind := by
  have hk0 := setBlankFlags_kind v p.depth p.root 0 (Nat.zero_le _)
  rw [labelAt_zero, labelAt_zero] at hk0
  have hkd := setBlankFlags_kind v p.depth p.root p.depth (Nat.le_refl _)
  have hv := h.valid
  simp only [labelAt] at hkd
  cases hsg : spineGet p.root p.depth with
  | none => rw [hsg] at hv; cases hv
  | some c =>
    rw [hsg] at hkd
    cases hsg' : spineGet (setBlankFlags v p.root p.depth) p.depth with
    | none => rw [hsg'] at hkd; cases hkd
    | some c' =>
      rw [hsg'] at hkd
      refine ⟨⟨?_, ?_⟩, ?_⟩
      · show (setBlankFlags v p.root p.depth).label.kind = _
        have := h.root
        simp only [PB.kind] at this
        simp only [Option.map_some, Option.some.injEq] at hk0
        rw [hk0]; exact this
      · show (spineGet (setBlankFlags v p.root p.depth) p.depth).isSome
        rw [hsg']; rfl
      · show PB.kind ((spineGet (setBlankFlags v p.root p.depth) p.depth).getD _) = PB.kind ((spineGet p.root p.depth).getD _)
        rw [hsg, hsg']
        simpa [PB.kind] using hkd

/-- `addLineText`, step 1: the blank mark on the container's last child. -/
def altBlank (p : LP) : LP :=
  if p.isRestBlank then
    { p with root := spineModify (fun b => match b with
        | .mk l bs is => match bs.getLast? with
          | some c => .mk l (bs.dropLast ++ [c.setLabel fun cl => { cl with lastLineBlank := true }]) is
          | none => .mk l bs is) p.root p.depth }
  else p

/-- step 2: the `lastLineBlank` flags. -/
def altFlags (isBlank : Bool) (p : LP) : LP :=
  let k := p.containerKind
  let lastLineBlank := isBlank && !(k == BK.blockQuote || k == BK.fencedCode ||
    (k == BK.listItem && p.container.childCount == 1 && p.container.label.start ≥ p.lineStart))
  { p with root := setBlankFlags lastLineBlank p.root p.depth }

/-- step 3: where the text goes. -/
def altCont (x : PExt) (isBlank : Bool) (p : LP) : Option LP :=
  let k := p.containerKind
  if acceptsLines k then
    if p.i < p.line.length && p.line.getD p.i 0 == TAB && p.tabRem > 0 && p.tabPartial then
      let p := p.appendInline (.node { isBlock := false, kind := IK.indent, start := p.lineStart + p.i, stop := p.lineStart + p.i + 1, indent := p.tabRem } [])
      some (p.consumeIndentN p.tabRem)
    else some p
  else if !isBlank then
    let p := p.openBlock x BK.paragraph
    some (p.consumeIndentN p.indent)
  else none

/-- step 4: the text node. -/
def altTail (p : LP) : LP :=
  let k := p.containerKind
  let isCode := k == BK.indentedCode || k == BK.fencedCode
  let inlineKind := if isCode then IK.text else if k == BK.htmlBlock then IK.rawHTML else IK.unparsed
  let p := p.appendInline (mkInline inlineKind (p.lineStart + p.i) (p.lineStart + p.line.length))
  if isCode && !hasByteSuffix p.line [LF] && !hasByteSuffix p.line [CR] then
    p.appendInline (mkInline IK.softBreak (p.lineStart + p.line.length) (p.lineStart + p.line.length))
  else p

theorem addLineText_eq (x : PExt) (p : LP) :
    addLineText x p = match altCont x p.isRestBlank (altFlags p.isRestBlank (altBlank p)) with
      | none => altFlags p.isRestBlank (altBlank p)
      | some q => altTail q := rfl

structure ALStep (p q : LP) : Prop where
  inv : Inv q
  ckind : q.containerKind = p.containerKind
  state : q.state = p.state

theorem altBlank_step (p : LP) (h : Inv p) : ALStep p (altBlank p) := by
  unfold altBlank
  split
  · refine ⟨h.of_treeOp rfl rfl (modify_ok p _ blankFn_label h.tree), ?_, rfl⟩
    have h1 := labelAt_modify_self _ blankFn_label p.depth p.root
    rw [labelAt_container p h.tree.valid] at h1
    exact containerKind_of_labelAt { p with root := spineModify _ p.root p.depth } _ h1
  · exact ⟨h, rfl, rfl⟩

theorem altFlags_step (b : Bool) (p : LP) (h : Inv p) : ALStep p (altFlags b p) := by
  unfold altFlags
  simp only []
  have hB := setBlankFlags_ok p (b && !(p.containerKind == BK.blockQuote || p.containerKind == BK.fencedCode ||
    (p.containerKind == BK.listItem && p.container.childCount == 1 && decide (p.container.label.start ≥ p.lineStart)))) h.tree
  exact ⟨h.of_treeOp rfl rfl hB.1, hB.2, rfl⟩

theorem inv_ite (c : Bool) (a b : LP) (ha : Inv a) (hb : Inv b) : Inv (if c = true then a else b) := by
  cases c
  · exact hb
  · exact ha

theorem altTail_inv (q : LP) (h : Inv q) : Inv (altTail q) := by
  unfold altTail
  simp only []
  exact inv_ite _ _ _ (appendInline_inv _ _ (appendInline_inv _ _ h)) (appendInline_inv _ _ h)

theorem altCont_inv (x : PExt) (b : Bool) (p : LP) (h : Inv p) (hs : acceptsLines p.containerKind = false → p.state ≤ 2)
    (q : LP) (hq : altCont x b p = some q) : Inv q := by
  unfold altCont at hq
  simp only [] at hq
  split at hq
  · split at hq
    · rename_i hc
      simp only [Option.some.injEq] at hq
      subst hq
      simp only [Bool.and_eq_true, decide_eq_true_eq, beq_iff_eq] at hc
      obtain ⟨⟨⟨hlt, htab⟩, _⟩, _⟩ := hc
      have ia := fun t => appendInline_inv p t h
      refine (consumeIndentN_post _ _ (ia _).cur ?_).inv (ia _)
      rw [indent_of_cur (appendInline_cur p _), indent_tab p hlt htab]
      show p.tabRem ≤ _
      omega
    · simp only [Option.some.injEq] at hq
      subst hq
      exact h
  · split at hq
    · simp only [Option.some.injEq] at hq
      subst hq
      rename_i hna _
      have hna' : acceptsLines p.containerKind = false := by simpa using hna
      have ob := openBlock_inv x p BK.paragraph id id_kind h (hs hna') (Or.inl (by decide))
      generalize p.openBlock x BK.paragraph = pC at ob
      have iC := ob.inv h
      exact (consumeIndentN_post pC pC.indent iC.cur (Nat.le_refl _)).inv iC
    · cases hq

theorem addLineText_inv (x : PExt) (p : LP) (h : Inv p) (hs : acceptsLines p.containerKind = false → p.state ≤ 2) :
    Inv (addLineText x p) := by
  rw [addLineText_eq]
  have a := altBlank_step p h
  have b := altFlags_step p.isRestBlank (altBlank p) a.inv
  generalize altFlags p.isRestBlank (altBlank p) = pB at b
  have kB : pB.containerKind = p.containerKind := by rw [b.ckind, a.ckind]
  have sB : pB.state = p.state := by rw [b.state, a.state]
  split
  · exact b.inv
  · rename_i q hq
    exact altTail_inv q (altCont_inv x _ pB b.inv (by rw [kB, sB]; exact hs) q hq)

/-! ### processLine -/

theorem descendOpenBlocks_inv (x : PExt) (p : LP) (h : Inv p) : Inv (descendOpenBlocks x p).2 :=
  descendLoop_inv x _ p 0 (h.setDepth 0 (Nat.zero_le _))

theorem processLine_inv (x : PExt) (p : LP) (h : Inv p) : Inv (processLine x p) := by
  unfold processLine
  have d := descendOpenBlocks_inv x p h
  generalize descendOpenBlocks x p = r at d
  obtain ⟨allMatched, p1⟩ := r
  simp only [] at d ⊢
  split
  · exact d
  · have o := openNewBlocks_post x p1 allMatched d
    generalize openNewBlocks x p1 allMatched = r2 at o
    obtain ⟨hasText, p2⟩ := r2
    simp only [] at o ⊢
    split
    · rename_i ht
      exact addLineText_inv x p2 o.inv (o.st ht)
    · exact o.inv

end CM.Proofs.BT
