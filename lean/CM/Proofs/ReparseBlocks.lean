import CM.Proofs.ReparseFirstLine
import CM.Proofs.ReparseIcode
import CM.Proofs.ReparseDoc
import CM.Proofs.BlocksGrammar
import CM.Proofs.BlocksContractReach
import CM.Proofs.BlocksContractRefDef
/-
C16, Layer B, part 11: the real block parser `blocksLP x` meets the session invariant `Sess` of Layer U.

`BI src σ`: the invariants of C08 (`blocksI`) and of the grammar (`LPG`, in particular: no panic), the source has no
NUL byte, and
* `HeadKind`: an open first child of the document is a leaf block, a block quote, a list (or a link reference
  definition, which never happens but need not be excluded);
* `LastOK`: a first child of a `GoodK` kind that is closed at the very end of the source is the only child;
* `SpansOK`: the inline children of an open indented code block at the head lie inside the source fed so far;
* `para`: the text of an open paragraph at the head consists of Unparsed nodes that tile `[a, |src|)` (`ParaT` of the
  C01 contract development).
-/
namespace CM.Proofs.Rp
open CM CM.Model CM.Gen CM.Proofs

/-- The kinds of root blocks covered by the C16 theorems of this development. -/
def GoodK (k : Nat) : Prop :=
  k = BK.paragraph ∨ k = BK.setextHeading ∨ k = BK.fencedCode ∨ k = BK.htmlBlock ∨ k = BK.atxHeading ∨ k = BK.thematicBreak ∨
    k = BK.indentedCode

def HeadKind (σ : LP) : Prop :=
  ∀ k rest, σ.root.blocks = k :: rest → k.label.stop < 0 →
    LeafK k.kind ∨ k.kind = BK.blockQuote ∨ k.kind = BK.list ∨ k.kind = BK.linkRefDef

def LastOK (src : Bytes) (σ : LP) : Prop :=
  ∀ k rest, σ.root.blocks = k :: rest → 0 ≤ k.label.stop → k.label.stop.toNat = src.length → GoodK k.kind → rest = []

def SpansOK (src : Bytes) (σ : LP) : Prop :=
  ∀ k rest, σ.root.blocks = k :: rest → k.label.stop < 0 → k.label.kind = BK.indentedCode →
    ∀ t ∈ k.inlines, InLine 0 src.length t

structure BI (src : Bytes) (σ : LP) : Prop where
  inv : blocksI src σ
  g : LPG σ
  nn : NoNul src
  pos : src ≠ []
  hk : HeadKind σ
  last : LastOK src σ
  spans : SpansOK src σ
  para : ∀ k, σ.root.blocks = [k] → k.label.stop < 0 → ParaT src.length k

theorem GoodK.not_container {k : Nat} (h : GoodK k) : ¬ (k = BK.blockQuote ∨ k = BK.list ∨ k = BK.linkRefDef) := by
  rcases h with rfl | rfl | rfl | rfl | rfl | rfl | rfl <;> decide

/-! ### Facts about a state with an open first child -/

theorem headOpen_single {src : Bytes} {σ : LP} (h : blocksI src σ) (ho : headOpen ((blocksLP x).kids σ) = true) :
    ∃ k0, σ.root.blocks = [k0] ∧ k0.label.stop < 0 := by
  have hk : (blocksLP x).kids σ = σ.root.blocks := rfl
  rw [hk] at ho
  cases hb : σ.root.blocks with
  | nil => rw [hb] at ho; cases ho
  | cons k rest =>
    rw [hb] at ho
    have hopen : k.label.stop < 0 := by simpa [headOpen, PB.isOpen] using ho
    cases rest with
    | nil => exact ⟨k, rfl, hopen⟩
    | cons k2 rest2 =>
      exfalso
      have := h.1.kids.init k (by rw [hb]; simp [List.dropLast])
      unfold PBClosed at this
      omega

theorem leaf_no_kids {σ : LP} (hg : LPG σ) {k0 : PB} (hb : σ.root.blocks = [k0]) (hl : LeafK k0.kind) : k0.blocks = [] := by
  have hroot := hg.g
  cases hr : σ.root with
  | mk l bs is =>
    rw [hr] at hb hroot
    simp only [PB.blocks] at hb
    subst hb
    have hk0 := ((BG.PBGrammar_mk l [k0] is).1 hroot).2 k0 (by simp)
    cases k0 with
    | mk l0 bs0 is0 =>
      have hloc := ((BG.PBGrammar_mk l0 bs0 is0).1 hk0).1
      unfold BG.localOK BG.blocksOK at hloc
      simp only [Bool.and_eq_true] at hloc
      have hb := hloc.1
      simp only [PB.kind, PB.label] at hl
      show bs0 = []
      rcases hl with h | h | h | h <;> rw [h] at hb <;>
        simpa [BK.paragraph, BK.fencedCode, BK.htmlBlock, BK.indentedCode, BK.document, BK.blockQuote, BK.listItem, BK.list]
          using hb

theorem root_doc {src : Bytes} {σ : LP} (h : blocksI src σ) : σ.root.label.kind = BK.document := h.1.kind

/-- One more line. -/
theorem line_BI_basic (x : PExt) {src : Bytes} {σ : LP} (h : BI src σ) (ln : Bytes) (hne : ln ≠ []) (hnn : NoNul ln) :
    blocksI (src ++ ln) ((blocksLP x).line σ (src ++ ln) src.length) ∧ LPG ((blocksLP x).line σ (src ++ ln) src.length) ∧
      NoNul (src ++ ln) := by
  refine ⟨blocks_step x σ src (src ++ ln) h.inv (List.prefix_append _ _) ?_, blocksLP_line_LPG x σ h.g _ _, h.nn.append hnn⟩
  have := List.length_pos_iff.mpr hne
  simp; omega

/-! ### What one line does to the first child, by the kind of the open first child -/

/-- The first child after a line, when the open first child is not a leaf block: its kind is unchanged. -/
theorem line_container (x : PExt) {src : Bytes} {σ : LP} (h : BI src σ) (k0 : PB) (hb : σ.root.blocks = [k0])
    (ho : k0.label.stop < 0) (hnl : ¬ LeafK k0.kind) (src' : Bytes) (ls : Nat) :
    ∃ h' m', ((blocksLP x).line σ src' ls).root.blocks = h' :: m' ∧ h'.kind = k0.kind := by
  have hrf := rf_line x σ src' ls (root_doc h.inv)
  obtain ⟨h', m', e, _, kf⟩ := hrf.head k0 [] hb
  refine ⟨h', m', e, ?_⟩
  rcases kf with kf | kf
  · exact kf
  · exfalso; apply hnl
    rcases kf with kf | kf
    · exact Or.inl kf
    · -- an open first child is never a setext heading
      exact absurd kf ((h.inv.1.kids.kid k0 (by rw [hb]; simp)).notSetext ho)

theorem goodK_not_def {k : Nat} (h : GoodK k) : k ≠ BK.linkRefDef := by
  rcases h with rfl | rfl | rfl | rfl | rfl | rfl | rfl <;> decide

/-- **A closed first child of a `GoodK` kind after one more line (or the end-of-input line).** Either it was closed at
    the end of what has been fed and it is the only child (`A`), or it was closed at the start of the (non-empty) line:
    then it is — up to the flag — the only block that `closeBlock` returns for the leaf block `k0` (`B`). -/
theorem line_good (x : PExt) {src : Bytes} {σ : LP} (h : BI src σ) (k0 : PB) (hb : σ.root.blocks = [k0])
    (ho : k0.label.stop < 0) (ln : Bytes) (k : PB) (rest : List PB)
    (hk : ((blocksLP x).line σ (src ++ ln) src.length).root.blocks = k :: rest) (hkc : 0 ≤ k.label.stop)
    (hg : GoodK k.kind) :
    (rest = [] ∧ k.label.stop = ((src ++ ln).length : Int)) ∨
    (ln ≠ [] ∧ LeafK k0.kind ∧ k0.blocks = [] ∧ k.label.stop = (src.length : Int) ∧
      ∃ h0, closeBlock x (src ++ ln) (src.length : Int) k0 = [h0] ∧ FlagRel h0 k) := by
  by_cases hl : LeafK k0.kind
  · have hk0 := leaf_no_kids h.g hb hl
    by_cases hln : ln = []
    · -- the end-of-input line
      subst hln
      left
      rw [List.append_nil] at hk ⊢
      rw [eof_line x σ src k0 h.inv hb ho (hasMatch_leaf hl)] at hk
      obtain ⟨e1, e2, _⟩ := closeBlock_leaf x src _ k0 k rest ho hk0 hl hk (goodK_not_def hg)
      exact ⟨e1, e2⟩
    · have hlo := leaf_line x σ src ln k0 h.inv hb ho hk0 hl hln
      generalize (blocksLP x).line σ (src ++ ln) src.length = σ' at hk hlo
      cases hlo with
      | stays k' e1 e2 e3 e4 _ =>
        exfalso
        rw [e1] at hk
        simp only [List.cons.injEq] at hk
        rw [← hk.1, e2] at hkc
        omega
      | closedAt h0 tl h' m' hK e1 hfl =>
        right
        rw [e1] at hk
        simp only [List.cons.injEq] at hk
        obtain ⟨rfl, rfl⟩ := hk
        obtain ⟨f1, f2⟩ := hfl.label
        have hg0 : GoodK h0.kind := by unfold PB.kind; rw [← f2]; exact hg
        obtain ⟨t1, t2, _⟩ := closeBlock_leaf x (src ++ ln) _ k0 h0 tl ho hk0 hl hK (goodK_not_def hg0)
        subst t1
        exact ⟨hln, hl, hk0, by rw [f1, t2], h0, hK, hfl⟩
      | closedEol kT e1 e2 e3 e4 =>
        left
        rw [e4] at hk
        have hkind : kT.label.kind = BK.paragraph ∨ kT.label.kind = BK.setextHeading ∨ kT.label.kind = BK.fencedCode ∨
            kT.label.kind = BK.htmlBlock := by
          rcases e3 with ⟨_, h1 | h1⟩ | ⟨h1, _⟩
          · exact Or.inr (Or.inr (Or.inl h1))
          · exact Or.inr (Or.inr (Or.inr h1))
          · exact Or.inr (Or.inl h1)
        obtain ⟨t1, t2⟩ := closeBlock_single x (src ++ ln) _ kT k rest e1 e2 hkind hk (goodK_not_def hg)
        exact ⟨t1, by rw [t2]; rfl⟩
  · -- the open first child is a container: its kind does not change
    exfalso
    obtain ⟨h', m', e, ek⟩ := line_container x h k0 hb ho hl (src ++ ln) src.length
    rw [hk] at e
    simp only [List.cons.injEq] at e
    rw [← e.1] at ek
    rcases h.hk k0 [] hb ho with h1 | h1 | h1 | h1
    · exact hl h1
    · rw [ek, h1] at hg; exact hg.not_container (Or.inl rfl)
    · rw [ek, h1] at hg; exact hg.not_container (Or.inr (Or.inl rfl))
    · rw [ek, h1] at hg; exact hg.not_container (Or.inr (Or.inr rfl))

/-- `HeadKind` after one more (non-empty) line. -/
theorem line_headKind (x : PExt) {src : Bytes} {σ : LP} (h : BI src σ) (k0 : PB) (hb : σ.root.blocks = [k0])
    (ho : k0.label.stop < 0) (ln : Bytes) (hln : ln ≠ []) : HeadKind ((blocksLP x).line σ (src ++ ln) src.length) := by
  intro k rest hk hko
  by_cases hl : LeafK k0.kind
  · have hk0 := leaf_no_kids h.g hb hl
    have hlo := leaf_line x σ src ln k0 h.inv hb ho hk0 hl hln
    generalize (blocksLP x).line σ (src ++ ln) src.length = σ' at hk hlo
    cases hlo with
    | stays k' e1 e2 e3 e4 _ =>
      rw [e1] at hk
      simp only [List.cons.injEq] at hk
      left
      rw [← hk.1]; unfold PB.kind; rw [e3]; exact hl
    | closedAt h0 tl h' m' hK e1 hfl =>
      rw [e1] at hk
      simp only [List.cons.injEq] at hk
      obtain ⟨rfl, rfl⟩ := hk
      obtain ⟨f1, f2⟩ := hfl.label
      obtain ⟨_, _, e', kf⟩ := closeBlock_head x (src ++ ln) (src.length : Int) k0
      rw [hK] at e'
      simp only [List.cons.injEq] at e'
      rw [← e'.1] at kf
      rcases kf with kf | kf
      · left; unfold PB.kind; rw [f2]; unfold PB.kind at kf hl; rw [kf]; exact hl
      · -- a paragraph: itself, closed — or a definition in front
        cases k0 with
        | mk l0 bs0 is0 =>
          simp only [PB.blocks] at hk0
          subst hk0
          rcases closeBlock_para x (src ++ ln) (src.length : Int) l0 is0 ho kf with hc | ⟨hd, md, hc, hdk⟩
          · exfalso
            rw [hK] at hc
            simp only [List.cons.injEq] at hc
            rw [f1, hc.1] at hko
            simp only [PB.label] at hko
            omega
          · rw [hK] at hc
            simp only [List.cons.injEq] at hc
            right; right; right
            unfold PB.kind; rw [f2]; rw [hc.1]; exact hdk
    | closedEol kT e1 e2 e3 e4 =>
      rw [e4] at hk
      cases kT with
      | mk lT bsT isT =>
        simp only [PB.blocks] at e2
        subst e2
        simp only [PB.label] at e1 e3
        rcases e3 with ⟨_, h1⟩ | ⟨h1, _⟩
        · exfalso
          rw [closeBlock_plain x _ _ lT isT e1 h1] at hk
          simp only [List.cons.injEq] at hk
          rw [← hk.1] at hko
          simp only [PB.label] at hko
          omega
        · rcases closeBlock_para x (src ++ ln) ((src ++ ln).length : Int) lT isT e1 (Or.inr h1) with hc | ⟨hd, md, hc, hdk⟩
          · exfalso
            rw [hk] at hc
            simp only [List.cons.injEq] at hc
            rw [hc.1] at hko
            simp only [PB.label] at hko
            omega
          · rw [hk] at hc
            simp only [List.cons.injEq] at hc
            right; right; right
            rw [hc.1]; exact hdk
  · obtain ⟨h', m', e, ek⟩ := line_container x h k0 hb ho hl (src ++ ln) src.length
    rw [hk] at e
    simp only [List.cons.injEq] at e
    rw [← e.1] at ek
    rcases h.hk k0 [] hb ho with h1 | h1 | h1 | h1
    · exact absurd h1 hl
    · right; left; rw [ek]; exact h1
    · right; right; left; rw [ek]; exact h1
    · right; right; right; rw [ek]; exact h1

/-- `SpansOK` after one more (non-empty) line. -/
theorem line_spans (x : PExt) {src : Bytes} {σ : LP} (h : BI src σ) (k0 : PB) (hb : σ.root.blocks = [k0])
    (ho : k0.label.stop < 0) (ln : Bytes) (hln : ln ≠ []) : SpansOK (src ++ ln) ((blocksLP x).line σ (src ++ ln) src.length) := by
  intro k rest hk hko hkind
  have hnd : k.kind ≠ BK.linkRefDef := by unfold PB.kind; rw [hkind]; decide
  by_cases hl : LeafK k0.kind
  · have hk0 := leaf_no_kids h.g hb hl
    have hlo := leaf_line x σ src ln k0 h.inv hb ho hk0 hl hln
    generalize (blocksLP x).line σ (src ++ ln) src.length = σ' at hk hlo
    cases hlo with
    | stays k' e1 e2 e3 e4 e5 =>
      rw [e1] at hk
      simp only [List.cons.injEq] at hk
      intro t ht
      rw [← hk.1] at ht hkind
      rcases e5 t ht with h1 | h1
      · exact (h.spans k0 [] hb ho (by rw [← e3]; exact hkind) t h1).mono 0 _ (Nat.le_refl _) (by simp)
      · refine h1.mono 0 _ (Nat.zero_le _) ?_
        simp
    | closedAt h0 tl h' m' hK e1 hfl =>
      exfalso
      rw [e1] at hk
      simp only [List.cons.injEq] at hk
      obtain ⟨rfl, rfl⟩ := hk
      obtain ⟨f1, f2⟩ := hfl.label
      obtain ⟨_, t2, _⟩ := closeBlock_leaf x (src ++ ln) _ k0 h0 tl ho hk0 hl hK (by unfold PB.kind; rw [← f2]; exact hnd)
      rw [f1, t2] at hko
      omega
    | closedEol kT e1 e2 e3 e4 =>
      exfalso
      rw [e4] at hk
      have hkT : kT.label.kind = BK.paragraph ∨ kT.label.kind = BK.setextHeading ∨ kT.label.kind = BK.fencedCode ∨
          kT.label.kind = BK.htmlBlock := by
        rcases e3 with ⟨_, h1 | h1⟩ | ⟨h1, _⟩
        · exact Or.inr (Or.inr (Or.inl h1))
        · exact Or.inr (Or.inr (Or.inr h1))
        · exact Or.inr (Or.inl h1)
      obtain ⟨_, t2⟩ := closeBlock_single x (src ++ ln) _ kT k rest e1 e2 hkT hk hnd
      rw [t2] at hko
      simp only [PB.label] at hko
      omega
  · exfalso
    obtain ⟨h', m', e, ek⟩ := line_container x h k0 hb ho hl (src ++ ln) src.length
    rw [hk] at e
    simp only [List.cons.injEq] at e
    rw [← e.1] at ek
    exact hl (Or.inr (Or.inr (Or.inr (by rw [← ek]; exact hkind))))

theorem padded_of_noNul {b : Bytes} (h : NoNul b) : Padded b := ⟨b, (padNulls_noNul h).symm⟩

/-- `para` after one more line (C01 contract development: `line_step`). -/
theorem line_para (x : PExt) {src : Bytes} {σ : LP} (h : BI src σ) (k0 : PB) (hb : σ.root.blocks = [k0])
    (ho : k0.label.stop < 0) (ln : Bytes) (hl : IsLine ln) (hnn : NoNul ln) (hj : ¬ CRLFSplit src ln) :
    ∀ k, ((blocksLP x).line σ (src ++ ln) src.length).root.blocks = [k] → k.label.stop < 0 → ParaT (src ++ ln).length k := by
  intro k hk hko
  have := line_step onCloseParagraph_cuts x σ src ln h.inv.1 h.inv.2.2 (padded_of_noNul h.nn) (padded_of_noNul hnn) hl hj
    (Or.inr ⟨k0, hb, ho, h.pos, h.para k0 hb ho⟩)
  exact this.para k (by
    show ((blocksLP x).line σ (src ++ ln) src.length).root.blocks.getLast? = some k
    rw [hk]; rfl) hko

end CM.Proofs.Rp
