import CM.Proofs.EolN3
/-
C14 (a), block phase — **the theorem for all CR-free inputs (NUL bytes allowed)**: `NextBlock`, `drain`, and
`blocks_eol_sim_nul`.
-/
namespace CM.Proofs.EolN
open CM CM.Model CM.Gen CM.Spec CM.Proofs CM.Proofs.RDS CM.Proofs.BSp CM.Proofs.ERd CM.Proofs.BG CM.Proofs.BT CM.Proofs.EolX
  CM.Proofs.EolG

section
variable {x : PExt} {e inp : Bytes}

theorem nextBlock_simN (C : LPContract (blocksLP x)) (he : StdEol e) (hcr : NoCR inp) {p p' : BP} {c y : Bytes}
    (hM : MInv inp p c y) (hP : PendInv C p.blocks (p.buf.take p.i)) (R : BPRelN e inp p p')
    (hx : ∀ b ∈ p.blocks, XT (p.buf.take p.i) b) (hp : BPInv2 p) :
    IsPanic (nextBlock (blocksLPq x (e.length - 1)) p).1 ∨
      OutRelN C e inp (nextBlock (blocksLPq x (e.length - 1)) p) (nextBlock (blocksLP x) p') := by
  have hord : kidsOrd p.blocks = true := kidsOrd_of_xt hp.base.blocks hx
  have hne := stdEol_ne_nil he
  have hfuel := bpFuel_leN R he
  have hbufC : NoCR p.buf := MInv.noCR hcr hM
  have hsl : (p.buf.take p.i).length = p.i := by simp [R.ile]
  have hlen' : p'.blocks.length = p.blocks.length := by rw [R.blocks, mapPBs_length]
  have hgc : ∀ k rest, p.blocks = k :: rest → k.isOpen = false → GoodCut p.buf (stopOf k) := by
    intro k rest hbs hko
    rcases hP with ⟨hb, _⟩ | ⟨_, hpend⟩
    · rw [hb] at hbs; cases hbs
    · have hk := C.obsP _ _ hpend
      rw [hbs] at hk
      obtain ⟨_, hle, hgcut, _⟩ := kidsOK_cons_closed hko hk
      rw [hsl] at hle
      exact goodCut_of_take hle hgcut hM.cut_i
  unfold nextBlock
  rcases makeRoot_simN he hcr hM R p.blocks hord hgc with ⟨m1, m2⟩ | ⟨r, q, q', m1, m2, m3⟩
  · rw [← R.blocks] at m2
    rw [m1, m2]
    simp only [hlen']
    by_cases hlen : p.blocks.length > 0
    · rw [if_pos hlen, if_pos hlen]
      rw [readline_step p R.err R.ile, readline_step p' R.err' (R.ile' he)]
      simp only []
      obtain ⟨Rn, _⟩ := R.readline he hbufC
      -- the pending blocks are a session of the contract
      have hpend : C.Pend p.blocks (p.buf.take p.i) := by
        rcases hP with ⟨hb, _⟩ | ⟨_, hpend⟩
        · rw [hb] at hlen; simp at hlen
        · exact hpend
      have hopen : headOpen p.blocks = true := by
        cases hbs : p.blocks with
        | nil => rw [hbs] at hlen; simp at hlen
        | cons k rest =>
          show k.isOpen = true
          cases hko : k.isOpen with
          | true => rfl
          | false => rw [hbs] at m1; simp [makeRoot, hko] at m1
      obtain ⟨hpad, hlinef, hns, htake, -⟩ := hM.line_facts
      have hok := C.resume _ _ _ hpend hopen hpad hlinef hns
      rw [hsl, ← htake] at hok
      have := parseLines_simN (x := x) C he hcr (bpFuel p) (bpFuel p') ((blocksLP x).new p.blocks) true p.i _ _ c y
        hfuel hM.readline Rn (lineCond_nextN hbufC) rfl hp.np (new_sess2 x p.blocks p.i _ hp.base.blocks hp.good)
        (xt_docRoot _ hx) hok
      simp only [] at this
      rw [← new_sim, ← R.i', ← R.blocks] at this
      exact this
    · rw [if_neg hlen, if_neg hlen]
      have hb : p.blocks = [] := by
        cases h : p.blocks with
        | nil => rfl
        | cons a t => rw [h] at hlen; simp at hlen
      have Rf := R.advance he hM hb (p.lineno + lineCount (p.buf.take p.i)) (p'.lineno + lineCount (p'.buf.take p'.i))
        (by rw [R.buf', R.i', take_toEol e hne, lineCount_toEol he _ (noCR_take hbufC _), R.lineno])
      have herr : p.err.isSome = true := by rw [R.err]; rfl
      -- the C01 invariant after dropping the bytes before the parse position
      obtain ⟨g0, y₂, e0, _, -, hM0⟩ :=
        hM.advance (n := p.i) (Nat.le_refl _) hM.cut_i
          { p with offset := p.offset + unpaddedNullLength (p.buf.take p.i),
                   lineno := p.lineno + lineCount (p.buf.take p.i), buf := p.buf.drop p.i, i := 0 }
          rfl rfl (fun _ => rfl) (by show 0 = p.i - p.i; omega) rfl rfl hM.panic
      rcases skipBlank_simN he hcr (bpFuel p) (bpFuel p') _ _ _ _ hfuel hM0 Rf hb rfl with
        ⟨a1, a2⟩ | ⟨a1, a2, a3, a4⟩ | ⟨q, q', c', y', a1, a2, aM, a3, a4, a5, a6, a7, a8⟩
      · left
        generalize skipBlank (bpFuel p) _ = sk at a1 a2
        obtain ⟨o1, o2⟩ := sk
        simp only [] at a1 a2
        subst a1
        cases hpn : o2.panic with
        | none => rw [hpn] at a2; cases a2
        | some m => exact ⟨m, by simp only [hpn]⟩
      · generalize skipBlank (bpFuel p) _ = sk at a1 a3 a4
        generalize skipBlank (bpFuel p') _ = sk' at a2 a3 a4
        obtain ⟨o1, o2⟩ := sk
        obtain ⟨o1', o2'⟩ := sk'
        simp only [] at a1 a2 a3 a4
        subst a1; subst a2
        simp only []
        rw [a3, a4]
        cases hpn : o2.panic with
        | some m => left; exact ⟨m, rfl⟩
        | none => right; show OutRelN C e inp (.err _, _) (.err _, _); exact rfl
      · generalize hsk : skipBlank (bpFuel p) _ = sk at a1
        obtain ⟨o1, o2⟩ := sk
        generalize skipBlank (bpFuel p') _ = sk' at a2
        obtain ⟨o1', o2'⟩ := sk'
        simp only [] at a1 a2
        subst a1; subst a2
        simp only []
        obtain ⟨_, hq⟩ := skipBlank_facts2 _ _ _ _ (by exact herr) rfl (by exact hp.np) hsk
        obtain ⟨hqi, hqnp⟩ := hq q rfl
        have hq'b : q'.blocks = [] := by rw [a3.blocks, a4]; rfl
        rw [hq'b, a4]
        -- a fresh session of the contract
        have hqne : q.buf ≠ [] := by
          intro e0'; rw [e0'] at a7; simp at a7; omega
        have hlineq : IsLine (q.buf.take q.i) := by rw [a7]; exact isLine_take hqne
        have hpadq : Padded (q.buf.take q.i) := by
          obtain ⟨z₁, z₂, -, h1, -⟩ := aM.cut_facts aM.cut_i
          exact ⟨z₁, h1⟩
        have hok := C.fresh _ hpadq hlineq a6
        have := parseLines_simN (x := x) C he hcr (bpFuel p) (bpFuel p') ((blocksLP x).new []) true 0 q q' c' y'
          hfuel aM a3 a5 hqi hqnp (new_sess2 x [] 0 q (PBSpansL_nil _ _ _ _) (fun _ h => absurd h List.not_mem_nil))
          (xt_docRoot _ (fun _ h => absurd h List.not_mem_nil)) hok
        rw [← new_sim] at this
        simp only [eolPos_zero, mapPBs_nil] at this
        exact this
  · right
    rw [← R.blocks] at m2
    rw [m1, m2]
    have hgd := makeRoot_good p p.blocks true 0 hp.base.ile hp.base.blocks hp.good hp.np _ _ m1
    have hbase := (makeRoot_spans p p.blocks true 0 p.i hp.base.err hp.base.ile (Int.le_refl _) (Int.le_refl _) hp.base.blocks
      _ _ m1).2
    have hmi : ∃ c' y', MInv inp q c' y' ∧ PendInv C q.blocks (q.buf.take q.i) := by
      rcases hP with ⟨hb, _⟩ | ⟨_, hpend⟩
      · rw [hb] at m1; simp [makeRoot] at m1
      · have hk := C.obsP _ _ hpend
        cases hbs : p.blocks with
        | nil => rw [hbs] at m1; simp [makeRoot] at m1
        | cons k rest =>
          rw [hbs] at m1 hk hpend
          have hko : k.isOpen = false := by
            cases hko : k.isOpen with
            | false => rfl
            | true => simp [makeRoot, hko] at m1
          obtain ⟨r0, q0, hmk, y₁, y₂, _, _, hMq, hPq, _⟩ := makeRoot_out C hM k rest hko hk (by
            intro k' r' e'
            subst e'
            exact C.cut' _ k k' r' hpend hko)
          rw [m1] at hmk
          simp only [Option.some.injEq, Prod.mk.injEq] at hmk
          obtain ⟨_, rfl⟩ := hmk
          exact ⟨_, _, hMq, hPq⟩
    exact ⟨rfl, m3, ⟨hbase, hgd.1, hgd.2⟩, makeRoot_xt p p.blocks hord hx _ _ m1, hmi⟩

theorem drain_simN (C : LPContract (blocksLP x)) (he : StdEol e) (hcr : NoCR inp) :
    ∀ (n : Nat) (p p' : BP) (c y : Bytes) (acc acc' : List Root), MInv inp p c y → PendInv C p.blocks (p.buf.take p.i) →
      BPRelN e inp p p' → (∀ b ∈ p.blocks, XT (p.buf.take p.i) b) → BPInv2 p →
      acc' = acc.map (mapRootN e inp) →
      IsPanic (drain (blocksLPq x (e.length - 1)) n p acc).2.1 ∨
      ((drain (blocksLP x) n p' acc').1 = (drain (blocksLPq x (e.length - 1)) n p acc).1.map (mapRootN e inp) ∧
        ∃ er, (drain (blocksLPq x (e.length - 1)) n p acc).2.1 = .err er ∧ (drain (blocksLP x) n p' acc').2.1 = .err er) := by
  intro n
  induction n with
  | zero => intro p p' c y acc acc' _ _ _ _ _ _; left; exact ⟨_, rfl⟩
  | succ n ih =>
    intro p p' c y acc acc' hM hP R hx hp hacc
    unfold drain
    rcases nextBlock_simN (x := x) C he hcr hM hP R hx hp with ⟨m, hm⟩ | hrel
    · left
      generalize nextBlock (blocksLPq x (e.length - 1)) p = nb at hm
      obtain ⟨o, q⟩ := nb
      simp only [] at hm
      subst hm
      exact ⟨m, rfl⟩
    · generalize nextBlock (blocksLPq x (e.length - 1)) p = nb at hrel
      generalize nextBlock (blocksLP x) p' = nb' at hrel
      obtain ⟨o, q⟩ := nb
      obtain ⟨o', q'⟩ := nb'
      cases o with
      | block r =>
        cases o' with
        | block r' =>
          obtain ⟨h1, h2, h3, h4, c', y', h5, h6⟩ := hrel
          simp only []
          exact ih q q' c' y' (r :: acc) (r' :: acc') h5 h6 h2 h4 h3 (by rw [h1, hacc]; rfl)
        | err b => exact absurd hrel (by simp [OutRelN])
        | panic m => exact absurd hrel (by simp [OutRelN])
      | err a =>
        cases o' with
        | block r' => exact absurd hrel (by simp [OutRelN])
        | err b =>
          right
          have hab : a = b := hrel
          subst hab
          simp only []
          exact ⟨by rw [hacc, List.map_reverse], a, rfl, rfl⟩
        | panic m => exact absurd hrel (by simp [OutRelN])
      | panic m => exact absurd hrel (by simp [OutRelN])

end

/-- **C14 (a), block phase, any CR-free input.**  For an input without CR (NUL bytes allowed) on which the checked run
    `blocksLPq x (|e| - 1)` ends with an error value — at the start of every line, every open paragraph of the tree either
    does not begin with `[`, or none of the link labels the paragraph hook would scan straddles the byte limit when every
    line feed counts `|e|` bytes (`labelsAgree`) — the run on the input with every LF re-written to `e` delivers exactly
    the images (`mapRootN`) of the roots and ends the same way. -/
theorem blocks_eol_sim_nul (x : PExt) {e : Bytes} (he : StdEol e) (inp : Bytes) (hcr : NoCR inp) (n : Nat)
    (hend : ∃ er, (drain (blocksLPq x (e.length - 1)) n (memParser inp) []).2.1 = .err er) :
    (drain (blocksLP x) n (memParser (toEol e inp)) []).1 =
      (drain (blocksLP x) n (memParser inp) []).1.map (mapRootN e inp) ∧
    (drain (blocksLP x) n (memParser (toEol e inp)) []).2.1 = (drain (blocksLP x) n (memParser inp) []).2.1 := by
  obtain ⟨C⟩ := blocksLP_contract x
  obtain ⟨er, her⟩ := hend
  have hnp : ¬ IsPanic (drain (blocksLPq x (e.length - 1)) n (memParser inp) []).2.1 := by
    rw [her]; rintro ⟨m, hm⟩; cases hm
  rw [drain_q_eq n _ _ hnp]
  rcases drain_simN (x := x) C he hcr n (memParser inp) (memParser (toEol e inp)) [] inp [] []
    (MInv.init inp) (Or.inl ⟨rfl, rfl⟩) (memParser_relN he inp) (fun _ h => absurd h List.not_mem_nil) (memParser_inv2 inp) rfl
    with h | ⟨h1, er', h2, h3⟩
  · exact absurd h hnp
  · exact ⟨h1, by rw [h2, h3]⟩

/-- The same for an input without NUL bytes, where the image of a root is `mapRoot` (its tree is mapped by the position map of
    the unpadded input). -/
theorem blocks_eol_sim_chk (x : PExt) {e : Bytes} (he : StdEol e) (inp : Bytes) (hcr : NoCR inp) (hnul : NoNul inp) (n : Nat)
    (hend : ∃ er, (drain (blocksLPq x (e.length - 1)) n (memParser inp) []).2.1 = .err er) :
    (drain (blocksLP x) n (memParser (toEol e inp)) []).1 =
      (drain (blocksLP x) n (memParser inp) []).1.map (mapRoot e inp) ∧
    (drain (blocksLP x) n (memParser (toEol e inp)) []).2.1 = (drain (blocksLP x) n (memParser inp) []).2.1 := by
  obtain ⟨h1, h2⟩ := blocks_eol_sim_nul x he inp hcr n hend
  refine ⟨?_, h2⟩
  rw [h1]
  apply List.map_congr_left
  intro r _
  exact mapRootN_noNul hnul r

theorem blocks_crlf_sim_nul (x : PExt) (inp : Bytes) (hcr : NoCR inp) (n : Nat)
    (hend : ∃ er, (drain (blocksLPq x 1) n (memParser inp) []).2.1 = .err er) :
    (drain (blocksLP x) n (memParser (toCRLF inp)) []).1 =
      (drain (blocksLP x) n (memParser inp) []).1.map (mapRootN [CR, LF] inp) :=
  (blocks_eol_sim_nul x (Or.inr (Or.inr rfl)) inp hcr n hend).1

theorem blocks_cr_sim_nul (x : PExt) (inp : Bytes) (hcr : NoCR inp) (n : Nat)
    (hend : ∃ er, (drain (blocksLPq x 0) n (memParser inp) []).2.1 = .err er) :
    (drain (blocksLP x) n (memParser (toCR inp)) []).1 =
      (drain (blocksLP x) n (memParser inp) []).1.map (mapRootN [CR] inp) :=
  (blocks_eol_sim_nul x (Or.inr (Or.inl rfl)) inp hcr n hend).1

/-- **Re-writing LF to CR: no hypothesis on the link labels.**  For every CR-free input and every fuel with which the run ends
    (by C01: every `n ≥ |inp| + 1`), the run on the input with every LF re-written to CR delivers exactly the images of the
    roots, and ends the same way. -/
theorem blocks_cr_sim_all (x : PExt) (inp : Bytes) (hcr : NoCR inp) (n : Nat) (hn : inp.length + 1 ≤ n) :
    (drain (blocksLP x) n (memParser (toCR inp)) []).1 =
      (drain (blocksLP x) n (memParser inp) []).1.map (mapRootN [CR] inp) ∧
    (drain (blocksLP x) n (memParser (toCR inp)) []).2.1 = (drain (blocksLP x) n (memParser inp) []).2.1 := by
  apply blocks_eol_sim_nul x (Or.inr (Or.inl rfl)) inp hcr n
  obtain ⟨rs, p', h, _⟩ := C01_tiling_blocks x inp n hn
  refine ⟨.eof, ?_⟩
  show (drain (blocksLPq x 0) n (memParser inp) []).2.1 = .err .eof
  rw [← drain_q_all (fun src b => chkB_zero src b) n _ [], h]

/-- A NUL byte in a paragraph, a NUL byte in a link reference definition. -/
def nulDemo : Bytes := [0x61, 0x00, 0x62, LF, LF, 0x5B, 0x78, 0x00, 0x5D, 0x3A, 0x20, 0x2F, 0x75, LF, 0x7A, LF]

example : NoCR nulDemo ∧ ¬ NoNul nulDemo := by decide

example : (drain (blocksLP eolDemoX) 30 (memParser (toCRLF nulDemo)) []).1 =
    (drain (blocksLP eolDemoX) 30 (memParser nulDemo) []).1.map (mapRootN [CR, LF] nulDemo) :=
  blocks_crlf_sim_nul eolDemoX nulDemo (by decide) 30 (exists_err_of_outIsErr (by decide +kernel))

/-- The roots: a paragraph `a␀b` (offsets 0–4 of the input, 6 bytes of padded buffer), a definition, a paragraph. -/
example : ((drain (blocksLP eolDemoX) 30 (memParser nulDemo) []).1.map fun r =>
      (r.block.kind, r.startOffset, r.endOffset, r.block.label.stop)) =
    [(BK.paragraph, 0, 4, 6), (BK.linkRefDef, 5, 14, 11), (BK.paragraph, 14, 16, 2)] := by
  decide +kernel

end CM.Proofs.EolN
