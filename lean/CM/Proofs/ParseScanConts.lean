import CM.Proofs.ParseShapesFinal
import CM.Proofs.ParseScanCollect
/-
C02 / C04, inline halves, for the whole of `Parse` — **what the block phase says about a container** (a block with Unparsed
inline children) of a delivered root, in the root's source (`blockphase_contF`): from the two block-phase invariants `PS.PP`
(lines end with line endings, Indent nodes cover white space) and `PSh.PQ` (lines are not empty, Indent nodes are one TAB, no
backtick before a line), the node grammar, and the spans — kept together PER CONTAINER with its kind
(`conts_ppq`): a paragraph / setext heading, or an ATX heading with one Unparsed child.
From these: the reader's hypotheses `RC2`, and `TailSafe` for paragraphs and setext headings.
-/
namespace CM.Proofs.PSc
open CM CM.Model CM.Gen CM.Spec CM.Model.Inl
open CM.Proofs.BT CM.Proofs.BG CM.Proofs.PW CM.Proofs.InlH CM.Proofs.PS CM.Proofs.RK CM.Proofs.PSh

/-- The two invariants at the same container. -/
theorem conts_ppq {S1 S2 : Bytes} {bd : Int} : ∀ b : PB, PP S1 b → PQ S2 bd b → PBGrammar b →
    ∀ p ∈ conts (pbToTree b), p.2.all (inl paraKinds) = true ∧
      ((PS.ParaOK S1 p.2 ∧ ParaQ S2 bd p.2) ∨ (p.2.length ≤ 1 ∧ p.1.kind = BK.atxHeading)) := by
  apply BG.PB.ind
  intro l bs is ih hp hq hg p hmem
  rw [PP_mk] at hp
  rw [PQ_mk] at hq
  rw [PBGrammar_mk] at hg
  have hi := ((CM.Proofs.BG.localOK_iff l bs is).1 hg.1).2
  have hfacts := inlines_facts hi
  rw [pbToTree, CM.Proofs.pbsToTrees_eq_map, conts] at hmem
  simp only [Bool.not_true, Bool.false_eq_true, if_false] at hmem
  by_cases hbs : bs = []
  · subst hbs
    simp only [List.isEmpty_nil, if_true] at hmem
    split at hmem
    · rename_i hu
      rw [List.mem_singleton] at hmem
      subst hmem
      obtain ⟨hk, hall⟩ := hfacts.2 hu
      refine ⟨hall, ?_⟩
      rcases hk with hk | hk | hk
      · exact Or.inl ⟨hp.1.2.1 (Or.inl hk), hq.1.1 (Or.inl hk)⟩
      · exact Or.inr ⟨hq.1.2 hk, hk⟩
      · exact Or.inl ⟨hp.1.2.1 (Or.inr hk), hq.1.1 (Or.inr hk)⟩
    · rw [contsL_nonblock is hfacts.1] at hmem
      cases hmem
  · have he : bs.isEmpty = false := by
      cases bs with
      | nil => exact absurd rfl hbs
      | cons _ _ => rfl
    simp only [he, Bool.false_eq_true, if_false] at hmem
    have hnu : hasUnparsed (bs.map pbToTree) = false := by
      unfold hasUnparsed
      rw [List.any_eq_false]
      intro t ht
      rw [List.mem_map] at ht
      obtain ⟨c, _, rfl⟩ := ht
      rw [isUnparsed_block (CM.Proofs.pbToTree_label c).1]
      simp
    rw [hnu] at hmem
    simp only [Bool.false_eq_true, if_false] at hmem
    obtain ⟨c', hc', hpc⟩ := mem_contsL.1 hmem
    rw [List.mem_map] at hc'
    obtain ⟨c, hc, rfl⟩ := hc'
    exact ih c hc (hp.2 c hc) (hq.2 c hc) (hg.2 c hc) p hpc

/-- What the block phase says about a container, in the root's source. -/
structure ContF (src : Bytes) (p : Label × List Tree) : Prop where
  span : 0 ≤ p.1.start ∧ p.1.start ≤ p.1.stop ∧ p.1.stop ≤ (src.length : Int)
  kids : ∀ t ∈ p.2, 0 ≤ t.label.start ∧ t.label.start ≤ t.label.stop ∧ p.1.start ≤ t.label.start ∧
    t.label.stop ≤ p.1.stop
  sorted : SortedSpans p.2
  leaf : ∀ t ∈ p.2, t.children = [] ∧ (isIndent t = true ∨ isUnparsed t = true)
  cont : ContOK src p.2
  un : hasUnparsed p.2 = true
  shape : ((∀ t ∈ p.2, NodeQ src t) ∧ (∀ t ∈ p.2.tail, NoTickBeforeI src t.label.start) ∧
      (∀ t ∈ p.2, isIndent t = false → EolEnd src t.label.stop ∨ AtEnd src t.label.stop)) ∨
    (∃ t, p.2 = [t] ∧ isUnparsed t = true ∧ p.1.kind = BK.atxHeading)

theorem kind_of_inl {t : Tree} (h : inl paraKinds t = true) :
    t.children = [] ∧ (isIndent t = true ∨ isUnparsed t = true) := by
  obtain ⟨hb, hk, hc⟩ := inl_facts h
  refine ⟨hc, ?_⟩
  simp only [paraKinds, List.mem_cons, List.mem_nil_iff, or_false] at hk
  unfold isIndent isUnparsed Node.isI
  rw [hb]
  rcases hk with e | e <;> (rw [e]; simp)

/-- **Every container of every block-phase tree of `Parse`.** -/
theorem blockphase_contF (x : PExt) (fuel : Nat) (inp : Bytes) :
    ∀ r ∈ (drain (blocksLP x) fuel (memParser inp) []).1, ∀ p ∈ conts (pbToTree r.block), ContF r.source p := by
  intro r hr p hp
  obtain ⟨buf1, i1, hpad1, hni1, hi1, hsrc1, hP⟩ := drain_PP x fuel inp r hr
  obtain ⟨buf2, i2, hpad2, hni2, hi2, hsrc2, hQ⟩ := drain_PQ x fuel inp r hr
  have hg := (drain_grammar_mem x fuel inp r hr).1
  have hl : r.source.length = stopOf r.block := by rw [hsrc1, fillNulls_length']; simp; omega
  obtain ⟨hnode, hblock, hun⟩ := conts_sub _ _ (Nat.le_refl _) p hp
  have hself := blockphase_spanValid x fuel inp r hr _ hnode
  have hnok := blockphase_nodeOK x fuel inp r hr _ hnode
  simp only [Cov.nodeOK, spanValid, childrenInside, Bool.and_eq_true, T.start, T.stop, List.all_eq_true] at hnok
  have hchild : ∀ t ∈ p.2, t ∈ T.nodes (pbToTree r.block) := by
    intro t ht
    have h1 : t ∈ T.nodes (Tree.node p.1 p.2) := by
      rw [T.nodes]
      exact List.mem_cons_of_mem _ (nodesL_of_mem ht (self_mem_nodes t))
    exact nodes_trans' hnode h1
  have hspan : ∀ t ∈ p.2, 0 ≤ t.label.start ∧ t.label.start ≤ t.label.stop ∧ t.label.stop ≤ (r.source.length : Int) :=
    fun t ht => blockphase_spanValid x fuel inp r hr t (hchild t ht)
  obtain ⟨hall, hshape⟩ := conts_ppq r.block hP hQ hg p hp
  have hleaf : ∀ t ∈ p.2, t.children = [] ∧ (isIndent t = true ∨ isUnparsed t = true) :=
    fun t ht => kind_of_inl (List.all_eq_true.1 hall t ht)
  refine ⟨hself, fun t ht => ?_, ?_, hleaf, blockphase_contOK x fuel inp r hr p hp, hun, ?_⟩
  · obtain ⟨a1, a2, _⟩ := hspan t ht
    have := hnok.1.2 t ht
    exact ⟨a1, a2, of_decide_eq_true this.1, of_decide_eq_true this.2⟩
  · exact sorted_of_siblings p.2 hnok.2 (fun t ht => (hspan t ht).2.1)
  · rcases hshape with ⟨hpo, hpq⟩ | ⟨hlen, hk⟩
    · left
      refine ⟨fun t ht => ?_, fun t ht => ?_, fun t ht hi => ?_⟩
      · obtain ⟨h0, _, h2⟩ := hspan t ht
        rw [hl] at h2
        rw [hsrc2]
        exact nodeQ_source hpad2 hni2 hi2 h0 h2 ((hpq.1 t ht) h0).1
      · have htm := List.mem_of_mem_tail ht
        obtain ⟨h0, h1, h2⟩ := hspan t htm
        rw [hl] at h2
        rw [hsrc2]
        exact noTick_source hpad2 hni2 hi2 (by omega) (hpq.2 t ht)
      · obtain ⟨h0, h1, h2⟩ := hspan t ht
        rw [hl] at h2
        have hlen1 : (fillNulls (buf1.take (stopOf r.block))).length = stopOf r.block := by
          rw [fillNulls_length']; simp; omega
        have hlt1 : (buf1.take i1).length = i1 := by simp; omega
        rw [hsrc1]
        rcases (hpo t ht).2 hi with h | h
        · exact Or.inl (h.fill hpad1 hni1 hi1 h2)
        · right
          rcases h with h | h
          · left; rw [hlen1]; rw [hlt1] at h; omega
          · exact Or.inr h
    · right
      match hp2 : p.2, hlen, hun with
      | [], _, hun => simp [hasUnparsed] at hun
      | [t], _, hun =>
        refine ⟨t, rfl, ?_, hk⟩
        simpa [hasUnparsed] using hun
      | _ :: _ :: _, hlen, _ => simp at hlen

/-! ### the reader's hypotheses -/

theorem ContF.rc2 {src : Bytes} {p : Label × List Tree} (h : ContF src p) : RC2 src p.2 p.1.stop.toNat := by
  have hs := h.span
  have hne : ∀ t ∈ p.2.tail, t.label.start < t.label.stop := by
    intro t ht
    rcases h.shape with ⟨hq, _, _⟩ | ⟨t0, e, _, _⟩
    · have hq' := hq t (List.mem_of_mem_tail ht)
      cases hi : isIndent t with
      | true => have := (hq'.ind hi).1; omega
      | false => exact (hq'.run hi).1
    · rw [e] at ht; simp at ht
  have hind : ∀ t ∈ p.2, isIndent t = true → t.label.stop = t.label.start + 1 := by
    intro t ht hi
    rcases h.shape with ⟨hq, _, _⟩ | ⟨t0, e, hu, _⟩
    · exact ((hq t ht).ind hi).1
    · rw [e, List.mem_singleton] at ht
      subst ht
      exfalso
      unfold isIndent Node.isI at hi
      unfold isUnparsed Node.isI at hu
      simp only [Bool.and_eq_true, beq_iff_eq] at hi hu
      rw [hu.2] at hi
      exact absurd hi.2 (by decide)
  refine ⟨⟨h.sorted, fun t ht => (h.kids t ht).1, fun t ht => (h.kids t ht).2.1, fun t ht => ?_, fun t ht => (h.leaf t ht).2,
    hne, hind, h.cont.indentWS, by omega⟩, fun t ht => (h.leaf t ht).1, ?_⟩
  · have := (h.kids t ht).2.2.2; omega
  · -- lines
    intro k t u rest hd hi
    have hlines : Lines src (p.2.drop k) := h.cont.lines.suffix (List.drop_suffix k p.2)
    rw [hd] at hlines
    have htm : t ∈ p.2 := List.mem_of_mem_drop (by rw [hd]; exact List.mem_cons_self)
    have hum : u ∈ p.2 := List.mem_of_mem_drop (by rw [hd]; simp)
    have hut : u ∈ p.2.tail := mem_tail_of_drop hd
    rcases hlines.1 hi with he | ha
    · exact he
    · -- the end of the source cannot be followed by a non-empty child
      have hso : t.label.stop ≤ u.label.start := by
        have := h.sorted.drop k
        rw [hd] at this
        exact List.rel_of_pairwise_cons this List.mem_cons_self
      have := hne u hut
      have := (h.kids u hum).2.2.2
      have := (h.kids t htm).2.2.2
      rcases ha with ha | ha
      · omega
      · exact ⟨by omega, Or.inl ha⟩

/-- A paragraph or setext heading: a last line that does not end with a line ending ends where the source ends. -/
theorem ContF.tailSafe_para {src : Bytes} {p : Label × List Tree} (h : ContF src p)
    (hpara : ∀ t ∈ p.2, isIndent t = false → EolEnd src t.label.stop ∨ AtEnd src t.label.stop) : TailSafe src p.2 := by
  intro t hl hi
  have htm : t ∈ p.2 := List.mem_of_getLast? hl
  rcases hpara t htm hi with he | ha
  · exact Or.inl he
  · rcases ha with ha | ha
    · right; left; omega
    · have := (h.kids t htm).1
      have := (h.kids t htm).2.1
      exact Or.inl ⟨by omega, Or.inl ha⟩

end CM.Proofs.PSc
