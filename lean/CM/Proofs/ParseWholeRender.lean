import CM.Proofs.ParseWholeSafe
import CM.Proofs.InlShapes
import CM.Props.C07Bytes
/-
Whole-`Parse` theorems, part 11: 4(c) — **`Spec.safePre` of the trees `Parse` returns, and C07's parser contract.**

For every `x ix inp`, every `pr ∈ (parseDoc x ix inp).roots` with `pr.tree = .ok t'`:
* `parse_safePre_partial`: `safePre pr.root.source t' = true`, PROVIDED the CharacterReference nodes the BLOCK phase made
  below the destinations / titles of link reference definitions have spans inside the root's source
  (`defCharRefSpansIn`, a Boolean function of the block-phase tree; see `ParseWholeSafe.lean` for why this is not
  discharged).  Everything the inline phase adds is covered unconditionally (`InlH.rewriteE_safePre`), and so are the
  soft breaks and the info strings of the block phase; `parse_safePre_noDefs`: no proviso for a root whose block-phase
  tree has no LinkDestination / LinkTitle node (it is not, and does not contain, a link reference definition);
* `parse_render_wellformed_partial`: under the same proviso, for every renderer configuration with `filter = none` and
  `ignoreRaw = true` whose source is the root's source, the rendered bytes are in the HTML language of C07
  (`htmlWellFormed`): composes `C07.render_htmlWellFormed`.
`parse_safePre_target` / `parse_render_wellformed_target` are the unconditional statements.
-/
namespace CM.Proofs.PW
open CM CM.Model CM.Gen CM.Spec
open CM.Proofs.BT CM.Proofs.BG CM.Proofs.RK CM.Proofs.InlH

/-- **4(c), C07's parser contract** (under the span proviso on the block phase's CharacterReference nodes). -/
theorem parse_safePre_partial (x : PExt) (ix : IExt) (inp : Bytes) :
    ∀ pr ∈ (parseDoc x ix inp).roots, ∀ t', pr.tree = .ok t' →
      defCharRefSpansIn pr.root.source (pbToTree pr.root.block) = true → safePre pr.root.source t' = true := by
  intro pr hpr t' ht hsp
  rw [parseDoc_tree x ix inp pr hpr] at ht
  exact rewriteE_safePre ix _ _ _ t'
    (blockphase_safePre_of_defSpans x _ inp pr.root (root_mem_drain x ix inp pr hpr) hsp) ht

theorem parse_safePre_partial_final (x : PExt) (ix : IExt) (inp : Bytes) :
    ∀ pr ∈ (parseDoc x ix inp).roots, treeOk pr = true →
      defCharRefSpansIn pr.root.source (pbToTree pr.root.block) = true → safePre pr.root.source (finalTree pr) = true :=
  fun pr hpr hok => parse_safePre_partial x ix inp pr hpr _ (tree_of_treeOk hok)

/-- The proviso follows from C02's executable statement on the block-phase tree. -/
theorem parse_safePre_of_spansOK (x : PExt) (ix : IExt) (inp : Bytes) :
    ∀ pr ∈ (parseDoc x ix inp).roots, ∀ t', pr.tree = .ok t' →
      spansOK pr.root.source (pbToTree pr.root.block) = true → safePre pr.root.source t' = true :=
  fun pr hpr t' ht hs => parse_safePre_partial x ix inp pr hpr t' ht
    (defCharRefSpansIn_of_all _ _ (charRefSpansIn_of_spansOK _ _ hs))

/-- No proviso for a root whose block-phase tree has no LinkDestination / LinkTitle node. -/
theorem parse_safePre_noDefs (x : PExt) (ix : IExt) (inp : Bytes) :
    ∀ pr ∈ (parseDoc x ix inp).roots, ∀ t', pr.tree = .ok t' →
      (T.nodes (pbToTree pr.root.block)).all (fun w => !(T.isI w IK.linkDest || T.isI w IK.linkTitle)) = true →
      safePre pr.root.source t' = true :=
  fun pr hpr t' ht h => parse_safePre_partial x ix inp pr hpr t' ht (defCharRefSpansIn_of_noDest _ _ h)

/-- **C07 for parser output**: rendering the tree of a parsed root with no tag filter and raw HTML ignored gives bytes
    in the HTML language of C07 — for every external `ext`, soft-break behaviour and reference resolver of the
    configuration (under the span proviso). -/
theorem parse_render_wellformed_partial (x : PExt) (ix : IExt) (inp : Bytes) :
    ∀ pr ∈ (parseDoc x ix inp).roots, ∀ t', pr.tree = .ok t' →
      defCharRefSpansIn pr.root.source (pbToTree pr.root.block) = true →
      ∀ cx : RCtx, cx.src = pr.root.source → cx.filter = none → cx.ignoreRaw = true →
        htmlWellFormed (appendBlock cx [] t') = true := by
  intro pr hpr t' ht hsp cx hsrc hf hraw
  exact CM.Props.C07.render_htmlWellFormed cx hf t'
    (by rw [hsrc]; exact parse_safePre_partial x ix inp pr hpr t' ht hsp) (Or.inl hraw)

/-- … and with `FilterTagGFM`. -/
theorem parse_render_wellformed_gfm_partial (x : PExt) (ix : IExt) (inp : Bytes) :
    ∀ pr ∈ (parseDoc x ix inp).roots, ∀ t', pr.tree = .ok t' →
      defCharRefSpansIn pr.root.source (pbToTree pr.root.block) = true →
      ∀ cx : RCtx, cx.src = pr.root.source → cx.filter = some filterTagGFM → cx.ignoreRaw = true →
        htmlWellFormed (appendBlock cx [] t') = true := by
  intro pr hpr t' ht hsp cx hsrc hf hraw
  exact CM.Props.C07.render_htmlWellFormed_gfm cx hf t'
    (by rw [hsrc]; exact parse_safePre_partial x ix inp pr hpr t' ht hsp) (Or.inl hraw)

/-- The unconditional statements (not proved). -/
def parse_safePre_target : Prop :=
  ∀ (x : PExt) (ix : IExt) (inp : Bytes), ∀ pr ∈ (parseDoc x ix inp).roots, ∀ t', pr.tree = .ok t' →
    safePre pr.root.source t' = true

def parse_render_wellformed_target : Prop :=
  ∀ (x : PExt) (ix : IExt) (inp : Bytes), ∀ pr ∈ (parseDoc x ix inp).roots, ∀ t', pr.tree = .ok t' →
    ∀ cx : RCtx, cx.src = pr.root.source → cx.filter = none → cx.ignoreRaw = true →
      htmlWellFormed (appendBlock cx [] t') = true

/-- Both follow from the block-phase statement `blockphase_safePre_target`. -/
theorem parse_targets_of_blockphase (h : blockphase_safePre_target) :
    parse_safePre_target ∧ parse_render_wellformed_target := by
  have h1 : parse_safePre_target := by
    intro x ix inp pr hpr t' ht
    rw [parseDoc_tree x ix inp pr hpr] at ht
    exact rewriteE_safePre ix _ _ _ t' (h x _ inp pr.root (root_mem_drain x ix inp pr hpr)) ht
  refine ⟨h1, ?_⟩
  intro x ix inp pr hpr t' ht cx hsrc hf hraw
  exact CM.Props.C07.render_htmlWellFormed cx hf t' (by rw [hsrc]; exact h1 x ix inp pr hpr t' ht) (Or.inl hraw)

/-! ### Non-vacuity -/

section Examples

/-- A fenced code block whose info string holds a character reference and whose last line has no line ending (the block
    phase makes the zero-length soft break), then — after a blank line — nothing. -/
def pwSafeDoc : Bytes := Bytes.ofString "```a&#65;b\ncode"

-- one root: FencedCode [InfoString [Text, CharacterReference, Text], Text, SoftLineBreak]
example : (parseDoc exX exIX pwSafeDoc).roots.map (fun pr =>
    (T.nodes (pbToTree pr.root.block)).map (fun u => (u.label.kind, u.label.start, u.label.stop)))
    = [[(BK.fencedCode, 0, 15), (IK.infoString, 3, 10), (IK.text, 3, 4), (IK.charRef, 4, 9), (IK.text, 9, 10),
        (IK.text, 11, 15), (IK.softBreak, 15, 15)]] := by decide +kernel

-- the proviso holds, and the theorems apply
example : ∀ pr ∈ (parseDoc exX exIX pwSafeDoc).roots,
    defCharRefSpansIn pr.root.source (pbToTree pr.root.block) = true ∧ treeOk pr = true := by decide +kernel

example : ∀ pr ∈ (parseDoc exX exIX pwSafeDoc).roots, safePre pr.root.source (finalTree pr) = true :=
  fun pr hpr => parse_safePre_partial_final exX exIX pwSafeDoc pr hpr
    ((by revert pr; decide +kernel : ∀ pr ∈ (parseDoc exX exIX pwSafeDoc).roots, treeOk pr = true) pr hpr)
    ((by revert pr; decide +kernel : ∀ pr ∈ (parseDoc exX exIX pwSafeDoc).roots,
        defCharRefSpansIn pr.root.source (pbToTree pr.root.block) = true) pr hpr)

-- … and, this root holding no link reference definition, without any proviso
example : ∀ pr ∈ (parseDoc exX exIX pwSafeDoc).roots, safePre pr.root.source (finalTree pr) = true :=
  fun pr hpr => parse_safePre_noDefs exX exIX pwSafeDoc pr hpr _
    (tree_of_treeOk ((by revert pr; decide +kernel : ∀ pr ∈ (parseDoc exX exIX pwSafeDoc).roots, treeOk pr = true) pr hpr))
    ((by revert pr; decide +kernel : ∀ pr ∈ (parseDoc exX exIX pwSafeDoc).roots,
        (T.nodes (pbToTree pr.root.block)).all (fun w => !(T.isI w IK.linkDest || T.isI w IK.linkTitle)) = true) pr hpr)

-- C07 for this document: the rendered bytes of the root are in the HTML language
example : ∀ pr ∈ (parseDoc exX exIX pwSafeDoc).roots,
    htmlWellFormed (appendBlock { ext := exX.ext, src := pr.root.source, ignoreRaw := true } [] (finalTree pr)) = true :=
  fun pr hpr => parse_render_wellformed_partial exX exIX pwSafeDoc pr hpr _
    (tree_of_treeOk ((by revert pr; decide +kernel : ∀ pr ∈ (parseDoc exX exIX pwSafeDoc).roots, treeOk pr = true) pr hpr))
    ((by revert pr; decide +kernel : ∀ pr ∈ (parseDoc exX exIX pwSafeDoc).roots,
        defCharRefSpansIn pr.root.source (pbToTree pr.root.block) = true) pr hpr)
    _ rfl rfl rfl

-- the predicate is not trivially true: the same tree over a source in which `[4, 9)` is not a reference
example : ∀ pr ∈ (parseDoc exX exIX pwSafeDoc).roots,
    safePre (Bytes.ofString "```a#&65;b\ncode") (pbToTree pr.root.block) = false := by decide +kernel

-- with a NUL byte in the input: the root's source holds U+FFFD (three bytes) where the buffer held the padding
def pwNulDoc : Bytes := [0x60, 0x60, 0x60, 0x00, 0x26, 0x23, 0x36, 0x35, 0x3B, 0x0A, 0x78]
example : ∀ pr ∈ (parseDoc exX exIX pwNulDoc).roots,
    pr.root.source = [0x60, 0x60, 0x60, 0xEF, 0xBF, 0xBD, 0x26, 0x23, 0x36, 0x35, 0x3B, 0x0A, 0x78] ∧
    charRefSpansIn pr.root.source (pbToTree pr.root.block) = true ∧
    safePre pr.root.source (pbToTree pr.root.block) = true := by decide +kernel

end Examples

end CM.Proofs.PW
