import CM.Model.Stream
/-
Basic facts about the pieces of the stream model (`CM/Model/Stream.lean`): NUL padding, the reader script,
`indexEOL`, and `eolEnd?` as a pure function of (buffer, position, "the reader has reported an error").
-/
namespace CM.Proofs
open CM CM.Model CM.Gen

/-! ### `padNulls` -/

/-- The per-byte expansion of `padNulls`. -/
def padByte (c : UInt8) : Bytes := if c == 0 then List.replicate nullReplacementString.length 0 else [c]

theorem padNulls_zero (b : Bytes) : padNulls b 0 = b.flatMap padByte := by
  unfold padNulls padByte; simp

@[simp] theorem padNulls_nil : padNulls [] 0 = [] := by simp [padNulls]

theorem padNulls_append_zero (a b : Bytes) : padNulls (a ++ b) 0 = padNulls a 0 ++ padNulls b 0 := by
  simp [padNulls_zero]

/-- The only way `readline` calls `padNulls`: the old buffer is kept, the new bytes are padded. -/
theorem padNulls_append_len (a b : Bytes) : padNulls (a ++ b) a.length = a ++ padNulls b 0 := by
  simp [padNulls]

theorem padByte_length_pos (c : UInt8) : 1 ≤ (padByte c).length := by
  unfold padByte; split <;> simp [nullReplacementString]

theorem padNulls_length_ge (b : Bytes) : b.length ≤ (padNulls b 0).length := by
  rw [padNulls_zero]
  induction b with
  | nil => simp
  | cons c t ih =>
    have := padByte_length_pos c
    simp only [List.flatMap_cons, List.length_append, List.length_cons]; omega

theorem padNulls_length_le (b : Bytes) : (padNulls b 0).length ≤ 3 * b.length := by
  rw [padNulls_zero]
  induction b with
  | nil => simp
  | cons c t ih =>
    have : (padByte c).length ≤ 3 := by unfold padByte; split <;> simp [nullReplacementString]
    simp only [List.flatMap_cons, List.length_append, List.length_cons]; omega

/-! ### The reader script -/

theorem RErr.beq_eof_iff (f : RErr) : (f == RErr.eof) = true ↔ f = RErr.eof := by
  cases f <;> simp <;> rfl

/-- Everything the stream proof needs to know about one `Read`. -/
theorem read_spec (r : Reader) (req : Nat) :
    ∃ out e r', r.read req = (out, e, r') ∧ r.data = out ++ r'.data ∧ r'.fin = r.fin ∧ r'.eofWith = r.eofWith ∧
      (e = none ∨ (e = some r.fin ∧ r'.data = [])) ∧
      (e = none → 0 < req → r'.data.length + r'.sched.length < r.data.length + r.sched.length) := by
  obtain ⟨data, sched, eofWith, fin⟩ := r
  unfold Reader.read
  have hb1 : (RErr.eof == RErr.eof) = true := rfl
  have hb2 : ∀ c, (RErr.fail c == RErr.eof) = false := fun _ => rfl
  have hb3 : ∀ c, (RErr.fail c != RErr.eof) = true := fun _ => rfl
  by_cases h1 : (data.isEmpty && fin != .eof) = true
  · simp only [h1, if_true]
    refine ⟨_, _, _, rfl, ?_⟩
    simp at h1
    simp [h1.1]
  · simp only [h1]
    cases sched with
    | nil =>
      refine ⟨_, _, _, rfl, ?_⟩
      simp
      cases fin <;> cases data <;> cases eofWith <;> simp_all <;> omega
    | cons k rest =>
      refine ⟨_, _, _, rfl, ?_⟩
      simp
      cases fin <;> cases data <;> cases eofWith <;> simp_all <;> omega

/-! ### `indexEOL` and `eolEnd?` -/

theorem indexEOL_some {l : Bytes} {k j : Nat} (h : indexEOL l k = some j) : k ≤ j ∧ j < k + l.length := by
  induction l generalizing k with
  | nil => simp [indexEOL] at h
  | cons c t ih =>
    simp only [indexEOL] at h
    split at h
    · cases h; simp
    · have := ih h; simp; omega

theorem indexEOL_append {l : Bytes} {k j : Nat} (t : Bytes) (h : indexEOL l k = some j) :
    indexEOL (l ++ t) k = some j := by
  induction l generalizing k with
  | nil => simp [indexEOL] at h
  | cons c t' ih =>
    simp only [indexEOL, List.cons_append] at h ⊢
    split
    · simp_all
    · simp_all

/-- The line end once the first end-of-line byte has been found at `s`. -/
def eolAt (buf : Bytes) (s : Nat) (fin : Bool) : Option Nat :=
  if buf.getD s 0 == LF then some (s + 1)
  else if s + 1 < buf.length then some (if buf.getD (s + 1) 0 == LF then s + 2 else s + 1)
  else if fin then some buf.length
  else none

/-- `eolEnd?` only looks at the buffer, the position and whether `err` is set. -/
def eolEndB (buf : Bytes) (i : Nat) (fin : Bool) : Option Nat :=
  match indexEOL (buf.drop i) 0 with
  | some k => eolAt buf (i + k) fin
  | none => if fin then some buf.length else none

theorem eolEnd?_eq (p : BP) : eolEnd? p = eolEndB p.buf p.i p.err.isSome := rfl

theorem eolAt_bounds {b : Bytes} {s : Nat} {f : Bool} {e : Nat} (hs : s < b.length) (h : eolAt b s f = some e) :
    e ≤ b.length ∧ s < e := by
  unfold eolAt at h
  by_cases h1 : (b.getD s 0 == LF) = true
  · simp only [h1, if_true, Option.some.injEq] at h; omega
  · simp only [h1] at h
    by_cases h2 : s + 1 < b.length
    · simp only [h2, if_true] at h
      cases h; split <;> omega
    · simp only [h2] at h
      cases f <;> simp at h
      omega

theorem eolAt_true (b : Bytes) (s : Nat) : ∃ e, eolAt b s true = some e := by
  unfold eolAt
  by_cases h1 : (b.getD s 0 == LF) = true
  · simp only [h1]; exact ⟨_, rfl⟩
  · simp only [h1]
    by_cases h2 : s + 1 < b.length
    · simp only [h2]; exact ⟨_, rfl⟩
    · simp only [h2]; exact ⟨_, rfl⟩

theorem eolAt_append {b : Bytes} {s : Nat} {e : Nat} (hs : s < b.length) (h : eolAt b s false = some e)
    (t : Bytes) (f : Bool) : eolAt (b ++ t) s f = some e := by
  unfold eolAt at h ⊢
  have g1 : (b ++ t).getD s 0 = b.getD s 0 := by
    simp [List.getD_eq_getElem?_getD, List.getElem?_append_left hs]
  rw [g1]
  by_cases h1 : (b.getD s 0 == LF) = true
  · simp only [h1, if_true] at h ⊢; exact h
  · simp only [h1] at h ⊢
    by_cases h2 : s + 1 < b.length
    · have g2 : (b ++ t).getD (s + 1) 0 = b.getD (s + 1) 0 := by
        simp [List.getD_eq_getElem?_getD, List.getElem?_append_left h2]
      have h3 : s + 1 < (b ++ t).length := by simp; omega
      rw [g2]
      simp only [h2, h3, if_true] at h ⊢; exact h
    · simp [h2] at h

theorem eolEndB_bounds {b : Bytes} {i : Nat} {f : Bool} {e : Nat} (h : eolEndB b i f = some e) :
    e ≤ b.length ∧ (i < e ∨ (f = true ∧ e = b.length)) := by
  unfold eolEndB at h
  split at h
  · rename_i k hk
    have hb := indexEOL_some hk
    simp only [List.length_drop] at hb
    have := eolAt_bounds (by omega) h
    omega
  · cases f <;> simp at h
    simp [h]

theorem eolEndB_true (b : Bytes) (i : Nat) : ∃ e, eolEndB b i true = some e := by
  unfold eolEndB
  split
  · exact eolAt_true _ _
  · exact ⟨_, rfl⟩

/-- If the line end is decided without the reader's error, appending more data changes nothing. -/
theorem eolEndB_append {b : Bytes} {i : Nat} {e : Nat} (h : eolEndB b i false = some e) (t : Bytes) (f : Bool) :
    eolEndB (b ++ t) i f = some e := by
  unfold eolEndB at h ⊢
  split at h
  · rename_i k hk
    have hb := indexEOL_some hk
    simp only [List.length_drop] at hb
    have hk' : indexEOL ((b ++ t).drop i) 0 = some k := by
      rw [List.drop_append_of_le_length (by omega)]
      exact indexEOL_append _ hk
    rw [hk']
    exact eolAt_append (by omega) h t f
  · simp at h

end CM.Proofs
