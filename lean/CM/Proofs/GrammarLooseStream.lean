import CM.Proofs.GrammarLoose
import CM.Proofs.RefDefSpansMain
import CM.Proofs.BlocksGrammarExamples
/-
C05, block half — looseness, the stream machine: **every root `Parse` delivers (and every root the streaming parser
delivers for an input below the block-size limit) satisfies `PBLoose`**, hence `Spec.grammarAt` holds at every list node
of the exported tree.

The side condition `CutOK` of `makeRoot_L` (re-basing the pending blocks must not make a closed loose list look open) is
discharged with the span invariant of C02 (`PBSpans`): a closed block of the pending blocks ends at or after the end of
the block cut off. The per-line loop is the one of `RefDefSpansStream.parseLines_ok` (same invariants `Sess2`, `BPInv2`),
with the grammar and looseness invariant `LPL` carried along; the result is transferred from the checked line parser
`blocksLPc` to `blocksLP` by `drain_checked_eq_uncond`, and to streaming runs by `C08_blocks_roots`.
-/
namespace CM.Proofs.RDS
open CM CM.Model CM.Gen CM.Proofs.BSp CM.Proofs.BT CM.Proofs.BG CM.Proofs.GL

/-- A closed block of a tree with valid spans in `[lo, hi]` ends at or after `lo`. -/
theorem spans_stop_ge {Q : ParaPred} : ∀ b : PB, ∀ lo hi : Int, PBSpans Q lo hi b →
    ∀ c ∈ pbNodes b, 0 ≤ c.label.stop → lo ≤ c.label.stop := by
  apply PB.ind
  intro l bs is ih lo hi h c hc h0
  rw [pbNodes, List.mem_cons] at hc
  rcases hc with rfl | hc
  · have := PBSpans_closed_bounds h h0
    omega
  · obtain ⟨b, hb, hcb⟩ := mem_pbNodesL hc
    have h' := h
    rw [PBSpans_mk] at h'
    obtain ⟨a1, _, _, _, a5, _⟩ := h'
    obtain ⟨lo', hlo', hsp⟩ := PBSpansL_mem a5 b hb
    have := ih b hb lo' _ hsp c hcb h0
    omega

/-- The side condition of `makeRoot_L` from the spans of the document's children. -/
theorem cutOK_of_spans {po : Bool} {lo hi : Int} {k : PB} {rest : List PB} (hk : PBSpansL QT po lo hi (k :: rest))
    (hkc : 0 ≤ k.label.stop) (hl : KidsL rest) : CutOK k rest := by
  intro b hb c hc hlist hloose
  rw [PBSpansL_cons] at hk
  obtain ⟨lo', hlo', hsp⟩ := PBSpansL_mem hk.2.2 b hb
  have hcl : 0 ≤ c.label.stop := ((looseLocal_iff c.label c.blocks).1 (PBLoose_nodes b (hl b hb) c hc) hlist).2 hloose
  have := spans_stop_ge b lo' hi hsp c hc hcl
  have hn : ((k.label.stop.toNat : Nat) : Int) = k.label.stop := Int.toNat_of_nonneg hkc
  omega

/-- What a delivered root and the pending blocks satisfy. -/
def RootL (r : Root) : Prop := PBGrammar r.block ∧ cck r.block.kind = true ∧ PBLoose r.block

theorem makeRoot_GL {p : BP} {kids : List PB} {r : Root} {p' : BP} {po : Bool} {lo hi : Int}
    (h : makeRoot p kids = some (r, p')) (hk : KidsOK kids) (hl : KidsL kids) (hs : PBSpansL QT po lo hi kids) :
    RootL r ∧ KidsOK p'.blocks ∧ KidsL p'.blocks := by
  have g := makeRoot_G h hk
  have l := makeRoot_L h hl (by
    intro k rest hkr
    subst hkr
    have hko : k.isOpen = false := by
      unfold makeRoot at h
      simp only [] at h
      split at h
      · cases h
      · rename_i hko; simpa using hko
    exact cutOK_of_spans hs ((isOpen_false_iff k).mp hko) (fun b hb => hl b (List.mem_cons_of_mem _ hb)))
  exact ⟨⟨g.1.1, g.1.2, l.1⟩, g.2, l.2⟩

/-- The per-line loop (`RefDefSpansStream.parseLines_ok` with `LPL` carried along). -/
theorem parseLines_L (x : PExt) : ∀ (fuel : Nat) (lp : LP) (ls : Nat) (p : BP), p.err.isSome = true →
    p.i ≤ p.buf.length → p.i = ls + lineLen (p.buf.drop ls) → p.panic ≠ some refDefFail → Sess2 ls p lp → LPL lp →
    ∀ r p', parseLines (blocksLPc x) fuel (lp, true) ls p = (.block r, p') →
      RootL r ∧ KidsOK p'.blocks ∧ KidsL p'.blocks := by
  intro fuel
  induction fuel with
  | zero =>
    intro lp ls p _ _ _ _ _ _ r p' h
    simp [parseLines] at h
  | succ fuel ih =>
    intro lp ls p herr hi hrel hnp hsess hlpl
    obtain ⟨hlp, hspans, hlive, hgood⟩ := hsess
    have hls : ls ≤ p.i := by omega
    have hsl : (p.buf.take p.i).length = p.i := by simp [hi]
    have hnpl := processLine_no_panic x _ (reset_LPInv lp hlp (p.buf.take p.i) ls)
    have hlpl' : LPL (processLine x (lp.reset (p.buf.take p.i) ls)) := blocksLP_line_LPL x lp hlpl (p.buf.take p.i) ls
    have hrl : readline (p.rd.data.length + p.rd.sched.length + 2) p =
        (decide (0 < lineLen (p.buf.drop p.i)), { p with i := p.i + lineLen (p.buf.drop p.i) }) :=
      CM.Model.readline_mem (p.rd.data.length + p.rd.sched.length + 1) p herr hi
    have hi2 : p.i + lineLen (p.buf.drop p.i) ≤ p.buf.length := by
      have := lineLen_le (p.buf.drop p.i)
      simp only [List.length_drop] at this
      omega
    have hgsrc : GoodT (p.buf.take p.i) (ls : Int) lp.root :=
      GoodT_mono (take_prefix_take p.buf hls) (Int.le_refl _) _ hgood
    have hcheck : pbSpans (RefDefSpansOK x (p.buf.take p.i) ↑ls ↑(p.buf.take p.i).length) 0 ↑ls lp.root = true :=
      pbSpans_upgrade x (p.buf.take p.i) ls ls (by rw [hsl]; omega) lp.root 0 (Int.le_refl _) hspans hgsrc
    simp only [parseLines, blocksLPc]
    rw [hcheck]
    simp only [Bool.and_self, if_true, hnpl.1]
    have hLO : LineOK ((p.buf.take p.i).drop ls) := by rw [hrel]; exact lineOK_source p.buf ls
    obtain ⟨r1, r2, r3, r4⟩ := BSp.reset_fields lp (p.buf.take p.i) ls
    have hgi : GI (p.buf.take p.i) (ls : Int) ls (lp.reset (p.buf.take p.i) ls) :=
      ⟨r2, r3, r4, by rw [r1]; exact hgsrc⟩
    have hgood' : GoodT (p.buf.take p.i) (p.i : Int) (processLine x (lp.reset (p.buf.take p.i) ls)).root := by
      have := processLine_st x _ (reset_LPInv lp hlp (p.buf.take p.i) ls).toInv hLO (by rw [hsl]; exact hls) (Int.le_refl _) hgi
      rw [hsl] at this
      exact this
    have hspans' : PBSpans QT 0 p.i (processLine x (lp.reset (p.buf.take p.i) ls)).root ∧
        ((processLine x (lp.reset (p.buf.take p.i) ls)).root.label.stop < 0 ∨
          ((processLine x (lp.reset (p.buf.take p.i) ls)).root = lp.root ∧ lp.root.blocks = [] ∧ ls = p.i ∧ p.buf.drop p.i = []) ∨
          (0 ≤ (processLine x (lp.reset (p.buf.take p.i) ls)).root.label.stop ∧ ls = p.i)) := by
      by_cases hopen : lp.root.label.stop < 0
      · have key := processLine_spans x lp (p.buf.take p.i) ls hlp (by rw [hsl]; exact hls) hopen hcheck
        rw [hsl] at key
        refine ⟨key.1, ?_⟩
        by_cases hro : (processLine x (lp.reset (p.buf.take p.i) ls)).root.label.stop < 0
        · exact Or.inl hro
        · right; right
          refine ⟨by omega, ?_⟩
          have : ¬ ls < p.i := fun hlt => hro (key.2 hlt)
          omega
      · rcases hlive with hl | ⟨hb, hlsi, hdrop⟩
        · exact absurd hl hopen
        · have hdl : (p.buf.take p.i).drop ls = [] := by rw [hlsi]; simp
          have hroot := processLine_dead x lp (p.buf.take p.i) ls hdl (by omega) hb
          rw [hroot]
          refine ⟨?_, Or.inr (Or.inl ⟨rfl, hb, hlsi, hdrop⟩)⟩
          rw [← hlsi]; exact hspans
    generalize processLine x (lp.reset (p.buf.take p.i) ls) = lp' at hnpl hgood' hspans' hlpl' ⊢
    obtain ⟨hsp', hcase⟩ := hspans'
    rcases hr : lp'.root with ⟨l, bs, is⟩
    have hkids : lp'.root.blocks = bs := by rw [hr]; rfl
    simp only [PB.blocks]
    have hsp'' := hsp'
    rw [hr, PBSpans_mk] at hsp''
    obtain ⟨a1, a2, a3, a4, a5, a6⟩ := hsp''
    have hkG : KidsOK bs := by rw [← hkids]; exact kids_of_doc _ hlpl'.lpg.root hlpl'.lpg.g
    have hkL : KidsL bs := by rw [← hkids]; exact kidsL_of_root _ hlpl'.l
    cases hmk : makeRoot p bs with
    | some rp =>
      obtain ⟨r0, p0⟩ := rp
      intro r p' h
      simp only [Prod.mk.injEq, NBOut.block.injEq] at h
      obtain ⟨rfl, rfl⟩ := h
      exact makeRoot_GL hmk hkG hkL a5
    | none =>
      simp only [hrl]
      have hrel' : (p.i + lineLen (p.buf.drop p.i)) = p.i + lineLen (p.buf.drop p.i) := rfl
      apply ih lp' p.i ({ p with i := p.i + lineLen (p.buf.drop p.i) } : BP) herr hi2 hrel' hnp ?_ hlpl'
      refine ⟨hnpl.2, hsp', ?_, hgood'⟩
      rcases hcase with hro | ⟨hroot, hb, hlsi, hdrop⟩ | ⟨hrc, hlsi⟩
      · exact Or.inl hro
      · right
        have h0 : lineLen (p.buf.drop p.i) = 0 := by rw [hdrop]; rfl
        refine ⟨by rw [hroot]; exact hb, ?_, ?_⟩
        · show p.i = p.i + lineLen (p.buf.drop p.i); omega
        · show p.buf.drop (p.i + lineLen (p.buf.drop p.i)) = []
          rw [h0, Nat.add_zero]; exact hdrop
      · right
        have h0 : lineLen (p.buf.drop p.i) = 0 := by
          have : lineLen (p.buf.drop ls) = 0 := by omega
          rw [← hlsi]; exact this
        have hd := lineLen_eq_zero h0
        refine ⟨?_, ?_, ?_⟩
        · rw [hkids]
          cases bs with
          | nil => rfl
          | cons k rest =>
            exfalso
            have hrc' : 0 ≤ l.stop := by rw [hr] at hrc; exact hrc
            have hd1 : decide (l.stop < 0) = false := by simp; omega
            rw [hd1] at a5
            have hkc := allClosed_of_false a5 k (by simp)
            have : k.isOpen = false := (isOpen_false_iff k).mpr hkc
            simp [makeRoot, this] at hmk
        · show p.i = p.i + lineLen (p.buf.drop p.i); omega
        · show p.buf.drop (p.i + lineLen (p.buf.drop p.i)) = []
          rw [h0, Nat.add_zero]; exact hd

/-- The stream state between `NextBlock` calls: `BPInv2`, and the pending blocks satisfy the grammar and `PBLoose`. -/
structure BPInv3 (p : BP) : Prop where
  base : BPInv2 p
  g : KidsOK p.blocks
  l : KidsL p.blocks

theorem nextBlock_L (x : PExt) (p : BP) (hp : BPInv3 p) :
    ∀ r p', nextBlock (blocksLPc x) p = (.block r, p') → RootL r ∧ BPInv3 p' := by
  intro r p' hnb
  have hbase : BPInv2 p' := (nextBlock_ok x p hp.base).2 r p' hnb
  suffices hmain : RootL r ∧ KidsOK p'.blocks ∧ KidsL p'.blocks from ⟨hmain.1, ⟨hbase, hmain.2.1, hmain.2.2⟩⟩
  revert hnb
  unfold nextBlock
  cases hmk : makeRoot p p.blocks with
  | some rp =>
    obtain ⟨r0, p0⟩ := rp
    intro h
    simp only [Prod.mk.injEq, NBOut.block.injEq] at h
    obtain ⟨rfl, rfl⟩ := h
    exact makeRoot_GL hmk hp.g hp.l hp.base.base.blocks
  | none =>
    simp only []
    have hrl : readline (p.rd.data.length + p.rd.sched.length + 2) p =
        (decide (0 < lineLen (p.buf.drop p.i)), { p with i := p.i + lineLen (p.buf.drop p.i) }) :=
      CM.Model.readline_mem (p.rd.data.length + p.rd.sched.length + 1) p hp.base.base.err hp.base.base.ile
    have hi2 : p.i + lineLen (p.buf.drop p.i) ≤ p.buf.length := by
      have := lineLen_le (p.buf.drop p.i)
      simp only [List.length_drop] at this
      have := hp.base.base.ile
      omega
    split
    · -- left-over blocks: continue their session
      simp only [hrl]
      exact parseLines_L x _ _ p.i ({ p with i := p.i + lineLen (p.buf.drop p.i) } : BP) hp.base.base.err hi2 rfl hp.base.np
        (new_sess2 x p.blocks p.i _ hp.base.base.blocks hp.base.good) (new_LPL x p.blocks hp.g hp.l) r p'
    · -- a fresh session
      rename_i hlen
      have hbl : p.blocks = [] := by
        cases hb : p.blocks with
        | nil => rfl
        | cons a t => rw [hb] at hlen; simp at hlen
      split
      · rename_i q' hsb
        intro h
        cases hpn : q'.panic with
        | none => rw [hpn] at h; simp at h
        | some m => rw [hpn] at h; simp at h
      · rename_i q q2 hsb
        obtain ⟨_, hq⟩ := skipBlank_facts2 _ _ _ _ (by exact hp.base.base.err) rfl (by exact hp.base.np) hsb
        obtain ⟨hqi, hqnp⟩ := hq q rfl
        have hf := skipBlank_facts _ _ q q2 (by exact hp.base.base.err) (by simp) hsb
        obtain ⟨q1, q2', q3, _⟩ := hf
        have hqb : q.blocks = [] := by rw [q3]; exact hbl
        rw [hqb]
        exact parseLines_L x _ _ 0 q q1 q2' hqi hqnp
          (new_sess2 x [] 0 q (PBSpansL_nil _ _ _ _) (fun _ h => by cases h))
          (new_LPL x [] (fun _ h => by cases h) (fun _ h => by cases h)) r p'

theorem drain_L (x : PExt) : ∀ (fuel : Nat) (p : BP) (acc : List Root), BPInv3 p → (∀ r ∈ acc, RootL r) →
    ∀ r ∈ (drain (blocksLPc x) fuel p acc).1, RootL r := by
  intro fuel
  induction fuel with
  | zero =>
    intro p acc _ hacc r hr
    simp only [drain, List.mem_reverse] at hr
    exact hacc r hr
  | succ fuel ih =>
    intro p acc hp hacc r hr
    unfold drain at hr
    split at hr
    · rename_i r0 p0 hnb
      have g := nextBlock_L x p hp r0 p0 hnb
      apply ih p0 (r0 :: acc) g.2 _ r hr
      intro r' hr'
      rcases List.mem_cons.1 hr' with rfl | hr'
      · exact g.1
      · exact hacc r' hr'
    · simp only [List.mem_reverse] at hr
      exact hacc r hr

end CM.Proofs.RDS

namespace CM.Proofs
open CM CM.Model CM.Gen
open CM.Proofs.BT CM.Proofs.BG CM.Proofs.GL

/-- **Every root `Parse` delivers satisfies the grammar and `PBLoose`**: at every list block every item has the list's
    `loose` flag. No hypothesis. -/
theorem drain_loose_mem (x : PExt) (fuel : Nat) (source : Bytes) :
    ∀ r ∈ (drain (blocksLP x) fuel (memParser source) []).1, PBGrammar r.block ∧ cck r.block.kind = true ∧ PBLoose r.block := by
  rw [RDS.drain_checked_eq_uncond x source fuel]
  exact RDS.drain_L x fuel (memParser source) []
    ⟨RDS.memParser_inv2 source, fun _ h => (by cases h), fun _ h => (by cases h)⟩ (fun _ h => by cases h)

/-- … and every root the streaming parser delivers, for every read schedule and final reader error, for an input below
    the block-size limit (the hypothesis of the C08 theorem "streaming parse = in-memory parse"). -/
theorem drain_loose_stream (x : PExt) (inp : Bytes) (sched : List Nat) (eofWith : Bool) (fin : RErr) (hsmall : Small inp)
    (fuel : Nat) :
    ∀ r ∈ (drain (blocksLP x) fuel (newBlockParser { data := inp, sched := sched, eofWith := eofWith, fin := fin }) []).1,
      PBGrammar r.block ∧ cck r.block.kind = true ∧ PBLoose r.block := by
  rw [C08_blocks_roots x inp sched eofWith fin hsmall fuel]
  exact drain_loose_mem x fuel inp

/-- The statement in plain words, on the delivered block tree. -/
theorem drain_list_items_loose (x : PExt) (fuel : Nat) (source : Bytes) :
    ∀ r ∈ (drain (blocksLP x) fuel (memParser source) []).1,
      ∀ c ∈ pbNodes r.block, c.kind = BK.list → ∀ i ∈ c.blocks, i.label.loose = c.label.loose :=
  fun r hr => PBLoose_items (drain_loose_mem x fuel source r hr).2.2

/-- `listLoose_target` of `BlocksGrammarExamples.lean` ("not proved: looseness") is a theorem. -/
theorem listLoose : listLoose_target := fun x fuel source => drain_list_items_loose x fuel source

section Examples
example : ∀ r ∈ bgRoots "- a\n\n- b\n> - c\n>   - d\n>\n>   - e\n> - f\n", PBLoose r.block :=
  fun r hr => (drain_loose_mem btX 60 _ r hr).2.2
example : (bgRoots "- a\n\n- b\n> - c\n>   - d\n>\n>   - e\n> - f\n").map
    (fun r => (pbNodes r.block).filterMap (fun c => if c.kind == BK.list then some (c.label.loose, c.blocks.map (·.label.loose)) else none)) =
    [[(true, [true, true])], [(false, [false, false]), (true, [true, true])]] := by decide +kernel
end Examples

end CM.Proofs
