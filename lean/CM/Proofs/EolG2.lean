import CM.Proofs.EolG1
/-
C14 (a), block phase with link reference definitions — part 2: `close` under the invariant `FineT`.
-/
namespace CM.Proofs.EolG
open CM CM.Model CM.Gen CM.Proofs CM.Proofs.RDS CM.Proofs.BSp CM.Proofs.ERd CM.Proofs.BG

section
variable {e X : Bytes} {k : Nat} {bd : Int}

def FineAll (e X : Bytes) (k : Nat) (bd : Int) (L : List PB) : Prop := ∀ b ∈ L, FineT e X k bd b

theorem FineAll.append {a b : List PB} (h1 : FineAll e X k bd a) (h2 : FineAll e X k bd b) : FineAll e X k bd (a ++ b) := by
  intro c hc
  rcases List.mem_append.mp hc with h | h
  · exact h1 c h
  · exact h2 c h

theorem FineAll.single {b : PB} (h : FineT e X k bd b) : FineAll e X k bd [b] := by
  intro c hc; simp only [List.mem_singleton] at hc; subst hc; exact h

theorem fine_refdef (s t : Int) (kids : List Tree) : FineAll e X k bd [mkPB BK.linkRefDef s t kids] := by
  apply FineAll.single
  rw [mkPB]
  exact fineT_of _ _ _ (Or.inr ⟨show BK.linkRefDef ≠ BK.paragraph by decide, show BK.linkRefDef ≠ BK.setextHeading by decide⟩)
    (fun _ h => absurd h List.not_mem_nil)

theorem fine_closed_leaf (l : PLabel) (is : List Tree) (h : 0 ≤ l.stop) : FineAll e X k bd [PB.mk l [] is] :=
  FineAll.single (fineT_of _ _ _ (Or.inl h) (fun _ h => absurd h List.not_mem_nil))

/-- The blocks the loop of `onCloseParagraph` returns for a block that has been given a (non-negative) end. -/
theorem refDefLoop_fine (x : PExt) (src : Bytes) (orphan : Option PB) (fuel : Nat) (r : Rd) (l : PLabel) (is : List Tree)
    (result : List PB) :
    (∀ o, orphan = some o → FineAll e X k bd [o]) → 0 ≤ l.stop → FineAll e X k bd result →
    FineAll e X k bd (refDefLoop x src orphan fuel r l is result) := by
  cases orphan <;> fun_induction refDefLoop x src _ fuel r l is result
  all_goals intro ho hk hres
  all_goals first
    | exact hres.append (fine_closed_leaf _ _ hk)
    | exact hres.append (fine_refdef _ _ _)
    | exact (hres.append (fine_refdef _ _ _)).append (ho _ rfl)
    | exact (hres.append (fine_refdef _ _ _)).append (fine_closed_leaf _ _ (by exact hk))
    | (rename_i ih; exact ih ho (by exact hk) (hres.append (fine_refdef _ _ _)))

/-- `onCloseParagraph` on a paragraph that has been given a non-negative end: the blocks returned are fine. -/
theorem onClose_fine (x : PExt) (src : Bytes) (l : PLabel) (bs : List PB) (is : List Tree) (hk : l.kind = BK.paragraph)
    (h0 : 0 ≤ l.stop) (hbs : ∀ c ∈ bs, FineT e X k bd c) : FineAll e X k bd (onCloseParagraph x src (.mk l bs is)) := by
  cases is with
  | nil =>
    unfold onCloseParagraph
    exact FineAll.single (fineT_of _ _ _ (Or.inl h0) hbs)
  | cons first rest =>
    rw [onCloseParagraph_cons]
    have hno : (if (l.kind == BK.setextHeading) = true then some (orphanOf src l (first :: rest)) else none) = none := by
      rw [hk]; rfl
    rw [hno]
    exact refDefLoop_fine x src none _ _ l _ [] (fun _ h => by cases h) h0 (fun _ h => absurd h List.not_mem_nil)

/-- **`close` keeps `FineT`** (for a non-negative end position). -/
theorem closeBlock_fine (x : PExt) (src : Bytes) (endPos : Int) (h0 : 0 ≤ endPos) : ∀ b : PB, FineT e X k bd b →
    FineAll e X k bd (closeBlock x src endPos b) := by
  apply BG.PB.ind
  intro l bs is ih h
  rw [closeBlock]
  split
  · exact FineAll.single h
  rename_i hopen
  have hop : l.stop < 0 := by omega
  simp only []
  rw [FineT_mk] at h
  have hns : l.kind ≠ BK.setextHeading := h.1.2 hop
  have hcl : ∀ c ∈ closeLast x src endPos bs, FineT e X k bd c := by
    cases hgl : bs.getLast? with
    | none => rw [closeLast_none x src endPos bs hgl]; exact h.2
    | some c =>
      rw [closeLast_some x src endPos bs c hgl]
      have hcm : c ∈ bs := List.mem_of_getLast? hgl
      intro c' hc'
      rcases List.mem_append.mp hc' with h' | h'
      · exact h.2 c' ((List.dropLast_sublist bs).subset h')
      · exact ih c hcm (h.2 c hcm) c' h'
  split
  · rename_i hk
    have hkl : l.kind = BK.list := by simpa using hk
    split
    · apply FineAll.single
      apply fineT_of _ _ _ (Or.inl h0)
      intro b hb'
      rw [List.mem_map] at hb'
      obtain ⟨c, hc, rfl⟩ := hb'
      exact FineT_setLabel (f := fun il => { il with loose := true }) (fun _ => rfl) (fun _ => rfl) (hcl c hc)
    · exact FineAll.single (fineT_of _ _ _ (Or.inl h0) hcl)
  split
  · rename_i hk
    have hkp : l.kind = BK.paragraph := by
      simp only [Bool.or_eq_true, beq_iff_eq] at hk
      rcases hk with hk | hk
      · exact hk
      · exact absurd hk hns
    exact onClose_fine x src { l with stop := endPos } bs is hkp h0 h.2
  split
  · obtain ⟨is', heq, _⟩ := indentedOnClose_eq src { l with stop := endPos } bs is
    rw [heq]
    exact FineAll.single (fineT_of _ _ _ (Or.inl h0) h.2)
  · exact FineAll.single (fineT_of _ _ _ (Or.inl h0) hcl)

/-- **`close` commutes with the position map on a fine tree.** -/
theorem closeBlock_mapS (x : PExt) (he : StdEol e) (hcr : NoCR X) (endPos : Int) :
    ∀ b : PB, FineS e X k bd b → closeBlock x (toEol e (X.take k)) (eolPosZ e X endPos) (mapPB (eolPosZ e X) b) =
      mapPBs (eolPosZ e X) (closeBlock x (X.take k) endPos b) := by
  apply BG.PB.ind
  intro l bs is ih hf
  rw [FineS_mk] at hf
  have hlast : closeLast x (toEol e (X.take k)) (eolPosZ e X endPos) (mapPBs (eolPosZ e X) bs) =
      mapPBs (eolPosZ e X) (closeLast x (X.take k) endPos bs) := by
    cases hgl : bs.getLast? with
    | none =>
      have : bs = [] := by simpa using hgl
      subst this
      rw [mapPBs_nil, closeLast_nil, closeLast_nil, mapPBs_nil]
    | some c =>
      have hcm : c ∈ bs := List.mem_of_getLast? hgl
      rw [closeLast_some x _ _ bs c hgl, closeLast_some x _ _ (mapPBs (eolPosZ e X) bs) (mapPB (eolPosZ e X) c)
        (by rw [mapPBs_getLast?, hgl]; rfl), mapPBs_append, mapPBs_dropLast, ih c hcm (hf.2 c hcm)]
  rw [mapPB, closeBlock, closeBlock]
  have hstop : (eolPosZ e X l.stop ≥ 0) ↔ (l.stop ≥ 0) := eolPosZ_nonneg_iff e X l.stop
  by_cases hs : l.stop ≥ 0
  · rw [if_pos (hstop.2 hs), if_pos hs]; rfl
  · rw [if_neg (fun h => hs (hstop.1 h)), if_neg hs]
    simp only []
    by_cases hk1 : (l.kind == BK.list) = true
    · rw [if_pos hk1, if_pos hk1]
      have hll := listLooseAtClose_map (eolPosZ e X) { l with stop := endPos } (eolPosZ e X l.start) (eolPosZ e X endPos) bs
      simp only [] at hll
      rw [hll]
      by_cases hlo : listLooseAtClose { l with stop := endPos } bs = true
      · rw [if_pos hlo, if_pos hlo, hlast, ← mapPBs_map_setLabel _ posFree_loose]; rfl
      · rw [if_neg hlo, if_neg hlo, hlast]; rfl
    · rw [if_neg hk1, if_neg hk1]
      by_cases hk2 : (l.kind == BK.paragraph || l.kind == BK.setextHeading) = true
      · rw [if_pos hk2, if_pos hk2]
        have hop : l.stop < 0 := by omega
        have hkp : l.kind = BK.paragraph ∨ l.kind = BK.setextHeading := by
          simpa only [Bool.or_eq_true, beq_iff_eq] using hk2
        have := onCloseParagraph_sim (e := e) (X := X) (k := k) x he hcr { l with stop := endPos } bs is (hf.1 hop hkp).fine
        rw [mapPB] at this
        exact this
      · rw [if_neg hk2, if_neg hk2]
        by_cases hk3 : (l.kind == BK.indentedCode) = true
        · rw [if_pos hk3, if_pos hk3]
          have := indentedOnClose_map (X := X) he k (.mk { l with stop := endPos } bs is)
          rw [mapPB] at this
          rw [this]; rfl
        · rw [if_neg hk3, if_neg hk3, hlast]; rfl

theorem closeBlock_mapG (x : PExt) (he : StdEol e) (hcr : NoCR X) (endPos : Int) (b : PB) (h : FineT e X k bd b) :
    closeBlock x (toEol e (X.take k)) (eolPosZ e X endPos) (mapPB (eolPosZ e X) b) =
      mapPBs (eolPosZ e X) (closeBlock x (X.take k) endPos b) := closeBlock_mapS x he hcr endPos b h.toS

end

end CM.Proofs.EolG
