import CM.Proofs.FilterRenderWalk
import CM.Props.C10
/-
C17 (b) for the WHOLE HTML the renderer writes.

With a tag filter `p` set (`cx.filter = some p`), everything `AppendBlock` / `Render` writes is `sitesOK p`
(no `<` + letter whose name candidate `p` rejects), hence — for name-closed `p`, by `startTags_of_sitesOK` — an
HTML tokenizer reading the whole output emits no start tag with a rejected name. This holds for EVERY tree (not
only parser output), every source, every `SoftBreakBehavior`, `IgnoreRaw` on or off, every reference map and
entity decoder, under one decidable tree condition, `rawSeamsOK cx t`:

  the output is a concatenation of segments; all segments but three kinds are *closed* — a renderer tag that
  went through the filter and ends in `>`, escaped text (no `<`), a literal separator. The three others are
  source slices copied to the output: a raw HTML run (through the stateless filter), a character reference and
  a preserved soft line break (both verbatim). `rawSeamsOK` asks of each copied slice `r` (`inlineCopyOK`):

    * (charRef / soft break only — raw HTML is made site-free by the filter) `sitesOK p r`;
    * if the written text ends in an unfinished name candidate `<` nameChar*, the NEXT byte the renderer
      writes — whatever node or closing tag it comes from — is not a name character.

  Both clauses are necessary on synthetic trees (examples below: `<scr` | `ipt>`, and a "character reference"
  node spanning `<script>`).

Why parser output satisfies it (`rawSeamsOK_of_simple`, `rawSeamsOK_of_safePre`): a character reference node
spans `&…;` and a soft break node spans a line ending (`Spec.safePre`, checked on every parser tree by C13 /
`renderPre`) — no `<` at all. An inline raw HTML node (child of an `HTMLTagKind` node) ends either in the `>` that
ends the tag or, when the tag continues on an indented next line, in the line ending before the indent node; the
raw nodes of an HTML block are the lines of the block *with* their line endings. So no raw slice ends in
`<` nameChar* — with ONE exception: the very last line of the input may lack a line ending, so an HTML block at the
end of the document may end in, say, `<scr`. That is why the condition looks at what follows instead of simply
requiring `endsInCandidate r = false`: after an HTML block the renderer writes nothing for the block itself
(`postBlock` is empty for `HTMLBlockKind`), and since this was the last line of the input, no sibling follows;
what follows is the end of the output or the closing tags of the enclosing containers (`</li>`, `</blockquote>`,
or their `&lt;/…` escapes), and between root blocks `Render` writes "\n\n". None of these starts with a name
character, so `rawSeamsOK` holds (example `lastLine` below), while the cruder source-only condition
`rawSeamsSimple` fails.
-/
namespace CM.Proofs
open CM CM.Model CM.Spec CM.Gen Node
open FilterSites

/-! ### One root block -/

/-- The general form: appending the rendering of `t` to a site-free `dst` whose end is not continued. -/
theorem render_sitesOK_dst (cx : RCtx) (p : Bytes → Bool) (hf : cx.filter = some p) (dst : Bytes) (t : Tree)
    (hdst : SeamTo p dst (startsNameChar (renderSpec cx t))) (hseam : rawSeamsOK cx t = true) :
    sitesOK p (appendBlock cx dst t) = true := by
  rw [Props.C10.render_eq_spec]
  apply hdst.sitesOK_append
  have := renderNode_sites p cx hf t none none (-1) [] rfl hseam
  simpa [renderSpec] using this

/-- Everything `AppendBlock` writes for a root block is site-free. -/
theorem render_sitesOK (cx : RCtx) (p : Bytes → Bool) (hf : cx.filter = some p) (t : Tree)
    (hseam : rawSeamsOK cx t = true) : sitesOK p (appendBlock cx [] t) = true :=
  render_sitesOK_dst cx p hf [] t (SeamTo.nil p _) hseam

/-- C17 (b), whole output of `AppendBlock`: the tokenizer sees no start tag with a rejected name. -/
theorem render_no_rejected_start_tag (cx : RCtx) (p : Bytes → Bool) (hf : cx.filter = some p) (hp : NameClosed p)
    (t : Tree) (hseam : rawSeamsOK cx t = true) :
    ∀ name ∈ Spec.startTags (appendBlock cx [] t), p name = false :=
  startTags_of_sitesOK p hp _ (render_sitesOK cx p hf t hseam)

/-! ### `Render`: a list of root blocks joined by blank lines -/

theorem renderAll_sitesOK_aux (mk : Bytes → RCtx) (p : Bytes → Bool) : ∀ (blocks : List (Bytes × Tree)) (i : Nat),
    (∀ b ∈ blocks, (mk b.1).filter = some p) → (∀ b ∈ blocks, rawSeamsOK (mk b.1) b.2 = true) →
    sitesOK p (renderAll mk blocks i) = true ∧ (i > 0 → startsNameChar (renderAll mk blocks i) = false)
  | [], _, _, _ => ⟨rfl, fun _ => rfl⟩
  | (src, t) :: rest, i, hf, hs => by
    have ih := renderAll_sitesOK_aux mk p rest (i + 1) (fun b hb => hf b (by simp [hb]))
      (fun b hb => hs b (by simp [hb]))
    have hnc := ih.2 (by omega)
    have hf' : (mk src).filter = some p := hf (src, t) (by simp)
    have hs' : rawSeamsOK (mk src) t = true := hs (src, t) (by simp)
    have hbody : sitesOK p (renderSpec (mk src) t ++ renderAll mk rest (i + 1)) = true := by
      apply renderNode_sites p (mk src) hf' t none none (-1) _ ih.1
      rw [hnc]; exact hs'
    simp only [renderAll, Props.C10.render_eq_spec, List.append_assoc]
    constructor
    · exact (Closed.of_noLt p _ (by split <;> decide +kernel)).sitesOK_append hbody
    · intro hi
      simp only [hi, if_true, List.cons_append, startsNameChar]
      decide +kernel

/-- Everything `Render` writes (one `AppendBlock` per root block, "\n\n" in between) is site-free. -/
theorem renderAll_sitesOK (mk : Bytes → RCtx) (p : Bytes → Bool) (blocks : List (Bytes × Tree))
    (hf : ∀ b ∈ blocks, (mk b.1).filter = some p) (hseam : ∀ b ∈ blocks, rawSeamsOK (mk b.1) b.2 = true) :
    sitesOK p (renderAll mk blocks 0) = true :=
  (renderAll_sitesOK_aux mk p blocks 0 hf hseam).1

/-- C17 (b), whole output of `Render`. -/
theorem renderAll_no_rejected_start_tag (mk : Bytes → RCtx) (p : Bytes → Bool) (hp : NameClosed p)
    (blocks : List (Bytes × Tree))
    (hf : ∀ b ∈ blocks, (mk b.1).filter = some p) (hseam : ∀ b ∈ blocks, rawSeamsOK (mk b.1) b.2 = true) :
    ∀ name ∈ Spec.startTags (renderAll mk blocks 0), p name = false :=
  startTags_of_sitesOK p hp _ (renderAll_sitesOK mk p blocks hf hseam)

/-- The same about the specification-level reading (`renderAllSpec`: blocks joined by "\n\n"). -/
theorem renderAllSpec_no_rejected_start_tag (mk : Bytes → RCtx) (p : Bytes → Bool) (hp : NameClosed p)
    (blocks : List (Bytes × Tree))
    (hf : ∀ b ∈ blocks, (mk b.1).filter = some p) (hseam : ∀ b ∈ blocks, rawSeamsOK (mk b.1) b.2 = true) :
    ∀ name ∈ Spec.startTags (renderAllSpec mk blocks), p name = false := by
  rw [← Props.C10.renderAll_join]
  exact renderAll_no_rejected_start_tag mk p hp blocks hf hseam

/-- With the GFM predicate: no raw-text element can be opened anywhere in the page. -/
theorem renderAll_no_rejected_start_tag_gfm (mk : Bytes → RCtx) (blocks : List (Bytes × Tree))
    (hf : ∀ b ∈ blocks, (mk b.1).filter = some filterTagGFM)
    (hseam : ∀ b ∈ blocks, rawSeamsOK (mk b.1) b.2 = true) :
    ∀ name ∈ Spec.startTags (renderAll mk blocks 0), filterTagGFM name = false :=
  renderAll_no_rejected_start_tag mk filterTagGFM filterTagGFM_nameClosed blocks hf hseam

/-! ### A source-only sufficient condition, and parser output -/

/-- Context-free, per node, on the source slices only: a raw HTML run does not end in `<` nameChar*; a character
    reference and a soft break contain no `<`. -/
def simpleAt (src : Bytes) (t : Tree) : Bool :=
  (if T.isI t IK.rawHTML then !endsInCandidate (slice src t) else true) &&
  (if T.isI t IK.charRef || T.isI t IK.softBreak then noLt (slice src t) else true)

def rawSeamsSimple (src : Bytes) (root : Tree) : Bool := (T.nodes root).all (simpleAt src)

theorem copyOK_of_simpleAt (cx : RCtx) (t : Tree) (nc : Bool) (h : simpleAt cx.src t = true) : copyOK cx t nc = true := by
  unfold copyOK
  cases hb : t.label.isBlock with
  | true => rfl
  | false =>
    simp only [Bool.false_or]
    simp only [simpleAt, T.isI, hb, Bool.not_false, Bool.true_and, Bool.and_eq_true] at h
    unfold inlineCopyOK
    simp only []
    have hverb : noLt (slice cx.src t) = true → verbatimOK (filterPred cx) (slice cx.src t) nc = true := by
      intro hn
      simp [verbatimOK, sitesOK_of_noLt _ _ hn, endsInCandidate_of_noLt _ hn]
    split
    · rename_i hk
      simp only [hk, Bool.true_or, if_true] at h
      exact hverb h.2
    split
    · rename_i hk
      simp only [hk, if_true, Bool.not_eq_true'] at h
      have := endsInCandidate_filterLoop (filterPred cx) _ h.1
      simp [filterRaw, this]
    split
    · rename_i hk
      simp only [hk, Bool.or_true, if_true] at h
      simp [hverb h.2]
    · rfl

mutual
theorem seamsNode_of_simple (cx : RCtx) (t : Tree) (parent block : Option Tree) (index : Int) (nc : Bool)
    (h : (T.nodes t).all (simpleAt cx.src) = true) : seamsNode cx t parent block index nc = true := by
  match t with
  | .node l cs =>
    simp only [T.nodes, List.all_cons, Bool.and_eq_true] at h
    simp only [seamsNode]
    split
    · exact seamsForest_of_simple cx _ _ cs 0 _ h.2
    · exact copyOK_of_simpleAt cx _ nc h.1
theorem seamsForest_of_simple (cx : RCtx) (parent : Tree) (block : Option Tree) (cs : List Tree) (i : Nat) (nc : Bool)
    (h : (T.nodesL cs).all (simpleAt cx.src) = true) : seamsForest cx parent block cs i nc = true := by
  match cs with
  | [] => rfl
  | c :: cs =>
    simp only [T.nodesL, List.all_append, Bool.and_eq_true] at h
    simp only [seamsForest, Bool.and_eq_true]
    exact ⟨seamsNode_of_simple cx c _ _ _ _ h.1, seamsForest_of_simple cx parent block cs (i + 1) nc h.2⟩
end

/-- The source-only condition implies the tree condition, in every configuration. -/
theorem rawSeamsOK_of_simple (cx : RCtx) (t : Tree) (h : rawSeamsSimple cx.src t = true) : rawSeamsOK cx t = true :=
  seamsNode_of_simple cx t none none (-1) false h

theorem noLt_of_charRefShape (s : Bytes) (h : charRefShape s = true) : noLt s = true := by
  cases s with
  | nil => simp [charRefShape] at h
  | cons a rest =>
    simp only [charRefShape, Bool.and_eq_true, beq_iff_eq, decide_eq_true_eq] at h
    obtain ⟨⟨⟨ha, hlen⟩, hlast⟩, hall⟩ := h
    have hne : rest ≠ [] := by intro h0; subst h0; simp at hlen
    have hsplit := List.dropLast_concat_getLast hne
    have hl : rest.getLast hne = 0x3B := by
      rw [List.getLast?_eq_some_getLast hne] at hlast
      exact Option.some.inj hlast
    rw [noLt_iff]
    intro c hc
    simp only [List.mem_cons] at hc
    rcases hc with rfl | hc
    · rw [ha]; decide
    · rw [← hsplit, List.mem_append, List.mem_singleton] at hc
      rcases hc with hc | rfl
      · have := List.all_eq_true.mp hall c hc
        intro h0; subst h0
        revert this; decide +kernel
      · rw [hl]; decide

theorem noLt_of_eol (s : Bytes) (h : s.all (fun c => c == LF || c == CR) = true) : noLt s = true := by
  rw [noLt_iff]
  intro c hc
  have := List.all_eq_true.mp h c hc
  simp only [Bool.or_eq_true, beq_iff_eq] at this
  rcases this with rfl | rfl <;> decide

/-- All inline raw HTML runs end outside a name candidate (they end in `>` or in a line ending). -/
def rawClosed (src : Bytes) (root : Tree) : Bool :=
  (T.nodes root).all fun t => if T.isI t IK.rawHTML then !endsInCandidate (slice src t) else true

/-- Parser output: `Spec.safePre` (character references are `&…;`, soft breaks are line endings — the C07
    hypothesis, checked on every parser tree) and raw runs that end in `>` / a line ending. -/
theorem rawSeamsOK_of_safePre (cx : RCtx) (t : Tree) (hpre : safePre cx.src t = true)
    (hraw : rawClosed cx.src t = true) : rawSeamsOK cx t = true := by
  apply rawSeamsOK_of_simple
  simp only [rawSeamsSimple, safePre, rawClosed, List.all_eq_true] at hpre hraw ⊢
  intro n hn
  have h1 := hpre n hn
  have h2 := hraw n hn
  simp only [safePreAt, Bool.and_eq_true] at h1
  simp only [simpleAt, Bool.and_eq_true]
  refine ⟨h2, ?_⟩
  cases hc : T.isI n IK.charRef with
  | true =>
    simp only [Bool.true_or, if_true]
    have := h1.1; rw [hc] at this
    exact noLt_of_charRefShape _ this
  | false =>
    cases hs : T.isI n IK.softBreak with
    | true =>
      simp only [Bool.or_true, if_true]
      have := h1.2; rw [hs] at this
      exact noLt_of_eol _ this
    | false => simp

/-- Raw runs that end in a byte that is neither a name character nor `<` (e.g. `>` or a line ending) are closed. -/
theorem endsInCandidate_of_getLast (r : Bytes) (c : UInt8) (h : r.getLast? = some c) (hc : nameChar c = false)
    (hlt : c ≠ 0x3C) : endsInCandidate r = false := by
  have hne : r ≠ [] := by intro h0; subst h0; simp at h
  have hsplit := List.dropLast_concat_getLast hne
  rw [List.getLast?_eq_some_getLast hne] at h
  rw [← hsplit, Option.some.inj h]
  exact endsInCandidate_append_singleton _ c hc hlt

/-! ### Examples (kernel evaluation) -/

private def bb (s : String) : Bytes := s.toUTF8.toList
/-- A renderer configuration with the GFM tag filter for the source `src`. -/
private def cxG (src : Bytes) : RCtx := { ext := ⟨id⟩, src := src, filter := some filterTagGFM }
private def I (k : Nat) (a b : Int) (cs : List Tree := []) : Tree :=
  .node { isBlock := false, kind := k, start := a, stop := b } cs
private def B (k : Nat) (a b : Int) (cs : List Tree := []) : Tree :=
  .node { isBlock := true, kind := k, start := a, stop := b } cs

-- (1) Non-vacuity: the cross-line bypass input of the old stateful filter, as an HTML block of two raw lines.
private def src1 : Bytes := bb "<a x=\n'><!--'><script>alert(1)</script>-->\n"
private def t1 : Tree := B BK.htmlBlock 0 43 [I IK.rawHTML 0 6, I IK.rawHTML 6 43]
example : slice src1 (I IK.rawHTML 0 6) = bb "<a x=\n" ∧
    slice src1 (I IK.rawHTML 6 43) = bb "'><!--'><script>alert(1)</script>-->\n" := by decide +kernel
example : rawSeamsOK (cxG src1) t1 = true := by decide +kernel
example : appendBlock (cxG src1) [] t1 = bb "<a x=\n'><!--'>&lt;script>alert(1)</script>-->\n" := by decide +kernel
example : Spec.startTags (appendBlock (cxG src1) [] t1) = [bb "a"] := by decide +kernel
/-- The theorems apply to it. -/
example : sitesOK filterTagGFM (appendBlock (cxG src1) [] t1) = true :=
  render_sitesOK (cxG src1) filterTagGFM rfl t1 (by decide +kernel)
example : ∀ name ∈ Spec.startTags (appendBlock (cxG src1) [] t1), filterTagGFM name = false :=
  render_no_rejected_start_tag (cxG src1) filterTagGFM rfl filterTagGFM_nameClosed t1 (by decide +kernel)
/-- Without the filter the tokenizer sees the script element. -/
example : Spec.startTags (appendBlock { cxG src1 with filter := none } [] t1) = [bb "a", bb "script"] := by
  decide +kernel

-- (2) The tree condition is necessary: a raw run ending in `<scr` followed by a raw run starting with `ipt>`.
private def src2 : Bytes := bb "<script>\n"
private def t2 : Tree := B BK.htmlBlock 0 9 [I IK.rawHTML 0 4, I IK.rawHTML 4 9]
example : rawSeamsOK (cxG src2) t2 = false := by decide +kernel
example : appendBlock (cxG src2) [] t2 = bb "<script>\n" := by decide +kernel
example : Spec.startTags (appendBlock (cxG src2) [] t2) = [bb "script"] := by decide +kernel

/-- The statements without the tree condition. -/
def render_sitesOK_target : Prop :=
  ∀ (cx : RCtx) (p : Bytes → Bool), cx.filter = some p → ∀ t : Tree, sitesOK p (appendBlock cx [] t) = true
def render_no_rejected_start_tag_target : Prop :=
  ∀ (cx : RCtx) (p : Bytes → Bool), cx.filter = some p → NameClosed p → ∀ t : Tree,
    ∀ name ∈ Spec.startTags (appendBlock cx [] t), p name = false
/-- Both are false on synthetic trees. -/
example : ¬ render_sitesOK_target := by
  intro h
  exact absurd (h (cxG src2) filterTagGFM rfl t2) (by decide +kernel)
example : ¬ render_no_rejected_start_tag_target := by
  intro h
  exact absurd (h (cxG src2) filterTagGFM rfl filterTagGFM_nameClosed t2 (bb "script") (by decide +kernel))
    (by decide +kernel)

-- … followed by a text node starting with `ipt>`: the text is escaped, `sitesOK` still fails (the tokenizer's
-- tag name is `script&gt;<`, which the predicate does not know).
private def t2b : Tree := B BK.paragraph 0 8 [I IK.rawHTML 0 4, I IK.text 4 8]
example : rawSeamsOK (cxG src2) t2b = false := by decide +kernel
example : appendBlock (cxG src2) [] t2b = bb "<p><script&gt;</p>" := by decide +kernel
example : sitesOK filterTagGFM (appendBlock (cxG src2) [] t2b) = false := by decide +kernel

-- (3) The clauses on character references and preserved soft breaks are necessary: both are copied verbatim.
private def t2c : Tree := B BK.paragraph 0 8 [I IK.charRef 0 8]
private def t2d : Tree := B BK.paragraph 0 8 [I IK.softBreak 0 8]
example : rawSeamsOK (cxG src2) t2c = false ∧ rawSeamsOK (cxG src2) t2d = false := by decide +kernel
example : appendBlock (cxG src2) [] t2c = bb "<p><script></p>" := by decide +kernel
example : Spec.startTags (appendBlock (cxG src2) [] t2c) = [bb "p", bb "script"] := by decide +kernel
example : Spec.startTags (appendBlock (cxG src2) [] t2d) = [bb "p", bb "script"] := by decide +kernel
/-- With `SoftBreakSpace` the soft break's span is not copied, and the condition does not look at it. -/
example : rawSeamsOK { cxG src2 with soft := 1 } t2d = true := by decide +kernel
example : appendBlock { cxG src2 with soft := 1 } [] t2d = bb "<p> </p>" := by decide +kernel

-- (4) The last line of the input without a line ending: an HTML block ending in `<scr` inside a block quote.
-- What follows is a closing tag, so the condition holds; the source-only condition does not.
private def src3 : Bytes := bb "> <scr"
private def lastLine : Tree := B BK.blockQuote 0 6 [B BK.htmlBlock 2 6 [I IK.rawHTML 2 6]]
example : rawSeamsOK (cxG src3) lastLine = true ∧ rawSeamsSimple src3 lastLine = false := by decide +kernel
example : appendBlock (cxG src3) [] lastLine = bb "<blockquote><scr</blockquote>" := by decide +kernel
example : Spec.startTags (appendBlock (cxG src3) [] lastLine) = [bb "blockquote", bb "scr<"] := by decide +kernel
example : ∀ name ∈ Spec.startTags (appendBlock (cxG src3) [] lastLine), filterTagGFM name = false :=
  render_no_rejected_start_tag (cxG src3) filterTagGFM rfl filterTagGFM_nameClosed lastLine (by decide +kernel)

-- (5) `Render` on three root blocks: a paragraph (emphasis, a two-line inline tag with an indent node, a character
-- reference, a soft break, text `<scr`), the HTML block of (1), and a list whose item is an HTML block on the
-- last line of the input.
private def srcA : Bytes := bb "*e* <b\n  x> &amp;\n<scr"
private def tA : Tree :=
  B BK.paragraph 0 22
    [I IK.emphasis 0 3 [I IK.text 1 2], I IK.text 3 4,
     I IK.htmlTag 4 11
       [I IK.rawHTML 4 7, .node { isBlock := false, kind := IK.indent, start := 7, stop := 9, indent := 2 } [],
        I IK.rawHTML 9 11],
     I IK.text 11 12, I IK.charRef 12 17, I IK.softBreak 17 18, I IK.text 18 22]
private def srcC : Bytes := bb "- <div"
private def tC : Tree :=
  .node { kind := BK.list, start := 0, stop := 6, char := 0x2D }
    [.node { kind := BK.listItem, start := 0, stop := 6, char := 0x2D }
      [B BK.listMarker 0 1, B BK.htmlBlock 2 6 [I IK.rawHTML 2 6]]]
private def doc : List (Bytes × Tree) := [(srcA, tA), (src1, t1), (srcC, tC)]

private theorem doc_seams : ∀ b ∈ doc, rawSeamsOK (cxG b.1) b.2 = true := by
  have : doc.all (fun b => rawSeamsOK (cxG b.1) b.2) = true := by decide +kernel
  exact fun b hb => List.all_eq_true.mp this b hb

example : renderAll cxG doc 0 =
    bb "<p><em>e</em> <b\n  x> &amp;\n&lt;scr</p>\n\n<a x=\n'><!--'>&lt;script>alert(1)</script>-->\n\n\n<ul><li><div</li></ul>" := by
  decide +kernel
example : Spec.startTags (renderAll cxG doc 0) = [bb "p", bb "em", bb "b", bb "a", bb "ul", bb "li", bb "div<"] := by
  decide +kernel
example : sitesOK filterTagGFM (renderAll cxG doc 0) = true :=
  renderAll_sitesOK cxG filterTagGFM doc (fun _ _ => rfl) doc_seams
example : ∀ name ∈ Spec.startTags (renderAll cxG doc 0), filterTagGFM name = false :=
  renderAll_no_rejected_start_tag_gfm cxG doc (fun _ _ => rfl) doc_seams
/-- The first two blocks also satisfy the source-only condition; the third (last line without a line ending) only
    the finer one. -/
example : doc.map (fun b => rawSeamsSimple b.1 b.2) = [true, true, false] := by decide +kernel
example : rawSeamsOK (cxG srcA) tA = true := rawSeamsOK_of_simple (cxG srcA) tA (by decide +kernel)
example : safePre srcA tA = true ∧ rawClosed srcA tA = true := by decide +kernel
example : rawSeamsOK (cxG srcA) tA = true :=
  rawSeamsOK_of_safePre (cxG srcA) tA (by decide +kernel) (by decide +kernel)
/-- Other configurations: `IgnoreRaw`, `SoftBreakHarden`. -/
example : renderAll (fun s => { cxG s with soft := 2, ignoreRaw := true }) doc 0 =
    bb "<p><em>e</em>    &amp;<br>\n&lt;scr</p>\n\n\n\n<ul><li></li></ul>" := by decide +kernel
example : ∀ name ∈ Spec.startTags (renderAll (fun s => { cxG s with soft := 2, ignoreRaw := true }) doc 0),
    filterTagGFM name = false :=
  renderAll_no_rejected_start_tag_gfm _ doc (fun _ _ => rfl) (by
    have : doc.all (fun b => rawSeamsOK { cxG b.1 with soft := 2, ignoreRaw := true } b.2) = true := by decide +kernel
    exact fun b hb => List.all_eq_true.mp this b hb)
/-- Unfiltered, the page contains the script element. -/
example : Spec.startTags (renderAll (fun s => { cxG s with filter := none }) doc 0) =
    [bb "p", bb "em", bb "b", bb "a", bb "script", bb "ul", bb "li", bb "div<"] := by decide +kernel

end CM.Proofs
