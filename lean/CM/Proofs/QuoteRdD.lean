import CM.Proofs.QuoteRdC
import CM.Proofs.RefDefSpansRd3
/-
C09, `onCloseParagraph` with `[` (4): `parseLinkLabel`, `parseLinkDestination`, `parseLinkTitle` on both sides in
lockstep: both fail, or both succeed with corresponding spans.
-/
namespace CM.Proofs.Quote
open CM CM.Model CM.Gen

variable {E : Env} {is is' : List Tree}

theorem valid_of {a b : Int} (h0 : 0 ≤ a) (h : a ≤ b) : (SpanI.mk a b).isValid = true := by
  simp only [SpanI.isValid, Bool.and_eq_true, decide_eq_true_eq]
  omega

theorem noLabel_invalid : noLabel.span.isValid = false := by decide

/-- Corresponding labels. -/
structure LabelR (is is' : List Tree) (lab lab' : LinkLabel) : Prop where
  valid : lab.span.isValid = true
  valid' : lab'.span.isValid = true
  start : LiveP is is' lab.span.start lab'.span.start
  stop : PosP is is' lab.span.stop lab'.span.stop
  istart : LiveP is is' lab.inner.start lab'.inner.start
  istop : PosP is is' lab.inner.stop lab'.inner.stop

theorem RR.adeq {r r' : Rd} (hr : RR E is is' r r') {f f' : Nat} (hF : rdFuel E.src is ≤ f) (hF' : rdFuel E.src' is' ≤ f') :
    RDS.mu E.src r < f ∧ RDS.mu E.src' r' < f' :=
  ⟨Nat.lt_of_lt_of_le (RDS.mu_lt_fuel hr.ri) hF, Nat.lt_of_lt_of_le (RDS.mu_lt_fuel hr.ri') hF'⟩

/-- **`parseLinkLabel`** -/
theorem parseLinkLabel_sim (hc : PC E is is') (f f' : Nat) (r r' : Rd) (hr : RR E is is' r r') (hs : Safe E r r')
    (hF : rdFuel E.src is ≤ f) (hF' : rdFuel E.src' is' ≤ f') :
    ∃ lab lab' r2 r2', parseLinkLabel E.src f r = (lab, r2) ∧ parseLinkLabel E.src' f' r' = (lab', r2') ∧
      ((lab.span.isValid = false ∧ lab'.span.isValid = false) ∨
       (LabelR is is' lab lab' ∧ RR E is is' r2 r2' ∧ Safe E r2 r2' ∧ r.spans ≠ [] ∧
         lab.span.start = (r.pos : Int) ∧ lab'.span.start = (r'.pos : Int))) := by
  obtain ⟨c, e1, e2, hc0, _⟩ := current_sim hc hr hs
  simp only [parseLinkLabel, e1, e2]
  by_cases hb : (c != 0x5B) = true
  · simp only [hb, if_true]
    exact ⟨_, _, _, _, rfl, rfl, Or.inl ⟨noLabel_invalid, noLabel_invalid⟩⟩
  · simp only [hb, Bool.false_eq_true, if_false]
    have hlive : r.spans ≠ [] := by
      intro hd
      rw [hc0.mpr hd] at hb
      exact hb (by decide)
    obtain ⟨hm, hm'⟩ := hr.adeq hF hF'
    rcases labelSkip_sim hc f f' r r' 0 hr hm hm' with ⟨s1, s2⟩ | ⟨r2, r2', n, s1, s2, hr2, hl2, le1, le2⟩
    · simp only [s1, s2]
      exact ⟨_, _, _, _, rfl, rfl, Or.inl ⟨noLabel_invalid, noLabel_invalid⟩⟩
    · simp only [s1, s2]
      obtain ⟨hm2, hm2'⟩ := hr2.adeq hF hF'
      obtain ⟨b0, b1, b2, b3⟩ := RDS.labelSkip_byte f r 0 r2 n s1
      rcases labelBody_sim hc f f' r2 r2' n (-1) (-1) hr2 (safe_of_live hl2) (Or.inl ⟨rfl, rfl⟩) hm2 hm2' with
        ⟨t1, t2⟩ | ⟨r3, r3', e, e', t1, t2, hr3, hs3, hie, le3, le4⟩
      · simp only [t1, t2]
        exact ⟨_, _, _, _, rfl, rfl, Or.inl ⟨noLabel_invalid, noLabel_invalid⟩⟩
      · simp only [t1, t2]
        have he0 : 0 ≤ e := labelBody_first_nonneg E.src f r2 n r3 e b0 b1 b2 b3 t1
        obtain ⟨c3, g1, g2, hc30, hcv3⟩ := current_sim hc hr3 hs3
        obtain ⟨b4, r4, r4', n1, n2, hr4, _, _, _, hsafe, _⟩ := next_sim hc hr3
        simp only [g1, g2, n1, n2]
        by_cases hb3 : (c3 != 0x5D) = true
        · simp only [hb3, if_true]
          exact ⟨_, _, _, _, rfl, rfl, Or.inl ⟨noLabel_invalid, noLabel_invalid⟩⟩
        · simp only [hb3, Bool.false_eq_true, if_false]
          have hc3 : c3 = 0x5D := by simpa using hb3
          have hl3 : r3.spans ≠ [] := by
            intro hd
            rw [hc30.mpr hd] at hc3
            revert hc3; decide
          have hs4 : Safe E r4 r4' := by
            apply hsafe hs3
            intro hl
            rw [← hcv3 hl, hc3]; decide
          have hie' : PosP is is' e e' := by
            rcases hie with ⟨h1, _⟩ | h
            · omega
            · exact h
          refine ⟨_, _, _, _, rfl, rfl, Or.inr ⟨⟨?_, ?_, hr.liveP hc hlive, (hr3.liveP hc hl3).succ, hr2.liveP hc hl2, hie'⟩,
            hr4, hs4, hlive, rfl, rfl⟩⟩
          · exact valid_of (by omega) (by show (r.pos : Int) ≤ (r3.pos : Int) + 1; omega)
          · exact valid_of (by omega) (by show (r'.pos : Int) ≤ (r3'.pos : Int) + 1; omega)

/-- A node that is followed by another node ends with a line feed. -/
theorem PC.lastLF (hc : PC E is is') {k : Nat} {t u : Tree} (ht : is[k]? = some t) (hu : is[k + 1]? = some u) :
    E.src.getD (t.label.stop.toNat - 1) 0 = LF := by
  rcases hc.eol t (List.mem_of_getElem? ht) with h | h
  · exact h
  · exfalso
    have s := sorted_idx hc.c.sorted ht hu (by omega)
    have n1 := (hc.c.ok u (List.mem_of_getElem? hu)).1
    have n2 := (hc.c.ok u (List.mem_of_getElem? hu)).2.1
    omega

/-- Both positions are the ends of the last nodes. -/
def EndP (is is' : List Tree) (a a' : Int) : Prop :=
  ∃ t t', is.getLast? = some t ∧ is'.getLast? = some t' ∧ a = t.label.stop ∧ a' = t'.label.stop

/-- A position a (fresh) reader can start from. -/
def StartP (is is' : List Tree) (a a' : Int) : Prop := LiveP is is' a a' ∨ EndP is is' a a'

theorem EndP.posP (hc : PC E is is') {a a' : Int} (h : EndP is is' a a') : PosP is is' a a' := by
  obtain ⟨t, t', g1, g2, rfl, rfl⟩ := h
  rw [List.getLast?_eq_getElem?] at g1 g2
  rw [← hc.rel.length_eq] at g2
  obtain ⟨t2, e, nr⟩ := hc.rel.getElem? g1
  rw [g2] at e; cases e
  have := (hc.c.ok t (List.mem_of_getElem? g1)).1
  have hl := nr.len
  refine ⟨is.length - 1, tlen t, t, t', g1, g2, ?_, ?_, ?_⟩ <;> unfold tlen <;> omega

theorem StartP.posP (hc : PC E is is') {a a' : Int} (h : StartP is is' a a') : PosP is is' a a' := by
  rcases h with h | h
  · exact h.posP
  · exact h.posP hc

/-- Behind a live byte other than a line feed: a live position, or the end of the paragraph. -/
theorem LiveP.succ_start (hc : PC E is is') {a a' : Int} (h : LiveP is is' a a') (hb : E.src.getD a.toNat 0 ≠ LF) :
    StartP is is' (a + 1) (a' + 1) := by
  obtain ⟨k, o, t, t', h1, h2, h3, rfl, rfl⟩ := h
  have hnn := hc.c.nn t (List.mem_of_getElem? h1)
  by_cases hin : (o : Int) + 1 < t.label.stop - t.label.start
  · exact Or.inl ⟨k, o + 1, t, t', h1, h2, by omega, by omega, by omega⟩
  · cases hu : is[k + 1]? with
    | some u =>
      exfalso
      have := hc.lastLF h1 hu
      have e : t.label.stop.toNat - 1 = (t.label.start + (o : Int)).toNat := by omega
      rw [e] at this
      exact hb this
    | none =>
      obtain ⟨t2, e, nr⟩ := hc.rel.getElem? h1
      rw [h2] at e; cases e
      have hl := nr.len
      exact Or.inr ⟨t, t', getLast?_of_get h1 hu, getLast?_of_get h2 (hc.rel.getElem?_none hu), by omega, by omega⟩

/-! ### `parseLinkDestination` -/

/-- Corresponding destinations. -/
structure DestR (is is' : List Tree) (d d' : LinkDest) : Prop where
  valid : d.span.isValid = true
  valid' : d'.span.isValid = true
  start : LiveP is is' d.span.start d'.span.start
  stop : PosP is is' d.span.stop d'.span.stop
  tstart : StartP is is' d.text.start d'.text.start
  tstop : PosP is is' d.text.stop d'.text.stop

theorem next_live_of {src : Bytes} {is : List Tree} (hc : RDS.Ctx src is) {r r2 : Rd} (h : RDS.RI src is r)
    (n : r.next src = (true, r2)) : r.spans ≠ [] := by
  intro hd
  have := RDS.next_dead hc h hd
  rw [n] at this; cases this

theorem destAngle_sim (hc : PC E is is') (start start' : Nat) (hst : LiveP is is' (start : Int) (start' : Int))
    (hsb : E.src.getD start 0 ≠ LF) :
    ∀ (f f' : Nat) (r r' : Rd), RR E is is' r r' → start ≤ r.pos → start' ≤ r'.pos →
    RDS.mu E.src r < f → RDS.mu E.src' r' < f' →
    ∃ d d' r2 r2', destAngle E.src start f r = (d, r2) ∧ destAngle E.src' start' f' r' = (d', r2') ∧
      ((d.span.isValid = false ∧ d'.span.isValid = false) ∨ (DestR is is' d d' ∧ RR E is is' r2 r2' ∧ Safe E r2 r2')) := by
  intro f
  induction f with
  | zero => intro f' r r' _ _ _ h; omega
  | succ f ih =>
    intro f' r r' hr hle hle' hm hm'
    obtain ⟨f', rfl⟩ : ∃ g, f' = g + 1 := ⟨f' - 1, by omega⟩
    obtain ⟨b, r2, r2', n1, n2, hr2, hb, hmu, _, _, _⟩ := next_sim hc hr
    obtain ⟨le1, le2⟩ := next_le hc hr n1 n2
    simp only [destAngle, n1, n2]
    cases b with
    | false =>
      simp only [Bool.not_false, if_true]
      exact ⟨_, _, _, _, rfl, rfl, Or.inl ⟨RDS.noDest_invalid, RDS.noDest_invalid⟩⟩
    | true =>
      have hl2 : r2.spans ≠ [] := hb.mp rfl
      obtain ⟨m1, m2⟩ := hmu rfl
      obtain ⟨c, e1, e2, hc0, hcv⟩ := current_sim hc hr2 (safe_of_live hl2)
      obtain ⟨b3, r3, r3', k1, k2, hr3, hb3, hmu3, hp3, hsafe3, _⟩ := next_sim hc hr2
      obtain ⟨le3, le4⟩ := next_le hc hr2 k1 k2
      simp only [Bool.not_true, Bool.false_eq_true, if_false, e1, e2]
      by_cases h1 : (c == CR || c == LF) = true
      · simp only [h1, if_true]
        exact ⟨_, _, _, _, rfl, rfl, Or.inl ⟨RDS.noDest_invalid, RDS.noDest_invalid⟩⟩
      · simp only [h1, Bool.false_eq_true, if_false, k1, k2]
        by_cases h2 : (c == 0x5C) = true
        · simp only [h2, if_true]
          cases b3 with
          | false =>
            simp only [Bool.not_false, if_true]
            exact ⟨_, _, _, _, rfl, rfl, Or.inl ⟨RDS.noDest_invalid, RDS.noDest_invalid⟩⟩
          | true =>
            have hl3 : r3.spans ≠ [] := hb3.mp rfl
            obtain ⟨m3, m4⟩ := hmu3 rfl
            obtain ⟨c2, g1, g2, _, _⟩ := current_sim hc hr3 (safe_of_live hl3)
            simp only [Bool.not_true, Bool.false_eq_true, if_false, g1, g2]
            by_cases h3 : (c2 == LF || c2 == CR) = true
            · simp only [h3, if_true]
              exact ⟨_, _, _, _, rfl, rfl, Or.inl ⟨RDS.noDest_invalid, RDS.noDest_invalid⟩⟩
            · simp only [h3, Bool.false_eq_true, if_false]
              exact ih f' r3 r3' hr3 (by omega) (by omega) (by omega) (by omega)
        · simp only [h2, Bool.false_eq_true, if_false]
          by_cases h4 : (c == 0x3E) = true
          · simp only [h4, if_true]
            obtain ⟨q1, q2, q3⟩ := hp3 hl2
            have hc3 : c = 0x3E := by simpa using h4
            have hs3 : Safe E r3 r3' := by
              apply hsafe3 (safe_of_live hl2)
              intro hl
              rw [← hcv hl, hc3]; decide
            refine ⟨_, _, _, _, rfl, rfl, Or.inr ⟨⟨?_, ?_, hst, q3.succ, hst.succ_start hc (by simpa using hsb), q3.posP⟩, hr3, hs3⟩⟩
            · exact valid_of (by omega) (by show (start : Int) ≤ r3.prev + 1; rw [q1]; omega)
            · exact valid_of (by omega) (by show (start' : Int) ≤ r3'.prev + 1; rw [q2]; omega)
          · simp only [h4, Bool.false_eq_true, if_false]
            exact ih f' r2 r2' hr2 (by omega) (by omega) (by omega) (by omega)

theorem destBare_sim (hc : PC E is is') : ∀ (f f' : Nat) (r r' : Rd) (parens : Int), RR E is is' r r' → Safe E r r' →
    RDS.mu E.src r < f → RDS.mu E.src' r' < f' →
    RR E is is' (destBare E.src f r parens) (destBare E.src' f' r' parens) ∧
    Safe E (destBare E.src f r parens) (destBare E.src' f' r' parens) ∧
    r.pos ≤ (destBare E.src f r parens).pos ∧ r'.pos ≤ (destBare E.src' f' r' parens).pos := by
  intro f
  induction f with
  | zero => intro f' r r' _ _ _ h; omega
  | succ f ih =>
    intro f' r r' parens hr hs hm hm'
    obtain ⟨f', rfl⟩ : ∃ g, f' = g + 1 := ⟨f' - 1, by omega⟩
    obtain ⟨c, e1, e2, hc0, hcv⟩ := current_sim hc hr hs
    obtain ⟨b, r2, r2', n1, n2, hr2, hb, hmu, _, hsafe, _⟩ := next_sim hc hr
    obtain ⟨le1, le2⟩ := next_le hc hr n1 n2
    simp only [destBare, e1, e2]
    by_cases h1 : (isASCIIControl c || c == SP) = true
    · simp only [h1, if_true]
      exact ⟨hr, hs, Nat.le_refl _, Nat.le_refl _⟩
    · simp only [h1, Bool.false_eq_true, if_false, n1, n2]
      have hnlf : c ≠ LF := by
        intro h; rw [h] at h1; exact h1 (by decide)
      have hs2 : Safe E r2 r2' := by
        apply hsafe hs
        intro hl
        rw [← hcv hl]; exact hnlf
      -- the recursion after a successful `next`
      have hrec : ∀ p : Int, b = true →
          RR E is is' (destBare E.src f r2 p) (destBare E.src' f' r2' p) ∧
          Safe E (destBare E.src f r2 p) (destBare E.src' f' r2' p) ∧
          r.pos ≤ (destBare E.src f r2 p).pos ∧ r'.pos ≤ (destBare E.src' f' r2' p).pos := by
        intro p hb1
        obtain ⟨m1, m2⟩ := hmu hb1
        obtain ⟨a1, a2, a3, a4⟩ := ih f' r2 r2' p hr2 hs2 (by omega) (by omega)
        exact ⟨a1, a2, by omega, by omega⟩
      by_cases h2 : (c == 0x5C) = true
      · simp only [h2, if_true]
        cases b with
        | false => simp only [Bool.not_false, if_true]; exact ⟨hr2, hs2, le1, le2⟩
        | true =>
          have hl2 : r2.spans ≠ [] := hb.mp rfl
          obtain ⟨m1, m2⟩ := hmu rfl
          obtain ⟨c2, g1, g2, _, hcv2⟩ := current_sim hc hr2 hs2
          obtain ⟨b3, r3, r3', k1, k2, hr3, hb3, hmu3, _, hsafe3, _⟩ := next_sim hc hr2
          obtain ⟨le3, le4⟩ := next_le hc hr2 k1 k2
          simp only [Bool.not_true, Bool.false_eq_true, if_false, g1, g2]
          by_cases h3 : (isASCIIControl c2 || c2 == SP) = true
          · simp only [h3, if_true]; exact ⟨hr2, hs2, le1, le2⟩
          · simp only [h3, Bool.false_eq_true, if_false, k1, k2]
            have hs3 : Safe E r3 r3' := by
              apply hsafe3 hs2
              intro hl
              rw [← hcv2 hl]
              intro h; rw [h] at h3; exact h3 (by decide)
            cases b3 with
            | false => simp only [Bool.not_false, if_true]; exact ⟨hr3, hs3, by omega, by omega⟩
            | true =>
              obtain ⟨m3, m4⟩ := hmu3 rfl
              simp only [Bool.not_true, Bool.false_eq_true, if_false]
              obtain ⟨a1, a2, a3, a4⟩ := ih f' r3 r3' parens hr3 hs3 (by omega) (by omega)
              exact ⟨a1, a2, by omega, by omega⟩
      · simp only [h2, Bool.false_eq_true, if_false]
        by_cases h3 : (c == 0x28) = true
        · simp only [h3, if_true]
          cases b with
          | false => simp only [Bool.not_false, if_true]; exact ⟨hr2, hs2, le1, le2⟩
          | true => simp only [Bool.not_true, Bool.false_eq_true, if_false]; exact hrec _ rfl
        · simp only [h3, Bool.false_eq_true, if_false]
          by_cases h4 : (c == 0x29) = true
          · simp only [h4, if_true]
            by_cases h5 : parens - 1 < 0
            · simp only [h5, if_true]; exact ⟨hr, hs, Nat.le_refl _, Nat.le_refl _⟩
            · simp only [h5, if_false]
              cases b with
              | false => simp only [Bool.not_false, if_true]; exact ⟨hr2, hs2, le1, le2⟩
              | true => simp only [Bool.not_true, Bool.false_eq_true, if_false]; exact hrec _ rfl
          · simp only [h4, Bool.false_eq_true, if_false]
            cases b with
            | false => simp only [Bool.not_false, if_true]; exact ⟨hr2, hs2, le1, le2⟩
            | true => simp only [Bool.not_true, Bool.false_eq_true, if_false]; exact hrec _ rfl

/-- **`parseLinkDestination`** -/
theorem parseLinkDestination_sim (hc : PC E is is') (f f' : Nat) (r r' : Rd) (hr : RR E is is' r r') (hs : Safe E r r')
    (hF : rdFuel E.src is ≤ f) (hF' : rdFuel E.src' is' ≤ f') :
    ∃ d d' r2 r2', parseLinkDestination E.src f r = (d, r2) ∧ parseLinkDestination E.src' f' r' = (d', r2') ∧
      ((d.span.isValid = false ∧ d'.span.isValid = false) ∨ (DestR is is' d d' ∧ RR E is is' r2 r2' ∧ Safe E r2 r2')) := by
  obtain ⟨c, e1, e2, hc0, hcv⟩ := current_sim hc hr hs
  obtain ⟨hm, hm'⟩ := hr.adeq hF hF'
  simp only [parseLinkDestination, e1, e2]
  by_cases h1 : (c == 0x3C) = true
  · simp only [h1, if_true]
    have hlive : r.spans ≠ [] := by
      intro hd
      rw [hc0.mpr hd] at h1
      revert h1; decide
    have hsb : E.src.getD r.pos 0 ≠ LF := by
      rw [← hcv hlive]
      intro h; rw [h] at h1; revert h1; decide
    exact destAngle_sim hc r.pos r'.pos (hr.liveP hc hlive) hsb f f' r r' hr (Nat.le_refl _) (Nat.le_refl _) hm hm'
  · simp only [h1, Bool.false_eq_true, if_false]
    by_cases h2 : (!isASCIIControl c && c != SP && c != 0x29) = true
    · simp only [h2, if_true]
      have hlive : r.spans ≠ [] := by
        intro hd
        rw [hc0.mpr hd] at h2
        revert h2; decide
      obtain ⟨a1, a2, a3, a4⟩ := destBare_sim hc f f' r r' 0 hr hs hm hm'
      have hl := hr.liveP hc hlive
      refine ⟨_, _, _, _, rfl, rfl, Or.inr ⟨⟨?_, ?_, hl, a1.posP hc, Or.inl hl, a1.posP hc⟩, a1, a2⟩⟩
      · exact valid_of (by omega) (by show (r.pos : Int) ≤ _; omega)
      · exact valid_of (by omega) (by show (r'.pos : Int) ≤ _; omega)
    · simp only [h2, Bool.false_eq_true, if_false]
      exact ⟨_, _, _, _, rfl, rfl, Or.inl ⟨RDS.noDest_invalid, RDS.noDest_invalid⟩⟩

/-! ### `parseLinkTitle` -/

/-- Corresponding titles. -/
structure TitleR (is is' : List Tree) (t t' : LinkTitle) : Prop where
  valid : t.span.isValid = true
  valid' : t'.span.isValid = true
  start : LiveP is is' t.span.start t'.span.start
  stop : PosP is is' t.span.stop t'.span.stop
  tstart : StartP is is' t.text.start t'.text.start
  tstop : PosP is is' t.text.stop t'.text.stop

theorem titleLoop_sim (hc : PC E is is') (start start' : Nat) (hst : LiveP is is' (start : Int) (start' : Int))
    (hsb : E.src.getD start 0 ≠ LF) (term : UInt8) (hterm : term ≠ LF) :
    ∀ (f f' : Nat) (r r' : Rd), RR E is is' r r' → start ≤ r.pos → start' ≤ r'.pos →
    RDS.mu E.src r < f → RDS.mu E.src' r' < f' →
    ∃ t t' r2 r2', titleLoop E.src start term f r = (t, r2) ∧ titleLoop E.src' start' term f' r' = (t', r2') ∧
      ((t.span.isValid = false ∧ t'.span.isValid = false) ∨ (TitleR is is' t t' ∧ RR E is is' r2 r2' ∧ Safe E r2 r2')) := by
  intro f
  induction f with
  | zero => intro f' r r' _ _ _ h; omega
  | succ f ih =>
    intro f' r r' hr hle hle' hm hm'
    obtain ⟨f', rfl⟩ : ∃ g, f' = g + 1 := ⟨f' - 1, by omega⟩
    obtain ⟨b, r2, r2', n1, n2, hr2, hb, hmu, _, _, _⟩ := next_sim hc hr
    obtain ⟨le1, le2⟩ := next_le hc hr n1 n2
    simp only [titleLoop, n1, n2]
    cases b with
    | false =>
      simp only [Bool.not_false, if_true]
      exact ⟨_, _, _, _, rfl, rfl, Or.inl ⟨RDS.noTitle_invalid, RDS.noTitle_invalid⟩⟩
    | true =>
      have hl2 : r2.spans ≠ [] := hb.mp rfl
      obtain ⟨m1, m2⟩ := hmu rfl
      obtain ⟨c, e1, e2, hc0, hcv⟩ := current_sim hc hr2 (safe_of_live hl2)
      obtain ⟨b3, r3, r3', k1, k2, hr3, hb3, hmu3, hp3, hsafe3, _⟩ := next_sim hc hr2
      obtain ⟨le3, le4⟩ := next_le hc hr2 k1 k2
      simp only [Bool.not_true, Bool.false_eq_true, if_false, e1, e2, k1, k2]
      by_cases h2 : (c == 0x5C) = true
      · simp only [h2, if_true]
        cases b3 with
        | false =>
          simp only [Bool.not_false, if_true]
          exact ⟨_, _, _, _, rfl, rfl, Or.inl ⟨RDS.noTitle_invalid, RDS.noTitle_invalid⟩⟩
        | true =>
          obtain ⟨m3, m4⟩ := hmu3 rfl
          simp only [Bool.not_true, Bool.false_eq_true, if_false]
          exact ih f' r3 r3' hr3 (by omega) (by omega) (by omega) (by omega)
      · simp only [h2, Bool.false_eq_true, if_false]
        by_cases h4 : (c == term) = true
        · simp only [h4, if_true]
          obtain ⟨q1, q2, q3⟩ := hp3 hl2
          have hc3 : c = term := by simpa using h4
          have hs3 : Safe E r3 r3' := by
            apply hsafe3 (safe_of_live hl2)
            intro hl
            rw [← hcv hl, hc3]; exact hterm
          refine ⟨_, _, _, _, rfl, rfl, Or.inr ⟨⟨?_, ?_, hst, q3.succ, hst.succ_start hc (by simpa using hsb), q3.posP⟩, hr3, hs3⟩⟩
          · exact valid_of (by omega) (by show (start : Int) ≤ r3.prev + 1; rw [q1]; omega)
          · exact valid_of (by omega) (by show (start' : Int) ≤ r3'.prev + 1; rw [q2]; omega)
        · simp only [h4, Bool.false_eq_true, if_false]
          exact ih f' r2 r2' hr2 (by omega) (by omega) (by omega) (by omega)

/-- **`parseLinkTitle`** -/
theorem parseLinkTitle_sim (hc : PC E is is') (f f' : Nat) (r r' : Rd) (hr : RR E is is' r r') (hs : Safe E r r')
    (hF : rdFuel E.src is ≤ f) (hF' : rdFuel E.src' is' ≤ f') :
    ∃ t t' r2 r2', parseLinkTitle E.src f r = (t, r2) ∧ parseLinkTitle E.src' f' r' = (t', r2') ∧
      ((t.span.isValid = false ∧ t'.span.isValid = false) ∨ (TitleR is is' t t' ∧ RR E is is' r2 r2' ∧ Safe E r2 r2')) := by
  obtain ⟨c, e1, e2, hc0, hcv⟩ := current_sim hc hr hs
  obtain ⟨hm, hm'⟩ := hr.adeq hF hF'
  simp only [parseLinkTitle, e1, e2]
  by_cases h1 : (c != 0x27 && c != 0x22 && c != 0x28) = true
  · simp only [h1, if_true]
    exact ⟨_, _, _, _, rfl, rfl, Or.inl ⟨RDS.noTitle_invalid, RDS.noTitle_invalid⟩⟩
  · simp only [h1, Bool.false_eq_true, if_false]
    have hlive : r.spans ≠ [] := by
      intro hd
      rw [hc0.mpr hd] at h1
      revert h1; decide
    have hterm : (if (c == 0x28) = true then (0x29 : UInt8) else c) ≠ LF := by
      split
      · decide
      · intro h; rw [h] at h1; exact h1 (by decide)
    have hsb : E.src.getD r.pos 0 ≠ LF := by
      rw [← hcv hlive]
      intro h; rw [h] at h1; exact h1 (by decide)
    exact titleLoop_sim hc r.pos r'.pos (hr.liveP hc hlive) hsb _ hterm f f' r r' hr (Nat.le_refl _) (Nat.le_refl _) hm hm'

end CM.Proofs.Quote
