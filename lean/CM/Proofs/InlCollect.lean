import CM.Proofs.BGCollect
import CM.Model.Inlines
/-
What `collectTextNodes` can return (the children of RawHTML tags, link destinations / titles / labels), for any
predicate `P` on trees: leaves of the text kind, Indent nodes handed out by the reader (members of its span list),
and — with escapes — CharacterReference leaves `[p, p+e)` where `e` is the result of `parseCharacterEscape` on a
prefix of `src.drop p`.  (The reader lemmas `*_sub` are those of `BGCollect`.)
-/
namespace CM.Proofs.InlH
open CM CM.Model CM.Gen CM.Proofs.BG

/-- Indent nodes of a span list satisfy `P`. -/
def SpOK (P : Tree → Prop) (sp : List Tree) : Prop := ∀ t ∈ sp, isIndent t = true → P t

theorem SpOK.sub {P : Tree → Prop} {a b : List Tree} (h : SpOK P b) (hs : ∀ t ∈ a, t ∈ b) : SpOK P a :=
  fun t ht => h t (hs t ht)

/-- All accumulated children satisfy `P`. -/
def AccP (P : Tree → Prop) (acc : List Tree) : Prop := ∀ t ∈ acc, P t

theorem AccP.snoc {P : Tree → Prop} {acc : List Tree} {t : Tree} (h : AccP P acc) (ht : P t) : AccP P (acc ++ [t]) := by
  intro u hu
  rcases List.mem_append.1 hu with h' | h'
  · exact h u h'
  · rw [List.mem_singleton.1 h']; exact ht

theorem AccP.ite {P : Tree → Prop} {acc : List Tree} {t : Tree} (c : Prop) [Decidable c] (h : AccP P acc) (ht : P t) :
    AccP P (if c then acc ++ [t] else acc) := by
  split
  · exact h.snoc ht
  · exact h

theorem AccP.nil {P : Tree → Prop} : AccP P [] := fun _ h => by cases h

/-- `remainingNodeBytes` returns a prefix of the source from the reader's position. -/
theorem remainingNodeBytes_fst (src : Bytes) (r : Rd) :
    ∃ k, (r.remainingNodeBytes src).1 = (src.drop (r.remainingNodeBytes src).2.pos).take k := by
  unfold Rd.remainingNodeBytes
  generalize r.currentNode = cn
  obtain ⟨n, r'⟩ := cn
  simp only []
  split
  · exact ⟨0, by simp⟩
  · exact ⟨_, rfl⟩

section
variable (ext : Ext) (src : Bytes) (stop textKind : Nat) (escapes : Bool) (P : Tree → Prop)
variable (hT : ∀ a b : Int, P (mkInline textKind a b))
variable (hC : ∀ (p k e : Nat), parseCharacterEscape ext ((src.drop p).take k) = Int.ofNat e →
  P (mkInline IK.charRef (p : Int) ((p : Int) + (e : Int))))

include hT in
theorem finishP (ps : Nat) (acc : List Tree) (h : AccP P acc) : AccP P (collectTextNodes.finish stop textKind ps acc) := by
  unfold collectTextNodes.finish
  exact AccP.ite _ h (hT _ _)

/-- The statement for one fuel value. -/
def CollectP (fuel : Nat) : Prop :=
  ∀ (r : Rd) (ps : Nat) (acc : List Tree), SpOK P r.spans → AccP P acc →
    AccP P (collectTextNodes ext src stop textKind escapes fuel r ps acc)

include hT in
theorem goFnP (fuel : Nat) (ih : CollectP ext src stop textKind escapes P fuel) (r : Rd) (ps : Nat) (acc : List Tree)
    (hsp : SpOK P r.spans) (hacc : AccP P acc) : AccP P (goFn ext src stop textKind escapes fuel r ps acc) := by
  unfold goFn
  split
  · exact finishP stop textKind P hT _ _ hacc
  · have hn := next_sub src r
    generalize r.next src = nx at hn
    obtain ⟨ok, r1⟩ := nx
    simp only [] at hn ⊢
    split
    · exact finishP stop textKind P hT _ _ hacc
    · split
      · exact ih r1 _ _ (hsp.sub hn) (AccP.ite _ hacc (hT _ _))
      · exact ih r1 _ _ (hsp.sub hn) hacc

include hT hC in
theorem collectStepP (fuel : Nat) (ih : CollectP ext src stop textKind escapes P fuel) (cn : Tree) (r : Rd) (ps : Nat)
    (acc : List Tree) (hsp : SpOK P r.spans) (hacc : AccP P acc) :
    AccP P (collectTextNodes.collectStep ext src stop textKind escapes cn r ps acc fuel) := by
  have go := goFnP ext src stop textKind escapes P hT fuel ih
  rw [collectTextNodes.collectStep.eq_1]
  split
  · have hc1 := current_sub src r
    generalize r.current src = cu at hc1
    obtain ⟨c, r1⟩ := cu
    simp only [] at hc1 ⊢
    have hsp1 : SpOK P r1.spans := hsp.sub hc1
    split
    · -- backslash
      have hn := next_sub src r1
      generalize r1.next src = nx at hn
      obtain ⟨ok, r2⟩ := nx
      simp only [] at hn ⊢
      have hsp2 : SpOK P r2.spans := hsp1.sub hn
      have hc3 : ∀ t ∈ (if ok = true then Rd.current src r2 else (0, r2)).2.spans, t ∈ r2.spans := by
        split
        · exact current_sub src r2
        · exact fun t ht => ht
      generalize (if ok = true then Rd.current src r2 else (0, r2)) = cu2 at hc3
      obtain ⟨c2, r3⟩ := cu2
      simp only [] at hc3 ⊢
      have hsp3 : SpOK P r3.spans := hsp2.sub hc3
      split
      · exact go r3 _ _ hsp3 (AccP.ite _ hacc (hT _ _))
      · exact go r3 _ _ hsp3 hacc
    · split
      · -- ampersand
        have hrn := remainingNodeBytes_sub src r1
        obtain ⟨k, hk⟩ := remainingNodeBytes_fst src r1
        generalize r1.remainingNodeBytes src = rb at hrn hk
        obtain ⟨rest, r2⟩ := rb
        simp only [] at hrn hk ⊢
        have hsp2 : SpOK P r2.spans := hsp1.sub hrn
        split
        · rename_i e he
          have hacc2 : AccP P ((if r2.pos > ps then acc ++ [mkInline textKind ↑ps ↑r2.pos] else acc) ++
              [mkInline IK.charRef (↑r2.pos) (↑r2.pos + ↑e)]) :=
            (AccP.ite _ hacc (hT _ _)).snoc (hC r2.pos k e (by rw [← hk]; exact he))
          have hf := foldl_next_sub src (List.range (e - 1)) r2
          generalize List.foldl (fun r x => (Rd.next src r).snd) r2 (List.range (e - 1)) = r3 at hf
          have hsp3 : SpOK P r3.spans := hsp2.sub hf
          have hn := next_sub src r3
          generalize r3.next src = nx at hn
          obtain ⟨ok, r4⟩ := nx
          simp only [] at hn ⊢
          split
          · exact finishP stop textKind P hT _ _ hacc2
          · exact ih r4 _ _ (hsp3.sub hn) hacc2
        · exact go r2 _ _ hsp2 hacc
      · exact go r1 _ _ hsp1 hacc
  · exact go r _ _ hsp hacc

include hT hC in
/-- Everything `collectTextNodes` appends satisfies `P`. -/
theorem collectTextNodesP : ∀ fuel : Nat, CollectP ext src stop textKind escapes P fuel := by
  intro fuel
  induction fuel with
  | zero => intro r ps acc _ hacc; rw [collectTextNodes.eq_1]; exact hacc
  | succ fuel ih =>
    intro r ps acc hsp hacc
    rw [collectTextNodes.eq_2]
    split
    · exact AccP.ite _ hacc (hT _ _)
    · have hc := currentNode_sub r
      generalize r.currentNode = cn at hc
      obtain ⟨curr, r1⟩ := cn
      simp only [] at hc ⊢
      have hsp1 : SpOK P r1.spans := hsp.sub hc.1
      split
      · rename_i cn
        split
        · rename_i hind
          have hcn : P cn := hsp cn (hc.2 cn rfl) hind
          exact ih _ _ _ (hsp1.sub (skipNode_sub src cn fuel r1)) ((AccP.ite _ hacc (hT _ _)).snoc hcn)
        · exact collectStepP ext src stop textKind escapes P hT hC fuel ih cn r1 ps acc hsp1 hacc
      · exact collectStepP ext src stop textKind escapes P hT hC fuel ih _ r1 ps acc hsp1 hacc

end

/-- The form used for the inline phase: a reader over a suffix of the run list, nothing accumulated yet. -/
theorem collect_all (ext : Ext) (src : Bytes) (stop textKind : Nat) (escapes : Bool) (P : Tree → Prop)
    (hT : ∀ a b : Int, P (mkInline textKind a b))
    (hC : ∀ (p k e : Nat), parseCharacterEscape ext ((src.drop p).take k) = Int.ofNat e →
      P (mkInline IK.charRef (p : Int) ((p : Int) + (e : Int))))
    (spans : List Tree) (hsp : ∀ t ∈ spans, isIndent t = true → P t) (fuel k p ps : Nat) :
    ∀ t ∈ collectTextNodes ext src stop textKind escapes fuel (newReader (spans.drop k) p) ps [], P t :=
  collectTextNodesP ext src stop textKind escapes P hT hC fuel _ _ _
    (fun t ht => hsp t (List.mem_of_mem_drop ht)) AccP.nil

end CM.Proofs.InlH
