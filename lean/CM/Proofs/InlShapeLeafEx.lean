import CM.Proofs.InlShapeLeaf
/-
C13, inline half, leaf kinds — the hypothesis `HBreakOK` is necessary (two counterexamples on the model), it follows
from "every inline child but the last ends at the end of a non-blank line" (`LineEnd`, `hbreakOK_of_lineEnds`), and
the theorems are not vacuous (a concrete container).
-/
namespace CM.Proofs.InlH
open CM CM.Model CM.Model.Inl CM.Spec

/-! ### a sufficient condition for `HBreakOK` -/

/-- Position `se` is the end of a non-blank line: before it come a byte that is not a space or line ending, then
    spaces only, then one line ending (LF, CR or CR LF). -/
def LineEnd (src : Bytes) (se : Nat) : Prop :=
  ∃ (pre : Bytes) (b : UInt8) (sp eol : Bytes), src.take se = pre ++ b :: (sp ++ eol) ∧ se ≤ src.length ∧
    b ≠ SP ∧ b ≠ LF ∧ b ≠ CR ∧ (∀ c ∈ sp, c = SP) ∧ isEOL eol = true

theorem isEOL_cases {l : Bytes} (h : isEOL l = true) : l = [LF] ∨ l = [CR] ∨ l = [CR, LF] := by
  unfold isEOL at h
  simp only [Bool.or_eq_true, beq_iff_eq] at h
  rcases h with (h | h) | h
  · exact Or.inl h
  · exact Or.inr (Or.inl h)
  · exact Or.inr (Or.inr h)

theorem all_of_takeWhile_length {α} (p : α → Bool) : ∀ (l : List α), (l.takeWhile p).length = l.length →
    ∀ x ∈ l, p x = true := by
  intro l
  induction l with
  | nil => intro _ x hx; cases hx
  | cons a r ih =>
    intro h x hx
    rw [List.takeWhile_cons] at h
    by_cases ha : p a = true
    · rw [if_pos ha] at h
      simp only [List.length_cons] at h
      rcases List.mem_cons.1 hx with rfl | hx
      · exact ha
      · exact ih (by omega) x hx
    · rw [if_neg ha] at h
      simp at h

/-- what `parseHardLineBreakSpace` accepts -/
theorem phlbs_snd (r : Bytes) (h : (parseHardLineBreakSpace r).snd = true) :
    ∃ rest, r = SP :: SP :: rest ∧ ∀ c ∈ rest, c = SP ∨ c = LF ∨ c = CR := by
  unfold parseHardLineBreakSpace at h
  simp only [] at h
  split at h
  · cases h
  · rename_i hl
    match r, hl, h with
    | [], hl, _ => simp [Gen.numSpaces] at hl
    | [a], hl, _ =>
      simp only [Gen.numSpaces, List.take_succ_cons, List.take_nil, List.takeWhile_cons, List.takeWhile_nil] at hl
      split at hl <;> simp at hl
    | a :: b :: rest, hl, h =>
      simp only [Gen.numSpaces, List.take_succ_cons, List.take_zero, List.takeWhile_cons, List.takeWhile_nil] at hl
      have ha : a = SP := by
        by_cases ha : (a == SP) = true
        · simpa using ha
        · rw [if_neg ha] at hl; simp at hl
      subst ha
      have hb : b = SP := by
        by_cases hb : (b == SP) = true
        · simpa using hb
        · rw [if_pos (by rfl), if_neg hb] at hl; simp at hl
      subst hb
      refine ⟨rest, rfl, ?_⟩
      simp only [Gen.numSpaces, List.drop_succ_cons, List.drop_zero, List.length_cons, beq_iff_eq] at h
      have hlen : (List.takeWhile (fun c => c == SP || c == LF || c == CR) rest).length = rest.length := by omega
      intro c hc
      have := all_of_takeWhile_length _ rest hlen c hc
      simp only [Bool.or_eq_true, beq_iff_eq] at this
      rcases this with (h | h) | h
      · exact Or.inl h
      · exact Or.inr (Or.inl h)
      · exact Or.inr (Or.inr h)

theorem takeWhile_sp_append (sp eol : Bytes) (hsp : ∀ c ∈ sp, c = SP) (he : ∀ c, eol.head? = some c → c ≠ SP) :
    (sp ++ eol).takeWhile (· == 0x20) = sp := by
  induction sp with
  | nil =>
    cases eol with
    | nil => rfl
    | cons c r =>
      have := he c rfl
      simp only [List.nil_append]
      rw [List.takeWhile_cons_of_neg]
      simpa [SP] using this
  | cons a r ih =>
    have ha : a = SP := hsp a (List.mem_cons_self ..)
    subst ha
    simp only [List.cons_append]
    rw [List.takeWhile_cons_of_pos (by rfl), ih (fun c hc => hsp c (List.mem_cons_of_mem _ hc))]

/-- two or more spaces and a line ending -/
theorem hardBreakShape_spaces (sp eol : Bytes) (hsp : ∀ c ∈ sp, c = SP) (h2 : 2 ≤ sp.length) (he : isEOL eol = true) :
    hardBreakShape (sp ++ eol) = true := by
  unfold hardBreakShape
  have hhead : ∀ c, eol.head? = some c → c ≠ SP := by
    intro c hc
    rcases isEOL_cases he with rfl | rfl | rfl <;> (simp at hc; subst hc; decide)
  simp only [takeWhile_sp_append sp eol hsp hhead, List.drop_left, he, Bool.and_true, Bool.or_eq_true, decide_eq_true_eq]
  exact Or.inr h2

theorem hbreak_lineEnd (src : Bytes) (se : Nat) (h : LineEnd src se) :
    (∀ p : Nat, p + 1 = se → src[p]? ≠ some 0x5C) ∧
    (∀ p : Nat, p ≤ se → (parseHardLineBreakSpace ((src.drop p).take (se - p))).snd = true →
      hardBreakShape ((src.drop p).take (se - p)) = true) := by
  obtain ⟨pre, b, sp, eol, hL, hse, hb1, hb2, hb3, hsp, he⟩ := h
  have hlen : (src.take se).length = se := by rw [List.length_take]; omega
  have hslice : ∀ p, (src.drop p).take (se - p) = (src.take se).drop p := by
    intro p; rw [List.drop_take]
  refine ⟨fun p hp => ?_, fun p hp hs => ?_⟩
  · -- the last byte is the last byte of the line ending
    have h1 : src[p]? = (src.take se)[p]? := by rw [List.getElem?_take_of_lt (by omega)]
    have h2 : (src.take se).getLast? = eol.getLast? := by
      have hL' : src.take se = (pre ++ b :: sp) ++ eol := by rw [hL]; simp
      rw [hL', List.getLast?_append]
      rcases isEOL_cases he with rfl | rfl | rfl <;> simp
    rw [List.getLast?_eq_getElem?, hlen] at h2
    have : se - 1 = p := by omega
    rw [this] at h2
    rw [h1, h2]
    rcases isEOL_cases he with rfl | rfl | rfl <;> decide
  · rw [hslice] at hs ⊢
    rw [hL] at hs ⊢
    obtain ⟨rest, hr, hws⟩ := phlbs_snd _ hs
    have hall : ∀ c ∈ List.drop p (pre ++ b :: (sp ++ eol)), c = SP ∨ c = LF ∨ c = CR := by
      rw [hr]
      intro c hc
      rcases List.mem_cons.1 hc with rfl | hc
      · exact Or.inl rfl
      · rcases List.mem_cons.1 hc with rfl | hc
        · exact Or.inl rfl
        · exact hws c hc
    -- the non-blank byte `b` is not in the rest
    have hp1 : pre.length < p := by
      by_cases hlt : pre.length < p
      · exact hlt
      · exfalso
        have hmem : b ∈ List.drop p (pre ++ b :: (sp ++ eol)) := by
          rw [List.drop_append_of_le_length (by omega)]
          exact List.mem_append_right _ (List.mem_cons_self ..)
        rcases hall b hmem with h | h | h <;> contradiction
    have hdrop : List.drop p (pre ++ b :: (sp ++ eol)) = List.drop (p - pre.length - 1) (sp ++ eol) := by
      rw [List.drop_append]
      have h0 : List.drop p pre = [] := List.drop_of_length_le (by omega)
      rw [h0, List.nil_append]
      obtain ⟨j, hj⟩ : ∃ j, p - pre.length = j + 1 := ⟨p - pre.length - 1, by omega⟩
      rw [hj, List.drop_succ_cons]
      simp
    rw [hdrop] at hr ⊢
    by_cases hj : p - pre.length - 1 ≤ sp.length
    · rw [List.drop_append_of_le_length hj] at hr ⊢
      have hsp' : ∀ c ∈ sp.drop (p - pre.length - 1), c = SP := fun c hc => hsp c (List.mem_of_mem_drop hc)
      refine hardBreakShape_spaces _ eol hsp' ?_ he
      -- the first two bytes are spaces, the line ending has none
      by_cases h2 : 2 ≤ (sp.drop (p - pre.length - 1)).length
      · exact h2
      · exfalso
        have hnsp : ∀ c ∈ eol, c ≠ SP := by
          intro c hc
          rcases isEOL_cases he with rfl | rfl | rfl <;> simp at hc <;> (try (rcases hc with rfl | rfl)) <;> (try subst hc) <;> decide
        match hd : sp.drop (p - pre.length - 1), hr with
        | [], hr =>
          rw [List.nil_append] at hr
          exact hnsp SP (by rw [hr]; exact List.mem_cons_self ..) rfl
        | [a], hr =>
          simp only [List.cons_append, List.nil_append, List.cons.injEq] at hr
          exact hnsp SP (by rw [hr.2]; exact List.mem_cons_self ..) rfl
        | a :: a' :: r', _ =>
          rw [hd] at h2
          simp at h2
    · exfalso
      have hnsp : ∀ c ∈ eol, c ≠ SP := by
        intro c hc
        rcases isEOL_cases he with rfl | rfl | rfl <;> simp at hc <;> (try (rcases hc with rfl | rfl)) <;> (try subst hc) <;> decide
      rw [List.drop_append] at hr
      have h0 : List.drop (p - pre.length - 1) sp = [] := List.drop_of_length_le (by omega)
      rw [h0, List.nil_append] at hr
      exact hnsp SP (List.mem_of_mem_drop (by rw [hr]; exact List.mem_cons_self ..)) rfl

/-- If every inline child but the last ends at the end of a non-blank line of the source, `HBreakOK` holds. -/
theorem hbreakOK_of_lineEnds (src : Bytes) (unparsed : List Tree)
    (h : ∀ (k : Nat) (u : Tree), k + 1 < unparsed.length → unparsed[k]? = some u →
      ∃ se : Nat, u.label.stop = (se : Int) ∧ LineEnd src se) : HBreakOK src unparsed := by
  intro k u hk hu
  obtain ⟨se, hse, hl⟩ := h k u hk hu
  obtain ⟨hA, hB⟩ := hbreak_lineEnd src se hl
  rw [hse]
  refine ⟨fun p hp => hA p (by omega), fun p hp _ hs => ?_⟩
  have hp' : p ≤ se := by omega
  rw [sliceI_of_nat src p se hp'] at hs ⊢
  exact hB p hp' hs

/-! ### the hypothesis is needed; the theorems are not vacuous -/

namespace ShapeEx

/-- tables: every name is an entity, identity case folding -/
def x0 : IExt :=
  { ext := { unescape := fun _ => [] }, fold := fun b => b, u := { isZs := fun _ => false, isP := fun _ => false } }

def run (a b : Int) : Tree := .node { isBlock := false, kind := IK.unparsed, start := a, stop := b } []

/-- some node of kind `k` of the result does not have its shape -/
def bad (src : Bytes) (k : Nat) (r : Except IErr (List Tree)) : Bool :=
  match r with
  | .ok kids => (T.nodesL kids).any (fun t => !t.label.isBlock && t.label.kind == k && !shapeAt src t)
  | .error _ => false

theorem bad_spec {src : Bytes} {k : Nat} {r : Except IErr (List Tree)} (h : bad src k r = true) :
    ∃ kids, r = .ok kids ∧ ∃ t ∈ T.nodesL kids, t.label.isBlock = false ∧ t.label.kind = k ∧ shapeAt src t = false := by
  unfold bad at h
  split at h
  · rename_i kids
    obtain ⟨t, ht, hp⟩ := List.any_eq_true.1 h
    simp only [Bool.and_eq_true, Bool.not_eq_true', beq_iff_eq] at hp
    exact ⟨kids, rfl, t, ht, hp.1.1, hp.1.2, hp.2⟩
  · cases h

/-- the kinds of the inline nodes of the result, with the shape check -/
def kindsOK (src : Bytes) (r : Except IErr (List Tree)) : List (Nat × Bool) :=
  match r with
  | .ok kids => (T.nodesL kids).map (fun t => (t.label.kind, shapeAt src t))
  | .error _ => [(999, false)]

def srcA : Bytes := "\\a".toUTF8.toList
def inA : List Tree := [run 0 1, run 1 2]

theorem all_runs (src : Bytes) (l : List Tree) (h : ∀ u ∈ l, isUnparsed u = true) : InShape src l := by
  intro u hu _ hnu
  rw [h u hu] at hnu
  cases hnu

/-- WITHOUT `HBreakOK` the hard-break clause is false of the model: a span that ends right after a backslash (and is
    not the last one) gives a HardLineBreak node that is just the backslash. -/
theorem hardBreak_bs_counterexample :
    InShape srcA inA ∧ ∃ kids, parseInlines x0 srcA srcA.toArray (fun _ => false) 0 2 inA = .ok kids ∧
      ∃ t ∈ T.nodesL kids, t.label.isBlock = false ∧ t.label.kind = IK.hardBreak ∧ shapeAt srcA t = false :=
  ⟨all_runs _ _ (by decide), bad_spec (by decide +kernel)⟩

def srcB : Bytes := "    ".toUTF8.toList
def inB : List Tree := [run 0 2, run 2 4]

/-- …and a span that ends in two spaces without a line ending gives a HardLineBreak node of two spaces. -/
theorem hardBreak_sp_counterexample :
    InShape srcB inB ∧ ∃ kids, parseInlines x0 srcB srcB.toArray (fun _ => false) 0 4 inB = .ok kids ∧
      ∃ t ∈ T.nodesL kids, t.label.isBlock = false ∧ t.label.kind = IK.hardBreak ∧ shapeAt srcB t = false :=
  ⟨all_runs _ _ (by decide), bad_spec (by decide +kernel)⟩

/-- a backslash hard break, a space hard break, an autolink, a character reference -/
def src1 : Bytes := "a\\\nb  \nc <http://a.b> &amp; d".toUTF8.toList
def in1 : List Tree := [run 0 3, run 3 7, run 7 29]
def t1 : Tree := .node { isBlock := true, kind := BK.paragraph, start := 0, stop := 29 } in1

example : InShape src1 in1 := all_runs _ _ (by decide)

theorem hbreak1 : HBreakOK src1 in1 := by
  apply hbreakOK_of_lineEnds
  intro k u hk hu
  have hk' : k = 0 ∨ k = 1 := by
    simp only [in1, List.length_cons, List.length_nil] at hk
    omega
  rcases hk' with rfl | rfl
  · simp only [in1, List.getElem?_cons_zero, Option.some.injEq] at hu
    subst hu
    refine ⟨3, rfl, "a".toUTF8.toList, 0x5C, [], [LF], by decide +kernel, by decide +kernel, by decide, by decide,
      by decide, ?_, by decide⟩
    intro c hc; cases hc
  · simp only [in1, List.getElem?_cons_succ, List.getElem?_cons_zero, Option.some.injEq] at hu
    subst hu
    refine ⟨7, rfl, "a\\\n".toUTF8.toList, 0x62, [SP, SP], [LF], by decide +kernel, by decide +kernel, by decide,
      by decide, by decide, ?_, by decide⟩
    intro c hc
    simp only [List.mem_cons, List.mem_nil_iff, or_false] at hc
    rcases hc with rfl | rfl <;> rfl

/-- The container is parsed; Text, HardLineBreak, Text, HardLineBreak, Text, Autolink (with its Text), Text,
    CharacterReference, Text: every node has its shape. -/
example : kindsOK src1 (parseInlines x0 src1 src1.toArray (fun _ => false) 0 29 in1) =
    [(1, true), (3, true), (1, true), (3, true), (1, true), (15, true), (1, true), (1, true), (5, true), (1, true)] := by
  decide +kernel

/-- the hypotheses of `rewriteE_shape_leaf` hold of `t1` -/
example : ∀ u ∈ T.nodes t1, u.label.isBlock = false → shapeAt src1 u = true := by
  intro u hu _
  have : T.nodes t1 = [t1, run 0 3, run 3 7, run 7 29] := rfl
  rw [this] at hu
  simp only [List.mem_cons, List.mem_nil_iff, or_false] at hu
  rcases hu with rfl | rfl | rfl | rfl <;> decide +kernel

example : ∀ p ∈ conts t1, HBreakOK src1 p.2 := by
  intro p hp
  have : conts t1 = [(t1.label, in1)] := by
    rw [t1, conts, if_neg (by decide), if_pos (by decide)]; rfl
  rw [this, List.mem_singleton] at hp
  subst hp
  exact hbreak1

end ShapeEx

end CM.Proofs.InlH

section
open CM.Proofs.InlH
#print axioms parseBody_specT
#print axioms parseInlines_nodes_site
#print axioms parseAutolink_shape
#print axioms parseInlines_shape_leaf
#print axioms rewriteE_shape_leaf
#print axioms hbreakOK_of_lineEnds
#print axioms ShapeEx.hardBreak_bs_counterexample
#print axioms ShapeEx.hardBreak_sp_counterexample
end
