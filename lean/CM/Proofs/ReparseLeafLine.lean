import CM.Proofs.ReparseLeafText
/-
C16, Layer B, part 8: **one line fed to a parser whose only top-level block `k0` is an open leaf block** (paragraph,
fenced code, HTML block, indented code). The result is one of

* `stays`: `k0` is continued (text appended): still the only child, open, of the same kind;
* `closedAt`: `k0` was closed at the START of the line — the first child of the document is the first block of
  `closeBlock x src lineStart k0`, up to the `lastLineBlank` flag;
* `closedEol`: `k0` (a fenced code block / HTML block that met its end condition, or a paragraph turned into a setext
  heading) was closed at the END of the line, and the children of the document are exactly the result of that close.
-/
namespace CM.Proofs.Rp
open CM CM.Model CM.Gen CM.Proofs

inductive LeafOut (x : PExt) (src : Bytes) (ls : Nat) (k0 : PB) : LP → Prop
  | stays (σ' : LP) (k' : PB) : σ'.root.blocks = [k'] → k'.label.stop = k0.label.stop → k'.label.kind = k0.label.kind →
      k'.blocks = [] → (∀ t ∈ k'.inlines, t ∈ k0.inlines ∨ InLine ls (src.length - ls) t) → LeafOut x src ls k0 σ'
  | closedAt (σ' : LP) (h : PB) (tl : List PB) (h' : PB) (m' : List PB) : closeBlock x src ls k0 = h :: tl →
      σ'.root.blocks = h' :: m' → FlagRel h h' → LeafOut x src ls k0 σ'
  | closedEol (σ' : LP) (kT : PB) : kT.label.stop < 0 → kT.blocks = [] →
      ((kT.label.kind = k0.label.kind ∧ (kT.label.kind = BK.fencedCode ∨ kT.label.kind = BK.htmlBlock)) ∨
       (kT.label.kind = BK.setextHeading ∧ k0.label.kind = BK.paragraph)) →
      σ'.root.blocks = closeBlock x src src.length kT → LeafOut x src ls k0 σ'

theorem reset_source (p : LP) (source : Bytes) (ls : Nat) : (p.reset source ls).source = source := by
  unfold LP.reset
  rw [(updateTab_frame _).1.source]

theorem tipDepth_single {root k0 : PB} (hb : root.blocks = [k0]) (ho : k0.label.stop < 0) (hk : k0.blocks = []) :
    tipDepth root 0 = 1 := by
  obtain ⟨l, is, rfl⟩ := root_single hb
  cases k0 with
  | mk l0 bs0 is0 =>
    simp only [PB.blocks] at hk
    subst hk
    simp only [PB.label] at ho
    rw [tipDepth]
    simp [PB.isOpen, PB.label, ho]
    rw [tipDepth]
    simp

theorem closeLastChild_depth0 (x : PExt) (p : LP) (e : Int) (hd : p.depth = 0) :
    (p.closeLastChild x e).root = replLast (closeBlock x p.source e) p.root ∧ (p.closeLastChild x e).depth = 0 ∧
    (p.closeLastChild x e).state = p.state := by
  refine ⟨?_, hd, rfl⟩
  show spineReplaceLast (closeBlock x p.source e) p.root p.depth = _
  rw [spineReplaceLast_eq, hd, spineModify_zero]

/-- Closing the container at depth 1 (the only child of the document). -/
theorem closeContainer_depth1 (x : PExt) (q : LP) (e : Int) (kT : PB) (hd : q.depth = 1) (hb : q.root.blocks = [kT]) :
    (q.closeContainer x e).root.blocks = closeBlock x q.source e kT := by
  rw [closeContainer_eq x q e (by rw [hd]; decide), hd]
  simp only [Nat.sub_self, spineModify_zero]
  obtain ⟨l, is, hr⟩ := root_single hb
  rw [hr, replLast_single]
  rfl

theorem sl_pd {p : LP} {k0 : PB} (hb : p.root.blocks = [k0]) (hk : k0.blocks = []) : SL k0 (pd p) :=
  ⟨rfl, k0, hb, rfl, rfl, hk⟩

theorem SL.collectInline {k0 : PB} {p : LP} (x : PExt) (kind n : Nat) (h : SL k0 p)
    (hs : ¬ (p.state == stateDescendTerminated) = true) : SL k0 (p.collectInline x kind n) := by
  obtain ⟨q1, t, e, hq⟩ := collectInline_shape x p kind n hs
  rw [e]
  apply SL.appendInline
  apply SL.of_cur _ (advance_frame _ _).1
  rcases hq with rfl | ⟨k, t0, rfl⟩
  · exact h.of_cur (markMatched_frame p).1
  · exact ((h.of_cur (markMatched_frame p).1).of_cur (advance_frame _ _).1).appendInline _

theorem leaf_line (x : PExt) (σ : LP) (s t : Bytes) (k0 : PB) (hI : blocksI s σ) (hb : σ.root.blocks = [k0])
    (ho : k0.label.stop < 0) (hk : k0.blocks = []) (hleaf : LeafK k0.kind) (ht : t ≠ []) :
    LeafOut x (s ++ t) s.length k0 ((blocksLP x).line σ (s ++ t) s.length) := by
  show LeafOut x (s ++ t) s.length k0 (processLine x (σ.reset (s ++ t) s.length))
  obtain ⟨r1, r2, r3, r4, r5, r6⟩ := reset_fields σ (s ++ t) s.length
  have rsrc := reset_source σ (s ++ t) s.length
  have hla0 : LA true (s ++ t).length (σ.reset (s ++ t) s.length) := la_reset σ (s ++ t) hI.1 (by simp)
  generalize σ.reset (s ++ t) s.length = p0 at r1 r2 r3 r4 r5 rsrc hla0 ⊢
  have hline : p0.line = t := by rw [r4]; simp
  have hb0 : p0.root.blocks = [k0] := by rw [r1]; exact hb
  have hlen : ((s ++ t).length : Int) = (s.length : Int) + (t.length : Int) := by simp
  -- the state in which the `match` function of `k0` is called
  have hlapd : LA true (s ++ t).length (pd p0) :=
    ⟨hla0.cur, hla0.ile, ⟨k0, by show spineGet p0.root 1 = some k0; rw [spineGet_one, hb0]; rfl⟩, hla0.root,
      fun h => (by cases h)⟩
  have hDL := descend_leaf x p0 k0 hb0 ho hk hleaf
  unfold processLine
  generalize descendOpenBlocks x p0 = r at hDL
  cases hDL with
  | term q hq hs =>
    -- closed at the end of the line by its own end condition
    have hst : (q.closeContainer x (q.lineStart + q.i)).state = stateDescendTerminated := by
      rw [closeContainer_state]; exact hs
    simp only [hst, beq_self_eq_true, if_true]
    -- `q`: still one child, the cursor at the end of the line
    have hq' : SL k0 q ∧ q.source = s ++ t ∧ q.lineStart = s.length ∧ q.i = t.length := by
      rcases hq with ⟨rfl, _⟩ | ⟨rfl, hkh⟩
      · obtain ⟨c1, _⟩ := consumeLine_frame (pd p0)
        refine ⟨(sl_pd hb0 hk).of_cur c1, by rw [c1.source]; exact rsrc, by rw [c1.lineStart]; exact r3, ?_⟩
        rw [consumeLine_i _ hlapd.ile]; show p0.line.length = _; rw [hline]
      · have hck : (pd p0).depth = 1 → (pd p0).containerKind ≠ BK.paragraph := by
          intro _
          rw [(sl_pd hb0 hk).containerKind, hkh]; decide
        obtain ⟨a1, _, a3, _⟩ := collectInline_LA x IK.rawHTML (pd p0).bytesAfterIndent.length hlapd hck
        obtain ⟨c1, _⟩ := consumeLine_frame ((pd p0).collectInline x IK.rawHTML (pd p0).bytesAfterIndent.length)
        refine ⟨((sl_pd hb0 hk).collectInline x _ _ (pd_not_term p0)).of_cur c1, ?_, ?_, ?_⟩
        · rw [c1.source, a3.source]; exact rsrc
        · rw [c1.lineStart, a3.lineStart]; exact r3
        · rw [consumeLine_i _ a1.ile, a3.line]; show p0.line.length = _; rw [hline]
    obtain ⟨⟨hd, kT, hbT, hT1, hT2, hT3⟩, hsrc, hls, hi⟩ := hq'
    refine LeafOut.closedEol _ kT (by rw [hT1]; exact ho) hT3 (Or.inl ⟨hT2, ?_⟩) ?_
    · rcases hq with ⟨_, hk'⟩ | ⟨_, hk'⟩
      · left; rw [hT2]; exact hk'
      · right; rw [hT2]; exact hk'
    · show (q.closeContainer x (q.lineStart + q.i)).root.blocks = _
      rw [closeContainer_depth1 x q _ kT hd hbT, hsrc, hls, hi, hlen]
  | cont am q hc hs hp =>
    have hnt : (({ q with depth := if am = true then 1 else 0 } : LP).state == stateDescendTerminated) = false := by
      show (q.state == stateDescendTerminated) = false
      rw [hs]; rfl
    simp only [hnt, Bool.false_eq_true, if_false]
    -- the state `p1` in front of the opening loop
    generalize hp1 : ({ q with depth := if am = true then 1 else 0 } : LP) = p1
    have hp1root : p1.root = p0.root := by rw [← hp1]; exact hc.root
    have hp1line : p1.line = t := by rw [← hp1]; show q.line = t; rw [hc.line]; exact hline
    have hp1src : p1.source = s ++ t := by rw [← hp1]; show q.source = _; rw [hc.source]; exact rsrc
    have hp1ls : p1.lineStart = s.length := by rw [← hp1]; show q.lineStart = _; rw [hc.lineStart]; exact r3
    have hp1depth : p1.depth = if am = true then 1 else 0 := by rw [← hp1]
    have hp1i : p1.i = q.i := by rw [← hp1]
    have hb1 : p1.root.blocks = [k0] := by rw [hp1root]; exact hb0
    have hla1 : LA true (s ++ t).length p1 := by
      have hlaq := hlapd.of_frame hc
      rw [← hp1]
      refine ⟨hlaq.cur, hlaq.ile, ?_, hlaq.root, fun h => (by cases h)⟩
      show ∃ b, spineGet q.root (if am = true then 1 else 0) = some b
      cases am with
      | true => exact ⟨k0, by simp only [if_true]; rw [spineGet_one, hc.root]; show p0.root.blocks.getLast? = _; rw [hb0]; rfl⟩
      | false => exact ⟨q.root, by simp only [Bool.false_eq_true, if_false]; exact spineGet_zero _⟩
    unfold openNewBlocks
    have hne : p1.line.isEmpty = false := by rw [hp1line]; cases t with | nil => exact absurd rfl ht | cons _ _ => rfl
    simp only [hne, Bool.false_eq_true, if_false]
    have hOL := ol_openingLoop x (p1.line.length + 7) p1
    rw [show p1.line.length + 7 + 1 = p1.line.length + 8 from rfl] at hOL
    generalize openingLoop x (p1.line.length + 8) p1 = ro at hOL
    cases hOL with
    | same p2 hs2 =>
      simp only []
      cases am with
      | true =>
        -- the line continues the block
        simp only [if_true]
        have hsl : SLI k0 s.length t.length p2 := by
          have h1 : SLI k0 s.length t.length p1 :=
            ⟨by rw [hp1depth]; rfl, hp1ls, by rw [hp1line], by have := hla1.ile; rw [hp1line] at this; exact this,
              k0, hb1, rfl, rfl, hk, fun u hu => Or.inl hu⟩
          rcases hs2 with rfl | ⟨rfl, _⟩
          · exact h1.of_cur (curFrame_T p1)
          · exact h1
        obtain ⟨_, _, _, _, k', e1, e2, e3, e4, e5⟩ := hsl.addLineText x hleaf
        refine LeafOut.stays _ k' e1 e2 e3 e4 ?_
        have : (s ++ t).length - s.length = t.length := by simp
        rw [this]; exact e5
      | false =>
        -- the block does not continue: it is closed at the start of the line
        simp only [Bool.false_eq_true, if_false]
        have hd1 : p1.depth = 0 := by rw [hp1depth]; rfl
        have hck1 : p1.containerKind = BK.document := by rw [containerKind_depth0 hd1]; exact hla1.root.kind
        have hp2 : p2 = T p1 := by
          rcases hs2 with h | ⟨_, h⟩
          · exact h
          · exfalso; apply h; rw [hck1]; rfl
        subst hp2
        have htip : tipDepth (T p1).root 0 = 1 := tipDepth_single hb1 ho hk
        have hcond : (!(T p1).isRestBlank && ((spineGet (T p1).root (tipDepth (T p1).root 0)).getD (T p1).root).kind == BK.paragraph) = false := by
          rw [htip]
          have : spineGet (T p1).root 1 = some k0 := by rw [spineGet_one]; show p1.root.blocks.getLast? = _; rw [hb1]; rfl
          rw [this]
          simp only [Option.getD_some]
          by_cases hkp : k0.kind = BK.paragraph
          · obtain ⟨hqi, ham⟩ := hp hkp
            have hblank : p0.isRestBlank = true := by simpa using ham
            have : (T p1).isRestBlank = p0.isRestBlank := by
              show isBlankLine (p1.line.drop p1.i) = isBlankLine (p0.line.drop p0.i)
              rw [hp1line, hline, hp1i, hqi]
            rw [this, hblank]; rfl
          · have : (k0.kind == BK.paragraph) = false := by simpa using hkp
            rw [this]; simp
        simp only [hcond, Bool.false_eq_true, if_false, if_true]
        obtain ⟨c1, c2, c3⟩ := closeLastChild_depth0 x (T p1) (T p1).lineStart hd1
        obtain ⟨h, tl, hK, _⟩ := closeBlock_head x (s ++ t) (s.length : Int) k0
        have hclose := hla1.root.close0 x (s ++ t) (e := (s.length : Int)) (by rw [hp1ls]; exact Int.le_refl _)
          (by simp only [List.length_append]; omega) (by rw [hp1ls]; exact Int.le_refl _)
        have hroot3 : ((T p1).closeLastChild x (T p1).lineStart).root = replLast (closeBlock x (s ++ t) (s.length : Int)) p1.root := by
          rw [c1]; show replLast (closeBlock x p1.source p1.lineStart) p1.root = _; rw [hp1src, hp1ls]
        obtain ⟨h', m', e1, e2⟩ := addLineText_closed x ((T p1).closeLastChild x (T p1).lineStart) h tl
          (by rw [hroot3, (replLast_same _ _).1]; exact hla1.root.kind) c2 (by rw [c3]; exact Or.inl rfl)
          (by
            rw [hroot3]
            obtain ⟨l, is, hr⟩ := root_single hb1
            rw [hr, replLast_single, hK]; rfl)
          (by rw [hroot3]; exact hclose.2.2)
        exact LeafOut.closedAt _ h tl h' m' hK e1 e2
    | opened q' kind attrs ht' p2 hc' hs' hk' hl =>
      -- a block start closes `k0` at the start of the line
      have hlaq : LA true (s ++ t).length q' := hla1.of_frame hc'
      have hbq : q'.root.blocks = [k0] := by rw [hc'.root]; exact hb1
      have hkind : kind ≠ BK.listItem := by
        intro e
        have h1 := hk' e
        rw [containerKind_of_cur hc'] at h1
        cases am with
        | true =>
          have : p1.containerKind = k0.kind := by
            rw [containerKind_of_last (by rw [hp1depth]; rfl) (c := k0) (by rw [hb1]; rfl)]; rfl
          rw [this] at h1
          exact hleaf.ne_list h1
        | false =>
          have : p1.containerKind = BK.document := by
            rw [containerKind_depth0 (by rw [hp1depth]; rfl)]; exact hla1.root.kind
          rw [this] at h1
          exact absurd h1 (by decide)
      have hdq : q'.depth = 0 ∨ (q'.depth = 1 ∧ canContain k0.kind kind = false) := by
        rw [hc'.depth, hp1depth]
        cases am with
        | true => exact Or.inr ⟨rfl, hleaf.canContain kind⟩
        | false => exact Or.inl rfl
      obtain ⟨h, tl, m', hK, hb2, hm'⟩ := opened_head x q' p2 k0 kind attrs hlaq hbq hs' hkind hdq hl
      rw [hc'.source, hc'.lineStart, hp1src, hp1ls] at hK
      have hdoc2 : p2.root.label.kind = BK.document := by
        have h1 := (lf_openBlock x kind attrs (LF.refl q')) hlaq.root.kind
        have h2 := hl (by rw [h1.kind]; exact hlaq.root.kind)
        rw [h2.kind, h1.kind]; exact hlaq.root.kind
      -- everything that follows keeps the first child
      have finish : ∀ σ' : LP, LF p2 σ' → LeafOut x (s ++ t) s.length k0 σ' := by
        intro σ' hlf
        obtain ⟨h'', m'', e'', f'', _⟩ := (hlf hdoc2).head h m' hb2
        obtain ⟨a1, _⟩ := f'' hm'
        exact LeafOut.closedAt σ' h tl h'' m'' hK e'' (by rw [a1]; exact FlagRel.refl h)
      simp only []
      have tail : ∀ p3 : LP, LF p2 p3 → LeafOut x (s ++ t) s.length k0 (if ht' = true then addLineText x p3 else p3) := by
        intro p3 h3
        split
        · exact finish _ (h3.trans (lf_addLineText x p3))
        · exact finish _ h3
      split
      · exact tail _ (LF.refl _)
      · split
        · exact tail _ (lf_setDepth _ (LF.refl _))
        · exact tail _ (lf_closeLastChild x _ (LF.refl _))
    | setext q' level hc' hs' hi' hk' =>
      -- the paragraph becomes a setext heading, closed at the end of the line
      have hlaq : LA true (s ++ t).length q' := hla1.of_frame hc'
      have hbq : q'.root.blocks = [k0] := by rw [hc'.root]; exact hb1
      have ham : am = true := by
        cases am with
        | true => rfl
        | false =>
          exfalso
          have : q'.containerKind = BK.document := by
            rw [containerKind_of_cur hc', containerKind_depth0 (by rw [hp1depth]; rfl)]; exact hla1.root.kind
          rw [this] at hk'
          exact absurd hk' (by decide)
      subst ham
      have hdq : q'.depth = 1 := by rw [hc'.depth, hp1depth]; rfl
      have hkpara : k0.label.kind = BK.paragraph := by
        have : q'.containerKind = k0.label.kind := containerKind_of_last hdq (c := k0) (by rw [hbq]; rfl)
        rw [← this]; exact hk'
      simp only [if_true, Bool.false_eq_true, if_false]
      -- the three steps of `setextClose`
      obtain ⟨l, is, hr⟩ := root_single hbq
      let f : PB → PB := PB.setLabel fun l => { l with kind := BK.setextHeading, n := level }
      have hq2root : (q'.modifyContainer f).root.blocks = [f k0] := by
        show (spineModify f q'.root q'.depth).blocks = _
        rw [hdq, hr, spineModify_one_single]; rfl
      obtain ⟨c1, c2, _, _⟩ := consumeLine_frame (q'.modifyContainer f)
      have hcons := c2 hs'
      have hi3 : (q'.modifyContainer f).consumeLine.i = t.length := by
        rw [consumeLine_i (q'.modifyContainer f) hlaq.ile]
        show q'.line.length = _
        rw [hc'.line, hp1line]
      generalize hq3 : (q'.modifyContainer f).consumeLine = q3 at c1 hcons hi3
      have hend : setextClose x q' level = q3.markMatched.closeContainer x (q3.markMatched.lineStart + q3.markMatched.i) := by
        unfold setextClose
        show (((q'.modifyContainer f).consumeLine).endBlock x) = _
        rw [hq3, endBlock_eq x q3 (by rw [hcons]; decide)]
      obtain ⟨m1, _, m3, _⟩ := markMatched_frame q3
      have hkS : (f k0).label.stop < 0 ∧ (f k0).blocks = [] ∧ (f k0).label.kind = BK.setextHeading := by
        cases k0 with
        | mk l0 bs0 is0 => exact ⟨ho, hk, rfl⟩
      refine LeafOut.closedEol _ (f k0) hkS.1 hkS.2.1 (Or.inr ⟨hkS.2.2, hkpara⟩) ?_
      rw [hend, closeContainer_depth1 x q3.markMatched _ (f k0) (by rw [m1.depth, c1.depth]; exact hdq)
        (by rw [m1.root, c1.root]; exact hq2root)]
      rw [m1.source, c1.source, m1.lineStart, c1.lineStart, m3, hi3]
      show closeBlock x q'.source ((q'.lineStart : Int) + (t.length : Int)) (f k0) = _
      rw [hc'.source, hc'.lineStart, hp1src, hp1ls, hlen]

end CM.Proofs.Rp
