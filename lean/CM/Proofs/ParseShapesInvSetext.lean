import CM.Proofs.ParseShapesInvOps
import CM.Proofs.RefDefSpansLine3
/-
C13 for the whole of `Parse`, part 7 (block phase): **the setext heading.**

`startSetext` turns the open paragraph into a setext heading and closes it; `onCloseParagraph` may split link reference
definitions off and, if nothing is left, makes the *orphan* paragraph whose text is the underline.  `orphan_PQ`: that text
run starts in the underline's line (the backward scan stops at the start of the run of `=` / `-`, which cannot reach back
over the line ending before the line), so it is a non-blank line.  The orphan ends at `|S|`, beyond the bound `bd` of the
line being processed: the result of `startSetext` satisfies `PQ S |S|` (the line is consumed).
-/
namespace CM.Proofs.PSh
open CM CM.Model CM.Gen CM.Spec
open CM.Proofs.BSp CM.Proofs.BT CM.Proofs.BG CM.Proofs.RDS

/-- The start of the line `S[ls:]` follows a line ending (or is the start of `S`, or its end: the empty end-of-input
    line). -/
def LsOK (S : Bytes) (ls : Nat) : Prop := ls = 0 ∨ RDC.isEolB (S.getD (ls - 1) 0) = true ∨ S.length ≤ ls

/-! ### scanning back -/

/-- The run of `c` at the end of `pre`. -/
theorem scanRun (c : UInt8) (pre : Bytes) :
    (pre.reverse.dropWhile (· == c)).length ≤ pre.length ∧
    ∀ j, (pre.reverse.dropWhile (· == c)).length ≤ j → j < pre.length → pre.getD j 0 = c := by
  have hsplit := List.takeWhile_append_dropWhile (p := (· == c)) (l := pre.reverse)
  generalize hR : pre.reverse.dropWhile (· == c) = R at hsplit
  generalize hT : pre.reverse.takeWhile (· == c) = T at hsplit
  have hTall : ∀ t ∈ T, t = c := by
    intro t ht
    rw [← hT] at ht
    have := mem_takeWhile_p _ _ _ ht
    simpa using this
  have hpre : pre = R.reverse ++ T.reverse := by
    have := congrArg List.reverse hsplit
    simpa [List.reverse_append] using this.symm
  have hlen : pre.length = R.length + T.length := by rw [hpre]; simp
  refine ⟨by omega, fun j h1 h2 => ?_⟩
  rw [hpre, List.getD_eq_getElem?_getD, List.getElem?_append_right (by simp; omega)]
  simp only [List.length_reverse]
  have hj : j - R.length < T.reverse.length := by simp; omega
  rw [List.getElem?_eq_getElem hj]
  simp only [Option.getD_some]
  exact hTall _ (List.mem_reverse.1 (List.getElem_mem hj))

/-- The backward scan of `onCloseParagraph` over `pre ++ c…c ++ white space` stops on the `c` that begins the run of
    `c` at the end of `pre ++ c…c`. -/
theorem scanBack' (c : UInt8) (hc : Gen.isSpaceTabOrLineEnding c = false) (pre w : Bytes) (m : Nat) (hm : 1 ≤ m)
    (hw : w.all Gen.isSpaceTabOrLineEnding = true) (body : Bytes) (hb : body = pre ++ (List.replicate m c ++ w)) :
    (∃ rest', body.reverse.dropWhile Gen.isSpaceTabOrLineEnding = c :: rest') ∧
      ((body.reverse.dropWhile Gen.isSpaceTabOrLineEnding).dropWhile (· == c)).length =
        (pre.reverse.dropWhile (· == c)).length := by
  obtain ⟨m', rfl⟩ : ∃ m', m = m' + 1 := ⟨m - 1, by omega⟩
  have hrev : body.reverse = w.reverse ++ (List.replicate (m' + 1) c ++ pre.reverse) := by
    rw [hb]; simp [List.reverse_append]
  have h1 : body.reverse.dropWhile Gen.isSpaceTabOrLineEnding = List.replicate (m' + 1) c ++ pre.reverse := by
    rw [hrev, dropWhile_append_all _ _ _ (by simpa using hw)]
    simp only [List.replicate_succ, List.cons_append, List.dropWhile_cons, hc, Bool.false_eq_true, if_false]
  rw [h1]
  have h2 : (List.replicate (m' + 1) c ++ pre.reverse).dropWhile (· == c) = pre.reverse.dropWhile (· == c) := by
    apply dropWhile_append_all
    simp
  rw [h2]
  exact ⟨⟨List.replicate m' c ++ pre.reverse, by simp [List.replicate_succ]⟩, rfl⟩

/-! ### the orphan paragraph -/

theorem isIndent_mkInline_unparsed (a b : Int) : isIndent (mkInline IK.unparsed a b) = false := rfl

/-- The orphan paragraph of a setext heading whose lines end at or before the start `ls` of the underline's line:
    its text run is a non-blank line. -/
theorem orphan_PQ {S : Bytes} {bd : Int} (l : PLabel) (is : List Tree) (ls : Nat)
    (hN : ∀ t ∈ is, NodeOK S t ∧ t.label.stop ≤ bd) (hbd : bd ≤ (ls : Int)) (hstop : l.stop = (S.length : Int))
    (A bai : Bytes) (hsrc : S = A ++ bai) (hA : ls ≤ A.length) (hbai : parseSetextHeadingUnderline bai ≠ 0)
    (hLO : LineOK (S.drop ls)) (hls : ls ≤ S.length) (hlsOK : LsOK S ls) :
    AllQ S (S.length : Int) [orphanOf S l is] := by
  obtain ⟨c, m, w, hcws, _, hm, hbaie, hw⟩ := underline_shape bai hbai
  have hbs : ((is.getLast?.map (fun t : Tree => t.label.stop)).getD 0).toNat ≤ ls := by
    cases hgl : is.getLast? with
    | none => simp
    | some t =>
      have := (hN t (List.mem_of_getLast? hgl)).2
      simp only [Option.map_some, Option.getD_some]
      omega
  generalize hbsd : (is.getLast?.map (fun t : Tree => t.label.stop)).getD 0 = bs at hbs
  have hstopN : l.stop.toNat = S.length := by rw [hstop]; simp
  have hbody : (S.take l.stop.toNat).drop bs.toNat = A.drop bs.toNat ++ (List.replicate m c ++ w) := by
    rw [hstopN, List.take_length, hsrc, List.drop_append_of_le_length (by omega), hbaie]
  obtain ⟨⟨rest', h1⟩, h2⟩ := scanBack' c hcws (A.drop bs.toNat) w m hm hw _ hbody
  obtain ⟨hK1, hK2⟩ := scanRun c (A.drop bs.toNat)
  have horph : orphanOf S l is = mkPB BK.paragraph bs (-1)
      [mkInline IK.unparsed ((bs.toNat + (((((S.take l.stop.toNat).drop bs.toNat).reverse.dropWhile Gen.isSpaceTabOrLineEnding).dropWhile (· == c)).length : Nat) : Nat)) l.stop] := by
    unfold orphanOf
    simp only [hbsd]
    rw [h1]
  rw [horph, h2]
  generalize hk : ((A.drop bs.toNat).reverse.dropWhile (· == c)).length = K at hK1 hK2
  rw [List.length_drop] at hK1 hK2
  have hAl : S.length = A.length + bai.length := by rw [hsrc]; simp
  have hbl : 1 ≤ bai.length := by rw [hbaie]; simp; omega
  have hc1 : c ≠ SP ∧ c ≠ TAB ∧ c ≠ LF ∧ c ≠ CR := by
    refine ⟨?_, ?_, ?_, ?_⟩ <;> (intro e; rw [e] at hcws; revert hcws; decide)
  -- the run of `c` before the underline lies in the source
  have hrun : ∀ j, bs.toNat + K ≤ j → j < A.length → S.getD j 0 = c := by
    intro j h1 h2
    have := hK2 (j - bs.toNat) (by omega) (by omega)
    rw [getD_drop_add] at this
    have e : bs.toNat + (j - bs.toNat) = j := by omega
    rw [e] at this
    rw [hsrc, List.getD_eq_getElem?_getD, List.getElem?_append_left h2, ← List.getD_eq_getElem?_getD]
    exact this
  -- the text starts in the line
  have hge : ls ≤ bs.toNat + K := by
    rcases hlsOK with h0 | h0 | h0
    · omega
    · apply Classical.byContradiction
      intro hlt
      have := hrun (ls - 1) (by omega) (by omega)
      rw [this] at h0
      revert h0
      unfold RDC.isEolB
      simp [hc1.2.2.1, hc1.2.2.2]
    · omega
  apply AllQ.single
  rw [mkPB, PQ_mk]
  refine ⟨⟨fun _ => ⟨fun t ht h0 => ?_, fun t ht => (by simp only [PB.inlines, List.tail_cons] at ht; cases ht)⟩,
    fun ha => absurd (show BK.paragraph = BK.atxHeading from ha) (by decide)⟩, fun _ h => (by cases h)⟩
  simp only [PB.inlines, List.mem_singleton] at ht
  subst ht
  have hstart : (mkInline IK.unparsed ((bs.toNat + K : Nat) : Int) l.stop).label.start = ((bs.toNat + K : Nat) : Int) := rfl
  have hstp : (mkInline IK.unparsed ((bs.toNat + K : Nat) : Int) l.stop).label.stop = (S.length : Int) := hstop
  refine ⟨⟨fun hi => (by rw [isIndent_mkInline_unparsed] at hi; cases hi), fun _ => ?_⟩, (by rw [hstp]; omega),
    (by rw [hstp]; omega)⟩
  rw [hstart, hstp]
  refine ⟨by omega, eol_line hLO hls _ (by omega), A.length, by omega, by omega, c, ?_, hc1⟩
  rw [hsrc, List.getElem?_append_right (Nat.le_refl _), Nat.sub_self, hbaie]
  obtain ⟨m', rfl⟩ : ∃ m', m = m' + 1 := ⟨m - 1, by omega⟩
  simp [List.replicate_succ]

/-! ### `startSetext` -/

/-- The tree operation of `startSetext` on a tree whose container (depth `d + 1`) is a paragraph. -/
theorem setext_tree_PQ {S : Bytes} {bd : Int} (x : PExt) (root : PB) (d : Nat) (n : Int) (ls : Nat) (hg : GoodT S bd root)
    (hq : PQ S bd root)
    (P : PB) (hP : spineGet root (d + 1) = some P) (hkP : P.kind = BK.paragraph) (hbd : bd ≤ (ls : Int))
    (A bai : Bytes) (hsrc : S = A ++ bai) (hA : ls ≤ A.length) (hbai : parseSetextHeadingUnderline bai ≠ 0)
    (hLO : LineOK (S.drop ls)) (hls : ls ≤ S.length) (hlsOK : LsOK S ls) :
    PQ S (S.length : Int) (spineReplaceLast (closeBlock x S (S.length : Int))
      (spineModify (PB.setLabel fun l => { l with kind := BK.setextHeading, n := n }) root (d + 1)) d) := by
  have hbS : bd ≤ (S.length : Int) := by omega
  have hq' : PQ S (S.length : Int) root := PQ_mono (List.prefix_refl _) hbS _ hq
  rw [BT.spineReplaceLast_eq, BSp.spineModify_comp]
  apply PQ_spineModify _ d root hq'
  intro b hb hbq
  have hbg : GoodT S bd b := GoodT_spineGet _ _ _ hg hb
  obtain ⟨l, bs, is⟩ := b
  have hgl : bs.getLast? = some P := by
    have := spineGet_succ_eq root d
    rw [hP, hb] at this
    simpa [PB.blocks] using this.symm
  obtain ⟨lP, bsP, isP⟩ := P
  simp only [PB.kind, PB.label] at hkP
  rw [GoodT_mk] at hbg
  rw [PQ_mk] at hbq
  have hPg := hbg.2 _ (List.mem_of_getLast? hgl)
  have hPq := hbq.2 _ (List.mem_of_getLast? hgl)
  rw [GoodT_mk] at hPg
  rw [PQ_mk] at hPq
  have hnew : replaceLastFn (closeBlock x S (S.length : Int))
      (spineModify (PB.setLabel fun l => { l with kind := BK.setextHeading, n := n }) (PB.mk l bs is) 1)
      = PB.mk l (bs.dropLast ++ closeBlock x S (S.length : Int) (.mk { lP with kind := BK.setextHeading, n := n } bsP isP)) is := by
    rw [spineModify_succ, hgl]
    simp only [spineModify_zero, replaceLastFn, List.getLast?_append, List.getLast?_singleton, Option.some_or,
      List.dropLast_concat, PB.setLabel]
  show PQ S (S.length : Int) (replaceLastFn _ _)
  rw [hnew, PQ_mk]
  refine ⟨BlockQ_congr (b := .mk l bs is) rfl rfl hbq.1, ?_⟩
  have hPara : ParaQ S (S.length : Int) isP := hPq.1.1 (Or.inl hkP)
  have hcl : AllQ S (S.length : Int) (closeBlock x S (S.length : Int) (.mk { lP with kind := BK.setextHeading, n := n } bsP isP)) := by
    by_cases ho : lP.stop < 0
    · rw [closeBlock_setext x S _ { lP with kind := BK.setextHeading, n := n } bsP isP ho rfl]
      rcases hPg.1.1 hkP with hN | hNB
      · apply onCloseParagraph_PQ x S _ bsP isP (Or.inr rfl) hPara hPq.2
        intro _
        exact orphan_PQ _ isP ls hN hbd rfl A bai hsrc hA hbai hLO hls hlsOK
      · cases isP with
        | nil => obtain ⟨f, r, e, _⟩ := hNB; cases e
        | cons first rest =>
          rw [onCloseParagraph_cons]
          have hNB' : NoBracket S (first :: rest) := hNB
          have hc := current_of_noBracket hNB' first rest rfl
          simp only [List.length_cons]
          rw [refDefLoop_no_bracket x S _ _ _ _ _ hc]
          exact PQ_para (Or.inr rfl) hPara
    · rw [closeBlock, if_pos (by show lP.stop ≥ 0; omega)]
      apply AllQ.single
      rw [PQ_mk]
      exact ⟨⟨fun _ => hPara, fun ha => absurd (show BK.setextHeading = BK.atxHeading from ha) (by decide)⟩, hPq.2⟩
  intro c hc
  rcases List.mem_append.mp hc with h' | h'
  · exact hbq.2 c ((List.dropLast_sublist bs).subset h')
  · exact hcl c h'

/-- What a block start leaves: `PQ` with the bound of the line, or - if the line is consumed - with the end of the
    source. -/
def PostQ (S : Bytes) (bd : Int) (q' : LP) : Prop :=
  (q'.state ≠ 2 → PQ S bd q'.root) ∧ (q'.state = 2 → PQ S (S.length : Int) q'.root)

theorem PostQ.of_good {S : Bytes} {bd : Int} {q' : LP} (hb : bd ≤ (S.length : Int)) (h : PQ S bd q'.root) : PostQ S bd q' :=
  ⟨fun _ => h, fun _ => PQ_mono (List.prefix_refl _) hb _ h⟩

theorem startSetext_PQ {S : Bytes} {bd : Int} {ls : Nat} (x : PExt) (hbd : bd ≤ (ls : Int)) (hls : ls ≤ S.length)
    (hLO : LineOK (S.drop ls)) (hlsOK : LsOK S ls)
    (q : LP) (h : BT.Inv q) (hs : q.state = 0) (hg : GQ S bd ls q) :
    PostQ S bd (startSetext x q) ∧ ((startSetext x q).state ≠ 2 → startSetext x q = q) := by
  have hbS : bd ≤ (S.length : Int) := by omega
  unfold startSetext
  split
  · exact ⟨PostQ.of_good hbS hg.good, fun _ => rfl⟩
  rename_i hk'
  have hk : q.containerKind = BK.paragraph := by simpa using hk'
  simp only []
  split
  · exact ⟨PostQ.of_good hbS hg.good, fun _ => rfl⟩
  split
  · exact ⟨PostQ.of_good hbS hg.good, fun _ => rfl⟩
  rename_i _ hlev'
  have hlev : parseSetextHeadingUnderline q.bytesAfterIndent ≠ 0 := by simpa using hlev'
  generalize hn : ((parseSetextHeadingUnderline q.bytesAfterIndent : Nat) : Int) = n
  have hd : q.depth ≠ 0 := by
    intro h0
    rw [containerKind_zero q h0, h.tree.root] at hk
    cases hk
  let f : PB → PB := PB.setLabel fun l => { l with kind := BK.setextHeading, n := n }
  have hc1 : CurOK (q.modifyContainer f) := ⟨h.cur.hi, h.cur.htab⟩
  have cl := consumeLine_post (q.modifyContainer f) hc1
  have hst2 : (q.modifyContainer f).consumeLine.state = 2 := cl.st (by show q.state ≤ 2; omega)
  have hfr := fr_consumeLine (q.modifyContainer f)
  generalize (q.modifyContainer f).consumeLine = p2 at cl hst2 hfr
  have hsrc2 : p2.source = S := by rw [fr_source hfr]; exact hg.gi.source
  have hls2 : p2.lineStart = ls := by rw [fr_lineStart hfr]; exact hg.gi.lineStart
  have hdep2 : p2.depth = q.depth := by rw [fr_depth hfr]; rfl
  have hroot2 : p2.root = spineModify f q.root q.depth := by rw [fr_root hfr]; rfl
  have hi2 : p2.i = q.line.length := cl.i
  have hcp : curPos p2 = (S.length : Int) := by
    simp only [curPos, hls2, hi2, hg.gi.line, List.length_drop]
    omega
  rw [BSp.endBlock_eq x p2 (by omega), BSp.closeContainer_eq x _ _ (by show p2.depth ≠ 0; rw [hdep2]; exact hd)]
  have hmm : mm p2.state = 2 := by rw [hst2]; rfl
  refine ⟨⟨fun hne => absurd hmm hne, fun _ => ?_⟩, fun hne => absurd hmm hne⟩
  show PQ S (S.length : Int) (spineReplaceLast (closeBlock x p2.source (curPos p2)) p2.root (p2.depth - 1))
  rw [hsrc2, hcp, hroot2, hdep2]
  obtain ⟨P, hPg⟩ : ∃ P, spineGet q.root q.depth = some P := by
    have := h.tree.valid
    cases hsg : spineGet q.root q.depth with
    | none => rw [hsg] at this; cases this
    | some P => exact ⟨P, rfl⟩
  have hkP : P.kind = BK.paragraph := by rw [← kind_of_container hPg]; exact hk
  obtain ⟨A, hA1, hA2⟩ := src_split q hg.gi.line hls
  have hd1 : q.depth = (q.depth - 1) + 1 := by omega
  have key := setext_tree_PQ x q.root (q.depth - 1) n ls hg.gi.good hg.good P (by rw [← hd1]; exact hPg) hkP hbd A _ hA1 hA2 hlev
    hLO hls hlsOK
  rw [← hd1] at key
  exact key

end CM.Proofs.PSh
