import CM.Proofs.InlineSerPieces
/-
Inline serialisation — part 5: lines.  A line = pieces + an ENDING (end of input without line ending, the final LF of
the container, a soft break LF, the hard breaks `SP SP LF` and `\ LF`); `line_run`: `parseRun` on the run of a line
pushes exactly `lineNodes`; `parseInlines_lines`: the inline phase on a container whose inline children are the runs
of its lines (as the block phase delivers a paragraph) returns exactly the nodes of the lines — no panic, no fuel
exhaustion.  Soft and hard line breaks are the endings of the non-last lines; the last line's ending is dropped.
-/
namespace CM.Proofs.InlSer
open CM CM.Gen CM.Model CM.Model.Inl CM.Proofs.EscText

inductive Ending where
  | eof | lastLF | soft | hardSp | hardBs
deriving DecidableEq

def Ending.len : Ending → Nat
  | .eof => 0 | .lastLF => 1 | .soft => 1 | .hardSp => 3 | .hardBs => 2

def Ending.isLast : Ending → Bool
  | .eof => true | .lastLF => true | _ => false

def Ending.ign : Ending → Bool
  | .hardSp => true | .hardBs => true | _ => false

def EndingAt (src : Bytes) (e0 : Nat) : Ending → Prop
  | .eof => True
  | .lastLF => src[e0]? = some LF
  | .soft => src[e0]? = some LF
  | .hardSp => src[e0]? = some SP ∧ src[e0 + 1]? = some SP ∧ src[e0 + 2]? = some LF
  | .hardBs => src[e0]? = some 0x5C ∧ src[e0 + 1]? = some LF

/-- The nodes of an ending at `e0` with pending text from `ps`. -/
def endNodes (ps e0 : Nat) : Ending → List INode
  | .eof => flushN ps e0
  | .lastLF => flushN ps e0
  | .soft => flushN ps e0 ++ [leafN IK.softBreak e0 (e0 + 1)]
  | .hardSp => flushN ps e0 ++ [leafN IK.hardBreak e0 (e0 + 3)]
  | .hardBs => flushN ps e0 ++ [leafN IK.hardBreak e0 (e0 + 2)]

/-- What the ending does to the state, including the final flush of `parseRun`. -/
def endT (ps e0 : Nat) (e : Ending) (s : IState) : IState :=
  (if e.ign then setIgnP true else id) (pushAll (endNodes ps e0 e) s)

theorem setIgnP_pushP (b : Bool) (n : INode) (s : IState) : setIgnP b (pushP n s) = pushP n (setIgnP b s) := rfl

theorem setIgnP_pushAll (b : Bool) (L : List INode) (s : IState) : setIgnP b (pushAll L s) = pushAll L (setIgnP b s) := by
  induction L generalizing s with
  | nil => rfl
  | cons n L ih =>
    simp only [pushAll, List.foldl_cons] at ih ⊢
    rw [ih, setIgnP_pushP]

/-- **The endings**: the segment from the end of the pieces to the end of the run, then the final flush. -/
theorem ending_seg {c : ICtx} {src : Bytes} {f : Nat → LS → IM (ForInStep LS)} (hf : Steps c src f) (e : Ending)
    (a ps e0 : Nat) (hE : e0 + e.len ≤ src.length) (he : EndingAt src e0 e) :
    ∃ (ps' : Nat) (T : IState → IState), Seg c f a (e0 + e.len) e.isLast e0 ps (e0 + e.len) ps' T ∧
      ∀ s, addLeafP IK.text (ps' : Int) ((e0 + e.len : Nat) : Int) (T s) = endT ps e0 e s := by
  cases e with
  | eof =>
    refine ⟨ps, id, Seg.refl _ _ _ _ _ _ _, fun s => ?_⟩
    simp only [Ending.len, Nat.add_zero, id, addText_flush]
    rfl
  | lastLF =>
    simp only [Ending.len, Ending.isLast] at hE ⊢
    refine ⟨e0 + 1, pushAll (flushN ps e0), Seg.ofStep (by omega) (fun s => pushAll_up _ s) (fun s hs i => ?_), fun s => ?_⟩
    · have := hf.lf i e0 a (e0 + 1) true (ps : Int) s hs (by omega) he
      rw [addText_flush] at this
      simpa using this
    · simp only [addText_flush, flushN, Nat.lt_irrefl, if_false, pushAll_nil]
      rfl
  | soft =>
    simp only [Ending.len, Ending.isLast] at hE ⊢
    refine ⟨e0 + 1, pushAll (flushN ps e0 ++ [leafN IK.softBreak e0 (e0 + 1)]),
      Seg.ofStep (by omega) (fun s => pushAll_up _ s) (fun s hs i => ?_), fun s => ?_⟩
    · have := hf.lf i e0 a (e0 + 1) false (ps : Int) s hs (by omega) he
      have e1 : ((e0 : Nat) : Int) + 1 = ((e0 + 1 : Nat) : Int) := by simp
      have a2 : addLeafP IK.softBreak ((e0 : Nat) : Int) ((e0 + 1 : Nat) : Int) = pushAll [leafN IK.softBreak e0 (e0 + 1)] := by
        rw [addLeafP_cast, if_pos (by omega)]
      rw [e1] at this
      simp only [Bool.false_eq_true, if_false, a2, addText_flush] at this
      rw [this, pushAll_append]
    · simp only [addText_flush, flushN, Nat.lt_irrefl, if_false, pushAll_nil]
      rfl
  | hardSp =>
    simp only [Ending.len, Ending.isLast] at hE ⊢
    obtain ⟨h0, h1, h2⟩ := he
    refine ⟨e0 + 3, setIgnP true ∘ pushAll (flushN ps e0 ++ [leafN IK.hardBreak e0 (e0 + 3)]),
      Seg.ofStep (by omega) (fun s => by simp [Function.comp, pushAll_up]) (fun s hs i => ?_), fun s => ?_⟩
    · have := hf.space i e0 a (e0 + 3) false (ps : Int) s hs (by omega) hE h0
      have hup : upTo src e0 (e0 + 3) = [SP, SP, LF] := by
        rw [upTo_cons h0 (by omega), upTo_cons h1 (by omega), upTo_cons h2 (by omega)]
        simp [upTo]
      have hh : parseHardLineBreakSpace [SP, SP, LF] = (3, true) := by decide
      rw [hup, hh] at this
      have e1 : ((e0 : Nat) : Int) + ((3 : Nat) : Int) = ((e0 + 3 : Nat) : Int) := by simp
      have a2 : addLeafP IK.hardBreak ((e0 : Nat) : Int) ((e0 + 3 : Nat) : Int) = pushAll [leafN IK.hardBreak e0 (e0 + 3)] := by
        rw [addLeafP_cast, if_pos (by omega)]
      simp only [Bool.not_false, Bool.and_self, if_true, e1, a2, addText_flush] at this
      rw [this]
      simp only [Function.comp, pushAll_append]
    · simp only [addText_flush, flushN, Nat.lt_irrefl, if_false, pushAll_nil]
      rfl
  | hardBs =>
    simp only [Ending.len, Ending.isLast] at hE ⊢
    obtain ⟨h0, h1⟩ := he
    refine ⟨e0 + 2, pushAll (flushN ps e0 ++ [leafN IK.hardBreak e0 (e0 + 2)]) ∘ setIgnP true,
      Seg.ofStep (by omega) (fun s => by simp [Function.comp, pushAll_up]) (fun s hs i => ?_), fun s => ?_⟩
    · have := hf.bsEol i e0 a (e0 + 2) (ps : Int) s hs rfl h0 h1
      have e1 : ((e0 : Nat) : Int) + 2 = ((e0 + 2 : Nat) : Int) := by simp
      have a2 : addLeafP IK.hardBreak ((e0 : Nat) : Int) ((e0 + 2 : Nat) : Int) = pushAll [leafN IK.hardBreak e0 (e0 + 2)] := by
        rw [addLeafP_cast, if_pos (by omega)]
      rw [e1, a2, addText_flush] at this
      rw [this]
      simp only [Function.comp, pushAll_append, setIgnP_pushAll]
    · simp only [addText_flush, flushN, Nat.lt_irrefl, if_false, pushAll_nil, Function.comp]
      show _ = setIgnP true (pushAll _ s)
      rw [setIgnP_pushAll]
      rfl

/-- A line: its start, its pieces, its ending. -/
structure Line where
  a : Nat
  P : List Piece
  ending : Ending

def Line.e0 (l : Line) : Nat := l.a + plen l.P
def Line.E (l : Line) : Nat := l.e0 + l.ending.len
def Line.run (l : Line) : Tree := mkInline IK.unparsed (l.a : Int) (l.E : Int)

/-- The nodes of a line. -/
def lineNodes (l : Line) : List INode :=
  (outP l.a l.a l.P).1 ++ endNodes (outP l.a l.a l.P).2 l.e0 l.ending

structure LineOK (c : ICtx) (src : Bytes) (f : Nat → LS → IM (ForInStep LS)) (l : Line) : Prop where
  pieces : PiecesAt c src f l.a l.E l.ending.isLast l.a l.P
  ending : EndingAt src l.e0 l.ending
  le : l.E ≤ src.length
  first : ∃ b, src[l.a]? = some b ∧ b ≠ SP ∧ b ≠ TAB ∧ l.a < l.E

/-- **`parseRun` on the run of a line.** -/
theorem line_run {c : ICtx} {src : Bytes} (hA : c.srcA = src.toArray) {f : Nat → LS → IM (ForInStep LS)}
    (hf : Steps c src f)
    (heq : ∀ s t (p a E : Nat) (last : Bool) (b : UInt8), c.unparsed[s.unparsedPos]? = some t → t.label.start = (p : Int) →
      At c a E last s → p < E → src[p]? = some b → b ≠ SP → b ≠ TAB → (parseRun c).run s = (tokLoop c f).run s)
    (l : Line) (hl : LineOK c src f l) (s : IState) (ht : c.unparsed[s.unparsedPos]? = some l.run)
    (hs : At c l.a l.E l.ending.isLast s) :
    (parseRun c).run s = pure ((), endT (outP l.a l.a l.P).2 l.e0 l.ending (pushAll (outP l.a l.a l.P).1 (setIgnP false s))) := by
  obtain ⟨b, hb, hsp, htab, hlt⟩ := hl.first
  have h1 := pieces_seg hf hl.le l.P l.a l.a hl.pieces
  obtain ⟨ps', T, h2, h3⟩ := ending_seg (c := c) (f := f) hf l.ending l.a (outP l.a l.a l.P).2 l.e0 hl.le hl.ending
  have hseg := h1.trans h2
  rw [parseRun_of_seg hA hf heq hseg s l.run b ht rfl hs hlt hl.le hb hsp htab]
  simp only [Function.comp]
  rw [show ((l.E : Nat) : Int) = ((l.e0 + l.ending.len : Nat) : Int) from rfl, h3]

/-- What `parseRun` does on the run of line `l`. -/
def lineT (l : Line) (s : IState) : IState :=
  endT (outP l.a l.a l.P).2 l.e0 l.ending (pushAll (outP l.a l.a l.P).1 (setIgnP false s))

theorem lineT_up (l : Line) (s : IState) : (lineT l s).unparsedPos = s.unparsedPos := by
  unfold lineT endT
  split <;> simp [pushAll_up]

theorem lineT_mkF (l : Line) (cs ce : Int) (up : Nat) (ign : Bool) (L : List INode) (K : Array DelimE) :
    lineT l (mkF cs ce up ign L K) = mkF cs ce up l.ending.ign (L ++ lineNodes l) K := by
  unfold lineT endT lineNodes
  rw [setIgnP_mkF, pushAll_mkF, pushAll_mkF]
  cases h : l.ending.ign
  · simp
  · simp [setIgnP_mkF]

instance : Inhabited Line := ⟨⟨0, [], .eof⟩⟩

theorem endNodes_kids (ps e0 : Nat) (e : Ending) : ∀ n ∈ endNodes ps e0 e, n.kids = #[] := by
  intro n hn
  cases e <;> simp only [endNodes, flushN, List.mem_append, List.mem_singleton] at hn
  all_goals
    first
    | (split at hn
       · simp only [List.mem_singleton] at hn; subst hn; rfl
       · cases hn)
    | (rcases hn with hn | rfl
       · split at hn
         · simp only [List.mem_singleton] at hn; subst hn; rfl
         · cases hn
       · rfl)

/-- **The inline phase on the lines of a container** (e.g. a paragraph of several lines, as the block phase delivers it:
    one Unparsed run per line): exactly the nodes of the lines, in order — soft and hard breaks between the lines, the last
    line ending dropped.  Hypotheses: every line is well-formed for every loop body that satisfies `Steps` (the side
    conditions of `Piece.node` pieces are segment theorems about the loop), and exactly the last line has a last ending. -/
theorem parseInlines_lines (x : IExt) (src : Bytes) (matchRef : Bytes → Bool) (cs ce : Int) (lines : List Line)
    (hOK : ∀ f, Steps (ctxOf x src matchRef (lines.map Line.run)) src f →
      ∀ l ∈ lines, LineOK (ctxOf x src matchRef (lines.map Line.run)) src f l)
    (hlast : ∀ k, (h : k < lines.length) → lines[k].ending.isLast = decide (k + 1 ≥ lines.length)) :
    parseInlines x src src.toArray matchRef cs ce (lines.map Line.run) =
      .ok ((lines.flatMap lineNodes).map nodeTree) := by
  unfold parseInlines
  show (match (parseBody (ctxOf x src matchRef (lines.map Line.run))).run (mkF cs ce 0 false [] #[]) with
    | Except.error e => Except.error e
    | Except.ok (_, s) => Except.ok (exportNode s.nodes (s.nodes.size + 1) 0).children) = _
  generalize hc : ctxOf x src matchRef (lines.map Line.run) = c at hOK
  have hA : c.srcA = src.toArray := by rw [← hc]; rfl
  have hU : c.unparsed = (lines.map Line.run).toArray := by rw [← hc]; rfl
  have hUL : c.unparsedL = lines.map Line.run := by rw [← hc]; rfl
  have hsz : c.unparsed.size = lines.length := by rw [hU]; simp
  obtain ⟨f, _, heq, hf⟩ := parseRun_steps c src hA
  have hget : ∀ k, (h : k < lines.length) → c.unparsed[k]? = some lines[k].run := by
    intro k h
    rw [hU]; simp [h]
  have hrun := parseBody_runs c
    (by
      intro k h
      have := hget k (by omega)
      rw [Array.getElem?_eq_getElem h] at this
      simp only [Option.some.injEq] at this
      rw [this]
      exact ⟨rfl, rfl⟩)
    (fun k => lineT (lines.getD k default))
    (by
      intro k hk s hs
      have hkl : k < lines.length := by omega
      have hgd : lines.getD k default = lines[k] := by simp [List.getD, hkl]
      rw [hgd]
      refine ⟨?_, by rw [lineT_up]; exact hs⟩
      have hat : At c lines[k].a lines[k].E lines[k].ending.isLast s := by
        refine ⟨by omega, ?_, ?_, ?_⟩
        · unfold spanEndOf
          rw [if_neg (by omega), hs]
          have := hget k hkl
          rw [Array.getElem?_eq_getElem hk] at this
          simp only [Option.some.injEq] at this
          rw [getElem!_pos c.unparsed k hk, this]
          rfl
        · rw [hs, hsz, hlast k hkl]
        · rw [hs, hUL, List.drop_eq_getElem_cons (by simpa using hkl)]
          exact ⟨_, by simp only [List.getElem_map]; rfl⟩
      exact line_run hA hf heq lines[k] (hOK f hf _ (List.getElem_mem _)) s (by rw [hs]; exact hget k hkl) hat)
    (mkF cs ce 0 false [] #[]) rfl
  rw [hrun]
  have hstate : ∀ k, k ≤ lines.length → ∃ ign,
      runAll (fun k => lineT (lines.getD k default)) k (mkF cs ce 0 false [] #[]) =
        mkF cs ce k ign ((lines.take k).flatMap lineNodes) #[] := by
    intro k
    induction k with
    | zero => intro _; exact ⟨false, rfl⟩
    | succ k ih =>
      intro hk
      obtain ⟨ign, hi⟩ := ih (by omega)
      have hgd : lines.getD k default = lines[k] := by simp [List.getD, show k < lines.length by omega]
      refine ⟨lines[k].ending.ign, ?_⟩
      simp only [runAll]
      rw [hi, hgd, lineT_mkF, List.take_add_one, List.flatMap_append]
      simp [setUpP, mkF, show k < lines.length by omega]
  obtain ⟨ign, hfin⟩ := hstate lines.length (Nat.le_refl _)
  rw [hsz, hfin, List.take_length, processEmphasis_empty _ rfl]
  show Except.ok _ = _
  rw [export_mkF]
  intro n hn
  obtain ⟨l, hl, hn⟩ := List.mem_flatMap.1 hn
  rcases List.mem_append.1 hn with hn | hn
  · exact outP_kids l.P l.a l.a (hOK f hf l hl).pieces n hn
  · exact endNodes_kids _ _ _ n hn

end CM.Proofs.InlSer
