import CM.Proofs.ShapesSource
/-
C13, block half — `openNewBlocks` and `processLine`: **one line of the block phase keeps the shape invariant**.
-/
namespace CM.Proofs.Shp
open CM CM.Model CM.Gen CM.Proofs.BG CM.Proofs.BT
open CM.Proofs.BSp (curPos)

/-- A paragraph has no block children. -/
theorem para_no_child {c : PB} (hg : PBGrammar c) (hk : c.kind = BK.paragraph) : c.blocks = [] := by
  obtain ⟨l, bs, is⟩ := c
  have hk' : l.kind = BK.paragraph := hk
  have hloc := ((PBGrammar_mk l bs is).1 hg).1
  unfold localOK at hloc
  simp only [Bool.and_eq_true] at hloc
  have hb := hloc.1
  unfold blocksOK at hb
  rw [hk'] at hb
  have : bs = [] := by simpa [BK.paragraph, BK.document, BK.blockQuote, BK.listItem, BK.list] using hb
  exact this

/-- The state after the descent (line not consumed) is a state at the head of the opening loop. -/
theorem ol_of_descent {setx am : Bool} {p : LP} (h : W setx p.lineStart p)
    (ham : am = false → ∃ c, spineGet p.root (p.depth + 1) = some c) : OL setx am p := by
  have hcur : (p.lineStart : Int) ≤ curPos p := by unfold curPos; omega
  have hcont := BG.container_eq p h.inv.tree.valid
  refine ⟨h.mono hcur, ?_, ?_, ?_⟩
  · intro c hc _
    have hc' : spineGet p.root (p.depth + 1) = some c := by rw [BSp.spineGet_succ_eq, hcont]; exact hc
    obtain ⟨lo', h1, _, h3⟩ := Sh_spineGet (p.depth + 1) p.root 0 c h.sh hc'
    exact ⟨lo', h1, h3⟩
  · left; right
    obtain ⟨lo', h1, _, h3⟩ := Sh_spineGet p.depth p.root 0 p.container h.sh hcont
    exact ⟨lo', h1, h3⟩
  · intro hf hk
    obtain ⟨c, hc⟩ := ham hf
    rw [BSp.spineGet_succ_eq, hcont] at hc
    have := para_no_child (PBG_container p h.inv.tree h.g) hk
    simp only [Option.bind_some] at hc
    rw [this] at hc
    cases hc

/-- What `openNewBlocks` hands to `addLineText` (or leaves, when the line is consumed). -/
structure ONR (setx : Bool) (r : Bool × LP) : Prop where
  txt : r.1 = true → W setx (curPos r.2) r.2 ∧ (acceptsLines r.2.containerKind = false → ChB setx r.2 ∧ ChC setx r.2)
  notxt : r.1 = false → ∃ e : Int, e ≤ r.2.source.length ∧ Sh setx r.2.source 0 e r.2.root

theorem openNewBlocks_ONR {setx : Bool} (x : PExt) (hsx : SetextStep setx x) (p : LP) (am : Bool) (h : W setx p.lineStart p)
    (ham : am = false → ∃ c, spineGet p.root (p.depth + 1) = some c) : ONR setx (openNewBlocks x p am) := by
  unfold openNewBlocks
  split
  · -- end of input: the document is closed at the start of the (empty) line
    refine ⟨fun h' => (by cases h'), fun _ => ⟨p.lineStart, ?_, ?_⟩⟩
    · show (p.lineStart : Int) ≤ ((LP.closeContainer x { p with depth := 0 } p.lineStart).source.length : Int)
      rw [(closeContainer_source x _ _).1]
      exact Int.ofNat_le.mpr h.src.le
    · have h0 := h.setDepth 0 (Nat.zero_le _)
      show Sh setx (LP.closeContainer x { p with depth := 0 } p.lineStart).source 0 p.lineStart
        (LP.closeContainer x { p with depth := 0 } p.lineStart).root
      rw [(closeContainer_source x _ _).1]
      apply closeContainer_Sh x { p with depth := 0 } (Int.le_refl _) (Int.ofNat_le.mpr h.src.le) (by omega) h0.inv.tree h0.g h0.sh h0.co
      have hc : ({ p with depth := 0 } : LP).container = p.root := by
        unfold LP.container; show (spineGet p.root 0).getD _ = _; rw [spineGet_zero]; rfl
      rw [hc]
      exact ⟨0, Int.le_refl _, h.sh⟩
  · have ol := openingLoop_OLR (am := am) x hsx (p.line.length + 8) p (ol_of_descent h ham)
    have olp := openingLoop_post x (p.line.length + 8) p h.inv (fun h' => by omega)
    generalize openingLoop x (p.line.length + 8) p = r at ol olp
    obtain ⟨hasText, q⟩ := r
    simp only [] at ol olp ⊢
    have hnotxt : ∃ e : Int, e ≤ q.source.length ∧ Sh setx q.source 0 e q.root :=
      ⟨curPos q, curPos_le_src ol.w.src ol.w.inv.cur, ol.w.sh⟩
    split
    · refine ⟨fun ht => ⟨ol.w, fun hna => ?_⟩, fun _ => hnotxt⟩
      obtain ⟨b, c⟩ := ol.txt ht
      refine ⟨b, ?_⟩
      rcases c with c | c
      · exact c
      · rw [hna] at c; cases c
    · rename_i ham'
      have hamf : am = false := by simpa using ham'
      have hB : ChB setx q := by
        rcases ol.chB with b | b
        · exact b
        · rw [hamf] at b; cases b.2
      split
      · -- lazy continuation: the text goes to the paragraph at the tip
        rename_i hc
        simp only [Bool.and_eq_true, beq_iff_eq] at hc
        have hk := hc.2
        have hv : (spineGet q.root (tipDepth q.root 0)).isSome := by
          cases hsg : spineGet q.root (tipDepth q.root 0) with
          | none =>
            rw [hsg] at hk
            have := ol.w.inv.tree.root
            simp only [Option.getD_none] at hk
            rw [hk] at this; cases this
          | some c => rfl
        have hi : Inv ({ q with depth := tipDepth q.root 0 } : LP) :=
          ⟨ol.w.inv.panic, ⟨ol.w.inv.cur.hi, ol.w.inv.cur.htab⟩, ⟨ol.w.inv.tree.root, hv⟩⟩
        have hkk : ({ q with depth := tipDepth q.root 0 } : LP).containerKind = BK.paragraph := hk
        have hco' : ({ q with depth := tipDepth q.root 0 } : LP).container.label.stop < 0 := by
          have hso := BSp.tipDepth_open q.root (by
            have := Sh_spine_open_at ol.w.sh (BG.container_eq q ol.w.inv.tree.valid) ol.w.co 0 (Nat.zero_le _) q.root (spineGet_zero _)
            exact this)
          obtain ⟨l, hl, hlo⟩ := hso (tipDepth q.root 0) (Nat.le_refl _)
          have := container_label ({ q with depth := tipDepth q.root 0 } : LP) l hl
          rw [this]; exact hlo
        refine ⟨fun _ => ⟨⟨hi, ol.w.g, ⟨ol.w.src.line, ol.w.src.le⟩, ol.w.le, ol.w.sh, hco'⟩, fun hna => ?_⟩, fun _ => hnotxt⟩
        rw [hkk] at hna
        have : acceptsLines BK.paragraph = true := by decide
        rw [this] at hna; cases hna
      · obtain ⟨w', b', c'⟩ := closeLastChild_L x q ol.w hB
        have hcp : curPos (q.closeLastChild x q.lineStart) = curPos q := rfl
        refine ⟨fun ht => ⟨by rw [hcp]; exact w', fun hna => ⟨b', c' ?_⟩⟩, fun _ => ⟨curPos q, ?_, w'.sh⟩⟩
        · obtain ⟨_, c⟩ := ol.txt ht
          rw [closeLastChild_containerKind x q _ ol.w.inv.tree] at hna
          rcases c with c | c
          · exact c
          · rw [hna] at c; cases c
        · exact curPos_le_src ol.w.src ol.w.inv.cur

/-- **`processLine` keeps the shape invariant.** If every block of the tree under construction is good up to the start
    of the line (`Sh … lineStart`), then after the line every block is good up to the end of the source. -/
theorem processLine_Sh {setx : Bool} (x : PExt) (hsx : SetextStep setx x) (p : LP) (h : W setx p.lineStart p) :
    Sh setx p.source 0 p.source.length (processLine x p).root := by
  unfold processLine
  have d := descendLoop_W x (spineLength p.root + 1) p 0 (h.setDepth 0 (Nat.zero_le _))
  have ds := sl_descendLoop x (spineLength p.root + 1) p 0
  unfold descendOpenBlocks
  generalize descendLoop x (spineLength p.root + 1) p 0 = r at d ds
  obtain ⟨am, p1⟩ := r
  simp only [] at d ds ⊢
  have hs1 : p1.source = p.source := congrArg Prod.fst ds
  split
  · obtain ⟨e, he, w⟩ := d.any
    have := Sh_mono he _ 0 0 (Int.le_refl _) w.sh
    rw [hs1] at this
    exact this
  · rename_i hne
    have hne' : p1.state ≠ 4 := by
      intro e4; apply hne; simp [e4, stateDescendTerminated]
    obtain ⟨w1, ham⟩ := d.live hne'
    have on := openNewBlocks_ONR x hsx p1 am w1 ham
    have onp := openNewBlocks_post x p1 am w1.inv
    have os := sl_openNewBlocks x p1 am
    generalize openNewBlocks x p1 am = r2 at on onp os
    obtain ⟨hasText, p2⟩ := r2
    simp only [] at on onp os ⊢
    have hs2 : p2.source = p.source := by rw [← hs1]; exact congrArg Prod.fst os
    split
    · rename_i ht
      obtain ⟨w2, hch⟩ := on.txt ht
      have := (addLineText_Sh x p2 w2 (onp.st ht) hch).1
      rw [hs2] at this
      exact this
    · rename_i ht
      have ht' : hasText = false := by simpa using ht
      obtain ⟨e, he, hsh⟩ := on.notxt ht'
      have := Sh_mono he _ 0 0 (Int.le_refl _) hsh
      rw [hs2] at this
      exact this

end CM.Proofs.Shp
