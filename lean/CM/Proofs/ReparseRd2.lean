import CM.Proofs.ReparseRd1
/-
C16, `ParaCloseLocal`, part 2: link labels, destinations and titles read the same on `s ++ u` as on `s`; when the
text ends in a line ending, a valid label / destination / title leaves the reader inside the text.
-/
namespace CM.Proofs.Rp
open CM CM.Model CM.Gen CM.Proofs

section
variable {s u : Bytes} {b lb : Nat}

/-- The last byte of the text is a line ending. -/
def LastEOL (s : Bytes) (b : Nat) : Prop := s.getD (b - 1) 0 = LF ∨ s.getD (b - 1) 0 = CR

/-- A `next` that fails inside the text was on a line ending. -/
theorem Ins.last_eol (hE : LastEOL s b) {r : Rd} (h : Ins b lb r) {c : UInt8} (hc : CurB s r.pos c)
    (hok : (r.next s).1 = false) : c = LF ∨ c = CR := by
  obtain ⟨_, _, hp⟩ := h.nxt_fail (s := s) hok
  have hpos : r.pos = b - 1 := by omega
  rw [hpos] at hc
  rcases hc with ⟨_, e⟩ | ⟨e, _⟩
  · rw [e]; exact hE
  · rcases hE with h' | h' <;> rw [e] at h' <;> exact absurd h' (by decide)

theorem labelSkip_two (hb : b ≤ s.length) : ∀ (f1 f2 : Nat) (r : Rd) (chars : Nat), Ins b lb r → b - r.pos < f1 → b - r.pos < f2 →
    labelSkip (s ++ u) f1 r chars = labelSkip s f2 r chars ∧
    (∀ r' n, labelSkip s f2 r chars = some (r', n) → Ins b lb r') := by
  intro f1
  induction f1 with
  | zero => intro f2 r _ _ h1 _; omega
  | succ f1 ih =>
    intro f2 r chars h h1 h2
    obtain ⟨f2, rfl⟩ : ∃ g, f2 = g + 1 := ⟨f2 - 1, by omega⟩
    have hlt := h.2.2
    simp only [labelSkip]
    rw [nxt_eq hb h.1]
    rcases hn : r.next s with ⟨ok, r1⟩
    simp only
    cases ok with
    | false => exact ⟨by first | rfl | trivial, fun _ _ hh => by simp at hh⟩
    | true =>
      simp only [Bool.not_true, Bool.false_eq_true, if_false]
      obtain ⟨j1, j2⟩ := h.nxt (s := s) (by rw [hn])
      rw [hn] at j1 j2
      simp only at j1 j2
      rw [cur_eq hb j1.2.2]
      obtain ⟨i1, p1, _⟩ := j1.cur (lb := lb) hb
      rcases hc : r1.current s with ⟨c, r2⟩
      rw [hc] at i1 p1
      simp only at i1 p1 ⊢
      split
      · exact ⟨by first | rfl | trivial, fun _ _ hh => by simp at hh⟩
      · split
        · refine ⟨by first | rfl | trivial, fun r' n hh => ?_⟩
          simp only [Option.some.injEq, Prod.mk.injEq] at hh
          rw [← hh.1]; exact i1
        · exact ih f2 r2 (chars + 1) i1 (by omega) (by omega)

theorem labelBody_two (hb : b ≤ s.length) : ∀ (f1 f2 : Nat) (r : Rd) (chars : Nat) (ie : Int), Ins b lb r → b - r.pos < f1 →
    b - r.pos < f2 →
    labelBody (s ++ u) f1 r chars ie = labelBody s f2 r chars ie ∧
    (∀ r' ie', labelBody s f2 r chars ie = some (r', ie') → Ins b lb r') := by
  intro f1
  induction f1 with
  | zero => intro f2 r _ _ _ h1 _; omega
  | succ f1 ih =>
    intro f2 r chars ie h h1 h2
    obtain ⟨f2, rfl⟩ : ∃ g, f2 = g + 1 := ⟨f2 - 1, by omega⟩
    have hlt := h.2.2
    simp only [labelBody]
    rw [cur_eq hb h.2.2]
    obtain ⟨i1, p1, _⟩ := h.cur (lb := lb) hb
    rcases hc : r.current s with ⟨c, r1⟩
    rw [hc] at i1 p1
    simp only at i1 p1 ⊢
    rw [nxt_eq hb i1.1]
    rcases hn : r1.next s with ⟨ok, r2⟩
    have hnx := fun hok => i1.nxt (s := s) (lb := lb) (r := r1) hok
    rw [hn] at hnx
    simp only at hnx ⊢
    split
    · refine ⟨by first | rfl | trivial, fun r' ie' hh => ?_⟩
      simp only [Option.some.injEq, Prod.mk.injEq] at hh
      rw [← hh.1]; exact i1
    · split
      · split
        · exact ⟨by first | rfl | trivial, fun _ _ hh => by simp at hh⟩
        · cases ok with
          | false => exact ⟨by first | rfl | trivial, fun _ _ hh => by simp at hh⟩
          | true =>
            simp only [Bool.not_true, Bool.false_eq_true, if_false]
            obtain ⟨j1, j2⟩ := hnx rfl
            rw [cur_eq hb j1.2.2]
            obtain ⟨l1, q1, _⟩ := j1.cur (lb := lb) hb
            rcases hc2 : r2.current s with ⟨c2, r3⟩
            rw [hc2] at l1 q1
            simp only at l1 q1 ⊢
            rw [nxt_eq hb l1.1]
            rcases hn3 : r3.next s with ⟨ok3, r4⟩
            simp only
            cases ok3 with
            | false => exact ⟨by first | rfl | trivial, fun _ _ hh => by simp at hh⟩
            | true =>
              simp only [Bool.not_true, Bool.false_eq_true, if_false]
              obtain ⟨m1, m2⟩ := l1.nxt (s := s) (by rw [hn3])
              rw [hn3] at m1 m2
              simp only at m1 m2
              exact ih f2 r4 _ _ m1 (by omega) (by omega)
      · cases ok with
        | false => exact ⟨by first | rfl | trivial, fun _ _ hh => by simp at hh⟩
        | true =>
          simp only [Bool.not_true, Bool.false_eq_true, if_false]
          obtain ⟨j1, j2⟩ := hnx rfl
          exact ih f2 r2 _ _ j1 (by omega) (by omega)

theorem noLabel_invalid : noLabel.span.isValid = false := by decide
theorem noDest_invalid : noDest.span.isValid = false := by decide
theorem noTitle_invalid : noTitle.span.isValid = false := by decide

/-- `parseLinkLabel`: same on both sources; a valid label starts its inner text at a position inside the text and
    (the text ending in a line ending) leaves the reader inside the text. -/
theorem parseLinkLabel_two (hb : b ≤ s.length) (hE : LastEOL s b) (f1 f2 : Nat) (r : Rd) (h : Ins b lb r) (h1 : b - r.pos < f1)
    (h2 : b - r.pos < f2) :
    parseLinkLabel (s ++ u) f1 r = parseLinkLabel s f2 r ∧
    ((parseLinkLabel s f2 r).1.span.isValid = true → Ins b lb (parseLinkLabel s f2 r).2 ∧
      ∃ q, Ins b lb q ∧ (parseLinkLabel s f2 r).1.inner.start = (q.pos : Int)) := by
  simp only [parseLinkLabel]
  rw [cur_eq hb h.2.2]
  obtain ⟨i1, p1, _⟩ := h.cur (lb := lb) hb
  rcases hc : r.current s with ⟨c, r1⟩
  rw [hc] at i1 p1
  simp only at i1 p1 ⊢
  split
  · exact ⟨by first | rfl | trivial, fun hv => by rw [noLabel_invalid] at hv; cases hv⟩
  · obtain ⟨e1, k1⟩ := labelSkip_two (u := u) (lb := lb) hb f1 f2 r1 0 i1 (by omega) (by omega)
    rw [e1]
    cases hs : labelSkip s f2 r1 0 with
    | none => exact ⟨by first | rfl | trivial, fun hv => by rw [noLabel_invalid] at hv; cases hv⟩
    | some pr =>
      obtain ⟨r2, chars⟩ := pr
      have i2 := k1 r2 chars hs
      simp only
      have hle : r1.pos ≤ r2.pos := by
        have := labelSkip_I (rwl_closed (src := s) (b := b) (lb := r1.pos) hb) f2 r1 0 r2 chars ⟨i1.1, Nat.le_refl _⟩ hs
        exact this.2
      obtain ⟨e2, k2⟩ := labelBody_two (u := u) (lb := lb) hb f1 f2 r2 chars (-1) i2 (by omega) (by omega)
      rw [e2]
      cases hbd : labelBody s f2 r2 chars (-1) with
      | none => exact ⟨by first | rfl | trivial, fun hv => by rw [noLabel_invalid] at hv; cases hv⟩
      | some pr2 =>
        obtain ⟨r3, ie⟩ := pr2
        have i3 := k2 r3 ie hbd
        simp only
        rw [cur_eq hb i3.2.2]
        obtain ⟨i4, p4, cb4⟩ := i3.cur (lb := lb) hb
        rcases hc4 : r3.current s with ⟨c4, r4⟩
        rw [hc4] at i4 p4 cb4
        simp only at i4 p4 cb4 ⊢
        split
        · exact ⟨by first | rfl | trivial, fun hv => by rw [noLabel_invalid] at hv; cases hv⟩
        · rename_i hc5
          have hc5' : c4 = 0x5D := by simpa using hc5
          rw [nxt_eq hb i4.1]
          refine ⟨by first | rfl | trivial, fun _ => ⟨?_, r2, i2, rfl⟩⟩
          cases hok : (r4.next s).1 with
          | true => exact (i4.nxt hok).1
          | false =>
            exfalso
            rw [← p4] at cb4
            rcases i4.last_eol hE cb4 hok with e | e <;> rw [hc5'] at e <;> exact absurd e (by decide)

theorem destAngle_two (hb : b ≤ s.length) (hE : LastEOL s b) (start : Nat) : ∀ (f1 f2 : Nat) (r : Rd), Ins b lb r →
    b - r.pos < f1 → b - r.pos < f2 →
    destAngle (s ++ u) start f1 r = destAngle s start f2 r ∧
    (∀ d r', destAngle s start f2 r = (d, r') → d.span.isValid = true → Ins b lb r' ∧ r.pos + 1 < b) := by
  intro f1
  induction f1 with
  | zero => intro f2 r _ h1 _; omega
  | succ f1 ih =>
    intro f2 r h h1 h2
    obtain ⟨f2, rfl⟩ : ∃ g, f2 = g + 1 := ⟨f2 - 1, by omega⟩
    have hlt := h.2.2
    have bad : ∀ (d : LinkDest) (r' q : Rd), (noDest, q) = (d, r') → d.span.isValid = true → Ins b lb r' ∧ r.pos + 1 < b := by
      intro d r' q hh hv
      simp only [Prod.mk.injEq] at hh
      rw [← hh.1, noDest_invalid] at hv; cases hv
    simp only [destAngle]
    rw [nxt_eq hb h.1]
    rcases hn : r.next s with ⟨ok, r1⟩
    simp only
    cases ok with
    | false => exact ⟨by first | rfl | trivial, fun d r' => bad d r' _⟩
    | true =>
      simp only [Bool.not_true, Bool.false_eq_true, if_false]
      obtain ⟨j1, j2⟩ := h.nxt (s := s) (by rw [hn])
      rw [hn] at j1 j2
      simp only at j1 j2
      have hj := j1.2.2
      rw [cur_eq hb j1.2.2]
      obtain ⟨i1, p1, cb1⟩ := j1.cur (lb := lb) hb
      rcases hc : r1.current s with ⟨c, r2⟩
      rw [hc] at i1 p1 cb1
      simp only at i1 p1 cb1 ⊢
      rw [nxt_eq hb i1.1]
      rcases hn2 : r2.next s with ⟨ok2, r3⟩
      simp only
      split
      · exact ⟨by first | rfl | trivial, fun d r' => bad d r' _⟩
      · split
        · cases ok2 with
          | false => exact ⟨by first | rfl | trivial, fun d r' => bad d r' _⟩
          | true =>
            simp only [Bool.not_true, Bool.false_eq_true, if_false]
            obtain ⟨m1, m2⟩ := i1.nxt (s := s) (by rw [hn2])
            rw [hn2] at m1 m2
            simp only at m1 m2
            rw [cur_eq hb m1.2.2]
            obtain ⟨l1, q1, _⟩ := m1.cur (lb := lb) hb
            rcases hc3 : r3.current s with ⟨c3, r4⟩
            rw [hc3] at l1 q1
            simp only at l1 q1 ⊢
            split
            · exact ⟨by first | rfl | trivial, fun d r' => bad d r' _⟩
            · obtain ⟨e, k⟩ := ih f2 r4 l1 (by omega) (by omega)
              exact ⟨e, fun d r' hh hv => ⟨(k d r' hh hv).1, by omega⟩⟩
        · split
          · rename_i hgt
            have hgt' : c = 0x3E := by simpa using hgt
            refine ⟨by first | rfl | trivial, fun d r' hh _ => ⟨?_, by omega⟩⟩
            simp only [Prod.mk.injEq] at hh
            rw [← hh.2]
            cases ok2 with
            | true =>
              have := (i1.nxt (s := s) (by rw [hn2])).1
              rw [hn2] at this; exact this
            | false =>
              exfalso
              rw [← p1] at cb1
              rcases i1.last_eol hE cb1 (by rw [hn2]) with e | e <;> rw [hgt'] at e <;> exact absurd e (by decide)
          · obtain ⟨e, k⟩ := ih f2 r2 i1 (by omega) (by omega)
            exact ⟨e, fun d r' hh hv => ⟨(k d r' hh hv).1, by omega⟩⟩

theorem control_of_eol {c : UInt8} (h : c = LF ∨ c = CR) : isASCIIControl c = true := by
  rcases h with rfl | rfl <;> decide

theorem destBare_two (hb : b ≤ s.length) (hE : LastEOL s b) : ∀ (f1 f2 : Nat) (r : Rd) (parens : Int), Ins b lb r →
    b - r.pos < f1 → b - r.pos < f2 →
    destBare (s ++ u) f1 r parens = destBare s f2 r parens ∧ Ins b lb (destBare s f2 r parens) := by
  intro f1
  induction f1 with
  | zero => intro f2 r _ _ h1 _; omega
  | succ f1 ih =>
    intro f2 r parens h h1 h2
    obtain ⟨f2, rfl⟩ : ∃ g, f2 = g + 1 := ⟨f2 - 1, by omega⟩
    have hlt := h.2.2
    simp only [destBare]
    rw [cur_eq hb h.2.2]
    obtain ⟨i1, p1, cb1⟩ := h.cur (lb := lb) hb
    rcases hc : r.current s with ⟨c, r1⟩
    rw [hc] at i1 p1 cb1
    simp only at i1 p1 cb1 ⊢
    rw [nxt_eq hb i1.1]
    rcases hn : r1.next s with ⟨ok, r2⟩
    have hnx := fun hok => i1.nxt (s := s) (lb := lb) (r := r1) hok
    have hfail := fun hok => i1.last_eol (s := s) (lb := lb) (r := r1) hE (c := c) (by rw [p1]; exact cb1) hok
    rw [hn] at hnx hfail
    simp only at hnx hfail ⊢
    -- a failed `next` on a byte that is not a control character is impossible
    have nofail : isASCIIControl c = false → ok = true := by
      intro hcc
      cases ok with
      | true => rfl
      | false => rw [control_of_eol (hfail rfl)] at hcc; cases hcc
    split
    · exact ⟨by first | rfl | trivial, i1⟩
    · rename_i hctl
      have hnc : isASCIIControl c = false := by
        cases hh : isASCIIControl c with
        | false => rfl
        | true => exact absurd (by simp [hh]) hctl
      have hok : ok = true := nofail hnc
      subst hok
      obtain ⟨j1, j2⟩ := hnx rfl
      simp only [Bool.not_true, Bool.false_eq_true, if_false]
      split
      · rw [cur_eq hb j1.2.2]
        obtain ⟨l1, q1, cb2⟩ := j1.cur (lb := lb) hb
        rcases hc2 : r2.current s with ⟨c2, r3⟩
        rw [hc2] at l1 q1 cb2
        simp only at l1 q1 cb2 ⊢
        split
        · exact ⟨by first | rfl | trivial, l1⟩
        · rename_i hctl2
          have hnc2 : isASCIIControl c2 = false := by
            cases hh : isASCIIControl c2 with
            | false => rfl
            | true => exact absurd (by simp [hh]) hctl2
          rw [nxt_eq hb l1.1]
          cases hok3 : (r3.next s).1 with
          | false =>
            exfalso
            rw [← q1] at cb2
            rw [control_of_eol (l1.last_eol hE cb2 hok3)] at hnc2; cases hnc2
          | true =>
            obtain ⟨m1, m2⟩ := l1.nxt (s := s) hok3
            rcases hn3 : r3.next s with ⟨ok3, r4⟩
            rw [hn3] at hok3 m1 m2
            simp only at hok3 m1 m2 ⊢
            subst hok3
            simp only [Bool.not_true, Bool.false_eq_true, if_false]
            exact ih f2 r4 parens m1 (by omega) (by omega)
      · split
        · exact ih f2 r2 _ j1 (by omega) (by omega)
        · split
          · split
            · exact ⟨by first | rfl | trivial, i1⟩
            · exact ih f2 r2 _ j1 (by omega) (by omega)
          · exact ih f2 r2 _ j1 (by omega) (by omega)

/-- `parseLinkDestination`: same on both sources; a valid destination starts its text inside the text and leaves the
    reader inside the text. -/
theorem parseLinkDestination_two (hb : b ≤ s.length) (hE : LastEOL s b) (f1 f2 : Nat) (r : Rd) (h : Ins b lb r)
    (h1 : b - r.pos < f1) (h2 : b - r.pos < f2) :
    parseLinkDestination (s ++ u) f1 r = parseLinkDestination s f2 r ∧
    (∀ d r', parseLinkDestination s f2 r = (d, r') → d.span.isValid = true → Ins b lb r' ∧
      ∃ q, Ins b lb q ∧ d.text.start = (q.pos : Int)) := by
  simp only [parseLinkDestination]
  rw [cur_eq hb h.2.2]
  obtain ⟨i1, p1, _⟩ := h.cur (lb := lb) hb
  rcases hc : r.current s with ⟨c, r1⟩
  rw [hc] at i1 p1
  simp only at i1 p1 ⊢
  split
  · obtain ⟨e, k⟩ := destAngle_two (u := u) (lb := lb) hb hE r1.pos f1 f2 r1 i1 (by omega) (by omega)
    refine ⟨e, fun d r' hh hv => ?_⟩
    obtain ⟨k1, k2⟩ := k d r' hh hv
    refine ⟨k1, ?_⟩
    -- the text starts one byte after `<`
    have hn : (r1.next s).1 = true := by
      cases hok : (r1.next s).1 with
      | true => rfl
      | false => have := (i1.nxt_fail (s := s) hok).2.2; omega
    obtain ⟨j1, j2⟩ := i1.nxt (s := s) hn
    refine ⟨(r1.next s).2, j1, ?_⟩
    rw [j2]
    -- `destAngle` only ever returns `start + 1` as the start of the text, or `noDest`
    have key : ∀ (f : Nat) (q : Rd) (d : LinkDest) (q' : Rd), destAngle s r1.pos f q = (d, q') → d.span.isValid = true →
        d.text.start = ((r1.pos + 1 : Nat) : Int) := by
      intro f
      induction f with
      | zero => intro q d q' e hv; simp only [destAngle, Prod.mk.injEq] at e; rw [← e.1, noDest_invalid] at hv; cases hv
      | succ f ih =>
        intro q d q' e hv
        simp only [destAngle] at e
        repeat' split at e
        all_goals first
          | (simp only [Prod.mk.injEq] at e; rw [← e.1, noDest_invalid] at hv; cases hv)
          | exact ih _ _ _ e hv
          | (simp only [Prod.mk.injEq] at e; rw [← e.1]; simp)
    exact key f2 r1 d r' hh hv
  · split
    · obtain ⟨e, k⟩ := destBare_two (u := u) (lb := lb) hb hE f1 f2 r1 0 i1 (by omega) (by omega)
      rw [e]
      refine ⟨by first | rfl | trivial, fun d r' hh _ => ?_⟩
      simp only [Prod.mk.injEq] at hh
      rw [← hh.2, ← hh.1]
      exact ⟨k, r1, i1, rfl⟩
    · refine ⟨by first | rfl | trivial, fun d r' hh hv => ?_⟩
      simp only [Prod.mk.injEq] at hh
      rw [← hh.1, noDest_invalid] at hv; cases hv

theorem titleLoop_two (hb : b ≤ s.length) (hE : LastEOL s b) (start : Nat) (term : UInt8) (hterm : term ≠ LF ∧ term ≠ CR) :
    ∀ (f1 f2 : Nat) (r : Rd), Ins b lb r → b - r.pos < f1 → b - r.pos < f2 →
    titleLoop (s ++ u) start term f1 r = titleLoop s start term f2 r ∧
    (∀ t r', titleLoop s start term f2 r = (t, r') → t.span.isValid = true →
      Ins b lb r' ∧ r.pos + 1 < b ∧ t.text.start = ((start + 1 : Nat) : Int)) := by
  intro f1
  induction f1 with
  | zero => intro f2 r _ h1 _; omega
  | succ f1 ih =>
    intro f2 r h h1 h2
    obtain ⟨f2, rfl⟩ : ∃ g, f2 = g + 1 := ⟨f2 - 1, by omega⟩
    have hlt := h.2.2
    have bad : ∀ (t : LinkTitle) (r' q : Rd), (noTitle, q) = (t, r') → t.span.isValid = true →
        Ins b lb r' ∧ r.pos + 1 < b ∧ t.text.start = ((start + 1 : Nat) : Int) := by
      intro t r' q hh hv
      simp only [Prod.mk.injEq] at hh
      rw [← hh.1, noTitle_invalid] at hv; cases hv
    simp only [titleLoop]
    rw [nxt_eq hb h.1]
    rcases hn : r.next s with ⟨ok, r1⟩
    simp only
    cases ok with
    | false => exact ⟨by first | rfl | trivial, fun t r' => bad t r' _⟩
    | true =>
      simp only [Bool.not_true, Bool.false_eq_true, if_false]
      obtain ⟨j1, j2⟩ := h.nxt (s := s) (by rw [hn])
      rw [hn] at j1 j2
      simp only at j1 j2
      have hj := j1.2.2
      rw [cur_eq hb j1.2.2]
      obtain ⟨i1, p1, cb1⟩ := j1.cur (lb := lb) hb
      rcases hc : r1.current s with ⟨c, r2⟩
      rw [hc] at i1 p1 cb1
      simp only at i1 p1 cb1 ⊢
      rw [nxt_eq hb i1.1]
      rcases hn2 : r2.next s with ⟨ok2, r3⟩
      simp only
      split
      · cases ok2 with
        | false => exact ⟨by first | rfl | trivial, fun t r' => bad t r' _⟩
        | true =>
          simp only [Bool.not_true, Bool.false_eq_true, if_false]
          obtain ⟨m1, m2⟩ := i1.nxt (s := s) (by rw [hn2])
          rw [hn2] at m1 m2
          simp only at m1 m2
          obtain ⟨e, k⟩ := ih f2 r3 m1 (by omega) (by omega)
          exact ⟨e, fun t r' hh hv => ⟨(k t r' hh hv).1, by omega, (k t r' hh hv).2.2⟩⟩
      · split
        · rename_i hgt
          have hgt' : c = term := by simpa using hgt
          refine ⟨by first | rfl | trivial, fun t r' hh _ => ?_⟩
          simp only [Prod.mk.injEq] at hh
          rw [← hh.2, ← hh.1]
          refine ⟨?_, by omega, by simp⟩
          cases ok2 with
          | true =>
            have := (i1.nxt (s := s) (by rw [hn2])).1
            rw [hn2] at this; exact this
          | false =>
            exfalso
            rw [← p1] at cb1
            rcases i1.last_eol hE cb1 (by rw [hn2]) with e | e
            · exact hterm.1 (hgt' ▸ e)
            · exact hterm.2 (hgt' ▸ e)
        · obtain ⟨e, k⟩ := ih f2 r2 i1 (by omega) (by omega)
          exact ⟨e, fun t r' hh hv => ⟨(k t r' hh hv).1, by omega, (k t r' hh hv).2.2⟩⟩

/-- `parseLinkTitle`: same on both sources; a valid title starts its text inside the text and leaves the reader inside. -/
theorem parseLinkTitle_two (hb : b ≤ s.length) (hE : LastEOL s b) (f1 f2 : Nat) (r : Rd) (h : Ins b lb r)
    (h1 : b - r.pos < f1) (h2 : b - r.pos < f2) :
    parseLinkTitle (s ++ u) f1 r = parseLinkTitle s f2 r ∧
    (∀ t r', parseLinkTitle s f2 r = (t, r') → t.span.isValid = true → Ins b lb r' ∧
      ∃ q, Ins b lb q ∧ t.text.start = (q.pos : Int)) := by
  simp only [parseLinkTitle]
  rw [cur_eq hb h.2.2]
  obtain ⟨i1, p1, _⟩ := h.cur (lb := lb) hb
  rcases hc : r.current s with ⟨c, r1⟩
  rw [hc] at i1 p1
  simp only at i1 p1 ⊢
  split
  · refine ⟨by first | rfl | trivial, fun t r' hh hv => ?_⟩
    simp only [Prod.mk.injEq] at hh
    rw [← hh.1, noTitle_invalid] at hv; cases hv
  · rename_i hq
    have hterm : (if c == 0x28 then (0x29 : UInt8) else c) ≠ LF ∧ (if c == 0x28 then (0x29 : UInt8) else c) ≠ CR := by
      split
      · decide
      · constructor <;> intro e <;> rw [e] at hq <;> exact hq (by decide)
    obtain ⟨e, k⟩ := titleLoop_two (u := u) (lb := lb) hb hE r1.pos _ hterm f1 f2 r1 i1 (by omega) (by omega)
    refine ⟨e, fun t r' hh hv => ?_⟩
    obtain ⟨k1, k2, k3⟩ := k t r' hh hv
    have hn : (r1.next s).1 = true := by
      cases hok : (r1.next s).1 with
      | true => rfl
      | false => have := (i1.nxt_fail (s := s) hok).2.2; omega
    obtain ⟨j1, j2⟩ := i1.nxt (s := s) hn
    exact ⟨k1, (r1.next s).2, j1, by rw [k3, j2]⟩

end

end CM.Proofs.Rp
