import CM.Proofs.EolMap
import CM.Proofs.EolRecognize
/-
C14 (a), block level — `(*Block).close` with its `onClose` hooks commutes with the position map:
list looseness (`listLooseAtClose`: flags only), trailing blank lines of an indented code block
(`indentedOnClose`: slices of the source, which are re-written slices), and — as a hypothesis, `ParaCloseSim` — the
link reference definitions split off a paragraph (`onCloseParagraph`, which reads the source through the inline
reader and sees the line endings).
-/
namespace CM.Proofs
open CM CM.Model CM.Gen

/-! ### Slices of a prefix of the buffer -/

theorem isBlankLine_toEol {e : Bytes} (he : StdEol e) (s : Bytes) : isBlankLine (toEol e s) = isBlankLine s := by
  induction s with
  | nil => rfl
  | cons c t ih =>
    by_cases h : c = LF
    · subst h
      rw [toEol_cons_LF, isBlankLine_append, ih]
      have h1 : isBlankLine e = true := by
        rcases he with h | h | h <;> subst h <;> decide
      have h2 : isBlankLine (LF :: t) = isBlankLine t := by
        simp [isBlankLine, isSpaceTabOrLineEnding]
      rw [h1, h2, Bool.true_and]
    · rw [toEol_cons_ne _ h]
      simp only [isBlankLine, List.all_cons] at ih ⊢
      rw [ih]

/-- A slice `[a, b)` of a prefix of the buffer, on the re-written side. -/
theorem slice_prefix_map {e : Bytes} (he : StdEol e) (X : Bytes) (k a b : Nat) (hab : a ≤ b) :
    ((toEol e (X.take k)).drop (eolPos e X a)).take (eolPos e X b - eolPos e X a) =
      toEol e (((X.take k).drop a).take (b - a)) := by
  have hne := stdEol_ne_nil he
  by_cases hk : k ≤ X.length
  · have hlenY : (X.take k).length = k := by simp [hk]
    by_cases hb : b ≤ k
    · rw [← eolPos_take e X (Nat.le_trans hab hb), ← eolPos_take e X hb, drop_toEol e hne]
      obtain ⟨d, rfl⟩ := Nat.exists_eq_add_of_le hab
      rw [eolPos_add, Nat.add_sub_cancel_left, Nat.add_sub_cancel_left, take_toEol e hne]
    · have hbk : k < b := by omega
      by_cases ha : a ≤ k
      · rw [← eolPos_take e X ha, drop_toEol e hne]
        have h1 : ((X.take k).drop a).take (b - a) = (X.take k).drop a := by
          apply List.take_of_length_le; simp; omega
        rw [h1]
        apply List.take_of_length_le
        rw [length_toEol e hne]
        have h2 : eolPos e (X.take k) a = eolPos e X a := eolPos_take e X ha
        have h3 := eolPos_mono e X (Nat.le_of_lt hbk)
        have h4 : eolPos e X k = k + (e.length - 1) * cntLF (X.take k) := rfl
        have h5 : cntLF (X.take k) = cntLF ((X.take k).take a) + cntLF ((X.take k).drop a) := by
          rw [← cntLF_append, List.take_append_drop]
        have h6 : eolPos e (X.take k) a = a + (e.length - 1) * cntLF ((X.take k).take a) := rfl
        rw [h2]
        rw [h2] at h6
        simp only [List.length_drop, hlenY]
        rw [h5, Nat.mul_add] at h4
        omega
      · have hak : k < a := by omega
        have h1 : (X.take k).drop a = [] := List.drop_eq_nil_of_le (by omega)
        rw [h1]
        have h2 : (toEol e (X.take k)).drop (eolPos e X a) = [] := by
          apply List.drop_eq_nil_of_le
          rw [← eolPos_length e hne, hlenY, eolPos_take e X (Nat.le_refl k)]
          exact eolPos_mono e X (Nat.le_of_lt hak)
        rw [h2]; simp
  · have : X.take k = X.take X.length := by
      rw [List.take_length, List.take_of_length_le (by omega)]
    rw [this]
    have hlenY : (X.take X.length).length = X.length := by simp
    rw [List.take_length]
    rw [drop_toEol e hne]
    obtain ⟨d, rfl⟩ := Nat.exists_eq_add_of_le hab
    rw [eolPos_add, Nat.add_sub_cancel_left, Nat.add_sub_cancel_left, take_toEol e hne]

/-! ### Node accessors on mapped trees -/

section
variable {e X : Bytes}

theorem isI_mapTree (g : Int → Int) (t : Tree) (k : Nat) : Node.isI (mapTree g t) k = Node.isI t k := by
  cases t; rfl

theorem spanValid_iff (t : Tree) : Node.spanValid t = true ↔ 0 ≤ t.label.start ∧ 0 ≤ t.label.stop ∧ t.label.start ≤ t.label.stop := by
  simp [Node.spanValid, and_assoc]

theorem spanValid_mapTree (t : Tree) : Node.spanValid (mapTree (eolPosZ e X) t) = Node.spanValid t := by
  rw [Bool.eq_iff_iff, spanValid_iff, spanValid_iff, mapTree_label]
  show 0 ≤ eolPosZ e X t.label.start ∧ 0 ≤ eolPosZ e X t.label.stop ∧ eolPosZ e X t.label.start ≤ eolPosZ e X t.label.stop ↔ _
  rw [eolPosZ_nonneg_iff, eolPosZ_nonneg_iff, eolPosZ_le_iff]

theorem spanLen_zero_mapTree (t : Tree) :
    (Node.spanLen (mapTree (eolPosZ e X) t) == 0) = (Node.spanLen t == 0) := by
  unfold Node.spanLen
  rw [spanValid_mapTree]
  cases hv : Node.spanValid t with
  | false => rfl
  | true =>
    obtain ⟨h1, h2, h3⟩ := (spanValid_iff t).1 hv
    cases t with
    | node l cs =>
      simp only [Tree.label] at h1 h2 h3
      simp only [mapTree, Tree.label, if_true]
      have h4 := eolPosZ_eq_iff e X l.start l.stop
      have h5 : eolPosZ e X l.start ≤ eolPosZ e X l.stop := (eolPosZ_le_iff e X l.start l.stop).2 h3
      by_cases heq : l.start = l.stop
      · simp [heq]
      · have hne : eolPosZ e X l.start ≠ eolPosZ e X l.stop := fun h => heq (h4.1 h)
        have a1 : ((eolPosZ e X l.stop - eolPosZ e X l.start).toNat == 0) = false := by
          apply beq_false_of_ne; omega
        have a2 : ((l.stop - l.start).toNat == 0) = false := by
          apply beq_false_of_ne; omega
        rw [a1, a2]

theorem slice_mapTree (he : StdEol e) (k : Nat) (t : Tree) :
    Node.slice (toEol e (X.take k)) (mapTree (eolPosZ e X) t) = toEol e (Node.slice (X.take k) t) := by
  unfold Node.slice
  rw [spanValid_mapTree]
  cases hv : Node.spanValid t with
  | false => rfl
  | true =>
    obtain ⟨h1, h2, h3⟩ := (spanValid_iff t).1 hv
    cases t with
    | node l cs =>
      simp only [Tree.label] at h1 h2 h3
      simp only [mapTree, Tree.label, if_true]
      have e1 : (eolPosZ e X l.start).toNat = eolPos e X l.start.toNat := eolPosZ_toNat e X h1
      have e2 : (eolPosZ e X l.stop - eolPosZ e X l.start).toNat = eolPos e X l.stop.toNat - eolPos e X l.start.toNat := by
        rw [eolPosZ_nonneg e X h1, eolPosZ_nonneg e X h2]
        have := eolPos_mono e X (j := l.start.toNat) (k := l.stop.toNat) (by omega)
        omega
      have e3 : (l.stop - l.start).toNat = l.stop.toNat - l.start.toNat := by omega
      rw [e1, e2, e3]
      exact slice_prefix_map he X k _ _ (by omega)

/-! ### `indentedOnClose` -/

theorem trim_map (he : StdEol e) (k : Nat) (ts : List Tree) :
    indentedOnClose.trim (toEol e (X.take k)) (mapTrees (eolPosZ e X) ts) =
      mapTrees (eolPosZ e X) (indentedOnClose.trim (X.take k) ts) := by
  induction ts with
  | nil => rfl
  | cons c rest ih =>
    simp only [mapTrees, indentedOnClose.trim, isI_mapTree, slice_mapTree he, isBlankLine_toEol he]
    split
    · exact ih
    · rfl

theorem indentedOnClose_map (he : StdEol e) (k : Nat) (b : PB) :
    indentedOnClose (toEol e (X.take k)) (mapPB (eolPosZ e X) b) = mapPB (eolPosZ e X) (indentedOnClose (X.take k) b) := by
  obtain ⟨l, bs, is⟩ := b
  simp only [mapPB, indentedOnClose]
  congr 1
  rw [← mapTrees_reverse (eolPosZ e X) is]
  cases hr : is.reverse with
  | nil =>
    simp only [mapTrees]
    rw [← mapTrees_reverse, trim_map he, mapTrees_reverse]
  | cons sb r1 =>
    cases r1 with
    | nil =>
      simp only [mapTrees]
      rw [← mapTrees_reverse, trim_map he, mapTrees_reverse]
    | cons prev rest =>
      simp only [mapTrees, isI_mapTree, spanLen_zero_mapTree, slice_mapTree he, isBlankLine_toEol he]
      split
      · have : (mapTree (eolPosZ e X) prev :: mapTrees (eolPosZ e X) rest).reverse.reverse =
            mapTrees (eolPosZ e X) ((prev :: rest).reverse.reverse) := by
          rw [List.reverse_reverse, List.reverse_reverse]; rfl
        rw [this, trim_map he, mapTrees_reverse]
      · rw [← mapTrees_reverse, trim_map he, mapTrees_reverse]


/-! ### List looseness -/

theorem any_zipIdx_map {α β : Type} (f : α → β) (l : List α) (n : Nat) (p : β × Nat → Bool) :
    ((l.map f).zipIdx n).any p = (l.zipIdx n).any (fun x => p (f x.1, x.2)) := by
  induction l generalizing n with
  | nil => rfl
  | cons a t ih => simp only [List.map_cons, List.zipIdx_cons, List.any_cons, ih]

theorem listIsLoose_map (g : Int → Int) (items : List PB) : listIsLoose (mapPBs g items) = listIsLoose items := by
  unfold listIsLoose
  simp only [mapPBs_length]
  rw [mapPBs_eq_map, any_zipIdx_map]
  congr 1
  funext ⟨item, i⟩
  simp only [endsWithBlankLine_map, mapPB_blocks, mapPBs_length]
  rw [mapPBs_eq_map, any_zipIdx_map]
  congr 2
  funext ⟨sub, j⟩
  simp only [endsWithBlankLine_map]

theorem listLooseAtClose_map (g : Int → Int) (l : PLabel) (a b : Int) (items : List PB) :
    listLooseAtClose { l with start := a, stop := b } (mapPBs g items) = listLooseAtClose l items := by
  simp only [listLooseAtClose, listIsLoose_map]

/-! ### The paragraph hook (hypothesis) and `close` -/

/-- `onCloseParagraph` on the re-written source and the mapped paragraph returns the mapped blocks.
    This is the one place where the block phase reads bytes across line endings (link labels, destinations, titles via
    the inline reader); it is a hypothesis of the simulation and is discharged in `EolPara.lean` for sources without
    `[`. It is false in general: known finding KF-C14-label-limit-crlf (a label within a few bytes of the 999 limit). -/
def ParaCloseSim (x : PExt) (e X src : Bytes) : Prop :=
  ∀ b : PB, onCloseParagraph x (toEol e src) (mapPB (eolPosZ e X) b) = mapPBs (eolPosZ e X) (onCloseParagraph x src b)

theorem mapPBs_map_setLabel (g : Int → Int) {f : PLabel → PLabel} (hf : PosFree f) (bs : List PB) :
    mapPBs g (bs.map (PB.setLabel f)) = (mapPBs g bs).map (PB.setLabel f) := by
  induction bs with
  | nil => rfl
  | cons b t ih => simp only [List.map_cons, mapPBs, ih, mapPB_setLabel g hf]

theorem posFree_loose : PosFree (fun il => { il with loose := true }) := by
  intro l a b; rfl

theorem closeLast_nil (x : PExt) (src : Bytes) (endPos : Int) : closeLast x src endPos [] = [] := by
  rw [closeLast]

theorem closeLast_singleton (x : PExt) (src : Bytes) (endPos : Int) (b : PB) :
    closeLast x src endPos [b] = closeBlock x src endPos b := by
  rw [closeLast]

theorem closeLast_cons_cons (x : PExt) (src : Bytes) (endPos : Int) (b c : PB) (rest : List PB) :
    closeLast x src endPos (b :: c :: rest) = b :: closeLast x src endPos (c :: rest) := by
  rw [closeLast]
  · intro h; cases h

/-- `close` commutes with the position map (given the paragraph hook). -/
theorem closeBlock_map (x : PExt) (he : StdEol e) (k : Nat) (hpara : ParaCloseSim x e X (X.take k)) (endPos : Int) :
    ∀ b : PB, closeBlock x (toEol e (X.take k)) (eolPosZ e X endPos) (mapPB (eolPosZ e X) b) =
      mapPBs (eolPosZ e X) (closeBlock x (X.take k) endPos b) := by
  intro b
  induction hn : sizeOf b using Nat.strongRecOn generalizing b with
  | ind n ih =>
    obtain ⟨l, bs, is⟩ := b
    -- the children
    have hlast : closeLast x (toEol e (X.take k)) (eolPosZ e X endPos) (mapPBs (eolPosZ e X) bs) =
        mapPBs (eolPosZ e X) (closeLast x (X.take k) endPos bs) := by
      have hsz : ∀ c ∈ bs, sizeOf c < n := by
        intro c hc
        subst hn
        have := List.sizeOf_lt_of_mem hc
        simp; omega
      clear hn
      induction bs with
      | nil => rw [mapPBs_nil, closeLast_nil, closeLast_nil, mapPBs_nil]
      | cons c rest ihl =>
        cases rest with
        | nil =>
          rw [mapPBs_singleton, closeLast_singleton, closeLast_singleton]
          exact ih (sizeOf c) (hsz c (by simp)) c rfl
        | cons d rest' =>
          rw [mapPBs, mapPBs, closeLast_cons_cons, closeLast_cons_cons, mapPBs]
          congr 1
          have := ihl (fun c' hc' => hsz c' (by simp [hc']))
          rw [mapPBs] at this
          exact this
    rw [mapPB, closeBlock, closeBlock]
    have hstop : (eolPosZ e X l.stop ≥ 0) ↔ (l.stop ≥ 0) := eolPosZ_nonneg_iff e X l.stop
    by_cases hs : l.stop ≥ 0
    · rw [if_pos (hstop.2 hs), if_pos hs]; rfl
    · rw [if_neg (fun h => hs (hstop.1 h)), if_neg hs]
      simp only []
      by_cases hk1 : (l.kind == BK.list) = true
      · rw [if_pos hk1, if_pos hk1]
        have hll := listLooseAtClose_map (eolPosZ e X) { l with stop := endPos } (eolPosZ e X l.start) (eolPosZ e X endPos) bs
        simp only [] at hll
        rw [hll]
        by_cases hlo : listLooseAtClose { l with stop := endPos } bs = true
        · rw [if_pos hlo, if_pos hlo, hlast, ← mapPBs_map_setLabel _ posFree_loose]; rfl
        · rw [if_neg hlo, if_neg hlo, hlast]; rfl
      · rw [if_neg hk1, if_neg hk1]
        by_cases hk2 : (l.kind == BK.paragraph || l.kind == BK.setextHeading) = true
        · rw [if_pos hk2, if_pos hk2]
          exact hpara (.mk { l with stop := endPos } bs is)
        · rw [if_neg hk2, if_neg hk2]
          by_cases hk3 : (l.kind == BK.indentedCode) = true
          · rw [if_pos hk3, if_pos hk3]
            have := indentedOnClose_map (X := X) he k (.mk { l with stop := endPos } bs is)
            rw [mapPB] at this
            rw [this]; rfl
          · rw [if_neg hk3, if_neg hk3, hlast]; rfl

theorem closeBlock_mapFn (x : PExt) (he : StdEol e) (k : Nat) (hpara : ParaCloseSim x e X (X.take k)) (endPos : Int) :
    ∀ b : PB, closeBlock x (toEol e (X.take k)) (eolPosZ e X endPos) (mapPB (eolPosZ e X) b) =
      mapPBs (eolPosZ e X) (closeBlock x (X.take k) endPos b) := closeBlock_map x he k hpara endPos

end

end CM.Proofs
