import CM.Proofs.InlSpanRewrite
/-
C04, inline half — "no Go panic": the Hoare layer with the stronger exception condition. `⦃P⦄ m ⦃⇓! r s => Q⦄` says: from
`P`, `m` ends normally in `Q`, or it ends with `IErr.fuel` (an exhausted loop bound: termination is a separate matter);
it does not end with `IErr.panic`.
-/
namespace CM.Proofs.InlH
open CM CM.Model CM.Model.Inl CM.Gen
open Std.Do

set_option mvcgen.warning false

/-- an exhausted loop bound, not a panic -/
def IErr.isFuel : IErr → Prop
  | .fuel _ => True
  | .panic _ => False

/-- the exception condition "only `IErr.fuel`" -/
abbrev NPE : ExceptConds IShape := (fun e => ⌜IErr.isFuel e⌝, ())

/-- the postcondition "`Q` or out of fuel" -/
abbrev PostCond.np {α} (f : α → Assertion IShape) : PostCond α IShape := ⟨f, NPE⟩

/-- correctness up to termination, without panics -/
syntax "⇓! " term:max+ " => " term : term
macro_rules
  | `(⇓! $xs* => $e) => `(PostCond.np (fun $xs* => spred($e)))

/-- The meaning of a no-panic triple, by running the computation. -/
def PostNP {α} (P : IState → Prop) (m : IM α) (Q : α → IState → Prop) : Prop :=
  ∀ s, P s → match m.run s with
    | .ok (a, s') => Q a s'
    | .error e => IErr.isFuel e

theorem triple_iff_postNP {α} (P : IState → Prop) (m : IM α) (Q : α → IState → Prop) :
    ⦃fun s => ⌜P s⌝⦄ m ⦃⇓! r s => ⌜Q r s⌝⦄ ↔ PostNP P m Q := by
  constructor
  · intro h s hs
    have := h s hs
    rw [wp_IM_eq] at this
    split
    · rename_i a s' he; rw [he] at this; exact this
    · rename_i e he; rw [he] at this; exact this
  · intro h s hs
    rw [wp_IM_eq]
    have := h s hs
    split
    · rename_i a s' he; rw [he] at this; exact this
    · rename_i e he; rw [he] at this; exact this

/-- what a no-panic triple says about a run -/
theorem triple_run_np {α} {P : IState → Prop} {m : IM α} {Q : α → IState → Prop}
    (h : ⦃fun s => ⌜P s⌝⦄ m ⦃⇓! r s => ⌜Q r s⌝⦄) {s : IState} (hs : P s) :
    (∀ msg, m.run s ≠ .error (.panic msg)) ∧ ∀ a s', m.run s = .ok (a, s') → Q a s' := by
  have := (triple_iff_postNP P m Q).1 h s hs
  constructor
  · intro msg he; rw [he] at this; exact this
  · intro a s' he; rw [he] at this; exact this

/-- a no-panic triple is a `⇓?` triple -/
theorem np_weaken {α} {P : IState → Prop} {m : IM α} {Q : α → IState → Prop}
    (h : ⦃fun s => ⌜P s⌝⦄ m ⦃⇓! r s => ⌜Q r s⌝⦄) : ⦃fun s => ⌜P s⌝⦄ m ⦃⇓? r s => ⌜Q r s⌝⦄ := by
  apply Post.triple
  intro s hs
  have := (triple_iff_postNP P m Q).1 h s hs
  split
  · rename_i a s' he; rw [he] at this; exact this
  · trivial

/-- Beta/projection-normalise the verification conditions after the invariants were filled in. -/
macro "np_norm" : tactic =>
  `(tactic| all_goals (try simp only [PostCond.np, PostCond.mayThrow, SPred.down_pure] at *))

/-! ### the primitive operations -/

/-- a panic site is not reached -/
@[spec 30000]
theorem goPanic_np {α} (msg : String) (Q : PostCond α IShape) :
    ⦃fun _ => ⌜False⌝⦄ (goPanic msg : IM α) ⦃Q⦄ := by
  intro s h
  exact h.elim

/-- a loop bound may be exhausted -/
@[spec 30000]
theorem outOfFuel_np {α} (site : String) :
    ⦃fun _ => ⌜True⌝⦄ (outOfFuel site : IM α) ⦃⇓! _ _ => ⌜False⌝⦄ := by
  apply (triple_iff_postNP (fun _ => True) _ (fun _ _ => False)).2
  intro s _
  exact trivial

@[spec 30000]
theorem srcAt_np (c : ICtx) (i : Int) (s0 : IState) :
    ⦃fun s => ⌜s = s0 ∧ 0 ≤ i ∧ i < c.srcA.size⌝⦄ srcAt c i
    ⦃⇓! r s => ⌜s = s0 ∧ 0 ≤ i ∧ i < c.srcA.size ∧ r = c.srcA[i.toNat]!⌝⦄ := by
  apply (triple_iff_postNP _ _ _).2
  intro s hs
  obtain ⟨rfl, h1, h2⟩ := hs
  unfold srcAt
  rw [if_neg (by simp; omega)]
  exact ⟨rfl, h1, h2, rfl⟩

@[spec 30000]
theorem srcIs_np (c : ICtx) (i : Int) (b : UInt8) (s0 : IState) :
    ⦃fun s => ⌜s = s0 ∧ 0 ≤ i ∧ i < c.srcA.size⌝⦄ srcIs c i b
    ⦃⇓! r s => ⌜s = s0 ∧ 0 ≤ i ∧ i < c.srcA.size ∧ r = (c.srcA[i.toNat]! == b)⌝⦄ := by
  mvcgen [srcIs, -srcIs_spec]
  · obtain ⟨_, h1, h2⟩ := ‹_ = s0 ∧ _›
    exact ⟨trivial, h1, h2⟩
  · obtain ⟨rfl, h1, h2⟩ := ‹_ = s0 ∧ _ ∧ _›
    obtain ⟨rfl, g1, g2, rfl⟩ := ‹_ = _ ∧ _ ∧ _ ∧ _›
    exact ⟨rfl, h1, h2, rfl⟩

@[spec 30000]
theorem guardAt_np (cond : Bool) (c : ICtx) (i : Int) (b : UInt8) (s0 : IState) :
    ⦃fun s => ⌜s = s0 ∧ (cond = true → 0 ≤ i ∧ i < c.srcA.size)⌝⦄ guardAt cond c i b
    ⦃⇓! r s => ⌜s = s0 ∧ (r = true → cond = true ∧ 0 ≤ i ∧ i < c.srcA.size ∧ c.srcA[i.toNat]! = b)⌝⦄ := by
  mvcgen [guardAt, -guardAt_spec]
  · obtain ⟨_, h1⟩ := ‹_ = s0 ∧ _›
    exact ⟨trivial, h1 ‹_›⟩
  · obtain ⟨rfl, h1⟩ := ‹_ = s0 ∧ _›
    intro hs g1 g2 hr
    refine ⟨hs, fun hrt => ⟨‹_›, g1, g2, ?_⟩⟩
    rw [hr] at hrt; simpa using hrt
  · obtain ⟨rfl, -⟩ := ‹_ = s0 ∧ _›
    exact ⟨rfl, fun h => by cases h⟩

@[spec 30000]
theorem srcSlice_np (c : ICtx) (lo hi : Int) (s0 : IState) :
    ⦃fun s => ⌜s = s0 ∧ 0 ≤ lo ∧ lo ≤ hi ∧ hi ≤ c.srcA.size⌝⦄ srcSlice c lo hi
    ⦃⇓! r s => ⌜s = s0 ∧ 0 ≤ lo ∧ lo ≤ hi ∧ hi ≤ c.srcA.size ∧ r = (c.srcA.extract lo.toNat hi.toNat).toList⌝⦄ := by
  apply (triple_iff_postNP _ _ _).2
  intro s hs
  obtain ⟨rfl, h1, h2, h3⟩ := hs
  unfold srcSlice
  rw [if_neg (by simp; omega)]
  exact ⟨rfl, h1, h2, h3, rfl⟩

@[spec 30000]
theorem unparsedFrom_np (c : ICtx) (s0 : IState) :
    ⦃fun s => ⌜s = s0 ∧ s0.unparsedPos ≤ c.unparsed.size⌝⦄ unparsedFrom c
    ⦃⇓! r s => ⌜s = s0 ∧ r = c.unparsedL.drop s0.unparsedPos⌝⦄ := by
  apply (triple_iff_postNP _ _ _).2
  intro s hs
  obtain ⟨rfl, h1⟩ := hs
  unfold unparsedFrom
  rw [run_bind, run_get]
  simp only []
  rw [if_neg (by omega), run_pure]
  exact ⟨rfl, rfl⟩

@[spec 30000]
theorem unparsedAt_np (c : ICtx) (s0 : IState) :
    ⦃fun s => ⌜s = s0 ∧ s0.unparsedPos < c.unparsed.size⌝⦄ unparsedAt c
    ⦃⇓! r s => ⌜s = s0 ∧ c.unparsed[s0.unparsedPos]? = some r⌝⦄ := by
  apply (triple_iff_postNP _ _ _).2
  intro s hs
  obtain ⟨rfl, h1⟩ := hs
  unfold unparsedAt
  rw [run_bind, run_get]
  simp only []
  rw [Array.getElem?_eq_getElem h1]
  simp only []
  rw [run_pure]
  exact ⟨rfl, rfl⟩

end CM.Proofs.InlH
