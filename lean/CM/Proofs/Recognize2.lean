import CM.Basic.Forall
import CM.Model.Recognize
import CM.Spec.Regular
import CM.Props.C15
/-
The code-fence and ATX-heading recognizers of blocks.go (model: `CM.Model.parseCodeFence`,
`CM.Model.parseATXHeading`) equal their CommonMark specifications (`CM.Spec.codeFence`,
`CM.Spec.atxHeading`) for lines of any length.
-/
namespace CM.Proofs
open CM CM.Model CM.Spec

/-! ### `dropRight` -/

theorem dropRight_nil (p : UInt8 → Bool) : dropRight p [] = [] := by simp [dropRight]

theorem dropRight_snoc (p : UInt8 → Bool) (l : Bytes) (a : UInt8) :
    dropRight p (l ++ [a]) = if p a then dropRight p l else l ++ [a] := by
  unfold dropRight
  rw [List.reverse_append]
  simp only [List.reverse_cons, List.reverse_nil, List.nil_append, List.cons_append, List.dropWhile_cons]
  split <;> simp

/-- Reverse induction on lists. -/
theorem snoc_induction {α : Type} {P : List α → Prop} (h0 : P [])
    (h1 : ∀ l a, P l → P (l ++ [a])) : ∀ l, P l := by
  intro l
  have : ∀ r : List α, P r.reverse := by
    intro r
    induction r with
    | nil => exact h0
    | cons a r ih => rw [List.reverse_cons]; exact h1 _ _ ih
  simpa using this l.reverse

theorem dropRight_length_le (p : UInt8 → Bool) (l : Bytes) : (dropRight p l).length ≤ l.length := by
  induction l using snoc_induction with
  | h0 => simp [dropRight]
  | h1 l a ih => rw [dropRight_snoc]; split <;> simp <;> omega

/-- `dropRight p l` is a prefix of `l`. -/
theorem dropRight_eq_take (p : UInt8 → Bool) (l : Bytes) : dropRight p l = l.take (dropRight p l).length := by
  induction l using snoc_induction with
  | h0 => simp [dropRight]
  | h1 l a ih =>
    rw [dropRight_snoc]; split
    · have := dropRight_length_le p l
      rw [List.take_append_of_le_length this]; exact ih
    · rw [List.take_of_length_le (by simp)]

/-- The dropped suffix satisfies `p` everywhere. -/
theorem dropRight_suffix_all (p : UInt8 → Bool) (l : Bytes) :
    ∀ x ∈ l.drop (dropRight p l).length, p x = true := by
  induction l using snoc_induction with
  | h0 => simp
  | h1 l a ih =>
    rw [dropRight_snoc]; split
    · have := dropRight_length_le p l
      rw [List.drop_append_of_le_length this]
      intro x hx
      rcases List.mem_append.1 hx with h | h
      · exact ih x h
      · simp at h; subst h; assumption
    · simp

/-- The kept part is empty or ends with a byte not satisfying `p`. -/
theorem dropRight_getLast (p : UInt8 → Bool) (l : Bytes) :
    ∀ x, (dropRight p l).getLast? = some x → p x = false := by
  induction l using snoc_induction with
  | h0 => simp [dropRight]
  | h1 l a ih =>
    rw [dropRight_snoc]; split
    · exact ih
    · intro x hx; simp at hx; subst hx; simpa using ‹¬ p a = true›

theorem dropRight_append_decomp (p : UInt8 → Bool) (l : Bytes) :
    l = dropRight p l ++ l.drop (dropRight p l).length := by
  conv => lhs; rw [← List.take_append_drop (dropRight p l).length l]
  rw [← dropRight_eq_take]

/-- If the last byte (if any) does not satisfy `p`, nothing is dropped. -/
theorem dropRight_id_of_getLast (p : UInt8 → Bool) (l : Bytes)
    (h : ∀ x, l.getLast? = some x → p x = false) : dropRight p l = l := by
  induction l using snoc_induction with
  | h0 => simp [dropRight]
  | h1 l a _ =>
    rw [dropRight_snoc]
    have := h a (by simp)
    simp [this]

theorem dropRight_all (p : UInt8 → Bool) (l : Bytes) (h : ∀ x ∈ l, p x = true) : dropRight p l = [] := by
  induction l using snoc_induction with
  | h0 => simp [dropRight]
  | h1 l a ih =>
    rw [dropRight_snoc]
    have := h a (by simp)
    simp only [this, if_true]
    exact ih (fun x hx => h x (by simp [hx]))

/-- `dropRight` over an append. -/
theorem dropRight_append (p : UInt8 → Bool) (a b : Bytes) :
    dropRight p (a ++ b) = if dropRight p b = [] then dropRight p a else a ++ dropRight p b := by
  induction b using snoc_induction with
  | h0 => simp [dropRight_nil]
  | h1 b x ih =>
    rw [← List.append_assoc, dropRight_snoc, dropRight_snoc]
    split
    · exact ih
    · simp

/-! ### Code fence -/

theorem gen_isWs (c : UInt8) : Gen.isSpaceTabOrLineEnding c = isWs c :=
  CM.Props.C15.isSpaceTabOrLineEnding_eq_spec c

theorem countPrefix_eq (c : UInt8) (l : Bytes) : countPrefix c l = (l.takeWhile (· == c)).length := by
  induction l with
  | nil => simp [countPrefix]
  | cons b t ih =>
    simp only [countPrefix, List.takeWhile_cons]
    split <;> simp [ih]; omega

theorem firstNonSpace_eq (l : Bytes) (i : Nat) :
    firstNonSpace l i =
      match l.drop (l.takeWhile isWs).length with
      | [] => none
      | _ :: _ => some (i + (l.takeWhile isWs).length) := by
  induction l generalizing i with
  | nil => simp [firstNonSpace]
  | cons b t ih =>
    simp only [firstNonSpace, List.takeWhile_cons, gen_isWs]
    cases hb : isWs b
    · simp
    · simp only [Bool.not_true, Bool.false_eq_true, if_false, if_true, List.length_cons, List.drop_succ_cons]
      rw [ih (i + 1)]
      split <;> simp; omega

theorem drop_takeWhile_head (p : UInt8 → Bool) (l : Bytes) {x : UInt8} {r : Bytes}
    (h : l.drop (l.takeWhile p).length = x :: r) : p x = false := by
  induction l with
  | nil => simp at h
  | cons b t ih =>
    rw [List.takeWhile_cons] at h
    cases hb : p b
    · simp [hb] at h; rw [← h.1]; exact hb
    · simp [hb] at h; exact ih h

theorem dropRight_cons_ne_nil (p : UInt8 → Bool) (x : UInt8) (r : Bytes) (hx : p x = false) :
    dropRight p (x :: r) ≠ [] := by
  have : x :: r = [x] ++ r := rfl
  rw [this, dropRight_append]
  split
  · rw [dropRight_id_of_getLast]
    · simp
    · intro y hy; simp at hy; subst hy; exact hx
  · simp

/-- Closed form of the trailing-whitespace trim loop. -/
theorem trimEnd_eq (line : Bytes) (s : Nat) :
    ∀ e, s ≤ e → e ≤ line.length →
      trimEnd line s e = s + (dropRight isWs ((line.take e).drop s)).length := by
  intro e
  induction e with
  | zero => intro hs _; simp [trimEnd, dropRight_nil]; omega
  | succ e ih =>
    intro hs he
    unfold trimEnd
    by_cases h1 : e + 1 ≤ s
    · have : s = e + 1 := by omega
      subst this
      simp [dropRight_nil]
    · simp only [h1, if_false]
      have helt : e < line.length := by omega
      rw [List.getElem?_eq_getElem helt]
      simp only [gen_isWs]
      have htake : line.take (e + 1) = line.take e ++ [line[e]] := by
        rw [List.take_succ_eq_append_getElem helt]
      have hdrop : (line.take (e + 1)).drop s = (line.take e).drop s ++ [line[e]] := by
        rw [htake, List.drop_append_of_le_length (by simp; omega)]
      rw [hdrop, dropRight_snoc]
      cases hc : isWs line[e]
      · simp; omega
      · simp only [Bool.not_true, Bool.false_eq_true, if_false, if_true]
        exact ih (by omega) (by omega)

theorem fence_eq_spec (line : Bytes) :
    Model.parseCodeFence line = (match Spec.codeFence line with
      | some ⟨c, n, some (s, e)⟩ => (⟨c, n, (s : Int), (e : Int)⟩ : Model.CodeFence)
      | some ⟨c, n, none⟩ => ⟨c, n, -1, -1⟩
      | none => Model.noFence) := by
  cases line with
  | nil => simp [parseCodeFence, codeFence]
  | cons c t =>
    unfold parseCodeFence codeFence
    simp only []
    generalize hl : (c :: t) = line
    rw [countPrefix_eq]
    generalize hn : (List.takeWhile (fun x => x == c) line).length = n
    have hnle : n ≤ line.length := by
      rw [← hn]; exact (List.takeWhile_sublist _).length_le
    by_cases hc : (c == 96 || c == 126) = true
    · have hc' : (c != 96 && c != 126) = false := by
        simp only [Bool.or_eq_true, beq_iff_eq] at hc
        rcases hc with h | h <;> simp [h]
      by_cases hn3 : n < 3
      · simp only [hc, hc', hn3, Gen.minConsecutive, if_true, Bool.not_true, Bool.false_eq_true, if_false,
          Bool.or_false]
        split <;> rfl
      · have hlen : ¬ line.length < 3 := by omega
        simp only [hc, hc', hn3, hlen, Gen.minConsecutive, Bool.not_true, Bool.false_eq_true, if_false,
          Bool.or_false, decide_false]
        rw [firstNonSpace_eq]
        generalize hlead : (List.takeWhile isWs (List.drop n line)).length = lead
        rw [List.drop_drop]
        cases hrest : List.drop (n + lead) line with
        | nil => simp [dropRight_nil]
        | cons x r =>
          simp only []
          have hs : n + lead ≤ line.length := by
            have : (List.drop (n + lead) line).length = (x :: r).length := by rw [hrest]
            simp at this; omega
          rw [trimEnd_eq line (n + lead) line.length hs (Nat.le_refl _), List.take_length, hrest]
          have hx : isWs x = false := by
            rw [← List.drop_drop, ← hlead] at hrest
            exact drop_takeWhile_head _ _ hrest
          have hne := dropRight_cons_ne_nil isWs x r hx
          have htk : n + lead + (dropRight isWs (x :: r)).length - (n + lead) = (dropRight isWs (x :: r)).length := by
            omega
          rw [htk, ← dropRight_eq_take]
          generalize dropRight isWs (x :: r) = info at hne
          cases info with
          | nil => exact absurd rfl hne
          | cons y ys =>
            simp only [List.isEmpty_cons, Bool.false_eq_true, if_false, List.contains_eq_any_beq]
            have : (List.any (y :: ys) fun x => x == 96) = (List.any (y :: ys) fun x => (96 : UInt8) == x) := by
              congr 1; funext x; exact Bool.beq_comm
            rw [this]
            split <;> rfl
    · have hc' : (c != 96 && c != 126) = true := by
        simp only [Bool.or_eq_true, beq_iff_eq, not_or] at hc
        simp [hc.1, hc.2]
      simp [hc, hc']

/-! ### ATX heading -/

/-- Line-ending bytes. -/
def isNL (c : UInt8) : Bool := c == 0x0A || c == 0x0D

theorem take_succ_drop (line : Bytes) (s e : Nat) (hs : s ≤ e) (he : e < line.length) :
    (line.take (e + 1)).drop s = (line.take e).drop s ++ [line[e]] := by
  rw [List.take_succ_eq_append_getElem he, List.drop_append_of_le_length (by simp; omega)]

theorem isEndEscaped_nil : isEndEscaped [] = false := by simp [isEndEscaped, trailingBackslashes]

theorem isEndEscaped_snoc (l : Bytes) (a : UInt8) :
    isEndEscaped (l ++ [a]) = if a == 0x5C then !isEndEscaped l else false := by
  unfold isEndEscaped
  rw [List.reverse_append]
  simp only [List.reverse_cons, List.reverse_nil, List.nil_append, List.cons_append, trailingBackslashes]
  split
  · cases h : (trailingBackslashes l.reverse % 2 == 1) <;> simp at h ⊢ <;> omega
  · simp

theorem isEndEscaped_getLast (l : Bytes) (h : isEndEscaped l = true) : l.getLast? = some 0x5C := by
  induction l using snoc_induction with
  | h0 => simp [isEndEscaped_nil] at h
  | h1 l a _ =>
    rw [isEndEscaped_snoc] at h
    by_cases ha : a = 0x5C
    · simp [ha]
    · simp [ha] at h

theorem isSpTab_backslash : isSpTab 0x5C = false := by decide

/-- After an odd run of backslashes there is no trailing blank to drop. -/
theorem dropRight_drop_of_escaped (p : Bytes) (s : Nat) (h : isEndEscaped p = true) :
    dropRight isSpTab (p.drop s) = p.drop s := by
  apply dropRight_id_of_getLast
  intro x hx
  rw [List.getLast?_drop] at hx
  split at hx
  · simp at hx
  · rw [isEndEscaped_getLast p h] at hx
    simp at hx; subst hx; exact isSpTab_backslash

/-- Closed form of the first backward scan of `parseATXHeading` (below the line ending). -/
theorem atxScanBack_eq (line : Bytes) (start : Nat) :
    ∀ e, start ≤ e → e ≤ line.length →
      (∀ i (h : i < line.length), start ≤ i → i < e → isNL line[i] = false) →
      atxScanBack line start e =
        (let l := (line.take e).drop start
         let r1 := dropRight isSpTab l
         if r1.length < l.length ∧ isEndEscaped (line.take (start + r1.length)) = true
         then (start + r1.length + 1, false)
         else (start + r1.length, r1.getLast? == some 0x23)) := by
  intro e
  induction e with
  | zero => intro hs _ _; simp [atxScanBack, dropRight_nil]; omega
  | succ e ih =>
    intro hs he hnl
    unfold atxScanBack
    by_cases h1 : e + 1 ≤ start
    · have : start = e + 1 := by omega
      subst this; simp [dropRight_nil]
    · simp only [h1, if_false]
      have helt : e < line.length := by omega
      rw [List.getElem?_eq_getElem helt]
      simp only []
      have hdrop := take_succ_drop line start e (by omega) helt
      have hcnl : isNL line[e] = false := hnl e helt (by omega) (by omega)
      have hcnl' : (line[e] == CR || line[e] == LF) = false := by rw [Bool.or_comm]; exact hcnl
      have ih' := ih (by omega) (by omega) (fun i h a b => hnl i h a (by omega))
      simp only [] at ih'
      rw [hdrop, dropRight_snoc]
      simp only [hcnl', Bool.false_eq_true, if_false]
      have hll : ((line.take e).drop start).length = e - start := by simp; omega
      have hescl := dropRight_drop_of_escaped (line.take e) start
      generalize (line.take e).drop start = l at *
      have hle := dropRight_length_le isSpTab l
      have hsp : (line[e] == SP || line[e] == TAB) = isSpTab line[e] := rfl
      rw [hsp]
      cases hb : isSpTab line[e]
      · simp only [Bool.false_eq_true, if_false, List.length_append, List.length_singleton, Nat.lt_irrefl,
          false_and, List.getLast?_append, List.getLast?_singleton, Option.some_or]
        have : start + (l.length + 1) = e + 1 := by omega
        rw [this]
        by_cases h23 : line[e] = 35 <;> simp [h23]
      · simp only [if_true, List.length_append, List.length_singleton]
        by_cases hesc : isEndEscaped (List.take e line) = true
        · have hl := hescl hesc
          have : start + l.length = e := by omega
          simp [hesc, hl, this]
        · have hesc' : isEndEscaped (List.take e line) = false := by simpa using hesc
          simp only [hesc', Bool.false_eq_true, if_false, ih']
          by_cases hlt : (dropRight isSpTab l).length < l.length
          · have : (dropRight isSpTab l).length < l.length + 1 := by omega
            simp only [hlt, this, true_and]
          · have heq : (dropRight isSpTab l).length = l.length := by omega
            have : start + l.length = e := by omega
            simp [heq, this, hesc']

/-- Closed form of the closing-sequence scan (`scanTrailingHashes`). -/
theorem atxScanHashes_eq (line : Bytes) (start : Nat) :
    ∀ i, start ≤ i → i ≤ line.length →
      atxScanHashes line start i =
        (let r2 := dropRight (· == 0x23) ((line.take i).drop start)
         if r2.isEmpty then some start
         else if isSpTab (r2.getLast?.getD 0) then some (start + r2.length) else none) := by
  intro i
  induction i with
  | zero => intro hs _; simp [atxScanHashes, dropRight_nil]
  | succ i ih =>
    intro hs hi
    unfold atxScanHashes
    by_cases h1 : i < start
    · have : start = i + 1 := by omega
      subst this; simp [dropRight_nil]
    · simp only [h1, if_false]
      have hilt : i < line.length := by omega
      rw [List.getElem?_eq_getElem hilt]
      simp only []
      have hdrop := take_succ_drop line start i (by omega) hilt
      have ih' := ih (by omega) (by omega)
      simp only [] at ih'
      rw [hdrop, dropRight_snoc]
      have hll : ((line.take i).drop start).length = i - start := by simp; omega
      generalize (line.take i).drop start = l at *
      have hsp : (line[i] == SP || line[i] == TAB) = isSpTab line[i] := rfl
      rw [hsp]
      by_cases h23 : (line[i] == 35) = true
      · simp only [h23, if_true]; exact ih'
      · have hne : (l ++ [line[i]]).isEmpty = false := by cases l <;> rfl
        simp only [h23, if_false, Bool.false_eq_true, hne,
          List.getLast?_append, List.getLast?_singleton, Option.some_or, Option.getD_some,
          List.length_append, List.length_singleton]
        have : start + (l.length + 1) = i + 1 := by omega
        rw [this]

/-- Closed form of the final trim of `parseATXHeading`. -/
theorem atxTrim_eq (line : Bytes) (start : Nat) :
    ∀ e, start ≤ e → e ≤ line.length →
      atxTrim line start e =
        (let l := (line.take e).drop start
         let r3 := dropRight isSpTab l
         if r3.length < l.length ∧ isEndEscaped (line.take (start + r3.length)) = true
         then start + r3.length + 1 else start + r3.length) := by
  intro e
  induction e with
  | zero => intro hs _; simp [atxTrim, dropRight_nil]; omega
  | succ e ih =>
    intro hs he
    unfold atxTrim
    by_cases h1 : e + 1 ≤ start
    · have : start = e + 1 := by omega
      subst this; simp [dropRight_nil]
    · simp only [h1, if_false]
      have helt : e < line.length := by omega
      rw [List.getElem?_eq_getElem helt]
      simp only []
      have hdrop := take_succ_drop line start e (by omega) helt
      have ih' := ih (by omega) (by omega)
      simp only [] at ih'
      rw [hdrop, dropRight_snoc]
      have hll : ((line.take e).drop start).length = e - start := by simp; omega
      have hescl := dropRight_drop_of_escaped (line.take e) start
      generalize (line.take e).drop start = l at *
      have hle := dropRight_length_le isSpTab l
      have hsp : (line[e] == SP || line[e] == TAB) = isSpTab line[e] := rfl
      rw [hsp]
      cases hb : isSpTab line[e]
      · simp only [Bool.not_false, Bool.true_or, if_true, Bool.false_eq_true, if_false, List.length_append,
          List.length_singleton, Nat.lt_irrefl, false_and]
        omega
      · simp only [Bool.not_true, Bool.false_or, if_true, List.length_append, List.length_singleton]
        by_cases hesc : isEndEscaped (List.take e line) = true
        · have hl := hescl hesc
          have : start + l.length = e := by omega
          simp [hesc, hl, this]
        · have hesc' : isEndEscaped (List.take e line) = false := by simpa using hesc
          simp only [hesc', Bool.false_eq_true, if_false, ih']
          by_cases hlt : (dropRight isSpTab l).length < l.length
          · have : (dropRight isSpTab l).length < l.length + 1 := by omega
            simp only [hlt, this, true_and]
          · have heq : (dropRight isSpTab l).length = l.length := by omega
            have : start + l.length = e := by omega
            simp [heq, this, hesc']

theorem isNL_classes : ∀ c : UInt8, isNL c = true → (c == 0x23) = false ∧ isSpTab c = false := by
  apply forall_uint8; decide +kernel

theorem dropRight_prefix (p : UInt8 → Bool) (l : Bytes) : dropRight p l <+: l :=
  List.prefix_iff_eq_take.2 (dropRight_eq_take p l)

/-- Prefix of `pre ++ content ++ nl` ending inside `content`. -/
theorem take_pre (pre content nl r : Bytes) (h : r <+: content) :
    (pre ++ content ++ nl).take (pre.length + r.length) = pre ++ r := by
  obtain ⟨t, rfl⟩ := h
  have : pre ++ (r ++ t) ++ nl = (pre ++ r) ++ (t ++ nl) := by simp
  rw [this, List.take_left' (by simp)]

theorem take_pre_drop (pre content nl r : Bytes) (h : r <+: content) :
    ((pre ++ content ++ nl).take (pre.length + r.length)).drop pre.length = r := by
  rw [take_pre _ _ _ _ h, List.drop_left' rfl]

/-- The first scan walks over the line ending. -/
theorem atxScanBack_skipNL (line : Bytes) (start m : Nat) (hsm : start ≤ m) :
    ∀ k, m + k ≤ line.length →
      (∀ i (h : i < line.length), m ≤ i → isNL line[i] = true) →
      atxScanBack line start (m + k) = atxScanBack line start m := by
  intro k
  induction k with
  | zero => intros; rfl
  | succ k ih =>
    intro hk hnl
    have : m + (k + 1) = (m + k) + 1 := by omega
    rw [this]
    conv => lhs; unfold atxScanBack
    have h1 : ¬ (m + k + 1 ≤ start) := by omega
    have hlt : m + k < line.length := by omega
    simp only [h1, if_false]
    rw [List.getElem?_eq_getElem hlt]
    have hc : (line[m + k] == CR || line[m + k] == LF) = true := by
      rw [Bool.or_comm]; exact hnl (m + k) hlt (by omega)
    simp only [hc, if_true]
    exact ih (by omega) hnl

/-- The content end computed by the three scans of `parseATXHeading`. -/
def atxStopModel (line : Bytes) (start : Nat) : Nat :=
  let (e, hitHash) := atxScanBack line start line.length
  if !hitHash then e
  else match atxScanHashes line start e with
    | none => e
    | some e' => atxTrim line start e'

/-- The content end of `Spec.atxHeading`, for raw content `content` starting at `start`. -/
def atxStopSpec (start : Nat) (content : Bytes) : Nat :=
  let r1 := dropRight isSpTab content
  let r2 := dropRight (· == 0x23) r1
  if r2.length == r1.length then start + r1.length
  else if r2.isEmpty then start
  else if isSpTab (r2.getLast?.getD 0) then start + (dropRight isSpTab r2).length
  else start + r1.length

theorem atxTrim_self (line : Bytes) (start : Nat) : atxTrim line start start = start := by
  cases start with
  | zero => rfl
  | succ e => unfold atxTrim; simp

/-- What the three scans of `parseATXHeading` compute, with no hypothesis about backslashes:
    each of the two trailing-blank trims stops one byte early when the blank run it is removing is
    preceded by an odd-length run of backslashes. -/
theorem atxStopModel_eq (pre content nl : Bytes)
    (hcont : ∀ x ∈ content, isNL x = false) (hnl : ∀ x ∈ nl, isNL x = true) :
    atxStopModel (pre ++ content ++ nl) pre.length =
      (let r1 := dropRight isSpTab content
       let r2 := dropRight (· == 0x23) r1
       let r3 := dropRight isSpTab r2
       if r1.length < content.length ∧ isEndEscaped (pre ++ r1) = true then pre.length + r1.length + 1
       else if r1.getLast? = some 0x23 then
         if r2.isEmpty then pre.length
         else if isSpTab (r2.getLast?.getD 0) then
           (if r3.length < r2.length ∧ isEndEscaped (pre ++ r3) = true then pre.length + r3.length + 1
            else pre.length + r3.length)
         else pre.length + r1.length
       else pre.length + r1.length) := by
  unfold atxStopModel
  generalize hline : pre ++ content ++ nl = line
  have hlen : line.length = pre.length + content.length + nl.length := by rw [← hline]; simp; omega
  -- skip the line ending
  have hskip : atxScanBack line pre.length line.length
      = atxScanBack line pre.length (pre.length + content.length) := by
    rw [hlen]
    apply atxScanBack_skipNL line pre.length (pre.length + content.length) (by omega) nl.length (by omega)
    intro i hi hmi
    have : line[i] ∈ nl := by
      subst hline
      rw [List.getElem_append_right (by simp; omega)]; exact List.getElem_mem _
    exact hnl _ this
  rw [hskip]
  have hA := atxScanBack_eq line pre.length (pre.length + content.length) (by omega) (by omega) (by
    intro i hi h1 h2
    have : line[i] ∈ content := by
      subst hline
      rw [List.getElem_append_left (by simp; omega), List.getElem_append_right (by omega)]
      exact List.getElem_mem _
    exact hcont _ this)
  have hl0 : (line.take (pre.length + content.length)).drop pre.length = content := by
    rw [← hline]; exact take_pre_drop pre content nl content (List.prefix_refl _)
  simp only [hl0] at hA
  simp only []
  generalize hr1 : dropRight isSpTab content = r1 at *
  have hp1 : r1 <+: content := hr1 ▸ dropRight_prefix _ _
  have ht1 : line.take (pre.length + r1.length) = pre ++ r1 := by rw [← hline]; exact take_pre _ _ _ _ hp1
  rw [ht1] at hA
  rw [hA]
  generalize hr2 : dropRight (· == 0x23) r1 = r2 at *
  have hp2 : r2 <+: content := (hr2 ▸ dropRight_prefix _ _ : r2 <+: r1).trans hp1
  generalize hr3 : dropRight isSpTab r2 = r3 at *
  have hp3 : r3 <+: content := (hr3 ▸ dropRight_prefix _ _ : r3 <+: r2).trans hp2
  by_cases hc1 : r1.length < content.length ∧ isEndEscaped (pre ++ r1) = true
  · rw [if_pos hc1, if_pos hc1]; rfl
  · rw [if_neg hc1, if_neg hc1]
    simp only []
    by_cases hlast : r1.getLast? = some 0x23
    · -- a closing sequence candidate
      simp only [hlast, beq_self_eq_true, Bool.not_true, Bool.false_eq_true, if_false, if_true]
      have hB := atxScanHashes_eq line pre.length (pre.length + r1.length) (by omega) (by
        have := hp1.length_le; omega)
      have hl1 : (line.take (pre.length + r1.length)).drop pre.length = r1 := by
        rw [← hline]; exact take_pre_drop _ _ _ _ hp1
      simp only [hl1, hr2] at hB
      rw [hB]
      by_cases he2 : r2.isEmpty = true
      · simp only [he2, if_true]; exact atxTrim_self _ _
      · simp only [he2, if_false, Bool.false_eq_true]
        by_cases hb : isSpTab (r2.getLast?.getD 0) = true
        · simp only [hb, if_true]
          have hC := atxTrim_eq line pre.length (pre.length + r2.length) (by omega) (by
            have := hp2.length_le; omega)
          have hl2 : (line.take (pre.length + r2.length)).drop pre.length = r2 := by
            rw [← hline]; exact take_pre_drop _ _ _ _ hp2
          have ht3 : line.take (pre.length + r3.length) = pre ++ r3 := by
            rw [← hline]; exact take_pre _ _ _ _ hp3
          simp only [hl2, hr3, ht3] at hC
          exact hC
        · simp only [hb, if_false, Bool.false_eq_true]
    · have hb : (r1.getLast? == some 0x23) = false := by simpa using hlast
      simp [hb, hlast]

/-- The spec's content end in the same case structure as `atxStopModel_eq`. -/
theorem atxStopSpec_eq (start : Nat) (content : Bytes) :
    atxStopSpec start content =
      (let r1 := dropRight isSpTab content
       let r2 := dropRight (· == 0x23) r1
       let r3 := dropRight isSpTab r2
       if r1.getLast? = some 0x23 then
         if r2.isEmpty then start
         else if isSpTab (r2.getLast?.getD 0) then start + r3.length
         else start + r1.length
       else start + r1.length) := by
  unfold atxStopSpec
  simp only []
  generalize dropRight isSpTab content = r1
  generalize hr2 : dropRight (· == 0x23) r1 = r2
  by_cases hlast : r1.getLast? = some 0x23
  · obtain ⟨q, hq⟩ := List.getLast?_eq_some_iff.1 hlast
    have hlt : r2.length < r1.length := by
      rw [← hr2, hq, dropRight_snoc]
      have := dropRight_length_le (· == 0x23) q
      simp; omega
    have hne : (r2.length == r1.length) = false := by simp; omega
    rw [if_pos hlast, hne]; rfl
  · have hid : r2 = r1 := by
      rw [← hr2]
      apply dropRight_id_of_getLast
      intro x hx
      by_cases hx23 : x = 0x23
      · subst hx23; exact absurd hx hlast
      · simpa using hx23
    rw [if_neg hlast, hid]; simp

/-- The heart of the ATX theorem: the three scans compute the spec's content end, provided neither
    trailing-blank trim is stopped by an odd run of backslashes. -/
theorem atx_content (pre content nl : Bytes)
    (hcont : ∀ x ∈ content, isNL x = false) (hnl : ∀ x ∈ nl, isNL x = true)
    (hc1 : ¬ ((dropRight isSpTab content).length < content.length ∧
              isEndEscaped (pre ++ dropRight isSpTab content) = true))
    (hc2 : ¬ ((dropRight isSpTab (dropRight (· == 0x23) (dropRight isSpTab content))).length
                < (dropRight (· == 0x23) (dropRight isSpTab content)).length ∧
              isEndEscaped (pre ++ dropRight isSpTab (dropRight (· == 0x23) (dropRight isSpTab content))) = true)) :
    atxStopModel (pre ++ content ++ nl) pre.length = atxStopSpec pre.length content := by
  rw [atxStopModel_eq pre content nl hcont hnl, atxStopSpec_eq]
  simp only []
  rw [if_neg hc1, if_neg hc2]

/-- Conversely, when one of the two trims is stopped by a backslash run, model and spec differ. -/
theorem atx_content_neg (pre content nl : Bytes)
    (hcont : ∀ x ∈ content, isNL x = false) (hnl : ∀ x ∈ nl, isNL x = true)
    (hc : ((dropRight isSpTab content).length < content.length ∧
              isEndEscaped (pre ++ dropRight isSpTab content) = true) ∨
          ((dropRight isSpTab (dropRight (· == 0x23) (dropRight isSpTab content))).length
                < (dropRight (· == 0x23) (dropRight isSpTab content)).length ∧
              isEndEscaped (pre ++ dropRight isSpTab (dropRight (· == 0x23) (dropRight isSpTab content))) = true)) :
    atxStopModel (pre ++ content ++ nl) pre.length ≠ atxStopSpec pre.length content := by
  rw [atxStopModel_eq pre content nl hcont hnl, atxStopSpec_eq]
  simp only []
  have hle2 := dropRight_length_le (· == 0x23) (dropRight isSpTab content)
  have hle3 := dropRight_length_le isSpTab (dropRight (· == 0x23) (dropRight isSpTab content))
  have hlast1 := dropRight_getLast isSpTab content
  have hlast2 := dropRight_getLast (· == 0x23) (dropRight isSpTab content)
  have hid3 := dropRight_id_of_getLast isSpTab (dropRight (· == 0x23) (dropRight isSpTab content))
  generalize dropRight isSpTab content = r1 at *
  have hid2 := dropRight_id_of_getLast (· == 0x23) r1
  generalize dropRight (· == 0x23) r1 = r2 at *
  generalize dropRight isSpTab r2 = r3 at *
  by_cases hc1 : r1.length < content.length ∧ isEndEscaped (pre ++ r1) = true
  · rw [if_pos hc1]
    split
    · split
      · omega
      · split <;> omega
    · omega
  · rw [if_neg hc1]
    have hc2 := hc.resolve_left hc1
    -- the second trim only happens after a closing sequence in front of which there is a blank
    have hne : r3 ≠ r2 := by intro h; rw [h] at hc2; omega
    have hlast : r1.getLast? = some 0x23 := by
      cases h : r1.getLast? with
      | none =>
        have : r1 = [] := List.getLast?_eq_none_iff.1 h
        subst this
        have : r2 = [] := by cases r2 with
          | nil => rfl
          | cons _ _ => simp at hle2
        subst this
        have : r3 = [] := by cases r3 with
          | nil => rfl
          | cons _ _ => simp at hle3
        exact absurd this hne
      | some x =>
        by_cases hx : x = 0x23
        · rw [hx]
        · exfalso
          have h21 : r2 = r1 := hid2 (by intro y hy; rw [h] at hy; simp at hy; subst hy; simpa using hx)
          subst h21
          exact hne (hid3 (by intro y hy; rw [h] at hy; simp at hy; subst hy; exact hlast1 _ h))
    have he2 : r2.isEmpty = false := by
      cases r2 with
      | nil => simp at hc2
      | cons _ _ => rfl
    have hb : isSpTab (r2.getLast?.getD 0) = true := by
      cases h : r2.getLast? with
      | none =>
        have : r2 = [] := List.getLast?_eq_none_iff.1 h
        subst this; simp at he2
      | some x =>
        cases hx : isSpTab x
        · exact absurd (hid3 (by intro y hy; rw [h] at hy; simp at hy; subst hy; exact hx)) hne
        · simp [hx]
    rw [if_pos hlast, if_pos hlast]
    simp only [he2, hb, if_true, Bool.false_eq_true, if_false]
    rw [if_pos hc2]
    omega

/-! #### The hypothesis: no trailing blank that a trim reaches is backslash-escaped -/

/-- On a line body (no line ending): neither the blank run at the end of the body, nor the blank run
    in front of a closing `#` sequence, is immediately preceded by an odd-length run of backslashes. -/
def noEscBody (body : Bytes) : Bool :=
  let r1 := dropRight isSpTab body
  let r2 := dropRight (· == 0x23) r1
  let r3 := dropRight isSpTab r2
  !(decide (r1.length < body.length) && isEndEscaped r1) &&
  !(decide (r3.length < r2.length) && isEndEscaped r3)

def noEscapedTrailingBlank (line : Bytes) : Bool := noEscBody (dropRight isNL line)

theorem not_escaped_of_blank_end (pre : Bytes) (b : UInt8) (hb : isSpTab b = true)
    (h : pre.getLast? = some b) : isEndEscaped pre = false := by
  cases he : isEndEscaped pre
  · rfl
  · rw [isEndEscaped_getLast pre he] at h
    simp at h; subst h; simp [isSpTab_backslash] at hb

/-- `noEscBody` on `pre ++ content` gives the two side conditions of `atx_content`. -/
theorem noEscBody_conds (pre content : Bytes) (b : UInt8) (hb : isSpTab b = true)
    (hpre : pre.getLast? = some b)
    (hhead : ∀ x t, content = x :: t → isSpTab x = false)
    (h : noEscBody (pre ++ content) = true) :
    ¬ ((dropRight isSpTab content).length < content.length ∧
        isEndEscaped (pre ++ dropRight isSpTab content) = true) ∧
    ¬ ((dropRight isSpTab (dropRight (· == 0x23) (dropRight isSpTab content))).length
          < (dropRight (· == 0x23) (dropRight isSpTab content)).length ∧
        isEndEscaped (pre ++ dropRight isSpTab (dropRight (· == 0x23) (dropRight isSpTab content))) = true) := by
  cases content with
  | nil => simp [dropRight_nil]
  | cons x t =>
    have hx := hhead x t rfl
    have hr1 := dropRight_cons_ne_nil isSpTab x t hx
    unfold noEscBody at h
    simp only [] at h
    rw [dropRight_append isSpTab pre (x :: t), if_neg hr1] at h
    generalize dropRight isSpTab (x :: t) = r1 at *
    rw [dropRight_append (· == 0x23) pre r1] at h
    generalize dropRight (· == 0x23) r1 = r2 at *
    simp only [Bool.and_eq_true, Bool.not_eq_true', Bool.and_eq_false_iff, decide_eq_false_iff_not,
      List.length_append, List.length_cons] at h
    constructor
    · rintro ⟨h1, h2⟩
      rcases h.1 with h' | h'
      · simp only [List.length_cons] at h1; omega
      · rw [h2] at h'; exact absurd h' (by simp)
    · rintro ⟨h1, h2⟩
      have hr2 : r2 ≠ [] := by
        intro h0; subst h0; simp at h1
      rw [if_neg hr2, dropRight_append isSpTab pre r2] at h
      by_cases hr3 : dropRight isSpTab r2 = []
      · rw [hr3] at h2
        simp only [List.append_nil] at h2
        rw [not_escaped_of_blank_end pre b hb hpre] at h2
        exact absurd h2 (by simp)
      · rw [if_neg hr3] at h
        rcases h.2 with h' | h'
        · simp only [List.length_append] at h'; omega
        · rw [h2] at h'; exact absurd h' (by simp)

theorem hash_not_blank : ∀ x : UInt8, (x == 0x23) = true → isSpTab x = false ∧ (x == 0x5C) = false := by
  apply forall_uint8; decide +kernel

theorem hashes_not_escaped (hs : Bytes) (hhs : ∀ x ∈ hs, (x == 0x23) = true) : isEndEscaped hs = false := by
  cases he : isEndEscaped hs
  · rfl
  · have h1 := isEndEscaped_getLast hs he
    have := (hash_not_blank _ (hhs _ (List.mem_of_getLast? h1))).2
    simp at this

theorem dropRight_blank_hashes (hs : Bytes) (hhs : ∀ x ∈ hs, (x == 0x23) = true) :
    dropRight isSpTab hs = hs :=
  dropRight_id_of_getLast _ _ (fun x hx => (hash_not_blank x (hhs x (List.mem_of_getLast? hx))).1)

/-- A body consisting of `#`s only satisfies the hypothesis. -/
theorem noEscBody_hashes (hs : Bytes) (hhs : ∀ x ∈ hs, (x == 0x23) = true) : noEscBody hs = true := by
  unfold noEscBody
  simp only []
  rw [dropRight_blank_hashes hs hhs, dropRight_all _ hs hhs, dropRight_nil]
  simp

/-- Converse of `noEscBody_conds` (for `pre` = `#`s followed by at least one blank). -/
theorem noEscBody_of_conds (hs bl content : Bytes) (hhs : ∀ x ∈ hs, (x == 0x23) = true)
    (hbl : ∀ x ∈ bl, isSpTab x = true) (b : UInt8) (hb : isSpTab b = true)
    (hpre : (hs ++ bl).getLast? = some b)
    (hhead : ∀ x t, content = x :: t → isSpTab x = false)
    (hc1 : ¬ ((dropRight isSpTab content).length < content.length ∧
        isEndEscaped ((hs ++ bl) ++ dropRight isSpTab content) = true))
    (hc2 : ¬ ((dropRight isSpTab (dropRight (· == 0x23) (dropRight isSpTab content))).length
          < (dropRight (· == 0x23) (dropRight isSpTab content)).length ∧
        isEndEscaped ((hs ++ bl) ++ dropRight isSpTab (dropRight (· == 0x23) (dropRight isSpTab content)))
          = true)) :
    noEscBody ((hs ++ bl) ++ content) = true := by
  have hpre1 : dropRight isSpTab (hs ++ bl) = hs := by
    rw [dropRight_append, if_pos (dropRight_all _ bl hbl)]; exact dropRight_blank_hashes hs hhs
  have hpre2 : dropRight (· == 0x23) (hs ++ bl) = hs ++ bl := by
    apply dropRight_id_of_getLast
    intro x hx
    rw [hpre] at hx; simp at hx; subst hx
    cases h : (b == 0x23)
    · rfl
    · rw [(hash_not_blank b h).1] at hb; exact absurd hb (by simp)
  have hesc := hashes_not_escaped hs hhs
  cases content with
  | nil =>
    unfold noEscBody
    simp only [List.append_nil, hpre1, dropRight_all _ hs hhs, dropRight_nil, hesc]
    simp
  | cons x t =>
    have hx := hhead x t rfl
    have hr1 := dropRight_cons_ne_nil isSpTab x t hx
    unfold noEscBody
    simp only []
    rw [dropRight_append isSpTab (hs ++ bl) (x :: t), if_neg hr1]
    generalize dropRight isSpTab (x :: t) = r1 at *
    rw [dropRight_append (· == 0x23) (hs ++ bl) r1]
    generalize dropRight (· == 0x23) r1 = r2 at *
    simp only [Bool.and_eq_true, Bool.not_eq_true', Bool.and_eq_false_iff, decide_eq_false_iff_not]
    constructor
    · by_cases h : isEndEscaped (hs ++ bl ++ r1) = true
      · left
        intro hlt
        apply hc1
        refine ⟨?_, h⟩
        simp only [List.length_append, List.length_cons] at hlt ⊢
        omega
      · right; simpa using h
    · by_cases hr2 : r2 = []
      · rw [if_pos hr2, hpre2, hpre1]; right; exact hesc
      · rw [if_neg hr2, dropRight_append isSpTab (hs ++ bl) r2]
        by_cases hr3 : dropRight isSpTab r2 = []
        · rw [if_pos hr3, hpre1]; right; exact hesc
        · rw [if_neg hr3]
          by_cases h : isEndEscaped (hs ++ bl ++ dropRight isSpTab r2) = true
          · left
            intro hlt
            apply hc2
            refine ⟨?_, h⟩
            simp only [List.length_append] at hlt; omega
          · right; simpa using h

/-! #### Assembly -/

theorem skipSpTab_eq (l : Bytes) : skipSpTab l = (l.takeWhile isSpTab).length := by
  induction l with
  | nil => rfl
  | cons b t ih =>
    have hsp : (b == SP || b == TAB) = isSpTab b := rfl
    simp only [skipSpTab, List.takeWhile_cons, hsp]
    split <;> simp [ih]; omega

theorem takeWhile_append_of_none (p : UInt8 → Bool) (a b : Bytes) (h : ∀ x ∈ b, p x = false) :
    (a ++ b).takeWhile p = a.takeWhile p := by
  induction a with
  | nil =>
    cases b with
    | nil => rfl
    | cons x t => simp [h x (by simp)]
  | cons y a ih => simp only [List.cons_append, List.takeWhile_cons, ih]

/-- `Spec.atxHeading` after its line ending has been removed. -/
def atxOfBody (body : Bytes) : Option ATX :=
  let level := (body.takeWhile (· == 0x23)).length
  if level == 0 || level > 6 then none else
  let rest := body.drop level
  match rest with
  | [] => some ⟨level, level, level⟩
  | c :: _ =>
    if !isSpTab c then none else
    let lead := (rest.takeWhile isSpTab).length
    let start := level + lead
    some ⟨level, start, atxStopSpec start (rest.drop lead)⟩

theorem atxSpec_tail (level start : Nat) (content : Bytes) :
    (let r1 := dropRight isSpTab content
     let r2 := dropRight (· == 0x23) r1
     if r2.length == r1.length then some (⟨level, start, start + r1.length⟩ : ATX)
     else if r2.isEmpty then some ⟨level, start, start⟩
     else if isSpTab (r2.getLast?.getD 0) then some ⟨level, start, start + (dropRight isSpTab r2).length⟩
     else some ⟨level, start, start + r1.length⟩)
    = some ⟨level, start, atxStopSpec start content⟩ := by
  unfold atxStopSpec
  simp only []
  generalize dropRight isSpTab content = r1
  generalize dropRight (· == 0x23) r1 = r2
  by_cases h1 : (r2.length == r1.length) = true
  · rw [if_pos h1, if_pos h1]
  · rw [if_neg h1, if_neg h1]
    by_cases h2 : r2.isEmpty = true
    · rw [if_pos h2, if_pos h2]
    · rw [if_neg h2, if_neg h2]
      by_cases h3 : isSpTab (r2.getLast?.getD 0) = true
      · rw [if_pos h3, if_pos h3]
      · rw [if_neg h3, if_neg h3]

theorem atxHeading_eq_ofBody (line : Bytes) : Spec.atxHeading line = atxOfBody (dropRight isNL line) := by
  unfold Spec.atxHeading atxOfBody
  have hNL : (fun c : UInt8 => c == 0x0A || c == 0x0D) = isNL := rfl
  simp only [hNL]
  generalize dropRight isNL line = body
  generalize (body.takeWhile (· == 0x23)).length = level
  by_cases h1 : (level == 0 || decide (level > 6)) = true
  · rw [if_pos h1, if_pos h1]
  · rw [if_neg h1, if_neg h1]
    cases body.drop level with
    | nil => rfl
    | cons c t =>
      simp only []
      by_cases h2 : (!isSpTab c) = true
      · rw [if_pos h2, if_pos h2]
      · rw [if_neg h2, if_neg h2]
        exact atxSpec_tail _ _ _

/-- `parseATXHeading` with its three scans folded into `atxStopModel`. -/
theorem parseATXHeading_eq (line : Bytes) :
    parseATXHeading line =
      (let level := countPrefix 0x23 line
       if level == 0 || level > 6 then ⟨0, 0, 0⟩ else
       match line[level]? with
       | none => ⟨level, level, level⟩
       | some c =>
         if c == LF || c == CR then ⟨level, level, level⟩
         else if !isSpTab c then ⟨0, 0, 0⟩
         else
           let start := level + 1 + skipSpTab (line.drop (level + 1))
           ⟨level, start, atxStopModel line start⟩) := by
  unfold parseATXHeading
  simp only []
  generalize countPrefix 0x23 line = level
  by_cases h1 : (level == 0 || decide (level > 6)) = true
  · rw [if_pos h1, if_pos h1]
  · rw [if_neg h1, if_neg h1]
    cases line[level]? with
    | none => rfl
    | some c =>
      simp only []
      by_cases h2 : (c == LF || c == CR) = true
      · rw [if_pos h2, if_pos h2]
      · rw [if_neg h2, if_neg h2]
        have hsp : (c == SP || c == TAB) = isSpTab c := rfl
        rw [hsp]
        by_cases h3 : (!isSpTab c) = true
        · rw [if_pos h3, if_pos h3]
        · rw [if_neg h3, if_neg h3]
          unfold atxStopModel
          simp only []
          generalize level + 1 + skipSpTab (List.drop (level + 1) line) = start
          generalize atxScanBack line start line.length = r
          obtain ⟨e, hit⟩ := r
          cases hit
          · rfl
          · simp only [Bool.not_true, Bool.false_eq_true, if_false]
            cases atxScanHashes line start e <;> rfl

theorem takeWhile_decomp (p : UInt8 → Bool) (l : Bytes) :
    l = l.takeWhile p ++ l.drop (l.takeWhile p).length := by
  induction l with
  | nil => rfl
  | cons b t ih =>
    rw [List.takeWhile_cons]
    split
    · simp only [List.length_cons, List.drop_succ_cons, List.cons_append]; rw [← ih]
    · rfl

/-- Case split shared by both directions of the ATX theorem: either the line has no heading content
    (model = spec unconditionally), or `body = #… blank… content` and both sides are given by
    `atxStopModel` / `atxStopSpec` on that decomposition. -/
theorem atx_split (body nl : Bytes) (hb : ∀ x ∈ body, isNL x = false) (hn : ∀ x ∈ nl, isNL x = true) :
    (parseATXHeading (body ++ nl) =
        (match atxOfBody body with
         | some h => (⟨h.level, h.start, h.stop⟩ : ATXHeading)
         | none => ⟨0, 0, 0⟩) ∧
      (atxOfBody body = none ∨ noEscBody body = true)) ∨
    (∃ hs c bl content level,
      body = (hs ++ c :: bl) ++ content ∧ (∀ x ∈ hs, (x == 0x23) = true) ∧ isSpTab c = true ∧
      (∀ x ∈ bl, isSpTab x = true) ∧ (∀ x t', content = x :: t' → isSpTab x = false) ∧
      parseATXHeading (body ++ nl) =
        ⟨level, (hs ++ c :: bl).length,
          atxStopModel ((hs ++ c :: bl) ++ content ++ nl) (hs ++ c :: bl).length⟩ ∧
      atxOfBody body = some ⟨level, (hs ++ c :: bl).length, atxStopSpec (hs ++ c :: bl).length content⟩) := by
  have hM := parseATXHeading_eq (body ++ nl)
  have hS : atxOfBody body = atxOfBody body := rfl
  conv at hS => rhs; unfold atxOfBody
  simp only [] at hM hS
  rw [countPrefix_eq, takeWhile_append_of_none _ body nl (fun x hx => (isNL_classes x (hn x hx)).1)] at hM
  have hdec := takeWhile_decomp (· == 0x23) body
  have hhs : ∀ x ∈ body.takeWhile (· == 0x23), (x == 0x23) = true :=
    fun x hx => List.all_eq_true.1 List.all_takeWhile x hx
  generalize hL : body.takeWhile (· == 0x23) = hs at *
  generalize hlev : hs.length = level at *
  by_cases h1 : (level == 0 || decide (level > 6)) = true
  · rw [if_pos h1] at hM hS
    left; rw [hM, hS]; exact ⟨rfl, Or.inl rfl⟩
  · rw [if_neg h1] at hM hS
    cases hrest : body.drop level with
    | nil =>
      rw [hrest] at hS; simp only [] at hS
      rw [hrest, List.append_nil] at hdec
      have : (body ++ nl)[level]? = nl[0]? := by
        rw [List.getElem?_append_right (by rw [hdec]; omega)]
        rw [hdec, hlev]; simp
      rw [this] at hM
      have hne : noEscBody body = true := by rw [hdec]; exact noEscBody_hashes hs hhs
      left
      refine ⟨?_, Or.inr hne⟩
      rw [hM, hS]
      cases nl with
      | nil => rfl
      | cons c t =>
        have hc := hn c (by simp)
        have : (c == LF || c == CR) = true := hc
        simp [this]
    | cons c t =>
      rw [hrest] at hS; simp only [] at hS
      have hlt : level < body.length := by
        have := congrArg List.length hrest
        simp at this; omega
      have hget : (body ++ nl)[level]? = some c := by
        rw [List.getElem?_append_left hlt]
        have := congrArg List.head? hrest
        rw [List.head?_drop] at this; simpa using this
      rw [hget] at hM; simp only [] at hM
      have hcb : c ∈ body := by rw [hdec, hrest]; simp
      have hcnl : (c == LF || c == CR) = false := by
        have := hb c hcb
        rw [← this, isNL, Bool.or_comm]
      rw [if_neg (by simp [hcnl])] at hM
      by_cases h3 : (!isSpTab c) = true
      · rw [if_pos h3] at hM hS
        left; rw [hM, hS]; exact ⟨rfl, Or.inl rfl⟩
      · rw [if_neg h3] at hM hS
        have hc : isSpTab c = true := by simpa using h3
        rw [List.takeWhile_cons, if_pos hc] at hS
        have htdec := takeWhile_decomp isSpTab t
        have hblall : ∀ x ∈ t.takeWhile isSpTab, isSpTab x = true :=
          fun x hx => List.all_eq_true.1 List.all_takeWhile x hx
        have hhead : ∀ x t', t.drop (t.takeWhile isSpTab).length = x :: t' → isSpTab x = false :=
          fun x t' h => drop_takeWhile_head isSpTab t h
        generalize hbl : t.takeWhile isSpTab = bl at *
        generalize hcont : t.drop bl.length = content at *
        simp only [List.length_cons, List.drop_succ_cons, hcont] at hS
        have hdt : body.drop (level + 1) = t := by
          have := congrArg (List.drop 1) hrest
          simpa [List.drop_drop, Nat.add_comm] using this
        have hdrop : List.drop (level + 1) (body ++ nl) = t ++ nl := by
          rw [List.drop_append_of_le_length (by omega), hdt]
        have hskip : skipSpTab (List.drop (level + 1) (body ++ nl)) = bl.length := by
          rw [hdrop, skipSpTab_eq,
            takeWhile_append_of_none _ t nl (fun x hx => (isNL_classes x (hn x hx)).2)]
          rw [hbl]
        rw [hskip] at hM
        have hbody : body = (hs ++ c :: bl) ++ content := by
          rw [hdec, hrest]; simp only [List.append_assoc, List.cons_append]; rw [← htdec]
        have hprelen : (hs ++ c :: bl).length = level + 1 + bl.length := by
          simp; omega
        have hstart : level + (bl.length + 1) = level + 1 + bl.length := by omega
        rw [hstart, ← hprelen] at hS
        rw [← hprelen] at hM
        right
        refine ⟨hs, c, bl, content, level, hbody, hhs, hc, hblall, hhead, ?_, hS⟩
        rw [hM, ← hbody]

/-- The side conditions of `atx_content` are equivalent to `noEscBody` on the decomposed body. -/
theorem noEscBody_iff_conds (hs bl content : Bytes) (c : UInt8) (hhs : ∀ x ∈ hs, (x == 0x23) = true)
    (hc : isSpTab c = true) (hbl : ∀ x ∈ bl, isSpTab x = true)
    (hhead : ∀ x t, content = x :: t → isSpTab x = false) :
    noEscBody ((hs ++ c :: bl) ++ content) = true ↔
    (¬ ((dropRight isSpTab content).length < content.length ∧
        isEndEscaped ((hs ++ c :: bl) ++ dropRight isSpTab content) = true) ∧
     ¬ ((dropRight isSpTab (dropRight (· == 0x23) (dropRight isSpTab content))).length
          < (dropRight (· == 0x23) (dropRight isSpTab content)).length ∧
        isEndEscaped ((hs ++ c :: bl) ++ dropRight isSpTab (dropRight (· == 0x23) (dropRight isSpTab content)))
          = true)) := by
  obtain ⟨b, hbmem, hblast⟩ : ∃ b, b ∈ c :: bl ∧ (hs ++ c :: bl).getLast? = some b := by
    refine ⟨(c :: bl).getLast (by simp), List.getLast_mem _, ?_⟩
    rw [List.getLast?_append, List.getLast?_eq_some_getLast (by simp)]; rfl
  have hbsp : isSpTab b = true := by
    rcases List.mem_cons.1 hbmem with h | h
    · rw [h]; exact hc
    · exact hbl b h
  have hbl' : ∀ x ∈ c :: bl, isSpTab x = true := by
    intro x hx
    rcases List.mem_cons.1 hx with h | h
    · rw [h]; exact hc
    · exact hbl x h
  constructor
  · exact noEscBody_conds (hs ++ c :: bl) content b hbsp hblast hhead
  · rintro ⟨h1, h2⟩
    exact noEscBody_of_conds hs (c :: bl) content hhs hbl' b hbsp hblast hhead h1 h2

/-- ATX headings on a body and a line ending: model = spec exactly when the spec finds no heading or
    the body satisfies `noEscBody`. -/
theorem atx_core_iff (body nl : Bytes) (hb : ∀ x ∈ body, isNL x = false) (hn : ∀ x ∈ nl, isNL x = true) :
    parseATXHeading (body ++ nl) =
      (match atxOfBody body with
       | some h => (⟨h.level, h.start, h.stop⟩ : ATXHeading)
       | none => ⟨0, 0, 0⟩) ↔
    (atxOfBody body = none ∨ noEscBody body = true) := by
  rcases atx_split body nl hb hn with ⟨h1, h2⟩ | ⟨hs, c, bl, content, level, hbody, hhs, hc, hbl, hhead, hM, hS⟩
  · exact ⟨fun _ => h2, fun _ => h1⟩
  · have hcontNL : ∀ x ∈ content, isNL x = false := fun x hx => hb x (by rw [hbody]; simp [hx])
    have hiff := noEscBody_iff_conds hs bl content c hhs hc hbl hhead
    rw [← hbody] at hiff
    rw [hM, hS]
    simp only []
    constructor
    · intro heq
      right
      cases hne : noEscBody body
      · exfalso
        have hnc : ¬ (_ ∧ _) := fun h => by rw [hiff.2 h] at hne; exact absurd hne (by simp)
        have hor := Classical.not_and_iff_not_or_not.1 hnc
        simp only [Classical.not_not] at hor
        have := atx_content_neg (hs ++ c :: bl) content nl hcontNL hn hor
        apply this
        have := congrArg ATXHeading.stop heq
        exact this
      · rfl
    · rintro (h | h)
      · exact absurd h (by simp)
      · obtain ⟨hc1, hc2⟩ := hiff.1 h
        rw [atx_content (hs ++ c :: bl) content nl hcontNL hn hc1 hc2]

theorem atx_core (body nl : Bytes) (hb : ∀ x ∈ body, isNL x = false) (hn : ∀ x ∈ nl, isNL x = true)
    (hesc : noEscBody body = true) :
    parseATXHeading (body ++ nl) =
      (match atxOfBody body with
       | some h => (⟨h.level, h.start, h.stop⟩ : ATXHeading)
       | none => ⟨0, 0, 0⟩) :=
  (atx_core_iff body nl hb hn).2 (Or.inr hesc)

/-! #### Lines and the main ATX theorems -/

/-- A line: no CR/LF except one trailing line ending `[]`, `[LF]`, `[CR]` or `[CR, LF]`. -/
def isLine (l : Bytes) : Bool :=
  let body := dropRight isNL l
  let nl := l.drop body.length
  body.all (fun c => !isNL c) && (nl == [] || nl == [LF] || nl == [CR] || nl == [CR, LF])

/-- Weaker than `isLine` (any trailing run of CR/LF bytes is accepted): all that the ATX theorem needs. -/
def isLineW (l : Bytes) : Bool := (dropRight isNL l).all (fun c => !isNL c)

theorem isLineW_of_isLine (l : Bytes) (h : isLine l = true) : isLineW l = true := by
  unfold isLine at h
  simp only [Bool.and_eq_true] at h
  exact h.1

theorem dropRight_body_nl (body nl : Bytes) (hb : ∀ x ∈ body, isNL x = false)
    (hn : ∀ x ∈ nl, isNL x = true) : dropRight isNL (body ++ nl) = body := by
  rw [dropRight_append, if_pos (dropRight_all isNL nl hn)]
  apply dropRight_id_of_getLast
  intro x hx
  exact hb x (List.mem_of_getLast? hx)

/-- Every `body ++ ending` with a CR/LF-free body and a standard line ending is a line. -/
theorem isLine_of_decomp (body nl : Bytes) (hb : ∀ x ∈ body, isNL x = false)
    (hnl : nl = [] ∨ nl = [LF] ∨ nl = [CR] ∨ nl = [CR, LF]) : isLine (body ++ nl) = true := by
  have hn : ∀ x ∈ nl, isNL x = true := by
    rcases hnl with h | h | h | h <;> subst h <;> decide
  unfold isLine
  simp only [dropRight_body_nl body nl hb hn, List.drop_left' rfl, Bool.and_eq_true, List.all_eq_true]
  constructor
  · intro x hx; simp [hb x hx]
  · rcases hnl with h | h | h | h <;> subst h <;> decide

/-- Exact characterisation on (weak) lines: model and spec agree iff the spec finds no heading or the
    hypothesis `noEscapedTrailingBlank` holds. So the hypothesis of `atx_eq_spec_partial` is the weakest
    possible on headings. -/
theorem atx_eq_spec_iffW (line : Bytes) (h : isLineW line = true) :
    Model.parseATXHeading line = (match Spec.atxHeading line with
      | some h => (⟨h.level, h.start, h.stop⟩ : Model.ATXHeading) | none => ⟨0, 0, 0⟩) ↔
    (Spec.atxHeading line = none ∨ noEscapedTrailingBlank line = true) := by
  rw [atxHeading_eq_ofBody]
  have hdec := dropRight_append_decomp isNL line
  have hb : ∀ x ∈ dropRight isNL line, isNL x = false := by
    intro x hx
    have := List.all_eq_true.1 h x hx
    simpa using this
  have := atx_core_iff (dropRight isNL line) (line.drop (dropRight isNL line).length) hb
    (dropRight_suffix_all isNL line)
  rw [← hdec] at this
  exact this

theorem atx_eq_spec_iff (line : Bytes) (h : isLine line = true) :
    Model.parseATXHeading line = (match Spec.atxHeading line with
      | some h => (⟨h.level, h.start, h.stop⟩ : Model.ATXHeading) | none => ⟨0, 0, 0⟩) ↔
    (Spec.atxHeading line = none ∨ noEscapedTrailingBlank line = true) :=
  atx_eq_spec_iffW line (isLineW_of_isLine line h)

theorem atx_eq_spec_partialW (line : Bytes) (h : isLineW line = true)
    (hesc : noEscapedTrailingBlank line = true) :
    Model.parseATXHeading line = (match Spec.atxHeading line with
      | some h => (⟨h.level, h.start, h.stop⟩ : Model.ATXHeading) | none => ⟨0, 0, 0⟩) :=
  (atx_eq_spec_iffW line h).2 (Or.inr hesc)

/-- ATX headings: model = spec on every line on which no blank that one of the two trailing-blank trims
    reaches is preceded by an odd-length run of backslashes. -/
theorem atx_eq_spec_partial (line : Bytes) (h : isLine line = true)
    (hesc : noEscapedTrailingBlank line = true) :
    Model.parseATXHeading line = (match Spec.atxHeading line with
      | some h => (⟨h.level, h.start, h.stop⟩ : Model.ATXHeading) | none => ⟨0, 0, 0⟩) :=
  atx_eq_spec_partialW line (isLineW_of_isLine line h) hesc

/-- `fence_eq_spec` needs no hypothesis; this is the statement restricted to lines. -/
theorem fence_eq_spec_line (line : Bytes) (_h : isLine line = true) :
    Model.parseCodeFence line = (match Spec.codeFence line with
      | some ⟨c, n, some (s, e)⟩ => (⟨c, n, (s : Int), (e : Int)⟩ : Model.CodeFence)
      | some ⟨c, n, none⟩ => ⟨c, n, -1, -1⟩
      | none => Model.noFence) := fence_eq_spec line

/-- The full equality (FALSE: see the counterexample below; recorded finding). -/
def atx_eq_spec_target : Prop :=
  ∀ line : Bytes, isLine line = true →
    Model.parseATXHeading line = (match Spec.atxHeading line with
      | some h => (⟨h.level, h.start, h.stop⟩ : Model.ATXHeading) | none => ⟨0, 0, 0⟩)

/-! #### Counterexample to the full ATX equality, non-vacuity, concrete evaluations -/

/-- `# foo\ ` (a trailing space after a backslash): the Go code keeps the space, the spec strips it. -/
example : isLine [0x23, 0x20, 0x66, 0x6F, 0x6F, 0x5C, 0x20] = true := by decide +kernel
example : Model.parseATXHeading [0x23, 0x20, 0x66, 0x6F, 0x6F, 0x5C, 0x20] = ⟨1, 2, 7⟩ := by decide +kernel
example : Spec.atxHeading [0x23, 0x20, 0x66, 0x6F, 0x6F, 0x5C, 0x20] = some ⟨1, 2, 6⟩ := by decide +kernel
example : noEscapedTrailingBlank [0x23, 0x20, 0x66, 0x6F, 0x6F, 0x5C, 0x20] = false := by decide +kernel

theorem atx_eq_spec_target_false : ¬ atx_eq_spec_target := by
  intro h
  have := h [0x23, 0x20, 0x66, 0x6F, 0x6F, 0x5C, 0x20] (by decide +kernel)
  revert this
  decide +kernel

/-- Second disagreement class: `# a\ #` (escaped blank in front of the closing sequence). -/
example : isLine [0x23, 0x20, 0x61, 0x5C, 0x20, 0x23] = true ∧
    Model.parseATXHeading [0x23, 0x20, 0x61, 0x5C, 0x20, 0x23] = ⟨1, 2, 5⟩ ∧
    Spec.atxHeading [0x23, 0x20, 0x61, 0x5C, 0x20, 0x23] = some ⟨1, 2, 4⟩ ∧
    noEscapedTrailingBlank [0x23, 0x20, 0x61, 0x5C, 0x20, 0x23] = false := by decide +kernel

/-- Non-vacuity of `atx_eq_spec_partial`: `## foo \\ ## \r\n` (an even backslash run before a blank, a closing
    sequence, trailing blank, CRLF) satisfies both hypotheses, and is a heading with content `foo \\`. -/
example : isLine [0x23, 0x23, 0x20, 0x66, 0x6F, 0x6F, 0x20, 0x5C, 0x5C, 0x20, 0x23, 0x23, 0x20, 0x0D, 0x0A] = true ∧
    noEscapedTrailingBlank [0x23, 0x23, 0x20, 0x66, 0x6F, 0x6F, 0x20, 0x5C, 0x5C, 0x20, 0x23, 0x23, 0x20, 0x0D, 0x0A] = true ∧
    Model.parseATXHeading [0x23, 0x23, 0x20, 0x66, 0x6F, 0x6F, 0x20, 0x5C, 0x5C, 0x20, 0x23, 0x23, 0x20, 0x0D, 0x0A]
      = ⟨2, 3, 9⟩ := by decide +kernel

/-- An escaped blank *inside* the content is harmless: `# a\ b #` satisfies the hypothesis. -/
example : noEscapedTrailingBlank [0x23, 0x20, 0x61, 0x5C, 0x20, 0x62, 0x20, 0x23] = true ∧
    Model.parseATXHeading [0x23, 0x20, 0x61, 0x5C, 0x20, 0x62, 0x20, 0x23] = ⟨1, 2, 6⟩ := by decide +kernel

/-- `#\na` is not a line, and model and spec differ on it. -/
example : isLine [0x23, 0x0A, 0x61] = false ∧
    Model.parseATXHeading [0x23, 0x0A, 0x61] = ⟨1, 1, 1⟩ ∧ Spec.atxHeading [0x23, 0x0A, 0x61] = none := by
  decide +kernel

/-- Concrete evaluations of the fence recognizer: "```` go ```\n" has a backtick in the info string. -/
example : Model.parseCodeFence [0x60, 0x60, 0x60, 0x20, 0x67, 0x6F, 0x20, 0x0A] = ⟨0x60, 3, 4, 6⟩ := by decide +kernel
example : Spec.codeFence [0x60, 0x60, 0x60, 0x20, 0x67, 0x6F, 0x20, 0x0A] = some ⟨0x60, 3, some (4, 6)⟩ := by
  decide +kernel
example : Model.parseCodeFence [0x60, 0x60, 0x60, 0x20, 0x67, 0x60, 0x0A] = Model.noFence := by decide +kernel
example : Model.parseCodeFence [0x7E, 0x7E, 0x7E, 0x7E, 0x20, 0x67, 0x60, 0x0A] = ⟨0x7E, 4, 5, 7⟩ := by decide +kernel
example : Model.parseCodeFence [0x7E, 0x7E, 0x7E, 0x0D, 0x0A] = ⟨0x7E, 3, -1, -1⟩ := by decide +kernel

/-! #### The simpler, stronger hypothesis implies `noEscapedTrailingBlank` -/

/-- No space or tab anywhere in the line is immediately preceded by an odd-length run of backslashes. -/
def noEscapedBlankAnywhere (line : Bytes) : Bool :=
  (List.range line.length).all fun i => !(isSpTab (line.getD i 0) && isEndEscaped (line.take i))

/-- If `dropRight p` removes something from a prefix `r` of `l`, the byte of `l` after what is kept
    satisfies `p`, and what is kept is a prefix of `l`. -/
theorem dropRight_next (p : UInt8 → Bool) (r l : Bytes) (hpre : r <+: l)
    (hlt : (dropRight p r).length < r.length) :
    l.take (dropRight p r).length = dropRight p r ∧ p (l.getD (dropRight p r).length 0) = true ∧
      (dropRight p r).length < l.length := by
  obtain ⟨t, rfl⟩ := hpre
  have hd := dropRight_append_decomp p r
  have hall := dropRight_suffix_all p r
  generalize dropRight p r = d at *
  generalize hs : r.drop d.length = s at *
  cases s with
  | nil => rw [hd] at hlt; simp at hlt
  | cons x s' =>
    have hx := hall x (by simp)
    subst hd
    refine ⟨?_, ?_, ?_⟩
    · rw [List.append_assoc, List.take_left' rfl]
    · simp [List.getD_eq_getElem?_getD, hx]
    · simp

theorem noEscapedTrailingBlank_of_anywhere (line : Bytes) (h : noEscapedBlankAnywhere line = true) :
    noEscapedTrailingBlank line = true := by
  unfold noEscapedBlankAnywhere at h
  have h' : ∀ i, i < line.length → isSpTab (line.getD i 0) = true → isEndEscaped (line.take i) = false := by
    intro i hi hsp
    have := List.all_eq_true.1 h i (List.mem_range.2 hi)
    rw [hsp] at this
    simpa using this
  unfold noEscapedTrailingBlank noEscBody
  simp only []
  have hp0 : dropRight isNL line <+: line := dropRight_prefix _ _
  generalize dropRight isNL line = body at *
  have hp1 : dropRight isSpTab body <+: body := dropRight_prefix _ _
  have hn1 := dropRight_next isSpTab body line hp0
  generalize dropRight isSpTab body = r1 at *
  have hp2 : dropRight (· == 0x23) r1 <+: r1 := dropRight_prefix _ _
  generalize dropRight (· == 0x23) r1 = r2 at *
  have hn3 := dropRight_next isSpTab r2 line ((hp2.trans hp1).trans hp0)
  generalize dropRight isSpTab r2 = r3 at *
  simp only [Bool.and_eq_true, Bool.not_eq_true', Bool.and_eq_false_iff, decide_eq_false_iff_not]
  constructor
  · by_cases hlt : r1.length < body.length
    · obtain ⟨a, b, c⟩ := hn1 hlt
      right; rw [← a]; exact h' _ c b
    · left; exact hlt
  · by_cases hlt : r3.length < r2.length
    · obtain ⟨a, b, c⟩ := hn3 hlt
      right; rw [← a]; exact h' _ c b
    · left; exact hlt

example : noEscapedBlankAnywhere [0x23, 0x20, 0x61, 0x5C, 0x5C, 0x20, 0x23, 0x0A] = true := by decide +kernel

/-- The disagreement is exactly the recorded finding: on a line that the spec accepts as a heading and
    on which a reachable trailing blank is backslash-escaped, the Go code's result differs. -/
theorem atx_ne_spec_of_escaped (line : Bytes) (h : isLine line = true)
    (hsome : Spec.atxHeading line ≠ none) (hesc : noEscapedTrailingBlank line = false) :
    Model.parseATXHeading line ≠ (match Spec.atxHeading line with
      | some h => (⟨h.level, h.start, h.stop⟩ : Model.ATXHeading) | none => ⟨0, 0, 0⟩) := by
  intro heq
  rcases (atx_eq_spec_iff line h).1 heq with h' | h'
  · exact hsome h'
  · rw [h'] at hesc; exact absurd hesc (by simp)

end CM.Proofs
