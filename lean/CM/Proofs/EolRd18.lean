import CM.Proofs.EolRd17
/-
C14 (a), the paragraph hook under the position map — part 18: readers that start at a position (`newReader`),
`transformLinkReferenceSpan` (the reference text is EQUAL on both sides: every run of blanks, whatever the line ending,
collapses to one space), `collectTextNodes` from a fresh reader.
-/
namespace CM.Proofs.ERd
open CM CM.Model CM.Gen CM.Proofs CM.Proofs.RDS CM.Proofs.BSp

/-! ### `nodeIndexForPosition` under the map (any list of nodes) -/

theorem spanContains_map (e X : Bytes) (t : Tree) (pos : Nat) :
    spanContains (mapTree (eolPosZ e X) t) (eolPos e X pos) = spanContains t pos := by
  unfold spanContains Node.spanValid
  rw [map_start, map_stop]
  simp only [← eolPosZ_ofNat, ge_iff_le, eolPosZ_nonneg_iff, eolPosZ_le_iff, eolPosZ_lt_iff]

theorem nodeIndex_map (e X : Bytes) : ∀ (ts : List Tree) (pos i : Nat),
    nodeIndexForPosition (mapTrees (eolPosZ e X) ts) (eolPos e X pos) i = nodeIndexForPosition ts pos i := by
  intro ts
  induction ts with
  | nil => intro _ _; rfl
  | cons t rest ih =>
    intro pos i
    simp only [mapTrees, nodeIndexForPosition]
    rw [spanContains_map, map_start]
    have hgt : (eolPosZ e X t.label.start > ((eolPos e X pos : Nat) : Int)) ↔ (t.label.start > (pos : Int)) := by
      rw [← eolPosZ_ofNat]; exact eolPosZ_lt_iff e X _ _
    by_cases h1 : t.label.start > (pos : Int)
    · rw [if_pos h1, if_pos (hgt.2 h1)]
    · rw [if_neg h1, if_neg (fun hh => h1 (hgt.1 hh))]
      split
      · rfl
      · exact ih pos (i + 1)

/-- `currentNode` under the map, for any reader. -/
theorem currentNode_map_any (e X : Bytes) (r : Rd) :
    (mapRd e X r).currentNode = (r.currentNode.1.map (mapTree (eolPosZ e X)), mapRd e X r.currentNode.2) := by
  unfold Rd.currentNode
  show (match nodeIndexForPosition (mapTrees (eolPosZ e X) r.spans) (eolPos e X r.pos) 0 with
    | none => _ | some i => _) = _
  rw [nodeIndex_map]
  cases nodeIndexForPosition r.spans r.pos 0 with
  | none => rfl
  | some i =>
    simp only []
    refine Prod.ext ?_ ?_
    · show ((mapTrees (eolPosZ e X) r.spans).drop i).head? = ((r.spans.drop i).head?).map _
      rw [← mapTrees_drop]
      cases r.spans.drop i with
      | nil => rfl
      | cons a b => rfl
    · show ({ mapRd e X r with spans := (mapTrees (eolPosZ e X) r.spans).drop i } : Rd) = mapRd e X { r with spans := r.spans.drop i }
      unfold mapRd
      simp only [mapTrees_drop]

theorem mapRd_new (e X : Bytes) (is : List Tree) (p : Nat) :
    mapRd e X (newReader is p) = newReader (mapTrees (eolPosZ e X) is) (eolPos e X p) := by
  unfold newReader mapRd mapPrev
  simp

section
variable {e X : Bytes} {k : Nat} {is : List Tree}

/-- A fresh reader, normalised by its first `currentNode`: live and normalised, or without nodes. -/
theorem new_norm (p : Nat) :
    RJ (X.take k) is (newReader is p).currentNode.2 ∨ (newReader is p).currentNode.2.spans = [] := by
  cases hi : nodeIndexForPosition is p 0 with
  | none =>
    right
    rw [currentNode_none_eq (r := newReader is p) hi]
  | some i =>
    left
    rw [currentNode_some_eq (r := newReader is p) hi]
    obtain ⟨_, t, h2, h3, _⟩ := nodeIndex_spec hi
    simp only [Nat.sub_zero] at h2
    have hlt : i < is.length := (List.getElem?_eq_some_iff.mp h2).1
    have ht : is[i] = t := (List.getElem?_eq_some_iff.mp h2).2
    have hd : is.drop i = t :: is.drop (i + 1) := by rw [List.drop_eq_getElem_cons hlt, ht]
    simp only [spanContains, Bool.and_eq_true, decide_eq_true_eq] at h3
    refine ⟨⟨⟨i, rfl⟩, ?_, ?_, ?_⟩, ?_, ?_⟩
    · intro t' rest' e1
      have e2 : is.drop i = t' :: rest' := e1
      rw [hd] at e2; cases e2
      exact ⟨h3.1.2, h3.2⟩
    · intro _ _ _ _; show 0 < 3; omega
    · intro e1
      have e2 : is.drop i = [] := e1
      rw [hd] at e2; cases e2
    · intro _ _ _ _ _; rfl
    · show (-1 : Int) ≤ -1; omega

/-! ### A reader without nodes -/

theorem collect_dead (ext : Ext) (src : Bytes) (stop tk : Nat) (esc : Bool) (f : Nat) (r : Rd) (hs : r.spans = []) (ps : Nat)
    (acc : List Tree) :
    collectTextNodes ext src stop tk esc (f + 1) r ps acc = collectTextNodes.finish stop tk ps acc := by
  have hcn : r.currentNode = (none, r) := by
    unfold Rd.currentNode; rw [hs]; simp only [nodeIndexForPosition]; cases r; simp_all
  have hnx : r.next src = (false, r) := by
    unfold Rd.next; rw [hcn]
  rw [collectTextNodes]
  by_cases h0 : (!decide (r.pos < stop)) = true
  · rw [if_pos h0]; rfl
  · rw [if_neg h0, hcn]
    simp only []
    rw [collectStep_eq']
    have hd : isUnparsed (mkInline 0 (-1) (-1)) = false := by decide
    rw [hd]
    simp only [Bool.and_false, Bool.false_eq_true, if_false]
    unfold goF
    split
    · rfl
    · rw [hnx]; rfl

/-- `collectTextNodes` from a position. -/
theorem collect_new (he : StdEol e) (hcr : NoCR X) (hc : Ctx (X.take k) is) (htab : TabsOK (X.take k) is)
    (ext : Ext) (stop tk : Nat) (esc : Bool) (p : Nat) :
    collectTextNodes ext (toEol e (X.take k)) (eolPos e X stop) tk esc
        (rdFuel (toEol e (X.take k)) (mapTrees (eolPosZ e X) is)) (newReader (mapTrees (eolPosZ e X) is) (eolPos e X p))
        (eolPos e X p) [] =
      mapTrees (eolPosZ e X) (collectTextNodes ext (X.take k) stop tk esc (rdFuel (X.take k) is) (newReader is p) p []) := by
  have hc' := ctx_map (e := e) he hcr hc htab
  obtain ⟨f, hf⟩ : ∃ f, rdFuel (X.take k) is = f + 1 := ⟨rdFuel (X.take k) is - 1, by unfold rdFuel; omega⟩
  obtain ⟨g, hg⟩ : ∃ g, rdFuel (toEol e (X.take k)) (mapTrees (eolPosZ e X) is) = g + 1 :=
    ⟨rdFuel (toEol e (X.take k)) (mapTrees (eolPosZ e X) is) - 1, by unfold rdFuel; omega⟩
  -- one unfolding replaces the reader by the normalised one
  have norm1 : ∀ (src : Bytes) (st : Nat) (fu : Nat) (r : Rd) (ps : Nat) (acc : List Tree),
      collectTextNodes ext src st tk esc (fu + 1) r ps acc = collectTextNodes ext src st tk esc (fu + 1) r.currentNode.2 ps acc := by
    intro src st fu r ps acc
    rw [collectTextNodes, collectTextNodes, currentNode_idem, (currentNode_pos r).1]
  rw [← mapRd_new, hf, hg, norm1, norm1 (X.take k), currentNode_map_any]
  simp only []
  rcases new_norm (X := X) (k := k) (is := is) p with hj | hd
  · rw [← hf, ← hg]
    have := collect_sim he hcr hc htab ext stop tk esc (rdFuel (X.take k) is) (rdFuel (toEol e (X.take k)) (mapTrees (eolPosZ e X) is))
      (newReader is p).currentNode.2 p [] hj (mu_lt_fuel hj.1) (mu_lt_fuel (ri_map hj.1))
    exact this
  · rw [collect_dead ext _ _ tk esc g _ (by show mapTrees _ (newReader is p).currentNode.2.spans = []; rw [hd]; rfl),
      collect_dead ext _ _ tk esc f _ hd]
    exact finish_map stop tk p []

end

end CM.Proofs.ERd
