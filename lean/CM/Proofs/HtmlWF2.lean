import CM.Proofs.HtmlWF
/-
C07 main lemma: tokens of the documented mapping are Good under the C07 hypotheses.
-/
namespace CM.Proofs
open CM CM.Model CM.Spec CM.Gen Node

theorem mem_class : str "class" ∈ rendererAttrs := by simpa using at_class
theorem mem_start : str "start" ∈ rendererAttrs := by simpa using at_start
theorem mem_alt : str "alt" ∈ rendererAttrs := by simpa using at_alt
theorem mem_href : str "href" ∈ rendererAttrs := by simpa using at_href

theorem cls_ok (cx : RCtx) (t : Tree) :
    (match infoString t with
      | some info =>
        let w := firstField (text cx.ext cx.src info)
        if w.isEmpty then [] else [(str "class", str "language-" ++ escapeString w)]
      | none => ([] : List (Bytes × Bytes))).all attrOK = true := by
  split
  · simp only
    split
    · rfl
    · simp [attrOK, mem_class, safeData_append _ _ safe_language (safeData_escapeString _)]
  · rfl

theorem start_ok (n : Int) :
    (if n ≥ 0 && n != 1 then [(str "start", Model.decimal n.toNat)] else ([] : List (Bytes × Bytes))).all attrOK = true := by
  split
  · simp [attrOK, mem_start, safeData_decimal]
  · rfl

theorem img_attrs_ok (cx : RCtx) (t : Tree) :
    (linkAttrToks (linkDef cx t) "src" ++ [(str "alt", altPieces cx t)]).all attrOK = true := by
  simp only [List.all_append, Bool.and_eq_true]
  exact ⟨linkAttrToks_ok _ "src" at_src, by simp [attrOK, mem_alt, safeData_altPieces]⟩

theorem href_ok (dest : Bytes) :
    [(str "href", (if Model.isEmailAddress dest then str "mailto:" else []) ++ escapeString (normalizeURI dest))].all attrOK = true := by
  simp only [List.all_cons, List.all_nil, Bool.and_true, attrOK, at_href, Bool.true_and]
  apply safeData_append
  · split
    · exact safe_mailto
    · rfl
  · exact safeData_escapeString _

set_option maxRecDepth 2000 in
mutual
theorem toksNode_good (cx : RCtx) (hf : cx.filter = none) (p : Option Tree) (t : Tree) (h : Hyp cx (T.nodes t)) :
    Good (toksNode cx p t) := by
  match t with
  | .node l cs =>
    have hn : Hyp cx (.node l cs :: T.nodesL cs) := by simpa [T.nodes] using h
    obtain ⟨hpre, hraw, hkidsHyp⟩ := Hyp_cons hn
    have hk : Good (toksForest cx (.node l cs) cs) := toksForest_good cx hf (.node l cs) cs hkidsHyp
    by_cases hb : l.isBlock = true
    · match hkind : l.kind with
      | 0 => simp [toksNode, hb, hkind, BK.paragraph, BK.thematicBreak, BK.atxHeading, BK.setextHeading, BK.indentedCode, BK.fencedCode, BK.htmlBlock, BK.linkRefDef, BK.blockQuote, BK.listItem, BK.list]; exact Good_nil
      | 1 =>
        simp only [toksNode, hb, hkind, BK.paragraph, if_true, beq_self_eq_true]
        split
        · exact hk
        · exact Good_wrap el_p attrs_nil hk
      | 2 => simp [toksNode, hb, hkind, BK.paragraph, BK.thematicBreak]; exact Good_void el_hr attrs_nil
      | 3 => simp [toksNode, hb, hkind, BK.paragraph, BK.thematicBreak, BK.atxHeading]; exact Good_wrap (el_heading _) attrs_nil hk
      | 4 => simp [toksNode, hb, hkind, BK.paragraph, BK.thematicBreak, BK.atxHeading, BK.setextHeading]; exact Good_wrap (el_heading _) attrs_nil hk
      | 5 =>
        simp only [toksNode, hb, hkind, BK.paragraph, BK.thematicBreak, BK.atxHeading, BK.setextHeading, BK.indentedCode, BK.fencedCode, if_true, Bool.false_eq_true, if_false, Bool.or_false, Bool.or_true, beq_self_eq_true, Nat.reduceBEq, Bool.or_self]
        exact Good_wrap el_pre attrs_nil (Good_wrap el_code (cls_ok cx _) hk)
      | 6 =>
        simp only [toksNode, hb, hkind, BK.paragraph, BK.thematicBreak, BK.atxHeading, BK.setextHeading, BK.indentedCode, BK.fencedCode, if_true, Bool.false_eq_true, if_false, Bool.or_false, Bool.or_true, beq_self_eq_true, Nat.reduceBEq, Bool.or_self]
        exact Good_wrap el_pre attrs_nil (Good_wrap el_code (cls_ok cx _) hk)
      | 7 =>
        simp only [toksNode, hb, hkind, BK.paragraph, BK.thematicBreak, BK.atxHeading, BK.setextHeading, BK.indentedCode, BK.fencedCode, BK.blockQuote, BK.list, BK.listItem, BK.htmlBlock, if_true, Bool.false_eq_true, if_false, Bool.or_false, beq_self_eq_true, Nat.reduceBEq, Bool.or_self]
        split
        · exact Good_nil
        · exact hk
      | 8 => simp [toksNode, hb, hkind, BK.paragraph, BK.thematicBreak, BK.atxHeading, BK.setextHeading, BK.indentedCode, BK.fencedCode, BK.htmlBlock, BK.linkRefDef, BK.blockQuote, BK.listItem, BK.list]; exact Good_nil
      | 9 => simp [toksNode, hb, hkind, BK.paragraph, BK.thematicBreak, BK.atxHeading, BK.setextHeading, BK.indentedCode, BK.fencedCode, BK.blockQuote]; exact Good_wrap el_blockquote attrs_nil hk
      | 10 => simp [toksNode, hb, hkind, BK.paragraph, BK.thematicBreak, BK.atxHeading, BK.setextHeading, BK.indentedCode, BK.fencedCode, BK.blockQuote, BK.list, BK.listItem]; exact Good_wrap el_li attrs_nil hk
      | 11 =>
        simp only [toksNode, hb, hkind, BK.paragraph, BK.thematicBreak, BK.atxHeading, BK.setextHeading, BK.indentedCode, BK.fencedCode, BK.blockQuote, BK.list, if_true, Bool.false_eq_true, if_false, Bool.or_false, beq_self_eq_true, Nat.reduceBEq, Bool.or_self]
        split
        · exact Good_wrap el_ol (start_ok _) hk
        · exact Good_wrap el_ul attrs_nil hk
      | 12 => simp [toksNode, hb, hkind, BK.paragraph, BK.thematicBreak, BK.atxHeading, BK.setextHeading, BK.indentedCode, BK.fencedCode, BK.htmlBlock, BK.linkRefDef, BK.blockQuote, BK.listItem, BK.list]; exact Good_nil
      | 13 => simp [toksNode, hb, hkind, BK.paragraph, BK.thematicBreak, BK.atxHeading, BK.setextHeading, BK.indentedCode, BK.fencedCode, BK.htmlBlock, BK.linkRefDef, BK.blockQuote, BK.listItem, BK.list]; exact Good_nil
      | k + 14 => simp [toksNode, hb, hkind, BK.paragraph, BK.thematicBreak, BK.atxHeading, BK.setextHeading, BK.indentedCode, BK.fencedCode, BK.htmlBlock, BK.linkRefDef, BK.blockQuote, BK.listItem, BK.list]; exact Good_nil
    · have hb' : l.isBlock = false := by simpa using hb
      match hkind : l.kind with
      | 0 => simp [toksNode, hb', hkind, IK.text, IK.softBreak, IK.hardBreak, IK.indent, IK.charRef, IK.infoString, IK.emphasis, IK.strong, IK.link, IK.image, IK.linkDest, IK.linkTitle, IK.linkLabel, IK.codeSpan, IK.autolink, IK.htmlTag, IK.rawHTML, IK.unparsed]; exact Good_nil
      | 1 => simp [toksNode, hb', hkind, IK.text, IK.softBreak, IK.hardBreak, IK.indent, IK.charRef, IK.infoString, IK.emphasis, IK.strong, IK.link, IK.image, IK.linkDest, IK.linkTitle, IK.linkLabel, IK.codeSpan, IK.autolink, IK.htmlTag, IK.rawHTML, IK.unparsed]; exact Good_text (safeData_escapeHTML _)
      | 2 =>
        have hs : (slice cx.src (.node l cs)).all (fun c => c == LF || c == CR) = true := by
          have := hpre
          simp only [safePreAt, T.isI, Tree.label, hb', hkind, IK.charRef, IK.softBreak, Bool.not_false, Bool.true_and,
            Bool.and_eq_true] at this
          simpa using this.2
        simp [toksNode, hb', hkind, IK.text, IK.softBreak, IK.hardBreak, IK.indent, IK.charRef, IK.infoString, IK.emphasis, IK.strong, IK.link, IK.image, IK.linkDest, IK.linkTitle, IK.linkLabel, IK.codeSpan, IK.autolink, IK.htmlTag, IK.rawHTML, IK.unparsed]
        repeat' split
        · exact Good_br
        · exact Good_text safe_sp
        · exact Good_text (safeData_eol _ hs)
        · exact Good_text safe_lf
      | 3 => simp [toksNode, hb', hkind, IK.text, IK.softBreak, IK.hardBreak, IK.indent, IK.charRef, IK.infoString, IK.emphasis, IK.strong, IK.link, IK.image, IK.linkDest, IK.linkTitle, IK.linkLabel, IK.codeSpan, IK.autolink, IK.htmlTag, IK.rawHTML, IK.unparsed]; exact Good_br
      | 4 => simp [toksNode, hb', hkind, IK.text, IK.softBreak, IK.hardBreak, IK.indent, IK.charRef, IK.infoString, IK.emphasis, IK.strong, IK.link, IK.image, IK.linkDest, IK.linkTitle, IK.linkLabel, IK.codeSpan, IK.autolink, IK.htmlTag, IK.rawHTML, IK.unparsed]; exact Good_text (safeData_spaces _)
      | 5 =>
        have hs : charRefShape (slice cx.src (.node l cs)) = true := by
          have := hpre
          simp only [safePreAt, T.isI, Tree.label, hb', hkind, IK.charRef, IK.softBreak, Bool.not_false, Bool.true_and,
            Bool.and_eq_true] at this
          simpa using this.1
        simp [toksNode, hb', hkind, IK.text, IK.softBreak, IK.hardBreak, IK.indent, IK.charRef, IK.infoString, IK.emphasis, IK.strong, IK.link, IK.image, IK.linkDest, IK.linkTitle, IK.linkLabel, IK.codeSpan, IK.autolink, IK.htmlTag, IK.rawHTML, IK.unparsed]; exact Good_cref hs
      | 6 => simp [toksNode, hb', hkind, IK.text, IK.softBreak, IK.hardBreak, IK.indent, IK.charRef, IK.infoString, IK.emphasis, IK.strong, IK.link, IK.image, IK.linkDest, IK.linkTitle, IK.linkLabel, IK.codeSpan, IK.autolink, IK.htmlTag, IK.rawHTML, IK.unparsed]; exact Good_nil
      | 7 => simp [toksNode, hb', hkind, IK.text, IK.softBreak, IK.hardBreak, IK.indent, IK.charRef, IK.infoString, IK.emphasis, IK.strong, IK.link, IK.image, IK.linkDest, IK.linkTitle, IK.linkLabel, IK.codeSpan, IK.autolink, IK.htmlTag, IK.rawHTML, IK.unparsed]; exact Good_wrap el_em attrs_nil hk
      | 8 => simp [toksNode, hb', hkind, IK.text, IK.softBreak, IK.hardBreak, IK.indent, IK.charRef, IK.infoString, IK.emphasis, IK.strong, IK.link, IK.image, IK.linkDest, IK.linkTitle, IK.linkLabel, IK.codeSpan, IK.autolink, IK.htmlTag, IK.rawHTML, IK.unparsed]; exact Good_wrap el_strong attrs_nil hk
      | 9 => simp [toksNode, hb', hkind, IK.text, IK.softBreak, IK.hardBreak, IK.indent, IK.charRef, IK.infoString, IK.emphasis, IK.strong, IK.link, IK.image, IK.linkDest, IK.linkTitle, IK.linkLabel, IK.codeSpan, IK.autolink, IK.htmlTag, IK.rawHTML, IK.unparsed]; exact Good_wrap el_a (linkAttrToks_ok _ "href" at_href) hk
      | 10 => simp [toksNode, hb', hkind, IK.text, IK.softBreak, IK.hardBreak, IK.indent, IK.charRef, IK.infoString, IK.emphasis, IK.strong, IK.link, IK.image, IK.linkDest, IK.linkTitle, IK.linkLabel, IK.codeSpan, IK.autolink, IK.htmlTag, IK.rawHTML, IK.unparsed]; exact Good_void el_img (img_attrs_ok cx _)
      | 11 => simp [toksNode, hb', hkind, IK.text, IK.softBreak, IK.hardBreak, IK.indent, IK.charRef, IK.infoString, IK.emphasis, IK.strong, IK.link, IK.image, IK.linkDest, IK.linkTitle, IK.linkLabel, IK.codeSpan, IK.autolink, IK.htmlTag, IK.rawHTML, IK.unparsed]; exact Good_nil
      | 12 => simp [toksNode, hb', hkind, IK.text, IK.softBreak, IK.hardBreak, IK.indent, IK.charRef, IK.infoString, IK.emphasis, IK.strong, IK.link, IK.image, IK.linkDest, IK.linkTitle, IK.linkLabel, IK.codeSpan, IK.autolink, IK.htmlTag, IK.rawHTML, IK.unparsed]; exact Good_nil
      | 13 => simp [toksNode, hb', hkind, IK.text, IK.softBreak, IK.hardBreak, IK.indent, IK.charRef, IK.infoString, IK.emphasis, IK.strong, IK.link, IK.image, IK.linkDest, IK.linkTitle, IK.linkLabel, IK.codeSpan, IK.autolink, IK.htmlTag, IK.rawHTML, IK.unparsed]; exact Good_nil
      | 14 => simp [toksNode, hb', hkind, IK.text, IK.softBreak, IK.hardBreak, IK.indent, IK.charRef, IK.infoString, IK.emphasis, IK.strong, IK.link, IK.image, IK.linkDest, IK.linkTitle, IK.linkLabel, IK.codeSpan, IK.autolink, IK.htmlTag, IK.rawHTML, IK.unparsed]; exact Good_wrap el_code attrs_nil hk
      | 15 => simp [toksNode, hb', hkind, IK.text, IK.softBreak, IK.hardBreak, IK.indent, IK.charRef, IK.infoString, IK.emphasis, IK.strong, IK.link, IK.image, IK.linkDest, IK.linkTitle, IK.linkLabel, IK.codeSpan, IK.autolink, IK.htmlTag, IK.rawHTML, IK.unparsed]; exact Good_wrap el_a (href_ok _) (Good_text (safeData_escapeString _))
      | 16 => simp [toksNode, hb', hkind, IK.text, IK.softBreak, IK.hardBreak, IK.indent, IK.charRef, IK.infoString, IK.emphasis, IK.strong, IK.link, IK.image, IK.linkDest, IK.linkTitle, IK.linkLabel, IK.codeSpan, IK.autolink, IK.htmlTag, IK.rawHTML, IK.unparsed]; exact hk
      | 17 =>
        rcases hraw with hraw | hraw
        · simp [toksNode, hb', hkind, IK.text, IK.softBreak, IK.hardBreak, IK.indent, IK.charRef, IK.infoString, IK.emphasis, IK.strong, IK.link, IK.image, IK.linkDest, IK.linkTitle, IK.linkLabel, IK.codeSpan, IK.autolink, IK.htmlTag, IK.rawHTML, IK.unparsed]; simp [hraw]; exact Good_raw_nil
        · simp [isRawNode, T.isI, T.isB, Tree.label, hb', hkind, IK.rawHTML, IK.htmlTag] at hraw
      | 18 => simp [toksNode, hb', hkind, IK.text, IK.softBreak, IK.hardBreak, IK.indent, IK.charRef, IK.infoString, IK.emphasis, IK.strong, IK.link, IK.image, IK.linkDest, IK.linkTitle, IK.linkLabel, IK.codeSpan, IK.autolink, IK.htmlTag, IK.rawHTML, IK.unparsed]; exact Good_text (safeData_escapeHTML _)
      | k + 19 => simp [toksNode, hb', hkind, IK.text, IK.softBreak, IK.hardBreak, IK.indent, IK.charRef, IK.infoString, IK.emphasis, IK.strong, IK.link, IK.image, IK.linkDest, IK.linkTitle, IK.linkLabel, IK.codeSpan, IK.autolink, IK.htmlTag, IK.rawHTML, IK.unparsed]; exact Good_nil
theorem toksForest_good (cx : RCtx) (hf : cx.filter = none) (parent : Tree) (cs : List Tree) (h : Hyp cx (T.nodesL cs)) :
    Good (toksForest cx parent cs) := by
  match cs with
  | [] => exact Good_nil
  | c :: cs =>
    simp only [toksForest]
    have := Hyp_append (by simpa [T.nodesL] using h : Hyp cx (T.nodes c ++ T.nodesL cs))
    exact Good_append (toksNode_good cx hf (some parent) c this.1) (toksForest_good cx hf parent cs this.2)
end

end CM.Proofs
