import CM.Proofs.InlShapeHtml
import CM.Proofs.InlShapeLeaf
/-
C13, inline half — raw HTML tags: every HTMLTag node the inline phase makes starts at a `<` and ends right after a
`>`; its clause `Spec.shapeAt` follows as soon as its span is not empty (`parseInlines_shape_htmlTag`).
Hypothesis: Indent nodes among the block-phase inline children cover spaces and tabs only (`IndentWS`; false of the
model without it: `ShapeEx.htmlTag_counterexample`).
-/
namespace CM.Proofs.InlH
open CM CM.Model CM.Model.Inl CM.Spec

/-- Two invariants together. -/
theorem SiteInv.and {c : ICtx} {φ ψ : INode → Prop} (h1 : SiteInv c φ) (h2 : SiteInv c ψ) :
    SiteInv c (fun m => φ m ∧ ψ m) where
  text a b := ⟨h1.text a b, h2.text a b⟩
  hardBreakBS s start a b d e f g := ⟨h1.hardBreakBS s start a b d e f g, h2.hardBreakBS s start a b d e f g⟩
  hardBreakSP s pos a b d e f := ⟨h1.hardBreakSP s pos a b d e f, h2.hardBreakSP s pos a b d e f⟩
  charRef pos se e a b d f g := ⟨h1.charRef pos se e a b d f g, h2.charRef pos se e a b d f g⟩
  softBreak1 pos a b d := ⟨h1.softBreak1 pos a b d, h2.softBreak1 pos a b d⟩
  softBreak2 pos a b d e := ⟨h1.softBreak2 pos a b d e, h2.softBreak2 pos a b d e⟩
  wrapped k a b hk := ⟨h1.wrapped k a b hk, h2.wrapped k a b hk⟩
  imported t a b d e := ⟨h1.imported t a b d e, h2.imported t a b d e⟩
  codeSpan cs ks a b d := ⟨h1.codeSpan cs ks a b d, h2.codeSpan cs ks a b d⟩
  autolink pos se e a b d f g := ⟨h1.autolink pos se e a b d f g, h2.autolink pos se e a b d f g⟩
  htmlTag k pos a b d e := ⟨h1.htmlTag k pos a b d e, h2.htmlTag k pos a b d e⟩
  linkDest a b stop fuel k p ps := ⟨h1.linkDest a b stop fuel k p ps, h2.linkDest a b stop fuel k p ps⟩
  linkDestEmpty a b := ⟨h1.linkDestEmpty a b, h2.linkDestEmpty a b⟩
  linkTitle a b stop fuel k p ps := ⟨h1.linkTitle a b stop fuel k p ps, h2.linkTitle a b stop fuel k p ps⟩
  linkTitleEmpty a b := ⟨h1.linkTitleEmpty a b, h2.linkTitleEmpty a b⟩
  linkLabel a b stop fuel k p ps ref hr := ⟨h1.linkLabel a b stop fuel k p ps ref hr, h2.linkLabel a b stop fuel k p ps ref hr⟩
  modKids n ks h := ⟨h1.modKids n ks h.1, h2.modKids n ks h.2⟩
  modSpan n a b h hk := ⟨h1.modSpan n a b h.1 hk, h2.modSpan n a b h.2 hk⟩
  modLink n a b r h hk hr := ⟨h1.modLink n a b r h.1 hk hr, h2.modLink n a b r h.2 hk hr⟩

/-- `<` at the start, `>` before the end. -/
def AngleAt (src : Bytes) (a b : Int) : Prop :=
  ∃ p q : Nat, a = (p : Int) ∧ b = (q : Int) + 1 ∧ src[p]? = some 0x3C ∧ src[q]? = some 0x3E

theorem angleShape_of_at (src : Bytes) (a b : Int) (h : AngleAt src a b) (hab : a < b) :
    angleShape (sliceI src a b) = true := by
  obtain ⟨p, q, rfl, rfl, hp, hq⟩ := h
  have hpq : p ≠ q := by
    rintro rfl
    rw [hp] at hq
    exact absurd (Option.some.inj hq) (by decide)
  have hq' : q < src.length := by
    by_cases hcon : q < src.length
    · exact hcon
    · rw [List.getElem?_eq_none (by omega)] at hq
      cases hq
  have e : ((q : Int) + 1) = ((q + 1 : Nat) : Int) := by omega
  rw [e, sliceI_of_nat src p (q + 1) (by omega)]
  unfold angleShape
  rw [slice_length src p (q + 1) (by omega) (by omega), slice_head src p (q + 1) (by omega) (by omega),
    slice_getLast src p (q + 1) (by omega) (by omega)]
  rw [List.getElem?_eq_getElem (by omega)] at hp
  rw [List.getElem?_eq_getElem hq'] at hq
  simp only [Nat.add_sub_cancel, Bool.and_eq_true, decide_eq_true_eq, beq_iff_eq]
  exact ⟨⟨by omega, hp⟩, hq⟩

/-- The arena invariant for HTML tags. -/
def φH (src : Bytes) (m : INode) : Prop :=
  m.kind = IK.htmlTag → AngleAt src m.start m.stop ∨ shapeI src IK.htmlTag m.start m.stop = true

theorem φH.other {src : Bytes} {m : INode} (h : m.kind ≠ IK.htmlTag) : φH src m := fun h' => absurd h' h

theorem siteInv_H (x : IExt) (src : Bytes) (matchRef : Bytes → Bool) (unparsed : List Tree)
    (hin : InShape src unparsed) (hind : IndentWS src unparsed) :
    SiteInv (inlCtx x src src.toArray matchRef unparsed) (φH src) where
  text a b := φH.other (by dsimp only; decide)
  hardBreakBS s start _ _ _ _ _ _ := φH.other (by dsimp only; decide)
  hardBreakSP s pos _ _ _ _ _ := φH.other (by dsimp only; decide)
  charRef pos se e _ _ _ _ _ := φH.other (by dsimp only; decide)
  softBreak1 pos _ _ _ := φH.other (by dsimp only; decide)
  softBreak2 pos _ _ _ _ := φH.other (by dsimp only; decide)
  wrapped k a b hk := φH.other (by rcases hk with rfl | rfl | rfl | rfl <;> (dsimp only; decide))
  imported t ht hb _ hk := by
    intro hkind
    have hu : isUnparsed t = false := by
      unfold isUnparsed Node.isI
      simp [hk]
    have := hin t (by simpa [inlCtx] using ht) hb hu t (self_mem_nodes t) hb
    rw [shapeAt_inline src t hb] at this
    have hk' : t.label.kind = IK.htmlTag := hkind
    rw [hk'] at this
    exact Or.inr this
  codeSpan cs ks _ _ _ := φH.other (by dsimp only; decide)
  autolink pos se e _ _ _ _ _ := φH.other (by dsimp only; decide)
  htmlTag k pos h0 h1 hb hv := by
    intro _
    left
    obtain ⟨p, rfl⟩ := Int.eq_ofNat_of_zero_le h0
    have hsub : ∀ t ∈ (newReader (unparsed.drop k) p).spans, t ∈ unparsed := fun t ht => List.mem_of_mem_drop ht
    have hv' : (parseHTMLTag src (rdFuel src unparsed) (newReader (unparsed.drop k) p)).1.isValid = true := hv
    obtain ⟨h1', h2', q, h3', h4'⟩ := parseHTMLTag_shape src unparsed hind _ _ hsub hv'
    exact ⟨p, q, h1', h3', h2', h4'⟩
  linkDest a b stop fuel k p ps := φH.other (by dsimp only; decide)
  linkDestEmpty a b := φH.other (by dsimp only; decide)
  linkTitle a b stop fuel k p ps := φH.other (by dsimp only; decide)
  linkTitleEmpty a b := φH.other (by dsimp only; decide)
  linkLabel a b stop fuel k p ps ref _ := φH.other (by dsimp only; decide)
  modKids n ks h := h
  modSpan n a b h hk := φH.other (by show n.kind ≠ _; intro h'; rw [h'] at hk; exact absurd hk (by decide))
  modLink n a b r h hk _ := φH.other (by show n.kind ≠ _; rcases hk with h' | h' <;> (rw [h']; decide))

/-- C13 (inline half, raw HTML tags) for one container: a RawHTML-tag node of the new inline children with a
    non-empty span is `<`…`>`. -/
theorem parseInlines_shape_htmlTag (x : IExt) (src : Bytes) (matchRef : Bytes → Bool) (cstart cstop : Int)
    (unparsed kids : List Tree) (hin : InShape src unparsed) (hhb : HBreakOK src unparsed)
    (hind : IndentWS src unparsed)
    (h : parseInlines x src src.toArray matchRef cstart cstop unparsed = .ok kids) :
    ∀ t ∈ T.nodesL kids, t.label.isBlock = false → t.label.kind = IK.htmlTag → t.label.start < t.label.stop →
      shapeAt src t = true := by
  intro t ht htb hk hlt
  obtain ⟨m, hm, hl | hs⟩ := parseInlines_nodes_site x src src.toArray matchRef cstart cstop unparsed
    (fun m => φL src m ∧ φH src m)
    ((siteInv_L x src matchRef unparsed hin hhb).and (siteInv_H x src matchRef unparsed hin hind))
    ⟨φL.other (by dsimp only; decide) (by dsimp only; decide) (by dsimp only; decide) noSubS,
      φH.other (by dsimp only; decide)⟩ kids h t ht
  · rw [shapeAt_inline src t htb, hk]
    rw [hl] at hk hlt
    rcases hm.2 hk with h' | h'
    · rw [hl, shapeI_htmlTag]
      exact angleShape_of_at src _ _ h' hlt
    · rw [hl]; exact h'
  · exact hm.1.2 t hs htb

end CM.Proofs.InlH
