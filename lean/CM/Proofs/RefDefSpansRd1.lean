import CM.Proofs.RefDefSpansDef
import CM.Proofs.BlocksWellClose
/-
C02, block half — discharging `RefDefSpansOK` for paragraphs made of lines (`NodeOK`), part 1: the byte reader.

`Ctx src is`: the inline children `is` are sorted, non-negative and `NodeOK`.
`RI src is r`: the reader `r` is *normalised* with respect to `is`: its span list is a suffix of `is`, and either it is
empty ("dead" reader: every `next` fails, the position is a node boundary) or its head contains the position.
Under `RI` the operations `currentNode` / `current` do not change the reader, and `next` is described exactly
(`next_spec`). `mu` is a termination measure for successful `next`s (fuel sufficiency of `skipSpacesAndTabs`).
-/
namespace CM.Proofs.RDS
open CM CM.Model CM.Gen CM.Proofs CM.Proofs.BSp

/-- The inline children of the paragraph: sorted, starting at non-negative offsets, each `NodeOK`. -/
structure Ctx (src : Bytes) (is : List Tree) : Prop where
  sorted : SortedSpans is
  ok : ∀ t ∈ is, NodeOK src t
  nn : ∀ t ∈ is, 0 ≤ t.label.start

theorem Ctx.drop {src : Bytes} {is : List Tree} (h : Ctx src is) (k : Nat) : Ctx src (is.drop k) :=
  ⟨h.sorted.drop k, fun t ht => h.ok t (List.mem_of_mem_drop ht), fun t ht => h.nn t (List.mem_of_mem_drop ht)⟩

/-- `p` is not strictly inside a node of `is`. -/
def Bdry (is : List Tree) (p : Nat) : Prop :=
  ∀ t ∈ is, t.label.start ≤ (p : Int) → (p : Int) < t.label.stop → t.label.start = (p : Int)

theorem Bdry.drop {is : List Tree} {p : Nat} (h : Bdry is p) (k : Nat) : Bdry (is.drop k) p :=
  fun t ht => h t (List.mem_of_mem_drop ht)

theorem sorted_rel {is : List Tree} (hs : SortedSpans is) {a b : Tree} (ha : a ∈ is) (hb : b ∈ is) :
    a = b ∨ a.label.stop ≤ b.label.start ∨ b.label.stop ≤ a.label.start := by
  induction is with
  | nil => cases ha
  | cons x l ih =>
    have hx := (List.pairwise_cons.mp hs).1
    have hl := (List.pairwise_cons.mp hs).2
    rcases List.mem_cons.mp ha with rfl | ha' <;> rcases List.mem_cons.mp hb with rfl | hb'
    · exact Or.inl rfl
    · exact Or.inr (Or.inl (hx b hb'))
    · exact Or.inr (Or.inr (hx a ha'))
    · exact ih hl ha' hb'

theorem Bdry_start {src : Bytes} {is : List Tree} (hc : Ctx src is) {t : Tree} (ht : t ∈ is) {p : Nat}
    (hp : (p : Int) = t.label.start) : Bdry is p := by
  intro u hu h1 h2
  rcases sorted_rel hc.sorted hu ht with rfl | h | h
  · exact hp.symm
  · omega
  · have := (hc.ok t ht).1; omega

theorem Bdry_stop {src : Bytes} {is : List Tree} (hc : Ctx src is) {t : Tree} (ht : t ∈ is) {p : Nat}
    (hp : (p : Int) = t.label.stop) : Bdry is p := by
  intro u hu h1 h2
  have := (hc.ok t ht).1
  rcases sorted_rel hc.sorted hu ht with rfl | h | h
  · omega
  · omega
  · omega

/-- The reader is normalised with respect to `is`. -/
structure RI (src : Bytes) (is : List Tree) (r : Rd) : Prop where
  suf : ∃ k, r.spans = is.drop k
  norm : ∀ t rest, r.spans = t :: rest → t.label.start ≤ (r.pos : Int) ∧ (r.pos : Int) < t.label.stop
  vp : ∀ t rest, r.spans = t :: rest → isIndent t = false → r.vpos < 3
  dead : r.spans = [] → r.prev + 1 = (r.pos : Int) ∧ Bdry is r.pos

variable {src : Bytes} {is : List Tree} {r : Rd}

theorem RI.mem (h : RI src is r) {t : Tree} (ht : t ∈ r.spans) : t ∈ is := by
  obtain ⟨k, hk⟩ := h.suf
  rw [hk] at ht
  exact List.mem_of_mem_drop ht

theorem RI.head_mem (h : RI src is r) {t : Tree} {rest : List Tree} (hs : r.spans = t :: rest) : t ∈ is :=
  h.mem (by rw [hs]; exact List.mem_cons_self)

theorem RI.pos_lt (hc : Ctx src is) (h : RI src is r) {t : Tree} {rest : List Tree} (hs : r.spans = t :: rest) :
    r.pos < src.length := by
  have := (h.norm t rest hs).2
  have := (hc.ok t (h.head_mem hs)).2.1
  omega

theorem rd_eta (r : Rd) : ({ r with spans := r.spans } : Rd) = r := by cases r; rfl

/-! ### `currentNode` and `current` do not move a normalised reader -/

theorem currentNode_eq (hc : Ctx src is) (h : RI src is r) : r.currentNode = (r.spans.head?, r) := by
  cases hs : r.spans with
  | nil =>
    unfold Rd.currentNode
    rw [hs]
    simp only [nodeIndexForPosition, List.head?_nil]
    have : ({ r with spans := [] } : Rd) = r := by rw [← hs]
    rw [this]
  | cons t rest =>
    have hn := h.norm t rest hs
    have h0 := hc.nn t (h.head_mem hs)
    have hi : nodeIndexForPosition (t :: rest) r.pos 0 = some 0 := by
      simp only [nodeIndexForPosition]
      rw [if_neg (by omega)]
      have : spanContains t r.pos = true := by
        simp only [spanContains, Node.spanValid, Bool.and_eq_true, decide_eq_true_eq]
        omega
      rw [if_pos this]
    unfold Rd.currentNode
    rw [hs, hi]
    simp only [List.drop_zero, List.head?_cons]
    have : ({ r with spans := t :: rest } : Rd) = r := by rw [← hs]
    rw [this]

theorem current_snd (hc : Ctx src is) (h : RI src is r) : (r.current src).2 = r := by
  rcases current_cases src r with e | e
  · exact e
  · rw [e, currentNode_eq hc h]

theorem current_eq (hc : Ctx src is) (h : RI src is r) : r.current src = ((r.current src).1, r) := by
  have := current_snd (src := src) hc h
  exact Prod.ext rfl this

/-- The byte a live reader sees. -/
theorem current_live (hc : Ctx src is) (h : RI src is r) {t : Tree} {rest : List Tree} (hs : r.spans = t :: rest) :
    (r.current src).1 = if isIndent t then SP else if src.getD r.pos 0 == 0 then nullReplacementString.getD r.vpos 0
      else src.getD r.pos 0 := by
  have hp := RI.pos_lt hc h hs
  unfold Rd.current
  rw [if_neg (by omega), currentNode_eq hc h, hs]
  simp only [List.head?_cons]
  split
  · rfl
  · split <;> rfl

theorem nullRepl_ne_zero {v : Nat} (hv : v < 3) : nullReplacementString.getD v 0 ≠ 0 ∧
    nullReplacementString.getD v 0 ≠ LF ∧ nullReplacementString.getD v 0 ≠ CR ∧ nullReplacementString.getD v 0 ≠ SP := by
  have : v = 0 ∨ v = 1 ∨ v = 2 := by omega
  rcases this with rfl | rfl | rfl <;> decide

theorem nullRepl_ge {v : Nat} (hv : 3 ≤ v) : nullReplacementString.getD v 0 = 0 := by
  simp [nullReplacementString, List.getD, hv]

/-- A live reader never sees the end marker `0`. -/
theorem current_live_ne_zero (hc : Ctx src is) (h : RI src is r) {t : Tree} {rest : List Tree} (hs : r.spans = t :: rest) :
    (r.current src).1 ≠ 0 := by
  rw [current_live hc h hs]
  split
  · decide
  · rename_i hi
    have hv := h.vp t rest hs (by simpa using hi)
    split
    · exact (nullRepl_ne_zero hv).1
    · rename_i hz; simpa using hz

/-- A byte other than a space is a byte outside an Indent node. -/
theorem current_live_nonsp (hc : Ctx src is) (h : RI src is r) {t : Tree} {rest : List Tree} (hs : r.spans = t :: rest)
    (hsp : (r.current src).1 ≠ SP) : isIndent t = false := by
  rw [current_live hc h hs] at hsp
  cases hi : isIndent t
  · rfl
  · rw [hi] at hsp; simp at hsp

/-- A line ending a live reader sees is a raw byte of a non-Indent node. -/
theorem current_live_eol (hc : Ctx src is) (h : RI src is r) {t : Tree} {rest : List Tree} (hs : r.spans = t :: rest)
    {c : UInt8} (hcur : (r.current src).1 = c) (hc' : c = LF ∨ c = CR) :
    isIndent t = false ∧ src.getD r.pos 0 = c := by
  have hni : isIndent t = false := by
    apply current_live_nonsp hc h hs
    rw [hcur]
    rcases hc' with rfl | rfl <;> decide
  refine ⟨hni, ?_⟩
  rw [current_live hc h hs, hni] at hcur
  simp only [Bool.false_eq_true, if_false] at hcur
  split at hcur
  · have hv := h.vp t rest hs hni
    have := nullRepl_ne_zero hv
    rcases hc' with rfl | rfl
    · exact absurd hcur this.2.1
    · exact absurd hcur this.2.2.1
  · exact hcur

/-- Only a dead reader sees the end marker `0`. -/
theorem current_zero_dead (hc : Ctx src is) (h : RI src is r) (hz : (r.current src).1 = 0) : r.spans = [] := by
  cases hs : r.spans with
  | nil => rfl
  | cons t rest => exact absurd hz (current_live_ne_zero hc h hs)

/-! ### `next` -/

theorem nextTextNode_spec' {l : List Tree} {t : Tree} {sp : List Tree} (h : nextTextNode l = some (t, sp)) :
    ∃ k rest, sp = l.drop k ∧ sp = t :: rest := by
  induction l with
  | nil => simp [nextTextNode] at h
  | cons a rest ih =>
    simp only [nextTextNode] at h
    split at h
    · cases h
      exact ⟨0, rest, rfl, rfl⟩
    · obtain ⟨k, rest', h1, h2⟩ := ih h
      exact ⟨k + 1, rest', by simpa using h1, h2⟩

/-- Sum of the virtual widths of the Indent nodes. -/
def indSum : List Tree → Nat
  | [] => 0
  | t :: rest => (if isIndent t then t.label.indent.toNat else 0) + indSum rest

theorem indSum_drop (l : List Tree) (k : Nat) : indSum (l.drop k) ≤ indSum l := by
  induction l generalizing k with
  | nil => simp [indSum]
  | cons a rest ih =>
    cases k with
    | zero => simp
    | succ k => simp only [List.drop_succ_cons, indSum]; have := ih k; omega

/-- Number of successful `next`s still possible (an upper bound). -/
def mu (src : Bytes) (r : Rd) : Nat :=
  match r.spans with
  | [] => 0
  | t :: rest => (src.length - r.pos) + indSum rest + (if isIndent t then t.label.indent.toNat - r.vpos else 0)

theorem next_dead (hc : Ctx src is) (h : RI src is r) (hs : r.spans = []) : r.next src = (false, r) := by
  unfold Rd.next
  rw [currentNode_eq hc h, hs]
  rfl

theorem next_live (hc : Ctx src is) (h : RI src is r) {t : Tree} {rest : List Tree} (hs : r.spans = t :: rest) :
    r.next src =
      if isIndent t && (r.vpos : Int) < t.label.indent then
        (true, { r with prev := r.pos, vpos := r.vpos + 1 })
      else if !isIndent t && ((r.pos + 1 : Nat) : Int) < t.label.stop then
        (true, { r with prev := r.pos, pos := r.pos + 1,
                        vpos := if src.getD r.pos 1 == 0 && src.getD (r.pos + 1) 1 == 0
                          then (r.vpos + 1) % nullReplacementString.length else 0 })
      else
        match nextTextNode rest with
        | some (t', sp) =>
          (true, { spans := sp, prev := r.pos, pos := t'.label.start.toNat,
                   vpos := computeNullVirtualPosition src t'.label.start.toNat })
        | none => (false, { spans := [], prev := r.pos, pos := r.pos + 1, vpos := r.vpos }) := by
  unfold Rd.next
  rw [currentNode_eq hc h, hs]
  simp only [List.head?_cons, hs, List.drop_succ_cons, List.drop_zero]
  rfl

theorem cnvp_lt (src : Bytes) (p : Nat) : computeNullVirtualPosition src p < 3 := by
  unfold computeNullVirtualPosition
  split
  · omega
  · have : nullReplacementString.length = 3 := rfl
    rw [this]
    exact Nat.mod_lt _ (by omega)

/-- Everything about one `next` on a normalised reader. -/
theorem next_spec (hc : Ctx src is) (h : RI src is r) :
    RI src is (r.next src).2 ∧
    ((r.next src).1 = false → (r.next src).2.spans = []) ∧
    (r.spans ≠ [] → (r.next src).2.prev = r.pos) ∧
    r.pos ≤ (r.next src).2.pos ∧
    ((r.current src).1 ≠ SP → (r.next src).2.prev + 1 ≤ ((r.next src).2.pos : Int)) ∧
    ((r.next src).1 = true → mu src (r.next src).2 < mu src r) ∧
    (∀ t rest, r.spans = t :: rest → isIndent t = false →
      (((r.pos : Int) + 1 = t.label.stop → Bdry is (r.next src).2.pos) ∧
       ((r.pos : Int) + 1 < t.label.stop →
          r.next src = (true, { r with prev := r.pos, pos := r.pos + 1,
                                       vpos := if src.getD r.pos 1 == 0 && src.getD (r.pos + 1) 1 == 0
                                         then (r.vpos + 1) % nullReplacementString.length else 0 })))) := by
  have hcs : r.spans = [] ∨ ∃ t rest, r.spans = t :: rest := by
    cases r.spans with
    | nil => exact Or.inl rfl
    | cons t rest => exact Or.inr ⟨t, rest, rfl⟩
  rcases hcs with hs | ⟨t, rest, hs⟩
  · rw [next_dead hc h hs]
    have hd := h.dead hs
    refine ⟨h, fun _ => hs, fun hne => absurd hs hne, Nat.le_refl _, fun _ => ?_, (fun hh => by cases hh), ?_⟩
    · dsimp only; omega
    · intro t rest e; rw [hs] at e; cases e
  · have hn := h.norm t rest hs
    have htm := h.head_mem hs
    have hok := hc.ok t htm
    have h0 := hc.nn t htm
    have hlen := RI.pos_lt hc h hs
    obtain ⟨k, hk⟩ := h.suf
    rw [next_live hc h hs]
    by_cases c1 : (isIndent t && decide ((r.vpos : Int) < t.label.indent)) = true
    · rw [if_pos c1]
      simp only [Bool.and_eq_true, decide_eq_true_eq] at c1
      refine ⟨⟨⟨k, hk⟩, ?_, ?_, ?_⟩, (fun hh => by cases hh), fun _ => rfl, Nat.le_refl _, ?_, ?_, ?_⟩
      · intro t' rest' e; exact h.norm t' rest' e
      · intro t' rest' e hi
        have e' : r.spans = t' :: rest' := e
        rw [hs] at e'; cases e'
        rw [c1.1] at hi; cases hi
      · intro e
        have e' : r.spans = [] := e
        rw [hs] at e'; cases e'
      · intro hsp
        have := current_live_nonsp hc h hs hsp
        rw [c1.1] at this; cases this
      · intro _
        simp only [mu, hs, c1.1, if_true]
        omega
      · intro t' rest' e hi
        rw [hs] at e; cases e
        rw [c1.1] at hi; cases hi
    · rw [if_neg c1]
      by_cases c2 : (!isIndent t && decide (((r.pos + 1 : Nat) : Int) < t.label.stop)) = true
      · rw [if_pos c2]
        simp only [Bool.and_eq_true, Bool.not_eq_eq_eq_not, Bool.not_true, decide_eq_true_eq] at c2
        refine ⟨⟨⟨k, hk⟩, ?_, ?_, ?_⟩, (fun hh => by cases hh), fun _ => rfl, Nat.le_succ _, ?_, ?_, ?_⟩
        · intro t' rest' e
          have e' : r.spans = t' :: rest' := e
          rw [hs] at e'; cases e'
          dsimp only
          omega
        · intro t' rest' e hi
          dsimp only
          split
          · exact Nat.mod_lt _ (by decide)
          · omega
        · intro e
          have e' : r.spans = [] := e
          rw [hs] at e'; cases e'
        · intro _; dsimp only; omega
        · intro _
          simp only [mu, hs, c2.1, Bool.false_eq_true, if_false]
          omega
        · intro t' rest' e hi
          rw [hs] at e; cases e
          refine ⟨fun hh => ?_, fun _ => rfl⟩
          omega
      · rw [if_neg c2]
        have hstop : (r.pos : Int) + 1 = t.label.stop := by
          cases hi : isIndent t
          · simp only [hi, Bool.not_false, Bool.true_and, decide_eq_true_eq] at c2
            omega
          · have := hok.2.2.1 hi; omega
        have hrest : rest = is.drop (k + 1) := by
          have : (r.spans).drop 1 = rest := by rw [hs]; rfl
          rw [← this, hk, List.drop_drop]
        cases hnt : nextTextNode rest with
        | some p =>
          obtain ⟨t', sp⟩ := p
          obtain ⟨j, rest', hj, hsp'⟩ := nextTextNode_spec' hnt
          have ht'm : t' ∈ is := by
            have : t' ∈ sp := by rw [hsp']; exact List.mem_cons_self
            rw [hj, hrest] at this
            exact List.mem_of_mem_drop (List.mem_of_mem_drop this)
          have ht'r : t' ∈ rest := by
            have : t' ∈ sp := by rw [hsp']; exact List.mem_cons_self
            rw [hj] at this
            exact List.mem_of_mem_drop this
          have hok' := hc.ok t' ht'm
          have h0' := hc.nn t' ht'm
          have hrel : t.label.stop ≤ t'.label.start := by
            have hso : SortedSpans (t :: rest) := by
              have := hc.sorted.drop k
              rw [← hk, hs] at this; exact this
            exact List.rel_of_pairwise_cons hso ht'r
          dsimp only
          refine ⟨⟨⟨k + 1 + j, by simp only [hj, hrest, List.drop_drop]⟩, ?_, ?_, ?_⟩, (fun hh => by cases hh), fun _ => rfl, ?_, ?_, ?_, ?_⟩
          · intro t'' rest'' e
            have e' : sp = t'' :: rest'' := e
            rw [hsp'] at e'; cases e'
            dsimp only
            have := hok'.1
            omega
          · intro _ _ _ _
            exact cnvp_lt _ _
          · intro e
            have e' : sp = [] := e
            rw [hsp'] at e'; cases e'
          · omega
          · intro _; omega
          · intro _
            simp only [mu, hs, hsp']
            have h1 : indSum sp ≤ indSum rest := by rw [hj]; exact indSum_drop _ _
            rw [hsp'] at h1
            simp only [indSum] at h1
            have h2 : t'.label.start.toNat < src.length := by have := hok'.1; have := hok'.2.1; omega
            have h3 : r.pos < t'.label.start.toNat := by omega
            cases hi' : isIndent t' <;> cases hi : isIndent t <;>
              simp only [hi', Bool.false_eq_true, if_false, if_true] at h1 ⊢ <;> omega
          · intro t'' rest'' e hi
            rw [hs] at e; cases e
            refine ⟨fun _ => ?_, fun hh => by omega⟩
            exact Bdry_start hc ht'm (by omega)
        | none =>
          dsimp only
          refine ⟨⟨⟨is.length, by simp⟩, ?_, ?_, ?_⟩, fun _ => rfl, fun _ => rfl, Nat.le_succ _, ?_, (fun hh => by cases hh), ?_⟩
          · intro t'' rest'' e
            have e' : ([] : List Tree) = t'' :: rest'' := e
            cases e'
          · intro t'' rest'' e
            have e' : ([] : List Tree) = t'' :: rest'' := e
            cases e'
          · intro _
            dsimp only
            refine ⟨by omega, Bdry_stop hc htm (by omega)⟩
          · intro _; omega
          · intro t'' rest'' e hi
            rw [hs] at e; cases e
            refine ⟨fun _ => ?_, fun hh => by omega⟩
            exact Bdry_stop hc htm (by omega)

end CM.Proofs.RDS
