import CM.Proofs.InlSpanRunM
/-
C02, inline half — `parseBody` keeps the span invariant.
-/
namespace CM.Proofs.InlH
open CM CM.Model CM.Model.Inl CM.Gen
open Std.Do

set_option mvcgen.warning false

/-- between two inline children of the container: the frontier is not beyond the start of the next one -/
def BodyInv (L : Lims) (c : ICtx) (s : IState) : Prop :=
  ∃ F, SPT L.lo L.hi F s ∧ (s.unparsedPos < c.unparsed.size → F ≤ (c.unparsed[s.unparsedPos]!).label.start)

theorem BodyInv.next {L : Lims} {c : ICtx} (hU : UnpOK c L) {s s' : IState} (F : Int) (hsp : SPT L.lo L.hi F s)
    (hs' : Same s' s) (hu' : s'.unparsedPos = s.unparsedPos + 1)
    (hF : s.unparsedPos < c.unparsed.size → F ≤ (c.unparsed[s.unparsedPos]!).label.stop) : BodyInv L c s' := by
  refine ⟨F, hsp.same hs', ?_⟩
  rw [hu']
  intro hlt
  have h1 := hF (by omega)
  have h2 := hU.ordered _ hlt
  omega

theorem parseBody_specP (L : Lims) (c : ICtx) (hU : UnpOK c L) (hT : TokScan c L.hi) (hS : LinkScan c L.hi) :
    ⦃fun s => ⌜BodyInv L c s⌝⦄ parseBody c ⦃⇓? _ s => ⌜∃ F, SPT L.lo L.hi F s⌝⦄ := by
  mvcgen [parseBody, setIgnoreNextIndent, setUnparsedPos, parseRun_specP, processEmphasis_specGS,
    -parseBody_spec, -parseBody_specS, -parseRun_spec, -parseRun_specS, -processEmphasis_spec, -processEmphasis_specS]
  case inv1 => exact PostCond.mayThrow (fun _ s => ⌜BodyInv L c s⌝)
  inl_norm
  all_goals (try (intros; assumption))
  all_goals (try (exact fun h => h))
  -- the entry is there
  all_goals (try (
    have hu := ‹¬(!decide (_ < _)) = true›
    simp only [Bool.not_eq_true', Bool.not_eq_false, decide_eq_true_eq] at hu
    have hb := hU.bounds _ hu
    obtain ⟨F, hsp, hF⟩ := ‹BodyInv L c _›
    have hF' := hF hu))
  -- nothing imported: on to the next entry
  all_goals (try (
    exact BodyInv.next hU F hsp ⟨rfl, rfl, rfl⟩ rfl (fun _ => by omega)))
  -- the preconditions of `importNode` and `parseRun`
  all_goals (try (
    first
    | exact ⟨trivial, hsp.mono hF' (by omega), hb.2.1, hb.2.2, hU.kids _ hu⟩
    | exact ⟨trivial, (hsp.mono hF' (by omega)).congr rfl rfl rfl, hb.2.1, hb.2.2, hU.kids _ hu⟩
    | exact ⟨trivial, hsp.mono hF' (by omega), hu⟩))
  -- after `importNode`
  all_goals (try (
    obtain ⟨hq, hq2, -⟩ := ‹SPT _ _ _ _ ∧ _ = _ ∧ _›
    exact BodyInv.next hU _ hq ⟨rfl, rfl, rfl⟩ rfl (fun _ => by rw [hq2]; exact Int.le_refl _)))
  -- after `parseRun`
  all_goals (try (
    obtain ⟨F', hq, hq2⟩ := ‹∃ F, SPT _ _ F _ ∧ PosOK _ _ F›
    exact BodyInv.next hU F' hq ⟨rfl, rfl, rfl⟩ rfl hq2))
  -- `processEmphasis 0`
  all_goals (try (
    obtain ⟨F, hsp, -⟩ := ‹BodyInv L c _›
    intro h
    exact ⟨F, (h _ _ _ _ _ hsp).1⟩))

end CM.Proofs.InlH
