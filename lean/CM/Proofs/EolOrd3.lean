import CM.Proofs.EolOrd2
import CM.Proofs.BlocksLine
/-
Towards discharging the `kidsOrd` hypothesis — part 3: the block starts, the match functions, `openNewBlocks`,
`addLineText` and `processLine` keep `RI` (source unchanged, every inline tree start-minimal).
-/
namespace CM.Proofs
open CM CM.Model CM.Gen CM.Proofs.BT

section
variable {x : PExt} {S : Bytes} (hP : ParaInl x S)
include hP

theorem startBlockQuote_ri {p : LP} (h : RI S p) : RI S (startBlockQuote x p) := by
  unfold startBlockQuote
  simp only []
  split
  · exact h
  split
  · exact h
  have b := ((h.consumeIndentN p.indent).openBlock hP BK.blockQuote id).advance blockQuotePrefix.length
  split
  · exact b.consumeIndentN 1
  · exact b

theorem startATX_ri {p : LP} (h : RI S p) : RI S (startATX x p) := by
  unfold startATX
  simp only []
  split
  · exact h
  split
  · exact h
  exact ((((((h.consumeIndentN _).openBlock hP _ _).advance _).collectInline _ _).consumeLine).endBlock hP)

theorem startFenced_ri {p : LP} (h : RI S p) : RI S (startFenced x p) := by
  unfold startFenced
  simp only []
  split
  · exact h
  split
  · exact h
  have b := (((h.consumeIndentN p.indent).openBlock hP BK.fencedCode
    (fun l => { l with char := (parseCodeFence p.bytesAfterIndent).char, n := (parseCodeFence p.bytesAfterIndent).n })).setContainerIndent
      (p.indent : Int))
  split
  · exact ((b.advance _).collectInline _ _).consumeLine
  · exact b.consumeLine

theorem htmlStartLoop_ri (line : Bytes) : ∀ (fuel i : Nat) (p : LP), RI S p → RI S (htmlStartLoop x line fuel i p) := by
  intro fuel
  induction fuel with
  | zero => intro i p h; exact h
  | succ fuel ih =>
    intro i p h
    unfold htmlStartLoop
    split
    · exact h
    split
    · split
      · exact h
      · simp only []
        have b := h.openBlock hP BK.htmlBlock (fun l => { l with n := (i : Int) })
        split
        · exact ((b.collectInline _ _).consumeLine).endBlock hP
        · exact b
    · exact ih _ _ h

theorem startHTML_ri {p : LP} (h : RI S p) : RI S (startHTML x p) := by
  unfold startHTML
  simp only []
  split
  · exact h
  split
  · exact h
  exact htmlStartLoop_ri hP _ _ _ _ h

theorem startSetext_ri {p : LP} (h : RI S p) : RI S (startSetext x p) := by
  unfold startSetext
  simp only []
  split
  · exact h
  split
  · exact h
  split
  · exact h
  exact ((h.modifyLabel _).consumeLine).endBlock hP

theorem startThematicBreak_ri {p : LP} (h : RI S p) : RI S (startThematicBreak x p) := by
  unfold startThematicBreak
  simp only []
  split
  · exact h
  split
  · exact h
  exact ((((h.consumeIndentN _).openBlock hP _ _).advance _).consumeLine).endBlock hP

theorem listItemTail_ri (delim : UInt8) (stop ind : Nat) {p : LP} (h : RI S p) : RI S (listItemTail x delim stop ind p) := by
  unfold listItemTail
  simp only []
  have b := (((h.openBlock hP BK.listItem (fun l => { l with char := delim })).openBlock hP BK.listMarker id).advance stop).endBlock hP
  split
  · exact (b.setContainerIndent _).consumeLine
  · split
    · exact b.setContainerIndent _
    · split
      · exact (b.consumeIndentN 1).setContainerIndent _
      · exact (b.consumeIndentN _).setContainerIndent _

theorem startListItem_ri {p : LP} (h : RI S p) : RI S (startListItem x p) := by
  unfold startListItem
  simp only []
  split
  · exact h
  split
  · exact h
  split
  · exact h
  have b := h.consumeIndentN p.indent
  generalize p.consumeIndentN p.indent = p1 at b
  generalize hc : (p1.containerKind != BK.list ||
      (if (p1.containerKind != BK.list && p1.containerKind != BK.listItem) = true then (0 : UInt8)
        else p1.container.label.char) != (parseListMarker p.bytesAfterIndent).delim) = c
  cases c with
  | true =>
    exact listItemTail_ri hP _ _ _ (b.openBlock hP BK.list (fun l => { l with char := (parseListMarker p.bytesAfterIndent).delim }))
  | false => exact listItemTail_ri hP _ _ _ b

theorem startIndentedCode_ri {p : LP} (h : RI S p) : RI S (startIndentedCode x p) := by
  unfold startIndentedCode
  split
  · exact h
  · exact (h.consumeIndentN _).openBlock hP _ _

theorem blockStartFns_ri : ∀ f ∈ blockStartFns x, ∀ p, RI S p → RI S (f p) := by
  intro f hf p h
  simp only [blockStartFns, List.mem_cons, List.mem_nil_iff, or_false] at hf
  rcases hf with rfl | rfl | rfl | rfl | rfl | rfl | rfl | rfl
  · exact startBlockQuote_ri hP h
  · exact startATX_ri hP h
  · exact startFenced_ri hP h
  · exact startHTML_ri hP h
  · exact startSetext_ri hP h
  · exact startThematicBreak_ri hP h
  · exact startListItem_ri hP h
  · exact startIndentedCode_ri hP h

omit hP in
theorem tryStarts_ri : ∀ (fs : List (LP → LP)), (∀ f ∈ fs, ∀ p, RI S p → RI S (f p)) → ∀ p, RI S p → RI S (tryStarts fs p) := by
  intro fs
  induction fs with
  | nil => intro _ p h; exact h
  | cons f rest ih =>
    intro hf p h
    unfold tryStarts
    simp only []
    have h1 := hf f (List.mem_cons_self ..) _ (h.setState stateOpening)
    split
    · exact h1
    · exact ih (fun g hg => hf g (List.mem_cons_of_mem _ hg)) _ h1

theorem openingLoop_ri : ∀ (fuel : Nat) (p : LP), RI S p → RI S (openingLoop x fuel p).2 := by
  intro fuel
  induction fuel with
  | zero => intro p h; exact h
  | succ fuel ih =>
    intro p h
    unfold openingLoop
    split
    · exact h
    · simp only []
      have h1 := tryStarts_ri _ (blockStartFns_ri hP) p h
      split
      · exact ih _ h1
      · split
        · exact h1
        · exact h1

theorem ruleMatch_ri (kind : Nat) {p : LP} (h : RI S p) : ∀ ok q, ruleMatch x kind p = some (ok, q) → RI S q := by
  intro ok q hq
  unfold ruleMatch at hq
  split at hq
  · simp only [Option.some.injEq, Prod.mk.injEq] at hq; rw [← hq.2]; exact h
  split at hq
  · split at hq
    · split at hq
      · simp only [Option.some.injEq, Prod.mk.injEq] at hq; rw [← hq.2]; exact h
      · simp only [Option.some.injEq, Prod.mk.injEq] at hq; rw [← hq.2]; exact h.consumeIndentN _
    · split at hq
      · split at hq
        · simp only [Option.some.injEq, Prod.mk.injEq] at hq; rw [← hq.2]; exact h.consumeIndentN _
        · simp only [Option.some.injEq, Prod.mk.injEq] at hq; rw [← hq.2]; exact h
      · simp only [Option.some.injEq, Prod.mk.injEq] at hq; rw [← hq.2]; exact h
  split at hq
  · simp only [] at hq
    split at hq
    · simp only [Option.some.injEq, Prod.mk.injEq] at hq; rw [← hq.2]; exact h
    split at hq
    · simp only [Option.some.injEq, Prod.mk.injEq] at hq; rw [← hq.2]; exact h
    · simp only [Option.some.injEq, Prod.mk.injEq] at hq
      rw [← hq.2]
      split
      · exact ((h.consumeIndentN _).advance _).consumeIndentN 1
      · exact (h.consumeIndentN _).advance _
  split at hq
  · simp only [] at hq
    split at hq
    · simp only [Option.some.injEq, Prod.mk.injEq] at hq; rw [← hq.2]; exact h.consumeLine
    · simp only [Option.some.injEq, Prod.mk.injEq] at hq
      rw [← hq.2]
      split
      · exact h.consumeIndentN _
      · exact h.consumeIndentN _
  split at hq
  · simp only [] at hq
    split at hq
    · split at hq
      · simp only [Option.some.injEq, Prod.mk.injEq] at hq; rw [← hq.2]; exact h
      · simp only [Option.some.injEq, Prod.mk.injEq] at hq; rw [← hq.2]; exact h.consumeIndentN _
    · simp only [Option.some.injEq, Prod.mk.injEq] at hq; rw [← hq.2]; exact h.consumeIndentN _
  split at hq
  · split at hq
    · split at hq
      · simp only [Option.some.injEq, Prod.mk.injEq] at hq; rw [← hq.2]; exact h
      · simp only [Option.some.injEq, Prod.mk.injEq] at hq; rw [← hq.2]; exact (h.collectInline _ _).consumeLine
    · simp only [Option.some.injEq, Prod.mk.injEq] at hq; rw [← hq.2]; exact h
  split at hq
  · simp only [Option.some.injEq, Prod.mk.injEq] at hq; rw [← hq.2]; exact h
  · cases hq

theorem descendLoop_ri : ∀ (fuel : Nat) (p : LP) (parent : Nat), RI S p → RI S (descendLoop x fuel p parent).2 := by
  intro fuel
  induction fuel with
  | zero => intro p parent h; exact h
  | succ fuel ih =>
    intro p parent h
    unfold descendLoop
    split
    · exact h
    split
    · exact h
    simp only []
    split
    · exact h
    · rename_i ok p2 hrm
      have h2 : RI S p2 := ruleMatch_ri hP _ (p := { p with depth := parent + 1, state := stateDescending }) h ok p2 hrm
      split
      · exact (h2.closeContainer hP _).setDepth parent
      · split
        · exact h2.setDepth parent
        · exact ih _ _ h2

theorem descendOpenBlocks_ri {p : LP} (h : RI S p) : RI S (descendOpenBlocks x p).2 :=
  descendLoop_ri hP _ p 0 h

theorem openNewBlocks_ri {p : LP} (h : RI S p) (am : Bool) : RI S (openNewBlocks x p am).2 := by
  unfold openNewBlocks
  split
  · exact (h.setDepth 0).closeContainer hP _
  · have h1 := openingLoop_ri hP (p.line.length + 8) p h
    generalize openingLoop x (p.line.length + 8) p = r at h1
    obtain ⟨ht, q⟩ := r
    simp only [] at h1 ⊢
    split
    · exact h1
    · split
      · exact h1.setDepth _
      · exact h1.closeLastChild hP _

/-! ### addLineText -/

omit hP in
theorem altBlank_ri {p : LP} (h : RI S p) : RI S (altBlank p) := by
  unfold altBlank
  split
  · refine ⟨h.1, ?_⟩
    show pbInl (spineModify _ p.root p.depth) = true
    apply pbInl_spineModify _ _ _ _ h.2
    intro c hc
    obtain ⟨l, bs, is⟩ := c
    simp only []
    cases hg : bs.getLast? with
    | none => exact hc
    | some c' =>
      simp only []
      rw [pbInl_mk] at hc ⊢
      refine ⟨hc.1, ?_⟩
      intro b hb
      rcases mem_dropLast_append hb with h1 | h1
      · exact hc.2 b h1
      · simp only [List.mem_singleton] at h1
        subst h1
        rw [pbInl_setLabel]
        exact hc.2 c' (List.mem_of_getLast? hg)
  · exact h

omit hP in
theorem altFlags_ri (b : Bool) {p : LP} (h : RI S p) : RI S (altFlags b p) :=
  ⟨h.1, pbInl_setBlankFlags _ _ _ h.2⟩

theorem altCont_ri (b : Bool) {p : LP} (h : RI S p) : ∀ q, altCont x b p = some q → RI S q := by
  intro q hq
  unfold altCont at hq
  simp only [] at hq
  split at hq
  · split at hq
    · simp only [Option.some.injEq] at hq
      rw [← hq]
      apply RI.consumeIndentN
      apply h.appendInline
      apply inlOK_leaf
      show (p.lineStart : Int) + (p.i : Int) ≤ (p.lineStart : Int) + (p.i : Int) + 1
      omega
    · simp only [Option.some.injEq] at hq; rw [← hq]; exact h
  · split at hq
    · simp only [Option.some.injEq] at hq
      rw [← hq]
      exact (h.openBlock hP _ _).consumeIndentN _
    · cases hq

omit hP in
theorem altTail_ri {p : LP} (h : RI S p) (hi : p.i ≤ p.line.length) : RI S (altTail p) := by
  rw [altTail_eq']
  unfold altTail'
  simp only []
  have h1 : RI S (p.appendInline (mkInline (tailKind p) ((p.lineStart : Int) + (p.i : Int))
      ((p.lineStart : Int) + (p.line.length : Int)))) :=
    h.appendInline _ (inlOK_mkInline _ _ _ _ (by omega) rfl)
  split
  · exact h1.appendInline _ (inlOK_mkInline _ _ _ _ (Int.le_refl _) rfl)
  · exact h1

theorem addLineText_ri {p : LP} (h : RI S p) (hinv : BT.Inv p) (hs : acceptsLines p.containerKind = false → p.state ≤ 2) :
    RI S (addLineText x p) := by
  rw [addLineText_eq]
  have a := altBlank_step p hinv
  have b := altFlags_step p.isRestBlank (altBlank p) a.inv
  have hb : RI S (altFlags p.isRestBlank (altBlank p)) := altFlags_ri _ (altBlank_ri h)
  generalize altFlags p.isRestBlank (altBlank p) = pB at b hb
  have kB : pB.containerKind = p.containerKind := by rw [b.ckind, a.ckind]
  have sB : pB.state = p.state := by rw [b.state, a.state]
  split
  · exact hb
  · rename_i q hq
    have iq := altCont_inv x _ pB b.inv (by rw [kB, sB]; exact hs) q hq
    exact altTail_ri (altCont_ri hP _ hb q hq) iq.cur.hi

/-- **`processLine` keeps the invariant.** -/
theorem processLine_ri {p : LP} (h : RI S p) (hinv : BT.Inv p) : RI S (processLine x p) := by
  unfold processLine
  have d := descendOpenBlocks_inv x p hinv
  have hd := descendOpenBlocks_ri hP h
  generalize descendOpenBlocks x p = r at d hd
  obtain ⟨allMatched, p1⟩ := r
  simp only [] at d hd ⊢
  split
  · exact hd
  · have o := openNewBlocks_post x p1 allMatched d
    have ho := openNewBlocks_ri hP hd allMatched
    generalize openNewBlocks x p1 allMatched = r2 at o ho
    obtain ⟨hasText, p2⟩ := r2
    simp only [] at o ho ⊢
    split
    · rename_i ht
      exact addLineText_ri hP ho o.inv (o.st ht)
    · exact ho

end

end CM.Proofs
