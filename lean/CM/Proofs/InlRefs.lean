import CM.Proofs.InlExport
import CM.Proofs.InlCollect
/-
Invariant B (part of C12): every reference the inline phase writes into a node names a key the reference matcher
accepts. The model sets `ref` at three places (`parseEndBracket`): the LinkLabel child of a full reference link
(`ref := transformLinkReference c labelKids`, after `c.matchRef ref`), and the Link / Image node itself of a collapsed
or shortcut reference (`ref := normalizedLabel`, after `c.matchRef normalizedLabel`); imported nodes keep theirs.
`K` selects the node kinds one is interested in (for `K := fun _ => True`: every node with a non-empty `ref`).
-/
namespace CM.Proofs.InlH
open CM CM.Model CM.Model.Inl CM.Spec

/-- An inline node of a kind in `K` with a non-empty reference names an accepted key. -/
def RefOK (matchRef : Bytes → Bool) (K : Nat → Prop) (t : Tree) : Prop :=
  t.label.isBlock = false → K t.label.kind → t.label.ref ≠ [] → matchRef t.label.ref = true

/-- The arena invariant. -/
def φB (matchRef : Bytes → Bool) (K : Nat → Prop) (m : INode) : Prop :=
  (K m.kind → m.ref ≠ [] → matchRef m.ref = true) ∧ ∀ t ∈ T.nodesL m.sub, RefOK matchRef K t

/-- Hypothesis on the block-phase inline children (on block-phase trees they all have an empty `ref`). -/
def InRef (matchRef : Bytes → Bool) (K : Nat → Prop) (unparsed : List Tree) : Prop :=
  ∀ u ∈ unparsed, u.label.isBlock = false → isUnparsed u = false → ∀ t ∈ T.nodes u, RefOK matchRef K t

section
variable {matchRef : Bytes → Bool} {K : Nat → Prop}

theorem φB.noRef {m : INode} (hr : m.ref = []) (hs : ∀ t ∈ T.nodesL m.sub, RefOK matchRef K t) : φB matchRef K m :=
  ⟨fun _ h => absurd hr h, hs⟩

theorem φB.leaf (k : Nat) (a b : Int) : φB matchRef K { kind := k, start := a, stop := b } :=
  φB.noRef rfl (fun t ht => by simp [T.nodesL] at ht)

theorem refOK_mkInline (k : Nat) (a b : Int) : ∀ u ∈ T.nodes (Model.mkInline k a b), RefOK matchRef K u := by
  intro u hu
  rw [Model.mkInline, T.nodes, T.nodesL, List.mem_singleton] at hu
  subst hu
  intro _ _ h
  exact absurd rfl h

theorem refOK_all {ts : List Tree} (h : ∀ c ∈ ts, ∀ u ∈ T.nodes c, RefOK matchRef K u) :
    ∀ t ∈ T.nodesL ts, RefOK matchRef K t := by
  intro t ht
  obtain ⟨c, hc, htc⟩ := mem_nodesL ht
  exact h c hc t htc

theorem isIndent_inline {t : Tree} (h : isIndent t = true) : t.label.isBlock = false ∧ isUnparsed t = false := by
  unfold isIndent Node.isI at h
  simp only [Bool.and_eq_true, Bool.not_eq_true', beq_iff_eq] at h
  refine ⟨h.1, ?_⟩
  unfold isUnparsed Node.isI
  rw [h.1, h.2]; rfl

theorem collect_refOK (ext : Ext) (src : Bytes) (stop textKind : Nat) (escapes : Bool)
    (spans : List Tree) (hin : InRef matchRef K spans) (fuel k p ps : Nat) :
    ∀ t ∈ T.nodesL (collectTextNodes ext src stop textKind escapes fuel (newReader (spans.drop k) p) ps []),
      RefOK matchRef K t := by
  apply refOK_all
  exact collect_all ext src stop textKind escapes (fun c => ∀ u ∈ T.nodes c, RefOK matchRef K u)
    (fun a b => refOK_mkInline _ a b) (fun p _ e _ => refOK_mkInline _ _ _) spans
    (fun t ht hi => hin t ht (isIndent_inline hi).1 (isIndent_inline hi).2) fuel k p ps

/-- `φB` is an invariant of the arena. -/
theorem nodeInv_B (x : IExt) (src : Bytes) (srcA : Array UInt8) (unparsed : List Tree)
    (hin : InRef matchRef K unparsed) : NodeInv (inlCtx x src srcA matchRef unparsed) (φB matchRef K) where
  text a b := φB.leaf _ a b
  hardBreak a b := φB.leaf _ a b
  charRef pos _ e _ _ _ _ _ := φB.leaf _ _ _
  softBreak1 pos _ _ _ := φB.leaf _ _ _
  softBreak2 pos _ _ _ _ := φB.leaf _ _ _
  wrapped k a b _ := φB.leaf _ a b
  imported t ht hb _ hk := by
    have hu : isUnparsed t = false := by
      unfold isUnparsed Node.isI
      simp [hk]
    have hall := hin t (by simpa [inlCtx] using ht) hb hu
    refine ⟨fun hK hr => ?_, fun u hu' => hall u (nodesL_children_sub hu')⟩
    exact hall t (self_mem_nodes t) hb hK hr
  codeSpan a b ks _ := by
    refine φB.noRef rfl (refOK_all fun c hc u hu => ?_)
    obtain ⟨k, _, rfl⟩ := List.mem_map.1 hc
    rw [CSN.toTree, T.nodes, T.nodesL, List.mem_singleton] at hu
    subst hu
    intro _ _ h
    exact absurd rfl h
  autolink a b a' b' := by
    refine φB.noRef rfl (refOK_all fun c hc u hu => ?_)
    rw [List.mem_singleton] at hc
    subst hc
    exact refOK_mkInline _ _ _ u hu
  htmlTag a b stop fuel k p ps := φB.noRef rfl (collect_refOK _ _ _ _ _ unparsed hin fuel k p ps)
  linkDest a b stop fuel k p ps := φB.noRef rfl (collect_refOK _ _ _ _ _ unparsed hin fuel k p ps)
  linkDestEmpty a b := φB.leaf _ a b
  linkTitle a b stop fuel k p ps := φB.noRef rfl (collect_refOK _ _ _ _ _ unparsed hin fuel k p ps)
  linkTitleEmpty a b := φB.leaf _ a b
  linkLabel a b stop fuel k p ps ref hm := ⟨fun _ _ => hm, collect_refOK _ _ _ _ _ unparsed hin fuel k p ps⟩
  modKids n ks h := h
  modSpan n a b h _ := h
  modLink n a b r h _ hr := by
    refine ⟨fun hK hne => ?_, h.2⟩
    rcases hr with rfl | hr
    · exact h.1 hK hne
    · exact hr

theorem refOK_of_fromArena {t : Tree} (h : FromArena (φB matchRef K) t) : RefOK matchRef K t := by
  rcases h with (rfl | rfl) | ⟨m, hm, hl | hs⟩
  · intro _ _ h; exact absurd rfl h
  · intro _ _ h; exact absurd rfl h
  · intro _ hK hr
    rw [hl] at hK hr ⊢
    exact hm.1 hK hr
  · exact hm.2 t hs

/-- INVARIANT B for one container: every inline node (any depth) of a kind in `K` with a non-empty reference in the
    new children names a key accepted by the matcher. -/
theorem parseInlines_refs (x : IExt) (src : Bytes) (srcA : Array UInt8) (cstart cstop : Int)
    (unparsed kids : List Tree) (hin : InRef matchRef K unparsed)
    (h : parseInlines x src srcA matchRef cstart cstop unparsed = .ok kids) :
    ∀ t ∈ T.nodesL kids, t.label.isBlock = false → K t.label.kind → t.label.ref ≠ [] →
      matchRef t.label.ref = true := fun t ht =>
  refOK_of_fromArena
    (parseInlines_nodes x src srcA matchRef cstart cstop unparsed (φB matchRef K) (nodeInv_B x src srcA unparsed hin)
      (φB.leaf _ _ _) kids h t ht)

/-- Its reading for reference links: a Link / Image node with a reference, and the LinkLabel child of a full
    reference link, name accepted keys. -/
theorem parseInlines_link_refs (x : IExt) (src : Bytes) (srcA : Array UInt8) (cstart cstop : Int)
    (unparsed kids : List Tree)
    (hin : InRef matchRef (fun k => k = IK.link ∨ k = IK.image ∨ k = IK.linkLabel) unparsed)
    (h : parseInlines x src srcA matchRef cstart cstop unparsed = .ok kids) :
    ∀ t ∈ T.nodesL kids, (T.isI t IK.link = true ∨ T.isI t IK.image = true ∨ T.isI t IK.linkLabel = true) →
      t.label.ref ≠ [] → matchRef t.label.ref = true := by
  intro t ht hk hr
  have hb : t.label.isBlock = false ∧ (t.label.kind = IK.link ∨ t.label.kind = IK.image ∨ t.label.kind = IK.linkLabel) := by
    unfold T.isI at hk
    simp only [Bool.and_eq_true, Bool.not_eq_true', beq_iff_eq] at hk
    rcases hk with h | h | h
    · exact ⟨h.1, Or.inl h.2⟩
    · exact ⟨h.1, Or.inr (Or.inl h.2)⟩
    · exact ⟨h.1, Or.inr (Or.inr h.2)⟩
  exact parseInlines_refs x src srcA cstart cstop unparsed kids hin h t ht hb.1 hb.2 hr

/-- From "all nodes of `t`" to what `rewriteE_nodes` asks about survivors and parsed containers. -/
theorem surv_conts_of_all {Q : Tree → Prop} (t : Tree) (h : ∀ u ∈ T.nodes t, Q u) :
    (∀ u ∈ surv t, Q u) ∧ (∀ p ∈ conts t, ∀ c ∈ p.2, ∀ v ∈ T.nodes c, Q v) := by
  refine ⟨fun u hu => h u (surv_sub t.size t (Nat.le_refl _) u hu), fun p hp c hc v hv => ?_⟩
  obtain ⟨hmem, _, _⟩ := conts_sub t.size t (Nat.le_refl _) p hp
  exact h v (nodes_trans' hmem (nodesL_children_sub (u := .node p.1 p.2) (nodesL_of_mem hc hv)))

/-- INVARIANT B for `Rewrite`: if every reference already present in the block-phase tree (the LinkLabel of a link
    reference definition) names an accepted key, so does every reference of the rewritten tree. -/
theorem rewriteE_refs (x : IExt) (src : Bytes) (srcA : Array UInt8) (t t' : Tree)
    (hpre : ∀ u ∈ T.nodes t, RefOK matchRef K u)
    (h : rewriteE x src srcA matchRef t = .ok t') :
    ∀ u ∈ T.nodes t', u.label.isBlock = false → K u.label.kind → u.label.ref ≠ [] →
      matchRef u.label.ref = true := by
  obtain ⟨hs, hcont⟩ := surv_conts_of_all t hpre
  exact rewriteE_nodes x src srcA matchRef (RefOK matchRef K) (fun _ cs => InRef matchRef K cs)
    (fun l cs kids hR hp => parseInlines_refs x src srcA l.start l.stop cs kids hR hp)
    (fun l cs cs' hq _ => hq) t.size t t' (Nat.le_refl _) hs
    (fun p hp c hc _ _ v hv => hcont p hp c hc v hv) h

end

end CM.Proofs.InlH
