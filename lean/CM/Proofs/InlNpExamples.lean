import CM.Proofs.InlNpRewrite
import CM.Proofs.InlSpanExamples
/-
C04, inline half — non-vacuity of the no-panic theorems (the paragraph of `InlSpanExamples` meets all hypotheses), a
witness that the hypotheses cannot be reduced to "the runs are in order inside the container", the open target about
fuel, and the axioms of the main theorems.
-/
namespace CM.Proofs.InlH.Examples
open CM CM.Model CM.Model.Inl CM.Proofs.InlH CM.Spec

theorem tokNP1 : TokNP (inlCtx x0 src1S src1S.toArray m1 in1S) :=
  ⟨fun _ pos _ h0 h1 hb => absurd hb (src1_no pos h0 h1).2.1⟩

/-- `parseInlines_noPanic` applies to the paragraph `*a* _b_ ]` (on which `processEmphasis` builds two emphasis nodes
    and `parseEndBracket` handles a `]` without opener). -/
example (msg : String) : parseInlines x0 src1S src1S.toArray m1 0 9 in1S ≠ .error (.panic msg) :=
  parseInlines_noPanic x0 src1S src1S.toArray m1 0 9 in1S (by decide) (by decide) in1_WFL tokScan1 linkScan1 tokNP1 msg

theorem t1_contsNP : ContsNP x0 src1S src1S.toArray m1 t1S := by
  intro u hu hb _
  have : T.nodes t1S = [t1S, run 0 9] := rfl
  rw [this] at hu
  simp only [List.mem_cons, List.mem_nil_iff, or_false] at hu
  rcases hu with rfl | rfl
  · exact tokNP1
  · exact absurd hb (by decide)

/-- `rewriteE_noPanic` applies to the paragraph. -/
example (msg : String) : rewriteE x0 src1S src1S.toArray m1 t1S ≠ .error (.panic msg) :=
  rewriteE_noPanic x0 src1S src1S.toArray m1 t1S t1_WFT (by decide) t1_conts t1_contsNP msg

/-! ### the hypothesis about code spans cannot be dropped -/

def isPanic {α} (r : Except IErr α) : Bool :=
  match r with
  | .error (.panic _) => true
  | _ => false

/-- backtick, `x`, `a`, backtick -/
def srcP : Bytes := [0x60, 0x78, 0x61, 0x60]

/-- Two runs `[0, 1)`, `[2, 4)` in order inside `[0, 4]` with a gap: the opening backtick run ends exactly at the end
    of the first run, the reader moves to the start of the second run (`content.start = 2`), while the tokenizer is
    still in the first run (`stop = 1`): `collectCodeSpan` slices `source[2:1]` — the model reports the Go panic
    "slice bounds out of range [2:1]". (After the block phase every run but the last one ends with a line ending, so a
    backtick run cannot end where such a run ends.) -/
theorem witness_codespan_gap_panics :
    isPanic (parseInlines x0 srcP srcP.toArray (fun _ => false) 0 4 [run 0 1, run 2 4]) = true := by decide +kernel

/-- the statement of `parseInlines_noPanic` without the hypotheses about the scanners -/
def parseInlines_noPanic_target : Prop :=
  ∀ (x : IExt) (src : Bytes) (srcA : Array UInt8) (matchRef : Bytes → Bool) (cstart cstop : Int) (unparsed : List Tree)
    (msg : String), 0 ≤ cstart → cstop ≤ srcA.size → WFL cstart cstop unparsed →
    parseInlines x src srcA matchRef cstart cstop unparsed ≠ .error (.panic msg)

theorem parseInlines_noPanic_target_false : ¬ parseInlines_noPanic_target := by
  intro h
  have hw := witness_codespan_gap_panics
  have hin : WFL 0 4 [run 0 1, run 2 4] := by
    rw [WFL_cons, WFL_cons, WFL_nil]
    exact ⟨by decide, WFT_leaf _ (by decide), by decide, WFT_leaf _ (by decide), by decide⟩
  cases hr : parseInlines x0 srcP srcP.toArray (fun _ => false) 0 4 [run 0 1, run 2 4] with
  | ok k => rw [hr] at hw; cases hw
  | error e =>
    cases e with
    | fuel s => rw [hr] at hw; cases hw
    | panic msg =>
      exact h x0 srcP srcP.toArray (fun _ => false) 0 4 [run 0 1, run 2 4] msg (by decide) (by decide) hin hr

/-! ### open: fuel

`IErr.fuel` is what the model returns when one of its bounded loops (the bound is a function of the input) is exhausted;
Go has unbounded loops there. That the bounds are adequate (termination of the Go loops within the bound) is not
proved here. -/

/-- **open target**: under the hypotheses of `parseInlines_noPanic`, no loop bound of the model is exhausted. -/
def parseInlines_noFuel_target : Prop :=
  ∀ (x : IExt) (src : Bytes) (srcA : Array UInt8) (matchRef : Bytes → Bool) (cstart cstop : Int) (unparsed : List Tree)
    (site : String), 0 ≤ cstart → cstop ≤ srcA.size → WFL cstart cstop unparsed →
    TokScan (inlCtx x src srcA matchRef unparsed) cstop → LinkScan (inlCtx x src srcA matchRef unparsed) cstop →
    TokNP (inlCtx x src srcA matchRef unparsed) →
    parseInlines x src srcA matchRef cstart cstop unparsed ≠ .error (.fuel site)

end CM.Proofs.InlH.Examples

#print axioms CM.Proofs.InlH.parseInlines_noPanic
#print axioms CM.Proofs.InlH.rewriteE_noPanic
#print axioms CM.Proofs.InlH.parseEndBracket_np
#print axioms CM.Proofs.InlH.processEmphasis_np
#print axioms CM.Proofs.InlH.parseRun_np
#print axioms CM.Proofs.InlH.Examples.parseInlines_noPanic_target_false
