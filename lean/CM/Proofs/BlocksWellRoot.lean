import CM.Proofs.BlocksWellSpine
/-
The invariant of the document block (`RootOK`) under the modifications the block phase applies along the spine.
-/
namespace CM.Proofs
open CM CM.Model CM.Gen

/-- The document block: open, of kind document, with acceptable children whose closed ones end at or before `H`. -/
structure RootOK (N P : Nat) (H : Int) (root : PB) : Prop where
  kind : root.label.kind = BK.document
  stop : root.label.stop = -1
  kids : Kids N P root.blocks
  cle : ClosedLe H root.blocks

def NE (root : PB) : Prop := root.blocks ≠ []

/-- The last child of the document (if any) is closed. -/
def LastClosed (root : PB) : Prop := ∀ c, root.blocks.getLast? = some c → PBClosed c

theorem RootOK.mono {N P M Q : Nat} {H H' : Int} {root : PB} (h : RootOK N P H root) (h1 : N ≤ M) (h2 : P ≤ Q)
    (h3 : H ≤ H') : RootOK M Q H' root :=
  ⟨h.kind, h.stop, h.kids.mono h1 h2, h.cle.mono h3⟩

/-- A modification below the document block (depth ≥ 1). -/
theorem RootOK.deep {N P : Nat} {H : Int} {root : PB} (f : PB → PB) (d : Nat) (hd : 1 ≤ d)
    (hf : d = 1 → ∀ c, root.blocks.getLast? = some c → HeadRel c (f c)) (h : RootOK N P H root) :
    RootOK N P H (spineModify f root d) ∧ (NE root → NE (spineModify f root d)) ∧
    (LastClosed root → LastClosed (spineModify f root d)) := by
  obtain ⟨d', rfl⟩ : ∃ d', d = d' + 1 := ⟨d - 1, by omega⟩
  cases root with
  | mk l bs is =>
    rw [spineModify_succ]
    cases hb : bs.getLast? with
    | none => exact ⟨h, fun h => h, fun h => h⟩
    | some c =>
      have hr : HeadRel c (spineModify f c d') := by
        cases d' with
        | zero => rw [spineModify_zero]; exact hf rfl c hb
        | succ d'' => exact HeadRel.spineModify_succ f c d''
      refine ⟨⟨h.kind, h.stop, h.kids.modLast hb hr, h.cle.modLast hb hr.stop⟩, fun _ => by simp [NE, PB.blocks], ?_⟩
      intro hl c' hc'
      simp only [PB.blocks, List.getLast?_concat, Option.some.injEq] at hc'
      subst hc'
      unfold PBClosed
      rw [hr.stop]
      exact hl c hb

theorem sorted_last {bs : List PB} {c : PB} (hs : bs.Pairwise (fun a b => 0 ≤ b.label.stop → a.label.stop ≤ b.label.stop))
    (hc : bs.getLast? = some c) (h0 : 0 ≤ c.label.stop) : ∀ a ∈ bs.dropLast, a.label.stop ≤ c.label.stop := by
  intro a ha
  rw [getLast?_split hc, List.pairwise_append] at hs
  rw [getLast?_split hc, List.dropLast_concat] at ha
  exact hs.2.2 a ha c (by simp) h0

/-- `CloseHyp` for the last child of the document as it is. -/
theorem closeHyp_last {N P : Nat} {H e : Int} {bs : List PB} {c : PB} (h : Kids N P bs) (hcl : ClosedLe H bs)
    (hc : bs.getLast? = some c) (hPe : (P : Int) ≤ e) (heN : e ≤ (N : Int)) (hHe : H ≤ e) : CloseHyp N P e bs c := by
  have hcm : c ∈ bs := List.mem_of_getLast? hc
  have hk := h.kid c hcm
  refine ⟨hPe, heN, hcl.mono hHe, fun h0 => ⟨by have := hcl c hcm h0; omega, sorted_last h.sorted hc h0⟩, ?_, ?_⟩
  · intro hop hkp
    rcases hkp with hkp | hkp
    · exact hk.para hop hkp
    · exact absurd hkp (hk.notSetext hop)
  · intro hop hkp
    rcases hkp with hkp | hkp
    · exact h.lb c hc hop hkp
    · exact absurd hkp (hk.notSetext hop)

/-- Closing the last child of the document at `e` (`closeLastChild` at depth 0, `closeContainer` at depth 1). -/
theorem RootOK.close0 {N P : Nat} {H e : Int} {root : PB} (x : PExt) (src : Bytes) (h : RootOK N P H root)
    (hPe : (P : Int) ≤ e) (heN : e ≤ (N : Int)) (hHe : H ≤ e) :
    RootOK N P e (replLast (closeBlock x src e) root) ∧ (NE root → NE (replLast (closeBlock x src e) root)) ∧
    LastClosed (replLast (closeBlock x src e) root) := by
  cases root with
  | mk l bs is =>
    simp only [replLast]
    cases hb : bs.getLast? with
    | none =>
      refine ⟨⟨h.kind, h.stop, h.kids, h.cle.mono hHe⟩, fun h => h, ?_⟩
      intro c hc; simp only [PB.blocks] at hc; rw [hb] at hc; cases hc
    | some c =>
      have hcm : c ∈ bs := List.mem_of_getLast? hb
      have hk := h.kids.kid c hcm
      have hy := closeHyp_last h.kids h.cle hb hPe heN hHe
      have hs := closeBlock_shape x src e hPe c hy.para
      obtain ⟨k1, k2, k3, k4⟩ := h.kids.replaceLast hy hs P (Or.inr hk.notSetext)
      refine ⟨⟨h.kind, h.stop, k1, k2⟩, fun _ => ?_, ?_⟩
      · show bs.dropLast ++ closeBlock x src e c ≠ []
        intro e'; exact k3 (List.append_eq_nil_iff.mp e').2
      · intro c' hc'
        simp only [PB.blocks] at hc'
        rw [getLast?_append_ne _ _ k3] at hc'
        exact k4 hk.notSetext c' (List.mem_of_getLast? hc')

/-- The label update of `startSetext`. -/
def setextLabel (level : Int) : PLabel → PLabel := fun l => { l with kind := BK.setextHeading, n := level }

/-- Closing the last child of the document (an open paragraph) as a setext heading at `e`. -/
theorem RootOK.closeSetext0 {N P : Nat} {H e : Int} {root : PB} (x : PExt) (src : Bytes) (level : Int)
    (h : RootOK N P H root) (hPe : (P : Int) ≤ e) (heN : e ≤ (N : Int)) (hHe : H ≤ e)
    (hkp : ∀ c, root.blocks.getLast? = some c → c.label.kind = BK.paragraph) :
    RootOK N N e (replLast (fun c => closeBlock x src e (c.setLabel (setextLabel level))) root) ∧
    (NE root → NE (replLast (fun c => closeBlock x src e (c.setLabel (setextLabel level))) root)) := by
  cases root with
  | mk l bs is =>
    simp only [replLast]
    cases hb : bs.getLast? with
    | none => exact ⟨⟨h.kind, h.stop, h.kids.mono (Nat.le_refl _) (by omega), h.cle.mono hHe⟩, fun h => h⟩
    | some c =>
      have hcm : c ∈ bs := List.mem_of_getLast? hb
      have hk := h.kids.kid c hcm
      have hkc := hkp c hb
      have hy := closeHyp_last h.kids h.cle hb hPe heN hHe
      cases c with
      | mk cl cbs cis =>
        have hy' : CloseHyp N P e bs (PB.setLabel (setextLabel level) (.mk cl cbs cis)) := by
          refine ⟨hPe, heN, hy.cle, hy.cstop, ?_, ?_⟩
          · intro hop _
            have := hy.para hop (Or.inl hkc)
            exact ⟨this.spans, this.sorted, this.valid, this.nokids⟩
          · intro hop _
            exact hy.lb hop (Or.inl hkc)
        have hs := closeBlock_shape x src e hPe _ hy'.para
        obtain ⟨k1, k2, k3, _⟩ := h.kids.replaceLast hy' hs N (Or.inl (by omega))
        refine ⟨⟨h.kind, h.stop, k1, k2⟩, fun _ => ?_⟩
        show bs.dropLast ++ _ ≠ []
        intro e'; exact k3 (List.append_eq_nil_iff.mp e').2

theorem closeBlock_closed (x : PExt) (src : Bytes) (e : Int) (c : PB) (h : 0 ≤ c.label.stop) :
    closeBlock x src e c = [c] := by
  cases c with
  | mk l bs is =>
    rw [closeBlock]
    simp only [PB.label] at h
    simp [h]

/-- If the last child is already closed, the setext close leaves the last child closed. -/
theorem closeSetext0_closed {root : PB} (x : PExt) (src : Bytes) (e : Int) (level : Int)
    (hcl : LastClosed root) :
    LastClosed (replLast (fun c => closeBlock x src e (c.setLabel (setextLabel level))) root) := by
  cases root with
  | mk l bs is =>
    simp only [replLast]
    cases hb : bs.getLast? with
    | none => exact hcl
    | some c =>
      have hc0 : 0 ≤ c.label.stop := hcl c hb
      have hc1 : 0 ≤ (c.setLabel (setextLabel level)).label.stop := by
        cases c; exact hc0
      intro c' hc'
      simp only [PB.blocks, closeBlock_closed x src e _ hc1, List.getLast?_concat, Option.some.injEq] at hc'
      subst hc'
      exact hc1

/-- The tail of `openBlock`: close the last child of the container, then append the new child. -/
def appendChild (child : PB) : PB → PB
  | .mk l bs is => .mk l (bs ++ [child]) is

def closeAppend (x : PExt) (src : Bytes) (e : Int) (child : PB) : PB → PB :=
  appendChild child ∘ replLast (closeBlock x src e)

theorem closeAppend_blocks (x : PExt) (src : Bytes) (e : Int) (child : PB) (b : PB) :
    (closeAppend x src e child b).blocks = (replLast (closeBlock x src e) b).blocks ++ [child] ∧
    (closeAppend x src e child b).label = b.label ∧ (closeAppend x src e child b).inlines = b.inlines := by
  cases b with
  | mk l bs is =>
    simp only [closeAppend, Function.comp, replLast]
    cases bs.getLast? <;> exact ⟨rfl, rfl, rfl⟩

theorem spineModify_congr {f g : PB → PB} (h : ∀ b, f b = g b) (root : PB) (d : Nat) :
    spineModify f root d = spineModify g root d := by
  have : f = g := funext h
  rw [this]

theorem RootOK.closeAppend0 {N P : Nat} {H e : Int} {root : PB} (x : PExt) (src : Bytes) (child : PB)
    (h : RootOK N P H root) (hPe : (P : Int) ≤ e) (heN : e ≤ (N : Int)) (hHe : H ≤ e)
    (hs : child.label.stop < 0) (hk : child.label.kind ≠ BK.setextHeading) (hi : child.inlines = [])
    (hb : child.blocks = []) :
    RootOK N P e (closeAppend x src e child root) ∧ NE (closeAppend x src e child root) := by
  obtain ⟨k1, _, k3⟩ := h.close0 x src hPe heN hHe
  obtain ⟨b1, b2, _⟩ := closeAppend_blocks x src e child root
  have hl : (replLast (closeBlock x src e) root).label = root.label := (replLast_same _ root).1
  have hall : ∀ k ∈ (replLast (closeBlock x src e) root).blocks, PBClosed k := by
    intro k hk'
    have kk := k1.kids.init
    have k3' : ∀ c, (replLast (closeBlock x src e) root).blocks.getLast? = some c → PBClosed c := k3
    generalize (replLast (closeBlock x src e) root).blocks = bs at hk' kk k3'
    by_cases hne : bs = []
    · subst hne; cases hk'
    · have hlast := List.getLast?_eq_some_getLast hne
      rw [← List.dropLast_concat_getLast hne] at hk'
      rcases List.mem_append.mp hk' with h' | h'
      · exact kk k h'
      · simp only [List.mem_singleton] at h'; subst h'
        exact k3' _ hlast
  refine ⟨⟨by rw [b2]; exact h.kind, by rw [b2]; exact h.stop, ?_, ?_⟩, ?_⟩
  · rw [b1]; exact k1.kids.append hall hs hk hi hb
  · rw [b1]; exact k1.cle.append_open hs
  · unfold NE; rw [b1]; simp

theorem HeadRel.closeAppend (x : PExt) (src : Bytes) (e : Int) (child : PB) (b : PB)
    (hb : ¬ (b.label.stop < 0 ∧ b.label.kind = BK.paragraph)) : HeadRel b (closeAppend x src e child b) := by
  obtain ⟨_, b2, b3⟩ := closeAppend_blocks x src e child b
  exact ⟨by rw [b2], by rw [b2], fun h1 h2 => absurd ⟨h1, h2⟩ hb⟩

/-- Appending an inline child to the container. -/
def appendInl (t : Tree) : PB → PB
  | .mk l bs is => .mk l bs (is ++ [t])

theorem RootOK.appendInline {N P Q : Nat} {H : Int} {root : PB} (t : Tree) (d : Nat) (h : RootOK N P H root) (hPQ : P ≤ Q)
    (ht : d = 1 → ∀ c, root.blocks.getLast? = some c → c.label.stop < 0 → c.label.kind = BK.paragraph →
      (P : Int) ≤ t.label.start ∧ H ≤ t.label.start ∧ t.label.start ≤ t.label.stop ∧ t.label.stop ≤ (Q : Int)) :
    RootOK N Q H (spineModify (appendInl t) root d) ∧ (NE root → NE (spineModify (appendInl t) root d)) := by
  cases d with
  | zero =>
    rw [spineModify_zero]
    cases root with
    | mk l bs is => exact ⟨⟨h.kind, h.stop, h.kids.mono (Nat.le_refl _) hPQ, h.cle⟩, fun h => h⟩
  | succ d =>
    cases d with
    | zero =>
      cases root with
      | mk l bs is =>
        rw [spineModify_succ]
        cases hb : bs.getLast? with
        | none => exact ⟨⟨h.kind, h.stop, h.kids.mono (Nat.le_refl _) hPQ, h.cle⟩, fun h => h⟩
        | some c =>
          cases c with
          | mk cl cbs cis =>
            refine ⟨⟨h.kind, h.stop, ?_, ?_⟩, fun _ => by simp [NE, PB.blocks]⟩
            · exact h.kids.appendInline h.cle hb (ht rfl _ hb) hPQ
            · exact h.cle.modLast hb rfl
    | succ d =>
      have := h.deep (appendInl t) (d + 2) (by omega) (fun h' => by omega)
      exact ⟨this.1.mono (Nat.le_refl _) hPQ (Int.le_refl _), this.2.1⟩

/-- A label update that keeps `stop` and `kind`, at any depth. -/
theorem RootOK.setLabel {N P : Nat} {H : Int} {root : PB} (g : PLabel → PLabel) (hs : ∀ l, (g l).stop = l.stop)
    (hk : ∀ l, (g l).kind = l.kind) (d : Nat) (h : RootOK N P H root) :
    RootOK N P H (spineModify (PB.setLabel g) root d) ∧ (NE root → NE (spineModify (PB.setLabel g) root d)) := by
  cases d with
  | zero =>
    rw [spineModify_zero]
    cases root with
    | mk l bs is =>
      exact ⟨⟨by simp only [PB.setLabel, PB.label, hk]; exact h.kind, by simp only [PB.setLabel, PB.label, hs]; exact h.stop,
        h.kids, h.cle⟩, fun h => h⟩
  | succ d =>
    have := h.deep (PB.setLabel g) (d + 1) (by omega) (fun _ c _ => by
      cases c with
      | mk l bs is => exact ⟨hs l, hk l, fun _ _ => ⟨rfl, fun h => h⟩⟩)
    exact ⟨this.1, this.2.1⟩

/-- Modifying the last block child of the container by a function that keeps `stop`, `kind`, the inline and the
    block children (the `lastLineBlank` flag of `addLineText`). -/
theorem RootOK.modLastChild {N P : Nat} {H : Int} {root : PB} (g : PB → PB)
    (hg : ∀ c, HeadRel c (g c)) (d : Nat) (h : RootOK N P H root) :
    RootOK N P H (spineModify (replLast fun c => [g c]) root d) ∧
    (NE root → NE (spineModify (replLast fun c => [g c]) root d)) := by
  cases d with
  | zero =>
    rw [spineModify_zero]
    cases root with
    | mk l bs is =>
      simp only [replLast]
      cases hb : bs.getLast? with
      | none => exact ⟨h, fun h => h⟩
      | some c =>
        exact ⟨⟨h.kind, h.stop, h.kids.modLast hb (hg c), h.cle.modLast hb (hg c).stop⟩, fun _ => by simp [NE, PB.blocks]⟩
  | succ d =>
    have := h.deep (replLast fun c => [g c]) (d + 1) (by omega) (fun _ c _ => HeadRel.replLast _ c)
    exact ⟨this.1, this.2.1⟩

theorem RootOK.blankFlags {N P : Nat} {H : Int} {root : PB} (v : Bool) (d : Nat) (h : RootOK N P H root) :
    RootOK N P H (setBlankFlags v root d) ∧ (NE root → NE (setBlankFlags v root d)) := by
  cases root with
  | mk l bs is =>
    cases d with
    | zero => exact ⟨⟨h.kind, h.stop, h.kids, h.cle⟩, fun h => h⟩
    | succ d =>
      simp only [setBlankFlags]
      cases hb : bs.getLast? with
      | none => exact ⟨⟨h.kind, h.stop, h.kids, h.cle⟩, fun h => h⟩
      | some c =>
        have hr := HeadRel.setBlankFlags v d c
        exact ⟨⟨h.kind, h.stop, h.kids.modLast hb hr, h.cle.modLast hb hr.stop⟩, fun _ => by simp [NE, PB.blocks]⟩

end CM.Proofs
