import CM.Proofs.QuoteRdI
/-
C09, `onCloseParagraph` with `[` (10): fresh readers (`newReader nodes start`, as used for the children of a definition and
for its normalised label), `transformLinkReferenceSpan` (the same bytes on both sides) and `collectTextNodes` from a
fresh reader.
-/
namespace CM.Proofs.Quote
open CM CM.Model CM.Gen

variable {E : Env} {is is' : List Tree}

/-- The normalised form of `newReader is a` for a position inside the `k`-th node. -/
def nrd (is : List Tree) (k a : Nat) : Rd := { spans := is.drop k, pos := a }

theorem newReader_currentNode {src : Bytes} {is : List Tree} (hc : RDS.Ctx src is) {k a : Nat} {t : Tree}
    (g : is[k]? = some t) (h1 : t.label.start ≤ (a : Int)) (h2 : (a : Int) < t.label.stop) :
    (newReader is a).currentNode = (some t, nrd is k a) := by
  have hi := RDS.nodeIndex_of_drop hc k (drop_of_get g) h1 h2
  unfold Rd.currentNode newReader
  simp only [hi, drop_of_get g, List.head?_cons, nrd]

theorem nrd_RI {src : Bytes} {is : List Tree} {k a : Nat} {t : Tree}
    (g : is[k]? = some t) (h1 : t.label.start ≤ (a : Int)) (h2 : (a : Int) < t.label.stop) : RDS.RI src is (nrd is k a) := by
  refine ⟨⟨k, rfl⟩, ?_, ?_, ?_⟩
  · intro u rest e
    have e' : is.drop k = u :: rest := e
    rw [drop_of_get g] at e'
    cases e'
    exact ⟨h1, h2⟩
  · intro _ _ _ _
    show (0 : Nat) < 3
    omega
  · intro e
    have e' : is.drop k = [] := e
    rw [drop_of_get g] at e'
    cases e'

theorem nrd_currentNode {src : Bytes} {is : List Tree} (hc : RDS.Ctx src is) {k a : Nat} {t : Tree}
    (g : is[k]? = some t) (h1 : t.label.start ≤ (a : Int)) (h2 : (a : Int) < t.label.stop) :
    (nrd is k a).currentNode = (some t, nrd is k a) := by
  rw [RDS.currentNode_eq hc (nrd_RI g h1 h2)]
  show ((is.drop k).head?, _) = _
  rw [drop_of_get g]; rfl

/-- The two normalised fresh readers at corresponding live positions are related. -/
theorem nrd_RR (hc : PC E is is') {a a' : Nat} (h : LiveP is is' (a : Int) (a' : Int)) :
    ∃ k t t', is[k]? = some t ∧ is'[k]? = some t' ∧ t.label.start ≤ (a : Int) ∧ (a : Int) < t.label.stop ∧
      t'.label.start ≤ (a' : Int) ∧ (a' : Int) < t'.label.stop ∧ RR E is is' (nrd is k a) (nrd is' k a') := by
  obtain ⟨k, o, t, t', h1, h2, h3, h4, h5⟩ := h
  obtain ⟨t2, e, nr⟩ := hc.rel.getElem? h1
  rw [h2] at e; cases e
  have hl := nr.len
  refine ⟨k, t, t', h1, h2, by omega, by omega, by omega, by omega, ?_⟩
  refine ⟨nrd_RI h1 (by omega) (by omega), nrd_RI h2 (by omega) (by omega), ⟨k, rfl, rfl⟩, ?_, ?_⟩
  · intro u rest u' rest' e1 e2
    have e1' : is.drop k = u :: rest := e1
    have e2' : is'.drop k = u' :: rest' := e2
    rw [drop_of_get h1] at e1'
    rw [drop_of_get h2] at e2'
    cases e1'; cases e2'
    show (a' : Int) - _ = (a : Int) - _
    omega
  · intro e
    have e' : is.drop k = [] := e
    rw [drop_of_get h1] at e'
    cases e'

/-! ### `transformLinkReferenceSpan` -/

theorem refTextLoop_sim (hc : PC E is is') {stop stop' : Nat} (hst : PosP is is' (stop : Int) (stop' : Int)) :
    ∀ (f f' : Nat) (r r' : Rd) (inWs : Bool) (acc : Bytes), RR E is is' r r' →
    RDS.mu E.src r < f → RDS.mu E.src' r' < f' →
    refTextLoop E.src stop f r inWs acc = refTextLoop E.src' stop' f' r' inWs acc := by
  intro f
  induction f with
  | zero => intro f' r r' _ _ _ h; omega
  | succ f ih =>
    intro f' r r' inWs acc hr hm hm'
    obtain ⟨f', rfl⟩ : ∃ g, f' = g + 1 := ⟨f' - 1, by omega⟩
    have hlt := lt_stop_sides hc hr hst
    rw [refTextLoop, refTextLoop]
    by_cases hge : r.pos < stop
    · have hge' := hlt.mp hge
      simp only [hge, hge', decide_true, Bool.not_true, Bool.false_eq_true, if_false]
      have hlive : r.spans ≠ [] := by
        intro d1
        obtain ⟨t, t', g1, g2, p1, p2⟩ := hr.dead d1
        obtain ⟨l1, l2⟩ := hst.le_last hc g1 g2
        omega
      obtain ⟨c, e1, e2, _, _⟩ := current_sim hc hr (safe_of_live hlive)
      obtain ⟨b, r2, r2', n1, n2, hr2, _, hmu, _, _, _⟩ := next_sim hc hr
      simp only [e1, e2, n1, n2]
      cases b with
      | false => simp only [Bool.not_false, if_true]
      | true =>
        obtain ⟨m1, m2⟩ := hmu rfl
        simp only [Bool.not_true, Bool.false_eq_true, if_false]
        split
        · exact ih f' r2 r2' _ _ hr2 (by omega) (by omega)
        · exact ih f' r2 r2' _ _ hr2 (by omega) (by omega)
    · have hge' : ¬ r'.pos < stop' := fun hh => hge (hlt.mpr hh)
      simp only [hge, hge', decide_false, Bool.not_false, if_true]

theorem rdFuel_pos (src : Bytes) (is : List Tree) : ∃ g, rdFuel src is = g + 1 := ⟨rdFuel src is - 1, by unfold rdFuel; omega⟩

theorem refTextLoop_fresh {src : Bytes} {is : List Tree} (hc : RDS.Ctx src is) {k a : Nat} {t : Tree}
    (g : is[k]? = some t) (h1 : t.label.start ≤ (a : Int)) (h2 : (a : Int) < t.label.stop) (stop f : Nat) (inWs : Bool)
    (acc : Bytes) : refTextLoop src stop f (newReader is a) inWs acc = refTextLoop src stop f (nrd is k a) inWs acc := by
  cases f with
  | zero => rfl
  | succ f =>
    have e : (newReader is a).current src = (nrd is k a).current src := by
      have hlen := (hc.ok t (List.mem_of_getElem? g)).2.1
      unfold Rd.current
      rw [newReader_currentNode hc g h1 h2, nrd_currentNode hc g h1 h2,
        if_neg (by show ¬ a ≥ src.length; omega), if_neg (by show ¬ a ≥ src.length; omega)]
    rw [refTextLoop, refTextLoop, e]
    rfl

/-- **The normalised label** is the same on both sides. -/
theorem transform_sim (hc : PC E is is') (fold : Bytes → Bytes) {a a' stop stop' : Nat}
    (ha : LiveP is is' (a : Int) (a' : Int)) (hst : PosP is is' (stop : Int) (stop' : Int)) :
    transformLinkReferenceSpan fold E.src is a stop = transformLinkReferenceSpan fold E.src' is' a' stop' := by
  obtain ⟨k, t, t', g1, g2, b1, b2, b3, b4, hr⟩ := nrd_RR hc ha
  unfold transformLinkReferenceSpan
  rw [refTextLoop_fresh hc.c g1 b1 b2, refTextLoop_fresh hc.c' g2 b3 b4,
    refTextLoop_sim hc hst _ _ _ _ false [] hr (RDS.mu_lt_fuel hr.ri) (RDS.mu_lt_fuel hr.ri')]

/-! ### `collectTextNodes` from a fresh reader -/

theorem cTN_fresh (ext : Ext) {src : Bytes} {is : List Tree} (hc : RDS.Ctx src is) {k a : Nat} {t : Tree}
    (g : is[k]? = some t) (h1 : t.label.start ≤ (a : Int)) (h2 : (a : Int) < t.label.stop) (stop kind : Nat) (esc : Bool)
    (f ps : Nat) (acc : List Tree) :
    collectTextNodes ext src stop kind esc f (newReader is a) ps acc =
      collectTextNodes ext src stop kind esc f (nrd is k a) ps acc := by
  cases f with
  | zero => rw [collectTextNodes, collectTextNodes]
  | succ f =>
    rw [collectTextNodes, collectTextNodes, newReader_currentNode hc g h1 h2, nrd_currentNode hc g h1 h2]
    rfl

/-- **The children of a label, destination or title** have the same text on both sides. -/
theorem cTN_fresh_sim (hc : PC E is is') (ext : Ext) (kind : Nat) (esc : Bool) {a a' stop stop' : Nat}
    (ha : StartP is is' (a : Int) (a' : Int)) (hst : PosP is is' (stop : Int) (stop' : Int)) :
    flat E.src (collectTextNodes ext E.src stop kind esc (rdFuel E.src is) (newReader is a) a []) =
      flat E.src' (collectTextNodes ext E.src' stop' kind esc (rdFuel E.src' is') (newReader is' a') a' []) := by
  rcases ha with ha | ha
  · obtain ⟨k, t, t', g1, g2, b1, b2, b3, b4, hr⟩ := nrd_RR hc ha
    rw [cTN_fresh ext hc.c g1 b1 b2, cTN_fresh ext hc.c' g2 b3 b4]
    apply cTN_sim hc ext kind esc hst _ _ _ _ _ _ _ _ ⟨hr, ⟨Nat.le_refl _, Or.inr rfl⟩, ⟨Nat.le_refl _, Or.inr rfl⟩, ?_⟩
      (RDS.mu_lt_fuel hr.ri) (RDS.mu_lt_fuel hr.ri')
    show flat E.src [] ++ seg E.src a a = flat E.src' [] ++ seg E.src' a' a'
    rw [seg_self, seg_self]; rfl
  · -- at the end of the paragraph: nothing is collected
    obtain ⟨t, t', g1, g2, p1, p2⟩ := ha
    obtain ⟨l1, l2⟩ := hst.le_last hc g1 g2
    obtain ⟨g, hg⟩ := rdFuel_pos E.src is
    obtain ⟨g', hg'⟩ := rdFuel_pos E.src' is'
    rw [hg, hg', collectTextNodes, collectTextNodes]
    have c1 : ¬ (newReader is a).pos < stop := by show ¬ a < stop; omega
    have c2 : ¬ (newReader is' a').pos < stop' := by show ¬ a' < stop'; omega
    simp only [c1, c2, decide_false, Bool.not_false, if_true]
    rw [if_neg (by omega), if_neg (by omega)]
    rfl

end CM.Proofs.Quote
