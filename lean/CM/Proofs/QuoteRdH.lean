import CM.Proofs.QuoteRdG
/-
C09, `onCloseParagraph` with `[` (8): `collectTextNodes` on both sides — the step with escapes (backslash escapes and
character references) and the main induction: the collected children have the same concatenated text.
-/
namespace CM.Proofs.Quote
open CM CM.Model CM.Gen

variable {E : Env} {is is' : List Tree}

/-- From a byte other than a line feed, `next` stays in the node (or fails at the end of the last node). -/
theorem next_in_node (hc : PC E is is') {r r' : Rd} (hr : RR E is is' r r') {k o : Nat} {t t' : Tree}
    (hl : LiveAt E is is' r r' k o t t') (hb : E.src.getD r.pos 0 ≠ LF) :
    ∃ b r2 r2', r.next E.src = (b, r2) ∧ r'.next E.src' = (b, r2') ∧ RR E is is' r2 r2' ∧
      r2.prev = r.pos ∧ r2'.prev = r'.pos ∧ r2.pos = r.pos + 1 ∧ r2'.pos = r'.pos + 1 ∧
      (b = true → LiveAt E is is' r2 r2' k (o + 1) t t') ∧ (b = false → r2.spans = []) := by
  obtain ⟨b, r2, r2', n1, n2, hr2, p1, p2, hcase⟩ := next_live_sim hc hr hl
  refine ⟨b, r2, r2', n1, n2, hr2, p1, p2, ?_⟩
  rcases hcase with ⟨hb1, _, l2⟩ | ⟨_, hend, u, u', l2⟩ | ⟨hb1, _, _, hd, _, q1, q2⟩
  · have := l2.pos; have := l2.pos'; have := hl.pos; have := hl.pos'
    exact ⟨by omega, by omega, fun _ => l2, fun h => (by rw [hb1] at h; cases h)⟩
  · exfalso
    have := hc.lastLF hl.g l2.g
    have e : t.label.stop.toNat - 1 = r.pos := by
      have := hl.pos; have := hl.nn; omega
    rw [e] at this
    exact hb this
  · exact ⟨q1, q2, fun h => (by rw [hb1] at h; cases h), fun _ => hd⟩

/-- `n` times `next` inside a node. -/
theorem nextN_sim (hc : PC E is is') {k : Nat} {t t' : Tree} : ∀ (n : Nat) (r r' : Rd) (o : Nat), RR E is is' r r' →
    LiveAt E is is' r r' k o t t' → ((o + n : Nat) : Int) < t.label.stop - t.label.start →
    RR E is is' ((List.range n).foldl (fun r _ => (r.next E.src).2) r) ((List.range n).foldl (fun r _ => (r.next E.src').2) r') ∧
    LiveAt E is is' ((List.range n).foldl (fun r _ => (r.next E.src).2) r)
      ((List.range n).foldl (fun r _ => (r.next E.src').2) r') k (o + n) t t' ∧
    RDS.mu E.src ((List.range n).foldl (fun r _ => (r.next E.src).2) r) ≤ RDS.mu E.src r ∧
    RDS.mu E.src' ((List.range n).foldl (fun r _ => (r.next E.src').2) r') ≤ RDS.mu E.src' r' := by
  intro n
  induction n with
  | zero => intro r r' o hr hl _; exact ⟨hr, hl, Nat.le_refl _, Nat.le_refl _⟩
  | succ n ih =>
    intro r r' o hr hl hlt
    obtain ⟨a1, a2, a3, a4⟩ := ih r r' o hr hl (by omega)
    rw [List.range_succ, List.foldl_append, List.foldl_append]
    simp only [List.foldl_cons, List.foldl_nil]
    obtain ⟨b, r2, r2', n1, n2, hr2, _, _, hcase⟩ := next_live_sim hc a1 a2
    rw [n1, n2]
    rcases hcase with ⟨hb, _, l2⟩ | ⟨_, hend, _⟩ | ⟨_, hend, _⟩
    · subst hb
      have m1 := RDS.next_mu hc.c a1.ri n1
      have m2 := RDS.next_mu hc.c' a1.ri' n2
      exact ⟨hr2, l2, by show RDS.mu E.src r2 ≤ _; omega, by show RDS.mu E.src' r2' ≤ _; omega⟩
    · omega
    · omega

theorem mu_dead (src : Bytes) {r : Rd} (h : r.spans = []) : RDS.mu src r = 0 := by
  unfold RDS.mu; rw [h]

theorem remaining_live {src : Bytes} {is : List Tree} (hc : RDS.Ctx src is) {r : Rd} (h : RDS.RI src is r) {t : Tree}
    {rest : List Tree} (hs : r.spans = t :: rest) :
    r.remainingNodeBytes src = (seg src r.pos t.label.stop.toNat, r) := by
  unfold Rd.remainingNodeBytes
  rw [RDS.currentNode_eq hc h, hs]
  rfl

theorem RR.dead' (hc : PC E is is') {r r' : Rd} (hr : RR E is is' r r') (hd : r.spans = []) : r'.spans = [] := by
  rcases hr.cases hc with ⟨_, d2⟩ | ⟨k, o, t, t', hl⟩
  · exact d2
  · exact absurd hd hl.ne

theorem seg_length (src : Bytes) {a b : Nat} (h : b ≤ src.length) : (seg src a b).length = b - a := by
  unfold seg
  rw [List.length_take, List.length_drop]
  omega

theorem seg_getD (src : Bytes) {a b j : Nat} (hj : j < b - a) :
    (seg src a b).getD j 0 = src.getD (a + j) 0 := by
  unfold seg
  simp only [List.getD_eq_getElem?_getD, List.getElem?_take, List.getElem?_drop, hj, if_true]

/-- The text emitted before an escaped character. -/
theorem side_bs (src : Bytes) (kind : Nat) (acc : List Tree) {ps pos : Nat} (h : ps ≤ pos) :
    flat src (if ((pos : Nat) : Int) > ((ps : Nat) : Int) then acc ++ [mkInline kind ps pos] else acc) =
      flat src acc ++ seg src ps pos := by
  split
  · rw [flat_snoc]
    have e1 : ((ps : Nat) : Int).toNat = ps := by omega
    have e2 : ((pos : Nat) : Int).toNat = pos := by omega
    rw [e1, e2]
  · rw [seg_of_le src (by omega), List.append_nil]

/-- The text emitted for a character reference. -/
theorem side_ref (src : Bytes) (kind : Nat) (acc : List Tree) {ps pos : Nat} (e : Nat) (h : ps ≤ pos) :
    flat src ((if pos > ps then acc ++ [mkInline kind ps pos] else acc) ++ [mkInline IK.charRef pos ((pos : Int) + e)]) =
      flat src acc ++ seg src ps pos ++ seg src pos (pos + e) := by
  rw [flat_snoc]
  have e2 : ((pos : Nat) : Int).toNat = pos := by omega
  have e3 : ((pos : Int) + (e : Int)).toNat = pos + e := by omega
  rw [e2, e3]
  congr 1
  split
  · rw [flat_snoc]
    have e1 : ((ps : Nat) : Int).toNat = ps := by omega
    rw [e1, e2]
  · rw [seg_of_le src (by omega), List.append_nil]

end CM.Proofs.Quote
