import CM.Proofs.ReparseOpen
/-
C16, Layer B, part 5: the first `openBlock` of a line whose only top-level block `k0` is an open leaf block closes `k0`
at the start of the line, and the closed `k0` stays the first child of the document for the rest of the line.
-/
namespace CM.Proofs.Rp
open CM CM.Model CM.Gen CM.Proofs

/-- The kinds of blocks without block children that stay open from line to line. -/
def LeafK (k : Nat) : Prop := k = BK.paragraph ∨ k = BK.fencedCode ∨ k = BK.htmlBlock ∨ k = BK.indentedCode

theorem LeafK.canContain {k : Nat} (h : LeafK k) (kind : Nat) : canContain k kind = false := by
  rcases h with rfl | rfl | rfl | rfl <;> rfl

theorem LeafK.ne_list {k : Nat} (h : LeafK k) : k ≠ BK.list := by
  rcases h with rfl | rfl | rfl | rfl <;> decide

theorem LeafK.ne_doc {k : Nat} (h : LeafK k) : k ≠ BK.document := by
  rcases h with rfl | rfl | rfl | rfl <;> decide

theorem replLast_single (g : PB → List PB) (l : PLabel) (k0 : PB) (is : List Tree) :
    replLast g (.mk l [k0] is) = .mk l (g k0) is := by
  simp [replLast]

theorem root_single {root : PB} {k0 : PB} (h : root.blocks = [k0]) : ∃ l is, root = .mk l [k0] is := by
  cases root with
  | mk l bs is => simp only [PB.blocks] at h; subst h; exact ⟨l, is, rfl⟩

/-- **The first `openBlock` of the line.** The document has one child `k0`; the container is the document, or `k0`
    itself and `k0` cannot contain the new block. Then `k0` is replaced by the result of closing it at the start of the
    line, and the new block follows. -/
theorem openBlock_first (x : PExt) {am : Bool} {N : Nat} (q : LP) (k0 : PB) (kind : Nat) (attrs : PLabel → PLabel)
    (hla : LA am N q) (hb : q.root.blocks = [k0]) (hst : InOpen q.state) (hk : kind ≠ BK.listItem)
    (hd : q.depth = 0 ∨ (q.depth = 1 ∧ canContain k0.kind kind = false)) :
    ∃ child, (q.openBlock x kind attrs).root.blocks = closeBlock x q.source q.lineStart k0 ++ [child] := by
  rw [openBlock_eq x q kind attrs (notDesc_of_inOpen hst)]
  obtain ⟨m1, _, _⟩ := markMatched_frame q
  have hroot := hla.root
  have hcdoc : canContain BK.document kind = true := by
    unfold canContain; simp only [BK.document, BK.listItem] at hk ⊢; simpa using hk
  obtain ⟨l, is, hr⟩ := root_single hb
  rcases hd with hd | ⟨hd, hcc⟩
  · -- the container is the document
    have hck : q.markMatched.containerKind = BK.document := by
      rw [containerKind_of_cur m1, containerKind_depth0 hd]; exact hroot.kind
    have hloop : LP.openBlockLoop x kind (q.markMatched.depth + 1) q.markMatched = q.markMatched := by
      unfold LP.openBlockLoop; rw [hck, if_pos hcdoc]
    simp only [hloop]
    rw [m1.depth, hd, spineModify_zero, m1.root, m1.source, m1.lineStart]
    refine ⟨?_, ?_⟩
    case refine_2 =>
      rw [(closeAppend_blocks x _ _ _ _).1, hr, replLast_single]
      rfl
  · -- the container is `k0`: it is closed first
    have hlast : q.root.blocks.getLast? = some k0 := by rw [hb]; rfl
    have hck : q.markMatched.containerKind = k0.kind := by
      rw [containerKind_of_cur m1, containerKind_of_last hd hlast]; rfl
    have hd1 : q.markMatched.depth = 1 := by rw [m1.depth]; exact hd
    have hstep : LP.openBlockLoop x kind (q.markMatched.depth + 1) q.markMatched =
        LP.openBlockLoop x kind 1 (q.markMatched.closeContainer x q.markMatched.lineStart) := by
      rw [hd1]
      conv => lhs; unfold LP.openBlockLoop
      rw [hck, hcc]
      simp only [Bool.false_eq_true, if_false, hd1]
      rfl
    have hcc2 := closeContainer_eq x q.markMatched q.markMatched.lineStart (by rw [hd1]; decide)
    rw [hd1] at hcc2
    simp only [Nat.sub_self, spineModify_zero] at hcc2
    -- the root after closing `k0`
    have hclose := hroot.close0 x q.source (e := (q.lineStart : Int)) (Int.le_refl _)
      (by have := hla.cur; omega) (Int.le_refl _)
    obtain ⟨hr1, _, hlc⟩ := hclose
    have hck2 : (q.markMatched.closeContainer x q.markMatched.lineStart).containerKind = BK.document := by
      rw [hcc2]
      rw [containerKind_depth0 rfl]
      show (replLast _ q.markMatched.root).label.kind = _
      rw [(replLast_same _ _).1, m1.root]; exact hroot.kind
    have hloop2 : LP.openBlockLoop x kind 1 (q.markMatched.closeContainer x q.markMatched.lineStart) =
        q.markMatched.closeContainer x q.markMatched.lineStart := by
      unfold LP.openBlockLoop; rw [hck2, if_pos hcdoc]
    simp only [hstep, hloop2]
    rw [hcc2]
    simp only [spineModify_zero, m1.root, m1.source, m1.lineStart]
    refine ⟨?_, ?_⟩
    case refine_2 =>
      rw [(closeAppend_blocks x _ _ _ _).1, replLast_closed_id x _ _ _ hlc, hr, replLast_single]
      rfl

/-- After the first `openBlock`, the first block of the closed `k0` stays the first child of the document. -/
theorem opened_head (x : PExt) {am : Bool} {N : Nat} (q p' : LP) (k0 : PB) (kind : Nat) (attrs : PLabel → PLabel)
    (hla : LA am N q) (hb : q.root.blocks = [k0]) (hst : InOpen q.state) (hk : kind ≠ BK.listItem)
    (hd : q.depth = 0 ∨ (q.depth = 1 ∧ canContain k0.kind kind = false))
    (hlf : LF (q.openBlock x kind attrs) p') :
    ∃ h tl m', closeBlock x q.source q.lineStart k0 = h :: tl ∧ p'.root.blocks = h :: m' ∧ m' ≠ [] := by
  obtain ⟨child, hob⟩ := openBlock_first x q k0 kind attrs hla hb hst hk hd
  obtain ⟨h, tl, hK, _⟩ := closeBlock_head x q.source q.lineStart k0
  have hdoc : (q.openBlock x kind attrs).root.label.kind = BK.document := by
    have := (lf_openBlock x kind attrs (LF.refl q)) hla.root.kind
    rw [this.kind]; exact hla.root.kind
  have hrf := hlf hdoc
  obtain ⟨h', m', e', f', _⟩ := hrf.head h (tl ++ [child]) (by rw [hob, hK]; rfl)
  obtain ⟨e1, e2⟩ := f' (by simp)
  exact ⟨h, tl, m', hK, by rw [e', e1], e2⟩

end CM.Proofs.Rp
