import CM.Proofs.BlocksTotal
import CM.Proofs.StreamLines
/-
C06 (block piece), helper: byte-level facts — the recognizers on an opening fence line, the closing-fence test,
line lengths of lines without CR / LF.
-/
namespace CM.Proofs
open CM CM.Model CM.Gen
open CM.Proofs.BT

/-- No LF, CR or NUL. -/
def plainLine (l : Bytes) : Bool := l.all fun b => b != LF && b != CR && b != 0

/-- `l` is a closing fence for a block opened with `n` characters `c`: up to 3 spaces, at least `n` characters `c`,
    then only spaces and tabs. -/
def closesFence (c : UInt8) (n : Nat) (l : Bytes) : Bool :=
  (List.range 4).any fun k =>
    l.take k == List.replicate k SP &&
      (let r := l.drop k
       decide (n ≤ countPrefix c r) && (r.drop (countPrefix c r)).all fun b => b == SP || b == TAB)

/-- The info string of an opening fence: no LF/CR/NUL, does not start with a space, a tab or the fence character,
    does not end with a space or tab, and contains no backtick when the fence is made of backticks. -/
def infoOK (c : UInt8) (info : Bytes) : Bool :=
  plainLine info &&
    (match info.head? with | some b => b != SP && b != TAB && b != c | none => true) &&
    (match info.getLast? with | some b => b != SP && b != TAB | none => true) &&
    (c != 0x60 || !info.any (· == 0x60))

def isFenceChar (c : UInt8) : Bool := c == 0x60 || c == 0x7E

theorem plainLine_mem {l : Bytes} (h : plainLine l = true) {b : UInt8} (hb : b ∈ l) : b ≠ LF ∧ b ≠ CR ∧ b ≠ 0 := by
  have := List.all_eq_true.mp h b hb
  simp at this
  exact ⟨this.1.1, this.1.2, this.2⟩

theorem plainLine_append {a b : Bytes} : plainLine (a ++ b) = (plainLine a && plainLine b) := by
  simp [plainLine]

theorem plainLine_replicate {c : UInt8} (n : Nat) (h1 : c ≠ LF) (h2 : c ≠ CR) (h3 : c ≠ 0) : plainLine (List.replicate n c) = true := by
  simp [plainLine, h1, h2, h3]

/-! ### countPrefix -/

theorem countPrefix_replicate_append (c : UInt8) (n : Nat) (r : Bytes) :
    countPrefix c (List.replicate n c ++ r) = n + countPrefix c r := by
  induction n with
  | zero => simp
  | succ n ih => simp [List.replicate_succ, countPrefix, ih]; omega

theorem countPrefix_of_head_ne (c : UInt8) (r : Bytes) (h : r.head? ≠ some c) : countPrefix c r = 0 := by
  cases r with
  | nil => rfl
  | cons b r => simp at h; simp [countPrefix, h]

/-! ### lines without CR / LF -/

theorem lineLen_plain (l rest : Bytes) (h : plainLine l = true) : lineLen (l ++ LF :: rest) = l.length + 1 := by
  induction l with
  | nil => simp [lineLen_LF]
  | cons b l ih =>
    have hb := plainLine_mem h (List.mem_cons_self)
    have hl : plainLine l = true := by simp [plainLine] at h ⊢; exact h.2
    rw [List.cons_append, lineLen_other hb.1 hb.2.1, ih hl]; simp

theorem hasBytePrefix_self_append (a b : Bytes) : hasBytePrefix (a ++ b) a = true := by
  induction a with
  | nil => cases b <;> rfl
  | cons c a ih => simp [hasBytePrefix, ih]

theorem hasByteSuffix_LF (l : Bytes) : hasByteSuffix (l ++ [LF]) [LF] = true := by
  simp [hasByteSuffix, hasBytePrefix]

/-! ### parseCodeFence on a line that starts with a run of fence characters -/

theorem parseCodeFence_run (line : Bytes) (c : UInt8) (n : Nat) (hh : line.head? = some c) (hc : isFenceChar c = true)
    (hcp : countPrefix c line = n) (hn : 3 ≤ n) :
    parseCodeFence line = match firstNonSpace (line.drop n) n with
      | none => ⟨c, n, -1, -1⟩
      | some s =>
        let e := trimEnd line s line.length
        if c == 0x60 && ((line.drop s).take (e - s)).any (· == 0x60) then noFence else ⟨c, n, s, e⟩ := by
  cases line with
  | nil => simp at hh
  | cons b rest =>
    simp only [List.head?_cons, Option.some.injEq] at hh
    subst hh
    have hlen := countPrefix_le b (b :: rest)
    have h1 : ¬ ((b :: rest).length < minConsecutive) := by simp only [minConsecutive]; omega
    have h2 : (b != 0x60 && b != 0x7E) = false := by
      simp only [isFenceChar, Bool.or_eq_true, beq_iff_eq] at hc
      rcases hc with h | h <;> subst h <;> decide
    have h3 : ¬ (n < minConsecutive) := by simp only [minConsecutive]; omega
    unfold parseCodeFence
    simp only [h1, h2, h3, hcp, Bool.or_false, decide_false, Bool.false_eq_true, if_false]
    cases firstNonSpace (List.drop n (b :: rest)) n <;> rfl

theorem isWs_LF : isSpaceTabOrLineEnding LF = true := by decide

theorem not_ws_of (b : UInt8) (h1 : b ≠ SP) (h2 : b ≠ TAB) (h3 : b ≠ LF) (h4 : b ≠ CR) : isSpaceTabOrLineEnding b = false := by
  have : ∀ b : UInt8, b ≠ SP → b ≠ TAB → b ≠ LF → b ≠ CR → isSpaceTabOrLineEnding b = false := by
    apply forall_uint8; decide +kernel
  exact this b h1 h2 h3 h4

/-- The opening fence line `fence ++ info ++ "\n"`. -/
def fenceLine (c : UInt8) (n : Nat) (info : Bytes) : Bytes := List.replicate n c ++ info ++ [LF]

theorem fenceLine_length (c : UInt8) (n : Nat) (info : Bytes) : (fenceLine c n info).length = n + info.length + 1 := by
  simp [fenceLine]; omega

theorem fenceLine_head (c : UInt8) (n : Nat) (info : Bytes) (hn : 3 ≤ n) : (fenceLine c n info).head? = some c := by
  obtain ⟨m, rfl⟩ : ∃ m, n = m + 1 := ⟨n - 1, by omega⟩
  simp [fenceLine, List.replicate_succ]

theorem fence_ne_LF {c : UInt8} (hc : isFenceChar c = true) : c ≠ LF ∧ c ≠ CR ∧ c ≠ 0 ∧ c ≠ SP ∧ c ≠ TAB ∧ c ≠ 0x3E ∧ c ≠ 0x23 := by
  simp only [isFenceChar, Bool.or_eq_true, beq_iff_eq] at hc
  rcases hc with h | h <;> subst h <;> decide

theorem infoOK_head {c : UInt8} {b : UInt8} {info : Bytes} (h : infoOK c (b :: info) = true) :
    b ≠ SP ∧ b ≠ TAB ∧ b ≠ c ∧ b ≠ LF ∧ b ≠ CR := by
  simp only [infoOK, List.head?_cons, Bool.and_eq_true, bne_iff_ne, ne_eq] at h
  have := plainLine_mem h.1.1.1 (List.mem_cons_self (a := b) (l := info))
  exact ⟨h.1.1.2.1.1, h.1.1.2.1.2, h.1.1.2.2, this.1, this.2.1⟩

theorem fenceLine_countPrefix (c : UInt8) (n : Nat) (info : Bytes) (hc : isFenceChar c = true) (hi : infoOK c info = true) :
    countPrefix c (fenceLine c n info) = n := by
  rw [fenceLine, List.append_assoc, countPrefix_replicate_append, countPrefix_of_head_ne]
  · rfl
  · cases info with
    | nil => simp; exact fun h => (fence_ne_LF hc).1 h.symm
    | cons b info => simp; exact fun h => (infoOK_head hi).2.2.1 h

/-- What `parseCodeFence` returns on the opening fence line. -/
def fenceRes (c : UInt8) (n : Nat) (info : Bytes) : CodeFence :=
  if info = [] then ⟨c, n, -1, -1⟩ else ⟨c, n, (n : Nat), ((n + info.length : Nat) : Int)⟩

theorem firstNonSpace_head (b : UInt8) (r : Bytes) (i : Nat) (h : isSpaceTabOrLineEnding b = false) :
    firstNonSpace (b :: r) i = some i := by
  simp [firstNonSpace, h]

theorem infoOK_last {c : UInt8} {info : Bytes} (h : infoOK c info = true) {b : UInt8} (hb : info.getLast? = some b) :
    isSpaceTabOrLineEnding b = false := by
  simp only [infoOK, Bool.and_eq_true] at h
  have hm : b ∈ info := List.mem_of_getLast? hb
  have hp := plainLine_mem h.1.1.1 hm
  have h2 := h.1.2
  rw [hb] at h2
  simp only [Bool.and_eq_true, bne_iff_ne, ne_eq] at h2
  exact not_ws_of b h2.1 h2.2 hp.1 hp.2.1

theorem parseCodeFence_fenceLine (c : UInt8) (n : Nat) (info : Bytes) (hc : isFenceChar c = true) (hn : 3 ≤ n)
    (hi : infoOK c info = true) : parseCodeFence (fenceLine c n info) = fenceRes c n info := by
  rw [parseCodeFence_run _ c n (fenceLine_head c n info hn) hc (fenceLine_countPrefix c n info hc hi) hn]
  have hd : (fenceLine c n info).drop n = info ++ [LF] := by
    simp [fenceLine]
  rw [hd]
  cases info with
  | nil => simp [firstNonSpace, isWs_LF, fenceRes]
  | cons b rest =>
    have hb := infoOK_head hi
    have hnw : isSpaceTabOrLineEnding b = false := not_ws_of b hb.1 hb.2.1 hb.2.2.2.1 hb.2.2.2.2
    rw [List.cons_append, firstNonSpace_head _ _ _ hnw]
    simp only [fenceRes, reduceCtorEq, if_false]
    -- the trim
    generalize hinfo : b :: rest = info at *
    have hm : 1 ≤ info.length := by rw [← hinfo]; simp
    have hlen : (fenceLine c n info).length = (n + info.length) + 1 := fenceLine_length _ _ _
    have hlast : (fenceLine c n info)[n + info.length]? = some LF := by
      have : n + info.length = (List.replicate n c ++ info).length := by simp
      rw [fenceLine, this, List.getElem?_concat_length]
    obtain ⟨z, hz⟩ : ∃ z, info.getLast? = some z := by
      rw [← hinfo]; exact ⟨_, List.getLast?_eq_some_getLast (by simp)⟩
    have hprev : (fenceLine c n info)[n + info.length - 1]? = some z := by
      rw [fenceLine, List.getElem?_append_left (by simp; omega), List.getElem?_append_right (by simp; omega)]
      rw [← hz, List.getLast?_eq_getElem?]
      congr 1; simp; omega
    have hzw := infoOK_last hi hz
    have htrim : trimEnd (fenceLine c n info) n (fenceLine c n info).length = n + info.length := by
      rw [hlen, trimEnd]
      simp only [show ¬ (n + info.length + 1 ≤ n) by omega, if_false, hlast, isWs_LF, Bool.not_true, Bool.false_eq_true]
      obtain ⟨k, hk⟩ : ∃ k, n + info.length = k + 1 := ⟨n + info.length - 1, by omega⟩
      rw [hk, trimEnd]
      have hk' : k = n + info.length - 1 := by omega
      have hprev' : (fenceLine c n info)[k]? = some z := by rw [hk']; exact hprev
      simp only [show ¬ (k + 1 ≤ n) by omega, if_false, hprev', hzw, Bool.not_false, if_true]
    simp only [htrim, Nat.add_sub_cancel_left]
    have htk : ((fenceLine c n info).drop n).take info.length = info := by
      rw [hd]; simp
    rw [htk]
    have hbt : (c == 0x60 && info.any (· == 0x60)) = false := by
      simp only [infoOK, Bool.and_eq_true] at hi
      have := hi.2
      cases h1 : (c == 0x60) <;> simp_all
    simp only [hbt, Bool.false_eq_true, if_false]

/-! ### the closing-fence test on a whole line -/

/-- The closing-fence test of `ruleMatch` for a fenced code block, as a function of the line (cursor at column 0). -/
def lineClosing (c : UInt8) (n : Nat) (line : Bytes) : Bool :=
  decide (wsWidth 0 line < codeBlockIndentLimit) &&
    (let f := parseCodeFence (line.drop (indentLength line))
     decide (f.n > 0) && !(decide (f.infoStart ≥ 0) && decide (f.infoEnd ≥ 0) && decide (f.infoStart ≤ f.infoEnd))
       && f.char == c && decide ((f.n : Int) ≥ (n : Int)))

/-- Fewer than 4 columns of leading white space: it consists of at most 3 spaces. -/
theorem ws_small : ∀ (l : Bytes) (col : Nat), col + wsWidth col l < 4 →
    l.take (indentLength l) = List.replicate (indentLength l) SP ∧ col + indentLength l < 4 := by
  intro l
  induction l with
  | nil => intro col h; simp [indentLength]; simpa [wsWidth_nil] using h
  | cons b r ih =>
    intro col h
    by_cases h1 : b = SP
    · subst h1
      rw [wsWidth_sp] at h
      have := ih (col + 1) (by omega)
      rw [indentLength_sp, Nat.add_comm 1, List.take_succ_cons, List.replicate_succ, this.1]
      exact ⟨rfl, by omega⟩
    · by_cases h2 : b = TAB
      · subst h2
        rw [wsWidth_tab, columnWidth_tab] at h
        omega
      · rw [indentLength_other b r h1 h2]; simp; rw [wsWidth_other col b r h1 h2] at h; omega

theorem firstNonSpace_none : ∀ (l : Bytes) (i : Nat), firstNonSpace l i = none → ∀ b ∈ l, isSpaceTabOrLineEnding b = true := by
  intro l
  induction l with
  | nil => intro i _ b hb; simp at hb
  | cons a r ih =>
    intro i h b hb
    unfold firstNonSpace at h
    split at h
    · simp at h
    · rename_i ha
      simp only [Bool.not_eq_true', Bool.not_eq_false] at ha
      rcases List.mem_cons.mp hb with hb | hb
      · subst hb; simpa using ha
      · exact ih (i + 1) h b hb

theorem trimEnd_ge (line : Bytes) (start : Nat) : ∀ n : Nat, start ≤ n → start ≤ trimEnd line start n := by
  intro n
  induction n with
  | zero => intro h; simp [trimEnd]; omega
  | succ e ih =>
    intro h
    unfold trimEnd
    split
    · omega
    · split
      · omega
      · split
        · omega
        · exact ih (by omega)

/-- What a successful `parseCodeFence` says about the line. -/
theorem parseCodeFence_pos (r : Bytes) (h : (parseCodeFence r).n > 0) :
    r.head? = some (parseCodeFence r).char ∧ (parseCodeFence r).n = countPrefix (parseCodeFence r).char r ∧
    ((parseCodeFence r).infoStart < 0 → ∀ b ∈ r.drop (parseCodeFence r).n, isSpaceTabOrLineEnding b = true) ∧
    (0 ≤ (parseCodeFence r).infoStart → 0 ≤ (parseCodeFence r).infoEnd ∧ (parseCodeFence r).infoStart ≤ (parseCodeFence r).infoEnd) := by
  unfold parseCodeFence at h ⊢
  split
  · simp [noFence] at h
  · rename_i c rest
    simp only [] at h ⊢
    split
    · rename_i hh; rw [if_pos hh] at h; simp [noFence] at h
    · rename_i hh; rw [if_neg hh] at h
      split
      · rename_i hh2; rw [if_pos hh2] at h; simp [noFence] at h
      · rename_i hh2; rw [if_neg hh2] at h
        generalize hN : countPrefix c (c :: rest) = n at *
        split
        · rename_i hnone
          refine ⟨rfl, hN.symm, fun _ => firstNonSpace_none _ _ hnone, fun h0 => ?_⟩
          simp at h0
        · rename_i s hs
          have fb := firstNonSpace_bound _ _ _ hs
          obtain ⟨f1, f2, f3⟩ := fb
          simp only [List.length_drop] at f2
          split
          · rename_i hh3; rw [hs] at h; simp only [] at h; rw [if_pos hh3] at h; simp [noFence] at h
          · refine ⟨rfl, hN.symm, fun h0 => ?_, fun _ => ⟨Int.natCast_nonneg _, ?_⟩⟩
            · simp only at h0; omega
            · have := trimEnd_ge (c :: rest) s (c :: rest).length (by omega)
              simp only; omega

theorem indentLength_append_LF (l : Bytes) : indentLength (l ++ [LF]) = indentLength l := by
  induction l with
  | nil => simp [indentLength]; decide
  | cons b r ih => simp only [List.cons_append, indentLength, ih]

theorem wsWidth_append_LF (l : Bytes) (col : Nat) : wsWidth col (l ++ [LF]) = wsWidth col l := by
  rw [wsWidth, wsWidth, indentLength_append_LF, List.take_append_of_le_length (indentLength_le l)]

theorem countPrefix_append_ne (c d : UInt8) (h : d ≠ c) (r : Bytes) : countPrefix c (r ++ [d]) = countPrefix c r := by
  induction r with
  | nil => simp [countPrefix, h]
  | cons b r ih => simp only [List.cons_append, countPrefix, ih]

theorem ws_plain_spTab : ∀ b : UInt8, isSpaceTabOrLineEnding b = true → b ≠ LF → b ≠ CR → (b == SP || b == TAB) = true := by
  apply forall_uint8; decide +kernel

/-- The model's closing test on `l ++ "\n"` implies the specification's `closesFence`. -/
theorem closesFence_of_lineClosing (c : UInt8) (n : Nat) (l : Bytes) (hc : isFenceChar c = true) (_hn : 3 ≤ n)
    (hl : plainLine l = true) (h : lineClosing c n (l ++ [LF]) = true) : closesFence c n l = true := by
  simp only [lineClosing, Bool.and_eq_true, decide_eq_true_eq, Bool.not_eq_true', beq_iff_eq, codeBlockIndentLimit] at h
  obtain ⟨hw, ⟨⟨⟨hpos, hinfo⟩, hch⟩, hge⟩⟩ := h
  rw [wsWidth_append_LF] at hw
  rw [indentLength_append_LF] at hpos hinfo hch hge
  have hws := ws_small l 0 (by rw [Nat.zero_add]; exact of_decide_eq_true hw)
  have hwl := indentLength_le l
  generalize hw' : indentLength l = w at *
  have hdrop : (l ++ [LF]).drop w = l.drop w ++ [LF] := by
    rw [List.drop_append_of_le_length hwl]
  rw [hdrop] at hpos hinfo hch hge
  have pp := parseCodeFence_pos _ hpos
  generalize hf : parseCodeFence (l.drop w ++ [LF]) = f at *
  obtain ⟨_, p2, p3, p4⟩ := pp
  have hneg : f.infoStart < 0 := by
    by_cases h0 : 0 ≤ f.infoStart
    · have := p4 h0
      simp [h0, this.1, this.2] at hinfo
    · omega
  have hall := p3 hneg
  rw [hch] at p2
  have hcnt : countPrefix c (l.drop w ++ [LF]) = countPrefix c (l.drop w) :=
    countPrefix_append_ne c LF (fun h => (fence_ne_LF hc).1 h.symm) _
  rw [hcnt] at p2
  have hcl := countPrefix_le c (l.drop w)
  rw [p2, List.drop_append_of_le_length hcl] at hall
  have hge' : n ≤ countPrefix c (l.drop w) := by rw [p2] at hge; omega
  simp only [closesFence, List.any_eq_true, List.mem_range, Bool.and_eq_true, beq_iff_eq, decide_eq_true_eq, List.all_eq_true]
  refine ⟨w, by omega, hws.1, hge', fun b hb => ?_⟩
  have hbl : b ∈ l := List.mem_of_mem_drop (List.mem_of_mem_drop hb)
  have hp := plainLine_mem hl hbl
  exact ws_plain_spTab b (hall b (List.mem_append_left _ hb)) hp.1 hp.2.1

theorem infoOK_nil (c : UInt8) : infoOK c [] = true := by
  simp [infoOK, plainLine]

/-- The closing fence line itself passes the model's test. -/
theorem lineClosing_fence (c : UInt8) (n : Nat) (hc : isFenceChar c = true) (hn : 3 ≤ n) :
    lineClosing c n (fenceLine c n []) = true := by
  have hh := fenceLine_head c n [] hn
  obtain ⟨rest, hr⟩ : ∃ rest, fenceLine c n [] = c :: rest := by
    cases h : fenceLine c n [] with
    | nil => rw [h] at hh; simp at hh
    | cons b rest => rw [h] at hh; simp at hh; exact ⟨rest, by rw [hh]⟩
  have hne := fence_ne_LF hc
  have hw : wsWidth 0 (fenceLine c n []) = 0 := by rw [hr]; exact wsWidth_other 0 c rest hne.2.2.2.1 hne.2.2.2.2.1
  have hil : indentLength (fenceLine c n []) = 0 := by rw [hr]; exact indentLength_other c rest hne.2.2.2.1 hne.2.2.2.2.1
  simp only [lineClosing, hw, hil, List.drop_zero, parseCodeFence_fenceLine c n [] hc hn (infoOK_nil c), fenceRes, if_true]
  simp [codeBlockIndentLimit]
  omega

/-! ### the specification's `closesFence` is exactly the model's closing test -/

theorem firstNonSpace_all_ws : ∀ (l : Bytes) (i : Nat), (∀ b ∈ l, isSpaceTabOrLineEnding b = true) → firstNonSpace l i = none := by
  intro l
  induction l with
  | nil => intro i _; rfl
  | cons a r ih =>
    intro i h
    have ha := h a List.mem_cons_self
    simp only [firstNonSpace, ha, Bool.not_true, Bool.false_eq_true, if_false]
    exact ih (i + 1) (fun b hb => h b (List.mem_cons_of_mem _ hb))

theorem head_of_countPrefix_pos (c : UInt8) (r : Bytes) (h : 0 < countPrefix c r) : r.head? = some c := by
  cases r with
  | nil => simp [countPrefix] at h
  | cons b r =>
    by_cases hb : b = c
    · simp [hb]
    · simp [countPrefix, hb] at h

theorem indentLength_replicate_sp (k : Nat) (rest : Bytes) : indentLength (List.replicate k SP ++ rest) = k + indentLength rest := by
  induction k with
  | zero => simp
  | succ k ih => rw [List.replicate_succ, List.cons_append, indentLength_sp, ih]; omega

theorem wsWidth_replicate_sp' : ∀ (m col : Nat) (r : Bytes),
    wsWidth col (List.replicate m SP ++ r) = m + wsWidth (col + m) r := by
  intro m
  induction m with
  | zero => intro col r; simp
  | succ m ih =>
    intro col r
    rw [List.replicate_succ, List.cons_append, wsWidth_sp, ih]
    rw [show col + 1 + m = col + (m + 1) by omega]; omega

theorem spTab_ws : ∀ b : UInt8, (b == SP || b == TAB) = true → isSpaceTabOrLineEnding b = true := by
  apply forall_uint8; decide +kernel

/-- `closesFence` implies the model's closing test. -/
theorem lineClosing_of_closesFence (c : UInt8) (n : Nat) (l : Bytes) (hc : isFenceChar c = true) (hn : 3 ≤ n)
    (h : closesFence c n l = true) : lineClosing c n (l ++ [LF]) = true := by
  simp only [closesFence, List.any_eq_true, List.mem_range, Bool.and_eq_true, beq_iff_eq, decide_eq_true_eq, List.all_eq_true] at h
  obtain ⟨k, hk4, htake, hcnt, hall⟩ := h
  have hne := fence_ne_LF hc
  have hhead := head_of_countPrefix_pos c (l.drop k) (by omega)
  obtain ⟨r', hr'⟩ : ∃ r', l.drop k = c :: r' := by
    cases hd : l.drop k with
    | nil => rw [hd] at hhead; simp at hhead
    | cons b r' => rw [hd] at hhead; simp at hhead; exact ⟨r', by rw [hhead]⟩
  have hl : l = List.replicate k SP ++ c :: r' := by rw [← htake, ← hr', List.take_append_drop]
  have hline : l ++ [LF] = List.replicate k SP ++ (c :: (r' ++ [LF])) := by rw [hl]; simp
  have hil : indentLength (l ++ [LF]) = k := by
    rw [hline, indentLength_replicate_sp, indentLength_other c _ hne.2.2.2.1 hne.2.2.2.2.1]; rfl
  have hww : wsWidth 0 (l ++ [LF]) = k := by
    rw [hline, wsWidth_replicate_sp', wsWidth_other _ c _ hne.2.2.2.1 hne.2.2.2.2.1]; rfl
  have hdrop : (l ++ [LF]).drop k = l.drop k ++ [LF] := by
    rw [hline, List.drop_left' (by simp), hr']; rfl
  have hcp : countPrefix c (l.drop k ++ [LF]) = countPrefix c (l.drop k) :=
    countPrefix_append_ne c LF (fun h => hne.1 h.symm) _
  generalize hm : countPrefix c (l.drop k) = m at *
  have hml : m ≤ (l.drop k).length := by rw [← hm]; exact countPrefix_le c _
  have hpf : parseCodeFence (l.drop k ++ [LF]) = ⟨c, m, -1, -1⟩ := by
    rw [parseCodeFence_run _ c m (by rw [hr']; rfl) hc hcp (by omega), List.drop_append_of_le_length hml,
      firstNonSpace_all_ws]
    intro b hb
    rcases List.mem_append.mp hb with hb | hb
    · exact spTab_ws b (hall b hb)
    · simp at hb; subst hb; exact isWs_LF
  simp only [lineClosing, hww, hil, hdrop, hpf, codeBlockIndentLimit]
  have h1 : ((m : Nat) : Int) ≥ (n : Int) := by omega
  simp [hk4, h1]
  omega

/-- On a line without CR / LF, the closing test of the model (`ruleMatch` for FencedCode) is `closesFence`. -/
theorem lineClosing_eq_closesFence (c : UInt8) (n : Nat) (l : Bytes) (hc : isFenceChar c = true) (hn : 3 ≤ n)
    (hl : plainLine l = true) : lineClosing c n (l ++ [LF]) = closesFence c n l := by
  cases h1 : closesFence c n l with
  | true => exact lineClosing_of_closesFence c n l hc hn h1
  | false =>
    cases h2 : lineClosing c n (l ++ [LF]) with
    | false => rfl
    | true => rw [closesFence_of_lineClosing c n l hc hn hl h2] at h1; cases h1
