import CM.Proofs.BlocksWellStarts
/-
`startListItem` and `startSetext`.
-/
namespace CM.Proofs
open CM CM.Model CM.Gen

/-- The line is in progress and the document has children. -/
structure Run (am : Bool) (N : Nat) (q : LP) : Prop where
  la : LA am N q
  ne : NE q.root

theorem Run.cur {am : Bool} {N : Nat} {q q' : LP} (h : Run am N q) (f : CurFrame q q') : Run am N q' :=
  ⟨h.la.of_frame f, by rw [f.root]; exact h.ne⟩

theorem Run.setIndent {am : Bool} {N : Nat} {q : LP} (n : Int) (h : Run am N q) :
    Run am N (q.setContainerIndent n) ∧ (q.setContainerIndent n).state = q.state := by
  obtain ⟨c1, c2, _, _, c5⟩ := setContainerIndent_LA n h.la
  exact ⟨⟨c1, c2 h.ne⟩, c5⟩

theorem StartOK.of_run {am : Bool} {N : Nat} {p q : LP} (h : Run am N q)
    (hs : InOpen q.state ∨ q.state = stateLineConsumed) : StartOK am N p q :=
  ⟨Or.inl ⟨h.la, hs⟩, fun _ => h.ne, Or.inr h.ne⟩

theorem startListItem_ok {am : Bool} {N : Nat} {p : LP} (x : PExt) (h : LA am N p) (hs : InOpen p.state) :
    StartOK am N p (startListItem x p) := by
  unfold startListItem
  simp only
  split
  · exact StartOK.self h hs
  · split
    · exact StartOK.self h hs
    · split
      · exact StartOK.self h hs
      · obtain ⟨c1, c2⟩ := consumeIndentN_frame p p.indent
        have h0 := h.of_frame c1
        have hs0 := c2.inOpen hs
        generalize p.consumeIndentN p.indent = p0 at h0 hs0
        -- the optional list
        have step1 : ∀ (b : Bool),
            LA am N (if b = true then
              p0.openBlock x BK.list (fun l => { l with char := (parseListMarker p.bytesAfterIndent).delim }) else p0) ∧
            InOpen (if b = true then
              p0.openBlock x BK.list (fun l => { l with char := (parseListMarker p.bytesAfterIndent).delim }) else p0).state := by
          intro b
          cases b
          · simp only [Bool.false_eq_true, if_false]; exact ⟨h0, hs0⟩
          · obtain ⟨o1, _, o3⟩ := Op.openBlock x BK.list (fun l => { l with char := (parseListMarker p.bytesAfterIndent).delim })
              h0 hs0 (by decide) (by decide) (fun _ => ⟨rfl, rfl⟩)
            simp only [if_true]
            exact ⟨o1.la, by rw [o3]; exact Or.inr rfl⟩
        obtain ⟨h1, hs1⟩ := step1 (p0.containerKind != BK.list ||
              (if p0.containerKind != BK.list && p0.containerKind != BK.listItem then 0 else p0.container.label.char) !=
                (parseListMarker p.bytesAfterIndent).delim)
        generalize (if (p0.containerKind != BK.list ||
              (if p0.containerKind != BK.list && p0.containerKind != BK.listItem then 0 else p0.container.label.char) !=
                (parseListMarker p.bytesAfterIndent).delim) = true then
              p0.openBlock x BK.list (fun l => { l with char := (parseListMarker p.bytesAfterIndent).delim }) else p0) = p1
          at h1 hs1
        -- the item
        obtain ⟨o1, _, o3⟩ := Op.openBlock x BK.listItem (fun l => { l with char := (parseListMarker p.bytesAfterIndent).delim })
          h1 hs1 (by decide) (by decide) (fun _ => ⟨rfl, rfl⟩)
        generalize p1.openBlock x BK.listItem (fun l => { l with char := (parseListMarker p.bytesAfterIndent).delim }) = p2
          at o1 o3
        -- the marker: one level below the item
        have hs2 : InOpen p2.state := by rw [o3]; exact Or.inr rfl
        obtain ⟨m1, _, m3⟩ := Op.openBlock x BK.listMarker id o1.la hs2 (by decide) (by decide) (fun _ => ⟨rfl, rfl⟩)
        have hd3 : (p2.openBlock x BK.listMarker).depth = p2.depth + 1 :=
          openBlock_depth x p2 BK.listMarker id (notDesc_of_inOpen hs2) (by rw [o1.ck]; decide)
        generalize p2.openBlock x BK.listMarker = p3 at m1 m3 hd3
        obtain ⟨a1, a2⟩ := advance_frame p3 (parseListMarker p.bytesAfterIndent).stop.toNat
        have m4 := m1.cur a1
        have hs4 : InOpen (p3.advance (parseListMarker p.bytesAfterIndent).stop.toNat).state :=
          a2.inOpen (by rw [m3]; exact Or.inr rfl)
        have hd4 : 2 ≤ (p3.advance (parseListMarker p.bytesAfterIndent).stop.toNat).depth := by
          rw [a1.depth, hd3]; have := o1.depth; omega
        generalize p3.advance (parseListMarker p.bytesAfterIndent).stop.toNat = p4 at m4 hs4 hd4
        obtain ⟨e1, e2, _, _, e5⟩ := endBlock_deep x m4.la (notDesc_of_inOpen hs4) hd4
        have hr5 : Run am N (p4.endBlock x) := ⟨e1, e2 m4.ne⟩
        have hs5 : InOpen (p4.endBlock x).state := by rw [e5]; exact Or.inr (inOpen_markMatched hs4)
        generalize p4.endBlock x = p5 at hr5 hs5
        split
        · obtain ⟨i1, i2⟩ := hr5.setIndent ((p.indent : Int) + (parseListMarker p.bytesAfterIndent).stop.toNat + 1)
          obtain ⟨l1, l2, _, _⟩ := consumeLine_frame (p5.setContainerIndent ((p.indent : Int) + (parseListMarker p.bytesAfterIndent).stop.toNat + 1))
          exact StartOK.of_run (i1.cur l1) (Or.inr (l2 (by rw [i2]; exact hs5)))
        · split
          · obtain ⟨i1, i2⟩ := hr5.setIndent ((p.indent : Int) + (parseListMarker p.bytesAfterIndent).stop.toNat + 1)
            exact StartOK.of_run i1 (Or.inl (by rw [i2]; exact hs5))
          · split
            · obtain ⟨d1, d2⟩ := consumeIndentN_frame p5 1
              obtain ⟨i1, i2⟩ := (hr5.cur d1).setIndent ((p.indent : Int) + (parseListMarker p.bytesAfterIndent).stop.toNat + 1)
              exact StartOK.of_run i1 (Or.inl (by rw [i2]; exact d2.inOpen hs5))
            · obtain ⟨d1, d2⟩ := consumeIndentN_frame p5 p5.indent
              obtain ⟨i1, i2⟩ := (hr5.cur d1).setIndent ((p.indent : Int) + (parseListMarker p.bytesAfterIndent).stop.toNat + p5.indent)
              exact StartOK.of_run i1 (Or.inl (by rw [i2]; exact d2.inOpen hs5))

/-! ### startSetext -/

/-- Changing the kind of the container and closing it = closing the last child of the parent after the change. -/
theorem setextRoot_eq (x : PExt) (src : Bytes) (e : Int) (level : Int) (root : PB) (d : Nat) :
    spineModify (replLast (closeBlock x src e)) (spineModify (PB.setLabel (setextLabel level)) root (d + 1)) d =
    spineModify (replLast fun c => closeBlock x src e (c.setLabel (setextLabel level))) root d := by
  rw [spineModify_succ_last, spineModify_comp]
  apply spineModify_congr
  intro b
  exact replLast_comp _ _ b

theorem dv_ne {root b : PB} {d : Nat} (h : spineGet root (d + 1) = some b) : NE root := by
  obtain ⟨y, hy⟩ := spineGet_le h (show 1 ≤ d + 1 by omega)
  rw [spineGet_one] at hy
  intro he; rw [he] at hy; cases hy

theorem startSetext_ok {am : Bool} {N : Nat} {p : LP} (x : PExt) (h : LA am N p) (hs : InOpen p.state) :
    StartOK am N p (startSetext x p) := by
  unfold startSetext
  split
  · exact StartOK.self h hs
  · rename_i hkc
    have hkc' : p.containerKind = BK.paragraph := by simpa using hkc
    simp only
    split
    · exact StartOK.self h hs
    · split
      · exact StartOK.self h hs
      · -- the container is a paragraph, hence not the document
        obtain ⟨b, hb⟩ := h.dv
        have hcb : p.container = b := container_eq hb
        have hd : p.depth ≠ 0 := by
          intro h0
          rw [h0, spineGet_zero] at hb
          cases hb
          unfold LP.containerKind at hkc'
          rw [hcb] at hkc'
          unfold PB.kind at hkc'
          rw [h.root.kind] at hkc'
          revert hkc'; decide
        obtain ⟨d, hd'⟩ : ∃ d, p.depth = d + 1 := ⟨p.depth - 1, by omega⟩
        have hne : NE p.root := by rw [hd'] at hb; exact dv_ne hb
        generalize hlev : (parseSetextHeadingUnderline p.bytesAfterIndent : Int) = level
        -- the three steps
        have e0 : p.modifyContainer (PB.setLabel fun l => { l with kind := BK.setextHeading, n := level }) =
            { p with root := spineModify (PB.setLabel (setextLabel level)) p.root p.depth } := rfl
        rw [e0]
        generalize hp1 : ({ p with root := spineModify (PB.setLabel (setextLabel level)) p.root p.depth } : LP) = p1
        have f1 : p1.source = p.source ∧ p1.lineStart = p.lineStart ∧ p1.line = p.line ∧ p1.i = p.i ∧ p1.depth = p.depth ∧
            p1.state = p.state ∧ p1.root = spineModify (PB.setLabel (setextLabel level)) p.root p.depth := by
          rw [← hp1]; exact ⟨rfl, rfl, rfl, rfl, rfl, rfl, rfl⟩
        obtain ⟨l1, l2, _, _⟩ := consumeLine_frame p1
        have hs2 : p1.consumeLine.state = stateLineConsumed := l2 (by rw [f1.2.2.2.2.2.1]; exact hs)
        generalize p1.consumeLine = p2 at l1 hs2
        rw [endBlock_eq x p2 (by rw [hs2]; decide)]
        obtain ⟨m1, m2, m3, _⟩ := markMatched_frame p2
        have hs3 : p2.markMatched.state = stateLineConsumed := by
          rw [m2.eq_of_ne (by rw [hs2]; decide)]; exact hs2
        generalize p2.markMatched = p3 at m1 m3 hs3
        have f3 : p3.source = p.source ∧ p3.lineStart = p.lineStart ∧ p3.line = p.line ∧ p3.depth = d + 1 ∧
            p3.root = spineModify (PB.setLabel (setextLabel level)) p.root (d + 1) ∧ p3.i ≤ p3.line.length := by
          refine ⟨by rw [m1.source, l1.source, f1.1], by rw [m1.lineStart, l1.lineStart, f1.2.1],
            by rw [m1.line, l1.line, f1.2.2.1], by rw [m1.depth, l1.depth, f1.2.2.2.2.1, hd'],
            by rw [m1.root, l1.root, f1.2.2.2.2.2.2, hd'], ?_⟩
          apply m1.ile; apply l1.ile; rw [f1.2.2.2.1, f1.2.2.1]; exact h.ile
        rw [closeContainer_eq x p3 _ (by rw [f3.2.2.2.1]; omega)]
        have hroot : spineModify (replLast (closeBlock x p3.source (p3.lineStart + p3.i))) p3.root (p3.depth - 1) =
            spineModify (replLast fun c => closeBlock x p.source ((p.lineStart : Int) + p3.i) (c.setLabel (setextLabel level))) p.root d := by
          rw [f3.2.2.2.2.1, f3.2.2.2.1, f3.1, f3.2.1]
          exact setextRoot_eq x p.source _ level p.root d
        rw [hroot, f3.2.2.2.1]
        simp only [Nat.add_sub_cancel]
        have hcur := h.cur
        have hile : p3.i ≤ p.line.length := by rw [← f3.2.2.1]; exact f3.2.2.2.2.2
        have he0 : (p.lineStart : Int) ≤ (p.lineStart : Int) + p3.i := by omega
        have he1 : (p.lineStart : Int) + p3.i ≤ (N : Int) := by omega
        cases d with
        | zero =>
          -- a child of the document becomes a heading
          rw [spineModify_zero]
          have hlast : ∀ c, p.root.blocks.getLast? = some c → c = b := by
            intro c hc
            rw [hd', spineGet_one, hc] at hb
            cases hb; rfl
          have hkp : ∀ c, p.root.blocks.getLast? = some c → c.label.kind = BK.paragraph := by
            intro c hc
            rw [hlast c hc, ← hcb]; exact hkc'
          obtain ⟨k1, k2⟩ := h.root.closeSetext0 x p.source level he0 he1 he0 hkp
          have hls : p.lineStart ≤ N := by omega
          refine ⟨Or.inr ⟨hs3, rfl, ⟨k1.kind, k1.stop, k1.kids, k1.cle.mono he1⟩, ?_⟩, fun hn => k2 hn, Or.inr (k2 hne)⟩
          -- the last child is closed, or all open blocks matched
          cases ham : am with
          | true => exact Or.inr rfl
          | false =>
            left
            apply closeSetext0_closed
            intro c hc
            have := h.rp ham (by rw [hd']) c hc
            unfold PBClosed
            by_cases hneg : c.label.stop < 0
            · exact absurd (hkp c hc) (this hneg)
            · omega
        | succ d =>
          have hdeep := h.root.deep (replLast fun c => closeBlock x p.source ((p.lineStart : Int) + p3.i)
            (c.setLabel (setextLabel level))) (d + 1) (by omega) (fun _ c _ => HeadRel.replLast _ c)
          have hdv : ∃ y, spineGet p.root (d + 1) = some y := spineGet_le hb (by omega)
          refine ⟨Or.inl ⟨⟨by rw [f3.2.1, f3.2.2.1]; exact h.cur, f3.2.2.2.2.2, ?_, by rw [f3.2.1]; exact hdeep.1, ?_⟩,
            Or.inr hs3⟩, fun hn => hdeep.2.1 hn, Or.inr (hdeep.2.1 hne)⟩
          · obtain ⟨y, hy⟩ := hdv
            exact ⟨_, by simp only; rw [spineGet_modify_same, hy]; rfl⟩
          · intro ham hd1 c hc hneg
            simp only at hd1 hc
            have hd0 : d = 0 := by omega
            subst hd0
            rw [lastKid_deep] at hc
            cases hc0 : p.root.blocks.getLast? with
            | none => rw [hc0] at hc; cases hc
            | some c0 =>
              rw [hc0] at hc
              simp only [Option.map_some, Option.some.injEq, spineModify_zero] at hc
              subst hc
              rw [hd'] at hb
              have hk := kids_of_depth2 hc0 hb
              have := not_para_of_kids h.root hc0 hk
              rw [(replLast_same _ c0).1] at hneg ⊢
              intro hkp; exact this ⟨hneg, hkp⟩

end CM.Proofs
