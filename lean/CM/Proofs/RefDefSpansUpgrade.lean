import CM.Proofs.RefDefSpansRd6
import CM.Proofs.RefDefSpansClose
/-
C02, block half — from `PBSpans QT` and `GoodT` to `PBSpans (RefDefSpansOK …)` (the check of `blocksLPc`), and
`GoodT` under the translation `makeRoot` applies to the pending blocks.
-/
namespace CM.Proofs.RDS
open CM CM.Model CM.Gen CM.Proofs.BSp CM.Proofs.BT CM.Proofs.BG

/-! ### the check passes -/

/-- An open paragraph with good inline children can be split with valid spans. -/
theorem refDefSpansOK_of_good (x : PExt) (src : Bytes) (bd L : Int) (hLs : L ≤ (src.length : Int)) (l : PLabel) (is : List Tree)
    (hk : l.kind = BK.paragraph) (h0 : 0 ≤ l.start) (hs : l.start ≤ L) (hi : InlsOK l.start L is) (hP : ParaGood src bd is) :
    RefDefSpansOK x src L (src.length : Int) l is = true := by
  rcases hP with hN | hNB
  · exact paraSpans_of_nodes x src L _ l is hk h0 hs hLs hi (fun t ht => (hN t ht).1)
  · exact refDefSpansOK_of_no_bracket x src L _ l is (current_of_noBracket hNB) (by omega) hLs hs hi

theorem PBSpansL_mem {Q : ParaPred} {hi : Int} : ∀ {bs : List PB} {po : Bool} {lo : Int}, PBSpansL Q po lo hi bs →
    ∀ c ∈ bs, ∃ lo', lo ≤ lo' ∧ PBSpans Q lo' hi c := by
  intro bs
  induction bs with
  | nil => intro _ _ _ c hc; cases hc
  | cons b rest ih =>
    intro po lo h c hc
    rw [PBSpansL_cons] at h
    obtain ⟨h1, h2, h3⟩ := h
    rcases List.mem_cons.mp hc with rfl | hc'
    · exact ⟨lo, Int.le_refl _, h1⟩
    · have hbc : 0 ≤ b.label.stop := by
        cases hbo : b.isOpen
        · exact (isOpen_false_iff b).mp hbo
        · have := (h2 hbo).1; subst this; cases hc'
      obtain ⟨lo', hlo', hsp⟩ := ih h3 c hc'
      have := PBSpans_closed_bounds h1 hbc
      exact ⟨lo', by omega, hsp⟩

/-- **The check of the checked line parser passes** on a tree with valid spans whose paragraphs are good. -/
theorem pbSpans_upgrade (x : PExt) (src : Bytes) (bd L : Int) (hLs : L ≤ (src.length : Int)) :
    ∀ b : PB, ∀ lo : Int, 0 ≤ lo → PBSpans QT lo L b → GoodT src bd b →
      PBSpans (RefDefSpansOK x src L (src.length : Int)) lo L b := by
  apply PB.ind
  intro l bs is ih lo hlo hsp hg
  by_cases hc : 0 ≤ l.stop
  · exact PBSpans_closed_Q (b := .mk l bs is) hc hsp
  have ho : l.stop < 0 := by omega
  rw [GoodT_mk] at hg
  rw [PBSpans_mk, endOf_open ho] at hsp ⊢
  obtain ⟨a1, a2, a3, a4, a5, a6, a7⟩ := hsp
  refine ⟨a1, a2, a3, a4, ?_, a6, fun ho' => ⟨(a7 ho').1, fun hk => ?_⟩⟩
  · -- the children
    have key : ∀ (cs : List PB) (po : Bool) (lo' : Int), (∀ c ∈ cs, c ∈ bs) → 0 ≤ lo' → PBSpansL QT po lo' L cs →
        PBSpansL (RefDefSpansOK x src L (src.length : Int)) po lo' L cs := by
      intro cs
      induction cs with
      | nil => intro _ _ _ _ _; exact PBSpansL_nil _ _ _ _
      | cons c rest ihr =>
        intro po lo' hsub hlo' h
        rw [PBSpansL_cons] at h ⊢
        obtain ⟨h1, h2, h3⟩ := h
        have hcm : c ∈ bs := hsub c (by simp)
        refine ⟨ih c hcm lo' hlo' h1 (hg.2 c hcm), h2, ?_⟩
        cases rest with
        | nil => exact PBSpansL_nil _ _ _ _
        | cons r rest' =>
          have hcc : 0 ≤ c.label.stop := by
            cases hbo : c.isOpen
            · exact (isOpen_false_iff c).mp hbo
            · have := (h2 hbo).1; cases this
          exact ihr po _ (fun c' hc' => hsub c' (List.mem_cons_of_mem _ hc')) hcc h3
    exact key bs _ _ (fun _ h => h) (by omega) a5
  · exact refDefSpansOK_of_good x src bd L hLs l is hk (by omega) a2 a4 (hg.1.1 hk)

/-! ### translation -/

theorem getD_drop' (src : Bytes) (n j : Nat) : (src.drop n).getD j 0 = src.getD (n + j) 0 := getD_drop_add src n j

theorem offsetTree_label' (n : Nat) (t : Tree) (h : 0 ≤ t.label.stop) :
    (offsetTree (-(n : Int)) t).label.start = t.label.start - n ∧ (offsetTree (-(n : Int)) t).label.stop = t.label.stop - n ∧
    isIndent (offsetTree (-(n : Int)) t) = isIndent t := by
  cases t with
  | node l cs =>
    simp only [Tree.label] at h
    simp only [offsetTree, Tree.label, isIndent, Node.isI]
    refine ⟨by omega, ?_, trivial⟩
    rw [if_pos (by omega)]; omega

theorem NodeOK_offset {src : Bytes} (n : Nat) {t : Tree} (h : NodeOK src t) (hn : (n : Int) ≤ t.label.start) :
    NodeOK (src.drop n) (offsetTree (-(n : Int)) t) := by
  obtain ⟨h1, h2, h3, h4⟩ := h
  obtain ⟨e1, e2, e3⟩ := offsetTree_label' n t (by omega)
  refine ⟨by omega, ?_, fun hi => ?_, fun hi => ?_⟩
  · rw [e2, List.length_drop]; omega
  · rw [e1, e2]; rw [e3] at hi; have := h3 hi; omega
  · rw [e3] at hi
    rw [e1, e2]
    intro j hs hj
    obtain ⟨k1, k2⟩ := h4 hi (n + j) (by omega) (by omega)
    rw [getD_drop']
    refine ⟨fun hh => by have := k1 hh; omega, fun hh => ?_⟩
    rcases k2 hh with k | ⟨k, k'⟩
    · left; omega
    · right
      refine ⟨by omega, ?_⟩
      rw [getD_drop']
      have : n + (j + 1) = n + j + 1 := by omega
      rw [this]; exact k'

theorem NoBracket_offset {src : Bytes} (n : Nat) {is : List Tree} (h : NoBracket src is)
    (hn : ∀ t ∈ is, (n : Int) ≤ t.label.start) : NoBracket (src.drop n) (is.map (offsetTree (-(n : Int)))) := by
  obtain ⟨first, rest, e, h1, h2, h3, h4, h5⟩ := h
  have hnf := hn first (by rw [e]; simp)
  obtain ⟨e1, e2, e3⟩ := offsetTree_label' n first (by omega)
  refine ⟨offsetTree (-(n : Int)) first, rest.map (offsetTree (-(n : Int))), by rw [e]; rfl, by rw [e3]; exact h1,
    by omega, by omega, ?_, ?_⟩
  · rw [e1, List.length_drop]; omega
  · rw [e1, getD_drop']
    have : n + (first.label.start - ↑n).toNat = first.label.start.toNat := by omega
    rw [this]; exact h5

theorem GoodT_offset {src : Bytes} {bd : Int} (n : Nat) : ∀ b : PB, ∀ lo hi : Int, (n : Int) ≤ lo → PBSpans QT lo hi b →
    GoodT src bd b → GoodT (src.drop n) (bd - n) (offsetPB (-(n : Int)) b) := by
  apply PB.ind
  intro l bs is ih lo hi hlo hsp hg
  rw [GoodT_mk] at hg
  have hsp' := hsp
  rw [PBSpans_mk] at hsp
  obtain ⟨a1, a2, a3, a4, a5, a6, a7⟩ := hsp
  have hin := inls_bounds a4
  simp only [offsetPB]
  rw [offsetTrees_eq_map, offsetPBs_eq_map, GoodT_mk]
  refine ⟨⟨fun hk => ?_, fun hs => ?_⟩, ?_⟩
  · have hP := hg.1.1 hk
    show ParaGood (src.drop n) (bd - n) (is.map (offsetTree (-(n : Int))))
    rcases hP with hN | hNB
    · left
      intro t ht
      rw [List.mem_map] at ht
      obtain ⟨t0, ht0, rfl⟩ := ht
      have hb := hin t0 ht0
      have hN0 := hN t0 ht0
      refine ⟨NodeOK_offset n hN0.1 (by omega), ?_⟩
      rw [(offsetTree_label' n t0 (by omega)).2.1]
      omega
    · right
      exact NoBracket_offset n hNB (fun t ht => by have := (hin t ht).1; omega)
  · simp only [PB.label] at hs
    simp only [PB.kind, PB.label]
    by_cases hc : 0 ≤ l.stop
    · exfalso
      have := PBSpans_closed_bounds hsp' hc
      simp only [PB.label] at this
      rw [if_pos hc] at hs
      omega
    · exact hg.1.2 (show l.stop < 0 by omega)
  · intro c hc
    rw [List.mem_map] at hc
    obtain ⟨c0, hc0, rfl⟩ := hc
    obtain ⟨lo', hlo', hsp0⟩ := PBSpansL_mem a5 c0 hc0
    exact ih c0 hc0 lo' _ (by omega) hsp0 (hg.2 c0 hc0)

theorem GoodL_offset {src : Bytes} {bd : Int} (n : Nat) {bs : List PB} {po : Bool} {lo hi : Int} (hlo : (n : Int) ≤ lo)
    (hsp : PBSpansL QT po lo hi bs) (hg : ∀ b ∈ bs, GoodT src bd b) :
    ∀ b ∈ offsetPBs (-(n : Int)) bs, GoodT (src.drop n) (bd - n) b := by
  intro b hb
  rw [offsetPBs_eq_map, List.mem_map] at hb
  obtain ⟨b0, hb0, rfl⟩ := hb
  obtain ⟨lo', hlo', hsp0⟩ := PBSpansL_mem hsp b0 hb0
  exact GoodT_offset n b0 lo' hi (by omega) hsp0 (hg b0 hb0)

end CM.Proofs.RDS
