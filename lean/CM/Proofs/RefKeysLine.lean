import CM.Proofs.RefKeysOps
import CM.Proofs.BlocksGrammar
/-
C12 — keys are normal forms, part 4: `processLine` keeps `PBRefs P` of the root, and so does the stream machine:
every `Root` delivered by `drain (blocksLP x) …` satisfies `PBRefs P`.
-/
namespace CM.Proofs.RK
open CM CM.Model CM.Gen
open CM.Proofs.BT CM.Proofs.BG

variable {P : Bytes → Prop} {x : PExt}

section Line
attribute [local irreducible] LP.advance LP.consumeIndentN LP.consumeLine LP.openBlock LP.endBlock LP.collectInline
  LP.setContainerIndent LP.closeContainer LP.closeLastChild LP.modifyContainer LP.setPanic LP.markMatched LP.appendInline

/-! ### ruleMatch, descendLoop -/

theorem ruleMatch_R (hP : RefPred x P) (kind : Nat) (p : LP) (h : PBRefs P p.root) :
    ∀ ok q, ruleMatch x kind p = some (ok, q) → PBRefs P q.root := by
  intro ok q hr
  unfold ruleMatch at hr
  simp only [] at hr
  repeat' split at hr
  all_goals (cases hr <;> rok)

theorem descendLoop_R (hP : RefPred x P) : ∀ (fuel : Nat) (p : LP) (parent : Nat), PBRefs P p.root →
    PBRefs P (descendLoop x fuel p parent).2.root := by
  intro fuel
  induction fuel with
  | zero => intro p parent h; exact h
  | succ fuel ih =>
    intro p parent h
    unfold descendLoop
    split
    · exact h
    rename_i c hc
    split
    · exact h
    simp only []
    split
    · exact h
    · rename_i ok p2 hrm
      have h2 : PBRefs P p2.root := by
        refine ruleMatch_R hP c.kind _ ?_ ok p2 hrm
        exact h
      split
      · exact closeContainer_R hP p2 _ h2
      · split
        · exact h2
        · exact ih _ _ h2

theorem descendOpenBlocks_R (hP : RefPred x P) (p : LP) (h : PBRefs P p.root) :
    PBRefs P (descendOpenBlocks x p).2.root :=
  descendLoop_R hP _ p 0 h

/-! ### tryStarts, openingLoop, openNewBlocks -/

theorem tryStarts_R : ∀ (fs : List (LP → LP)), (∀ f ∈ fs, ∀ q : LP, PBRefs P q.root → PBRefs P (f q).root) →
    ∀ p : LP, PBRefs P p.root → PBRefs P (tryStarts fs p).root := by
  intro fs
  induction fs with
  | nil => intro _ p h; exact h
  | cons f rest ih =>
    intro hf p h
    unfold tryStarts
    simp only []
    have sp := hf f (List.mem_cons_self ..) { p with state := stateOpening } h
    generalize f { p with state := stateOpening } = p' at sp
    split
    · exact sp
    · exact ih (fun g hg => hf g (List.mem_cons_of_mem _ hg)) p' sp

theorem openingLoop_R (hP : RefPred x P) : ∀ (fuel : Nat) (p : LP), PBRefs P p.root →
    PBRefs P (openingLoop x fuel p).2.root := by
  intro fuel
  induction fuel with
  | zero => intro p h; exact h
  | succ fuel ih =>
    intro p h
    unfold openingLoop
    split
    · exact h
    · have ts := tryStarts_R _ (blockStartFns_R hP) p h
      simp only []
      generalize tryStarts (blockStartFns x) p = p' at ts
      split
      · exact ih p' ts
      · split
        · exact ts
        · exact ts

theorem openNewBlocks_R (hP : RefPred x P) (p : LP) (allMatched : Bool) (h : PBRefs P p.root) :
    PBRefs P (openNewBlocks x p allMatched).2.root := by
  unfold openNewBlocks
  split
  · exact closeContainer_R hP _ _ h
  · have ol := openingLoop_R hP (p.line.length + 8) p h
    generalize openingLoop x (p.line.length + 8) p = r at ol
    obtain ⟨hasText, q⟩ := r
    simp only [] at ol ⊢
    split
    · exact ol
    · split
      · exact ol
      · exact closeLastChild_R hP q _ ol

/-! ### addLineText -/

theorem altBlank_R (p : LP) (h : PBRefs P p.root) : PBRefs P (altBlank p).root := by
  unfold altBlank
  split
  · refine PBRefs_spineModify _ ?_ _ _ h
    intro c hc
    obtain ⟨l, bs, is⟩ := c
    simp only []
    cases hgl : bs.getLast? with
    | none => exact hc
    | some c0 =>
      simp only []
      exact PBRefs_replaceLast hc
        (AllRefs.single (PBRefs_setLabel _ (((PBRefs_mk l bs is).1 hc).2 c0 (List.mem_of_getLast? hgl))))
  · exact h

theorem altFlags_R (b : Bool) (p : LP) (h : PBRefs P p.root) : PBRefs P (altFlags b p).root :=
  PBRefs_setBlankFlags _ _ _ h

theorem altCont_R (hP : RefPred x P) (b : Bool) (p : LP) (h : PBRefs P p.root) :
    ∀ q, altCont x b p = some q → PBRefs P q.root := by
  intro q hq
  unfold altCont at hq
  simp only [] at hq
  repeat' split at hq
  all_goals cases hq
  · apply consumeIndentN_R; exact appendInline_R _ _ hP.nil h
  · exact h
  · rok

theorem altTail_R (hnil : P []) (q : LP) (h : PBRefs P q.root) : PBRefs P (altTail q).root := by
  unfold altTail
  simp only []
  repeat' split
  all_goals first
    | (refine appendInline_R _ _ ?_ (appendInline_R _ _ ?_ h) <;> exact hnil)
    | (refine appendInline_R _ _ ?_ h; exact hnil)

theorem addLineText_R (hP : RefPred x P) (p : LP) (h : PBRefs P p.root) : PBRefs P (addLineText x p).root := by
  rw [addLineText_eq]
  have bG := altFlags_R p.isRestBlank (altBlank p) (altBlank_R p h)
  generalize altFlags p.isRestBlank (altBlank p) = pB at bG
  split
  · exact bG
  · rename_i q hq
    exact altTail_R hP.nil q (altCont_R hP _ pB bG q hq)

/-- **One line through the line parser keeps the `ref` invariant.** -/
theorem processLine_R (hP : RefPred x P) (p : LP) (h : PBRefs P p.root) : PBRefs P (processLine x p).root := by
  unfold processLine
  have d := descendOpenBlocks_R hP p h
  generalize descendOpenBlocks x p = r at d
  obtain ⟨allMatched, p1⟩ := r
  simp only [] at d ⊢
  split
  · exact d
  · have oG := openNewBlocks_R hP p1 allMatched d
    generalize openNewBlocks x p1 allMatched = r2 at oG
    obtain ⟨hasText, p2⟩ := r2
    simp only [] at oG ⊢
    split
    · exact addLineText_R hP p2 oG
    · exact oG

end Line

/-! ### the stream machine -/

theorem blocksLP_line_R (hP : RefPred x P) (lp : LP) (h : PBRefs P lp.root) (source : Bytes) (lineStart : Nat) :
    PBRefs P ((blocksLP x).line lp source lineStart).root := by
  apply processLine_R hP
  rw [reset_root]; exact h

theorem docRoot_R (bs : List PB) (h : AllRefs P bs) : PBRefs P (docRoot bs) := by
  unfold docRoot
  rw [PBRefs_mk]
  exact ⟨fun _ ht => (by cases ht), h⟩

theorem kids_R (b : PB) (h : PBRefs P b) : AllRefs P b.blocks := by
  obtain ⟨l, bs, is⟩ := b
  exact ((PBRefs_mk l bs is).1 h).2

theorem new_R (bs : List PB) (h : AllRefs P bs) : PBRefs P ((blocksLP x).new bs).root := docRoot_R bs h

theorem makeRoot_R {p : BP} {kids : List PB} {r : Root} {p' : BP} (h : makeRoot p kids = some (r, p'))
    (hk : AllRefs P kids) : PBRefs P r.block ∧ AllRefs P p'.blocks := by
  unfold makeRoot at h
  split at h
  · cases h
  · rename_i k rest
    split at h
    · cases h
    · simp only [Option.some.injEq, Prod.mk.injEq] at h
      obtain ⟨rfl, rfl⟩ := h
      exact ⟨hk k (List.mem_cons_self ..), AllRefs_offsetPBs _ rest (fun b hb => hk b (List.mem_cons_of_mem _ hb))⟩

theorem parseLines_R (hP : RefPred x P) : ∀ (fuel : Nat) (lp : LP) (ls : Nat) (p : BP) (r : Root) (p' : BP),
    PBRefs P lp.root → parseLines (blocksLP x) fuel lp ls p = (.block r, p') →
    PBRefs P r.block ∧ AllRefs P p'.blocks := by
  intro fuel
  induction fuel with
  | zero => intro lp ls p r p' _ h; simp [parseLines] at h
  | succ fuel ih =>
    intro lp ls p r p' hlp h
    have hl := blocksLP_line_R hP lp hlp (p.buf.take p.i) ls
    have hkids : AllRefs P ((blocksLP x).kids ((blocksLP x).line lp (p.buf.take p.i) ls)) := kids_R _ hl
    simp only [parseLines] at h
    split at h
    · cases h
    · split at h
      · rename_i r0 p0 hmr
        simp only [Prod.mk.injEq, NBOut.block.injEq] at h
        obtain ⟨rfl, rfl⟩ := h
        exact makeRoot_R hmr hkids
      · exact ih _ _ _ r p' hl h

/-- One `NextBlock`. -/
theorem nextBlock_R (hP : RefPred x P) (p : BP) (r : Root) (p' : BP) (hk : AllRefs P p.blocks)
    (h : nextBlock (blocksLP x) p = (.block r, p')) : PBRefs P r.block ∧ AllRefs P p'.blocks := by
  unfold nextBlock at h
  split at h
  · rename_i r0 p0 hmr
    simp only [Prod.mk.injEq, NBOut.block.injEq] at h
    obtain ⟨rfl, rfl⟩ := h
    exact makeRoot_R hmr hk
  · simp only [] at h
    split at h
    · have hb := readline_blocks (p.rd.data.length + p.rd.sched.length + 2) p
      generalize readline (p.rd.data.length + p.rd.sched.length + 2) p = rl at h hb
      obtain ⟨ok, p1⟩ := rl
      simp only [] at h hb
      exact parseLines_R hP _ _ _ _ r p' (new_R _ (by rw [hb]; exact hk)) h
    · split at h
      · split at h
        · simp at h
        · simp at h
      · rename_i q _ hsb
        have hq := skipBlank_blocks _ _ q _ hsb
        exact parseLines_R hP _ _ _ _ r p' (new_R _ (by rw [hq]; exact hk)) h

theorem drain_R (hP : RefPred x P) : ∀ (fuel : Nat) (p : BP) (acc : List Root), AllRefs P p.blocks →
    (∀ r ∈ acc, PBRefs P r.block) → ∀ r ∈ (drain (blocksLP x) fuel p acc).1, PBRefs P r.block := by
  intro fuel
  induction fuel with
  | zero =>
    intro p acc _ hacc r hr
    simp only [drain, List.mem_reverse] at hr
    exact hacc r hr
  | succ fuel ih =>
    intro p acc hk hacc r hr
    unfold drain at hr
    split at hr
    · rename_i r0 p0 hnb
      have g := nextBlock_R hP p r0 p0 hk hnb
      apply ih p0 (r0 :: acc) g.2 _ r hr
      intro r' hr'
      rcases List.mem_cons.1 hr' with rfl | hr'
      · exact g.1
      · exact hacc r' hr'
    · simp only [List.mem_reverse] at hr
      exact hacc r hr

/-- **Every inline child of every block of every `Root` delivered by the stream machine over the block-phase line parser
    has a `ref` attribute that is empty or a result of `transformLinkReferenceSpan x.fold`** (any `P` with `RefPred x P`),
    from any parser state whose pending blocks do. -/
theorem drain_refs (hP : RefPred x P) (fuel : Nat) (p : BP) (hp : AllRefs P p.blocks) :
    ∀ r ∈ (drain (blocksLP x) fuel p []).1, PBRefs P r.block :=
  drain_R hP fuel p [] hp (fun _ h => by cases h)

/-- `Parse` (the whole input in the buffer). -/
theorem drain_refs_mem (hP : RefPred x P) (fuel : Nat) (source : Bytes) :
    ∀ r ∈ (drain (blocksLP x) fuel (memParser source) []).1, PBRefs P r.block :=
  drain_refs hP fuel _ (fun _ h => by cases h)

/-- `NewBlockParser(r)` (streaming, any reader script). -/
theorem drain_refs_stream (hP : RefPred x P) (fuel : Nat) (rd : Reader) :
    ∀ r ∈ (drain (blocksLP x) fuel (newBlockParser rd) []).1, PBRefs P r.block :=
  drain_refs hP fuel _ (fun _ h => by cases h)

/-! ### Non-vacuity -/

section Examples

/-- The hypothesis of `processLine_R` on a non-trivial state (`btP`: the first line of `btSrc`), and its conclusion. -/
theorem btP_refs : PBRefs (RefNormal btX.fold) btP.root := by
  have h := reset_root ((blocksLP btX).new []) btSrc 0
  have e : btP.root = docRoot [] := h
  rw [e]
  exact docRoot_R [] AllRefs.nil
example : PBRefs (RefNormal btX.fold) (processLine btX btP).root :=
  processLine_R (refPred_refNormal btX) btP btP_refs

/-- The predicate is not trivially true: a link label whose `ref` has a leading space is rejected. -/
example : ¬ PBRefs (RefNormal id)
    (.mk { kind := BK.linkRefDef, start := 0 } [] [mkInlineRef IK.linkLabel 1 3 [0x20, 0x61] []]) := by
  intro h
  rw [PBRefs_mk] at h
  have := h.1 _ (List.mem_cons_self ..)
  rcases this with h0 | ⟨w, hw, he⟩
  · cases h0
  · have : w = [0x20, 0x61] := he.symm
    subst this
    revert hw; decide +kernel

end Examples

end CM.Proofs.RK
