import CM.Proofs.EolX1
/-
C14 (a), discharging the `kidsOrd` and "tabs" checks — part 2: the tree invariant `XT` and the paragraph hook.

`XT src b`: at every block of `b`, every inline child is start-minimal (`inlOK`: the positions of its nested children are at
or after its own start), and — for a paragraph — every Indent child sits on a TAB byte of `src` (`TabOK`; this is how
`addLineText` creates them).  `onClose_xq`: the blocks the paragraph hook returns satisfy `XT` again, for a paragraph that is
sorted (`RDS.Ctx`) or does not begin with `[`.
-/
namespace CM.Proofs.EolX
open CM CM.Model CM.Gen CM.Proofs CM.Proofs.RDS CM.Proofs.BSp CM.Proofs.ERd CM.Proofs.BG

/-! ### A predicate at every block -/

mutual
def AllB (Q : PLabel → List Tree → Prop) : PB → Prop
  | .mk l bs is => Q l is ∧ AllL Q bs
def AllL (Q : PLabel → List Tree → Prop) : List PB → Prop
  | [] => True
  | b :: rest => AllB Q b ∧ AllL Q rest
end

theorem AllL_iff {Q : PLabel → List Tree → Prop} (bs : List PB) : AllL Q bs ↔ ∀ b ∈ bs, AllB Q b := by
  induction bs with
  | nil => simp [AllL]
  | cons b rest ih => simp [AllL, ih]

theorem AllB_mk {Q : PLabel → List Tree → Prop} (l : PLabel) (bs : List PB) (is : List Tree) :
    AllB Q (.mk l bs is) ↔ Q l is ∧ ∀ b ∈ bs, AllB Q b := by
  rw [AllB, AllL_iff]

/-- Every Indent child sits on a TAB byte. -/
def TabOK (src : Bytes) (is : List Tree) : Prop := ∀ t ∈ is, isIndent t = true → src.getD t.label.start.toNat 0 = TAB

theorem TabOK.tabs {src : Bytes} {is : List Tree} (h : TabOK src is) : TabsOK src is := by
  intro t ht hi
  rw [h t ht hi]
  decide

/-- The rule at one block. -/
def XQ (src : Bytes) (l : PLabel) (is : List Tree) : Prop :=
  (∀ t ∈ is, inlOK t = true) ∧ (l.kind = BK.paragraph → TabOK src is)

/-- **The invariant.** -/
def XT (src : Bytes) (b : PB) : Prop := AllB (XQ src) b

theorem XT_mk {src : Bytes} (l : PLabel) (bs : List PB) (is : List Tree) :
    XT src (.mk l bs is) ↔ XQ src l is ∧ ∀ b ∈ bs, XT src b := AllB_mk l bs is

theorem XQ.kind {src : Bytes} {l l' : PLabel} {is : List Tree} (h : XQ src l is) (hk : l'.kind = l.kind) : XQ src l' is :=
  ⟨h.1, fun hp => h.2 (by rw [← hk]; exact hp)⟩

theorem XQ.sub {src : Bytes} {l : PLabel} {is is' : List Tree} (h : XQ src l is) (hs : ∀ t ∈ is', t ∈ is) : XQ src l is' :=
  ⟨fun t ht => h.1 t (hs t ht), fun hp t ht => h.2 hp t (hs t ht)⟩

theorem XQ.nil (src : Bytes) (l : PLabel) : XQ src l [] :=
  ⟨fun _ h => absurd h List.not_mem_nil, fun _ _ h => absurd h List.not_mem_nil⟩

theorem XQ.notPara {src : Bytes} {l : PLabel} {is : List Tree} (h : ∀ t ∈ is, inlOK t = true) (hk : l.kind ≠ BK.paragraph) :
    XQ src l is := ⟨h, fun hp => absurd hp hk⟩

theorem XT.pbInl {src : Bytes} : ∀ b : PB, XT src b → pbInl b = true := by
  apply BG.PB.ind
  intro l bs is ih h
  have hh := (XT_mk l bs is).1 h
  rw [pbInl_mk]
  exact ⟨hh.1.1, fun b hb => ih b hb (hh.2 b hb)⟩

/-! ### The shape of destinations and titles -/

theorem destAngle_text (src : Bytes) (start : Nat) : ∀ (f : Nat) (r : Rd),
    (destAngle src start f r).1 = noDest ∨
      ((destAngle src start f r).1.span.start = (start : Int) ∧ (destAngle src start f r).1.text.start = (start : Int) + 1) := by
  intro f
  induction f with
  | zero => intro r; left; rfl
  | succ f ih =>
    intro r
    rw [destAngle]
    generalize r.next src = nx
    obtain ⟨ok, r1⟩ := nx
    simp only []
    split
    · left; rfl
    · generalize r1.current src = cu
      obtain ⟨c, r2⟩ := cu
      simp only []
      split
      · left; rfl
      · split
        · generalize r2.next src = nx2
          obtain ⟨ok2, r3⟩ := nx2
          simp only []
          split
          · left; rfl
          · generalize r3.current src = cu2
            obtain ⟨c2, r4⟩ := cu2
            simp only []
            split
            · left; rfl
            · exact ih r4
        · split
          · right; exact ⟨rfl, rfl⟩
          · exact ih r2

theorem noDest_start : noDest.span.start = -1 := rfl
theorem noTitle_start : noTitle.span.start = -1 := rfl

theorem valid_nonneg {s : SpanI} (h : s.isValid = true) : 0 ≤ s.start := by
  simp only [SpanI.isValid, Bool.and_eq_true, decide_eq_true_eq] at h
  exact h.1.1

/-- A valid destination: its text starts at or after its span, at a natural number. -/
theorem parseLinkDestination_text (src : Bytes) (f : Nat) (r : Rd)
    (hv : (parseLinkDestination src f r).1.span.isValid = true) :
    (parseLinkDestination src f r).1.span.start ≤ (parseLinkDestination src f r).1.text.start ∧
      0 ≤ (parseLinkDestination src f r).1.text.start := by
  have h0 := valid_nonneg hv
  revert hv h0
  unfold parseLinkDestination
  generalize r.current src = cu
  obtain ⟨c, r1⟩ := cu
  simp only []
  split
  · intro hv h0
    rcases destAngle_text src r1.pos f r1 with h | ⟨h1, h2⟩
    · rw [h] at hv; exact absurd hv (by decide)
    · rw [h1, h2]; omega
  · split
    · intro _ _
      show ((r1.pos : Nat) : Int) ≤ ((r1.pos : Nat) : Int) ∧ 0 ≤ ((r1.pos : Nat) : Int)
      omega
    · intro hv; exact absurd hv (by show ¬ (noDest.span.isValid = true); decide)

theorem titleLoop_text (src : Bytes) (start : Nat) (term : UInt8) : ∀ (f : Nat) (r : Rd),
    (titleLoop src start term f r).1 = noTitle ∨
      ((titleLoop src start term f r).1.span.start = (start : Int) ∧
        (titleLoop src start term f r).1.text.start = (start : Int) + 1) := by
  intro f
  induction f with
  | zero => intro r; left; rfl
  | succ f ih =>
    intro r
    rw [titleLoop]
    generalize r.next src = nx
    obtain ⟨ok, r1⟩ := nx
    simp only []
    split
    · left; rfl
    · generalize r1.current src = cu
      obtain ⟨c, r2⟩ := cu
      simp only []
      split
      · generalize r2.next src = nx2
        obtain ⟨ok2, r3⟩ := nx2
        simp only []
        split
        · left; rfl
        · exact ih r3
      · split
        · right; exact ⟨rfl, rfl⟩
        · exact ih r2

theorem parseLinkTitle_text (src : Bytes) (f : Nat) (r : Rd) (hv : (parseLinkTitle src f r).1.span.isValid = true) :
    (parseLinkTitle src f r).1.span.start ≤ (parseLinkTitle src f r).1.text.start ∧
      0 ≤ (parseLinkTitle src f r).1.text.start := by
  have h0 := valid_nonneg hv
  revert hv h0
  unfold parseLinkTitle
  generalize r.current src = cu
  obtain ⟨c, r1⟩ := cu
  simp only []
  split
  · intro hv; exact absurd hv (by show ¬ (noTitle.span.isValid = true); decide)
  · intro hv h0
    rcases titleLoop_text src r1.pos (if c == 0x28 then 0x29 else c) f r1 with h | ⟨h1, h2⟩
    · rw [h] at hv; exact absurd hv (by decide)
    · rw [h1, h2]; omega

/-! ### The nodes of a definition -/

theorem inlOK_mkInlineRef (k : Nat) (a b : Int) (ref : Bytes) (kids : List Tree) (hab : a ≤ b) (hk : treesGE a kids = true) :
    inlOK (mkInlineRef k a b ref kids) = true := by
  simp [inlOK, mkInlineRef, Tree.label, treeGE, hab, hk]

theorem xt_refdef (src : Bytes) (s e : Int) (kids : List Tree) (hk : ∀ t ∈ kids, inlOK t = true) :
    XT src (mkPB BK.linkRefDef s e kids) := by
  unfold mkPB
  rw [XT_mk]
  exact ⟨XQ.notPara hk (by show BK.linkRefDef ≠ BK.paragraph; decide), fun _ h => absurd h List.not_mem_nil⟩

def AllX (src : Bytes) (out : List PB) : Prop := ∀ b ∈ out, XT src b

theorem AllX.snoc {src : Bytes} {res : List PB} {b : PB} (h : AllX src res) (hb : XT src b) : AllX src (res ++ [b]) := by
  intro c hc
  rcases List.mem_append.1 hc with h1 | h1
  · exact h c h1
  · rw [List.mem_singleton.1 h1]; exact hb

/-! ### The loop -/

theorem refDefLoop_xq (x : PExt) (src : Bytes) (orphan : Option PB) (N : Nat) (ho : ∀ o, orphan = some o → XT src o) :
    ∀ (fuel : Nat) (r : Rd) (l : PLabel) (is : List Tree) (result : List PB) (p : Nat),
      Ctx src is → Good src is N p r → XQ src l is → AllX src result →
      AllX src (refDefLoop x src orphan fuel r l is result) := by
  intro fuel
  induction fuel with
  | zero =>
    intro r l is result p hc hg hq hres
    rw [refDefLoop]
    exact hres.snoc ((XT_mk l [] is).2 ⟨hq, fun _ h => absurd h List.not_mem_nil⟩)
  | succ fuel ih =>
    intro r l is result p hc hg hq hres
    have hgive : AllX src (result ++ [PB.mk l [] is]) :=
      hres.snoc ((XT_mk l [] is).2 ⟨hq, fun _ h => absurd h List.not_mem_nil⟩)
    have IT := @ite_prop (List PB) (AllX src)
    have cl := fun q => good_closed hc N q
    -- the children of the three nodes
    have hk1 := fun (a : Nat) (st : Nat) => collect_ge_new x.ext st IK.text false hc hq.1 a
    have hk2 := fun (a : Nat) (st : Nat) => collect_ge_new x.ext st IK.text true hc hq.1 a
    rcases e1 : parseLinkLabel src (rdFuel src is) r with ⟨label, r1⟩
    rcases e2 : r1.current src with ⟨c2, r2⟩
    rcases e3 : r2.next src with ⟨ok3, r3⟩
    rcases e4 : skipLinkSpace src (rdFuel src is) r3 with ⟨ok4, r4⟩
    rcases e5 : parseLinkDestination src (rdFuel src is) r4 with ⟨dest, r5⟩
    rcases e6 : readEOL src (rdFuel src is) r5 with ⟨destEOL, r6⟩
    rcases e7 : r6.current src with ⟨c7, r7⟩
    rcases e8 : skipLinkSpace src (rdFuel src is) r7 with ⟨ok8, r8⟩
    rcases e9 : parseLinkTitle src (rdFuel src is) r8 with ⟨title, r9⟩
    rcases e10 : readEOL src (rdFuel src is) r9 with ⟨titleEOL, r10⟩
    have g1 : Good src is N r.pos r1 := by
      have := parseLinkLabel_cl (cl r.pos) (rdFuel src is) r hg.here; rw [e1] at this; exact this
    have g2 : Good src is N r1.pos r2 := (cl r1.pos).cur' g1.here e2
    have g3 : Good src is N r1.pos r3 := (cl r1.pos).nxt' g2 e3
    have g4 : Good src is N r1.pos r4 := by
      have := skipLinkSpace_cl (cl r1.pos) (rdFuel src is) r3 g3; rw [e4] at this; exact this
    have g5 : Good src is N r4.pos r5 := by
      have := parseLinkDestination_cl (cl r4.pos) (rdFuel src is) r4 g4.here; rw [e5] at this; exact this
    have g6 : Good src is N r5.pos r6 := by
      have := readEOL_cl (cl r5.pos) (rdFuel src is) r5 g5.here; rw [e6] at this; exact this
    have g7 : Good src is N r6.pos r7 := (cl r6.pos).cur' g6.here e7
    have g8 : Good src is N r6.pos r8 := by
      have := skipLinkSpace_cl (cl r6.pos) (rdFuel src is) r7 g7; rw [e8] at this; exact this
    have g9 : Good src is N r8.pos r9 := by
      have := parseLinkTitle_cl (cl r8.pos) (rdFuel src is) r8 g8.here; rw [e9] at this; exact this
    have g10 : Good src is N r9.pos r10 := by
      have := readEOL_cl (cl r9.pos) (rdFuel src is) r9 g9.here; rw [e10] at this; exact this
    have hdt := parseLinkDestination_text src (rdFuel src is) r4
    have htt := parseLinkTitle_text src (rdFuel src is) r8
    rw [e5] at hdt
    rw [e9] at htt
    simp only [] at hdt htt
    rw [refDefLoop]
    simp only [e1]
    simp only [e2]
    simp only [e3]
    simp only [e4]
    simp only [e5]
    simp only [e6]
    simp only [e7]
    simp only [e8]
    simp only [e9]
    simp only [e10]
    have hK1 := hk1 label.inner.start.toNat label.inner.stop.toNat
    have hK2 := hk2 dest.text.start.toNat dest.text.stop.toNat
    have hK3 := hk2 title.text.start.toNat title.text.stop.toNat
    generalize (transformLinkReferenceSpan x.fold src is label.inner.start.toNat label.inner.stop.toNat) = ref
    generalize (collectTextNodes x.ext src label.inner.stop.toNat IK.text false (rdFuel src is)
      (newReader is label.inner.start.toNat) label.inner.start.toNat []) = k1 at hK1
    generalize (collectTextNodes x.ext src dest.text.stop.toNat IK.text true (rdFuel src is)
      (newReader is dest.text.start.toNat) dest.text.start.toNat []) = k2 at hK2
    generalize (collectTextNodes x.ext src title.text.stop.toNat IK.text true (rdFuel src is)
      (newReader is title.text.start.toNat) title.text.start.toNat []) = k3 at hK3
    refine IT (fun _ => hgive) (fun hv => ?_)
    have hv' : label.span.isValid = true := by simpa using hv
    obtain ⟨L1, L2, L3, L4⟩ := parseLinkLabel_spec hc (rdFuel src is) hg e1 hv'
    have hlab : inlOK (mkInlineRef IK.linkLabel label.inner.start label.inner.stop ref k1) = true := by
      apply inlOK_mkInlineRef _ _ _ _ _ L3
      have : ((label.inner.start.toNat : Nat) : Int) = label.inner.start := by omega
      rw [← this]; exact hK1
    refine IT (fun _ => hgive) (fun _ => ?_)
    refine IT (fun _ => hgive) (fun _ => ?_)
    refine IT (fun _ => hgive) (fun hdv => ?_)
    have hdv' : dest.span.isValid = true := by simpa using hdv
    have D3 := valid_le hdv'
    obtain ⟨D4, D5⟩ := hdt hdv'
    have hdest : inlOK (mkInline IK.linkDest dest.span.start dest.span.stop k2) = true := by
      apply inlOK_mkInline _ _ _ _ D3
      exact treesGE_mono (m := ((dest.text.start.toNat : Nat) : Int)) (by omega) k2 hK2
    have hb1 : ∀ stop, XT src (mkPB BK.linkRefDef label.span.start stop
        [mkInlineRef IK.linkLabel label.inner.start label.inner.stop ref k1,
         mkInline IK.linkDest dest.span.start dest.span.stop k2]) := by
      intro stop
      apply xt_refdef
      intro t ht
      simp only [List.mem_cons, List.not_mem_nil, or_false] at ht
      rcases ht with rfl | rfl
      · exact hlab
      · exact hdest
    have horph : ∀ res : List PB, AllX src res → AllX src (orphan.elim res (fun o => res ++ [o])) := by
      intro res hr
      cases horp : orphan with
      | none => exact hr
      | some o => exact hr.snoc (ho o horp)
    refine IT (fun _ => hgive) (fun _ => ?_)
    -- continuing after the block ending at `destEOL`
    have cont6 : ∀ fc, nodeIndexForPosition is r6.pos 0 = some fc →
        XQ src { l with start := r6.pos } (is.drop fc) ∧ Ctx src (is.drop fc) ∧ Good src (is.drop fc) N r6.pos r6 := by
      intro fc hfc
      exact ⟨(hq.kind rfl).sub (fun t ht => List.mem_of_mem_drop ht), hc.drop fc,
        ⟨Nat.le_refl _, g6.rd, drop_ri hc g6.ri hfc⟩⟩
    refine IT (fun _ => by have := horph _ (hres.snoc (hb1 destEOL)); revert this; cases orphan <;> exact fun h => h) (fun _ => ?_)
    refine IT (fun _ => ?_) (fun htv => ?_)
    · refine IT (fun _ => hgive) (fun _ => ?_)
      cases hfc : nodeIndexForPosition is r6.pos 0 with
      | none => have := horph _ (hres.snoc (hb1 destEOL)); revert this; cases orphan <;> exact fun h => h
      | some fc =>
        obtain ⟨q1, q2, q3⟩ := cont6 fc hfc
        exact ih r6 _ _ _ r6.pos q2 q3 q1 (hres.snoc (hb1 _))
    · have htv' : title.span.isValid = true := by simpa using htv
      have T3 := valid_le htv'
      obtain ⟨T4, T5⟩ := htt htv'
      refine IT (fun _ => ?_) (fun _ => ?_)
      · refine IT (fun _ => hgive) (fun _ => ?_)
        cases hfc : nodeIndexForPosition is r6.pos 0 with
        | none => have := horph _ (hres.snoc (hb1 destEOL)); revert this; cases orphan <;> exact fun h => h
        | some fc =>
          obtain ⟨q1, q2, q3⟩ := cont6 fc hfc
          exact (hres.snoc (hb1 _)).snoc ((XT_mk _ [] _).2 ⟨q1, fun _ h => absurd h List.not_mem_nil⟩)
      · have htitle : inlOK (mkInline IK.linkTitle title.span.start title.span.stop k3) = true := by
          apply inlOK_mkInline _ _ _ _ T3
          exact treesGE_mono (m := ((title.text.start.toNat : Nat) : Int)) (by omega) k3 hK3
        have hb2 : XT src (mkPB BK.linkRefDef label.span.start titleEOL
            [mkInlineRef IK.linkLabel label.inner.start label.inner.stop ref k1,
             mkInline IK.linkDest dest.span.start dest.span.stop k2,
             mkInline IK.linkTitle title.span.start title.span.stop k3]) := by
          apply xt_refdef
          intro t ht
          simp only [List.mem_cons, List.not_mem_nil, or_false] at ht
          rcases ht with rfl | rfl | rfl
          · exact hlab
          · exact hdest
          · exact htitle
        cases hfc : nodeIndexForPosition is r10.pos 0 with
        | none => have := horph _ (hres.snoc hb2); revert this; cases orphan <;> exact fun h => h
        | some fc =>
          exact ih r10 _ _ _ r10.pos (hc.drop fc) ⟨Nat.le_refl _, g10.rd, drop_ri hc g10.ri hfc⟩
            ((hq.kind rfl).sub (fun t ht => List.mem_of_mem_drop ht)) (hres.snoc hb2)

end CM.Proofs.EolX
