import CM.Proofs.BlocksWellOps2
/-
The block starts (`startBlockQuote`, `startATX`, …) under the invariant `LA`.
-/
namespace CM.Proofs
open CM CM.Model CM.Gen

/-- What a block start returns: the line is still in progress (state "opening"/"open matched"/"line consumed"),
    or a child of the document has been closed at the end of the consumed line. -/
def StartRes (am : Bool) (N : Nat) (p' : LP) : Prop :=
  (LA am N p' ∧ (InOpen p'.state ∨ p'.state = stateLineConsumed)) ∨ LB am N p'

/-- A block of kind `kind` has been opened and is the container. -/
structure Op (am : Bool) (N : Nat) (q : LP) (kind : Nat) : Prop where
  la : LA am N q
  ne : NE q.root
  depth : 1 ≤ q.depth
  ck : q.containerKind = kind

theorem Op.cur {am : Bool} {N : Nat} {q q' : LP} {kind : Nat} (h : Op am N q kind) (f : CurFrame q q') : Op am N q' kind :=
  ⟨h.la.of_frame f, by rw [f.root]; exact h.ne, by rw [f.depth]; exact h.depth, by rw [(ContFrame.of_cur f).kind]; exact h.ck⟩

theorem notDesc_of_inOpen {s : Nat} (h : InOpen s) : ¬ (s = stateDescending ∨ s = stateDescendTerminated) := by
  rcases h with h | h <;> rw [h] <;> decide

theorem inOpen_markMatched {p : LP} (h : InOpen p.state) : p.markMatched.state = stateOpenMatched := by
  unfold LP.markMatched
  rcases h with h | h
  · rw [h]; rfl
  · rw [h, if_neg (by decide)]; exact h

/-- `openBlock` from the opening phase. -/
theorem Op.openBlock {am : Bool} {N : Nat} {p : LP} (x : PExt) (kind : Nat) (setAttrs : PLabel → PLabel) (h : LA am N p)
    (hs : InOpen p.state) (hk : kind ≠ BK.setextHeading) (hkp : kind ≠ BK.paragraph)
    (ha : ∀ l, (setAttrs l).kind = l.kind ∧ (setAttrs l).stop = l.stop) :
    Op am N (p.openBlock x kind setAttrs) kind ∧ TreeFrame p (p.openBlock x kind setAttrs) ∧
    (p.openBlock x kind setAttrs).state = stateOpenMatched := by
  obtain ⟨o1, o2, o3, o4, o5, o6⟩ := openBlock_LA x kind setAttrs h (notDesc_of_inOpen hs) hk (Or.inl hkp) ha
  exact ⟨⟨o1, o2, o3, o4⟩, o5, by rw [o6]; exact inOpen_markMatched hs⟩

theorem Op.collect {am : Bool} {N : Nat} {q : LP} {kind : Nat} (x : PExt) (ik n : Nat) (h : Op am N q kind)
    (hk : kind ≠ BK.paragraph) :
    Op am N (q.collectInline x ik n) kind ∧ StateStep q.state (q.collectInline x ik n).state := by
  obtain ⟨c1, c2, c3, c4⟩ := collectInline_LA x ik n h.la (fun _ => by rw [h.ck]; exact hk)
  exact ⟨⟨c1, c2 h.ne, by rw [c3.cont.depth]; exact h.depth, by rw [c3.cont.kind]; exact h.ck⟩, c4⟩

theorem Op.setIndent {am : Bool} {N : Nat} {q : LP} {kind : Nat} (n : Int) (h : Op am N q kind) :
    Op am N (q.setContainerIndent n) kind ∧ (q.setContainerIndent n).state = q.state := by
  obtain ⟨c1, c2, _, c4, c5⟩ := setContainerIndent_LA n h.la
  exact ⟨⟨c1, c2 h.ne, by rw [c4.depth]; exact h.depth, by rw [c4.kind]; exact h.ck⟩, c5⟩

/-- `endBlock` once the line is consumed. -/
theorem Op.endBlock {am : Bool} {N : Nat} {q : LP} {kind : Nat} (x : PExt) (h : Op am N q kind)
    (hs : q.state = stateLineConsumed) : StartRes am N (q.endBlock x) ∧ NE (q.endBlock x).root := by
  by_cases hd : q.depth = 1
  · obtain ⟨e1, e2⟩ := endBlock_top x h.la hs hd
    exact ⟨Or.inr e1, e2 h.ne⟩
  · obtain ⟨e1, e2, _, _, e5⟩ := endBlock_deep x h.la (by rw [hs]; decide) (by have := h.depth; omega)
    refine ⟨Or.inl ⟨e1, Or.inr ?_⟩, e2 h.ne⟩
    rw [e5]
    obtain ⟨_, m2, _, _⟩ := markMatched_frame q
    rw [m2.eq_of_ne (by rw [hs]; decide)]; exact hs

/-- The result of a start that did not match: the parser is returned unchanged. -/
theorem startRes_self {am : Bool} {N : Nat} {p : LP} (h : LA am N p) (hs : InOpen p.state) : StartRes am N p :=
  Or.inl ⟨h, Or.inl hs⟩

/-- What every block start guarantees. -/
structure StartOK (am : Bool) (N : Nat) (p p' : LP) : Prop where
  res : StartRes am N p'
  ne : NE p.root → NE p'.root
  fresh : p' = p ∨ NE p'.root

theorem StartOK.self {am : Bool} {N : Nat} {p : LP} (h : LA am N p) (hs : InOpen p.state) : StartOK am N p p :=
  ⟨startRes_self h hs, fun h => h, Or.inl rfl⟩

theorem StartOK.of_op {am : Bool} {N : Nat} {p q : LP} {kind : Nat} (h : Op am N q kind)
    (hs : InOpen q.state ∨ q.state = stateLineConsumed) : StartOK am N p q :=
  ⟨Or.inl ⟨h.la, hs⟩, fun _ => h.ne, Or.inr h.ne⟩

theorem StartOK.of_end {am : Bool} {N : Nat} {p q : LP} (h : StartRes am N q ∧ NE q.root) : StartOK am N p q :=
  ⟨h.1, fun _ => h.2, Or.inr h.2⟩

/-! ### The starts -/

theorem startBlockQuote_ok {am : Bool} {N : Nat} {p : LP} (x : PExt) (h : LA am N p) (hs : InOpen p.state) :
    StartOK am N p (startBlockQuote x p) := by
  unfold startBlockQuote
  simp only
  split
  · exact StartOK.self h hs
  · split
    · exact StartOK.self h hs
    · obtain ⟨c1, c2⟩ := consumeIndentN_frame p p.indent
      obtain ⟨o1, o2, o3⟩ := Op.openBlock x BK.blockQuote id (h.of_frame c1) (c2.inOpen hs) (by decide) (by decide)
        (fun _ => ⟨rfl, rfl⟩)
      obtain ⟨a1, a2⟩ := advance_frame ((p.consumeIndentN p.indent).openBlock x BK.blockQuote) blockQuotePrefix.length
      have hop := o1.cur a1
      have hst : InOpen (((p.consumeIndentN p.indent).openBlock x BK.blockQuote).advance blockQuotePrefix.length).state :=
        a2.inOpen (by rw [o3]; exact Or.inr rfl)
      split
      · obtain ⟨d1, d2⟩ := consumeIndentN_frame (((p.consumeIndentN p.indent).openBlock x BK.blockQuote).advance blockQuotePrefix.length) 1
        exact StartOK.of_op (hop.cur d1) (Or.inl (d2.inOpen hst))
      · exact StartOK.of_op hop (Or.inl hst)

theorem startATX_ok {am : Bool} {N : Nat} {p : LP} (x : PExt) (h : LA am N p) (hs : InOpen p.state) :
    StartOK am N p (startATX x p) := by
  unfold startATX
  simp only
  split
  · exact StartOK.self h hs
  · split
    · exact StartOK.self h hs
    · obtain ⟨c1, c2⟩ := consumeIndentN_frame p p.indent
      obtain ⟨o1, o2, o3⟩ := Op.openBlock x BK.atxHeading
        (fun l => { l with n := (parseATXHeading p.bytesAfterIndent).level }) (h.of_frame c1) (c2.inOpen hs)
        (by decide) (by decide) (fun _ => ⟨rfl, rfl⟩)
      generalize (p.consumeIndentN p.indent).openBlock x BK.atxHeading
        (fun l => { l with n := (parseATXHeading p.bytesAfterIndent).level }) = q1 at o1 o2 o3
      obtain ⟨a1, a2⟩ := advance_frame q1 (parseATXHeading p.bytesAfterIndent).start
      have hop := o1.cur a1
      have hst : InOpen (q1.advance (parseATXHeading p.bytesAfterIndent).start).state :=
        a2.inOpen (by rw [o3]; exact Or.inr rfl)
      generalize q1.advance (parseATXHeading p.bytesAfterIndent).start = q2 at hop hst
      obtain ⟨k1, k2⟩ := hop.collect x IK.unparsed
        ((parseATXHeading p.bytesAfterIndent).stop - (parseATXHeading p.bytesAfterIndent).start) (by decide)
      have hst3 := k2.inOpen hst
      generalize q2.collectInline x IK.unparsed
        ((parseATXHeading p.bytesAfterIndent).stop - (parseATXHeading p.bytesAfterIndent).start) = q3 at k1 hst3
      obtain ⟨l1, l2, _, _⟩ := consumeLine_frame q3
      exact StartOK.of_end ((k1.cur l1).endBlock x (l2 hst3))

theorem startFenced_ok {am : Bool} {N : Nat} {p : LP} (x : PExt) (h : LA am N p) (hs : InOpen p.state) :
    StartOK am N p (startFenced x p) := by
  unfold startFenced
  simp only
  split
  · exact StartOK.self h hs
  · split
    · exact StartOK.self h hs
    · obtain ⟨c1, c2⟩ := consumeIndentN_frame p p.indent
      obtain ⟨o1, o2, o3⟩ := Op.openBlock x BK.fencedCode
        (fun l => { l with char := (parseCodeFence p.bytesAfterIndent).char, n := (parseCodeFence p.bytesAfterIndent).n })
        (h.of_frame c1) (c2.inOpen hs) (by decide) (by decide) (fun _ => ⟨rfl, rfl⟩)
      generalize (p.consumeIndentN p.indent).openBlock x BK.fencedCode
        (fun l => { l with char := (parseCodeFence p.bytesAfterIndent).char, n := (parseCodeFence p.bytesAfterIndent).n }) = q1
        at o1 o2 o3
      obtain ⟨i1, i2⟩ := o1.setIndent (p.indent : Int)
      have hst : InOpen (q1.setContainerIndent (p.indent : Int)).state := by rw [i2, o3]; exact Or.inr rfl
      generalize q1.setContainerIndent (p.indent : Int) = q2 at i1 hst
      split
      · obtain ⟨a1, a2⟩ := advance_frame q2 (parseCodeFence p.bytesAfterIndent).infoStart.toNat
        obtain ⟨k1, k2⟩ := (i1.cur a1).collect x IK.infoString
          ((parseCodeFence p.bytesAfterIndent).infoEnd - (parseCodeFence p.bytesAfterIndent).infoStart).toNat (by decide)
        have hst3 := k2.inOpen (a2.inOpen hst)
        generalize (q2.advance (parseCodeFence p.bytesAfterIndent).infoStart.toNat).collectInline x IK.infoString
          ((parseCodeFence p.bytesAfterIndent).infoEnd - (parseCodeFence p.bytesAfterIndent).infoStart).toNat = q3 at k1 hst3
        obtain ⟨l1, l2, _, _⟩ := consumeLine_frame q3
        exact StartOK.of_op (k1.cur l1) (Or.inr (l2 hst3))
      · obtain ⟨l1, l2, _, _⟩ := consumeLine_frame q2
        exact StartOK.of_op (i1.cur l1) (Or.inr (l2 hst))

theorem htmlStartLoop_ok {am : Bool} {N : Nat} (x : PExt) (line : Bytes) : ∀ (fuel i : Nat) (p : LP), LA am N p →
    InOpen p.state → StartOK am N p (htmlStartLoop x line fuel i p) := by
  intro fuel
  induction fuel with
  | zero => intro i p h hs; exact StartOK.self h hs
  | succ fuel ih =>
    intro i p h hs
    unfold htmlStartLoop
    split
    · exact StartOK.self h hs
    · split
      · split
        · exact StartOK.self h hs
        · obtain ⟨o1, o2, o3⟩ := Op.openBlock x BK.htmlBlock (fun l => { l with n := (i : Int) }) h hs (by decide) (by decide)
            (fun _ => ⟨rfl, rfl⟩)
          generalize p.openBlock x BK.htmlBlock (fun l => { l with n := (i : Int) }) = q1 at o1 o2 o3
          simp only
          split
          · obtain ⟨k1, k2⟩ := o1.collect x IK.rawHTML q1.bytesAfterIndent.length (by decide)
            have hst3 := k2.inOpen (show InOpen q1.state by rw [o3]; exact Or.inr rfl)
            generalize q1.collectInline x IK.rawHTML q1.bytesAfterIndent.length = q3 at k1 hst3
            obtain ⟨l1, l2, _, _⟩ := consumeLine_frame q3
            exact StartOK.of_end ((k1.cur l1).endBlock x (l2 hst3))
          · exact StartOK.of_op o1 (Or.inl (by rw [o3]; exact Or.inr rfl))
      · exact ih (i + 1) p h hs

theorem startHTML_ok {am : Bool} {N : Nat} {p : LP} (x : PExt) (h : LA am N p) (hs : InOpen p.state) :
    StartOK am N p (startHTML x p) := by
  unfold startHTML
  simp only
  split
  · exact StartOK.self h hs
  · split
    · exact StartOK.self h hs
    · exact htmlStartLoop_ok x _ 8 0 p h hs

theorem startThematicBreak_ok {am : Bool} {N : Nat} {p : LP} (x : PExt) (h : LA am N p) (hs : InOpen p.state) :
    StartOK am N p (startThematicBreak x p) := by
  unfold startThematicBreak
  simp only
  split
  · exact StartOK.self h hs
  · split
    · exact StartOK.self h hs
    · obtain ⟨c1, c2⟩ := consumeIndentN_frame p p.indent
      obtain ⟨o1, o2, o3⟩ := Op.openBlock x BK.thematicBreak id (h.of_frame c1) (c2.inOpen hs) (by decide) (by decide)
        (fun _ => ⟨rfl, rfl⟩)
      generalize (p.consumeIndentN p.indent).openBlock x BK.thematicBreak = q1 at o1 o2 o3
      obtain ⟨a1, a2⟩ := advance_frame q1 (parseThematicBreak p.bytesAfterIndent).toNat
      have hst : InOpen (q1.advance (parseThematicBreak p.bytesAfterIndent).toNat).state :=
        a2.inOpen (by rw [o3]; exact Or.inr rfl)
      obtain ⟨l1, l2, _, _⟩ := consumeLine_frame (q1.advance (parseThematicBreak p.bytesAfterIndent).toNat)
      exact StartOK.of_end (((o1.cur a1).cur l1).endBlock x (l2 hst))

theorem startIndentedCode_ok {am : Bool} {N : Nat} {p : LP} (x : PExt) (h : LA am N p) (hs : InOpen p.state) :
    StartOK am N p (startIndentedCode x p) := by
  unfold startIndentedCode
  split
  · exact StartOK.self h hs
  · obtain ⟨c1, c2⟩ := consumeIndentN_frame p codeBlockIndentLimit
    obtain ⟨o1, o2, o3⟩ := Op.openBlock x BK.indentedCode id (h.of_frame c1) (c2.inOpen hs) (by decide) (by decide)
      (fun _ => ⟨rfl, rfl⟩)
    exact StartOK.of_op o1 (Or.inl (by rw [o3]; exact Or.inr rfl))

end CM.Proofs
